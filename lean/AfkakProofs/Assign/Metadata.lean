import AfkakProofs.Assign.Codec
import AfkakProofs.Assign.Utf8
import AfkakProofs.Assign.Facts
/-!
Round trip of the member-metadata codec (`join_group_protocols` → `generate_assignments`' first
loop), and the leader's two-call glue.
-/
namespace Afkak.Assign
open Afkak.Consts

theorem readShortBytes_at {b bs : Bytes} (h : writeShortBytes b = .ok bs) (pre post : Bytes) :
    readShortBytes (pre ++ (bs ++ post)) (pre.length : Int) = .ok (some b, ((pre ++ bs).length : Nat)) := by
  simp only [writeShortBytes] at h
  split at h
  · simp at h
  · cases hl : packInt asgShortLenEncW (b.length : Int) with
    | error e => rw [hl] at h; simp at h
    | ok l =>
      rw [hl] at h
      simp only [Except.ok.injEq] at h
      subst h
      obtain ⟨hll, hlv⟩ := packInt_roundtrip hl
      have hll2 : l.length = 2 := hll
      unfold readShortBytes
      have hskip : ((asgShortLenSkip : Nat) : Int) = ((l.length : Nat) : Int) := by rw [hll2]; rfl
      have hs1 : pySlice (pre ++ (l ++ b ++ post)) (pre.length : Int) ((pre.length : Int) + (asgShortLenSkip : Int)) = l := by
        have := pySlice_at pre l (b ++ post)
        rw [hskip, ← Int.natCast_add]
        simpa [List.append_assoc] using this
      have hs2 : pySlice (pre ++ (l ++ b ++ post)) ((pre.length : Int) + (asgShortLenSkip : Int))
          ((pre.length : Int) + (asgShortLenSkip : Int) + (b.length : Int)) = b := by
        have := pySlice_at (pre ++ l) b post
        rw [hskip, ← Int.natCast_add, ← Int.natCast_add]
        simpa [List.append_assoc] using this
      rw [if_neg (by simp only [List.length_append, hll2, asgShortLenSkip]; omega)]
      simp only [hs1]
      rw [if_neg (by simp [hll2, asgShortLenDecW])]
      simp only [hlv]
      rw [if_neg (by simp only [asgShortNull]; omega), if_neg (by simp only [asgShortLenFloor]; omega)]
      rw [if_neg (by simp only [List.length_append, hll2, asgShortLenSkip]; omega)]
      simp only [hs2]
      simp only [List.length_append, hll2, asgShortLenSkip]
      congr 2
      omega

theorem readShortText_at {s : Str} {bs : Bytes} (h : writeShortText s = .ok bs) (pre post : Bytes) :
    readShortText (pre ++ (bs ++ post)) (pre.length : Int) = .ok (s, ((pre ++ bs).length : Nat)) := by
  unfold writeShortText at h
  cases hb : utf8Encode s with
  | error e => rw [hb] at h; simp at h
  | ok b =>
    rw [hb] at h
    unfold readShortText
    rw [readShortBytes_at h]
    simp only [utf8Decode_encode hb]

theorem decodeSubs_at {ts : List Str} {bs : Bytes} (h : encodeSubs ts = .ok bs) (pre post : Bytes) (acc : List Str) :
    decodeSubs (pre ++ (bs ++ post)) ts.length (pre.length : Int) acc = .ok (acc ++ ts, ((pre ++ bs).length : Nat)) := by
  induction ts generalizing bs pre acc with
  | nil =>
    simp only [encodeSubs, Except.ok.injEq] at h
    subst h; simp [decodeSubs]
  | cons t ts ih =>
    rw [encodeSubs] at h
    cases ht : writeShortText t with
    | error e => rw [ht] at h; simp at h
    | ok tb =>
      rw [ht] at h
      simp only at h
      cases hr : encodeSubs ts with
      | error e => rw [hr] at h; simp at h
      | ok rb =>
        rw [hr] at h
        simp only [Except.ok.injEq] at h
        subst h
        simp only [List.length_cons, decodeSubs]
        have e1 : pre ++ (tb ++ rb ++ post) = pre ++ (tb ++ (rb ++ post)) := by simp [List.append_assoc]
        rw [e1, readShortText_at ht]
        simp only
        have e2 : pre ++ (tb ++ (rb ++ post)) = (pre ++ tb) ++ (rb ++ post) := by simp [List.append_assoc]
        rw [e2, ih hr]
        simp [List.append_assoc]

/-- `decode_join_group_protocol_metadata` reads back what `encode_join_group_protocol_metadata`
    wrote (whenever the encoder did not raise). -/
theorem decodeMetadata_encode {v : Int} {subs : List Str} {ud bs : Bytes} (h : encodeMetadata v subs ud = .ok bs) :
    decodeMetadata bs = .ok (v, subs, some ud) := by
  unfold encodeMetadata at h
  cases h1 : packInt asgMmEncVersionW v with
  | error e => rw [h1] at h; simp at h
  | ok vb =>
    cases h2 : packInt asgMmEncNumSubsW (subs.length : Int) with
    | error e => rw [h1, h2] at h; simp at h
    | ok nb =>
      rw [h1, h2] at h
      simp only at h
      cases h3 : encodeSubs subs with
      | error e => rw [h3] at h; simp at h
      | ok sb =>
        rw [h3] at h
        simp only at h
        cases h4 : writeIntString ud with
        | error e => rw [h4] at h; simp at h
        | ok ub =>
          rw [h4] at h
          simp only [Except.ok.injEq] at h
          subst h
          unfold decodeMetadata
          have h1' : packInt asgMmDecVersionW v = .ok vb := h1
          have h2' : packInt asgMmDecNumSubsW (subs.length : Int) = .ok nb := h2
          have e1 : vb ++ nb ++ sb ++ ub = [] ++ (vb ++ (nb ++ (sb ++ ub))) := by simp [List.append_assoc]
          have r1 := relUnpack2_at h1' h2' [] (sb ++ ub)
          simp only [List.length_nil] at r1
          have : ((0 : Nat) : Int) = 0 := rfl
          rw [this] at r1
          rw [e1, r1]
          simp only [Int.toNat_natCast]
          have e2 : [] ++ (vb ++ (nb ++ (sb ++ ub))) = ([] ++ vb ++ nb) ++ (sb ++ (ub ++ [])) := by simp [List.append_assoc]
          rw [e2, decodeSubs_at h3]
          simp only
          have e3 : ([] ++ vb ++ nb) ++ (sb ++ (ub ++ [])) = ([] ++ vb ++ nb ++ sb) ++ (ub ++ []) := by simp [List.append_assoc]
          rw [e3, readIntString_at h4]
          simp

/-- The first loop of `generate_assignments` recovers every member's subscriptions from what
    `join_group_protocols` encoded. -/
theorem decodeMembers_wireOf {ms : List Member} {w : List (Str × Bytes)} (h : wireOf ms = .ok w) :
    decodeMembers w = .ok ms := by
  induction ms generalizing w with
  | nil =>
    simp only [wireOf, Except.ok.injEq] at h
    subst h; rfl
  | cons m ms ih =>
    rw [wireOf] at h
    cases h1 : joinGroupMetadata m.2 with
    | error e => rw [h1] at h; simp at h
    | ok b =>
      rw [h1] at h
      simp only at h
      cases h2 : wireOf ms with
      | error e => rw [h2] at h; simp at h
      | ok r =>
        rw [h2] at h
        simp only [Except.ok.injEq] at h
        subst h
        rw [decodeMembers, decodeMetadata_encode h1, ih h2]

theorem generateAssignmentsB_wireOf {ms : List Member} {w : List (Str × Bytes)} (h : wireOf ms = .ok w)
    (tp : Dict Str (List Int)) : generateAssignmentsB w tp = generateAssignments ms tp := by
  unfold generateAssignmentsB
  rw [decodeMembers_wireOf h]

/-! ### the leader's glue -/

/-- The leader's first call (empty partition map) asks for exactly the subscribed topics, and the
    second call, made with a map that has an entry for every topic asked for, cannot ask again. -/
theorem leaderAssign_spec {w : List (Str × Bytes)} {ms : List Member} (hd : decodeMembers w = .ok ms)
    (load : List Str → Dict Str (List Int)) (hload : ∀ ts, ∀ t ∈ ts, ∃ ps, dget t (load ts) = some ps) :
    (allTopics (memberMetadata ms) = [] ∧ leaderAssign w load = .error .assertion) ∨
    (allTopics (memberMetadata ms) ≠ [] ∧
      ∃ asg, roundRobin (memberMetadata ms) (load (sortBy strLe (allTopics (memberMetadata ms)))) = .ok asg ∧
        leaderAssign w load = encodeEach asg ms) := by
  have hn := nodup_keys_memberMetadata ms
  unfold leaderAssign generateAssignmentsB
  rw [hd]
  simp only
  rcases roundRobin_outcome hn [] with ⟨h0, h1⟩ | ⟨h0, -, h1⟩ | ⟨h0, h1, -⟩
  · left
    exact ⟨h0, by simp only [generateAssignments, h1]⟩
  · right
    refine ⟨h0, ?_⟩
    simp only [generateAssignments, h1]
    rcases roundRobin_outcome hn (load (sortBy strLe (allTopics (memberMetadata ms)))) with
      ⟨h0', -⟩ | ⟨-, ⟨t, ht, hnone⟩, -⟩ | ⟨-, -, asg, hasg⟩
    · exact absurd h0' h0
    · obtain ⟨ps, hps⟩ := hload _ t ((mem_sortBy strLe).mpr ht)
      rw [hnone] at hps; simp at hps
    · exact ⟨asg, hasg, by simp only [hasg]⟩
  · exfalso
    cases hts : allTopics (memberMetadata ms) with
    | nil => exact h0 hts
    | cons t ts =>
      obtain ⟨ps, hps⟩ := h1 t (by rw [hts]; exact List.mem_cons_self)
      simp [dget] at hps

end Afkak.Assign

namespace Afkak.Assign
open Afkak.Consts Afkak.Monitor.C15

/-! ### the leader's glue with an ARBITRARY loader answer -/

/-- Every way the leader's two calls can end, whatever `_load_topic_partitions` answers: the
    assertion; `_NeedTopicPartitions` raised by the SECOND call — outside the `try`, so it leaves
    `_join_and_sync` — exactly when the answer lacks a subscribed topic; otherwise the round-robin
    assignment over the loaded map, encoded per member. -/
theorem leaderAssign_outcomes {w : List (Str × Bytes)} {ms : List Member} (hd : decodeMembers w = .ok ms)
    (load : List Str → Dict Str (List Int)) :
    (allTopics (memberMetadata ms) = [] ∧ leaderAssign w load = .error .assertion) ∨
    (allTopics (memberMetadata ms) ≠ [] ∧
      (∃ t ∈ allTopics (memberMetadata ms), dget t (load (sortBy strLe (allTopics (memberMetadata ms)))) = none) ∧
      leaderAssign w load = .error (.need (sortBy strLe (allTopics (memberMetadata ms))))) ∨
    (allTopics (memberMetadata ms) ≠ [] ∧
      (∀ t ∈ allTopics (memberMetadata ms), ∃ ps, dget t (load (sortBy strLe (allTopics (memberMetadata ms)))) = some ps) ∧
      ∃ asg, roundRobin (memberMetadata ms) (load (sortBy strLe (allTopics (memberMetadata ms)))) = .ok asg ∧
        leaderAssign w load = encodeEach asg ms) := by
  have hn := nodup_keys_memberMetadata ms
  unfold leaderAssign generateAssignmentsB
  rw [hd]
  simp only
  rcases roundRobin_outcome hn [] with ⟨h0, h1⟩ | ⟨h0, -, h1⟩ | ⟨h0, h1, -⟩
  · left
    exact ⟨h0, by simp only [generateAssignments, h1]⟩
  · right
    simp only [generateAssignments, h1]
    rcases roundRobin_outcome hn (load (sortBy strLe (allTopics (memberMetadata ms)))) with ⟨h0', -⟩ | ⟨-, hmiss, hneed⟩ | ⟨-, hall, asg, hasg⟩
    · exact absurd h0' h0
    · left; exact ⟨h0, hmiss, by simp only [hneed]⟩
    · right; exact ⟨h0, hall, asg, hasg, by simp only [hasg]⟩
  · exfalso
    cases hts : allTopics (memberMetadata ms) with
    | nil => exact h0 hts
    | cons t ts =>
      obtain ⟨ps, hps⟩ := h1 t (by rw [hts]; exact List.mem_cons_self)
      simp [dget] at hps

/-! ### `_load_topic_partitions` keeps its promise -/

theorem snapshotLoop_spec {r : MetaReply} {asked : List Str} {acc snap : Dict Str (List Int)}
    (h : snapshotLoop r asked acc = some snap)
    (hacc : ∀ t ps, dget t acc = some ps → ps ≠ []) :
    (∀ t ps, dget t snap = some ps → ps ≠ []) ∧
    (∀ t, (∃ ps, dget t acc = some ps) → ∃ ps, dget t snap = some ps) ∧
    (∀ t ∈ asked, ∃ ps, dget t snap = some ps) := by
  induction asked generalizing acc with
  | nil =>
    simp only [snapshotLoop, Option.some.injEq] at h
    subst h
    exact ⟨hacc, fun t ht => ht, by simp⟩
  | cons t ts ih =>
    simp only [snapshotLoop] at h
    cases hr : dget t r with
    | none => rw [hr] at h; simp at h
    | some e =>
      obtain ⟨err, ps⟩ := e
      rw [hr] at h
      simp only at h
      by_cases he : err ≠ 0
      · rw [if_pos he] at h; simp at h
      · rw [if_neg he] at h
        by_cases hp : ps = []
        · rw [if_pos hp] at h; simp at h
        · rw [if_neg hp] at h
          have hne : sortBy intLe (dedup ps) ≠ [] := by
            intro hnil
            obtain ⟨p, hpm⟩ := List.exists_mem_of_ne_nil _ hp
            have : p ∈ sortBy intLe (dedup ps) := (mem_sortBy intLe).mpr (mem_dedup.mpr hpm)
            rw [hnil] at this; simp at this
          obtain ⟨i1, i2, i3⟩ := ih h (by
            intro t' ps' hd'
            rw [dget_dset] at hd'
            split at hd'
            · simp only [Option.some.injEq] at hd'; subst hd'; exact hne
            · exact hacc t' ps' hd')
          refine ⟨i1, ?_, ?_⟩
          · intro t' ⟨ps', hd'⟩
            refine i2 t' ?_
            rw [dget_dset]
            split
            · exact ⟨_, rfl⟩
            · exact ⟨ps', hd'⟩
          · intro t' ht'
            rcases List.mem_cons.mp ht' with rfl | ht'
            · exact i2 t' ⟨_, by rw [dget_dset, if_pos rfl]⟩
            · exact i3 t' ht'

/-- When `_load_topic_partitions` fires, its snapshot has a non-empty entry for every requested
    topic, whatever the replies were. -/
theorem loadTopicPartitions_covers {asked : List Str} {replies : List MetaReply} {snap : Dict Str (List Int)} {n : Nat}
    (h : loadTopicPartitions asked replies = some (snap, n)) : loadCovers asked snap = true := by
  induction replies generalizing n with
  | nil => simp [loadTopicPartitions] at h
  | cons r rs ih =>
    simp only [loadTopicPartitions] at h
    cases hs : snapshotOf r asked with
    | some s =>
      rw [hs] at h
      simp only [Option.some.injEq, Prod.mk.injEq] at h
      obtain ⟨rfl, -⟩ := h
      obtain ⟨h1, -, h3⟩ := snapshotLoop_spec (acc := []) hs (by intro t ps hd; simp [dget] at hd)
      unfold loadCovers
      rw [List.all_eq_true]
      intro t ht
      obtain ⟨ps, hps⟩ := h3 t ht
      have := h1 t ps hps
      simp only [hps]
      cases ps with
      | nil => exact absurd rfl this
      | cons _ _ => rfl
    | none =>
      rw [hs] at h
      cases hl : loadTopicPartitions asked rs with
      | none => rw [hl] at h; simp at h
      | some x =>
        obtain ⟨s', n'⟩ := x
        rw [hl] at h
        simp only [Option.some.injEq, Prod.mk.injEq] at h
        obtain ⟨rfl, -⟩ := h
        exact ih hl

/-! ### the subscription encoder does not raise on in-range input -/

theorem utf8EncodeChar_ok {c : Nat} (h1 : c < 0x110000) (h2 : ¬ (0xD800 ≤ c ∧ c ≤ 0xDFFF)) :
    ∃ b, utf8EncodeChar c = .ok b ∧ b.length = utf8CharLen c := by
  unfold utf8EncodeChar utf8CharLen
  by_cases a1 : c < 0x80
  · exact ⟨_, by rw [if_pos a1], by rw [if_pos a1]; rfl⟩
  · by_cases a2 : c < 0x800
    · exact ⟨_, by rw [if_neg a1, if_pos a2], by rw [if_neg a1, if_pos a2]; rfl⟩
    · by_cases a3 : c < 0x10000
      · exact ⟨_, by rw [if_neg a1, if_neg a2, if_pos a3, if_neg h2], by rw [if_neg a1, if_neg a2, if_pos a3]; rfl⟩
      · exact ⟨_, by rw [if_neg a1, if_neg a2, if_neg a3, if_pos h1], by rw [if_neg a1, if_neg a2, if_neg a3]; rfl⟩

theorem utf8Encode_ok {t : Str} (h : ∀ c ∈ t, c < 0x110000 ∧ ¬ (0xD800 ≤ c ∧ c ≤ 0xDFFF)) :
    ∃ b, utf8Encode t = .ok b ∧ b.length = (t.map utf8CharLen).sum := by
  induction t with
  | nil => exact ⟨[], rfl, rfl⟩
  | cons c t ih =>
    obtain ⟨b1, hb1, hl1⟩ := utf8EncodeChar_ok (h c List.mem_cons_self).1 (h c List.mem_cons_self).2
    obtain ⟨b2, hb2, hl2⟩ := ih (fun c' hc' => h c' (List.mem_cons_of_mem _ hc'))
    exact ⟨b1 ++ b2, by rw [utf8Encode, hb1, hb2], by simp [hl1, hl2]⟩

theorem writeShortText_ok {t : Str} (h : ∀ c ∈ t, c < 0x110000 ∧ ¬ (0xD800 ≤ c ∧ c ≤ 0xDFFF))
    (hl : (t.map utf8CharLen).sum ≤ 32767) : ∃ bs, writeShortText t = .ok bs := by
  obtain ⟨b, hb, hbl⟩ := utf8Encode_ok h
  unfold writeShortText
  rw [hb]
  simp only [writeShortBytes]
  rw [if_neg (by simp only [asgShortStrMax]; omega)]
  obtain ⟨l, hl'⟩ := packInt_ok_of_range (w := asgShortLenEncW) (v := (b.length : Int))
    (by simp [asgShortLenEncW]) (by simp [asgShortLenEncW]; omega)
  exact ⟨_, by rw [hl']⟩

theorem encodeSubs_ok {subs : List Str}
    (h : ∀ t ∈ subs, (∀ c ∈ t, c < 0x110000 ∧ ¬ (0xD800 ≤ c ∧ c ≤ 0xDFFF)) ∧ (t.map utf8CharLen).sum ≤ 32767) :
    ∃ bs, encodeSubs subs = .ok bs := by
  induction subs with
  | nil => exact ⟨[], rfl⟩
  | cons t ts ih =>
    obtain ⟨tb, htb⟩ := writeShortText_ok (h t List.mem_cons_self).1 (h t List.mem_cons_self).2
    obtain ⟨rb, hrb⟩ := ih (fun t' ht' => h t' (List.mem_cons_of_mem _ ht'))
    exact ⟨tb ++ rb, by rw [encodeSubs, htb]; simp only [hrb]⟩

/-- `join_group_protocols(subscriptions)` does not raise on in-range subscriptions. -/
theorem joinGroupMetadata_ok {subs : List Str} (h : subsEncodable subs = true) :
    ∃ bs, joinGroupMetadata subs = .ok bs := by
  simp only [subsEncodable, Bool.and_eq_true, decide_eq_true_eq, List.all_eq_true, Bool.not_eq_true',
    Bool.and_eq_false_imp] at h
  obtain ⟨sb, hsb⟩ := encodeSubs_ok (subs := subs) (fun t ht => by
    obtain ⟨h1, h2⟩ := h.2 t ht
    refine ⟨fun c hc => ?_, h2⟩
    obtain ⟨a, b⟩ := h1 c hc
    refine ⟨a, fun hsur => ?_⟩
    have := b hsur.1
    simp only [decide_eq_false_iff_not] at this
    exact this hsur.2)
  obtain ⟨vb, hvb⟩ := packInt_ok_of_range (w := asgMmEncVersionW) (v := asgMmEncodedVersion) (by decide) (by decide)
  obtain ⟨nb, hnb⟩ := packInt_ok_of_range (w := asgMmEncNumSubsW) (v := (subs.length : Int))
    (by simp [asgMmEncNumSubsW]) (by simp [asgMmEncNumSubsW]; omega)
  obtain ⟨ub, hub⟩ : ∃ ub, writeIntString [] = .ok ub := by
    obtain ⟨l, hl⟩ := packInt_ok_of_range (w := asgIntLenEncW) (v := (([] : Bytes).length : Int)) (by decide) (by decide)
    exact ⟨l ++ [], by rw [writeIntString, hl]⟩
  exact ⟨vb ++ nb ++ sb ++ ub, by unfold joinGroupMetadata encodeMetadata; simp only [hvb, hnb, hsb, hub]⟩

end Afkak.Assign
