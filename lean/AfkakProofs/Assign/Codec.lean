import Afkak.Assign
import AfkakProofs.Assign.Dict
/-!
Round trip of the byte-level member-assignment codec: whatever
`encode_sync_group_member_assignment` produces without raising, `decode_assignment` reads back.
-/
namespace Afkak.Assign
open Afkak.Consts

/-! ### big-endian integers -/

theorem length_beBytes (w n : Nat) : (beBytes w n).length = w := by
  induction w with
  | zero => rfl
  | succ w ih => simp [beBytes, ih]

theorem foldl_beBytes (w n acc : Nat) :
    (beBytes w n).foldl (fun acc b => acc * 256 + b.toNat) acc = acc * 256 ^ w + n % 256 ^ w := by
  induction w generalizing acc with
  | zero => simp [beBytes, Nat.mod_one]
  | succ w ih =>
    simp only [beBytes, List.foldl_cons, ih, UInt8.toNat_ofNat']
    have h1 : n / 256 ^ w % 256 % 2 ^ 8 = n / 256 ^ w % 256 := by omega
    rw [h1, Nat.pow_succ, Nat.mod_mul, Nat.add_mul, Nat.mul_assoc, Nat.mul_comm 256 (256 ^ w),
      Nat.mul_comm (n / 256 ^ w % 256) (256 ^ w)]
    omega

theorem beNat_beBytes {w n : Nat} (h : n < 256 ^ w) : beNat (beBytes w n) = n := by
  unfold beNat
  rw [foldl_beBytes, Nat.mod_eq_of_lt h]; simp

/-- `struct.unpack` inverts `struct.pack` on every value `struct.pack` accepts. -/
theorem packInt_roundtrip {w : Nat} {v : Int} {bs : Bytes} (h : packInt w v = .ok bs) :
    bs.length = w ∧ unpackInt bs = v := by
  cases w with
  | zero =>
    cases v <;> simp [packInt] at h
  | succ w =>
    have hX : 256 ^ (w + 1) = 256 * 256 ^ w := by rw [Nat.pow_succ, Nat.mul_comm]
    have hpos : 0 < 256 ^ w := Nat.pow_pos (by decide)
    cases v with
    | ofNat n =>
      simp only [packInt] at h
      split at h
      · rename_i hn
        simp only [Except.ok.injEq] at h
        subst h
        refine ⟨length_beBytes _ _, ?_⟩
        have hlt : n < 256 ^ (w + 1) := by omega
        unfold unpackInt
        simp only [length_beBytes, beNat_beBytes hlt]
        rw [if_neg (by omega)]
      · simp at h
    | negSucc n =>
      simp only [packInt] at h
      split at h
      · rename_i hn
        simp only [Except.ok.injEq] at h
        subst h
        refine ⟨length_beBytes _ _, ?_⟩
        have hlt : 256 ^ (w + 1) - 1 - n < 256 ^ (w + 1) := by omega
        unfold unpackInt
        simp only [length_beBytes, beNat_beBytes hlt]
        rw [if_pos (by omega)]
        congr 1
        omega
      · simp at h

/-- `struct.pack` accepts exactly the two's-complement range. -/
theorem packInt_ok_of_range {w : Nat} {v : Int} (h1 : -((256 ^ w / 2 : Nat) : Int) ≤ v)
    (h2 : v < ((256 ^ w / 2 : Nat) : Int)) : ∃ bs, packInt w v = .ok bs := by
  cases v with
  | ofNat n =>
    have : n < 256 ^ w / 2 := by
      have : (Int.ofNat n) = (n : Int) := rfl
      rw [this] at h2; omega
    exact ⟨beBytes w n, by simp only [packInt, if_pos this]⟩
  | negSucc n =>
    have : n < 256 ^ w / 2 := by
      have : Int.negSucc n = -((n : Int) + 1) := Int.negSucc_eq n
      rw [this] at h1; omega
    exact ⟨beBytes w (256 ^ w - 1 - n), by simp only [packInt, if_pos this]⟩

/-! ### Python slices at a non-negative cursor -/

theorem pyIndex_natCast (n k : Nat) : pyIndex n (k : Int) = min k n := by
  unfold pyIndex
  rw [if_neg (by omega), Int.toNat_natCast]

/-- Reading `bs` at cursor `|pre|` of `pre ++ bs ++ post`. -/
theorem pySlice_at (pre bs post : Bytes) :
    pySlice (pre ++ (bs ++ post)) (pre.length : Int) ((pre.length + bs.length : Nat) : Int) = bs := by
  unfold pySlice
  simp only [pyIndex_natCast, List.length_append]
  have h1 : min pre.length (pre.length + (bs.length + post.length)) = pre.length := by omega
  have h2 : min (pre.length + bs.length) (pre.length + (bs.length + post.length)) - pre.length = bs.length := by omega
  rw [h1, h2, List.drop_left, List.take_left]

/-! ### `relative_unpack` on freshly packed fields -/

theorem relUnpack1_at {w : Nat} {v : Int} {bs : Bytes} (h : packInt w v = .ok bs) (pre post : Bytes) :
    relUnpack1 w (pre ++ (bs ++ post)) (pre.length : Int) = .ok (v, ((pre ++ bs).length : Nat)) := by
  obtain ⟨hl, hv⟩ := packInt_roundtrip h
  unfold relUnpack1
  have hs : pySlice (pre ++ (bs ++ post)) (pre.length : Int) ((pre.length : Int) + (w : Int)) = bs := by
    have := pySlice_at pre bs post
    rw [hl] at this
    rw [← Int.natCast_add]; exact this
  rw [if_neg (by simp only [List.length_append]; omega)]
  simp only [hs]
  rw [if_neg (by simp [hl])]
  simp [hv, hl]

theorem relUnpack2_at {w1 w2 : Nat} {v1 v2 : Int} {b1 b2 : Bytes} (h1 : packInt w1 v1 = .ok b1)
    (h2 : packInt w2 v2 = .ok b2) (pre post : Bytes) :
    relUnpack2 w1 w2 (pre ++ (b1 ++ (b2 ++ post))) (pre.length : Int)
      = .ok (v1, v2, ((pre ++ b1 ++ b2).length : Nat)) := by
  obtain ⟨hl1, hv1⟩ := packInt_roundtrip h1
  obtain ⟨hl2, hv2⟩ := packInt_roundtrip h2
  unfold relUnpack2
  have hs : pySlice (pre ++ (b1 ++ (b2 ++ post))) (pre.length : Int) ((pre.length : Int) + ((w1 + w2 : Nat) : Int))
      = b1 ++ b2 := by
    have := pySlice_at pre (b1 ++ b2) post
    simp only [List.length_append, hl1, hl2, List.append_assoc] at this
    rw [← Int.natCast_add]; exact this
  rw [if_neg (by simp only [List.length_append]; omega)]
  simp only [hs]
  rw [if_neg (by simp [hl1, hl2])]
  simp [List.take_left' hl1, List.drop_left' hl1, hv1, hv2, hl1, hl2]

theorem packInts_spec {w : Nat} {vs : List Int} {bs : Bytes} (h : packInts w vs = .ok bs) :
    bs.length = vs.length * w ∧ chunkInts w vs.length bs = vs := by
  induction vs generalizing bs with
  | nil =>
    simp only [packInts, Except.ok.injEq] at h
    subst h; simp [chunkInts]
  | cons v vs ih =>
    rw [packInts] at h
    cases h1 : packInt w v with
    | error e => rw [h1] at h; simp at h
    | ok b =>
      cases h2 : packInts w vs with
      | error e => rw [h1, h2] at h; simp at h
      | ok bs' =>
        rw [h1, h2] at h
        simp only [Except.ok.injEq] at h
        subst h
        obtain ⟨hl, hv⟩ := packInt_roundtrip h1
        obtain ⟨ihl, ihv⟩ := ih h2
        refine ⟨by simp [hl, ihl, Nat.add_mul, Nat.add_comm], ?_⟩
        simp [chunkInts, List.take_left' hl, List.drop_left' hl, hv, ihv]

theorem relUnpackN_at {w : Nat} {vs : List Int} {bs : Bytes} (h : packInts w vs = .ok bs) (pre post : Bytes) :
    relUnpackN w (vs.length : Int) (pre ++ (bs ++ post)) (pre.length : Int)
      = .ok (vs, ((pre ++ bs).length : Nat)) := by
  obtain ⟨hl, hv⟩ := packInts_spec h
  unfold relUnpackN
  rw [if_neg (by omega)]
  simp only [Int.toNat_natCast]
  have hs : pySlice (pre ++ (bs ++ post)) (pre.length : Int) ((pre.length : Int) + ((vs.length * w : Nat) : Int)) = bs := by
    have := pySlice_at pre bs post
    rw [hl] at this
    rw [← Int.natCast_add]; exact this
  rw [if_neg (by simp only [List.length_append]; omega)]
  simp only [hs]
  rw [if_neg (by simp [hl])]
  simp [hv, hl]

/-! ### strings -/

theorem asciiDecode_encode {s : Str} {b : Bytes} (h : asciiEncode s = .ok b) : asciiDecode b = .ok s := by
  unfold asciiEncode at h
  split at h
  · rename_i hall
    simp only [Except.ok.injEq] at h
    subst h
    rw [List.all_eq_true] at hall
    have hlt : ∀ c ∈ s, c < 128 := fun c hc => by simpa using hall c hc
    unfold asciiDecode
    have h1 : (s.map UInt8.ofNat).all (· < 128) = true := by
      rw [List.all_eq_true]
      intro x hx
      obtain ⟨c, hc, rfl⟩ := List.mem_map.mp hx
      have := hlt c hc
      simp only [decide_eq_true_eq, UInt8.lt_iff_toNat_lt, UInt8.toNat_ofNat']
      have : (128 : UInt8).toNat = 128 := rfl
      omega
    rw [if_pos h1]
    congr 1
    rw [List.map_map]
    have : List.map (UInt8.toNat ∘ UInt8.ofNat) s = List.map id s :=
      List.map_congr_left (fun c hc => by
        have := hlt c hc
        simp only [Function.comp, UInt8.toNat_ofNat', id]
        omega)
    rw [this, List.map_id]
  · simp at h

theorem readShortAscii_at {s : Str} {bs : Bytes} (h : writeShortAscii s = .ok bs) (pre post : Bytes) :
    readShortAscii (pre ++ (bs ++ post)) (pre.length : Int) = .ok (s, ((pre ++ bs).length : Nat)) := by
  unfold writeShortAscii at h
  cases hb : asciiEncode s with
  | error e => rw [hb] at h; simp at h
  | ok b =>
    rw [hb] at h
    simp only [writeShortBytes] at h
    split at h
    · simp at h
    · cases hl : packInt asgShortLenEncW (b.length : Int) with
      | error e => rw [hl] at h; simp at h
      | ok l =>
        rw [hl] at h
        simp only [Except.ok.injEq] at h
        subst h
        obtain ⟨hll, hlv⟩ := packInt_roundtrip hl
        have hll2 : l.length = 2 := hll
        unfold readShortAscii readShortBytes
        have hskip : ((asgShortLenSkip : Nat) : Int) = ((l.length : Nat) : Int) := by rw [hll2]; rfl
        have hs1 : pySlice (pre ++ (l ++ b ++ post)) (pre.length : Int) ((pre.length : Int) + (asgShortLenSkip : Int)) = l := by
          have := pySlice_at pre l (b ++ post)
          rw [hskip, ← Int.natCast_add]
          simpa [List.append_assoc] using this
        have hs2 : pySlice (pre ++ (l ++ b ++ post)) ((pre.length : Int) + (asgShortLenSkip : Int))
            ((pre.length : Int) + (asgShortLenSkip : Int) + (b.length : Int)) = b := by
          have := pySlice_at (pre ++ l) b post
          rw [hskip, ← Int.natCast_add, ← Int.natCast_add]
          simpa [List.append_assoc] using this
        rw [if_neg (by simp only [List.length_append, hll2, asgShortLenSkip]; omega)]
        simp only [hs1]
        rw [if_neg (by simp [hll2, asgShortLenDecW])]
        simp only [hlv]
        rw [if_neg (by simp only [asgShortNull]; omega), if_neg (by simp only [asgShortLenFloor]; omega)]
        rw [if_neg (by simp only [List.length_append, hll2, asgShortLenSkip]; omega)]
        simp only [hs2, asciiDecode_encode hb]
        simp only [List.length_append, hll2, asgShortLenSkip]
        congr 2
        omega

theorem readIntString_at {ud bs : Bytes} (h : writeIntString ud = .ok bs) (pre post : Bytes) :
    readIntString (pre ++ (bs ++ post)) (pre.length : Int) = .ok (some ud, ((pre ++ bs).length : Nat)) := by
  unfold writeIntString at h
  cases hl : packInt asgIntLenEncW (ud.length : Int) with
  | error e => rw [hl] at h; simp at h
  | ok l =>
    rw [hl] at h
    simp only [Except.ok.injEq] at h
    subst h
    obtain ⟨hll, hlv⟩ := packInt_roundtrip hl
    have hll2 : l.length = 4 := hll
    unfold readIntString
    have hskip : ((asgIntLenSkip : Nat) : Int) = ((l.length : Nat) : Int) := by rw [hll2]; rfl
    have hs1 : pySlice (pre ++ (l ++ ud ++ post)) (pre.length : Int) ((pre.length : Int) + (asgIntLenSkip : Int)) = l := by
      have := pySlice_at pre l (ud ++ post)
      rw [hskip, ← Int.natCast_add]
      simpa [List.append_assoc] using this
    have hs2 : pySlice (pre ++ (l ++ ud ++ post)) ((pre.length : Int) + (asgIntLenSkip : Int))
        ((pre.length : Int) + (asgIntLenSkip : Int) + (ud.length : Int)) = ud := by
      have := pySlice_at (pre ++ l) ud post
      rw [hskip, ← Int.natCast_add, ← Int.natCast_add]
      simpa [List.append_assoc] using this
    rw [if_neg (by simp only [List.length_append, hll2, asgIntLenSkip]; omega)]
    simp only [hs1]
    rw [if_neg (by simp [hll2, asgIntLenDecW])]
    simp only [hlv]
    rw [if_neg (by simp only [asgIntNull]; omega), if_neg (by simp only [asgIntLenFloor]; omega)]
    rw [if_neg (by simp only [List.length_append, hll2, asgIntLenSkip]; omega)]
    simp only [hs2]
    simp only [List.length_append, hll2, asgIntLenSkip]
    congr 2
    omega

/-! ### the member assignment -/

theorem decodeTopics_at {a : Dict Str (List Int)} {bs : Bytes} (h : encodeTopics a = .ok bs)
    (pre post : Bytes) (acc : Dict Str (List Int)) :
    decodeTopics (pre ++ (bs ++ post)) a.length (pre.length : Int) acc
      = .ok (a.foldl (fun d e => dset e.1 e.2 d) acc, ((pre ++ bs).length : Nat)) := by
  induction a generalizing bs pre acc with
  | nil =>
    simp only [encodeTopics, Except.ok.injEq] at h
    subst h; simp [decodeTopics]
  | cons e a ih =>
    obtain ⟨t, ps⟩ := e
    rw [encodeTopics] at h
    cases ht : writeShortAscii t with
    | error e => rw [ht] at h; simp at h
    | ok tb =>
      rw [ht] at h
      simp only at h
      cases hn : packInt asgMaEncNumPartsW (ps.length : Int) with
      | error e => rw [hn] at h; simp at h
      | ok nb =>
        cases hp : packInts asgMaEncPartW ps with
        | error e => rw [hn, hp] at h; simp at h
        | ok pb =>
          rw [hn, hp] at h
          simp only at h
          cases hr : encodeTopics a with
          | error e => rw [hr] at h; simp at h
          | ok rb =>
            rw [hr] at h
            simp only [Except.ok.injEq] at h
            subst h
            simp only [List.length_cons, decodeTopics]
            have e1 : pre ++ (tb ++ nb ++ pb ++ rb ++ post) = pre ++ (tb ++ (nb ++ pb ++ rb ++ post)) := by
              simp [List.append_assoc]
            rw [e1, readShortAscii_at ht]
            simp only
            have e2 : pre ++ (tb ++ (nb ++ pb ++ rb ++ post)) = (pre ++ tb) ++ (nb ++ (pb ++ rb ++ post)) := by
              simp [List.append_assoc]
            have hn' : packInt asgMaDecNumPartsW (ps.length : Int) = .ok nb := hn
            rw [e2, relUnpack1_at hn']
            simp only
            have e3 : (pre ++ tb) ++ (nb ++ (pb ++ rb ++ post)) = (pre ++ tb ++ nb) ++ (pb ++ (rb ++ post)) := by
              simp [List.append_assoc]
            have hp' : packInts asgMaDecPartW ps = .ok pb := hp
            rw [e3, relUnpackN_at hp']
            simp only
            have e4 : (pre ++ tb ++ nb) ++ (pb ++ (rb ++ post)) = (pre ++ tb ++ nb ++ pb) ++ (rb ++ post) := by
              simp [List.append_assoc]
            rw [e4, ih hr]
            simp [List.append_assoc]

theorem foldl_dset_self {κ β : Type} [DecidableEq κ] (a acc : Dict κ β) (h : (keys acc ++ keys a).Nodup) :
    a.foldl (fun d e => dset e.1 e.2 d) acc = acc ++ a := by
  induction a generalizing acc with
  | nil => simp
  | cons e a ih =>
    have hm : e.1 ∉ keys acc := by
      intro hm
      exact (List.nodup_append.mp h).2.2 e.1 hm e.1 (by simp [keys]) rfl
    simp only [List.foldl_cons, dset_of_not_mem e.2 hm]
    rw [ih]
    · simp
    · have : keys (acc ++ [(e.1, e.2)]) ++ keys a = keys acc ++ keys (e :: a) := by simp [keys]
      rw [this]; exact h

/-- `decode_sync_group_member_assignment` reads back what `encode_sync_group_member_assignment`
    wrote, for the supported version and a dict (distinct topics). -/
theorem decodeMemberAssignment_encode {v : Int} {a : Dict Str (List Int)} {ud bs : Bytes}
    (h : encodeMemberAssignment v a ud = .ok bs) (hv : v = asgMaSupportedVersion) (hk : (keys a).Nodup) :
    decodeMemberAssignment bs = .ok (v, a, some ud) := by
  unfold encodeMemberAssignment at h
  cases h1 : packInt asgMaEncVersionW v with
  | error e => rw [h1] at h; simp at h
  | ok vb =>
    rw [h1] at h
    simp only at h
    cases h2 : packInt asgMaEncNumTopicsW (a.length : Int) with
    | error e => rw [h2] at h; simp at h
    | ok nb =>
      rw [h2] at h
      simp only at h
      cases h3 : encodeTopics a with
      | error e => rw [h3] at h; simp at h
      | ok tb =>
        rw [h3] at h
        simp only at h
        cases h4 : writeIntString ud with
        | error e => rw [h4] at h; simp at h
        | ok ub =>
          rw [h4] at h
          simp only [Except.ok.injEq] at h
          subst h
          unfold decodeMemberAssignment
          have h1' : packInt asgMaDecVersionW v = .ok vb := h1
          have h2' : packInt asgMaDecNumTopicsW (a.length : Int) = .ok nb := h2
          have e1 : vb ++ nb ++ tb ++ ub = [] ++ (vb ++ (nb ++ (tb ++ ub))) := by simp [List.append_assoc]
          have r1 := relUnpack2_at h1' h2' [] (tb ++ ub)
          simp only [List.length_nil] at r1
          rw [e1]
          have : ((0 : Nat) : Int) = 0 := rfl
          rw [this] at r1
          rw [r1]
          simp only
          rw [if_neg (by simp [hv])]
          simp only [Int.toNat_natCast]
          have e2 : [] ++ (vb ++ (nb ++ (tb ++ ub))) = ([] ++ vb ++ nb) ++ (tb ++ (ub ++ [])) := by simp [List.append_assoc]
          rw [e2, decodeTopics_at h3]
          simp only
          have e3 : ([] ++ vb ++ nb) ++ (tb ++ (ub ++ [])) = ([] ++ vb ++ nb ++ tb) ++ (ub ++ []) := by simp [List.append_assoc]
          rw [e3, readIntString_at h4]
          simp only
          rw [foldl_dset_self a [] (by simpa [keys] using hk)]
          simp

theorem decodeAssignment_encode {v : Int} {a : Dict Str (List Int)} {ud bs : Bytes}
    (h : encodeMemberAssignment v a ud = .ok bs) (hv : v = asgMaSupportedVersion) (hk : (keys a).Nodup) :
    decodeAssignment bs = .ok a := by
  unfold decodeAssignment
  rw [decodeMemberAssignment_encode h hv hk]

/-! ### the encoder does not raise on in-range input -/

theorem packInts_ok {vs : List Int} (h : ∀ p ∈ vs, -2147483648 ≤ p ∧ p < 2147483648) :
    ∃ bs, packInts asgMaEncPartW vs = .ok bs := by
  induction vs with
  | nil => exact ⟨[], rfl⟩
  | cons v vs ih =>
    obtain ⟨bs, hbs⟩ := ih (fun p hp => h p (List.mem_cons_of_mem _ hp))
    obtain ⟨b, hb⟩ := packInt_ok_of_range (w := asgMaEncPartW) (v := v)
      (by have := (h v List.mem_cons_self).1; simpa [asgMaEncPartW] using this)
      (by have := (h v List.mem_cons_self).2; simpa [asgMaEncPartW] using this)
    exact ⟨b ++ bs, by rw [packInts, hb, hbs]⟩

theorem writeShortAscii_ok {t : Str} (h1 : t.all (· < 128) = true) (h2 : t.length ≤ 32767) :
    ∃ bs, writeShortAscii t = .ok bs := by
  unfold writeShortAscii asciiEncode
  rw [if_pos h1]
  simp only [writeShortBytes, List.length_map]
  rw [if_neg (by simp only [asgShortStrMax]; omega)]
  obtain ⟨l, hl⟩ := packInt_ok_of_range (w := asgShortLenEncW) (v := (t.length : Int))
    (by simp [asgShortLenEncW]) (by simp [asgShortLenEncW]; omega)
  exact ⟨_, by rw [hl]⟩

theorem encodeTopics_ok {a : Dict Str (List Int)}
    (h : ∀ e ∈ a, e.1.all (· < 128) = true ∧ e.1.length ≤ 32767 ∧ e.2.length < 2147483648 ∧
      ∀ p ∈ e.2, -2147483648 ≤ p ∧ p < 2147483648) : ∃ bs, encodeTopics a = .ok bs := by
  induction a with
  | nil => exact ⟨[], rfl⟩
  | cons e a ih =>
    obtain ⟨t, ps⟩ := e
    obtain ⟨h1, h2, h3, h4⟩ := h (t, ps) List.mem_cons_self
    simp only at h1 h2 h3 h4
    obtain ⟨rb, hrb⟩ := ih (fun e he => h e (List.mem_cons_of_mem _ he))
    obtain ⟨tb, htb⟩ := writeShortAscii_ok h1 h2
    obtain ⟨nb, hnb⟩ := packInt_ok_of_range (w := asgMaEncNumPartsW) (v := (ps.length : Int))
      (by simp [asgMaEncNumPartsW]) (by simp [asgMaEncNumPartsW]; omega)
    obtain ⟨pb, hpb⟩ := packInts_ok h4
    exact ⟨tb ++ nb ++ pb ++ rb, by rw [encodeTopics, htb]; simp only [hnb, hpb, hrb]⟩

theorem encodeMemberAssignment_ok {a : Dict Str (List Int)} (hlen : a.length < 2147483648)
    (h : ∀ e ∈ a, e.1.all (· < 128) = true ∧ e.1.length ≤ 32767 ∧ e.2.length < 2147483648 ∧
      ∀ p ∈ e.2, -2147483648 ≤ p ∧ p < 2147483648) :
    ∃ bs, encodeMemberAssignment asgMaEncodedVersion a [] = .ok bs := by
  obtain ⟨tb, htb⟩ := encodeTopics_ok h
  obtain ⟨vb, hvb⟩ := packInt_ok_of_range (w := asgMaEncVersionW) (v := asgMaEncodedVersion)
    (by decide) (by decide)
  obtain ⟨nb, hnb⟩ := packInt_ok_of_range (w := asgMaEncNumTopicsW) (v := (a.length : Int))
    (by simp [asgMaEncNumTopicsW]) (by simp [asgMaEncNumTopicsW]; omega)
  obtain ⟨ub, hub⟩ : ∃ ub, writeIntString [] = .ok ub := by
    obtain ⟨l, hl⟩ := packInt_ok_of_range (w := asgIntLenEncW) (v := (([] : Bytes).length : Int))
      (by decide) (by decide)
    exact ⟨l ++ [], by rw [writeIntString, hl]⟩
  exact ⟨vb ++ nb ++ tb ++ ub, by unfold encodeMemberAssignment; simp only [hvb, hnb, htb, hub]⟩

end Afkak.Assign
