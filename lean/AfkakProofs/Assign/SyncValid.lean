import AfkakProofs.Wire.Requests
import AfkakProofs.Wire.RespProofs
/-!
# A SyncGroup request that `encode_sync_group_request` wrote is one the protocol grammar can carry

`Afkak.Wire.syncGroup_bytes` says the frame IS the grammar's encoding of the caller's values; here the
other half needed to parse it back with the grammar's request decoder (`Exact.law`): every value the
encoder accepted fits its field (`valid`), because `struct.pack` / `write_short_bytes` raised otherwise.
-/
namespace Afkak.Wire
open Afkak Afkak.Bytes Afkak.Codec Afkak.Consts Afkak.Monitor.C04

set_option synthInstance.maxSize 100000

theorem pack_h_fits {v : Int} {x : Bytes} (h : pack ['>', 'h'] [v] = .ok x) : IntFits 2 v := by
  have := ((pack_eq _ _ _).mp h).1
  simp only [fieldsOk, fieldSpec, and_true] at this
  exact (fits2 v).mp this

theorem pack_i_fits {v : Int} {x : Bytes} (h : pack ['>', 'i'] [v] = .ok x) : IntFits 4 v := by
  have := ((pack_eq _ _ _).mp h).1
  simp only [fieldsOk, fieldSpec, and_true] at this
  exact (fits4 v).mp this

theorem writeShortBytes_some_valid {b x : Bytes} (h : writeShortBytes (some b) = .ok x) :
    Codec.string.valid b = true := by
  simp only [writeShortBytes] at h
  split at h
  · cases h
  · split at h
    · cases h
    · rename_i l hl
      simp only [fmt_write_short_bytes_0] at hl
      exact (intFitsB_iff _ _).mpr (pack_h_fits hl)

theorem writeShortText_some_valid {s x : Bytes} (h : writeShortText (some s) = .ok x) :
    Codec.string.valid s = true := by
  simp only [writeShortText] at h
  exact writeShortBytes_some_valid h

theorem writeIntString_some_valid {s x : Bytes} (h : writeIntString (some s) = .ok x) :
    Codec.bytes.valid s = true := by
  simp only [writeIntString] at h
  split at h
  · cases h
  · rename_i l hl
    simp only [fmt_write_int_string_1] at hl
    exact (intFitsB_iff _ _).mpr (pack_i_fits hl)

theorem encodeHeader_valid {cid : Bytes} {corr key ver : Int} {x : Bytes} (h : encodeHeader cid corr key ver = .ok x) :
    Spec.header.valid ⟨key, ver, corr, some cid⟩ = true := by
  simp only [encodeHeader, fmt_encode_message_header_0] at h
  split at h
  · cases h
  · rename_i l hl
    have := ((pack_eq _ _ _).mp hl).1
    simp only [fieldsOk, fieldSpec, and_true] at this
    obtain ⟨h1, h2, h3, h4⟩ := this
    simp only [Spec.header, iso, seq, int16, int32, intN, nullableString, nullablePrefixed, Bool.true_and,
      Bool.and_eq_true]
    exact ⟨(intFitsB_iff _ _).mpr ((fits2 _).mp h1), (intFitsB_iff _ _).mpr ((fits2 _).mp h2),
      (intFitsB_iff _ _).mpr ((fits4 _).mp h3), (intFitsB_iff _ _).mpr ((fits2 _).mp h4)⟩

/-- `message += f(x)` over a list succeeded: every item is one the grammar can carry -/
theorem concatMapM_all_valid {α β : Type} (f : α → R Bytes) (g : α → Option β) (c : Codec β)
    (hfg : ∀ a b y, g a = some b → f a = .ok y → c.valid b = true) :
    ∀ (l : List α) (l' : List β) (x : Bytes), l.mapM g = some l' → concatMapM f l = .ok x →
      ∀ b ∈ l', c.valid b = true := by
  intro l
  induction l with
  | nil =>
    intro l' x hm _ b hb
    simp at hm
    subst hm
    cases hb
  | cons a as ih =>
    intro l' x hm hx b hb
    rw [mapM_option_cons] at hm
    cases hga : g a with
    | none => simp [hga] at hm
    | some b0 =>
      cases has : as.mapM g with
      | none => simp [hga, has] at hm
      | some bs =>
        simp only [hga, has, Option.some.injEq] at hm
        subst hm
        simp only [concatMapM] at hx
        split at hx
        · cases hx
        · rename_i y hy
          split at hx
          · cases hx
          · rename_i z hz
            rcases List.mem_cons.mp hb with rfl | hb'
            · exact hfg a _ y hga hy
            · exact ih bs z has hz b hb'

/-- every SyncGroup request the encoder wrote is a value the grammar's request codec round-trips -/
theorem syncGroup_valid_of_ok {cid : Bytes} {corr gen : Int} {g m : Bytes} {asg : List (Option Bytes × Option Bytes)}
    {ps : List (Bytes × Bytes)} {frame : Bytes}
    (h : encodeSyncGroupRequest cid corr (some g) gen (some m) asg = .ok frame) (hps : pairs asg = some ps) :
    (Spec.request Spec.syncGroupRequest).valid (hdr 14 0 corr cid, g, gen, m, ps) = true := by
  unfold encodeSyncGroupRequest at h
  split at h
  · cases h
  · rename_i hd hhd
    split at h
    · cases h
    · rename_i gb hgb
      split at h
      · cases h
      · rename_i genb hgen
        split at h
        · cases h
        · rename_i mb hmb
          split at h
          · cases h
          · rename_i nb hnb
            split at h
            · cases h
            · rename_i pb hpb
              simp only [fmt_encode_sync_group_request_0] at hgen
              simp only [fmt_encode_sync_group_request_1] at hnb
              simp only [hdrKey_encode_sync_group_request, hdrVer_encode_sync_group_request] at hhd
              have hitems := concatMapM_all_valid _ (fun (q : Option Bytes × Option Bytes) =>
                  match q.1, q.2 with | some a, some b => some (a, b) | _, _ => none)
                (Codec.string ⊗ Codec.bytes)
                (by
                  intro a b y hab hy
                  obtain ⟨a1, a2⟩ := a
                  cases a1 <;> cases a2 <;> simp at hab
                  subst hab
                  simp only at hy
                  split at hy
                  · cases hy
                  · rename_i nm hnm
                    split at hy
                    · cases hy
                    · rename_i md hmd
                      simp only [seq, Bool.and_eq_true]
                      exact ⟨writeShortText_some_valid hnm, writeIntString_some_valid hmd⟩)
                asg ps pb hps hpb
              have hlen : intFitsB 4 (ps.length : Int) = true := by
                rw [mapM_length _ _ _ hps]
                exact (intFitsB_iff _ _).mpr (pack_i_fits hnb)
              have hhv := encodeHeader_valid hhd
              simp only [Spec.request, whole, Spec.syncGroupRequest, seq, array, hdr, Bool.and_eq_true,
                List.all_eq_true]
              exact ⟨hhv, writeShortText_some_valid hgb, (intFitsB_iff _ _).mpr (pack_i_fits hgen),
                writeShortText_some_valid hmb, hlen,
                fun b hb => Bool.and_eq_true_iff.mp (hitems b hb)⟩

/-- the grammar's request decoder reads back, from the frame `encode_sync_group_request` wrote, exactly
    the caller's values -/
theorem syncGroup_parse {cid : Bytes} {corr gen : Int} {g m : Bytes} {asg : List (Option Bytes × Option Bytes)}
    {ps : List (Bytes × Bytes)} {frame : Bytes}
    (h : encodeSyncGroupRequest cid corr (some g) gen (some m) asg = .ok frame) (hps : pairs asg = some ps) :
    (Spec.request Spec.syncGroupRequest).dec frame = some (hdr 14 0 corr cid, g, gen, m, ps) := by
  rw [syncGroup_bytes h hps]
  exact (Spec.request Spec.syncGroupRequest).law _ (syncGroup_valid_of_ok h hps)

theorem syncGroup_entry_valid {cid : Bytes} {corr gen : Int} {g m : Bytes} {ps : List (Bytes × Bytes)}
    (hvalid : (Spec.request Spec.syncGroupRequest).valid (hdr 14 0 corr cid, g, gen, m, ps) = true) :
    ∀ p ∈ ps, Codec.bytes.valid p.2 = true := by
  have hw := seq_valid (a := Spec.header) (b := Spec.syncGroupRequest) hvalid
  have b1 := seq_valid (a := Codec.string) hw.2
  have b2 := seq_valid (a := int32) b1.2
  have b3 := seq_valid (a := Codec.string) b2.2
  have hv := array_valid (c := Codec.string ⊗ Codec.bytes) b3.2
  intro p hp
  exact (seq_valid (hv.2 p hp)).2

/-- a SyncGroup v0 response of the grammar with error code 0 carrying `b` decodes to `(0, b)` -/
theorem syncGroup_echo_roundtrip {corr' : Int} {b : Bytes} (hc : int32.valid corr' = true)
    (hb : Codec.bytes.valid b = true) :
    decodeSyncGroupResponse (Spec.syncGroupResponse.enc (corr', 0, b)) = .ok (0, some b) := by
  have hz : int16.valid 0 = true := by decide
  exact syncGroup_roundtrip (corr', 0, b) (by
    simp only [Spec.syncGroupResponse, seq, Bool.and_eq_true]
    exact ⟨hc, hz, hb⟩)

end Afkak.Wire
