import Afkak.Monitor.C15
import AfkakProofs.Assign.Metadata
/-!
# `_load_topic_partitions` leaves no partition out

The snapshot it fires with lists, for every requested topic, exactly the partition ids of the
metadata reply that completed the load (sorted, duplicates removed) — whether or not a partition
currently has a leader.  This is what makes "every partition of every subscribed topic goes to
exactly one member" hold for the partitions the CLUSTER has, not only for those the loader returns.
-/
namespace Afkak.Assign
open Afkak.Monitor.C15

/-- every entry of the snapshot has the ids of the reply's entry for that topic -/
def SnapOf (r : MetaReply) (d : Dict Str (List Int)) : Prop :=
  ∀ t qs, dget t d = some qs → ∃ e ps, dget t r = some (e, ps) ∧ ∀ p, p ∈ qs ↔ p ∈ ps

theorem snapshotLoop_snapOf {r : MetaReply} {asked : List Str} {acc snap : Dict Str (List Int)}
    (h : snapshotLoop r asked acc = some snap) (hacc : SnapOf r acc) : SnapOf r snap := by
  induction asked generalizing acc with
  | nil =>
    simp only [snapshotLoop, Option.some.injEq] at h
    subst h; exact hacc
  | cons t ts ih =>
    simp only [snapshotLoop] at h
    cases hr : dget t r with
    | none => rw [hr] at h; simp at h
    | some e =>
      obtain ⟨err, ps⟩ := e
      rw [hr] at h
      simp only at h
      by_cases he : err ≠ 0
      · rw [if_pos he] at h; simp at h
      · rw [if_neg he] at h
        by_cases hp : ps = []
        · rw [if_pos hp] at h; simp at h
        · rw [if_neg hp] at h
          apply ih h
          intro t' qs hd
          rw [dget_dset] at hd
          split at hd
          · rename_i htt
            simp only [Option.some.injEq] at hd
            subst hd; subst htt
            exact ⟨err, ps, hr, fun p => by rw [mem_sortBy intLe, mem_dedup]⟩
          · exact hacc t' qs hd

theorem snapshotOf_faithful {r : MetaReply} {asked : List Str} {snap : Dict Str (List Int)}
    (h : snapshotOf r asked = some snap) : loadFaithful asked r snap = true := by
  have hs : SnapOf r snap := snapshotLoop_snapOf h (by intro t qs hd; simp [dget] at hd)
  obtain ⟨-, -, h3⟩ := snapshotLoop_spec (acc := []) h (by intro t ps hd; simp [dget] at hd)
  unfold loadFaithful
  rw [List.all_eq_true]
  intro t ht
  obtain ⟨qs, hq⟩ := h3 t ht
  obtain ⟨e, ps, hr, hmem⟩ := hs t qs hq
  simp only [hr, hq, Bool.and_eq_true, List.all_eq_true, List.contains_iff_mem]
  exact ⟨fun p hp => (hmem p).2 hp, fun p hp => (hmem p).1 hp⟩

/-- **When `_load_topic_partitions` fires after `n` requests, its snapshot is faithful to the
    `n`-th reply**: every requested topic with exactly the partition ids that reply lists. -/
theorem loadTopicPartitions_faithful {asked : List Str} {replies : List MetaReply}
    {snap : Dict Str (List Int)} {n : Nat} (h : loadTopicPartitions asked replies = some (snap, n)) :
    1 ≤ n ∧ ∃ r, replies[n - 1]? = some r ∧ loadFaithful asked r snap = true := by
  induction replies generalizing n with
  | nil => simp [loadTopicPartitions] at h
  | cons r rs ih =>
    simp only [loadTopicPartitions] at h
    cases hs : snapshotOf r asked with
    | some s =>
      rw [hs] at h
      simp only [Option.some.injEq, Prod.mk.injEq] at h
      obtain ⟨rfl, rfl⟩ := h
      exact ⟨Nat.le_refl 1, r, rfl, snapshotOf_faithful hs⟩
    | none =>
      rw [hs] at h
      simp only at h
      cases hrest : loadTopicPartitions asked rs with
      | none => rw [hrest] at h; simp at h
      | some q =>
        obtain ⟨snap', n'⟩ := q
        rw [hrest] at h
        simp only [Option.some.injEq, Prod.mk.injEq] at h
        obtain ⟨rfl, rfl⟩ := h
        obtain ⟨h1, r', hr', hf⟩ := ih hrest
        refine ⟨by omega, r', ?_, hf⟩
        have : n' + 1 - 1 = (n' - 1) + 1 := by omega
        rw [this, List.getElem?_cons_succ]; exact hr'

end Afkak.Assign
