import AfkakProofs.Assign.LoaderFaithful
/-!
# The snapshot `_load_topic_partitions` fires with lists no partition id twice

Every list it stores is `sorted(set(partition ids))` (`sortBy intLe (dedup ps)`), so the second half
of `wellFormed members snapshot` (no repeated partition id in a topic's list) is a fact about the
loader, not a hypothesis on it.
-/
namespace Afkak.Assign

theorem mem_dset_imp {κ β : Type} [DecidableEq κ] {k : κ} {v : β} {d : Dict κ β} {e : κ × β}
    (h : e ∈ dset k v d) : e = (k, v) ∨ e ∈ d := by
  induction d with
  | nil =>
    simp only [dset, List.mem_singleton] at h
    exact Or.inl h
  | cons x d ih =>
    obtain ⟨k', v'⟩ := x
    simp only [dset] at h
    split at h
    · rename_i hk
      rcases List.mem_cons.mp h with rfl | h
      · exact Or.inl (by rw [hk])
      · exact Or.inr (List.mem_cons_of_mem _ h)
    · rcases List.mem_cons.mp h with rfl | h
      · exact Or.inr List.mem_cons_self
      · rcases ih h with h | h
        · exact Or.inl h
        · exact Or.inr (List.mem_cons_of_mem _ h)

theorem snapshotLoop_nodup {r : MetaReply} {asked : List Str} {acc snap : Dict Str (List Int)}
    (h : snapshotLoop r asked acc = some snap) (hacc : ∀ e ∈ acc, e.2.Nodup) : ∀ e ∈ snap, e.2.Nodup := by
  induction asked generalizing acc with
  | nil =>
    simp only [snapshotLoop, Option.some.injEq] at h
    subst h; exact hacc
  | cons t ts ih =>
    simp only [snapshotLoop] at h
    cases hr : dget t r with
    | none => rw [hr] at h; simp at h
    | some e =>
      obtain ⟨err, ps⟩ := e
      rw [hr] at h
      simp only at h
      by_cases he : err ≠ 0
      · rw [if_pos he] at h; simp at h
      · rw [if_neg he] at h
        by_cases hp : ps = []
        · rw [if_pos hp] at h; simp at h
        · rw [if_neg hp] at h
          apply ih h
          intro e' he'
          rcases mem_dset_imp he' with rfl | he'
          · exact (sortBy_perm intLe (dedup ps)).nodup_iff.mpr (nodup_dedup ps)
          · exact hacc e' he'

/-- when the loader fires, no topic of its snapshot lists a partition id twice -/
theorem loadTopicPartitions_nodup {asked : List Str} {replies : List MetaReply}
    {snap : Dict Str (List Int)} {n : Nat} (h : loadTopicPartitions asked replies = some (snap, n)) :
    ∀ e ∈ snap, e.2.Nodup := by
  induction replies generalizing n with
  | nil => simp [loadTopicPartitions] at h
  | cons r rs ih =>
    simp only [loadTopicPartitions] at h
    cases hs : snapshotOf r asked with
    | some s =>
      rw [hs] at h
      simp only [Option.some.injEq, Prod.mk.injEq] at h
      obtain ⟨rfl, -⟩ := h
      exact snapshotLoop_nodup hs (by simp)
    | none =>
      rw [hs] at h
      cases hrs : loadTopicPartitions asked rs with
      | none => rw [hrs] at h; simp at h
      | some p =>
        obtain ⟨s, m⟩ := p
        rw [hrs] at h
        simp only [Option.some.injEq, Prod.mk.injEq] at h
        obtain ⟨rfl, -⟩ := h
        exact ih hrs

end Afkak.Assign
