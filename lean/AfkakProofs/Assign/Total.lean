import AfkakProofs.Assign.Facts
/-!
The leader's encoder does not raise on in-range input: every member's `{topic: partitions}` map is
within the codec's range hypotheses whenever the partition map is.
-/
namespace Afkak.Assign
open Afkak.Monitor.C15 Afkak.Consts

theorem mem_dupd_append {t : Str} {p : Int} {inner : Dict Str (List Int)} {e : Str × List Int}
    (h : e ∈ dupd t [] (fun ps => ps ++ [p]) inner) : e ∈ inner ∨ e.2 ≠ [] := by
  induction inner with
  | nil =>
    simp only [dupd, List.mem_singleton] at h
    subst h; right; simp
  | cons x inner ih =>
    obtain ⟨k, v⟩ := x
    simp only [dupd] at h
    split at h
    · rcases List.mem_cons.mp h with rfl | h
      · right; simp
      · left; exact List.mem_cons_of_mem _ h
    · rcases List.mem_cons.mp h with rfl | h
      · left; exact List.mem_cons_self
      · rcases ih h with h | h
        · left; exact List.mem_cons_of_mem _ h
        · right; exact h

theorem nonempty_entries_foldl (log : List (Str × Str × Int)) (acc : Asg)
    (h : ∀ m, ∀ e ∈ assignmentOf acc m, e.2 ≠ []) : ∀ m, ∀ e ∈ assignmentOf (log.foldl addTo acc) m, e.2 ≠ [] := by
  induction log generalizing acc with
  | nil => exact h
  | cons x log ih =>
    refine ih (addTo acc x) (fun m e he => ?_)
    rw [assignmentOf_addTo] at he
    split at he
    · rcases mem_dupd_append he with he | he
      · exact h m e he
      · exact he
    · exact h m e he

/-- A `defaultdict(list)` entry only exists because something was appended to it. -/
theorem nonempty_entries_nest (log : List (Str × Str × Int)) (m : Str) : ∀ e ∈ assignmentOf (nest log) m, e.2 ≠ [] :=
  nonempty_entries_foldl log [] (fun m e he => by simp [assignmentOf, dget] at he) m

theorem length_le_flatMap {α γ : Type} {l : List α} {f : α → List γ} {a : α} (h : a ∈ l) :
    (f a).length ≤ (l.flatMap f).length := by
  induction l with
  | nil => simp at h
  | cons b l ih =>
    simp only [List.flatMap_cons, List.length_append]
    rcases List.mem_cons.mp h with rfl | h
    · omega
    · have := ih h; omega

theorem length_le_pairsOf {inner : Dict Str (List Int)} (h : ∀ e ∈ inner, e.2 ≠ []) :
    inner.length ≤ (pairsOf inner).length := by
  induction inner with
  | nil => simp [pairsOf]
  | cons e inner ih =>
    have he : e.2 ≠ [] := h e List.mem_cons_self
    have := ih (fun x hx => h x (List.mem_cons_of_mem _ hx))
    have hpos : 0 < e.2.length := List.length_pos_iff.mpr he
    simp only [pairsOf, List.flatMap_cons, List.length_append, List.length_map, List.length_cons] at this ⊢
    omega

/-- Where a member's map comes from: every entry of it was handed out by the loop. -/
theorem assignmentOf_sub_log {log : List (Str × Str × Int)} {m : Str} :
    (∀ e ∈ assignmentOf (nest log) m, ∀ p ∈ e.2, (m, e.1, p) ∈ log) ∧
    (pairsOf (assignmentOf (nest log) m)).length ≤ log.length := by
  unfold assignmentOf
  cases hd : dget m (nest log) with
  | none => simp [pairsOf]
  | some inner =>
    simp only
    have hmem : (m, inner) ∈ nest log := mem_of_dget hd
    have hperm := triplesOf_nest log
    constructor
    · intro e he p hp
      refine hperm.mem_iff.mp ?_
      unfold triplesOf
      refine List.mem_flatMap.mpr ⟨(m, inner), hmem, ?_⟩
      refine List.mem_map.mpr ⟨(e.1, p), ?_, rfl⟩
      unfold pairsOf
      exact List.mem_flatMap.mpr ⟨e, he, List.mem_map.mpr ⟨p, hp, rfl⟩⟩
    · rw [← hperm.length_eq]
      have := length_le_flatMap (f := fun (o : Str × Dict Str (List Int)) => (pairsOf o.2).map (fun y => (o.1, y))) hmem
      simpa [triplesOf] using this

/-- Range hypotheses on the leader's input, for the subscribed topics only: topic names ASCII and at
    most 32767 characters, partition ids int32 (per entry of `topic_partitions`). -/
def TpInRange (topics : List Str) (tp : Dict Str (List Int)) : Prop :=
  ∀ e ∈ tp, e.1 ∈ topics →
    e.1.all (· < 128) = true ∧ e.1.length ≤ 32767 ∧ ∀ p ∈ e.2, -2147483648 ≤ p ∧ p < 2147483648

instance (topics : List Str) (tp : Dict Str (List Int)) : Decidable (TpInRange topics tp) := by
  unfold TpInRange; infer_instance

theorem encodeEach_total {md : Dict Str (List Str)} {tp : Dict Str (List Int)} {asg : Asg}
    (h : roundRobin md tp = .ok asg) (hr : TpInRange (allTopics md) tp)
    (hcount : (atpOf tp (allTopics md)).length < 2147483648) (ms : List Member) :
    ∃ encs, encodeEach asg ms = .ok encs := by
  obtain ⟨atp, log, hatp, hlog, rfl⟩ := roundRobin_ok h
  have hatp' : atp = atpOf tp (allTopics md) := by
    have := allTopicPartitions_eq (tp := tp) (ts := allTopics md)
      (fun t ht => allTopicPartitions_some_dget hatp ht)
    rw [hatp] at this
    exact Option.some.inj this
  have hlen : log.length < 2147483648 := by
    have h1 : log.length = (log.map (·.2)).length := by simp
    rw [h1, (assignLoop_ok_spec hlog).1, length_sortBy, hatp']
    exact hcount
  have hone : ∀ m, ∃ b, encodeMemberAssignment asgMaEncodedVersion (assignmentOf (nest log) m) [] = .ok b := by
    intro m
    obtain ⟨hsub, hpl⟩ := assignmentOf_sub_log (log := log) (m := m)
    have hne := nonempty_entries_nest log m
    refine encodeMemberAssignment_ok ?_ ?_
    · have := length_le_pairsOf hne; omega
    · intro e he
      have hps : ∀ p ∈ e.2, ∃ ps', (e.1, ps') ∈ tp ∧ e.1 ∈ allTopics md ∧ p ∈ ps' := by
        intro p hp
        have h1 : (e.1, p) ∈ log.map (·.2) := List.mem_map.mpr ⟨(m, e.1, p), hsub e he p hp, rfl⟩
        rw [(assignLoop_ok_spec hlog).1] at h1
        obtain ⟨ht, ps', hd, hp'⟩ := mem_allTopicPartitions hatp ((mem_sortBy tpLe).mp h1)
        exact ⟨ps', mem_of_dget hd, ht, hp'⟩
      obtain ⟨p0, hp0⟩ := List.exists_mem_of_ne_nil _ (hne e he)
      obtain ⟨ps0, hmem0, htop0, -⟩ := hps p0 hp0
      obtain ⟨ha, hl, -⟩ := hr _ hmem0 htop0
      refine ⟨ha, hl, ?_, ?_⟩
      · have h2 : e.2.length ≤ (pairsOf (assignmentOf (nest log) m)).length := by
          have := length_le_flatMap (f := fun (x : Str × List Int) => x.2.map (fun p => (x.1, p))) he
          simpa [pairsOf] using this
        omega
      · intro p hp
        obtain ⟨ps', hmem, htop, hp'⟩ := hps p hp
        exact (hr _ hmem htop).2.2 p hp'
  induction ms with
  | nil => exact ⟨[], rfl⟩
  | cons m ms ih =>
    obtain ⟨r, hr'⟩ := ih
    obtain ⟨b, hb⟩ := hone m.1
    exact ⟨(m.1, b) :: r, (encodeEach_cons_ok _ _ _ _).mpr ⟨b, r, hb, hr', rfl⟩⟩

end Afkak.Assign
