import Afkak.Assign
/-!
Laws of the association-list model of Python `dict` / `defaultdict` (`dset`, `dget`, `dupd`).
-/
namespace Afkak.Assign

section DictLaws
variable {κ β : Type}

theorem keys_cons (e : κ × β) (d : Dict κ β) : keys (e :: d) = e.1 :: keys d := rfl

theorem mem_keys_of_mem {k : κ} {v : β} {d : Dict κ β} (h : (k, v) ∈ d) : k ∈ keys d :=
  List.mem_map.mpr ⟨(k, v), h, rfl⟩

variable [DecidableEq κ]

theorem dget_none_of_not_mem {k : κ} {d : Dict κ β} (h : k ∉ keys d) : dget k d = none := by
  induction d with
  | nil => rfl
  | cons e d ih =>
    obtain ⟨k', v'⟩ := e
    simp only [keys_cons, List.mem_cons, not_or] at h
    simp only [dget, if_neg (fun (e : k' = k) => h.1 e.symm), ih h.2]

theorem dget_some_of_mem_keys {k : κ} {d : Dict κ β} (h : k ∈ keys d) : ∃ v, dget k d = some v := by
  induction d with
  | nil => simp [keys] at h
  | cons e d ih =>
    obtain ⟨k', v'⟩ := e
    simp only [dget]
    by_cases hk : k' = k
    · exact ⟨v', by rw [if_pos hk]⟩
    · rw [if_neg hk]
      simp only [keys_cons, List.mem_cons] at h
      rcases h with h | h
      · exact absurd h.symm hk
      · exact ih h

theorem mem_of_dget {k : κ} {v : β} {d : Dict κ β} (h : dget k d = some v) : (k, v) ∈ d := by
  induction d with
  | nil => simp [dget] at h
  | cons e d ih =>
    obtain ⟨k', v'⟩ := e
    simp only [dget] at h
    by_cases hk : k' = k
    · rw [if_pos hk] at h
      simp only [Option.some.injEq] at h
      subst hk; subst h; exact List.mem_cons_self
    · rw [if_neg hk] at h
      exact List.mem_cons_of_mem _ (ih h)

theorem mem_keys_of_dget {k : κ} {v : β} {d : Dict κ β} (h : dget k d = some v) : k ∈ keys d :=
  mem_keys_of_mem (mem_of_dget h)

theorem dget_of_mem_nodup {k : κ} {v : β} {d : Dict κ β} (hn : (keys d).Nodup) (h : (k, v) ∈ d) :
    dget k d = some v := by
  induction d with
  | nil => simp at h
  | cons e d ih =>
    obtain ⟨k', v'⟩ := e
    simp only [keys_cons, List.nodup_cons] at hn
    simp only [dget]
    rcases List.mem_cons.mp h with h | h
    · simp only [Prod.mk.injEq] at h
      rw [if_pos h.1.symm, h.2]
    · have : k' ≠ k := fun e => hn.1 (e ▸ mem_keys_of_mem h)
      rw [if_neg this]
      exact ih hn.2 h

/-- Under distinct keys, a permuted dict answers every lookup the same way. -/
theorem dget_perm {d d' : Dict κ β} (hn : (keys d).Nodup) (hp : d'.Perm d) (k : κ) : dget k d' = dget k d := by
  have hn' : (keys d').Nodup := (List.Perm.map (fun (e : κ × β) => e.1) hp).nodup_iff.mpr hn
  cases h : dget k d with
  | none =>
    cases h' : dget k d' with
    | none => rfl
    | some v =>
      have := dget_of_mem_nodup hn (hp.mem_iff.mp (mem_of_dget h'))
      rw [h] at this; exact absurd this (by simp)
  | some v => exact dget_of_mem_nodup hn' (hp.mem_iff.mpr (mem_of_dget h))

/-! #### `dset` -/

theorem dset_of_not_mem {k : κ} (v : β) {d : Dict κ β} (h : k ∉ keys d) : dset k v d = d ++ [(k, v)] := by
  induction d with
  | nil => rfl
  | cons e d ih =>
    obtain ⟨k', v'⟩ := e
    simp only [keys_cons, List.mem_cons, not_or] at h
    simp only [dset, if_neg (fun (e : k' = k) => h.1 e.symm), ih h.2, List.cons_append]

theorem dget_dset (k k' : κ) (v : β) (d : Dict κ β) :
    dget k' (dset k v d) = if k' = k then some v else dget k' d := by
  induction d with
  | nil =>
    by_cases h : k' = k
    · subst h; simp [dset, dget]
    · have h' : ¬ k = k' := fun e => h e.symm
      simp [dset, dget, h, h']
  | cons e d ih =>
    obtain ⟨k₀, v₀⟩ := e
    by_cases hk : k₀ = k
    · subst hk
      by_cases h : k' = k₀
      · subst h; simp [dset, dget]
      · have h' : ¬ k₀ = k' := fun e => h e.symm
        simp [dset, dget, h, h']
    · by_cases h0 : k₀ = k'
      · subst h0
        have : ¬ k₀ = k := hk
        simp [dset, dget, hk]
      · simp only [dset, if_neg hk, dget, if_neg h0, ih]

theorem mem_keys_dset {k k' : κ} {v : β} {d : Dict κ β} : k' ∈ keys (dset k v d) ↔ k' = k ∨ k' ∈ keys d := by
  induction d with
  | nil => simp [dset, keys]
  | cons e d ih =>
    obtain ⟨k₀, v₀⟩ := e
    simp only [dset]
    by_cases hk : k₀ = k
    · rw [if_pos hk]
      simp only [keys_cons, List.mem_cons]
      subst hk
      constructor
      · rintro (h | h)
        · exact Or.inl h
        · exact Or.inr (Or.inr h)
      · rintro (h | h | h)
        · exact Or.inl h
        · exact Or.inl h
        · exact Or.inr h
    · rw [if_neg hk]
      simp only [keys_cons, List.mem_cons, ih]
      constructor
      · rintro (h | h | h)
        · exact Or.inr (Or.inl h)
        · exact Or.inl h
        · exact Or.inr (Or.inr h)
      · rintro (h | h | h)
        · exact Or.inr (Or.inl h)
        · exact Or.inl h
        · exact Or.inr (Or.inr h)

theorem nodup_keys_dset {k : κ} {v : β} {d : Dict κ β} (h : (keys d).Nodup) : (keys (dset k v d)).Nodup := by
  induction d with
  | nil => simp [dset, keys]
  | cons e d ih =>
    obtain ⟨k₀, v₀⟩ := e
    simp only [keys_cons, List.nodup_cons] at h
    simp only [dset]
    by_cases hk : k₀ = k
    · rw [if_pos hk]; exact List.nodup_cons.mpr h
    · rw [if_neg hk]
      refine List.nodup_cons.mpr ⟨?_, ih h.2⟩
      intro hm
      rcases mem_keys_dset.mp hm with hm | hm
      · exact hk hm
      · exact h.1 hm

/-! #### `dupd` -/

theorem mem_keys_dupd {k k' : κ} {dflt : β} {f : β → β} {d : Dict κ β} :
    k' ∈ keys (dupd k dflt f d) ↔ k' = k ∨ k' ∈ keys d := by
  induction d with
  | nil => simp [dupd, keys]
  | cons e d ih =>
    obtain ⟨k₀, v₀⟩ := e
    simp only [dupd]
    by_cases hk : k₀ = k
    · rw [if_pos hk]
      simp only [keys_cons, List.mem_cons]
      subst hk
      constructor
      · rintro (h | h)
        · exact Or.inl h
        · exact Or.inr (Or.inr h)
      · rintro (h | h | h)
        · exact Or.inl h
        · exact Or.inl h
        · exact Or.inr h
    · rw [if_neg hk]
      simp only [keys_cons, List.mem_cons, ih]
      constructor
      · rintro (h | h | h)
        · exact Or.inr (Or.inl h)
        · exact Or.inl h
        · exact Or.inr (Or.inr h)
      · rintro (h | h | h)
        · exact Or.inr (Or.inl h)
        · exact Or.inl h
        · exact Or.inr (Or.inr h)

theorem nodup_keys_dupd {k : κ} {dflt : β} {f : β → β} {d : Dict κ β} (h : (keys d).Nodup) :
    (keys (dupd k dflt f d)).Nodup := by
  induction d with
  | nil => simp [dupd, keys]
  | cons e d ih =>
    obtain ⟨k₀, v₀⟩ := e
    simp only [keys_cons, List.nodup_cons] at h
    simp only [dupd]
    by_cases hk : k₀ = k
    · rw [if_pos hk]; exact List.nodup_cons.mpr h
    · rw [if_neg hk]
      refine List.nodup_cons.mpr ⟨?_, ih h.2⟩
      intro hm
      rcases mem_keys_dupd.mp hm with hm | hm
      · exact hk hm
      · exact h.1 hm

/-- the value `d.get(k, dflt)` -/
def dgetD (k : κ) (dflt : β) (d : Dict κ β) : β :=
  match dget k d with
  | some v => v
  | none => dflt

theorem dgetD_dupd (k k' : κ) (dflt : β) (f : β → β) (d : Dict κ β) :
    dgetD k' dflt (dupd k dflt f d) = if k' = k then f (dgetD k dflt d) else dgetD k' dflt d := by
  induction d with
  | nil =>
    by_cases h : k' = k
    · subst h; simp [dupd, dgetD, dget]
    · have h' : ¬ k = k' := fun e => h e.symm
      simp [dupd, dgetD, dget, h, h']
  | cons e d ih =>
    obtain ⟨k₀, v₀⟩ := e
    by_cases hk : k₀ = k
    · subst hk
      by_cases h : k' = k₀
      · subst h; simp [dupd, dgetD, dget]
      · have h' : ¬ k₀ = k' := fun e => h e.symm
        simp [dupd, dgetD, dget, h, h']
    · by_cases h : k' = k
      · subst h
        have : dgetD k' dflt ((k₀, v₀) :: dupd k' dflt f d) = dgetD k' dflt (dupd k' dflt f d) := by
          simp [dgetD, dget, hk]
        simp only [dupd, if_neg hk, this, ih, if_true]
        simp [dgetD, dget, hk]
      · by_cases h0 : k₀ = k'
        · subst h0; simp [dupd, dgetD, dget, hk]
        · have e1 : dgetD k' dflt ((k₀, v₀) :: dupd k dflt f d) = dgetD k' dflt (dupd k dflt f d) := by
            simp [dgetD, dget, h0]
          have e2 : dgetD k' dflt ((k₀, v₀) :: d) = dgetD k' dflt d := by
            simp [dgetD, dget, h0]
          simp only [dupd, if_neg hk, e1, ih, if_neg h, e2]

/-- Flattening a dict after `d[k] = f(d[k])` adds exactly what `f` adds to the entry. -/
theorem flatMap_dupd_perm {γ : Type} (g : κ × β → List γ) (k : κ) (dflt : β) (f : β → β) (x : List γ)
    (hd : g (k, dflt) = []) (hf : ∀ v, (g (k, f v)).Perm (g (k, v) ++ x)) (d : Dict κ β) :
    ((dupd k dflt f d).flatMap g).Perm (d.flatMap g ++ x) := by
  induction d with
  | nil =>
    have := hf dflt
    rw [hd] at this
    simpa [dupd] using this
  | cons e d ih =>
    obtain ⟨k₀, v₀⟩ := e
    simp only [dupd]
    by_cases hk : k₀ = k
    · subst hk
      rw [if_pos rfl]
      simp only [List.flatMap_cons]
      have h1 := (hf v₀).append_right (d.flatMap g)
      refine h1.trans ?_
      rw [List.append_assoc, List.append_assoc]
      exact List.Perm.append_left _ List.perm_append_comm
    · rw [if_neg hk]
      simp only [List.flatMap_cons, List.append_assoc]
      exact List.Perm.append_left _ ih

theorem flatMap_congr_mem {α γ : Type} {l : List α} {f g : α → List γ} (h : ∀ a ∈ l, f a = g a) :
    l.flatMap f = l.flatMap g := by
  induction l with
  | nil => rfl
  | cons a l ih =>
    simp only [List.flatMap_cons]
    rw [h a List.mem_cons_self, ih (fun b hb => h b (List.mem_cons_of_mem _ hb))]

theorem flatMap_eq_nil_of_forall {α γ : Type} {l : List α} {f : α → List γ} (h : ∀ a ∈ l, f a = []) :
    l.flatMap f = [] := by
  induction l with
  | nil => rfl
  | cons a l ih =>
    simp only [List.flatMap_cons]
    rw [h a List.mem_cons_self, ih (fun b hb => h b (List.mem_cons_of_mem _ hb))]; rfl

/-- Reading a dict through `d.get(k, dflt)` for every `k` of a duplicate-free list that covers its
    keys visits every entry exactly once. -/
theorem flatMap_reindex {γ : Type} (g : κ × β → List γ) (dflt : β) (hd : ∀ k, g (k, dflt) = [])
    (d : Dict κ β) (ids : List κ) (hn : ids.Nodup) (hk : (keys d).Nodup) (hsub : ∀ k ∈ keys d, k ∈ ids) :
    (ids.flatMap (fun k => g (k, dgetD k dflt d))).Perm (d.flatMap g) := by
  induction d generalizing ids with
  | nil =>
    rw [flatMap_eq_nil_of_forall (fun k _ => by simp [dgetD, dget, hd])]
    exact List.Perm.refl _
  | cons e d ih =>
    obtain ⟨k₀, v₀⟩ := e
    simp only [keys_cons, List.nodup_cons] at hk
    have hmem : k₀ ∈ ids := hsub k₀ (by simp [keys_cons])
    have hp : ids.Perm (k₀ :: ids.erase k₀) := List.perm_cons_erase hmem
    refine (hp.flatMap_right _).trans ?_
    simp only [List.flatMap_cons]
    have h0 : dgetD k₀ dflt ((k₀, v₀) :: d) = v₀ := by simp [dgetD, dget]
    rw [h0]
    refine List.Perm.append_left _ ?_
    have hne : ∀ k ∈ ids.erase k₀, k ≠ k₀ := by
      intro k hk' e
      subst e
      exact (List.Nodup.mem_erase_iff hn).mp hk' |>.1 rfl
    rw [flatMap_congr_mem (g := fun k => g (k, dgetD k dflt d))]
    · refine ih (ids.erase k₀) (hn.erase k₀) hk.2 ?_
      intro k hk'
      have : k ≠ k₀ := fun e => hk.1 (e ▸ hk')
      exact (List.Nodup.mem_erase_iff hn).mpr ⟨this, hsub k (by simp [keys_cons, hk'])⟩
    · intro k hk'
      have : ¬ k₀ = k := fun e => hne k hk' e.symm
      simp [dgetD, dget, this]

end DictLaws

end Afkak.Assign
