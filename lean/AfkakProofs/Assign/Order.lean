import Afkak.Assign
/-!
Order facts for the Python orders used by the assignor (`str <=`, tuple `<=`), and the laws of the
insertion sort that models `sorted()`: permutation, sortedness, and canonicity (two permutations of
each other sort to the same list).
-/
namespace Afkak.Assign

/-! ### `strLe` is a linear order -/

theorem strLe_refl (a : Str) : strLe a a = true := by
  induction a with
  | nil => rfl
  | cons x xs ih => simp [strLe, ih]

theorem strLe_total (a b : Str) : strLe a b = true ∨ strLe b a = true := by
  induction a generalizing b with
  | nil => left; rfl
  | cons x xs ih =>
    cases b with
    | nil => right; rfl
    | cons y ys =>
      simp only [strLe]
      by_cases h : x = y
      · subst h; simpa using ih ys
      · have h' : ¬ y = x := fun e => h e.symm
        simp only [h, h', if_false, decide_eq_true_eq]; omega

theorem strLe_antisymm {a b : Str} (h1 : strLe a b = true) (h2 : strLe b a = true) : a = b := by
  induction a generalizing b with
  | nil => cases b with
    | nil => rfl
    | cons y ys => simp [strLe] at h2
  | cons x xs ih =>
    cases b with
    | nil => simp [strLe] at h1
    | cons y ys =>
      simp only [strLe] at h1 h2
      by_cases h : x = y
      · subst h; simp only [if_true] at h1 h2; rw [ih h1 h2]
      · have h' : ¬ y = x := fun e => h e.symm
        simp only [h, h', if_false, decide_eq_true_eq] at h1 h2; omega

theorem strLe_trans {a b c : Str} (h1 : strLe a b = true) (h2 : strLe b c = true) : strLe a c = true := by
  induction a generalizing b c with
  | nil => rfl
  | cons x xs ih =>
    cases b with
    | nil => simp [strLe] at h1
    | cons y ys =>
      cases c with
      | nil => simp [strLe] at h2
      | cons z zs =>
        simp only [strLe] at h1 h2 ⊢
        by_cases hxy : x = y
        · subst hxy
          by_cases hxz : x = z
          · subst hxz; simp only [if_true] at h1 h2 ⊢; exact ih h1 h2
          · simp only [hxz, if_false, if_true] at h1 h2 ⊢; exact h2
        · simp only [hxy, if_false, decide_eq_true_eq] at h1
          by_cases hyz : y = z
          · subst hyz; simp only [hxy, if_false, decide_eq_true_eq]; exact h1
          · simp only [hyz, if_false, decide_eq_true_eq] at h2
            have : ¬ x = z := by omega
            simp only [this, if_false, decide_eq_true_eq]; omega

/-! ### `tpLe` is a linear order -/

theorem tpLe_total (a b : Str × Int) : tpLe a b = true ∨ tpLe b a = true := by
  unfold tpLe
  by_cases h : a.1 = b.1
  · simp only [h, if_true, decide_eq_true_eq]; omega
  · have h' : ¬ b.1 = a.1 := fun e => h e.symm
    simp only [h, h', if_false]; exact strLe_total _ _

theorem tpLe_antisymm {a b : Str × Int} (h1 : tpLe a b = true) (h2 : tpLe b a = true) : a = b := by
  unfold tpLe at h1 h2
  by_cases h : a.1 = b.1
  · simp only [h, if_true, decide_eq_true_eq] at h1 h2
    exact Prod.ext h (by omega)
  · have h' : ¬ b.1 = a.1 := fun e => h e.symm
    simp only [h, h', if_false] at h1 h2
    exact absurd (strLe_antisymm h1 h2) h

theorem tpLe_trans {a b c : Str × Int} (h1 : tpLe a b = true) (h2 : tpLe b c = true) : tpLe a c = true := by
  unfold tpLe at h1 h2 ⊢
  by_cases hab : a.1 = b.1
  · by_cases hbc : b.1 = c.1
    · have hac : a.1 = c.1 := hab.trans hbc
      simp only [hab, hbc, if_true, decide_eq_true_eq] at h1 h2 ⊢; omega
    · have hac : ¬ a.1 = c.1 := fun e => hbc (hab.symm.trans e)
      simp only [hbc, hac, if_false] at h2 ⊢; rw [hab]; exact h2
  · simp only [hab, if_false] at h1
    by_cases hbc : b.1 = c.1
    · have hac : ¬ a.1 = c.1 := fun e => hab (e.trans hbc.symm)
      simp only [hac, if_false]; rw [← hbc]; exact h1
    · simp only [hbc, if_false] at h2
      have h3 := strLe_trans h1 h2
      by_cases hac : a.1 = c.1
      · exfalso
        rw [hac] at h1
        exact hbc (strLe_antisymm h2 h1)
      · simp only [hac, if_false]; exact h3

/-! ### insertion sort -/

section SortLaws
variable {α : Type} (le : α → α → Bool)

theorem insertBy_perm (a : α) (l : List α) : (insertBy le a l).Perm (a :: l) := by
  induction l with
  | nil => exact List.Perm.refl _
  | cons b l ih =>
    unfold insertBy
    split
    · exact List.Perm.refl _
    · exact (List.Perm.cons b ih).trans (List.Perm.swap a b l)

theorem sortBy_perm (l : List α) : (sortBy le l).Perm l := by
  induction l with
  | nil => exact List.Perm.refl _
  | cons a l ih => exact (insertBy_perm le a _).trans (List.Perm.cons a ih)

theorem mem_sortBy {l : List α} {a : α} : a ∈ sortBy le l ↔ a ∈ l := (sortBy_perm le l).mem_iff

theorem length_sortBy (l : List α) : (sortBy le l).length = l.length := (sortBy_perm le l).length_eq

variable {le}

theorem insertBy_sorted (total : ∀ a b, le a b = true ∨ le b a = true)
    (trans : ∀ {a b c}, le a b = true → le b c = true → le a c = true)
    (a : α) {l : List α} (h : l.Pairwise (fun x y => le x y = true)) :
    (insertBy le a l).Pairwise (fun x y => le x y = true) := by
  induction l with
  | nil => simp [insertBy]
  | cons b l ih =>
    rw [List.pairwise_cons] at h
    unfold insertBy
    split
    · rename_i hab
      refine List.pairwise_cons.mpr ⟨?_, List.pairwise_cons.mpr h⟩
      intro c hc
      rcases List.mem_cons.mp hc with rfl | hc
      · exact hab
      · exact trans hab (h.1 c hc)
    · rename_i hab
      have hba : le b a = true := by
        rcases total a b with h' | h'
        · exact absurd h' hab
        · exact h'
      refine List.pairwise_cons.mpr ⟨?_, ih h.2⟩
      intro c hc
      rcases List.mem_cons.mp ((insertBy_perm le a l).mem_iff.mp hc) with rfl | hc
      · exact hba
      · exact h.1 c hc

theorem sortBy_sorted (total : ∀ a b, le a b = true ∨ le b a = true)
    (trans : ∀ {a b c}, le a b = true → le b c = true → le a c = true) (l : List α) :
    (sortBy le l).Pairwise (fun x y => le x y = true) := by
  induction l with
  | nil => exact List.Pairwise.nil
  | cons a l ih => exact insertBy_sorted total trans a ih

/-- Sorting is canonical: permutations of each other sort to the same list. -/
theorem sortBy_eq_of_perm (total : ∀ a b, le a b = true ∨ le b a = true)
    (trans : ∀ {a b c}, le a b = true → le b c = true → le a c = true)
    (antisymm : ∀ {a b}, le a b = true → le b a = true → a = b)
    {l₁ l₂ : List α} (h : l₁.Perm l₂) : sortBy le l₁ = sortBy le l₂ :=
  List.Perm.eq_of_pairwise (le := fun x y => le x y = true) (fun _ _ _ _ h1 h2 => antisymm h1 h2)
    (sortBy_sorted total trans l₁) (sortBy_sorted total trans l₂)
    (((sortBy_perm le l₁).trans h).trans (sortBy_perm le l₂).symm)

end SortLaws

theorem sortStr_eq_of_perm {l₁ l₂ : List Str} (h : l₁.Perm l₂) : sortBy strLe l₁ = sortBy strLe l₂ :=
  sortBy_eq_of_perm strLe_total strLe_trans strLe_antisymm h

theorem sortTp_eq_of_perm {l₁ l₂ : List (Str × Int)} (h : l₁.Perm l₂) : sortBy tpLe l₁ = sortBy tpLe l₂ :=
  sortBy_eq_of_perm tpLe_total tpLe_trans tpLe_antisymm h

/-! ### `dedup` -/

section DedupLaws
variable {α : Type} [DecidableEq α]

theorem mem_dedup {a : α} {l : List α} : a ∈ dedup l ↔ a ∈ l := by
  induction l with
  | nil => simp [dedup]
  | cons b l ih =>
    unfold dedup
    split
    · rename_i hb
      rw [ih, List.mem_cons]
      constructor
      · exact Or.inr
      · rintro (rfl | h)
        · exact hb
        · exact h
    · simp only [List.mem_cons, ih]

theorem nodup_dedup (l : List α) : (dedup l).Nodup := by
  induction l with
  | nil => simp [dedup]
  | cons b l ih =>
    unfold dedup
    split
    · exact ih
    · rename_i hb
      exact List.nodup_cons.mpr ⟨fun h => hb (mem_dedup.mp h), ih⟩

/-- Two lists with the same elements have the same set of representatives. -/
theorem dedup_perm_of_mem_iff {l₁ l₂ : List α} (h : ∀ a, a ∈ l₁ ↔ a ∈ l₂) : (dedup l₁).Perm (dedup l₂) := by
  rw [List.perm_iff_count]
  intro a
  rw [(nodup_dedup l₁).count, (nodup_dedup l₂).count]
  simp only [mem_dedup, h a]

end DedupLaws

end Afkak.Assign
