import Afkak.AssignSync
import AfkakProofs.Assign.Facts
import AfkakProofs.Assign.Utf8
import AfkakProofs.Assign.SyncValid
import AfkakProofs.Wire.RespProofs
import AfkakProofs.Wire.TotalGroup
/-!
# The leader's assignments across the real SyncGroup wire path: proofs

Definitions in `Afkak/AssignSync.lean`.  The request side uses `Afkak.Wire.syncGroup_bytes` (the frame IS
the grammar's encoding) with `syncGroup_valid_of_ok` (so the grammar's decoder reads it back), the
response side `Afkak.Wire.syncGroup_roundtrip`, the payload `decodeAssignment_encode`.
-/
namespace Afkak.Assign
open Afkak.Codec Afkak.Monitor.C15

set_option synthInstance.maxSize 100000

/-! ## the entries -/

theorem utf8Encode_inj {s t : Str} {b : Bytes} (hs : utf8Encode s = .ok b) (ht : utf8Encode t = .ok b) : s = t := by
  have h1 := utf8Decode_encode hs
  have h2 := utf8Decode_encode ht
  rw [h1] at h2
  exact Except.ok.inj h2

theorem syncEntries_cons_ok (e : Str × Bytes) (es : List (Str × Bytes)) (ga : List (Option Bytes × Option Bytes)) :
    syncEntries (e :: es) = .ok ga ↔
      ∃ idb r, utf8Encode e.1 = .ok idb ∧ syncEntries es = .ok r ∧ ga = (some idb, some e.2) :: r := by
  rw [syncEntries]
  cases hu : utf8Encode e.1 with
  | error err => simp
  | ok idb =>
    cases hr : syncEntries es with
    | error err => simp
    | ok r =>
      simp only [Except.ok.injEq]
      constructor
      · intro h; exact ⟨idb, r, rfl, rfl, h.symm⟩
      · rintro ⟨idb', r', h1, h2, h3⟩; subst h1; subst h2; exact h3.symm

/-- the entries are all present (`pairs`), one per encoded assignment, in order -/
theorem syncEntries_pairs {encs : List (Str × Bytes)} {ga : List (Option Bytes × Option Bytes)}
    (h : syncEntries encs = .ok ga) :
    ∃ ps, Afkak.Monitor.C04.pairs ga = some ps ∧
      (∀ e ∈ encs, ∃ idb, utf8Encode e.1 = .ok idb ∧ (idb, e.2) ∈ ps) ∧
      (∀ p ∈ ps, ∃ e ∈ encs, utf8Encode e.1 = .ok p.1 ∧ p.2 = e.2) := by
  induction encs generalizing ga with
  | nil =>
    simp only [syncEntries, Except.ok.injEq] at h
    subst h
    exact ⟨[], rfl, by simp, by simp⟩
  | cons e es ih =>
    obtain ⟨idb, r, hu, hr, rfl⟩ := (syncEntries_cons_ok _ _ _).mp h
    obtain ⟨ps, hps, h1, h2⟩ := ih hr
    refine ⟨(idb, e.2) :: ps, ?_, ?_, ?_⟩
    · unfold Afkak.Monitor.C04.pairs at hps ⊢
      rw [Afkak.Wire.mapM_option_cons]
      simp only [hps]
    · intro e' he'
      rcases List.mem_cons.mp he' with rfl | he'
      · exact ⟨idb, hu, List.mem_cons_self⟩
      · obtain ⟨i, hi, hm⟩ := h1 e' he'
        exact ⟨i, hi, List.mem_cons_of_mem _ hm⟩
    · intro p hp
      rcases List.mem_cons.mp hp with rfl | hp
      · exact ⟨e, List.mem_cons_self, hu, rfl⟩
      · obtain ⟨e', he', hu', hb'⟩ := h2 p hp
        exact ⟨e', List.mem_cons_of_mem _ he', hu', hb'⟩

/-- `encodeEach` lists, per member, that member's id with the encoding of ITS map -/
theorem encodeEach_mem {asg : Asg} {ms : List Member} {encs : List (Str × Bytes)} (h : encodeEach asg ms = .ok encs) :
    (∀ m ∈ ms, ∃ b, (m.1, b) ∈ encs) ∧
    (∀ e ∈ encs, encodeMemberAssignment Afkak.Consts.asgMaEncodedVersion (assignmentOf asg e.1) [] = .ok e.2) := by
  induction ms generalizing encs with
  | nil =>
    simp only [encodeEach, Except.ok.injEq] at h
    subst h
    exact ⟨by simp, by simp⟩
  | cons m ms ih =>
    obtain ⟨b, r, hb, hr, rfl⟩ := (encodeEach_cons_ok _ _ _ _).mp h
    obtain ⟨h1, h2⟩ := ih hr
    refine ⟨?_, ?_⟩
    · intro m' hm'
      rcases List.mem_cons.mp hm' with rfl | hm'
      · exact ⟨b, List.mem_cons_self⟩
      · obtain ⟨b', hb'⟩ := h1 m' hm'
        exact ⟨b', List.mem_cons_of_mem _ hb'⟩
    · intro e he
      rcases List.mem_cons.mp he with rfl | he
      · exact hb
      · exact h2 e he

/-- entries of the leader's request that name the same member carry the same bytes (a member listed
    twice is handed the same map twice), so it does not matter which of them a broker keeps -/
theorem syncEntries_same_id {asg : Asg} {ms : List Member} {encs : List (Str × Bytes)}
    {ga : List (Option Bytes × Option Bytes)} {ps : List (Afkak.Bytes × Afkak.Bytes)}
    (h : encodeEach asg ms = .ok encs) (hga : syncEntries encs = .ok ga)
    (hps : Afkak.Monitor.C04.pairs ga = some ps) :
    ∀ p ∈ ps, ∀ q ∈ ps, p.1 = q.1 → p.2 = q.2 := by
  obtain ⟨ps', hps', -, he2⟩ := syncEntries_pairs hga
  rw [hps] at hps'
  obtain rfl := Option.some.inj hps'
  obtain ⟨-, hm2⟩ := encodeEach_mem h
  intro p hp q hq hpq
  obtain ⟨e, he, hue, hpe⟩ := he2 p hp
  obtain ⟨e', he', hue', hqe⟩ := he2 q hq
  rw [hpq] at hue
  have hid : e.1 = e'.1 := utf8Encode_inj hue hue'
  have h1 := hm2 e he
  have h2 := hm2 e' he'
  rw [hid, h2] at h1
  rw [hpe, hqe]
  exact (Except.ok.inj h1).symm

theorem syncEntries_length {encs : List (Str × Bytes)} {ga : List (Option Bytes × Option Bytes)}
    (h : syncEntries encs = .ok ga) : ga.length = encs.length := by
  induction encs generalizing ga with
  | nil =>
    simp only [syncEntries, Except.ok.injEq] at h
    subst h; rfl
  | cons e es ih =>
    obtain ⟨idb, r, -, hr, rfl⟩ := (syncEntries_cons_ok _ _ _).mp h
    simp [ih hr]

theorem encodeEach_length {asg : Asg} {ms : List Member} {encs : List (Str × Bytes)}
    (h : encodeEach asg ms = .ok encs) : encs.length = ms.length := by
  induction ms generalizing encs with
  | nil =>
    simp only [encodeEach, Except.ok.injEq] at h
    subst h; rfl
  | cons m ms ih =>
    obtain ⟨b, r, -, hr, rfl⟩ := (encodeEach_cons_ok _ _ _ _).mp h
    simp [ih hr]

/-! ## the path -/

/-- Over the real wire path every listed member ends up with exactly the map the round-robin
    assignment gave it — for ALL inputs on which the assignor and the request encoder return. -/
theorem memberViaSync_eq {members : List Member} {tp : Dict Str (List Int)} {encs : List (Str × Bytes)}
    {ga : List (Option Bytes × Option Bytes)} {cid g leader frame : Bytes} {corr gen : Int}
    (h : generateAssignments members tp = .ok encs) (hga : syncEntries encs = .ok ga)
    (hf : Afkak.Wire.encodeSyncGroupRequest cid corr (some g) gen (some leader) ga = .ok frame) :
    ∃ asg, roundRobin (memberMetadata members) tp = .ok asg ∧
      ∀ m ∈ members, ∀ corr', int32.valid corr' = true →
        memberViaSync frame corr' m.1 = some (assignmentOf asg m.1) := by
  obtain ⟨asg, h1, h2⟩ := generateAssignments_ok h
  obtain ⟨atp, log, -, -, rfl⟩ := roundRobin_ok h1
  refine ⟨nest log, h1, ?_⟩
  obtain ⟨hm1, hm2⟩ := encodeEach_mem h2
  obtain ⟨ps, hps, he1, he2⟩ := syncEntries_pairs hga
  have hdec := Afkak.Wire.syncGroup_parse hf hps
  have hpsv := Afkak.Wire.syncGroup_entry_valid (Afkak.Wire.syncGroup_valid_of_ok hf hps)
  intro m hm corr' hc
  obtain ⟨b, hb⟩ := hm1 m hm
  obtain ⟨idb, hu, hin⟩ := he1 (m.1, b) hb
  cases hfind : ps.find? (fun e => e.1 == idb) with
  | none =>
    have := List.find?_eq_none.mp hfind (idb, b) hin
    simp at this
  | some p =>
    have hp1 : p.1 = idb := by simpa using List.find?_some hfind
    have hp : p ∈ ps := List.mem_of_find?_eq_some hfind
    obtain ⟨e, he, hue, hpe⟩ := he2 p hp
    rw [hp1] at hue
    have hid : e.1 = m.1 := utf8Encode_inj hue hu
    have henc := hm2 e he
    rw [hid, ← hpe] at henc
    have hdecA := decodeAssignment_encode henc (by decide) (nodup_keys_assignmentOf_nest log m.1)
    have hresp := Afkak.Wire.syncGroup_echo_roundtrip hc (hpsv p hp)
    have hecho : brokerSyncEcho frame idb corr' = some (Afkak.Wire.Spec.syncGroupResponse.enc (corr', 0, p.2)) := by
      unfold brokerSyncEcho
      rw [hdec]
      simp only [hfind]
    unfold memberViaSync
    rw [hu]
    show (match brokerSyncEcho frame idb corr' with
      | none => none
      | some resp => syncAssignmentOf (Afkak.Wire.decodeSyncGroupResponse resp)) = _
    rw [hecho]
    show syncAssignmentOf (Afkak.Wire.decodeSyncGroupResponse _) = _
    rw [hresp]
    show (match decodeAssignment p.2 with
      | .ok a => some a
      | .error _ => none) = _
    rw [hdecA]

/-- … hence the members' observations over the wire are `perMember` -/
theorem observeViaSync_eq {frame : Bytes} {asg : Asg} (corrOf : Str → Int) :
    ∀ (members : List Member),
      (∀ m ∈ members, memberViaSync frame (corrOf m.1) m.1 = some (assignmentOf asg m.1)) →
      observeViaSync frame corrOf (members.map (·.1)) = some (perMember asg members)
  | [], _ => rfl
  | m :: ms, h => by
    have h0 := h m List.mem_cons_self
    have ih := observeViaSync_eq corrOf ms (fun m' hm' => h m' (List.mem_cons_of_mem _ hm'))
    simp only [List.map_cons, observeViaSync, h0, ih, perMember]

end Afkak.Assign
