import AfkakProofs.Assign.RoundRobin
import AfkakProofs.Assign.Codec
/-!
The facts C15 is made of, about `roundRobin` / `perMember`, stated with the monitor predicates of
`Afkak.Monitor.C15`.
-/
namespace Afkak.Assign
open Afkak.Monitor.C15

/-- What a successful `_round_robin_assignment` went through. -/
theorem roundRobin_ok {md : Dict Str (List Str)} {tp : Dict Str (List Int)} {asg : Asg}
    (h : roundRobin md tp = .ok asg) :
    ∃ atp log, allTopicPartitions tp (allTopics md) = some atp ∧
      assignLoop md (sortBy strLe (keys md)) (sortBy tpLe atp) = .ok log ∧ asg = nest log := by
  unfold roundRobin at h
  simp only at h
  split at h
  · simp at h
  · split at h
    · simp at h
    · rename_i atp hatp
      split at h
      · simp at h
      · rename_i log hlog
        simp only [Except.ok.injEq] at h
        exact ⟨atp, log, hatp, hlog, h.symm⟩

/-- A topic of the union of subscriptions is wanted by a member whose entry `dget` finds. -/
theorem exists_member_of_mem_allTopics {md : Dict Str (List Str)} (hn : (keys md).Nodup) {t : Str}
    (ht : t ∈ allTopics md) : ∃ m ∈ keys md, ∃ s, dget m md = some s ∧ t ∈ s := by
  unfold allTopics at ht
  obtain ⟨e, he, hte⟩ := List.mem_flatMap.mp (mem_dedup.mp ht)
  obtain ⟨m, s⟩ := e
  exact ⟨m, mem_keys_of_mem he, s, dget_of_mem_nodup hn he, hte⟩

/-- The loop never gets stuck: with distinct keys (always true of `member_metadata`) the only
    outcomes of `_round_robin_assignment` are a result, the assertion, or `_NeedTopicPartitions`. -/
theorem roundRobin_outcome {md : Dict Str (List Str)} (hn : (keys md).Nodup) (tp : Dict Str (List Int)) :
    (allTopics md = [] ∧ roundRobin md tp = .error .assertion) ∨
    (allTopics md ≠ [] ∧ (∃ t ∈ allTopics md, dget t tp = none) ∧
      roundRobin md tp = .error (.need (sortBy strLe (allTopics md)))) ∨
    (allTopics md ≠ [] ∧ (∀ t ∈ allTopics md, ∃ ps, dget t tp = some ps) ∧ ∃ asg, roundRobin md tp = .ok asg) := by
  by_cases h0 : allTopics md = []
  · left; exact ⟨h0, by simp [roundRobin, h0]⟩
  · right
    by_cases h1 : ∃ t ∈ allTopics md, dget t tp = none
    · left
      refine ⟨h0, h1, ?_⟩
      simp [roundRobin, h0, allTopicPartitions_none h1]
    · right
      have h1' : ∀ t ∈ allTopics md, ∃ ps, dget t tp = some ps := by
        intro t ht
        cases hd : dget t tp with
        | none => exact absurd ⟨t, ht, hd⟩ h1
        | some ps => exact ⟨ps, rfl⟩
      refine ⟨h0, h1', ?_⟩
      have hatp := allTopicPartitions_eq h1'
      have hall : ∀ x ∈ sortBy strLe (keys md), ∃ s, dget x md = some s :=
        fun x hx => dget_some_of_mem_keys ((mem_sortBy strLe).mp hx)
      have hsome : ∀ y ∈ sortBy tpLe (atpOf tp (allTopics md)),
          ∃ x ∈ sortBy strLe (keys md), ∃ s, dget x md = some s ∧ y.1 ∈ s := by
        intro y hy
        have := (mem_allTopicPartitions hatp ((mem_sortBy tpLe).mp hy)).1
        obtain ⟨m, hm, s, hs, hts⟩ := exists_member_of_mem_allTopics hn this
        exact ⟨m, (mem_sortBy strLe).mpr hm, s, hs, hts⟩
      obtain ⟨log, hlog⟩ := assignLoop_total hall hsome
      exact ⟨nest log, by simp [roundRobin, h0, hatp, hlog]⟩

/-! ### the observation of the model: `perMember asg members` -/

theorem wellFormed_iff {members : List Member} {tp : Dict Str (List Int)} :
    wellFormed members tp = true ↔ (members.map (·.1)).Nodup ∧ ∀ e ∈ tp, e.2.Nodup := by
  simp [wellFormed, List.all_eq_true]

theorem runFacts {members : List Member} {tp : Dict Str (List Int)} {asg : Asg}
    (hn : (members.map (·.1)).Nodup) (h : roundRobin (memberMetadata members) tp = .ok asg) :
    ∃ atp log, allTopicPartitions tp (subscribedTopics members) = some atp ∧
      assignLoop members (sortBy strLe (members.map (·.1))) (sortBy tpLe atp) = .ok log ∧
      asg = nest log ∧ (triplesOf (perMember asg members)).Perm log := by
  rw [memberMetadata_of_nodup hn] at h
  obtain ⟨atp, log, hatp, hlog, hasg⟩ := roundRobin_ok h
  refine ⟨atp, log, hatp, hlog, hasg, ?_⟩
  subst hasg
  refine triplesOf_perMember hn ?_
  intro x hx
  exact (mem_sortBy strLe).mp ((assignLoop_ok_spec hlog).2 x hx).1

theorem answersAll_perMember (members : List Member) (asg : Asg) :
    answersAll members (perMember asg members) = true := by
  simp [answersAll, perMember]

theorem exactlyOnce_perMember {members : List Member} {tp : Dict Str (List Int)} {asg : Asg}
    (hwf : wellFormed members tp = true) (h : roundRobin (memberMetadata members) tp = .ok asg) :
    exactlyOnce members tp (perMember asg members) = true := by
  obtain ⟨hn, hps⟩ := wellFormed_iff.mp hwf
  obtain ⟨atp, log, hatp, hlog, -, hperm⟩ := runFacts hn h
  unfold exactlyOnce
  rw [List.all_eq_true]
  intro t ht
  obtain ⟨ps, hd⟩ := allTopicPartitions_some_dget hatp ht
  simp only [hd]
  rw [List.all_eq_true]
  intro p hp
  rw [beq_iff_eq]
  rw [(hperm.map (·.2)).count_eq, (assignLoop_ok_spec hlog).1, (sortBy_perm tpLe atp).count_eq,
    count_allTopicPartitions hatp hd]
  have h1 : (subscribedTopics members).count t = 1 := by
    unfold subscribedTopics at ht ⊢
    rw [(nodup_dedup _).count, if_pos ht]
  have h2 : ps.count p = 1 := by
    rw [(hps (t, ps) (mem_of_dget hd)).count, if_pos hp]
  rw [h1, h2]

theorem nothingElse_perMember {members : List Member} {tp : Dict Str (List Int)} {asg : Asg}
    (hn : (members.map (·.1)).Nodup) (h : roundRobin (memberMetadata members) tp = .ok asg) :
    nothingElse members tp (perMember asg members) = true := by
  obtain ⟨atp, log, hatp, hlog, -, hperm⟩ := runFacts hn h
  unfold nothingElse
  rw [List.all_eq_true]
  intro x hx
  have hx' : x.2 ∈ atp := by
    have : x.2 ∈ log.map (·.2) := List.mem_map.mpr ⟨x, hperm.mem_iff.mp hx, rfl⟩
    rw [(assignLoop_ok_spec hlog).1] at this
    exact (mem_sortBy tpLe).mp this
  obtain ⟨h1, ps, h2, h3⟩ := mem_allTopicPartitions hatp hx'
  simp [h1, h2, h3]

theorem onlySubscribed_perMember {members : List Member} {tp : Dict Str (List Int)} {asg : Asg}
    (hn : (members.map (·.1)).Nodup) (h : roundRobin (memberMetadata members) tp = .ok asg) :
    onlySubscribed members (perMember asg members) = true := by
  obtain ⟨atp, log, hatp, hlog, -, hperm⟩ := runFacts hn h
  unfold onlySubscribed
  rw [List.all_eq_true]
  intro x hx
  obtain ⟨-, subs, hs, hts⟩ := (assignLoop_ok_spec hlog).2 x (hperm.mem_iff.mp hx)
  simp [hs, hts]

theorem balanced_perMember {members : List Member} {tp : Dict Str (List Int)} {asg : Asg}
    (hn : (members.map (·.1)).Nodup) (h : roundRobin (memberMetadata members) tp = .ok asg) :
    balanced members (perMember asg members) = true := by
  unfold balanced
  cases hid : identicalSubs members with
  | false => rfl
  | true =>
    simp only [Bool.not_true, Bool.false_or]
    obtain ⟨atp, log, hatp, hlog, hasg, -⟩ := runFacts hn h
    -- nobody is ever skipped
    have hall : ∀ x ∈ sortBy strLe (members.map (·.1)), ∀ y ∈ sortBy tpLe atp,
        ∃ s, dget x members = some s ∧ y.1 ∈ s := by
      intro x hx y hy
      have hxk : x ∈ keys members := (mem_sortBy strLe).mp hx
      obtain ⟨s, hs⟩ := dget_some_of_mem_keys hxk
      refine ⟨s, hs, ?_⟩
      have hy1 := (mem_allTopicPartitions hatp ((mem_sortBy tpLe).mp hy)).1
      unfold identicalSubs at hid
      rw [List.all_eq_true] at hid
      have := hid (x, s) (mem_of_dget hs)
      rw [List.all_eq_true] at this
      simpa using this y.1 hy1
    have hcyc := assignLoop_no_skip hall hlog
    have hnd : (sortBy strLe (members.map (·.1))).Nodup :=
      (sortBy_perm strLe _).nodup_iff.mpr hn
    have hbal := cycTake_balanced (sortBy tpLe atp).length [] [] (sortBy strLe (members.map (·.1))) 0
      (by simpa using hnd) (by simp) (by simp)
    simp only [List.append_nil, List.nil_append] at hbal
    have hk : (keys (perMember asg members)).Nodup := by
      have : keys (perMember asg members) = members.map (·.1) := by
        simp [keys, perMember, List.map_map, Function.comp]
      rw [this]; exact hn
    have hload : ∀ m ∈ members, loadFor (perMember asg members) m.1
        = (cycTake (sortBy tpLe atp).length (sortBy strLe (members.map (·.1)))).count m.1 := by
      intro m hm
      have hmem : (m.1, assignmentOf asg m.1) ∈ perMember asg members := List.mem_map.mpr ⟨m, hm, rfl⟩
      unfold loadFor
      rw [dget_of_mem_nodup hk hmem, ← hcyc, ← loadOf_nest, ← hasg]; rfl
    rw [List.all_eq_true]
    intro ma hma
    rw [List.all_eq_true]
    intro mb hmb
    rw [hload ma hma, hload mb hmb, decide_eq_true_eq]
    exact hbal ma.1 ((mem_sortBy strLe).mpr (List.mem_map.mpr ⟨ma, hma, rfl⟩)) mb.1
      ((mem_sortBy strLe).mpr (List.mem_map.mpr ⟨mb, hmb, rfl⟩))

/-! ### independence of the listing order -/

theorem allTopics_perm {md md' : Dict Str (List Str)} (hp : md'.Perm md) : (allTopics md').Perm (allTopics md) := by
  unfold allTopics
  refine dedup_perm_of_mem_iff (fun a => ?_)
  simp only [List.mem_flatMap]
  constructor
  · rintro ⟨e, he, ha⟩; exact ⟨e, hp.mem_iff.mp he, ha⟩
  · rintro ⟨e, he, ha⟩; exact ⟨e, hp.mem_iff.mpr he, ha⟩

/-- `_round_robin_assignment` computes the same map from any listing of the same members. -/
theorem roundRobin_perm {members members' : List Member} (hn : (members.map (·.1)).Nodup)
    (hp : members'.Perm members) (tp : Dict Str (List Int)) :
    roundRobin (memberMetadata members') tp = roundRobin (memberMetadata members) tp := by
  have hn' : (members'.map (·.1)).Nodup := (List.Perm.map (fun (e : Member) => e.1) hp).nodup_iff.mpr hn
  rw [memberMetadata_of_nodup hn, memberMetadata_of_nodup hn']
  have htop := allTopics_perm hp
  have hkeys : sortBy strLe (keys members') = sortBy strLe (keys members) :=
    sortStr_eq_of_perm (by unfold keys; exact List.Perm.map _ hp)
  have hdget : ∀ k, dget k members' = dget k members := dget_perm hn hp
  unfold roundRobin
  simp only
  by_cases h0 : allTopics members = []
  · have h0' : allTopics members' = [] := by rw [h0] at htop; exact htop.eq_nil
    simp [h0, h0']
  · have h0' : allTopics members' ≠ [] := fun e => h0 (by rw [e] at htop; exact htop.symm.eq_nil)
    rw [if_neg h0, if_neg h0']
    by_cases h1 : ∃ t ∈ allTopics members, dget t tp = none
    · have h1' : ∃ t ∈ allTopics members', dget t tp = none := by
        obtain ⟨t, ht, hd⟩ := h1; exact ⟨t, htop.mem_iff.mpr ht, hd⟩
      rw [allTopicPartitions_none h1, allTopicPartitions_none h1', sortStr_eq_of_perm htop]
    · have h2 : ∀ t ∈ allTopics members, ∃ ps, dget t tp = some ps := by
        intro t ht
        cases hd : dget t tp with
        | none => exact absurd ⟨t, ht, hd⟩ h1
        | some ps => exact ⟨ps, rfl⟩
      have h2' : ∀ t ∈ allTopics members', ∃ ps, dget t tp = some ps :=
        fun t ht => h2 t (htop.mem_iff.mp ht)
      rw [allTopicPartitions_eq h2, allTopicPartitions_eq h2']
      simp only
      have : sortBy tpLe (atpOf tp (allTopics members')) = sortBy tpLe (atpOf tp (allTopics members)) :=
        sortTp_eq_of_perm (htop.flatMap_right _)
      rw [this, hkeys, assignLoop_congr hdget]

theorem encodeEach_cons_ok (asg : Asg) (m : Member) (ms : List Member) (r : List (Str × Bytes)) :
    encodeEach asg (m :: ms) = .ok r ↔
      ∃ (b : Bytes) (r' : List (Str × Bytes)),
        encodeMemberAssignment Afkak.Consts.asgMaEncodedVersion (assignmentOf asg m.1) [] = Except.ok b ∧
        encodeEach asg ms = .ok r' ∧ r = (m.1, b) :: r' := by
  rw [encodeEach]
  generalize encodeMemberAssignment Afkak.Consts.asgMaEncodedVersion (assignmentOf asg m.1) [] = eb
  cases eb with
  | error e => simp
  | ok b =>
    cases hr : encodeEach asg ms with
    | error e => simp
    | ok r' =>
      simp only [Except.ok.injEq]
      constructor
      · intro h; exact ⟨b, r', rfl, rfl, h.symm⟩
      · rintro ⟨b', r'', h1, h2, h3⟩; subst h1; subst h2; exact h3.symm

theorem encodeEach_perm (asg : Asg) {ms ms' : List Member} (hp : ms'.Perm ms) :
    ∀ r, encodeEach asg ms = .ok r → ∃ r', encodeEach asg ms' = .ok r' ∧ r'.Perm r := by
  induction hp with
  | nil => intro r h; exact ⟨r, h, List.Perm.refl _⟩
  | cons m _ ih =>
    intro r h
    obtain ⟨b, r₂, hb, hr, rfl⟩ := (encodeEach_cons_ok _ _ _ _).mp h
    obtain ⟨r₁, h1, h2⟩ := ih r₂ hr
    exact ⟨(m.1, b) :: r₁, (encodeEach_cons_ok _ _ _ _).mpr ⟨b, r₁, hb, h1, rfl⟩, h2.cons _⟩
  | swap m₁ m₂ l =>
    intro r h
    obtain ⟨b1, r₂, hb1, hr2, rfl⟩ := (encodeEach_cons_ok _ _ _ _).mp h
    obtain ⟨b2, r₁, hb2, hr1, rfl⟩ := (encodeEach_cons_ok _ _ _ _).mp hr2
    refine ⟨(m₂.1, b2) :: (m₁.1, b1) :: r₁, ?_, List.Perm.swap _ _ _⟩
    exact (encodeEach_cons_ok _ _ _ _).mpr ⟨b2, _, hb2,
      (encodeEach_cons_ok _ _ _ _).mpr ⟨b1, r₁, hb1, hr1, rfl⟩, rfl⟩
  | trans _ _ ih₁ ih₂ =>
    intro r h
    obtain ⟨r₂, h2, hp2⟩ := ih₂ r h
    obtain ⟨r₁, h1, hp1⟩ := ih₁ r₂ h2
    exact ⟨r₁, h1, hp1.trans hp2⟩

/-! ### what each member decodes -/

theorem assignmentOf_addTo (a : Asg) (x : Str × Str × Int) (m : Str) :
    assignmentOf (addTo a x) m
      = if m = x.1 then dupd x.2.1 [] (fun ps => ps ++ [x.2.2]) (assignmentOf a m) else assignmentOf a m := by
  unfold addTo
  rw [assignmentOf_eq_dgetD, assignmentOf_eq_dgetD, dgetD_dupd]
  by_cases h : m = x.1
  · subst h; rfl
  · simp [h]

theorem nodup_keys_assignmentOf_foldl (log : List (Str × Str × Int)) (acc : Asg)
    (h : ∀ m, (keys (assignmentOf acc m)).Nodup) : ∀ m, (keys (assignmentOf (log.foldl addTo acc) m)).Nodup := by
  induction log generalizing acc with
  | nil => exact h
  | cons x log ih =>
    refine ih (addTo acc x) (fun m => ?_)
    rw [assignmentOf_addTo]
    split
    · exact nodup_keys_dupd (h m)
    · exact h m

/-- Every member's `{topic: partitions}` map is a dict: its topics are distinct. -/
theorem nodup_keys_assignmentOf_nest (log : List (Str × Str × Int)) (m : Str) :
    (keys (assignmentOf (nest log) m)).Nodup :=
  nodup_keys_assignmentOf_foldl log [] (fun m => by simp [assignmentOf, dget, keys]) m

theorem generateAssignments_ok {members : List Member} {tp : Dict Str (List Int)} {encs : List (Str × Bytes)}
    (h : generateAssignments members tp = .ok encs) :
    ∃ asg, roundRobin (memberMetadata members) tp = .ok asg ∧ encodeEach asg members = .ok encs := by
  unfold generateAssignments at h
  cases hr : roundRobin (memberMetadata members) tp with
  | error e => rw [hr] at h; simp at h
  | ok asg => rw [hr] at h; exact ⟨asg, rfl, h⟩

/-- Each listed member decodes from its encoded assignment exactly the map it was assigned. -/
theorem observe_encodeEach {asg : Asg} (hk : ∀ m, (keys (assignmentOf asg m)).Nodup) {ms : List Member}
    {encs : List (Str × Bytes)} (h : encodeEach asg ms = .ok encs) : observe encs = some (perMember asg ms) := by
  induction ms generalizing encs with
  | nil =>
    simp only [encodeEach, Except.ok.injEq] at h
    subst h; rfl
  | cons m ms ih =>
    obtain ⟨b, r, hb, hr, rfl⟩ := (encodeEach_cons_ok _ _ _ _).mp h
    have hd := decodeAssignment_encode hb (by decide) (hk m.1)
    simp only [observe, hd, ih hr, perMember, List.map_cons]

theorem sameAssignment_perMember (asg : Asg) {members members' : List Member}
    (hn : (members.map (·.1)).Nodup) (hp : members'.Perm members) :
    sameAssignment (perMember asg members) (perMember asg members') = true := by
  have hn' : (members'.map (·.1)).Nodup := (List.Perm.map (fun (e : Member) => e.1) hp).nodup_iff.mpr hn
  unfold sameAssignment
  rw [Bool.and_eq_true]
  refine ⟨by simp [perMember, hp.length_eq], ?_⟩
  rw [List.all_eq_true]
  intro o ho
  obtain ⟨m, hm, rfl⟩ := List.mem_map.mp ho
  have hm' : (m.1, assignmentOf asg m.1) ∈ perMember asg members' :=
    List.mem_map.mpr ⟨m, hp.mem_iff.mpr hm, rfl⟩
  have hk : (keys (perMember asg members')).Nodup := by
    have : keys (perMember asg members') = members'.map (·.1) := by
      simp [keys, perMember, List.map_map, Function.comp]
    rw [this]; exact hn'
  rw [dget_of_mem_nodup hk hm']
  exact List.isPerm_iff.mpr (List.Perm.refl _)

end Afkak.Assign
