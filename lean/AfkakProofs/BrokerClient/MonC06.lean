import Afkak.Monitor.C06
/-!
# What acceptance by the C06 monitor implies (pure reasoning about `Monitor.C06.mstep`)

Nothing here mentions the model: these lemmas apply to ANY accepted trace, in particular to the
traces recorded from the implementation on which the driver evaluates the monitor.
-/
namespace Afkak.Monitor.C06
open Afkak.Frame Afkak.BrokerClient

/-- serials fired in a trace, in order -/
def firedOf (tr : List (Ev × List Ob)) : List Nat := tr.flatMap (fun t => (fires t.2).map (·.1))

/-- What acceptance maintains: the serials handed out so far (`< nmake`) are partitioned into the
    live ones and the ones that fired, and nothing fired twice. -/
structure MInv (m : MSt) (F : List Nat) : Prop where
  livePw : m.live.Pairwise (fun a b => a.serial < b.serial)
  liveLt : ∀ l ∈ m.live, l.serial < m.nmake
  firedLt : ∀ k ∈ F, k < m.nmake
  disj : ∀ l ∈ m.live, l.serial ∉ F
  nodup : F.Nodup
  cover : ∀ k, k < m.nmake → (∃ l ∈ m.live, l.serial = k) ∨ k ∈ F

theorem minv_init : MInv MSt.init [] := by
  constructor <;> simp [MSt.init]

/-- The generic step: the newly fired serials `G` are distinct live serials, and the new live list
    is what remains. -/
theorem minv_advance (m : MSt) (F G : List Nat) (live' : List Live) (h : MInv m F)
    (hG : G.Nodup) (hGl : ∀ k ∈ G, ∃ l ∈ m.live, l.serial = k)
    (hsub : live'.Sublist m.live) (hdis : ∀ l ∈ live', l.serial ∉ G)
    (hcov : ∀ l ∈ m.live, l ∈ live' ∨ l.serial ∈ G) :
    ∀ m', m'.live = live' → m'.nmake = m.nmake → MInv m' (F ++ G) := by
  intro m' h1 h2
  constructor
  · rw [h1]; exact h.livePw.sublist hsub
  · rw [h1, h2]; intro l hl; exact h.liveLt l (hsub.subset hl)
  · rw [h2]; intro k hk
    rcases List.mem_append.mp hk with hk | hk
    · exact h.firedLt k hk
    · obtain ⟨l, hl, rfl⟩ := hGl k hk; exact h.liveLt l hl
  · rw [h1]; intro l hl hk
    rcases List.mem_append.mp hk with hk | hk
    · exact h.disj l (hsub.subset hl) hk
    · exact hdis l hl hk
  · rw [List.nodup_append]
    refine ⟨h.nodup, hG, ?_⟩
    intro a ha b hb hab
    subst hab
    obtain ⟨l, hl, rfl⟩ := hGl a hb
    exact h.disj l hl ha
  · rw [h1, h2]; intro k hk
    rcases h.cover k hk with ⟨l, hl, rfl⟩ | hk
    · rcases hcov l hl with h' | h'
      · exact Or.inl ⟨l, h', rfl⟩
      · exact Or.inr (List.mem_append.mpr (Or.inr h'))
    · exact Or.inr (List.mem_append.mpr (Or.inl hk))

theorem serial_inj (live : List Live) (hpw : live.Pairwise (fun a b => a.serial < b.serial)) :
    ∀ r ∈ live, ∀ r' ∈ live, r.serial = r'.serial → r = r' := by
  induction live with
  | nil => simp
  | cons a l ih =>
    rw [List.pairwise_cons] at hpw
    intro r hr r' hr' he
    simp only [List.mem_cons] at hr hr'
    rcases hr with rfl | hr <;> rcases hr' with rfl | hr'
    · rfl
    · have := hpw.1 r' hr'; omega
    · have := hpw.1 r hr; omega
    · exact ih hpw.2 r hr r' hr' he

theorem nodup_serials (live : List Live) (hpw : live.Pairwise (fun a b => a.serial < b.serial)) :
    (live.map (·.serial)).Nodup := by
  have h1 : (live.map (·.serial)).Pairwise (· < ·) := hpw.map (fun (l : Live) => l.serial) (fun _ _ h => h)
  exact h1.imp (fun h => Nat.ne_of_lt h)

/-- Facts about `deliver`: what fires are distinct live requests carrying the id of a delivered
    packet, with that packet's bytes; what stays live is the rest. -/
theorem deliver_props (fs : List Bytes) : ∀ (live : List Live), live.Pairwise (fun a b => a.serial < b.serial) →
    ((deliver live fs).1.map (·.1)).Nodup ∧
    (∀ x ∈ (deliver live fs).1, ∃ b ∈ fs, x.2.2 = Res.ok b ∧ corrId b = some x.2.1 ∧ ∃ l ∈ live, l.serial = x.1 ∧ l.id = x.2.1) ∧
    (deliver live fs).2.1.Sublist live ∧
    (∀ l ∈ (deliver live fs).2.1, l.serial ∉ (deliver live fs).1.map (·.1)) ∧
    (∀ l ∈ live, l ∈ (deliver live fs).2.1 ∨ l.serial ∈ (deliver live fs).1.map (·.1)) := by
  induction fs with
  | nil => intro live _; simp [deliver]
  | cons f fs ih =>
    intro live hpw
    cases hid : corrId f with
    | none => simp [deliver, hid]
    | some i =>
      simp only [deliver, hid]
      have hpw' := hpw.filter (fun l => l.id != i)
      obtain ⟨a1, a2, a3, a4, a5⟩ := ih _ hpw'
      have hsub : (live.filter (fun l => l.id != i)).Sublist live := List.filter_sublist
      refine ⟨?_, ?_, ?_, ?_, ?_⟩
      · rw [List.map_append, List.nodup_append]
        refine ⟨?_, a1, ?_⟩
        · rw [List.map_map]
          exact nodup_serials _ (hpw.filter _)
        · intro a ha b hb hab
          subst hab
          simp only [List.map_map, List.mem_map, List.mem_filter, Function.comp_def] at ha
          obtain ⟨l, ⟨hl, hli⟩, rfl⟩ := ha
          obtain ⟨x, hx, hxe⟩ := List.mem_map.mp hb
          obtain ⟨_, _, _, _, l', hl', hs, _⟩ := a2 x hx
          have hl'' := List.mem_filter.mp hl'
          have := serial_inj live hpw l' hl''.1 l hl (by rw [hs, hxe])
          subst this
          simp_all
      · intro x hx
        rcases List.mem_append.mp hx with hx | hx
        · simp only [List.mem_map, List.mem_filter] at hx
          obtain ⟨l, ⟨hl, hli⟩, rfl⟩ := hx
          exact ⟨f, by simp, rfl, by simp_all, l, hl, rfl, rfl⟩
        · obtain ⟨b, hb, h1, h2, l, hl, h3, h4⟩ := a2 x hx
          exact ⟨b, by simp [hb], h1, h2, l, (List.mem_filter.mp hl).1, h3, h4⟩
      · exact a3.trans hsub
      · intro l hl hk
        rw [List.map_append] at hk
        rcases List.mem_append.mp hk with hk | hk
        · simp only [List.map_map, List.mem_map, List.mem_filter, Function.comp_def] at hk
          obtain ⟨l', ⟨hl', hli'⟩, hs⟩ := hk
          have hl2 := List.mem_filter.mp (a3.subset hl)
          have := serial_inj live hpw l' hl' l hl2.1 hs
          subst this
          simp_all
        · exact a4 l hl hk
      · intro l hl
        by_cases hli : l.id = i
        · right
          rw [List.map_append]
          apply List.mem_append.mpr; left
          simp only [List.map_map, List.mem_map, List.mem_filter, Function.comp_def]
          exact ⟨l, ⟨hl, by simp [hli]⟩, rfl⟩
        · rcases a5 l (List.mem_filter.mpr ⟨hl, by simp [hli]⟩) with h' | h'
          · exact Or.inl h'
          · right; rw [List.map_append]; exact List.mem_append.mpr (Or.inr h')


theorem minv_same (m : MSt) (F : List Nat) (h : MInv m F) : MInv m (F ++ []) := by simpa using h

theorem minv_eq (m m' : MSt) (F : List Nat) (h : MInv m F) (h1 : m'.live = m.live) (h2 : m'.nmake = m.nmake) :
    MInv m' (F ++ []) := by
  have := minv_advance m F [] m.live h (by simp) (by simp) (List.Sublist.refl _) (by simp) (by simp) m' h1 h2
  exact this

theorem minv_make_add (m : MSt) (F : List Nat) (h : MInv m F) (id : Int) (ex : Bool) (m' : MSt)
    (h1 : m'.live = m.live ++ [⟨m.nmake, id, ex⟩]) (h2 : m'.nmake = m.nmake + 1) : MInv m' (F ++ []) := by
  have hl := h.liveLt; have hf := h.firedLt; have hd := h.disj; have hc := h.cover; have hp := h.livePw
  constructor
  · rw [h1, List.pairwise_append]
    refine ⟨hp, by simp, ?_⟩
    intro a ha b hb
    simp only [List.mem_singleton] at hb; subst hb
    exact hl a ha
  · rw [h1, h2]; intro l hl'
    rcases List.mem_append.mp hl' with hl' | hl'
    · have := hl l hl'; omega
    · simp only [List.mem_singleton] at hl'; subst hl'; simp
  · rw [h2]; simp only [List.append_nil]; intro k hk; have := hf k hk; omega
  · rw [h1]; simp only [List.append_nil]; intro l hl' hk
    rcases List.mem_append.mp hl' with hl' | hl'
    · exact hd l hl' hk
    · simp only [List.mem_singleton] at hl'; subst hl'; have := hf _ hk; simp at this
  · simpa using h.nodup
  · rw [h1, h2]; simp only [List.append_nil]; intro k hk
    by_cases hk' : k < m.nmake
    · rcases hc k hk' with ⟨l, hl', rfl⟩ | hk''
      · exact Or.inl ⟨l, List.mem_append.mpr (Or.inl hl'), rfl⟩
      · exact Or.inr hk''
    · have : k = m.nmake := by omega
      subst this
      exact Or.inl ⟨_, List.mem_append.mpr (Or.inr (List.mem_singleton.mpr rfl)), rfl⟩

theorem minv_make_fire (m : MSt) (F : List Nat) (h : MInv m F) (m' : MSt)
    (h1 : m'.live = m.live) (h2 : m'.nmake = m.nmake + 1) : MInv m' (F ++ [m.nmake]) := by
  have hl := h.liveLt; have hf := h.firedLt; have hd := h.disj; have hc := h.cover; have hp := h.livePw
  constructor
  · rw [h1]; exact hp
  · rw [h1, h2]; intro l hl'; have := hl l hl'; omega
  · rw [h2]; intro k hk
    rcases List.mem_append.mp hk with hk | hk
    · have := hf k hk; omega
    · simp only [List.mem_singleton] at hk; omega
  · rw [h1]; intro l hl' hk
    rcases List.mem_append.mp hk with hk | hk
    · exact hd l hl' hk
    · simp only [List.mem_singleton] at hk; have := hl l hl'; omega
  · rw [List.nodup_append]
    refine ⟨h.nodup, by simp, ?_⟩
    intro a ha b hb hab
    simp only [List.mem_singleton] at hb; subst hb; subst hab
    have := hf _ ha; simp at this
  · rw [h1, h2]; intro k hk
    by_cases hk' : k < m.nmake
    · rcases hc k hk' with hx | hx
      · exact Or.inl hx
      · exact Or.inr (List.mem_append.mpr (Or.inl hx))
    · have : k = m.nmake := by omega
      subst this
      exact Or.inr (List.mem_append.mpr (Or.inr (List.mem_singleton.mpr rfl)))

theorem minv_step (m m' : MSt) (F : List Nat) (e : Ev) (os : List Ob) (h : MInv m F)
    (hs : mstep m (e, os) = some m') : MInv m' (F ++ (fires os).map (·.1)) := by
  cases e with
  | make id ex =>
    simp only [mstep] at hs
    split at hs
    · split at hs
      · rename_i hf; simp only [beq_iff_eq] at hf
        simp only [Option.some.injEq] at hs; subst hs
        rw [hf]; exact minv_same m F h
      · simp at hs
    · split at hs
      · rename_i hf
        split at hs
        · simp at hs
        · simp only [Option.some.injEq] at hs; subst hs
          rw [hf]; exact minv_make_add m F h id ex _ rfl rfl
      · rename_i k' i' hf
        split at hs
        · rename_i hc
          simp only [Option.some.injEq] at hs; subst hs
          rw [hf]
          have : k' = m.nmake := by simp_all
          subst this
          exact minv_make_fire m F h _ rfl rfl
        · simp at hs
      · rename_i k' i' hf
        split at hs
        · rename_i hc
          simp only [Option.some.injEq] at hs; subst hs
          rw [hf]
          have : k' = m.nmake := by simp_all
          subst this
          exact minv_make_fire m F h _ rfl rfl
        · simp at hs
      · rename_i k' i' hf
        split at hs
        · rename_i hc
          simp only [Option.some.injEq] at hs; subst hs
          rw [hf]
          have : k' = m.nmake := by simp_all
          subst this
          exact minv_make_fire m F h _ rfl rfl
        · simp at hs
      · simp at hs
  | cancel id =>
    simp only [mstep] at hs
    split at hs
    · rename_i hf; simp only [beq_iff_eq] at hf
      simp only [Option.some.injEq] at hs; subst hs
      rw [hf, List.map_map]
      apply minv_advance m F _ (m.live.filter (fun l => l.id != id)) h
      · exact nodup_serials _ (h.livePw.filter _)
      · intro k hk
        simp only [List.mem_map, List.mem_filter, Function.comp_def] at hk
        obtain ⟨l, ⟨hl, _⟩, rfl⟩ := hk
        exact ⟨l, hl, rfl⟩
      · exact List.filter_sublist
      · intro l hl hk
        simp only [List.mem_map, List.mem_filter, Function.comp_def] at hk hl
        obtain ⟨l', ⟨hl', hi'⟩, hs'⟩ := hk
        have := serial_inj m.live h.livePw l' hl' l hl.1 hs'
        subst this
        simp_all
      · intro l hl
        by_cases hi : l.id = id
        · right
          simp only [List.mem_map, List.mem_filter, Function.comp_def]
          exact ⟨l, ⟨hl, by simp [hi]⟩, rfl⟩
        · left; exact List.mem_filter.mpr ⟨hl, by simp [hi]⟩
      · rfl
      · rfl
    · simp at hs
  | connOk =>
    simp only [mstep] at hs
    split at hs
    · split at hs
      · rename_i hf; simp only [beq_iff_eq] at hf
        simp only [Option.some.injEq] at hs; subst hs
        rw [hf]; exact minv_same m F h
      · simp at hs
    · split at hs
      · rename_i hc
        simp only [Bool.and_eq_true, decide_eq_true_eq] at hc
        obtain ⟨hlegit, hnd⟩ := hc
        simp only [Option.some.injEq] at hs; subst hs
        apply minv_advance m F _ (m.live.filter (fun l => !((fires os).map (·.1)).contains l.serial)) h hnd
        · intro k hk
          obtain ⟨x, hx, rfl⟩ := List.mem_map.mp hk
          have := List.all_eq_true.mp hlegit x hx
          obtain ⟨l, hl, hcond⟩ := List.any_eq_true.mp this
          simp only [Bool.and_eq_true, beq_iff_eq] at hcond
          exact ⟨l, hl, hcond.1.1⟩
        · exact List.filter_sublist
        · intro l hl hk
          have := (List.mem_filter.mp hl).2
          simp only [Bool.not_eq_eq_eq_not, Bool.not_true] at this
          rw [← List.contains_iff_mem, this] at hk
          exact Bool.false_ne_true hk
        · intro l hl
          by_cases hk : l.serial ∈ (fires os).map (·.1)
          · exact Or.inr hk
          · left
            apply List.mem_filter.mpr ⟨hl, ?_⟩
            simp only [Bool.not_eq_eq_eq_not, Bool.not_true]
            rw [Bool.eq_false_iff]
            intro hc; exact hk (List.contains_iff_mem.mp hc)
        · rfl
        · rfl
      · simp at hs
  | bytesIn chunk =>
    simp only [mstep] at hs
    split at hs
    · split at hs
      · rename_i hf; simp only [beq_iff_eq] at hf
        simp only [Option.some.injEq] at hs; subst hs
        rw [hf]; exact minv_same m F h
      · simp at hs
    · split at hs
      · simp at hs
      · split at hs
        · simp at hs
        · split at hs
          · simp at hs
          · rename_i hfe
            have hfe' : fires os = (deliver m.live (feed m.buf chunk).frames).1 := by simpa using hfe
            obtain ⟨p1, p2, p3, p4, p5⟩ := deliver_props (feed m.buf chunk).frames m.live h.livePw
            have key := minv_advance m F _ (deliver m.live (feed m.buf chunk).frames).2.1 h p1
              (by intro k hk
                  obtain ⟨x, hx, rfl⟩ := List.mem_map.mp hk
                  obtain ⟨_, _, _, _, l, hl, hs', _⟩ := p2 x hx
                  exact ⟨l, hl, hs'⟩) p3 p4 p5
            rw [hfe']
            split at hs
            · simp only [Option.some.injEq] at hs; subst hs; exact key _ rfl rfl
            · split at hs
              · split at hs
                · simp only [Option.some.injEq] at hs; subst hs; exact key _ rfl rfl
                · simp at hs
              · simp only [Option.some.injEq] at hs; subst hs; exact key _ rfl rfl
  | lost =>
    simp only [mstep] at hs
    split at hs
    · simp at hs
    · rename_i hf
      have hf' : fires os = [] := by simpa using hf
      rw [hf']
      split at hs <;> (simp only [Option.some.injEq] at hs; subst hs)
      · exact minv_same m F h
      · exact minv_eq m _ F h rfl rfl
  | close =>
    simp only [mstep] at hs
    split at hs
    · split at hs
      · rename_i hf; simp only [beq_iff_eq] at hf
        simp only [Option.some.injEq] at hs; subst hs
        rw [hf]; exact minv_same m F h
      · simp at hs
    · split at hs
      · rename_i hp
        simp only [sameSet, List.isPerm_iff] at hp
        simp only [Option.some.injEq] at hs; subst hs
        have hp2 : ((fires os).map (·.1)).Perm (m.live.map (·.serial)) := by
          have := hp.map (·.1)
          simpa [List.map_map, Function.comp_def] using this
        apply minv_advance m F _ [] h
        · exact hp2.nodup_iff.mpr (nodup_serials _ h.livePw)
        · intro k hk
          have := hp2.mem_iff.mp hk
          obtain ⟨l, hl, rfl⟩ := List.mem_map.mp this
          exact ⟨l, hl, rfl⟩
        · exact List.nil_sublist _
        · simp
        · intro l hl
          right
          exact hp2.mem_iff.mpr (List.mem_map_of_mem hl)
        · rfl
        · rfl
      · simp at hs
  | disconnect =>
    simp only [mstep] at hs
    split at hs
    · rename_i hf; simp only [beq_iff_eq] at hf
      simp only [Option.some.injEq] at hs; subst hs
      rw [hf]; exact minv_eq m _ F h rfl rfl
    · simp at hs
  | writeFail b =>
    simp only [mstep] at hs
    split at hs
    · rename_i hf; simp only [beq_iff_eq] at hf
      simp only [Option.some.injEq] at hs; subst hs
      rw [hf]; exact minv_eq m _ F h rfl rfl
    · simp at hs
  | connFail =>
    simp only [mstep] at hs
    split at hs
    · rename_i hf; simp only [beq_iff_eq] at hf
      simp only [Option.some.injEq] at hs; subst hs
      rw [hf]; exact minv_same m F h
    · simp at hs
  | advance dt =>
    simp only [mstep] at hs
    split at hs
    · rename_i hf; simp only [beq_iff_eq] at hf
      simp only [Option.some.injEq] at hs; subst hs
      rw [hf]; exact minv_same m F h
    · simp at hs
  | updateMetadata a b =>
    simp only [mstep] at hs
    split at hs
    · rename_i hf; simp only [beq_iff_eq] at hf
      simp only [Option.some.injEq] at hs; subst hs
      rw [hf]; exact minv_same m F h
    · simp at hs

theorem minv_run (tr : List (Ev × List Ob)) : ∀ (m m' : MSt) (F : List Nat), MInv m F → mrun m tr = some m' →
    MInv m' (F ++ firedOf tr) := by
  induction tr with
  | nil => intro m m' F h hr; simp only [mrun, Option.some.injEq] at hr; subst hr; simpa [firedOf] using h
  | cons t ts ih =>
    intro m m' F h hr
    simp only [mrun] at hr
    split at hr
    · simp at hr
    · rename_i m1 hm1
      have := ih m1 m' _ (minv_step m m1 F t.1 t.2 h hm1) hr
      simpa [firedOf, List.append_assoc] using this


/-- The only reasons for which an accepted step may fire the Deferred of request `(k, i)` with `r`. -/
def Cause (m : MSt) (e : Ev) (os : List Ob) (k : Nat) (i : Int) : Res → Prop
  | .ok b => ∃ chunk, e = .bytesIn chunk ∧ b ∈ (feed m.buf chunk).frames ∧ corrId b = some i ∧ m.conn.isSome = true
  | .none => (e = .make i false ∧ k = m.nmake ∧ ∃ c, m.conn = some c ∧ (os.contains (.write c k i) || os.contains (.writeLost c k i)) = true)
              ∨ (e = .connOk ∧ os.contains (.write m.nconn k i) = true)
  | .err .cancelled => e = .cancel i
  | .err .clientError => e = .close ∨ (∃ ex, e = .make i ex ∧ k = m.nmake ∧ m.closed = true)
  | .err .writeError => ((∃ ex, e = .make i ex ∧ k = m.nmake) ∨ e = .connOk) ∧ m.wfail = true

theorem fires_mem_nil {os : List Ob} (h : fires os = []) : ∀ x ∈ fires os, False := by simp [h]

theorem causes (m m' : MSt) (e : Ev) (os : List Ob) (hs : mstep m (e, os) = some m') :
    ∀ x ∈ fires os, Cause m e os x.1 x.2.1 x.2.2 := by
  intro x hx
  cases e with
  | make id ex =>
    simp only [mstep] at hs
    split at hs
    · split at hs
      · rename_i hf; simp only [beq_iff_eq] at hf; simp [hf] at hx
      · simp at hs
    · split at hs
      · rename_i hf; simp [hf] at hx
      · rename_i k' i' hf
        split at hs
        · rename_i hc
          simp only [hf, List.mem_singleton] at hx; subst hx
          simp only [Bool.and_eq_true, beq_iff_eq, Bool.not_eq_eq_eq_not, Bool.not_true, Option.any_eq_true] at hc
          obtain ⟨⟨⟨⟨rfl, rfl⟩, he⟩, _⟩, c, hc1, hc2⟩ := hc
          subst he
          exact Or.inl ⟨rfl, rfl, c, hc1, by simpa using hc2⟩
        · simp at hs
      · rename_i k' i' hf
        split at hs
        · rename_i hc
          simp only [hf, List.mem_singleton] at hx; subst hx
          simp only [Bool.and_eq_true, beq_iff_eq] at hc
          obtain ⟨⟨rfl, rfl⟩, hcl⟩ := hc
          exact Or.inr ⟨ex, rfl, rfl, hcl⟩
        · simp at hs
      · rename_i k' i' hf
        split at hs
        · rename_i hc
          simp only [hf, List.mem_singleton] at hx; subst hx
          simp only [Bool.and_eq_true, beq_iff_eq] at hc
          obtain ⟨⟨⟨rfl, rfl⟩, hw⟩, _⟩ := hc
          exact ⟨Or.inl ⟨ex, rfl, rfl⟩, hw⟩
        · simp at hs
      · simp at hs
  | cancel id =>
    simp only [mstep] at hs
    split at hs
    · rename_i hf; simp only [beq_iff_eq] at hf
      rw [hf] at hx
      simp only [List.mem_map, List.mem_filter] at hx
      obtain ⟨l, ⟨_, hli⟩, rfl⟩ := hx
      simp only [beq_iff_eq] at hli
      simp [Cause, hli]
    · simp at hs
  | connOk =>
    simp only [mstep] at hs
    split at hs
    · split at hs
      · rename_i hf; simp only [beq_iff_eq] at hf; simp [hf] at hx
      · simp at hs
    · split at hs
      · rename_i hc
        simp only [Bool.and_eq_true, decide_eq_true_eq] at hc
        have := List.all_eq_true.mp hc.1 x hx
        obtain ⟨l, _, hcond⟩ := List.any_eq_true.mp this
        obtain ⟨k, i, r⟩ := x
        simp only [Bool.and_eq_true, beq_iff_eq, Bool.or_eq_true, Bool.not_eq_eq_eq_not, Bool.not_true] at hcond
        rcases hcond.2 with ⟨⟨⟨rfl, _⟩, _⟩, hw⟩ | ⟨rfl, hw⟩
        · exact Or.inr ⟨rfl, hw⟩
        · exact ⟨Or.inr rfl, hw⟩
      · simp at hs
  | bytesIn chunk =>
    simp only [mstep] at hs
    split at hs
    · split at hs
      · rename_i hf; simp only [beq_iff_eq] at hf; simp [hf] at hx
      · simp at hs
    · split at hs
      · simp at hs
      · rename_i c hc
        split at hs
        · simp at hs
        · split at hs
          · simp at hs
          · rename_i hfe
            have hfe' : fires os = (deliver m.live (feed m.buf chunk).frames).1 := by simpa using hfe
            rw [hfe'] at hx
            -- the structural facts about `deliver` need no ordering of `live`
            have : ∀ (fs : List Bytes) (live : List Live), ∀ x ∈ (deliver live fs).1, ∃ b ∈ fs, x.2.2 = Res.ok b ∧ corrId b = some x.2.1 := by
              intro fs
              induction fs with
              | nil => intro live x hx; simp [deliver] at hx
              | cons f fs ih =>
                intro live x hx
                cases hid : corrId f with
                | none => simp [deliver, hid] at hx
                | some i =>
                  simp only [deliver, hid] at hx
                  rcases List.mem_append.mp hx with hx | hx
                  · simp only [List.mem_map, List.mem_filter] at hx
                    obtain ⟨l, ⟨_, hli⟩, rfl⟩ := hx
                    exact ⟨f, by simp, rfl, by simp_all⟩
                  · obtain ⟨b, hb, h1, h2⟩ := ih _ x hx
                    exact ⟨b, by simp [hb], h1, h2⟩
            obtain ⟨b, hb, h1, h2⟩ := this _ _ x hx
            obtain ⟨k, i, r⟩ := x
            simp only at h1 h2
            subst h1
            exact ⟨chunk, rfl, hb, h2, by simp [hc]⟩
  | lost =>
    simp only [mstep] at hs
    split at hs
    · simp at hs
    · rename_i hf
      have hf' : fires os = [] := by simpa using hf
      simp [hf'] at hx
  | close =>
    simp only [mstep] at hs
    split at hs
    · split at hs
      · rename_i hf; simp only [beq_iff_eq] at hf; simp [hf] at hx
      · simp at hs
    · split at hs
      · rename_i hp
        simp only [sameSet, List.isPerm_iff] at hp
        have := hp.mem_iff.mp hx
        simp only [List.mem_map] at this
        obtain ⟨l, _, rfl⟩ := this
        exact Or.inl rfl
      · simp at hs
  | disconnect =>
    simp only [mstep] at hs
    split at hs
    · rename_i hf; simp only [beq_iff_eq] at hf; simp [hf] at hx
    · simp at hs
  | writeFail b =>
    simp only [mstep] at hs
    split at hs
    · rename_i hf; simp only [beq_iff_eq] at hf; simp [hf] at hx
    · simp at hs
  | connFail =>
    simp only [mstep] at hs
    split at hs
    · rename_i hf; simp only [beq_iff_eq] at hf; simp [hf] at hx
    · simp at hs
  | advance dt =>
    simp only [mstep] at hs
    split at hs
    · rename_i hf; simp only [beq_iff_eq] at hf; simp [hf] at hx
    · simp at hs
  | updateMetadata a b =>
    simp only [mstep] at hs
    split at hs
    · rename_i hf; simp only [beq_iff_eq] at hf; simp [hf] at hx
    · simp at hs

theorem mem_fires (os : List Ob) (k : Nat) (i : Int) (r : Res) : Ob.fire k i r ∈ os ↔ (k, i, r) ∈ fires os := by
  induction os with
  | nil => simp [fires]
  | cons o os ih =>
    cases o <;> simp [fires, ih]

end Afkak.Monitor.C06
