import Afkak.Monitor.C10
/-!
# What acceptance by the C10 monitor implies (pure reasoning about `Monitor.C10.mstep`)
-/
namespace Afkak.Monitor.C10
open Afkak.BrokerClient

/-- (connection, serial) of every write of a trace, in order -/
def writtenOf (tr : List (Ev × List Ob)) : List (Nat × Nat) :=
  tr.flatMap (fun t => (writes t.2).map (fun w => (w.1, w.2.1)))

/-- What acceptance maintains (`W`: the writes so far). -/
structure MInv (m : MSt) (W : List (Nat × Nat)) : Prop where
  pendPw : m.pend.Pairwise (fun a b => a.1 < b.1)
  pendLt : ∀ p ∈ m.pend, p.1 < m.nmake
  wLt : ∀ w ∈ W, w.1 < m.nconn ∧ w.2 < m.nmake
  wNodup : W.Nodup
  connLt : ∀ c, m.conn = some c → c < m.nconn

theorem minv_init (a b : Nat) : MInv (MSt.init a b) [] := by
  constructor <;> simp [MSt.init]

theorem unfire_sub (p : List (Nat × Int)) (os : List Ob) : (unfire p os).Sublist p := List.filter_sublist

/-- A step that writes nothing and hands out no serial. -/
theorem minv_quiet (m m' : MSt) (W : List (Nat × Nat)) (os : List Ob) (h : MInv m W)
    (hw : writes os = []) (hp : m'.pend.Sublist m.pend) (hn : m'.nmake = m.nmake)
    (hc : m'.nconn = m.nconn) (hcc : m'.conn = m.conn ∨ m'.conn = none) :
    MInv m' (W ++ (writes os).map (fun w => (w.1, w.2.1))) := by
  constructor
  · exact h.pendPw.sublist hp
  · rw [hn]; intro p hp'; exact h.pendLt p (hp.subset hp')
  · rw [hw, hn, hc]; simpa using h.wLt
  · rw [hw]; simpa using h.wNodup
  · rw [hc]; intro c hc'
    rcases hcc with hcc | hcc
    · exact h.connLt c (by rw [← hcc]; exact hc')
    · rw [hcc] at hc'; simp at hc'

theorem quiet_writes {os : List Ob} (h : quiet os = true) : writes os = [] := by
  simp only [quiet, Bool.and_eq_true, beq_iff_eq] at h; exact h.1.1

theorem afterLoss_minv (m m' : MSt) (W : List (Nat × Nat)) (os : List Ob) (pend : List (Nat × Int)) (h : MInv m W)
    (hw : writes os = []) (hp : pend.Sublist m.pend) (hs : afterLoss m pend os = some m') :
    MInv m' (W ++ (writes os).map (fun w => (w.1, w.2.1))) := by
  simp only [afterLoss] at hs
  split at hs
  · split at hs
    · simp only [Option.some.injEq] at hs; subst hs
      exact minv_quiet m _ W os h hw hp rfl rfl (Or.inr rfl)
    · simp at hs
  · split at hs
    · split at hs
      · simp only [Option.some.injEq] at hs; subst hs
        exact minv_quiet m _ W os h hw hp rfl rfl (Or.inr rfl)
      · simp at hs
    · split at hs
      · simp only [Option.some.injEq] at hs; subst hs
        exact minv_quiet m _ W os h hw hp rfl rfl (Or.inr rfl)
      · simp at hs

theorem ite_some {α} {c : Prop} [Decidable c] {a b : α} (h : (if c then some a else none) = some b) : c ∧ a = b := by
  split at h
  · exact ⟨by assumption, by simpa using h⟩
  · simp at h

theorem ite_some_opt {α} {c : Prop} [Decidable c] {x : Option α} {b : α} (h : (if c then x else none) = some b) : c ∧ x = some b := by
  split at h
  · exact ⟨by assumption, h⟩
  · simp at h

theorem ite_none {α} {c : Prop} [Decidable c] {x : Option α} {b : α} (h : (if c then none else x) = some b) : ¬ c ∧ x = some b := by
  split at h
  · simp at h
  · exact ⟨by assumption, h⟩

theorem minv_step (policy : Nat → Rat) (m m' : MSt) (W : List (Nat × Nat)) (e : Ev) (os : List Ob) (h : MInv m W)
    (hs : mstep policy m (e, os) = some m') :
    MInv m' (W ++ (writes os).map (fun w => (w.1, w.2.1))) ∧
    (∀ w ∈ writes os, w.2.1 = m.nmake ∨ ∃ p ∈ m.pend, p.1 = w.2.1) := by
  -- the two shapes of a step that writes nothing
  have quietCase : ∀ (m1 : MSt), m1 = m' → writes os = [] → m1.pend.Sublist m.pend → m1.nmake = m.nmake → m1.nconn = m.nconn →
      (m1.conn = m.conn ∨ m1.conn = none) →
      MInv m' (W ++ (writes os).map (fun w => (w.1, w.2.1))) ∧
      (∀ w ∈ writes os, w.2.1 = m.nmake ∨ ∃ p ∈ m.pend, p.1 = w.2.1) := by
    intro m1 he hw hp hn hc hcc
    subst he
    exact ⟨minv_quiet m _ W os h hw hp hn hc hcc, by simp [hw]⟩
  cases e with
  | make id ex =>
    simp only [mstep] at hs
    split at hs
    · obtain ⟨hq, rfl⟩ := ite_some hs
      exact quietCase _ rfl (quiet_writes hq) (List.Sublist.refl _) rfl rfl (Or.inl rfl)
    · -- a serial is handed out
      have hadd : ∀ (m1 : MSt), m1.nmake = m.nmake + 1 → m1.nconn = m.nconn → m1.conn = m.conn →
          m1.pend = unfire (m.pend ++ [(m.nmake, id)]) os →
          ∀ ws : List (Nat × Nat × Int × Bool), writes os = ws → (∀ w ∈ ws, w.2.1 = m.nmake ∧ ∃ c, m.conn = some c ∧ w.1 = c) → ws.length ≤ 1 →
          MInv m1 (W ++ (writes os).map (fun w => (w.1, w.2.1))) := by
        intro m1 h1 h2 h3 h4 ws hws hwk hlen
        have hsub := unfire_sub (m.pend ++ [(m.nmake, id)]) os
        have hpw : (m.pend ++ [(m.nmake, id)]).Pairwise (fun a b => a.1 < b.1) := by
          rw [List.pairwise_append]
          refine ⟨h.pendPw, by simp, ?_⟩
          intro a ha b hb
          simp only [List.mem_singleton] at hb; subst hb
          exact h.pendLt a ha
        constructor
        · rw [h4]; exact hpw.sublist hsub
        · rw [h4, h1]; intro p hp
          rcases List.mem_append.mp (hsub.subset hp) with hp | hp
          · have := h.pendLt p hp; omega
          · simp only [List.mem_singleton] at hp; subst hp; simp
        · rw [h1, h2, hws]; intro w hw
          rcases List.mem_append.mp hw with hw | hw
          · have := h.wLt w hw; omega
          · obtain ⟨x, hx, rfl⟩ := List.mem_map.mp hw
            obtain ⟨hk, c, hc, hxc⟩ := hwk x hx
            have := h.connLt c hc
            simp only; omega
        · rw [hws, List.nodup_append]
          refine ⟨h.wNodup, ?_, ?_⟩
          · match ws, hlen with
            | [], _ => simp
            | [_], _ => simp
          · intro a ha b hb hab
            subst hab
            obtain ⟨x, hx, rfl⟩ := List.mem_map.mp hb
            obtain ⟨hk, _⟩ := hwk x hx
            have := (h.wLt _ ha).2
            simp only at this; omega
        · rw [h2]; intro c hc; exact h.connLt c (by rw [← h3]; exact hc)
      split at hs
      · obtain ⟨hq, rfl⟩ := ite_some hs
        have hw := quiet_writes hq
        exact ⟨hadd _ rfl rfl rfl rfl [] hw (by simp) (by simp), by simp [hw]⟩
      · obtain ⟨_, hs⟩ := ite_none hs
        split at hs
        · rename_i c hc
          obtain ⟨hcond, rfl⟩ := ite_some hs
          simp only [Bool.and_eq_true, beq_iff_eq] at hcond
          by_cases hwf : m.wfail = true
          · have hw : writes os = [] := by rw [hcond.1, if_pos hwf]
            exact ⟨hadd _ rfl rfl rfl rfl [] hw (by simp) (by simp), by simp [hw]⟩
          · have hw : writes os = [(c, m.nmake, id, m.losing)] := by rw [hcond.1, if_neg hwf]
            refine ⟨hadd _ rfl rfl rfl rfl _ hw (by intro w hw'; simp only [List.mem_singleton] at hw'; subst hw'; exact ⟨rfl, c, hc, rfl⟩) (by simp), ?_⟩
            intro w hw'; rw [hw] at hw'; simp only [List.mem_singleton] at hw'; subst hw'; exact Or.inl rfl
        · obtain ⟨hwn, hs⟩ := ite_none hs
          have hw : writes os = [] := by simpa using hwn
          split at hs
          · obtain ⟨_, rfl⟩ := ite_some hs
            exact ⟨hadd _ rfl rfl rfl rfl [] hw (by simp) (by simp), by simp [hw]⟩
          · obtain ⟨_, rfl⟩ := ite_some hs
            exact ⟨hadd _ rfl rfl rfl rfl [] hw (by simp) (by simp), by simp [hw]⟩
  | cancel id =>
    simp only [mstep] at hs
    obtain ⟨hq, rfl⟩ := ite_some hs
    exact quietCase { m with pend := unfire m.pend os } rfl (quiet_writes hq) (unfire_sub _ _) rfl rfl (Or.inl rfl)
  | connOk =>
    simp only [mstep] at hs
    split at hs
    · obtain ⟨hq, rfl⟩ := ite_some hs
      exact quietCase _ rfl (quiet_writes hq) (List.Sublist.refl _) rfl rfl (Or.inl rfl)
    · obtain ⟨_, hs⟩ := ite_none hs
      obtain ⟨hcond, rfl⟩ := ite_some hs
      simp only [Bool.and_eq_true, beq_iff_eq] at hcond
      have hwsub : ∀ w ∈ writes os, w.1 = m.nconn ∧ ∃ p ∈ m.pend, p.1 = w.2.1 := by
        intro w hw
        rw [hcond.1.1] at hw
        split at hw
        · simp at hw
        · obtain ⟨p, hp, rfl⟩ := List.mem_map.mp hw
          exact ⟨rfl, p, hp, rfl⟩
      have hwnd : ((writes os).map (fun w => (w.1, w.2.1))).Nodup := by
        rw [hcond.1.1]
        split
        · simp
        · rw [List.map_map]
          exact h.pendPw.map _ (fun a b hab heq => by
            simp only [Function.comp_def, Prod.mk.injEq] at heq; omega)
      refine ⟨?_, fun w hw => Or.inr (hwsub w hw).2⟩
      constructor
      · exact h.pendPw.sublist (unfire_sub _ _)
      · intro p hp; exact h.pendLt p ((unfire_sub _ _).subset hp)
      · intro w hw
        rcases List.mem_append.mp hw with hw | hw
        · have := h.wLt w hw; simp only; omega
        · obtain ⟨x, hx, rfl⟩ := List.mem_map.mp hw
          obtain ⟨h1, p, hp, h2⟩ := hwsub x hx
          have := h.pendLt p hp
          simp only; omega
      · rw [List.nodup_append]
        refine ⟨h.wNodup, hwnd, ?_⟩
        intro a ha b hb hab
        subst hab
        obtain ⟨x, hx, rfl⟩ := List.mem_map.mp hb
        have := (hwsub x hx).1
        have := (h.wLt _ ha).1
        simp only at this; omega
      · intro c hc; simp only [Option.some.injEq] at hc; subst hc; simp
  | connFail =>
    simp only [mstep] at hs
    split at hs
    · obtain ⟨hq, rfl⟩ := ite_some hs
      exact quietCase _ rfl (quiet_writes hq) (List.Sublist.refl _) rfl rfl (Or.inl rfl)
    · obtain ⟨_, hs⟩ := ite_none hs
      obtain ⟨hcond, rfl⟩ := ite_some hs
      simp only [Bool.and_eq_true, beq_iff_eq] at hcond
      exact quietCase _ rfl hcond.1.2 (List.Sublist.refl _) rfl rfl (Or.inl rfl)
  | advance dt =>
    simp only [mstep] at hs
    split at hs
    · obtain ⟨hq, rfl⟩ := ite_some hs
      exact quietCase _ rfl (quiet_writes hq) (List.Sublist.refl _) rfl rfl (Or.inl rfl)
    · obtain ⟨hw, hs⟩ := ite_none hs
      have hw' : writes os = [] := by
        simp only [Bool.or_eq_true, bne_iff_ne, ne_eq, not_or, Decidable.not_not] at hw; exact hw.1
      split at hs
      · split at hs
        · obtain ⟨_, rfl⟩ := ite_some hs
          exact quietCase _ rfl hw' (List.Sublist.refl _) rfl rfl (Or.inl rfl)
        · obtain ⟨_, rfl⟩ := ite_some hs
          exact quietCase _ rfl hw' (List.Sublist.refl _) rfl rfl (Or.inl rfl)
      · obtain ⟨_, rfl⟩ := ite_some hs
        exact quietCase _ rfl hw' (List.Sublist.refl _) rfl rfl (Or.inl rfl)
  | bytesIn chunk =>
    simp only [mstep] at hs
    obtain ⟨hw, hs⟩ := ite_none hs
    have hw' : writes os = [] := by
      simp only [Bool.or_eq_true, bne_iff_ne, ne_eq, not_or, Decidable.not_not] at hw; exact hw.1
    split at hs
    · obtain ⟨_, hs⟩ := ite_some_opt hs
      exact ⟨afterLoss_minv m m' W os _ h hw' (unfire_sub _ _) hs, by simp [hw']⟩
    · obtain ⟨_, hs⟩ := ite_none hs
      simp only [Option.some.injEq] at hs; subst hs
      exact quietCase _ rfl hw' (unfire_sub _ _) rfl rfl (Or.inl rfl)
  | lost =>
    simp only [mstep] at hs
    split at hs
    · obtain ⟨hq, rfl⟩ := ite_some hs
      exact quietCase _ rfl (quiet_writes hq) (List.Sublist.refl _) rfl rfl (Or.inl rfl)
    · obtain ⟨hw, hs⟩ := ite_none hs
      have hw' : writes os = [] := by
        simp only [Bool.or_eq_true, bne_iff_ne, ne_eq, not_or, Decidable.not_not] at hw; exact hw.1.1
      exact ⟨afterLoss_minv m m' W os _ h hw' (unfire_sub _ _) hs, by simp [hw']⟩
  | close =>
    simp only [mstep] at hs
    split at hs
    · obtain ⟨hq, rfl⟩ := ite_some hs
      exact quietCase _ rfl (quiet_writes hq) (List.Sublist.refl _) rfl rfl (Or.inl rfl)
    · obtain ⟨hq, hs⟩ := ite_none hs
      have hw' : writes os = [] := quiet_writes (by simpa using hq)
      obtain ⟨_, hs⟩ := ite_none hs
      split at hs
      · obtain ⟨_, rfl⟩ := ite_some hs
        exact quietCase _ rfl hw' (List.nil_sublist _) rfl rfl (Or.inl rfl)
      · obtain ⟨_, rfl⟩ := ite_some hs
        exact quietCase _ rfl hw' (List.nil_sublist _) rfl rfl (Or.inl rfl)
  | disconnect =>
    simp only [mstep] at hs
    obtain ⟨hq, hs⟩ := ite_none hs
    have hw' : writes os = [] := quiet_writes (by simpa using hq)
    split at hs
    · obtain ⟨_, rfl⟩ := ite_some hs
      exact quietCase _ rfl hw' (List.Sublist.refl _) rfl rfl (Or.inl rfl)
    · simp only [Option.some.injEq] at hs; subst hs
      exact quietCase _ rfl hw' (List.Sublist.refl _) rfl rfl (Or.inl rfl)
  | updateMetadata a b =>
    simp only [mstep] at hs
    obtain ⟨hq, rfl⟩ := ite_some hs
    exact quietCase { m with host := a, port := b } rfl (quiet_writes hq) (List.Sublist.refl _) rfl rfl (Or.inl rfl)
  | writeFail b =>
    simp only [mstep] at hs
    obtain ⟨hq, rfl⟩ := ite_some hs
    exact quietCase { m with wfail := b } rfl (quiet_writes hq) (List.Sublist.refl _) rfl rfl (Or.inl rfl)

theorem minv_run (policy : Nat → Rat) (tr : List (Ev × List Ob)) : ∀ (m m' : MSt) (W : List (Nat × Nat)), MInv m W →
    mrun policy m tr = some m' → MInv m' (W ++ writtenOf tr) := by
  induction tr with
  | nil => intro m m' W h hr; simp only [mrun, Option.some.injEq] at hr; subst hr; simpa [writtenOf] using h
  | cons t ts ih =>
    intro m m' W h hr
    simp only [mrun] at hr
    split at hr
    · simp at hr
    · rename_i m1 hm1
      have := ih m1 m' _ (minv_step policy m m1 W t.1 t.2 h hm1).1 hr
      simpa [writtenOf, List.append_assoc] using this

end Afkak.Monitor.C10
