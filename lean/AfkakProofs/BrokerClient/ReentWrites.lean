import Afkak.BrokerClientR
/-!
# Re-entrant model: what is written when a connection comes up (task `sendLoop`)

Every request written while `_sendQueued` runs — at top level or by callbacks nested to any depth — is either a member of
the snapshot of the table the loop iterates over, or a request made DURING the loop (its serial is at least the serial
counter at the start).  Proved for the tasks reachable from `sendLoop` by induction on the fuel (`Inner`: everything but
`frames`, `lost`, `dial`, which no callback can start).
-/
namespace Afkak.BrokerClientR
open Afkak.Frame Afkak.BrokerClient Afkak.Consts

/-- tasks that `sendLoop` and the callbacks it runs can reach -/
def Inner : Task → Bool
  | .frames .. => false
  | .lost => false
  | .dial => false
  | _ => true

/-- the serial counter never decreases -/
theorem nmake_mono (cfg : Cfg) : ∀ (n : Nat) (s : StR) (task : Task), Inner task = true →
    ∀ m, m ≤ s.core.nmake → m ≤ (exec cfg n s task).1.core.nmake := by
  intro n
  induction n with
  | zero => intro s task _ m hm; simpa [exec] using hm
  | succ n ih =>
    intro s task hin m hm
    have up : m ≤ s.core.nmake + 1 := Nat.le_succ_of_le hm
    cases task with
    | fire k id r =>
      simp only [exec]
      split
      · exact hm
      · exact ih _ _ rfl _ hm
    | fireAll l r =>
      cases l with
      | nil => simpa [exec] using hm
      | cons p ps =>
        simp only [exec]
        exact ih _ _ rfl _ (ih _ _ rfl _ hm)
    | acts h =>
      cases h with
      | nil => simpa [exec] using hm
      | cons a as =>
        simp only [exec]
        exact ih _ _ rfl _ (ih _ _ rfl _ hm)
    | act a =>
      cases a with
      | close => simp only [exec]; exact ih _ _ rfl _ hm
      | disconnect =>
        simp only [exec, step]
        split <;> exact hm
      | cancel id => simp only [exec]; exact ih _ _ rfl _ hm
      | make id ex =>
        simp only [exec]
        split <;> exact ih _ _ rfl _ hm
    | make id ex h =>
      simp only [exec]
      split
      · exact hm
      · split
        · exact ih _ _ rfl _ up
        · split
          · split
            · exact ih _ _ rfl _ up
            · split
              · exact up
              · exact ih _ _ rfl _ up
          · split
            · simp only [connect_, tryConnect]; exact up
            · exact up
    | cancel id =>
      simp only [exec]
      split
      · exact ih _ _ rfl _ hm
      · exact hm
    | close =>
      simp only [exec]
      split
      · exact hm
      · split
        · exact ih _ _ rfl _ hm
        · split
          · exact ih _ _ rfl _ hm
          · exact ih _ _ rfl _ hm
    | closeLoop =>
      simp only [exec]
      split
      · exact hm
      · split
        · exact ih _ _ rfl _ hm
        · exact ih _ _ rfl _ (ih _ _ rfl _ hm)
    | sendLoop c snap =>
      cases snap with
      | nil => simpa [exec] using hm
      | cons k ks =>
        simp only [exec]
        split
        · exact ih _ _ rfl _ hm
        · split
          · exact ih _ _ rfl _ (ih _ _ rfl _ hm)
          · split
            · exact ih _ _ rfl _ hm
            · exact ih _ _ rfl _ (ih _ _ rfl _ hm)
    | frames c fs f => cases hin
    | makeS id ex h =>
      simp only [exec]
      split
      · split
        · exact ih _ _ rfl _ hm
        · exact up
      · exact ih _ _ rfl _ hm
    | lost => cases hin
    | dial => cases hin

macro "bb" : tactic => `(tactic| first
  | exact ‹_ ≤ StR.core _ |>.nmake›
  | assumption
  | (apply nmake_mono _ _ _ _ rfl; first | assumption | exact Nat.le_succ_of_le ‹_›)
  | exact Nat.le_succ_of_le ‹_›)

def IsWrite (o : ObR) (k : Nat) : Prop := ∃ c id, o = .ob (.write c k id) ∨ o = .ob (.writeLost c k id)

/-- where a write may come from: a member of the snapshot `sendLoop` iterates over, or a request made since `base` -/
def WSrc : Task → Nat → Nat → Prop
  | .sendLoop _ snap, base, k => k ∈ snap ∨ base ≤ k
  | _, base, k => base ≤ k

theorem isWrite_w {losing : Bool} {conn k0 : Nat} {id : Int} {k : Nat}
    (h : IsWrite (.ob (if losing then Ob.writeLost conn k0 id else Ob.write conn k0 id)) k) : k = k0 := by
  obtain ⟨c', id', h | h⟩ := h <;> split at h <;> simp at h <;> exact h.2.1.symm

theorem not_isWrite_obs (os : List Ob) (k : Nat) (h : ∀ c id, Ob.write c k id ∉ os ∧ Ob.writeLost c k id ∉ os) :
    ∀ o ∈ obs os, ¬ IsWrite o k := by
  intro o ho ⟨c, id, hw⟩
  simp only [obs, List.mem_map] at ho
  obtain ⟨x, hx, he⟩ := ho
  rcases hw with hw | hw
  · rw [hw] at he; cases he; exact (h c id).1 hx
  · rw [hw] at he; cases he; exact (h c id).2 hx

theorem writes_src (cfg : Cfg) : ∀ (n : Nat) (s : StR) (task : Task), Inner task = true →
    ∀ (base : Nat), base ≤ s.core.nmake → ∀ (o : ObR) (k : Nat), o ∈ (exec cfg n s task).2 → IsWrite o k →
      WSrc task base k := by
  intro n
  induction n with
  | zero =>
    intro s task _ base _ o k ho hw
    simp only [exec, List.mem_singleton] at ho
    subst ho
    rcases hw with ⟨_, _, h | h⟩ <;> cases h
  | succ n ih =>
    intro s task hin base hb o k ho hw
    have up : base ≤ s.core.nmake + 1 := Nat.le_succ_of_le hb
    have lit : ∀ {x : ObR}, o = x → (∀ c id, x ≠ .ob (.write c k id) ∧ x ≠ .ob (.writeLost c k id)) → False := by
      intro x hx hn
      obtain ⟨c, id, h | h⟩ := hw
      · exact (hn c id).1 (hx ▸ h)
      · exact (hn c id).2 (hx ▸ h)
    cases task with
    | fire k1 id r =>
      simp only [exec] at ho
      split at ho
      · simp only [List.mem_singleton] at ho
        exact (lit ho (by intro c id; constructor <;> simp)).elim
      · simp only [List.mem_append, List.mem_cons, List.mem_singleton, List.not_mem_nil, or_false] at ho
        rcases ho with ((ho | ho) | ho) | ho
        · exact (lit ho (by intro c id; constructor <;> simp)).elim
        · exact (lit ho (by intro c id; constructor <;> simp)).elim
        · exact ih _ (.acts _) rfl base (by bb) o k ho hw
        · exact (lit ho (by intro c id; constructor <;> simp)).elim
    | fireAll l r =>
      cases l with
      | nil => simp [exec] at ho
      | cons p ps =>
        simp only [exec, List.mem_append] at ho
        rcases ho with ho | ho
        · exact ih s (.fire p.1 p.2 r) rfl base (by bb) o k ho hw
        · exact ih _ (.fireAll ps r) rfl base (by bb) o k ho hw
    | acts h =>
      cases h with
      | nil => simp [exec] at ho
      | cons a as =>
        simp only [exec, List.mem_append] at ho
        rcases ho with ho | ho
        · exact ih s (.act a) rfl base (by bb) o k ho hw
        · exact ih _ (.acts as) rfl base (by bb) o k ho hw
    | act a =>
      cases a with
      | close => simp only [exec] at ho; exact ih s .close rfl base (by bb) o k ho hw
      | disconnect =>
        simp only [exec] at ho
        refine (not_isWrite_obs _ k ?_ o ho hw).elim
        intro c id; simp only [step]; split <;> simp
      | cancel id => simp only [exec] at ho; exact ih s (.cancel id) rfl base (by bb) o k ho hw
      | make id ex =>
        simp only [exec] at ho
        split at ho
        · exact ih s (.make id ex none) rfl base (by bb) o k ho hw
        · exact ih s (.makeS id ex none) rfl base (by bb) o k ho hw
    | make id ex h =>
      simp only [exec] at ho
      by_cases hd : s.core.reqs.any (fun r => r.id == id) = true
      · simp only [hd, if_true, List.mem_singleton] at ho
        exact (lit ho (by intro c id; constructor <;> simp)).elim
      · simp only [hd, Bool.false_eq_true, if_false] at ho
        by_cases hc : s.core.closed = true
        · simp only [hc, if_true, List.mem_cons] at ho
          rcases ho with ho | ho
          · exact (lit ho (by intro c id; constructor <;> simp)).elim
          · exact ih _ (.fire _ _ _) rfl base (by bb) o k ho hw
        · simp only [hc, Bool.false_eq_true, if_false] at ho
          cases hp : s.core.proto with
          | some conn =>
            simp only [hp] at ho
            by_cases hwf : s.core.wfail = true
            · simp only [hwf, if_true, List.mem_cons] at ho
              rcases ho with ho | ho
              · exact (lit ho (by intro c id; constructor <;> simp)).elim
              · exact ih _ (.fire _ _ _) rfl base (by bb) o k ho hw
            · simp only [hwf, Bool.false_eq_true, if_false] at ho
              by_cases hex : ex = true
              · simp only [hex, if_true, List.mem_cons, List.mem_singleton, List.not_mem_nil, or_false] at ho
                rcases ho with ho | ho
                · subst ho; rw [isWrite_w hw]; exact hb
                · exact (lit ho (by intro c id; constructor <;> simp)).elim
              · simp only [hex, Bool.false_eq_true, if_false, List.mem_append, List.mem_cons, List.mem_singleton,
                  List.not_mem_nil, or_false] at ho
                rcases ho with (ho | ho) | ho
                · subst ho; rw [isWrite_w hw]; exact hb
                · exact (lit ho (by intro c id; constructor <;> simp)).elim
                · exact ih _ (.fire _ _ _) rfl base (by bb) o k ho hw
          | none =>
            simp only [hp] at ho
            by_cases hcn : s.core.connector = .none
            · simp only [hcn, if_true, List.mem_append, List.mem_singleton] at ho
              rcases ho with ho | ho
              · exact (not_isWrite_obs _ k (by intro c id; simp [connect_, tryConnect]) o ho hw).elim
              · exact (lit ho (by intro c id; constructor <;> simp)).elim
            · simp only [hcn, if_false, List.mem_singleton] at ho
              exact (lit ho (by intro c id; constructor <;> simp)).elim
    | cancel id =>
      simp only [exec] at ho
      split at ho
      · exact ih _ (.fireAll _ _) rfl base (by bb) o k ho hw
      · simp only [List.mem_singleton] at ho
        exact (lit ho (by intro c id; constructor <;> simp)).elim
    | close =>
      simp only [exec] at ho
      by_cases hc : s.core.closed = true
      · simp only [hc, if_true, List.mem_singleton] at ho
        exact (lit ho (by intro c id; constructor <;> simp)).elim
      · simp only [hc, Bool.false_eq_true, if_false] at ho
        cases hp : s.core.proto with
        | some conn =>
          simp only [hp, List.mem_append, List.mem_cons, List.mem_singleton, List.not_mem_nil, or_false] at ho
          rcases ho with (ho | ho) | ho
          · exact (lit ho (by intro c id; constructor <;> simp)).elim
          · exact (lit ho (by intro c id; constructor <;> simp)).elim
          · exact ih _ .closeLoop rfl base (by bb) o k ho hw
        | none =>
          simp only [hp] at ho
          split at ho
          · simp only [List.mem_append, List.mem_cons, List.mem_singleton, List.not_mem_nil, or_false] at ho
            rcases ho with (ho | ho | ho) | ho
            · exact (lit ho (by intro c id; constructor <;> simp)).elim
            · exact (lit ho (by intro c id; constructor <;> simp)).elim
            · exact (lit ho (by intro c id; constructor <;> simp)).elim
            · exact ih _ .closeLoop rfl base (by bb) o k ho hw
          · simp only [List.mem_append, List.mem_cons, List.mem_singleton, List.not_mem_nil, or_false] at ho
            rcases ho with ((ho | ho) | ho) | ho
            · exact (lit ho (by intro c id; constructor <;> simp)).elim
            · split at ho <;> simp at ho <;> exact (lit ho (by intro c id; constructor <;> simp)).elim
            · exact ih _ .closeLoop rfl base (by bb) o k ho hw
            · exact (lit ho (by intro c id; constructor <;> simp)).elim
    | closeLoop =>
      simp only [exec] at ho
      split at ho
      · simp at ho
      · simp only [List.mem_append] at ho
        split at ho
        · rcases ho with ho | ho
          · simp at ho
          · exact ih _ .closeLoop rfl base (by bb) o k ho hw
        · rcases ho with ho | ho
          · exact ih _ (.fire _ _ _) rfl base (by bb) o k ho hw
          · exact ih _ .closeLoop rfl base (by bb) o k ho hw
    | sendLoop c snap =>
      cases snap with
      | nil => simp [exec] at ho
      | cons k1 ks =>
        simp only [exec] at ho
        have tail : ∀ {S : StR}, base ≤ S.core.nmake → o ∈ (exec cfg n S (.sendLoop c ks)).2 → WSrc (.sendLoop c (k1 :: ks)) base k := by
          intro S hS hm
          rcases ih S (.sendLoop c ks) rfl base hS o k hm hw with h | h
          · exact Or.inl (List.mem_cons_of_mem _ h)
          · exact Or.inr h
        split at ho
        · exact tail (by bb) ho
        · simp only [List.mem_append] at ho
          split at ho
          · rcases ho with ho | ho
            · exact Or.inr (ih _ (.fire _ _ _) rfl base (by bb) o k ho hw)
            · exact tail (by bb) ho
          · split at ho
            · rcases ho with ho | ho
              · simp only [List.mem_singleton] at ho
                subst ho; rw [isWrite_w hw]; exact Or.inl (by simp)
              · exact tail (by bb) ho
            · rcases ho with ho | ho
              · rcases List.mem_cons.mp ho with ho | ho
                · subst ho; rw [isWrite_w hw]; exact Or.inl (by simp)
                · exact Or.inr (ih _ (.fire _ _ _) rfl base (by bb) o k ho hw)
              · exact tail (by bb) ho
    | frames c fs f => cases hin
    | makeS id ex h =>
      simp only [exec] at ho
      split at ho
      · cases hsy : s.sync with
        | ok =>
          simp only [hsy] at ho
          rcases List.mem_cons.mp ho with ho | ho
          · exact (lit ho (by intro c id; constructor <;> simp)).elim
          · exact ih _ (.make id ex h) rfl base (by bb) o k ho hw
        | none =>
          simp only [hsy, List.mem_cons, List.mem_singleton, List.not_mem_nil, or_false] at ho
          rcases ho with ho | ho | ho <;> exact (lit ho (by intro c id; constructor <;> simp)).elim
        | fail =>
          simp only [hsy, List.mem_cons, List.mem_singleton, List.not_mem_nil, or_false] at ho
          rcases ho with ho | ho | ho <;> exact (lit ho (by intro c id; constructor <;> simp)).elim
      · exact ih s (.make id ex h) rfl base (by bb) o k ho hw
    | lost => cases hin
    | dial => cases hin

/-- the step that brings a connection up: every write in it is of a request that was in the table at that moment, or
    of one made during the step -/
theorem connOk_writes (cfg : Cfg) (fuel : Nat) (s : StR) (o : ObR) (k : Nat)
    (ho : o ∈ (stepRWith cfg fuel s (.flat .connOk)).2) (hw : IsWrite o k) :
    (∃ r ∈ s.core.reqs, r.serial = k) ∨ s.core.nmake ≤ k := by
  simp only [stepRWith] at ho
  split at ho
  · split at ho
    · simp only [List.mem_singleton] at ho
      subst ho
      rcases hw with ⟨_, _, h | h⟩ <;> cases h
    · rcases writes_src cfg fuel _ (.sendLoop _ _) rfl s.core.nmake (by exact Nat.le_refl _) o k ho hw with h | h
      · left
        obtain ⟨r, hr, he⟩ := List.mem_map.mp h
        exact ⟨r, hr, he⟩
      · exact Or.inr h
  · simp only [List.mem_singleton] at ho
    subst ho
    rcases hw with ⟨_, _, h | h⟩ <;> cases h

end Afkak.BrokerClientR
