import AfkakProofs.BrokerClient.Equiv
import AfkakProofs.BrokerClient.Term

/-
  Endpoints that answer `connect()` synchronously: the hand-written transitions of `BrokerClientR.exec`
  (`dial`, `makeS`) are the flat attempt immediately followed by the flat `connOk` / `connFail`.
-/
namespace Afkak.BrokerClientR
open Afkak.Frame Afkak.BrokerClient Afkak.Consts

/-- `tryConnect()` with an endpoint that FAILS synchronously is the flat attempt immediately followed by the
    flat `connFail` (same state, same observations: the failure count, the delay `policy (failures + 1)` and
    the due time are the flat model's). -/
theorem dial_fail_is_flat (cfg : Cfg) (n : Nat) (s : StR) (hc : s.core.closed = false) (hsy : s.sync = .fail) :
    exec cfg (n + 1) s .dial =
      ({ s with core := (step cfg (tryConnect s.core).1 .connFail).1 },
       obs ((tryConnect s.core).2 ++ (step cfg (tryConnect s.core).1 .connFail).2)) := by
  rw [exec_dial_eq]
  simp [hc, hsy, step, tryConnect, obs]

/-- `tryConnect()` with an endpoint that SUCCEEDS synchronously, when no callback is registered, is the flat
    attempt immediately followed by the flat `connOk` (`_sendQueued` writes the table exactly as
    `C10_resend_exact` says).  The table facts are those of every reachable disconnected state
    (`SInv.serials`, `SInv.discUnsent`). -/
theorem dial_ok_is_flat (cfg : Cfg) (n : Nat) (s : StR) (hh : NoHooks s) (hc : s.core.closed = false) (hsy : s.sync = .ok)
    (hpw : s.core.reqs.Pairwise (fun a b => a.serial < b.serial)) (hun : ∀ r ∈ s.core.reqs, r.sent = false)
    (hn : s.core.reqs.length + 3 ≤ n) :
    exec cfg (n + 1) s .dial =
      ({ s with core := (step cfg (tryConnect s.core).1 .connOk).1 },
       obs ((tryConnect s.core).2 ++ (step cfg (tryConnect s.core).1 .connOk).2)) := by
  rw [exec_dial_eq]
  simp only [hc, Bool.false_eq_true, if_false, hsy]
  have key := exec_sendLoop cfg s.core.nconn s.core.reqs [] n { s with core := established s.core }
    (by exact hh) (by simp [established]) (by simpa using hpw) hun hn
  simp only [hsy] at key
  rw [key]
  have hfilt : ∀ st : St, s.core.reqs.filter (fun r => r.sent || keepAfterSend st r) = s.core.reqs.filter (fun r => keepAfterSend st r) := by
    intro st; apply List.filter_congr; intro r hr; simp [hun r hr]
  have hgen : ∀ (l : List Req), (∀ r ∈ l, r.sent = false) → ∀ (g : Req → List Ob),
      l.flatMap (fun r => if r.sent = true then [] else g r) = l.flatMap g := by
    intro l hl g
    induction l with
    | nil => rfl
    | cons a l ih => simp [hl a (by simp), ih (fun r hr => hl r (by simp [hr]))]
  simp only [step, tryConnect, if_true, hc, Bool.false_eq_true, if_false, sendQueued, List.nil_append, obs, List.map_cons,
    List.map_nil, List.cons_append, established, hfilt, hgen _ hun]

/-- `makeRequest` on an idle client whose endpoint FAILS synchronously: the request is queued, the attempt
    counted as the first failure and the timer armed with `policy 1` — the flat `make` immediately followed
    by the flat `connFail`. -/
theorem makeS_fail_is_flat (cfg : Cfg) (n : Nat) (s : StR) (id : Int) (ex : Bool) (hc : s.core.closed = false)
    (hp : s.core.proto = none) (hco : s.core.connector = .none) (hd : s.core.reqs.any (fun r => r.id == id) = false)
    (hsy : s.sync = .fail) :
    (exec cfg (n + 1) s (.makeS id ex none)).1.core = (step cfg (step cfg s.core (.make id ex)).1 .connFail).1 ∧
    plain (exec cfg (n + 1) s (.makeS id ex none)).2 = (step cfg s.core (.make id ex)).2 ++ (step cfg (step cfg s.core (.make id ex)).1 .connFail).2 := by
  rw [exec_makeS_eq]
  simp [hc, hp, hco, hd, hsy, step, connect_, tryConnect, plain]

end Afkak.BrokerClientR
