import AfkakProofs.BrokerClient.ChunkSplit
/-!
# Every outstanding request can still be answered (bounded continuation, flat model)

`rescue s reply` is an explicit continuation from ANY state: the transport's write works again, a connection that
exists is dropped, a pending back-off timer is run down, the attempt succeeds, and the broker sends one reply frame
(`reply id`, any packet carrying that id) per outstanding reply-expecting request, in table order.  After it the
table is empty and every request that was outstanding has fired: `ok (reply id)` if it expects a reply, `None` on
being written if it does not.
-/
namespace Afkak.BrokerClient
open Afkak.Frame Afkak.Consts

def replyEv (reply : Int → Bytes) (r : Req) : Ev := .bytesIn (encode (reply r.id))

def replies (reply : Int → Bytes) (l : List Req) : List Ev := l.map (replyEv reply)

/-- a packet that carries id `i` and that a Kafka size can announce -/
def GoodReply (reply : Int → Bytes) (i : Int) : Prop :=
  corrId (reply i) = some i ∧ (reply i).length ≤ kafkaMaxLength

theorem feed_one (f : Bytes) (h : f.length ≤ kafkaMaxLength) : feed [] (encode f) = ⟨[f], [], false⟩ := by
  have hmax : kafkaMaxLength < 2 ^ 32 := by decide
  have hp := parse_encodeAll kafkaMaxLength hmax [f] (by intro g hg; simp at hg; subst hg; exact h) []
  simp only [encodeAll, List.flatMap_cons, List.flatMap_nil, List.append_nil, parse_short kafkaMaxLength [] (by simp)] at hp
  simp only [feed, feedWith_eq_parse, List.nil_append, hp]
  rfl

theorem filter_ne_head (r : Req) (rest : List Req) (hpw : (r :: rest).Pairwise (fun a b => a.id ≠ b.id)) :
    (r :: rest).filter (fun x => x.id != r.id) = rest ∧
    (r :: rest).filter (fun x => x.id == r.id && !x.cancelled) = if r.cancelled then [] else [r] := by
  obtain ⟨h1, _⟩ := List.pairwise_cons.mp hpw
  have e1 : rest.filter (fun x => x.id != r.id) = rest := by
    rw [List.filter_eq_self]
    intro b hb
    have := h1 b hb
    simp [Ne.symm this]
  have e2 : rest.filter (fun x => x.id == r.id && !x.cancelled) = [] := by
    rw [List.filter_eq_nil_iff]
    intro b hb
    have := h1 b hb
    simp [Ne.symm this]
  constructor
  · simp [e1]
  · cases hc : r.cancelled <;> simp [e2, hc]

/-- one reply on a readable connection at a frame boundary: the head of the table is answered and leaves -/
theorem reply_step (cfg : Cfg) (reply : Int → Bytes) (t : St) (c : Nat) (r : Req) (rest : List Req)
    (hr : t.reqs = r :: rest) (hpw : (r :: rest).Pairwise (fun a b => a.id ≠ b.id))
    (hp : t.proto = some c) (hl : t.losing = false) (hb : t.rbuf = []) (hg : GoodReply reply r.id) :
    step cfg t (replyEv reply r) =
      ({ t with reqs := rest }, if r.cancelled then [] else [.fire r.serial r.id (.ok (reply r.id))]) := by
  obtain ⟨e1, e2⟩ := filter_ne_head r rest hpw
  simp only [replyEv]
  rw [step_bytesIn cfg t c _ hp hl]
  simp only [bytesStep, hb, feed_one _ hg.2, handleFrames, hg.1, handleResponse, hr, e1, e2]
  have hany : (r :: rest).any (fun x => x.id == r.id) = true := by simp
  simp only [hany, if_true, Bool.false_eq_true, if_false, List.append_nil]
  cases hc : r.cancelled
  · simp only [Bool.false_eq_true, if_false, List.map_cons, List.map_nil]
  · simp only [if_true, List.map_nil]

/-- on a readable connection at a frame boundary, one reply per table entry empties the table and fires every
    uncancelled entry with its reply, in table order -/
theorem replies_run (cfg : Cfg) (reply : Int → Bytes) (c : Nat) : ∀ (l : List Req) (t : St), t.reqs = l →
    l.Pairwise (fun a b => a.id ≠ b.id) → t.proto = some c → t.losing = false → t.rbuf = [] →
    (∀ r ∈ l, GoodReply reply r.id) →
    run cfg t (replies reply l) = { t with reqs := [] } ∧
    obs cfg t (replies reply l) = (l.filter (fun r => !r.cancelled)).map (fun r => .fire r.serial r.id (.ok (reply r.id))) := by
  intro l
  induction l with
  | nil =>
    intro t hr _ _ _ _ _
    simp only [replies, List.map_nil, run, obs, trace, List.flatMap_nil, List.filter_nil]
    exact ⟨by cases t; simp_all, trivial⟩
  | cons r rest ih =>
    intro t hr hpw hp hl hb hg
    have hs := reply_step cfg reply t c r rest hr hpw hp hl hb (hg r (by simp))
    obtain ⟨i1, i2⟩ := ih { t with reqs := rest } rfl (List.pairwise_cons.mp hpw).2 hp hl hb
      (fun x hx => hg x (by simp [hx]))
    simp only [replies, List.map_cons, run, obs, trace, List.flatMap_cons] at i1 i2 ⊢
    rw [hs]
    refine ⟨i1, ?_⟩
    rw [i2]
    cases hc : r.cancelled <;> simp [hc]

end Afkak.BrokerClient
