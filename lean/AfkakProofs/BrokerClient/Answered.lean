import AfkakProofs.BrokerClient.ChunkSplit
/-!
# Every outstanding request can still be answered (bounded continuation, flat model)

`rescue s reply` is an explicit continuation from ANY state: the transport's write works again, a connection that
exists is dropped, a pending back-off timer is run down, the attempt succeeds, and the broker sends one reply frame
(`reply id`, any packet carrying that id) per outstanding reply-expecting request, in table order.  After it the
table is empty and every request that was outstanding has fired: `ok (reply id)` if it expects a reply, `None` on
being written if it does not.
-/
namespace Afkak.BrokerClient
open Afkak.Frame Afkak.Consts

def replyEv (reply : Int → Bytes) (r : Req) : Ev := .bytesIn (encode (reply r.id))

def replies (reply : Int → Bytes) (l : List Req) : List Ev := l.map (replyEv reply)

/-- a packet that carries id `i` and that a Kafka size can announce -/
def GoodReply (reply : Int → Bytes) (i : Int) : Prop :=
  corrId (reply i) = some i ∧ (reply i).length ≤ kafkaMaxLength

theorem feed_one (f : Bytes) (h : f.length ≤ kafkaMaxLength) : feed [] (encode f) = ⟨[f], [], false⟩ := by
  have hmax : kafkaMaxLength < 2 ^ 32 := by decide
  have hp := parse_encodeAll kafkaMaxLength hmax [f] (by intro g hg; simp at hg; subst hg; exact h) []
  simp only [encodeAll, List.flatMap_cons, List.flatMap_nil, List.append_nil, parse_short kafkaMaxLength [] (by simp)] at hp
  simp only [feed, feedWith_eq_parse, List.nil_append, hp]
  rfl

theorem filter_ne_head (r : Req) (rest : List Req) (hpw : (r :: rest).Pairwise (fun a b => a.id ≠ b.id)) :
    (r :: rest).filter (fun x => x.id != r.id) = rest ∧
    (r :: rest).filter (fun x => x.id == r.id && !x.cancelled) = if r.cancelled then [] else [r] := by
  obtain ⟨h1, _⟩ := List.pairwise_cons.mp hpw
  have e1 : rest.filter (fun x => x.id != r.id) = rest := by
    rw [List.filter_eq_self]
    intro b hb
    have := h1 b hb
    simp [Ne.symm this]
  have e2 : rest.filter (fun x => x.id == r.id && !x.cancelled) = [] := by
    rw [List.filter_eq_nil_iff]
    intro b hb
    have := h1 b hb
    simp [Ne.symm this]
  constructor
  · simp [e1]
  · cases hc : r.cancelled <;> simp [e2, hc]

/-- one reply on a readable connection at a frame boundary: the head of the table is answered and leaves -/
theorem reply_step (cfg : Cfg) (reply : Int → Bytes) (t : St) (c : Nat) (r : Req) (rest : List Req)
    (hr : t.reqs = r :: rest) (hpw : (r :: rest).Pairwise (fun a b => a.id ≠ b.id))
    (hp : t.proto = some c) (hl : t.losing = false) (hb : t.rbuf = []) (hg : GoodReply reply r.id) :
    step cfg t (replyEv reply r) =
      ({ t with reqs := rest }, if r.cancelled then [] else [.fire r.serial r.id (.ok (reply r.id))]) := by
  obtain ⟨e1, e2⟩ := filter_ne_head r rest hpw
  simp only [replyEv]
  rw [step_bytesIn cfg t c _ hp hl]
  simp only [bytesStep, hb, feed_one _ hg.2, handleFrames, hg.1, handleResponse, hr, e1, e2]
  have hany : (r :: rest).any (fun x => x.id == r.id) = true := by simp
  simp only [hany, if_true, Bool.false_eq_true, if_false, List.append_nil]
  cases hc : r.cancelled
  · simp only [Bool.false_eq_true, if_false, List.map_cons, List.map_nil]
  · simp only [if_true, List.map_nil]

/-- on a readable connection at a frame boundary, one reply per table entry empties the table and fires every
    uncancelled entry with its reply, in table order -/
theorem replies_run (cfg : Cfg) (reply : Int → Bytes) (c : Nat) : ∀ (l : List Req) (t : St), t.reqs = l →
    l.Pairwise (fun a b => a.id ≠ b.id) → t.proto = some c → t.losing = false → t.rbuf = [] →
    (∀ r ∈ l, GoodReply reply r.id) →
    run cfg t (replies reply l) = { t with reqs := [] } ∧
    obs cfg t (replies reply l) = (l.filter (fun r => !r.cancelled)).map (fun r => .fire r.serial r.id (.ok (reply r.id))) := by
  intro l
  induction l with
  | nil =>
    intro t hr _ _ _ _ _
    simp only [replies, List.map_nil, run, obs, trace, List.flatMap_nil, List.filter_nil]
    exact ⟨by cases t; simp_all, trivial⟩
  | cons r rest ih =>
    intro t hr hpw hp hl hb hg
    have hs := reply_step cfg reply t c r rest hr hpw hp hl hb (hg r (by simp))
    obtain ⟨i1, i2⟩ := ih { t with reqs := rest } rfl (List.pairwise_cons.mp hpw).2 hp hl hb
      (fun x hx => hg x (by simp [hx]))
    simp only [replies, List.map_cons, run, obs, trace, List.flatMap_cons] at i1 i2 ⊢
    rw [hs]
    refine ⟨i1, ?_⟩
    rw [i2]
    cases hc : r.cancelled <;> simp [hc]

theorem run_app (cfg : Cfg) (a : List Ev) : ∀ (s : St) (b : List Ev), run cfg s (a ++ b) = run cfg (run cfg s a) b := by
  induction a with
  | nil => intro s b; rfl
  | cons e es ih => intro s b; simp only [List.cons_append, run]; exact ih _ b

theorem obs_app (cfg : Cfg) (a : List Ev) : ∀ (s : St) (b : List Ev),
    obs cfg s (a ++ b) = obs cfg s a ++ obs cfg (run cfg s a) b := by
  induction a with
  | nil => intro s b; simp [obs, trace, run]
  | cons e es ih =>
    intro s b
    have := ih (step cfg s e).1 b
    simp only [obs] at this
    simp only [List.cons_append, obs, trace, List.flatMap_cons, run, this, List.append_assoc]

/-- a connection attempt is pending, the client is open, the transport's write works -/
structure Dialing (s : St) : Prop where
  sinv : SInv s
  proto : s.proto = none
  conn : s.connector = .attempt
  isOpen : s.closed = false
  wok : s.wfail = false

/-- the attempt succeeds and the broker answers every request that expects a reply -/
def dialAndAnswer (reply : Int → Bytes) (s : St) : List Ev := .connOk :: replies reply (s.reqs.filter (·.expect))

theorem replies_map_sent (reply : Int → Bytes) (l : List Req) :
    replies reply (l.map (fun r => { r with sent := true })) = replies reply l := by
  simp [replies, replyEv, List.map_map, Function.comp_def]

theorem dial_run (cfg : Cfg) (reply : Int → Bytes) (s : St) (h : Dialing s) (hg : ∀ r ∈ s.reqs, GoodReply reply r.id) :
    (run cfg s (dialAndAnswer reply s)).reqs = [] ∧ (run cfg s (dialAndAnswer reply s)).closed = false ∧
    ∀ r ∈ s.reqs,
      (r.expect = true → Ob.fire r.serial r.id (.ok (reply r.id)) ∈ obs cfg s (dialAndAnswer reply s)) ∧
      (r.expect = false → Ob.fire r.serial r.id .none ∈ obs cfg s (dialAndAnswer reply s)) := by
  have hunsent := h.sinv.discUnsent h.proto
  have huncanc : ∀ r ∈ s.reqs, r.cancelled = false := by
    intro r hr
    cases hc : r.cancelled with
    | false => rfl
    | true => have := h.sinv.cancSent r hr hc; rw [hunsent r hr] at this; cases this
  -- the step that establishes the connection
  have hfilt : s.reqs.filter (fun r => r.sent || (r.expect && !false)) = s.reqs.filter (·.expect) := by
    apply List.filter_congr
    intro r hr
    simp [hunsent r hr]
  have hstep : (step cfg s .connOk).1.reqs = (s.reqs.filter (·.expect)).map (fun r => { r with sent := true }) ∧
      (step cfg s .connOk).1.proto = some s.nconn ∧ (step cfg s .connOk).1.losing = false ∧
      (step cfg s .connOk).1.rbuf = [] ∧ (step cfg s .connOk).1.closed = false ∧
      (step cfg s .connOk).2 = s.reqs.flatMap (fun r => if r.sent then [] else
        [Ob.write s.nconn r.serial r.id] ++ (if r.expect then [] else [.fire r.serial r.id .none])) := by
    simp only [step, h.conn, if_true, h.isOpen, Bool.false_eq_true, if_false, sendQueued, keepAfterSend, sendObs, h.wok, hfilt]
    simp
  obtain ⟨q1, q2, q3, q4, q5, q6⟩ := hstep
  have hsinv := sinv_step cfg s .connOk h.sinv
  have hpw := hsinv.ids
  rw [q1] at hpw
  have hg' : ∀ r ∈ (s.reqs.filter (·.expect)).map (fun r => { r with sent := true }), GoodReply reply r.id := by
    intro r hr
    obtain ⟨r0, hr0, rfl⟩ := List.mem_map.mp hr
    exact hg r0 (List.mem_filter.mp hr0).1
  obtain ⟨k1, k2⟩ := replies_run cfg reply s.nconn _ (step cfg s .connOk).1 q1 hpw q2 q3 q4 hg'
  rw [replies_map_sent] at k1 k2
  have hrun : run cfg s (dialAndAnswer reply s) = { (step cfg s .connOk).1 with reqs := [] } := by
    simp only [dialAndAnswer, run]; exact k1
  have hobs : obs cfg s (dialAndAnswer reply s) = (step cfg s .connOk).2 ++
      obs cfg (step cfg s .connOk).1 (replies reply (s.reqs.filter (·.expect))) := by
    simp [dialAndAnswer, obs, trace]
  refine ⟨by rw [hrun], by rw [hrun]; exact q5, ?_⟩
  intro r hr
  rw [hobs, k2, q6]
  constructor
  · intro he
    apply List.mem_append_right
    apply List.mem_map.mpr
    refine ⟨{ r with sent := true }, ?_, rfl⟩
    apply List.mem_filter.mpr
    refine ⟨List.mem_map.mpr ⟨r, List.mem_filter.mpr ⟨hr, by simp [he]⟩, rfl⟩, by simp [huncanc r hr]⟩
  · intro he
    apply List.mem_append_left
    apply List.mem_flatMap.mpr
    exact ⟨r, hr, by simp [hunsent r hr, he]⟩

/-- what has to happen before the attempt can succeed: the write works again; a connection that exists goes away; a
    pending back-off timer runs down -/
def rescuePre (s : St) : List Ev :=
  match s.proto with
  | some _ => [.writeFail false, .lost]
  | none => match s.connector with
    | .backoff due => [.writeFail false, .advance (if due ≤ s.now then 0 else due - s.now)]
    | _ => [.writeFail false]

/-- the explicit continuation after which nothing is outstanding -/
def rescue (cfg : Cfg) (reply : Int → Bytes) (s : St) : List Ev :=
  let s' := run cfg s (rescuePre s)
  rescuePre s ++ (if s'.connector = .attempt then dialAndAnswer reply s' else [])

/-- after `rescuePre`: either a connection attempt is pending, or nothing is in the table; and every uncancelled
    request is still in the table (same serial, id, reply flag), every id in the table was there before, nothing fired -/
theorem rescuePre_facts (cfg : Cfg) (s : St) (hs : SInv s) (hc : s.closed = false) :
    let s' := run cfg s (rescuePre s)
    SInv s' ∧ s'.closed = false ∧ s'.wfail = false ∧ s'.proto = none ∧
    (s'.connector = .attempt ∨ s'.reqs = []) ∧
    (∀ r ∈ s.reqs, r.cancelled = false → ∃ r' ∈ s'.reqs, r'.serial = r.serial ∧ r'.id = r.id ∧ r'.expect = r.expect) ∧
    (∀ r' ∈ s'.reqs, ∃ r ∈ s.reqs, r.id = r'.id) := by
  intro s'
  have hsinv : SInv s' := sinv_run cfg s _ hs
  refine ⟨hsinv, ?_⟩
  cases hp : s.proto with
  | some c =>
    have e : s' = (lostStep { s with wfail := false }).1 := by
      simp only [s', rescuePre, hp, run, step]
    rw [e]
    simp only [lostStep, hc, Bool.false_eq_true, if_false, connect_, tryConnect]
    split
    · rename_i hem
      refine ⟨rfl, rfl, rfl, Or.inr ?_, ?_, ?_⟩
      · simpa using hem
      · intro r hr hcn
        exact ⟨{ r with sent := false }, List.mem_map.mpr ⟨r, List.mem_filter.mpr ⟨hr, by simp [hcn]⟩, rfl⟩, rfl, rfl, rfl⟩
      · intro r' hr'
        obtain ⟨r, hr, rfl⟩ := List.mem_map.mp hr'
        exact ⟨r, (List.mem_filter.mp hr).1, rfl⟩
    · refine ⟨rfl, rfl, rfl, Or.inl rfl, ?_, ?_⟩
      · intro r hr hcn
        exact ⟨{ r with sent := false }, List.mem_map.mpr ⟨r, List.mem_filter.mpr ⟨hr, by simp [hcn]⟩, rfl⟩, rfl, rfl, rfl⟩
      · intro r' hr'
        obtain ⟨r, hr, rfl⟩ := List.mem_map.mp hr'
        exact ⟨r, (List.mem_filter.mp hr).1, rfl⟩
  | none =>
    have keep : ∀ t : St, t.reqs = s.reqs →
        (∀ r ∈ s.reqs, r.cancelled = false → ∃ r' ∈ t.reqs, r'.serial = r.serial ∧ r'.id = r.id ∧ r'.expect = r.expect) ∧
        (∀ r' ∈ t.reqs, ∃ r ∈ s.reqs, r.id = r'.id) := by
      intro t ht
      rw [ht]
      exact ⟨fun r hr _ => ⟨r, hr, rfl, rfl, rfl⟩, fun r' hr' => ⟨r', hr', rfl⟩⟩
    cases hcn : s.connector with
    | backoff due =>
      have e : s' = (tryConnect { s with wfail := false, now := s.now + (if due ≤ s.now then 0 else due - s.now) }).1 := by
        simp only [s', rescuePre, hp, hcn, run, step]
        have hdt : ¬ (if due ≤ s.now then (0 : Rat) else due - s.now) < 0 := by
          split
          · exact Rat.not_lt.mpr (Rat.le_refl)
          · rename_i hlt
            have : s.now ≤ due := Rat.le_of_lt (Rat.not_le.mp hlt)
            exact Rat.not_lt.mpr (by grind)
        simp only [hdt, if_false]
        have hdue : due ≤ s.now + (if due ≤ s.now then 0 else due - s.now) := by
          split
          · rename_i hle; rw [Rat.add_zero]; exact hle
          · grind
        simp only [hdue, if_true]
      rw [e]
      simp only [tryConnect]
      exact ⟨hc, by simp, hp, by simp, keep _ rfl⟩
    | attempt =>
      have e : s' = { s with wfail := false } := by simp only [s', rescuePre, hp, hcn, run, step]
      rw [e]
      exact ⟨hc, rfl, hp, Or.inl hcn, keep _ rfl⟩
    | none =>
      have e : s' = { s with wfail := false } := by simp only [s', rescuePre, hp, hcn, run, step]
      rw [e]
      exact ⟨hc, rfl, hp, Or.inr (hs.idleEmpty hp hcn hc), keep _ rfl⟩
    | stale =>
      have := hs.staleClosed hcn
      rw [hc] at this; cases this

/-- From ANY state of an open client: after `rescue` the table is empty, the client is still open, and every request
    that was outstanding (in the table, not cancelled) has been ANSWERED — `ok (reply id)` if it expects a reply,
    `None` (on being written) if it does not. -/
theorem rescue_answers (cfg : Cfg) (reply : Int → Bytes) (s : St) (hs : SInv s) (hc : s.closed = false)
    (hg : ∀ r ∈ s.reqs, GoodReply reply r.id) :
    (run cfg s (rescue cfg reply s)).reqs = [] ∧ (run cfg s (rescue cfg reply s)).closed = false ∧
    ∀ r ∈ s.reqs, r.cancelled = false →
      (r.expect = true → Ob.fire r.serial r.id (.ok (reply r.id)) ∈ obs cfg s (rescue cfg reply s)) ∧
      (r.expect = false → Ob.fire r.serial r.id .none ∈ obs cfg s (rescue cfg reply s)) := by
  obtain ⟨f1, f2, f3, f4, f5, f6, f7⟩ := rescuePre_facts cfg s hs hc
  simp only [rescue]
  by_cases hat : (run cfg s (rescuePre s)).connector = .attempt
  · simp only [hat, if_true, run_app, obs_app]
    have hd : Dialing (run cfg s (rescuePre s)) := ⟨f1, f4, hat, f2, f3⟩
    have hg' : ∀ r ∈ (run cfg s (rescuePre s)).reqs, GoodReply reply r.id := by
      intro r' hr'
      obtain ⟨r, hr, he⟩ := f7 r' hr'
      rw [← he]; exact hg r hr
    obtain ⟨d1, d2, d3⟩ := dial_run cfg reply _ hd hg'
    refine ⟨d1, d2, ?_⟩
    intro r hr hcn
    obtain ⟨r', hr', e1, e2, e3⟩ := f6 r hr hcn
    obtain ⟨a1, a2⟩ := d3 r' hr'
    rw [e1, e2, e3] at a1 a2
    exact ⟨fun he => List.mem_append_right _ (a1 he), fun he => List.mem_append_right _ (a2 he)⟩
  · simp only [hat, if_false, List.append_nil]
    have hem : (run cfg s (rescuePre s)).reqs = [] := by
      rcases f5 with h | h
      · exact absurd h hat
      · exact h
    refine ⟨hem, f2, ?_⟩
    intro r hr hcn
    obtain ⟨r', hr', _⟩ := f6 r hr hcn
    rw [hem] at hr'; cases hr'

end Afkak.BrokerClient
