import AfkakProofs.BrokerClient.Inv
/-!
# The Deferred returned by `close()` (`_dDown`) fires exactly once, exactly when the client is closed and
# the connection is gone (flat model)
-/
namespace Afkak.BrokerClient
open Afkak.Frame Afkak.Consts

/-- number of times `_dDown` fired among the observations -/
def downs (os : List Ob) : Nat := os.count .down

/-- 1 when the client is closed and has no connection (then `_dDown` must have fired), else 0 -/
def isDown (s : St) : Nat := if s.closed && s.proto.isNone then 1 else 0

theorem downs_zero {os : List Ob} (h : Ob.down ∉ os) : downs os = 0 := List.count_eq_zero.mpr h

theorem downs_append (a b : List Ob) : downs (a ++ b) = downs a + downs b := List.count_append

theorem handleFrames_noDown (fs : List Bytes) : ∀ s : St, Ob.down ∉ (handleFrames s fs).2.1 := by
  induction fs with
  | nil => intro s; simp [handleFrames]
  | cons f fs ih =>
    intro s
    simp only [handleFrames]
    split
    · simp
    · intro hm
      rcases List.mem_append.mp hm with hm | hm
      · simp only [handleResponse] at hm
        split at hm <;> simp at hm
      · exact ih _ hm

theorem sendObs_noDown (s : St) (c : Nat) (r : Req) : Ob.down ∉ sendObs s c r := by
  simp only [sendObs]
  split
  · simp
  · split <;> split <;> simp

theorem handleFrames_closed (s : St) (fs : List Bytes) :
    (handleFrames s fs).1.closed = s.closed ∧ (handleFrames s fs).1.proto = s.proto := by
  rw [handleFrames_frame s fs]; exact ⟨rfl, rfl⟩

/-- every step adds to the firings of `_dDown` exactly the change of `isDown` -/
theorem down_step (cfg : Cfg) (s : St) (e : Ev) (hs : SInv s) :
    isDown s + downs (step cfg s e).2 = isDown (step cfg s e).1 := by
  cases e with
  | make id ex =>
    simp only [step]
    split
    · simp [downs]
    · split
      · simp [downs, isDown]
      · rename_i hc
        have hc' : s.closed = false := by simpa using hc
        split
        · rw [downs_zero (sendObs_noDown s _ _)]; simp [isDown, hc']
        · split
          · simp [connect_, tryConnect, downs, isDown, hc']
          · simp [downs, isDown, hc']
  | cancel id =>
    simp only [step]
    split
    · rw [downs_zero (by simp)]; simp [isDown]
    · simp [downs]
  | connOk =>
    simp only [step]
    split
    · rename_i hat
      have hpn : s.proto = none := by
        cases hp : s.proto with
        | none => rfl
        | some c => have := hs.connConnector (by simp [hp]); simp [this] at hat
      have hc : s.closed = false := by
        cases hcl : s.closed with
        | false => rfl
        | true => rcases hs.closedConnector hcl with h | h <;> simp [h] at hat
      simp only [hc, Bool.false_eq_true, if_false, sendQueued]
      rw [downs_zero]
      · simp [isDown, hc]
      · intro hm
        obtain ⟨r, _, hr⟩ := List.mem_flatMap.mp hm
        split at hr
        · simp at hr
        · exact sendObs_noDown _ _ _ hr
    · simp [downs]
  | connFail =>
    simp only [step]
    split
    · split
      · simp [downs]
      · simp [downs, isDown]
    · simp [downs]
  | advance dt =>
    simp only [step, tryConnect]
    split
    · simp [downs]
    · split
      · split <;> simp [downs, isDown]
      · simp [downs, isDown]
  | bytesIn chunk =>
    simp only [step]
    split
    · simp [downs]
    · rename_i c hp
      split
      · simp [downs]
      · rename_i hl
        have hl' : s.losing = false := by simpa using hl
        have hc : s.closed = false := by
          cases hcl : s.closed with
          | false => rfl
          | true => have := hs.closedLosing hcl (by simp [hp]); rw [hl'] at this; cases this
        obtain ⟨k1, k2⟩ := handleFrames_closed s (feed s.rbuf chunk).frames
        have hnd := handleFrames_noDown (feed s.rbuf chunk).frames s
        split
        · rw [downs_append, downs_zero hnd]
          simp only [lostStep, k1, hc, Bool.false_eq_true, if_false, connect_, tryConnect]
          split <;> simp [downs, isDown, hc, hp]
        · split
          · rw [downs_append, downs_zero hnd]
            simp [downs, isDown, k2, hp]
          · rw [downs_zero hnd]
            simp [isDown, k2, hp]
  | lost =>
    simp only [step]
    split
    · simp [downs]
    · rename_i c hp
      simp only [lostStep, connect_, tryConnect]
      split
      · rename_i hc; simp [downs, isDown, hp, hc]
      · rename_i hc
        have hc' : s.closed = false := by simpa using hc
        split <;> simp [downs, isDown, hc']
  | close =>
    have hcount : ∀ l : List Req, List.count Ob.down
        ((l.filter (fun r => !r.cancelled)).map (fun r => Ob.fire r.serial r.id (.err .clientError))) = 0 := by
      intro l; exact List.count_eq_zero.mpr (by simp)
    by_cases hc : s.closed = true
    · simp [step, hc, downs]
    · have hc' : s.closed = false := by simpa using hc
      cases hp : s.proto with
      | some c => simp [step, hc', hp, downs, isDown, List.count_cons, hcount]
      | none =>
        cases hcn : s.connector <;>
          simp [step, hc', hp, hcn, downs, isDown, List.count_cons, List.count_append, hcount]
  | disconnect =>
    simp only [step]
    split
    · rename_i c hp; simp [downs, isDown, hp]
    · simp [downs]
  | updateMetadata a b => simp [step, downs, isDown]
  | writeFail b => simp [step, downs, isDown]

theorem down_run (cfg : Cfg) (es : List Ev) : ∀ s : St, SInv s →
    isDown s + downs (obs cfg s es) = isDown (run cfg s es) := by
  induction es with
  | nil => intro s _; simp [obs, trace, run, downs]
  | cons e es ih =>
    intro s hs
    have h1 := down_step cfg s e hs
    have h2 := ih _ (sinv_step cfg s e hs)
    simp only [obs] at h2
    simp only [obs, trace, List.flatMap_cons, run, downs_append]
    omega

end Afkak.BrokerClient
