import AfkakProofs.BrokerClient.Reent06

/-
  "Exactly once" for the re-entrant model: the partition invariant of `Reent06.Inv6` exported as a statement
  about the recorded trace (fired serials) and the final table.
-/
namespace Afkak.BrokerClientR
open Afkak.Frame Afkak.BrokerClient Afkak.Consts Afkak.Monitor.C06

/-- the serials whose Deferred fired in one step's observations, in order -/
def firesOfR : List ObR → List Nat
  | [] => []
  | .ob (.fire k _ _) :: os => k :: firesOfR os
  | _ :: os => firesOfR os

/-- the serials whose Deferred fired in a recorded trace, in order -/
def firedR (tr : List (EvR × List ObR)) : List Nat := tr.flatMap (fun t => firesOfR t.2)

/-- the state after a run of the re-entrant model -/
def runRWith (cfg : Cfg) (fuel : Nat) (s : StR) : List EvR → StR
  | [] => s
  | e :: es => runRWith cfg fuel (stepRWith cfg fuel s e).1 es

/-- the monitor state after a trace -/
def monAfter (m : RM) (tr : List (EvR × List ObR)) : RM := tr.foldl (fun m t => r06End (fold6 m t.2)) m

theorem r06Ob_fired (m : RM) (o : ObR) : (r06Ob m o).fired = firesOfR [o] ++ m.fired := by
  cases o with
  | ob o => cases o <;> simp [r06Ob, firesOfR]
  | hookEnd => simp only [r06Ob, firesOfR, List.nil_append]; split <;> (try split) <;> rfl
  | _ => simp [r06Ob, firesOfR]

theorem firesOfR_cons (o : ObR) (os : List ObR) : firesOfR (o :: os) = firesOfR [o] ++ firesOfR os := by
  cases o with
  | ob o => cases o <;> simp [firesOfR]
  | _ => simp [firesOfR]

theorem fold6_fired (os : List ObR) : ∀ m : RM, (fold6 m os).fired = (firesOfR os).reverse ++ m.fired := by
  induction os with
  | nil => intro m; simp [firesOfR]
  | cons o os ih =>
    intro m
    rw [fold6_cons, ih, r06Ob_fired, firesOfR_cons o os]
    cases h : firesOfR [o] with
    | nil => simp
    | cons a l =>
      have : l = [] := by
        cases o with
        | ob o => cases o <;> simp_all [firesOfR]
        | _ => simp_all [firesOfR]
      subst this
      simp

theorem r06End_fired' (m : RM) : (r06End m).fired = m.fired := by
  simp only [r06End]; split <;> rfl

theorem monAfter_fired (tr : List (EvR × List ObR)) : ∀ m : RM, (monAfter m tr).fired = (firedR tr).reverse ++ m.fired := by
  induction tr with
  | nil => intro m; simp [monAfter, firedR]
  | cons t tr ih =>
    intro m
    have : monAfter m (t :: tr) = monAfter (r06End (fold6 m t.2)) tr := rfl
    rw [this, ih, r06End_fired', fold6_fired]
    simp [firedR]

theorem r06Ob_ok_mono (m : RM) (o : ObR) (h : (r06Ob m o).ok = true) : m.ok = true := by
  cases o with
  | ob o => cases o <;> simp_all [r06Ob]
  | hookEnd =>
    simp only [r06Ob] at h
    split at h <;> (try split at h) <;> simp_all
  | _ => simp_all [r06Ob]

theorem r06Ob_nodup (m : RM) (o : ObR) (h : (r06Ob m o).ok = true) (hn : m.fired.Nodup) : (r06Ob m o).fired.Nodup := by
  cases o with
  | ob o =>
    cases o with
    | fire k i r =>
      simp only [r06Ob, Bool.and_eq_true, Bool.not_eq_eq_eq_not, Bool.not_true] at h ⊢
      exact List.nodup_cons.mpr ⟨by simpa using h.1.2, hn⟩
    | _ => simpa [r06Ob] using hn
  | hookEnd =>
    have := r06Ob_fired m .hookEnd
    simp only [firesOfR, List.nil_append] at this
    rw [this]; exact hn
  | _ => simpa [r06Ob] using hn

theorem fold6_ok_mono (os : List ObR) : ∀ m : RM, (fold6 m os).ok = true → m.ok = true := by
  induction os with
  | nil => intro m h; exact h
  | cons o os ih => intro m h; exact r06Ob_ok_mono m o (ih _ h)

theorem fold6_nodup (os : List ObR) : ∀ m : RM, (fold6 m os).ok = true → m.fired.Nodup → (fold6 m os).fired.Nodup := by
  induction os with
  | nil => intro m _ hn; exact hn
  | cons o os ih =>
    intro m h hn
    exact ih _ h (r06Ob_nodup m o (fold6_ok_mono os _ h) hn)

theorem r06End_ok_mono (m : RM) (h : (r06End m).ok = true) : m.ok = true := by
  simp only [r06End] at h
  split at h <;> simp_all

theorem monAfter_ok_mono (tr : List (EvR × List ObR)) : ∀ m : RM, (monAfter m tr).ok = true → m.ok = true := by
  induction tr with
  | nil => intro m h; exact h
  | cons t tr ih =>
    intro m h
    exact fold6_ok_mono t.2 m (r06End_ok_mono _ (ih _ h))

theorem monAfter_nodup (tr : List (EvR × List ObR)) : ∀ m : RM, (monAfter m tr).ok = true → m.fired.Nodup →
    (monAfter m tr).fired.Nodup := by
  induction tr with
  | nil => intro m _ hn; exact hn
  | cons t tr ih =>
    intro m h hn
    have h1 : (r06End (fold6 m t.2)).ok = true := monAfter_ok_mono tr _ h
    refine ih _ h ?_
    rw [r06End_fired']
    exact fold6_nodup t.2 m (r06End_ok_mono _ h1) hn

/-- the invariant at the end of a run in which the fuel sufficed -/
theorem top6_run (cfg : Cfg) (fuel : Nat) (evs : List EvR) : ∀ (s : StR) (m : RM), Top6 s m →
    (∀ t ∈ traceRWith cfg fuel s evs, NoFuelOut t.2) →
    Top6 (runRWith cfg fuel s evs) (monAfter m (traceRWith cfg fuel s evs)) := by
  induction evs with
  | nil => intro s m h _; exact h
  | cons e es ih =>
    intro s m h hnf
    have hnf1 : NoFuelOut (stepRWith cfg fuel s e).2 := hnf (e, (stepRWith cfg fuel s e).2) (by simp [traceRWith])
    obtain ⟨_, htop⟩ := top6_step cfg fuel s m h e hnf1
    exact ih _ _ htop (fun t ht => hnf t (by simp [traceRWith, ht]))

/-- Exactly once under re-entrant callbacks: at the end of every run of the re-entrant model in which the fuel
    sufficed, the Deferreds handed out (serials `< nmake`) are partitioned into those that fired — each once —
    and those still in the table and not cancelled. -/
theorem partitionR (cfg : Cfg) (fuel host port : Nat) (evs : List EvR)
    (hnf : ∀ t ∈ traceRWith cfg fuel (StR.init host port) evs, NoFuelOut t.2) :
    let s := runRWith cfg fuel (StR.init host port) evs
    let F := firedR (traceRWith cfg fuel (StR.init host port) evs)
    F.Nodup ∧ (∀ k ∈ F, k < s.core.nmake) ∧
    (∀ k, k < s.core.nmake → ((∃ r ∈ s.core.reqs, r.serial = k ∧ r.cancelled = false) ↔ k ∉ F)) := by
  intro s F
  have ht := top6_run cfg fuel evs _ _ (top6_init host port) hnf
  have hF : (monAfter RM.init (traceRWith cfg fuel (StR.init host port) evs)).fired = F.reverse := by
    rw [monAfter_fired]; simp [RM.init, F]
  have hmem : ∀ k, k ∈ (monAfter RM.init (traceRWith cfg fuel (StR.init host port) evs)).fired ↔ k ∈ F := by
    intro k; rw [hF]; simp
  refine ⟨?_, fun k hk => ht.inv.firedLt k ((hmem k).mpr hk), ?_⟩
  · have := monAfter_nodup (traceRWith cfg fuel (StR.init host port) evs) RM.init ht.inv.ok (by simp [RM.init])
    rw [hF] at this
    rw [List.Nodup] at *
    exact (List.pairwise_reverse.mp this).imp (fun hab => fun e => hab e.symm)
  · intro k hk
    constructor
    · rintro ⟨r, hr, rfl, hc⟩ hF'
      exact ht.inv.liveNF r hr hc ((hmem _).mpr hF')
    · intro hn
      rcases ht.inv.part k hk with h | h | h
      · exact absurd ((hmem k).mp h) hn
      · exact h
      · simp at h

end Afkak.BrokerClientR
