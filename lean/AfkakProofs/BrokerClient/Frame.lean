import Afkak.Frame
/-!
# Lemmas about the framing loop (`Afkak/Frame.lean`)
-/
namespace Afkak.Frame

/-- the loop with enough fuel -/
def parse (maxLen : Nat) (data : Bytes) : Out := loop maxLen (data.length + 1) data

theorem loop_fuel (maxLen : Nat) : ∀ (f1 f2 : Nat) (data : Bytes), data.length < f1 → data.length < f2 →
    loop maxLen f1 data = loop maxLen f2 data := by
  intro f1
  induction f1 with
  | zero => intro f2 data h; omega
  | succ k ih =>
    intro f2 data h1 h2
    cases f2 with
    | zero => omega
    | succ j =>
      match data with
      | [] => simp [loop]
      | [_] => simp [loop]
      | [_, _] => simp [loop]
      | [_, _, _] => simp [loop]
      | a :: b :: c :: d :: body =>
        simp only [loop]
        have hl : (body.drop (be32 a b c d)).length ≤ body.length := by simp
        simp only [List.length_cons] at h1 h2
        rw [ih j (body.drop (be32 a b c d)) (by omega) (by omega)]

theorem loop_eq_parse (maxLen fuel : Nat) (data : Bytes) (h : data.length < fuel) :
    loop maxLen fuel data = parse maxLen data :=
  loop_fuel maxLen _ _ data h (by omega)

theorem parse_short (maxLen : Nat) (data : Bytes) (h : data.length < 4) :
    parse maxLen data = ⟨[], data, false⟩ := by
  match data with
  | [] => simp [parse, loop]
  | [_] => simp [parse, loop]
  | [_, _] => simp [parse, loop]
  | [_, _, _] => simp [parse, loop]
  | _ :: _ :: _ :: _ :: _ => simp at h; omega

theorem parse_cons4 (maxLen : Nat) (a b c d : UInt8) (body : Bytes) :
    parse maxLen (a :: b :: c :: d :: body) =
      if be32 a b c d > maxLen then ⟨[], a :: b :: c :: d :: body, true⟩
      else if body.length < be32 a b c d then ⟨[], a :: b :: c :: d :: body, false⟩
      else ⟨body.take (be32 a b c d) :: (parse maxLen (body.drop (be32 a b c d))).frames,
            (parse maxLen (body.drop (be32 a b c d))).rest, (parse maxLen (body.drop (be32 a b c d))).exceeded⟩ := by
  have hl : (body.drop (be32 a b c d)).length ≤ body.length := by simp
  simp only [parse, loop, List.length_cons]
  rw [loop_fuel maxLen (body.length + 1 + 1 + 1 + 1) ((body.drop (be32 a b c d)).length + 1) _ (by omega) (by omega)]

/-- Parsing is incremental: more bytes appended only continue where the loop stopped. -/
theorem parse_append (maxLen : Nat) : ∀ (n : Nat) (data more : Bytes), data.length ≤ n →
    parse maxLen (data ++ more) =
      if (parse maxLen data).exceeded then ⟨(parse maxLen data).frames, (parse maxLen data).rest ++ more, true⟩
      else ⟨(parse maxLen data).frames ++ (parse maxLen ((parse maxLen data).rest ++ more)).frames,
            (parse maxLen ((parse maxLen data).rest ++ more)).rest,
            (parse maxLen ((parse maxLen data).rest ++ more)).exceeded⟩ := by
  intro n
  induction n with
  | zero =>
    intro data more h
    have : data = [] := by cases data <;> simp_all
    subst this
    simp [parse_short]
  | succ k ih =>
    intro data more h
    match data with
    | [] => simp [parse_short]
    | [x] => simp [parse_short]
    | [x, y] => simp [parse_short]
    | [x, y, z] => simp [parse_short]
    | a :: b :: c :: d :: body =>
      simp only [List.cons_append]
      rw [parse_cons4 maxLen a b c d (body ++ more), parse_cons4 maxLen a b c d body]
      by_cases h1 : be32 a b c d > maxLen
      · simp [h1]
      · by_cases h2 : body.length < be32 a b c d
        · simp only [h1, h2, if_false, if_true]
          simp only [Bool.false_eq_true, if_false, List.nil_append, List.cons_append]
          rw [parse_cons4 maxLen a b c d (body ++ more)]
          simp [h1]
        · have h3 : ¬ (body ++ more).length < be32 a b c d := by simp; omega
          have hle : be32 a b c d ≤ body.length := by omega
          simp only [h1, h2, h3, if_false]
          rw [List.take_append_of_le_length hle, List.drop_append_of_le_length hle]
          have hl : (body.drop (be32 a b c d)).length ≤ k := by
            simp only [List.length_cons] at h
            simp; omega
          rw [ih (body.drop (be32 a b c d)) more hl]
          by_cases h4 : (parse maxLen (body.drop (be32 a b c d))).exceeded = true
          · simp [h4]
          · simp [h4]

theorem prefix32_eq (n : Nat) : ∃ a b c d, prefix32 n = [a, b, c, d] ∧ (n < 2 ^ 32 → be32 a b c d = n) := by
  refine ⟨_, _, _, _, rfl, ?_⟩
  intro h
  simp only [be32, UInt8.toNat_ofNat', Nat.reducePow, Nat.mod_mod] at h ⊢
  omega

/-- A well-formed stream parses to exactly the frames that were encoded. -/
theorem parse_encodeAll (maxLen : Nat) (hm : maxLen < 2 ^ 32) :
    ∀ (fs : List Bytes), (∀ f ∈ fs, f.length ≤ maxLen) → ∀ (tail : Bytes),
      parse maxLen (encodeAll fs ++ tail) =
        ⟨fs ++ (parse maxLen tail).frames, (parse maxLen tail).rest, (parse maxLen tail).exceeded⟩ := by
  intro fs
  induction fs with
  | nil => intro _ tail; simp [encodeAll]
  | cons f fs ih =>
    intro hf tail
    obtain ⟨a, b, c, d, hp, hv⟩ := prefix32_eq f.length
    have hfl : f.length ≤ maxLen := hf f (by simp)
    have hv' : be32 a b c d = f.length := hv (by omega)
    have : encodeAll (f :: fs) ++ tail = a :: b :: c :: d :: (f ++ (encodeAll fs ++ tail)) := by
      simp [encodeAll, encode, hp]
    rw [this, parse_cons4, hv']
    have h1 : ¬ f.length > maxLen := by omega
    have h2 : ¬ (f ++ (encodeAll fs ++ tail)).length < f.length := by simp
    simp only [h1, h2, if_false]
    rw [List.take_left' rfl, List.drop_left' rfl, ih (fun g hg => hf g (by simp [hg])) tail]
    simp

/-- A buffer the loop cannot make progress on (what `_unprocessed` is between calls). -/
def Stuck (maxLen : Nat) (buf : Bytes) : Prop := parse maxLen buf = ⟨[], buf, false⟩

theorem stuck_nil (maxLen : Nat) : Stuck maxLen [] := by simp [Stuck, parse_short]

theorem parse_rest_stuck (maxLen : Nat) : ∀ (n : Nat) (data : Bytes), data.length ≤ n →
    (parse maxLen data).exceeded = false → Stuck maxLen (parse maxLen data).rest := by
  intro n
  induction n with
  | zero =>
    intro data h _
    have : data = [] := by cases data <;> simp_all
    subst this
    simp [Stuck, parse_short]
  | succ k ih =>
    intro data h he
    match data with
    | [] => simp [Stuck, parse_short]
    | [x] => simp [Stuck, parse_short]
    | [x, y] => simp [Stuck, parse_short]
    | [x, y, z] => simp [Stuck, parse_short]
    | a :: b :: c :: d :: body =>
      rw [parse_cons4] at he ⊢
      by_cases h1 : be32 a b c d > maxLen
      · simp [h1] at he
      · by_cases h2 : body.length < be32 a b c d
        · simp only [h1, h2, if_false, if_true]
          simp [Stuck, parse_cons4, h1, h2]
        · simp only [h1, h2, if_false] at he ⊢
          apply ih
          · simp only [List.length_cons] at h
            simp; omega
          · exact he

theorem feedWith_eq_parse (maxLen : Nat) (buf chunk : Bytes) :
    feedWith maxLen buf chunk =
      ⟨(parse maxLen (buf ++ chunk)).frames,
       if (parse maxLen (buf ++ chunk)).exceeded then buf ++ chunk else (parse maxLen (buf ++ chunk)).rest,
       (parse maxLen (buf ++ chunk)).exceeded⟩ := by
  simp [feedWith, parse]

/-- Feeding chunk by chunk delivers what parsing the concatenation delivers, and stops at the same
    over-long prefix. -/
theorem feedAllWith_eq_parse (maxLen : Nat) : ∀ (chunks : List Bytes) (buf : Bytes), Stuck maxLen buf →
    (feedAllWith maxLen buf chunks).frames = (parse maxLen (buf ++ chunks.flatten)).frames ∧
    (feedAllWith maxLen buf chunks).exceeded = (parse maxLen (buf ++ chunks.flatten)).exceeded ∧
    ((parse maxLen (buf ++ chunks.flatten)).exceeded = false →
      (feedAllWith maxLen buf chunks).buf = (parse maxLen (buf ++ chunks.flatten)).rest) := by
  intro chunks
  induction chunks with
  | nil =>
    intro buf hs
    simp only [feedAllWith, List.flatten_nil, List.append_nil]
    rw [hs]
    simp
  | cons c cs ih =>
    intro buf hs
    simp only [feedAllWith, List.flatten_cons]
    rw [feedWith_eq_parse]
    have hap := parse_append maxLen (buf ++ c).length (buf ++ c) cs.flatten (Nat.le_refl _)
    rw [List.append_assoc] at hap
    by_cases he : (parse maxLen (buf ++ c)).exceeded = true
    · simp only [he, if_true] at hap ⊢
      rw [hap]
      simp
    · have he' : (parse maxLen (buf ++ c)).exceeded = false := by simpa using he
      simp only [he', Bool.false_eq_true, if_false] at hap ⊢
      have hst := parse_rest_stuck maxLen _ (buf ++ c) (Nat.le_refl _) he'
      obtain ⟨i1, i2, i3⟩ := ih (parse maxLen (buf ++ c)).rest hst
      rw [hap]
      simp only
      exact ⟨by rw [i1], i2, i3⟩

end Afkak.Frame
