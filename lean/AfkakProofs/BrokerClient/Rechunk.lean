import AfkakProofs.BrokerClient.ChunkSplit
/-!
# Any chunking of a byte string is unobservable at the broker client — unconditionally (flat model)

`C06_chunk_split_unobservable` needs the connection to stay readable after the first part.  Here: in ANY state, for
ANY non-empty list of chunks, delivering them one `dataReceived` at a time and delivering their concatenation in one
call produce the same observations — the same Deferreds fire with the same packets in the same order, the same log
lines, the same `lose`/reconnect — up to the `badOp` markers of `dataReceived` calls that a transport that has
stopped reading would never make, and end in the same state up to a receive buffer that is never read again.
-/
namespace Afkak.BrokerClient
open Afkak.Frame Afkak.Consts

/-- observations without the "event not enabled" markers -/
def vis (os : List Ob) : List Ob := os.filter (fun o => o != .badOp)

theorem vis_append (a b : List Ob) : vis (a ++ b) = vis a ++ vis b := List.filter_append ..

/-- equal, except possibly for a receive buffer that will never be read again -/
def Eqv (a b : St) : Prop :=
  { a with rbuf := [] } = { b with rbuf := [] } ∧ (a.proto.isSome = true → a.losing = false → a.rbuf = b.rbuf)

theorem eqv_refl (a : St) : Eqv a a := ⟨rfl, fun _ _ => rfl⟩

theorem eqv_fields {a b : St} (h : Eqv a b) : a.proto = b.proto ∧ a.losing = b.losing := by
  have := h.1
  cases a; cases b
  simp only [St.mk.injEq] at this
  exact ⟨this.2.2.2.1, this.2.2.2.2.1⟩

theorem eqv_trans {a b c : St} (h1 : Eqv a b) (h2 : Eqv b c) : Eqv a c := by
  obtain ⟨p1, l1⟩ := eqv_fields h1
  refine ⟨h1.1.trans h2.1, fun hp hl => ?_⟩
  rw [h1.2 hp hl]
  exact h2.2 (p1 ▸ hp) (l1 ▸ hl)

theorem eq_of_eqv_readable {a b : St} (h : Eqv a b) (hp : a.proto.isSome = true) (hl : a.losing = false) : a = b := by
  have h1 := h.1
  have h2 := h.2 hp hl
  cases a; cases b
  simp only [St.mk.injEq] at h1 ⊢
  simp only at h2
  simp_all

/-- a `dataReceived` on two states that differ only in a dead receive buffer -/
theorem eqv_step_bytes (cfg : Cfg) {a b : St} (h : Eqv a b) (x : Bytes) :
    (step cfg a (.bytesIn x)).2 = (step cfg b (.bytesIn x)).2 ∧ Eqv (step cfg a (.bytesIn x)).1 (step cfg b (.bytesIn x)).1 := by
  by_cases hr : a.proto.isSome = true ∧ a.losing = false
  · have := eq_of_eqv_readable h hr.1 hr.2
    subst this
    exact ⟨rfl, eqv_refl _⟩
  · obtain ⟨p1, l1⟩ := eqv_fields h
    cases hp : a.proto with
    | none =>
      have hpb : b.proto = none := by rw [← p1]; exact hp
      simp only [step, hp, hpb]
      exact ⟨trivial, h⟩
    | some c =>
      have hpb : b.proto = some c := by rw [← p1]; exact hp
      have hl : a.losing = true := by
        cases hl : a.losing with
        | true => rfl
        | false => exact absurd ⟨by simp [hp], hl⟩ hr
      have hlb : b.losing = true := by rw [← l1]; exact hl
      simp only [step, hp, hpb, hl, hlb, if_true]
      exact ⟨trivial, h⟩

theorem feed_exceeded_append (buf c1 c2 : Bytes) (h : (feed buf c1).exceeded = true) :
    (feed buf (c1 ++ c2)).frames = (feed buf c1).frames ∧ (feed buf (c1 ++ c2)).exceeded = true := by
  have e1 : (parse kafkaMaxLength (buf ++ c1)).exceeded = true := by
    simpa [feed, feedWith_eq_parse] using h
  have hap := parse_append kafkaMaxLength (buf ++ c1).length (buf ++ c1) c2 (Nat.le_refl _)
  simp only [e1, if_true] at hap
  simp only [feed, feedWith_eq_parse, ← List.append_assoc, hap]
  exact ⟨trivial, trivial⟩

theorem lostStep_proto_none (s : St) : (lostStep s).1.proto = none := by
  simp only [lostStep, connect_, tryConnect]; split <;> (try split) <;> rfl

/-- two chunks against their concatenation, in any state -/
theorem two_chunks (cfg : Cfg) (s : St) (c1 c2 : Bytes) :
    vis ((step cfg s (.bytesIn c1)).2 ++ (step cfg (step cfg s (.bytesIn c1)).1 (.bytesIn c2)).2)
      = vis (step cfg s (.bytesIn (c1 ++ c2))).2 ∧
    Eqv (step cfg (step cfg s (.bytesIn c1)).1 (.bytesIn c2)).1 (step cfg s (.bytesIn (c1 ++ c2))).1 := by
  cases hp : s.proto with
  | none => simp only [step, hp]; exact ⟨by simp [vis], eqv_refl _⟩
  | some c =>
    by_cases hl : s.losing = true
    · simp only [step, hp, hl, if_true]; exact ⟨by simp [vis], eqv_refl _⟩
    · have hl' : s.losing = false := by simpa using hl
      by_cases hgood : (step cfg s (.bytesIn c1)).1.proto = some c ∧ (step cfg s (.bytesIn c1)).1.losing = false
      · obtain ⟨k1, k2, k3⟩ := split_unobservable cfg s c c1 c2 hp hl' hgood.1 hgood.2
        refine ⟨by rw [k1], k2.symm, ?_⟩
        intro _ hlz
        rw [k3 hlz]
      · -- the first call ended the connection's reading: an exception escaped, or an over-long prefix
        rw [step_bytesIn cfg s c c1 hp hl'] at hgood ⊢
        rw [step_bytesIn cfg s c (c1 ++ c2) hp hl']
        by_cases hu : (handleFrames s (feed s.rbuf c1).frames).2.2 = true
        · -- the exception: whatever else the longer chunk completes comes after the short packet
          have hfr : ∃ X, (feed s.rbuf (c1 ++ c2)).frames = (feed s.rbuf c1).frames ++ X := by
            by_cases hex : (feed s.rbuf c1).exceeded = true
            · exact ⟨[], by rw [(feed_exceeded_append s.rbuf c1 c2 hex).1]; simp⟩
            · exact ⟨_, (feed_split s.rbuf c1 c2 (by simpa using hex)).1⟩
          obtain ⟨X, hX⟩ := hfr
          have hcomb : handleFrames s (feed s.rbuf (c1 ++ c2)).frames = handleFrames s (feed s.rbuf c1).frames := by
            rw [hX, handleFrames_append, hu]; rfl
          have e1 : bytesStep s c c1 = ((lostStep (handleFrames s (feed s.rbuf c1).frames).1).1,
              (handleFrames s (feed s.rbuf c1).frames).2.1 ++ (lostStep (handleFrames s (feed s.rbuf c1).frames).1).2) := by
            simp [bytesStep, hu]
          have e2 : bytesStep s c (c1 ++ c2) = bytesStep s c c1 := by
            simp [bytesStep, hcomb, hu]
          rw [e2, e1]
          simp only [step, lostStep_proto_none]
          exact ⟨by simp [vis], eqv_refl _⟩
        · have hu' : (handleFrames s (feed s.rbuf c1).frames).2.2 = false := by simpa using hu
          have hex : (feed s.rbuf c1).exceeded = true := by
            cases hex : (feed s.rbuf c1).exceeded with
            | true => rfl
            | false =>
              exfalso
              apply hgood
              have hc := handleFrames_frame s (feed s.rbuf c1).frames
              simp only [bytesStep, hu', hex, Bool.false_eq_true, if_false]
              rw [hc]
              exact ⟨hp, hl'⟩
          obtain ⟨f1, f2⟩ := feed_exceeded_append s.rbuf c1 c2 hex
          have hc := handleFrames_frame s (feed s.rbuf c1).frames
          have e1 : bytesStep s c c1 = ({ (handleFrames s (feed s.rbuf c1).frames).1 with rbuf := (feed s.rbuf c1).buf, losing := true },
              (handleFrames s (feed s.rbuf c1).frames).2.1 ++ [.lose c]) := by
            simp [bytesStep, hu', hex]
          have e2 : bytesStep s c (c1 ++ c2) = ({ (handleFrames s (feed s.rbuf c1).frames).1 with rbuf := (feed s.rbuf (c1 ++ c2)).buf, losing := true },
              (handleFrames s (feed s.rbuf c1).frames).2.1 ++ [.lose c]) := by
            simp [bytesStep, f1, f2, hu']
          rw [e1, e2]
          have hpp : (handleFrames s (feed s.rbuf c1).frames).1.proto = some c := by rw [hc]; exact hp
          simp only [step, hpp, if_true]
          refine ⟨by simp [vis], rfl, ?_⟩
          intro _ hlz
          simp at hlz

/-- any non-empty chunking against the concatenation, in any state -/
theorem rechunk (cfg : Cfg) : ∀ (cs : List Bytes) (c : Bytes) (s : St),
    vis (obs cfg s ((c :: cs).map .bytesIn)) = vis (step cfg s (.bytesIn (c :: cs).flatten)).2 ∧
    Eqv (run cfg s ((c :: cs).map .bytesIn)) (step cfg s (.bytesIn (c :: cs).flatten)).1 := by
  intro cs
  induction cs with
  | nil =>
    intro c s
    simp only [List.map_cons, List.map_nil, obs, trace, List.flatMap_cons, List.flatMap_nil, List.append_nil, run,
      List.flatten_cons, List.flatten_nil]
    exact ⟨trivial, eqv_refl _⟩
  | cons c' cs ih =>
    intro c s
    obtain ⟨i1, i2⟩ := ih c' (step cfg s (.bytesIn c)).1
    obtain ⟨t1, t2⟩ := two_chunks cfg s c (c' :: cs).flatten
    have ho : obs cfg s ((c :: c' :: cs).map .bytesIn)
        = (step cfg s (.bytesIn c)).2 ++ obs cfg (step cfg s (.bytesIn c)).1 ((c' :: cs).map .bytesIn) := by
      simp [obs, trace]
    have hr : run cfg s ((c :: c' :: cs).map .bytesIn) = run cfg (step cfg s (.bytesIn c)).1 ((c' :: cs).map .bytesIn) := by
      simp [run]
    have hf : (c :: c' :: cs).flatten = c ++ (c' :: cs).flatten := by simp
    rw [ho, hr, hf]
    refine ⟨?_, eqv_trans i2 t2⟩
    rw [vis_append, i1, ← vis_append]
    exact t1

end Afkak.BrokerClient
