import Afkak.BrokerClientBytes
import AfkakProofs.BrokerClient.Frame
import AfkakProofs.BrokerClient.MonC06
/-!
# Framing × broker client at the byte level: the whole-stream fold `lstep` follows from the C06 monitor

`jinv_step`: every step the C06 monitor (`Monitor.C06.mstep`) accepts keeps the per-connection fold of
`Afkak/BrokerClientBytes.lean` good.  Pure reasoning about the two monitors (no model state): it therefore applies
to every accepted trace, the model's and the implementation's alike.
-/
namespace Afkak.BrokerClientBytes
open Afkak.Frame Afkak.BrokerClient Afkak.Consts Afkak.Monitor.C06

theorem parseAll_eq (data : Bytes) : parseAll data = parse kafkaMaxLength data := rfl

theorem parseAll_nil : parseAll [] = ⟨[], [], false⟩ := by
  rw [parseAll_eq]; exact parse_short _ [] (by simp)

theorem mem_okFires (os : List Ob) (k : Nat) (i : Int) (b : Bytes) :
    (k, i, b) ∈ okFires os ↔ (k, i, Res.ok b) ∈ fires os := by
  induction os with
  | nil => simp [okFires, fires]
  | cons o os ih =>
    cases o with
    | fire k' i' r => cases r <;> simp [okFires, fires, ih]
    | _ => simp [okFires, fires, ih]

theorem okFires_nil_of_fires {os : List Ob} (h : fires os = []) : okFires os = [] := by
  cases hk : okFires os with
  | nil => rfl
  | cons x xs =>
    have : (x.1, x.2.1, x.2.2) ∈ okFires os := by rw [hk]; simp
    rw [mem_okFires, h] at this
    simp at this

/-- an `ok` firing in a step the monitor accepts: the step is a `dataReceived` that completed that packet -/
theorem ok_cause (m m' : MSt) (e : Ev) (os : List Ob) (hs : mstep m (e, os) = some m') (x : Nat × Int × Bytes)
    (hx : x ∈ okFires os) :
    ∃ chunk, e = .bytesIn chunk ∧ x.2.2 ∈ (feed m.buf chunk).frames ∧ corrId x.2.2 = some x.2.1 ∧ m.conn.isSome = true := by
  have h1 : (x.1, x.2.1, Res.ok x.2.2) ∈ fires os := (mem_okFires os x.1 x.2.1 x.2.2).mp hx
  exact causes m m' e os hs _ h1

theorem okFires_nil_of_other (m m' : MSt) (e : Ev) (os : List Ob) (hs : mstep m (e, os) = some m')
    (hne : ∀ chunk, e ≠ .bytesIn chunk) : okFires os = [] := by
  cases hk : okFires os with
  | nil => rfl
  | cons x xs =>
    obtain ⟨chunk, he, _⟩ := ok_cause m m' e os hs x (by rw [hk]; simp)
    exact absurd he (hne chunk)

/-- `deliver` is cut short exactly when one of the packets is too short to carry an id -/
theorem deliver_cut (fs : List Bytes) : ∀ live : List Live, (deliver live fs).2.2 = anyShort fs := by
  induction fs with
  | nil => intro live; simp [deliver, anyShort]
  | cons f fs ih =>
    intro live
    cases hid : corrId f with
    | none => simp [deliver, hid, anyShort]
    | some i =>
      simp only [deliver, hid]
      rw [ih]
      simp [anyShort, hid]

/-- while the whole-stream parse has not stopped, what a chunk adds to it is what `feed` on the remainder delivers -/
theorem newFrames_eq_feed (sofar chunk : Bytes) (hex : (parseAll sofar).exceeded = false) :
    newFrames sofar chunk = (feed (parseAll sofar).rest chunk).frames ∧
    (parseAll (sofar ++ chunk)).frames = (parseAll sofar).frames ++ (feed (parseAll sofar).rest chunk).frames ∧
    (parseAll (sofar ++ chunk)).exceeded = (feed (parseAll sofar).rest chunk).exceeded ∧
    ((feed (parseAll sofar).rest chunk).exceeded = false →
      (parseAll (sofar ++ chunk)).rest = (feed (parseAll sofar).rest chunk).buf) := by
  simp only [parseAll_eq] at hex ⊢
  have hap := parse_append kafkaMaxLength sofar.length sofar chunk (Nat.le_refl _)
  simp only [hex, Bool.false_eq_true, if_false] at hap
  simp only [newFrames, parseAll_eq, feed, feedWith_eq_parse, hap, List.drop_left]
  refine ⟨trivial, trivial, trivial, fun h => ?_⟩
  simp [h]

structure JInv (m : MSt) (l : LSt) : Prop where
  good : l.bad = false
  nconn : l.nconn = m.nconn
  doneOk : ∀ g ∈ l.done, logOk g = true
  curOk : ∀ g, l.cur = some g → logOk g = true
  reading : ∀ c, m.conn = some c → m.reading = true →
    ∃ g, l.cur = some g ∧ g.conn = c ∧ g.dropped = false ∧ (parseAll g.bytes).exceeded = false ∧
      m.buf = (parseAll g.bytes).rest

theorem jinv_init : JInv MSt.init LSt.init := by
  constructor <;> simp [MSt.init, LSt.init]

theorem logOk_noteLose (g : ConnLog) (os : List Ob) (h : logOk g = true) : logOk (noteLose g os) = true := by
  simp only [logOk, noteLose, Bool.and_eq_true, Bool.or_eq_true] at h ⊢
  refine ⟨h.1, ?_⟩
  rcases h.2 with h2 | h2
  · exact Or.inl h2
  · exact Or.inr (Or.inl h2)

/-- the fold is unchanged (but for `bad`, which stays false) and the monitor state keeps its connection fields -/
theorem jinv_neutral (m m' : MSt) (l l' : LSt) (h : JInv m l)
    (h1 : m'.conn = m.conn) (h2 : m'.reading = m.reading) (h3 : m'.buf = m.buf) (h4 : m'.nconn = m.nconn)
    (hd : l'.done = l.done) (hc : l'.cur = l.cur) (hn : l'.nconn = l.nconn) (hb : l'.bad = false) : JInv m' l' := by
  constructor
  · exact hb
  · rw [hn, h4]; exact h.nconn
  · rw [hd]; exact h.doneOk
  · rw [hc]; exact h.curOk
  · rw [h1, h2, h3, hc]; exact h.reading

theorem jinv_step (m m' : MSt) (l : LSt) (e : Ev) (os : List Ob) (h : JInv m l) (hs : mstep m (e, os) = some m') :
    JInv m' (lstep l (e, os)) := by
  have hg := h.good
  cases e with
  | make id ex =>
    have hok := okFires_nil_of_other m m' _ os hs (by intro c; simp)
    have hm : m'.conn = m.conn ∧ m'.reading = m.reading ∧ m'.buf = m.buf ∧ m'.nconn = m.nconn := by
      simp only [mstep] at hs
      repeat' split at hs
      all_goals first | (simp at hs; done) | (simp only [Option.some.injEq] at hs; subst hs; exact ⟨rfl, rfl, rfl, rfl⟩)
    exact jinv_neutral m m' l _ h hm.1 hm.2.1 hm.2.2.1 hm.2.2.2 rfl rfl rfl (by simp [lstep, hg, hok])
  | cancel id =>
    have hok := okFires_nil_of_other m m' _ os hs (by intro c; simp)
    have hm : m'.conn = m.conn ∧ m'.reading = m.reading ∧ m'.buf = m.buf ∧ m'.nconn = m.nconn := by
      simp only [mstep] at hs
      repeat' split at hs
      all_goals first | (simp at hs; done) | (simp only [Option.some.injEq] at hs; subst hs; exact ⟨rfl, rfl, rfl, rfl⟩)
    exact jinv_neutral m m' l _ h hm.1 hm.2.1 hm.2.2.1 hm.2.2.2 rfl rfl rfl (by simp [lstep, hg, hok])
  | connFail =>
    have hok := okFires_nil_of_other m m' _ os hs (by intro c; simp)
    have hm : m'.conn = m.conn ∧ m'.reading = m.reading ∧ m'.buf = m.buf ∧ m'.nconn = m.nconn := by
      simp only [mstep] at hs
      repeat' split at hs
      all_goals first | (simp at hs; done) | (simp only [Option.some.injEq] at hs; subst hs; exact ⟨rfl, rfl, rfl, rfl⟩)
    exact jinv_neutral m m' l _ h hm.1 hm.2.1 hm.2.2.1 hm.2.2.2 rfl rfl rfl (by simp [lstep, hg, hok])
  | advance dt =>
    have hok := okFires_nil_of_other m m' _ os hs (by intro c; simp)
    have hm : m'.conn = m.conn ∧ m'.reading = m.reading ∧ m'.buf = m.buf ∧ m'.nconn = m.nconn := by
      simp only [mstep] at hs
      repeat' split at hs
      all_goals first | (simp at hs; done) | (simp only [Option.some.injEq] at hs; subst hs; exact ⟨rfl, rfl, rfl, rfl⟩)
    exact jinv_neutral m m' l _ h hm.1 hm.2.1 hm.2.2.1 hm.2.2.2 rfl rfl rfl (by simp [lstep, hg, hok])
  | updateMetadata a b =>
    have hok := okFires_nil_of_other m m' _ os hs (by intro c; simp)
    have hm : m'.conn = m.conn ∧ m'.reading = m.reading ∧ m'.buf = m.buf ∧ m'.nconn = m.nconn := by
      simp only [mstep] at hs
      repeat' split at hs
      all_goals first | (simp at hs; done) | (simp only [Option.some.injEq] at hs; subst hs; exact ⟨rfl, rfl, rfl, rfl⟩)
    exact jinv_neutral m m' l _ h hm.1 hm.2.1 hm.2.2.1 hm.2.2.2 rfl rfl rfl (by simp [lstep, hg, hok])
  | writeFail b =>
    have hok := okFires_nil_of_other m m' _ os hs (by intro c; simp)
    have hm : m'.conn = m.conn ∧ m'.reading = m.reading ∧ m'.buf = m.buf ∧ m'.nconn = m.nconn := by
      simp only [mstep] at hs
      repeat' split at hs
      all_goals first | (simp at hs; done) | (simp only [Option.some.injEq] at hs; subst hs; exact ⟨rfl, rfl, rfl, rfl⟩)
    exact jinv_neutral m m' l _ h hm.1 hm.2.1 hm.2.2.1 hm.2.2.2 rfl rfl rfl (by simp [lstep, hg, hok])
  | connOk =>
    have hok := okFires_nil_of_other m m' _ os hs (by intro c; simp)
    simp only [mstep] at hs
    by_cases hb : Afkak.Monitor.C06.isBad os = true
    · simp only [hb, if_true] at hs
      split at hs
      · simp only [Option.some.injEq] at hs; subst hs
        have hb' : badStep os = true := hb
        exact jinv_neutral m m l _ h rfl rfl rfl rfl (by simp [lstep, hb']) (by simp [lstep, hb']) (by simp [lstep, hb'])
          (by simp [lstep, hb', hg, hok])
      · simp at hs
    · have hb' : badStep os = false := by simpa [badStep, Afkak.Monitor.C06.isBad] using hb
      simp only [hb, Bool.false_eq_true, if_false] at hs
      split at hs
      · simp only [Option.some.injEq] at hs; subst hs
        simp only [lstep, hb', Bool.false_eq_true, if_false]
        constructor
        · simp [hg, hok]
        · simp [h.nconn]
        · intro g hgm
          rcases List.mem_append.mp hgm with hgm | hgm
          · exact h.curOk g (by cases hc : l.cur <;> simp_all)
          · exact h.doneOk g hgm
        · intro g hgc
          simp only [Option.some.injEq] at hgc; subst hgc
          simp [logOk, parseAll_nil]
        · intro c hc hr
          simp only [Option.some.injEq] at hc
          refine ⟨_, rfl, ?_, ?_, ?_, ?_⟩
          · simp only; rw [h.nconn]; exact hc
          · simp only at hr ⊢
            rw [h.nconn]
            simpa using hr
          · simp [parseAll_nil]
          · simp [parseAll_nil]
      · simp at hs
  | bytesIn chunk =>
    have hs0 := hs
    simp only [mstep] at hs
    by_cases hb : Afkak.Monitor.C06.isBad os = true
    · simp only [hb, if_true] at hs
      split at hs
      · rename_i hf
        simp only [Option.some.injEq] at hs; subst hs
        have hb' : badStep os = true := hb
        have hok := okFires_nil_of_fires (by simpa using hf)
        exact jinv_neutral m m l _ h rfl rfl rfl rfl (by simp [lstep, hb']) (by simp [lstep, hb']) (by simp [lstep, hb'])
          (by simp [lstep, hb', hg, hok])
      · simp at hs
    · have hb' : badStep os = false := by simpa [badStep, Afkak.Monitor.C06.isBad] using hb
      simp only [hb, Bool.false_eq_true, if_false] at hs
      cases hc : m.conn with
      | none => simp [hc] at hs
      | some c =>
        simp only [hc] at hs
        by_cases hr : m.reading = true
        · simp only [hr, Bool.not_true, Bool.false_eq_true, if_false] at hs
          obtain ⟨g, hcur, hgc, hgd, hgex, hbuf⟩ := h.reading c hc hr
          obtain ⟨n1, n2, n3, n4⟩ := newFrames_eq_feed g.bytes chunk hgex
          rw [← hbuf] at n1 n2 n3 n4
          -- every ok firing is a packet this chunk completed, with its own id
          have hoks : ∀ x ∈ okFires os, x.2.2 ∈ (feed m.buf chunk).frames ∧ corrId x.2.2 = some x.2.1 := by
            intro x hx
            obtain ⟨chunk', he, h1, h2, _⟩ := ok_cause m m' _ os hs0 x hx
            simp only [Ev.bytesIn.injEq] at he; subst he
            exact ⟨h1, h2⟩
          have hgl := h.curOk g hcur
          simp only [logOk, Bool.and_eq_true, Bool.or_eq_true, List.all_eq_true, List.contains_iff_mem, beq_iff_eq,
            Bool.not_eq_eq_eq_not, Bool.not_true] at hgl
          -- the log after this chunk is in order as soon as a stopped parse is accounted for
          have hlog : ((parseAll (g.bytes ++ chunk)).exceeded = true →
                (os.contains (Ob.lose g.conn) = true ∨ anyShort (newFrames g.bytes chunk) = true)) →
              logOk (noteLose { g with bytes := g.bytes ++ chunk, oks := g.oks ++ okFires os,
                                       dropped := g.dropped || anyShort (newFrames g.bytes chunk) } os) = true ∧
              chunkOk g chunk os = true := by
            intro hacc
            constructor
            · simp only [logOk, noteLose, Bool.and_eq_true, Bool.or_eq_true, List.all_eq_true, List.contains_iff_mem,
                beq_iff_eq, Bool.not_eq_eq_eq_not, Bool.not_true, List.mem_append, n2]
              refine ⟨?_, ?_⟩
              · intro x hx
                rcases hx with hx | hx
                · exact ⟨Or.inl (hgl.1 x hx).1, (hgl.1 x hx).2⟩
                · exact ⟨Or.inr (hoks x hx).1, (hoks x hx).2⟩
              · by_cases hex : (parseAll (g.bytes ++ chunk)).exceeded = true
                · right
                  rcases hacc hex with h' | h'
                  · exact Or.inr (by simpa using h')
                  · exact Or.inl (Or.inr h')
                · left; simpa using hex
            · simp only [chunkOk, hgd, Bool.not_false, Bool.true_and, Bool.and_eq_true, Bool.or_eq_true, List.all_eq_true,
                List.contains_iff_mem, beq_iff_eq, Bool.not_eq_eq_eq_not, Bool.not_true, n1]
              refine ⟨fun x hx => hoks x hx, ?_⟩
              by_cases hex : (parseAll (g.bytes ++ chunk)).exceeded = true
              · rcases hacc hex with h' | h'
                · exact Or.inl (Or.inr (by simpa using h'))
                · exact Or.inr (by rw [← n1]; exact h')
              · left; left; simpa using hex
          by_cases hfd : fires os = (deliver m.live (feed m.buf chunk).frames).1
          · simp only [hfd, bne_self_eq_false, Bool.false_eq_true, if_false] at hs
            have hcut := deliver_cut (feed m.buf chunk).frames m.live
            simp only [lstep, hb', Bool.false_eq_true, if_false, hcur]
            by_cases hd2 : (deliver m.live (feed m.buf chunk).frames).2.2 = true
            · -- a packet too short to carry an id: the connection dies
              simp only [hd2, if_true, Option.some.injEq] at hs; subst hs
              rw [hd2] at hcut
              obtain ⟨k1, k2⟩ := hlog (fun _ => Or.inr (by rw [n1]; exact hcut.symm))
              constructor
              · simp [hg, k2]
              · exact h.nconn
              · exact h.doneOk
              · intro g1 hg1; simp only [Option.some.injEq] at hg1; subst hg1; exact k1
              · intro c' hc'; simp at hc'
            · have hd2' : (deliver m.live (feed m.buf chunk).frames).2.2 = false := by simpa using hd2
              simp only [hd2', Bool.false_eq_true, if_false] at hs
              rw [hd2'] at hcut
              by_cases hex : (feed m.buf chunk).exceeded = true
              · simp only [hex, if_true] at hs
                split at hs
                · rename_i hlose
                  simp only [Option.some.injEq] at hs; subst hs
                  obtain ⟨k1, k2⟩ := hlog (fun _ => Or.inl (by rw [hgc]; exact hlose))
                  constructor
                  · simp [hg, k2]
                  · exact h.nconn
                  · exact h.doneOk
                  · intro g1 hg1; simp only [Option.some.injEq] at hg1; subst hg1; exact k1
                  · intro c' _ hr'; simp at hr'
                · simp at hs
              · have hex' : (feed m.buf chunk).exceeded = false := by simpa using hex
                simp only [hex', Bool.false_eq_true, if_false, Option.some.injEq] at hs; subst hs
                obtain ⟨k1, k2⟩ := hlog (fun hx => by rw [n3, hex'] at hx; simp at hx)
                constructor
                · simp [hg, k2]
                · exact h.nconn
                · exact h.doneOk
                · intro g1 hg1; simp only [Option.some.injEq] at hg1; subst hg1; exact k1
                · intro c' hc' hr'
                  simp only at hc' hr'
                  simp only [Option.some.injEq] at hc'; subst hc'
                  refine ⟨_, rfl, ?_, ?_, ?_, ?_⟩
                  · simp [noteLose, hgc]
                  · simp only [noteLose, hgd, Bool.false_or, Bool.or_eq_false_iff]
                    refine ⟨by rw [n1]; exact hcut.symm, ?_⟩
                    rw [hgc]; simpa using hr'
                  · simp only [noteLose]; rw [n3]; exact hex'
                  · simp only [noteLose]; exact (n4 hex').symm
          · have : (fires os != (deliver m.live (feed m.buf chunk).frames).1) = true := by simpa using hfd
            simp [this] at hs
        · have hr' : m.reading = false := by simpa using hr
          simp [hr'] at hs
  | lost =>
    have hok := okFires_nil_of_other m m' _ os hs (by intro c; simp)
    simp only [mstep] at hs
    split at hs
    · simp at hs
    · by_cases hb : Afkak.Monitor.C06.isBad os = true
      · simp only [hb, if_true, Option.some.injEq] at hs; subst hs
        have hb' : badStep os = true := hb
        exact jinv_neutral m m l _ h rfl rfl rfl rfl (by simp [lstep, hb']) (by simp [lstep, hb']) (by simp [lstep, hb'])
          (by simp [lstep, hb', hg, hok])
      · have hb' : badStep os = false := by simpa [badStep, Afkak.Monitor.C06.isBad] using hb
        simp only [hb, Bool.false_eq_true, if_false, Option.some.injEq] at hs; subst hs
        simp only [lstep, hb', Bool.false_eq_true, if_false]
        constructor
        · simp [hg, hok]
        · exact h.nconn
        · intro g hgm
          rcases List.mem_append.mp hgm with hgm | hgm
          · exact h.curOk g (by cases hc : l.cur <;> simp_all)
          · exact h.doneOk g hgm
        · intro g hgc; simp at hgc
        · intro c hc; simp at hc
  | close =>
    have hok := okFires_nil_of_other m m' _ os hs (by intro c; simp)
    simp only [mstep] at hs
    by_cases ha : os.contains Ob.raiseAssert = true
    · simp only [ha, if_true] at hs
      have ha' : Ob.raiseAssert ∈ os := by simpa using ha
      split at hs
      · simp only [Option.some.injEq] at hs; subst hs
        exact jinv_neutral m m l _ h rfl rfl rfl rfl (by simp [lstep, ha']) (by simp [lstep, ha']) (by simp [lstep, ha'])
          (by simp [lstep, ha', hg, hok])
      · simp at hs
    · simp only [ha, Bool.false_eq_true, if_false] at hs
      split at hs
      · simp only [Option.some.injEq] at hs; subst hs
        simp only [lstep, ha, Bool.false_eq_true, if_false]
        constructor
        · simp [hg, hok]
        · exact h.nconn
        · exact h.doneOk
        · intro g hgc
          cases hc : l.cur with
          | none => simp [hc] at hgc
          | some g0 =>
            simp only [hc, Option.map_some, Option.some.injEq] at hgc; subst hgc
            exact logOk_noteLose g0 os (h.curOk g0 hc)
        · intro c _ hr; simp at hr
      · simp at hs
  | disconnect =>
    have hok := okFires_nil_of_other m m' _ os hs (by intro c; simp)
    simp only [mstep] at hs
    split at hs
    · simp only [Option.some.injEq] at hs; subst hs
      simp only [lstep]
      constructor
      · simp [hg, hok]
      · exact h.nconn
      · exact h.doneOk
      · intro g hgc
        cases hc : l.cur with
        | none => simp [hc] at hgc
        | some g0 =>
          simp only [hc, Option.map_some, Option.some.injEq] at hgc; subst hgc
          exact logOk_noteLose g0 os (h.curOk g0 hc)
      · intro c _ hr; simp at hr
    · simp at hs

theorem jinv_run (tr : List (Ev × List Ob)) : ∀ (m m' : MSt) (l : LSt), JInv m l → mrun m tr = some m' →
    JInv m' (lrun l tr) := by
  induction tr with
  | nil => intro m m' l h hr; simp only [mrun, Option.some.injEq] at hr; subst hr; exact h
  | cons t ts ih =>
    intro m m' l h hr
    simp only [mrun] at hr
    cases hst : mstep m t with
    | none => simp [hst] at hr
    | some m1 =>
      simp only [hst] at hr
      exact ih m1 m' _ (jinv_step m m1 l t.1 t.2 h hst) hr

/-- every trace the C06 monitor accepts passes the whole-stream, per-connection check -/
theorem bytesOk_of_accepts (tr : List (Ev × List Ob)) (h : accepts tr = true) : bytesOk tr = true := by
  simp only [accepts, Option.isSome_iff_exists] at h
  obtain ⟨m', hm⟩ := h
  have := (jinv_run tr MSt.init m' LSt.init jinv_init hm).good
  simp [bytesOk, this]

/-! ## What `bytesOk` means, for ANY trace (no monitor, no model) -/

def allLogs (l : LSt) : List ConnLog := (l.cur.toList ++ l.done).reverse

theorem logOk_iff (g : ConnLog) : logOk g = true ↔
    (∀ x ∈ g.oks, x.2.2 ∈ (parseAll g.bytes).frames ∧ corrId x.2.2 = some x.2.1) ∧
    ((parseAll g.bytes).exceeded = true → g.dropped = true) := by
  simp only [logOk, Bool.and_eq_true, Bool.or_eq_true, List.all_eq_true, List.contains_iff_mem, beq_iff_eq,
    Bool.not_eq_eq_eq_not, Bool.not_true]
  constructor
  · rintro ⟨h1, h2⟩
    refine ⟨h1, fun he => ?_⟩
    rcases h2 with h2 | h2
    · rw [he] at h2; cases h2
    · exact h2
  · rintro ⟨h1, h2⟩
    refine ⟨h1, ?_⟩
    cases he : (parseAll g.bytes).exceeded with
    | false => exact Or.inl rfl
    | true => exact Or.inr (h2 he)

/-- more bytes only extend the whole-stream parse -/
theorem frames_mono (a b : Bytes) : ∀ f ∈ (parseAll a).frames, f ∈ (parseAll (a ++ b)).frames := by
  intro f hf
  simp only [parseAll_eq] at hf ⊢
  rw [parse_append kafkaMaxLength a.length a b (Nat.le_refl _)]
  split
  · exact hf
  · exact List.mem_append_left _ hf

theorem exceeded_mono (a b : Bytes) (h : (parseAll a).exceeded = true) : (parseAll (a ++ b)).exceeded = true := by
  simp only [parseAll_eq] at h ⊢
  rw [parse_append kafkaMaxLength a.length a b (Nat.le_refl _)]
  simp [h]

theorem bad_sticky_step (l : LSt) (t : Ev × List Ob) (h : l.bad = true) : (lstep l t).bad = true := by
  obtain ⟨e, os⟩ := t
  cases e <;> simp only [lstep] <;> (repeat' split) <;> simp [h]

theorem bad_sticky (tr : List (Ev × List Ob)) : ∀ l : LSt, l.bad = true → (lrun l tr).bad = true := by
  induction tr with
  | nil => intro l h; exact h
  | cons t ts ih => intro l h; exact ih _ (bad_sticky_step l t h)

theorem good_step_of_run (tr : List (Ev × List Ob)) (l : LSt) (t : Ev × List Ob) (h : (lrun l (t :: tr)).bad = false) :
    (lstep l t).bad = false := by
  cases hb : (lstep l t).bad with
  | false => rfl
  | true => simp only [lrun] at h; rw [bad_sticky tr _ hb] at h; cases h

structure LInv (l : LSt) : Prop where
  ok : ∀ g ∈ l.cur.toList ++ l.done, logOk g = true

theorem linv_init : LInv LSt.init := ⟨by simp [LSt.init]⟩

theorem flatMap_oks_map_noteLose (gs : List ConnLog) (os : List Ob) :
    (gs.map (fun g => noteLose g os)).flatMap (·.oks) = gs.flatMap (·.oks) := by
  induction gs with
  | nil => rfl
  | cons g gs ih =>
    simp only [List.map_cons, List.flatMap_cons, ih]
    rfl

/-- one good step: the logs stay in order, and every `ok` firing of the step is appended to the logs -/
theorem lstep_good (l : LSt) (e : Ev) (os : List Ob) (h : LInv l) (hb : (lstep l (e, os)).bad = false) :
    LInv (lstep l (e, os)) ∧
    (allLogs (lstep l (e, os))).flatMap (·.oks) = (allLogs l).flatMap (·.oks) ++ okFires os := by
  have hnil : ∀ {b : Bool}, (b || !(okFires os).isEmpty) = false → okFires os = [] := by
    intro b hb'
    simp only [Bool.or_eq_false_iff, Bool.not_eq_eq_eq_not, Bool.not_false, List.isEmpty_iff] at hb'
    exact hb'.2
  have same : ∀ l' : LSt, l'.done = l.done → l'.cur = l.cur → okFires os = [] →
      LInv l' ∧ (allLogs l').flatMap (·.oks) = (allLogs l).flatMap (·.oks) ++ okFires os := by
    intro l' h1 h2 h3
    refine ⟨⟨by rw [h1, h2]; exact h.ok⟩, ?_⟩
    simp [allLogs, h1, h2, h3]
  have noted : ∀ l' : LSt, l'.done = l.done → l'.cur = l.cur.map (fun g => noteLose g os) → okFires os = [] →
      LInv l' ∧ (allLogs l').flatMap (·.oks) = (allLogs l).flatMap (·.oks) ++ okFires os := by
    intro l' h1 h2 h3
    constructor
    · constructor
      intro g hgm
      rw [h1, h2] at hgm
      rcases List.mem_append.mp hgm with hgm | hgm
      · cases hc : l.cur with
        | none => simp [hc] at hgm
        | some g0 =>
          simp only [hc, Option.map_some, Option.toList_some, List.mem_singleton] at hgm; subst hgm
          exact logOk_noteLose g0 os (h.ok g0 (by simp [hc]))
      · exact h.ok g (List.mem_append_right _ hgm)
    · cases hc : l.cur with
      | none => simp [allLogs, h1, h2, hc, h3]
      | some g0 => simp [allLogs, h1, h2, hc, h3, noteLose]
  have closing : ∀ l' : LSt, l'.done = l.cur.toList ++ l.done → okFires os = [] →
      (∀ g, l'.cur = some g → logOk g = true ∧ g.oks = []) →
      LInv l' ∧ (allLogs l').flatMap (·.oks) = (allLogs l).flatMap (·.oks) ++ okFires os := by
    intro l' h1 h3 h4
    constructor
    · constructor
      intro g hgm
      rcases List.mem_append.mp hgm with hgm | hgm
      · cases hc : l'.cur with
        | none => simp [hc] at hgm
        | some g0 =>
          simp only [hc, Option.toList_some, List.mem_singleton] at hgm; subst hgm
          exact (h4 g hc).1
      · rw [h1] at hgm; exact h.ok g hgm
    · cases hc : l'.cur with
      | none => simp [allLogs, h1, hc, h3]
      | some g0 => simp [allLogs, h1, hc, h3, (h4 g0 hc).2]
  cases e with
  | make id ex => simp only [lstep] at hb ⊢; exact same _ rfl rfl (hnil hb)
  | cancel id => simp only [lstep] at hb ⊢; exact same _ rfl rfl (hnil hb)
  | connFail => simp only [lstep] at hb ⊢; exact same _ rfl rfl (hnil hb)
  | advance dt => simp only [lstep] at hb ⊢; exact same _ rfl rfl (hnil hb)
  | updateMetadata a b => simp only [lstep] at hb ⊢; exact same _ rfl rfl (hnil hb)
  | writeFail b => simp only [lstep] at hb ⊢; exact same _ rfl rfl (hnil hb)
  | disconnect => simp only [lstep] at hb ⊢; exact noted _ rfl rfl (hnil hb)
  | close =>
    simp only [lstep] at hb ⊢
    split at hb
    · rename_i ha; simp only [ha, if_true]; exact same _ rfl rfl (hnil hb)
    · rename_i ha; simp only [ha, if_false]; exact noted _ rfl rfl (hnil hb)
  | lost =>
    simp only [lstep] at hb ⊢
    split at hb
    · rename_i ha; simp only [ha, if_true]; exact same _ rfl rfl (hnil hb)
    · rename_i ha; simp only [ha, if_false]; exact closing _ rfl (hnil hb) (by intro g hg; simp at hg)
  | connOk =>
    simp only [lstep] at hb ⊢
    split at hb
    · rename_i ha; simp only [ha, if_true]; exact same _ rfl rfl (hnil hb)
    · rename_i ha
      simp only [ha, if_false]
      refine closing _ rfl (hnil hb) ?_
      intro g hg
      have hg' := (Option.some.inj hg).symm
      subst hg'
      exact ⟨by simp [logOk, parseAll_nil], rfl⟩
  | bytesIn chunk =>
    simp only [lstep] at hb ⊢
    split at hb
    · rename_i ha; simp only [ha, if_true]; exact same _ rfl rfl (hnil hb)
    · rename_i ha
      simp only [ha, if_false]
      cases hc : l.cur with
      | none => simp [hc] at hb
      | some g =>
        simp only [hc] at hb ⊢
        have hck : chunkOk g chunk os = true := by
          simp only [Bool.or_eq_false_iff, Bool.not_eq_eq_eq_not, Bool.not_false] at hb
          exact hb.2
        have hgl := (logOk_iff g).mp (h.ok g (by simp [hc]))
        simp only [chunkOk, Bool.and_eq_true, Bool.or_eq_true, List.all_eq_true, List.contains_iff_mem, beq_iff_eq,
          Bool.not_eq_eq_eq_not, Bool.not_true] at hck
        obtain ⟨⟨hd, hall⟩, hexc⟩ := hck
        constructor
        · constructor
          intro g1 hg1
          rcases List.mem_append.mp hg1 with hg1 | hg1
          · have hg1' : g1 = _ := List.mem_singleton.mp hg1
            subst hg1'
            rw [logOk_iff]
            constructor
            · intro x hx
              simp only [noteLose, List.mem_append] at hx ⊢
              rcases hx with hx | hx
              · exact ⟨frames_mono g.bytes chunk _ (hgl.1 x hx).1, (hgl.1 x hx).2⟩
              · exact ⟨List.mem_of_mem_drop (hall x hx).1, (hall x hx).2⟩
            · intro hex
              simp only [noteLose] at hex ⊢
              rcases hexc with (hexc | hexc) | hexc
              · rw [hex] at hexc; cases hexc
              · simp [hexc]
              · simp [hexc]
          · exact h.ok g1 (by rw [hc]; exact List.mem_append_right _ hg1)
        · simp [allLogs, hc, noteLose, List.flatMap_append]

theorem lrun_good (tr : List (Ev × List Ob)) : ∀ l : LSt, LInv l → (lrun l tr).bad = false →
    LInv (lrun l tr) ∧
    (allLogs (lrun l tr)).flatMap (·.oks) = (allLogs l).flatMap (·.oks) ++ tr.flatMap (fun t => okFires t.2) := by
  induction tr with
  | nil => intro l h _; exact ⟨h, by simp [lrun]⟩
  | cons t ts ih =>
    intro l h hb
    have hb1 := good_step_of_run ts l t hb
    obtain ⟨k1, k2⟩ := lstep_good l t.1 t.2 h hb1
    obtain ⟨j1, j2⟩ := ih _ k1 (by simpa [lrun] using hb)
    refine ⟨by simpa [lrun] using j1, ?_⟩
    simp only [lrun, List.flatMap_cons]
    rw [j2, k2, List.append_assoc]

/-- `bytesOk`, spelled out, for any trace whatsoever -/
theorem bytesOk_meaning (tr : List (Ev × List Ob)) (h : bytesOk tr = true) :
    tr.flatMap (fun t => okFires t.2) = (connLogs tr).flatMap (·.oks) ∧
    ∀ g ∈ connLogs tr,
      (∀ x ∈ g.oks, x.2.2 ∈ (parseAll g.bytes).frames ∧ corrId x.2.2 = some x.2.1) ∧
      ((parseAll g.bytes).exceeded = true → g.dropped = true) := by
  have hb : (lrun LSt.init tr).bad = false := by simpa [bytesOk] using h
  obtain ⟨k1, k2⟩ := lrun_good tr LSt.init linv_init hb
  constructor
  · have : (allLogs LSt.init).flatMap (·.oks) = [] := by simp [allLogs, LSt.init]
    rw [this, List.nil_append] at k2
    exact k2.symm
  · intro g hg
    have : g ∈ (lrun LSt.init tr).cur.toList ++ (lrun LSt.init tr).done := by
      simp only [connLogs, List.mem_reverse] at hg
      exact hg
    exact (logOk_iff g).mp (k1.ok g this)

theorem lrun_append (a : List (Ev × List Ob)) : ∀ (l : LSt) (b : List (Ev × List Ob)), lrun l (a ++ b) = lrun (lrun l a) b := by
  induction a with
  | nil => intro l b; rfl
  | cons t ts ih => intro l b; simp only [List.cons_append, lrun]; exact ih _ b

/-- `bytesOk`, step by step, for any trace: an `ok` firing happens only in a `dataReceived` step of a live connection,
    with a packet THIS call completed (`newFrames` of the connection's bytes before the call and the chunk) -/
theorem bytesOk_at (pre post : List (Ev × List Ob)) (e : Ev) (os : List Ob)
    (h : bytesOk (pre ++ (e, os) :: post) = true) (x : Nat × Int × Bytes) (hx : x ∈ okFires os) :
    ∃ chunk g, e = .bytesIn chunk ∧ (lrun LSt.init pre).cur = some g ∧ g.dropped = false ∧
      x.2.2 ∈ newFrames g.bytes chunk ∧ corrId x.2.2 = some x.2.1 := by
  have hb : (lrun LSt.init (pre ++ (e, os) :: post)).bad = false := by simpa [bytesOk] using h
  rw [lrun_append] at hb
  have hs := good_step_of_run post (lrun LSt.init pre) (e, os) hb
  generalize lrun LSt.init pre = l at hs
  have hne : okFires os ≠ [] := by intro h0; rw [h0] at hx; cases hx
  have hcontra : ∀ {b : Bool}, (b || !(okFires os).isEmpty) = false → False := by
    intro b hb'
    simp only [Bool.or_eq_false_iff, Bool.not_eq_eq_eq_not, Bool.not_false, List.isEmpty_iff] at hb'
    exact hne hb'.2
  cases e with
  | bytesIn chunk =>
    simp only [lstep] at hs
    split at hs
    · exact (hcontra hs).elim
    · cases hc : l.cur with
      | none => simp [hc] at hs
      | some g =>
        simp only [hc, Bool.or_eq_false_iff, Bool.not_eq_eq_eq_not, Bool.not_false] at hs
        have hck := hs.2
        simp only [chunkOk, Bool.and_eq_true, Bool.or_eq_true, List.all_eq_true, List.contains_iff_mem, beq_iff_eq,
          Bool.not_eq_eq_eq_not, Bool.not_true] at hck
        exact ⟨chunk, g, rfl, rfl, hck.1.1, (hck.1.2 x hx).1, (hck.1.2 x hx).2⟩
  | connOk => simp only [lstep] at hs; split at hs <;> exact (hcontra hs).elim
  | lost => simp only [lstep] at hs; split at hs <;> exact (hcontra hs).elim
  | close => simp only [lstep] at hs; split at hs <;> exact (hcontra hs).elim
  | make id ex => exact (hcontra hs).elim
  | cancel id => exact (hcontra hs).elim
  | connFail => exact (hcontra hs).elim
  | advance dt => exact (hcontra hs).elim
  | disconnect => exact (hcontra hs).elim
  | updateMetadata a b => exact (hcontra hs).elim
  | writeFail b => exact (hcontra hs).elim

end Afkak.BrokerClientBytes
