import Afkak.BrokerClient
/-!
# The reachable-state invariant of the broker-client model (`Afkak/BrokerClient.lean`)

`SInv` collects every fact about reachable states; `sinv_step` proves that every event preserves it
(so the theorems quantify over ALL event lists: a non-enabled event is a no-op).
-/
namespace Afkak.BrokerClient
open Afkak.Frame

structure SInv (s : St) : Prop where
  ids : s.reqs.Pairwise (fun a b => a.id ≠ b.id)
  serials : s.reqs.Pairwise (fun a b => a.serial < b.serial)
  serialLt : ∀ r ∈ s.reqs, r.serial < s.nmake
  cancSent : ∀ r ∈ s.reqs, r.cancelled = true → r.sent = true
  sentExpect : ∀ r ∈ s.reqs, r.sent = true → r.expect = true
  discUnsent : s.proto = none → ∀ r ∈ s.reqs, r.sent = false
  connSent : s.proto ≠ none → ∀ r ∈ s.reqs, r.sent = true
  connConnector : s.proto ≠ none → s.connector = .none
  closedEmpty : s.closed = true → s.reqs = []
  closedConnector : s.closed = true → s.connector = .none ∨ s.connector = .stale
  staleClosed : s.connector = .stale → s.closed = true
  idleEmpty : s.proto = none → s.connector = .none → s.closed = false → s.reqs = []
  protoLt : ∀ c, s.proto = some c → c < s.nconn
  losingConn : s.losing = true → s.proto ≠ none
  rbufConn : s.rbuf ≠ [] → s.proto ≠ none
  closedLosing : s.closed = true → s.proto ≠ none → s.losing = true

theorem sinv_updateMetadata (cfg : Cfg) (s : St) (h : SInv s) (a b : Nat) : SInv (step cfg s (.updateMetadata a b)).1 := by
  simp only [step]
  constructor <;> grind [SInv, List.Pairwise.nil]

theorem sinv_writeFail (cfg : Cfg) (s : St) (h : SInv s) (b : Bool) : SInv (step cfg s (.writeFail b)).1 := by
  simp only [step]
  constructor <;> grind [SInv, List.Pairwise.nil]

theorem sinv_disconnect (cfg : Cfg) (s : St) (h : SInv s) : SInv (step cfg s .disconnect).1 := by
  simp only [step]
  split <;> constructor <;> grind [SInv, List.Pairwise.nil]

theorem sinv_advance (cfg : Cfg) (s : St) (h : SInv s) (dt : Rat) : SInv (step cfg s (.advance dt)).1 := by
  simp only [step, tryConnect]
  split
  · exact h
  · split <;> (try split) <;> constructor <;> grind [SInv, List.Pairwise.nil]

theorem sinv_connFail (cfg : Cfg) (s : St) (h : SInv s) : SInv (step cfg s .connFail).1 := by
  simp only [step]
  split
  · split
    · exact h
    · constructor <;> grind [SInv, List.Pairwise.nil]
  · exact h
theorem pw_fm {R : Req → Req → Prop} (l : List Req) (p : Req → Bool) (f : Req → Req)
    (hf : ∀ a b, R a b → R (f a) (f b)) (h : l.Pairwise R) : ((l.filter p).map f).Pairwise R :=
  (h.filter p).map f hf

theorem sinv_lostStep (s : St) (h : SInv s) : SInv (lostStep s).1 := by
  simp only [lostStep, connect_, tryConnect]
  have h1 := pw_fm (R := fun a b => a.id ≠ b.id) s.reqs (fun r => !r.cancelled) (fun r => { r with sent := false }) (by grind) h.ids
  have h2 := pw_fm (R := fun a b => a.serial < b.serial) s.reqs (fun r => !r.cancelled) (fun r => { r with sent := false }) (by grind) h.serials
  split <;> (try split) <;> constructor <;> grind [SInv, List.Pairwise.nil]

theorem sinv_close (cfg : Cfg) (s : St) (h : SInv s) : SInv (step cfg s .close).1 := by
  simp only [step]
  split
  · exact h
  · split
    · constructor <;> grind [SInv, List.Pairwise.nil]
    · split <;> constructor <;> grind [SInv, List.Pairwise.nil]

theorem sinv_lost (cfg : Cfg) (s : St) (h : SInv s) : SInv (step cfg s .lost).1 := by
  simp only [step]
  split
  · exact h
  · exact sinv_lostStep s h

theorem sinv_cancel (cfg : Cfg) (s : St) (h : SInv s) (id : Int) : SInv (step cfg s (.cancel id)).1 := by
  simp only [step]
  split
  · have h1 := pw_fm (R := fun a b => a.id ≠ b.id) s.reqs (fun r => r.id != id || r.sent) (fun r => if r.id == id then { r with cancelled := true } else r) (by grind) h.ids
    have h2 := pw_fm (R := fun a b => a.serial < b.serial) s.reqs (fun r => r.id != id || r.sent) (fun r => if r.id == id then { r with cancelled := true } else r) (by grind) h.serials
    constructor <;> grind [SInv, List.Pairwise.nil]
  · exact h

theorem sinv_connOk (cfg : Cfg) (s : St) (h : SInv s) : SInv (step cfg s .connOk).1 := by
  simp only [step, sendQueued, keepAfterSend]
  have h1 := pw_fm (R := fun a b => a.id ≠ b.id) s.reqs (fun r => r.sent || (r.expect && !s.wfail)) (fun r => { r with sent := true }) (by grind) h.ids
  have h2 := pw_fm (R := fun a b => a.serial < b.serial) s.reqs (fun r => r.sent || (r.expect && !s.wfail)) (fun r => { r with sent := true }) (by grind) h.serials
  split
  · split <;> constructor <;> grind [SInv, List.Pairwise.nil]
  · exact h

theorem sinv_make (cfg : Cfg) (s : St) (h : SInv s) (id : Int) (ex : Bool) : SInv (step cfg s (.make id ex)).1 := by
  simp only [step, connect_, tryConnect, keepAfterSend]
  split
  · exact h
  · split
    · constructor <;> grind [SInv, List.Pairwise.nil]
    · split
      · constructor <;> grind [SInv, List.Pairwise.nil]
      · split <;> constructor <;> grind [SInv, List.Pairwise.nil]

theorem handleResponse_frame (s : St) (id : Int) (f : Bytes) :
    (handleResponse s id f).1 = { s with reqs := s.reqs.filter (fun r => r.id != id) } := rfl

theorem handleFrames_frame (s : St) (fs : List Bytes) :
    (handleFrames s fs).1 = { s with reqs := (handleFrames s fs).1.reqs } := by
  induction fs generalizing s with
  | nil => simp [handleFrames]
  | cons f fs ih =>
    simp only [handleFrames]
    split
    · rfl
    · rw [ih]; simp [handleResponse]

theorem sinv_filter (s : St) (p : Req → Bool) (h : SInv s) : SInv { s with reqs := s.reqs.filter p } := by
  have h1 := h.ids.filter p
  have h2 := h.serials.filter p
  constructor <;> grind [SInv, List.Pairwise.nil]

theorem sinv_handleFrames (s : St) (fs : List Bytes) (h : SInv s) : SInv (handleFrames s fs).1 := by
  induction fs generalizing s with
  | nil => simpa [handleFrames] using h
  | cons f fs ih =>
    simp only [handleFrames]
    split
    · exact h
    · exact ih _ (sinv_filter s _ h)

theorem sinv_bytesIn (cfg : Cfg) (s : St) (h : SInv s) (chunk : Bytes) : SInv (step cfg s (.bytesIn chunk)).1 := by
  simp only [step]
  split
  · exact h
  · split
    · exact h
    · have hf := handleFrames_frame s (feed s.rbuf chunk).frames
      have hi := sinv_handleFrames s (feed s.rbuf chunk).frames h
      split
      · exact sinv_lostStep _ hi
      · split
        · rw [hf] at hi ⊢
          constructor <;> grind [SInv, List.Pairwise.nil]
        · rw [hf] at hi ⊢
          constructor <;> grind [SInv, List.Pairwise.nil]

theorem sinv_step (cfg : Cfg) (s : St) (e : Ev) (h : SInv s) : SInv (step cfg s e).1 := by
  cases e with
  | make id ex => exact sinv_make cfg s h id ex
  | cancel id => exact sinv_cancel cfg s h id
  | connOk => exact sinv_connOk cfg s h
  | connFail => exact sinv_connFail cfg s h
  | advance dt => exact sinv_advance cfg s h dt
  | bytesIn c => exact sinv_bytesIn cfg s h c
  | lost => exact sinv_lost cfg s h
  | close => exact sinv_close cfg s h
  | disconnect => exact sinv_disconnect cfg s h
  | updateMetadata a b => exact sinv_updateMetadata cfg s h a b
  | writeFail b => exact sinv_writeFail cfg s h b

theorem sinv_init (a b : Nat) : SInv (St.init a b) := by
  constructor <;> simp [St.init]

theorem sinv_run (cfg : Cfg) (s : St) (es : List Ev) (h : SInv s) : SInv (run cfg s es) := by
  induction es generalizing s with
  | nil => exact h
  | cons e es ih => exact ih _ (sinv_step cfg s e h)

end Afkak.BrokerClient
