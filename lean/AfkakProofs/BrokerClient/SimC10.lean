import Afkak.Monitor.C10
import AfkakProofs.BrokerClient.Inv
/-!
# The broker-client model satisfies the C10 monitor

`abs10` maps a model state to the monitor state of `Monitor/C10.lean`; `sim10_step` shows that every step of
the model (any event, any retry policy) is accepted by `Monitor.C10.mstep` and lands in the abstraction of
the next state.
-/
namespace Afkak.BrokerClient
open Afkak.Frame Afkak.Monitor.C10

def absPend (reqs : List Req) : List (Nat × Int) := (reqs.filter (fun r => !r.cancelled)).map (fun r => (r.serial, r.id))

def abs10 (s : St) : MSt :=
  { pend := absPend s.reqs, nmake := s.nmake, conn := s.proto, nconn := s.nconn, losing := s.losing,
    attempt := s.connector == .attempt,
    timer := (match s.connector with | .backoff d => some d | _ => none),
    now := s.now, failures := s.failures, closed := s.closed, host := s.host, port := s.port, wfail := s.wfail }

theorem abs10_init (a b : Nat) : abs10 (St.init a b) = MSt.init a b := rfl

/-! projections of observation lists -/
theorem writes_append (a b : List Ob) : writes (a ++ b) = writes a ++ writes b := by
  induction a with
  | nil => rfl
  | cons o a ih => cases o <;> simp_all [writes]
theorem connects_append (a b : List Ob) : connects (a ++ b) = connects a ++ connects b := by
  induction a with
  | nil => rfl
  | cons o a ih => cases o <;> simp_all [connects]
theorem timers_append (a b : List Ob) : timers (a ++ b) = timers a ++ timers b := by
  induction a with
  | nil => rfl
  | cons o a ih => cases o <;> simp_all [timers]
theorem fired_append (a b : List Ob) : fired (a ++ b) = fired a ++ fired b := by
  induction a with
  | nil => rfl
  | cons o a ih => cases o <;> simp_all [fired]

theorem proj_map_fire {α} (l : List α) (f : α → Nat) (g : α → Int) (h : α → Res) :
    writes (l.map (fun r => Ob.fire (f r) (g r) (h r))) = [] ∧
    connects (l.map (fun r => Ob.fire (f r) (g r) (h r))) = [] ∧
    timers (l.map (fun r => Ob.fire (f r) (g r) (h r))) = [] ∧
    fired (l.map (fun r => Ob.fire (f r) (g r) (h r))) = l.map f := by
  induction l with
  | nil => simp [writes, connects, timers, fired]
  | cons a l ih => simp [writes, connects, timers, fired, ih]

theorem unfire_nil (p : List (Nat × Int)) (os : List Ob) (h : fired os = []) : unfire p os = p := by
  simp [unfire, h]

theorem unfire_append (p : List (Nat × Int)) (a b : List Ob) : unfire p (a ++ b) = unfire (unfire p a) b := by
  simp only [unfire, fired_append, List.filter_filter]
  apply List.filter_congr
  intro x _
  simp only [List.contains_append, Bool.not_or, Bool.and_comm]

theorem sim10_simple (cfg : Cfg) (s : St) (h : SInv s) :
    (∀ a b, mstep cfg.policy (abs10 s) (.updateMetadata a b, (step cfg s (.updateMetadata a b)).2) = some (abs10 (step cfg s (.updateMetadata a b)).1)) ∧
    (∀ b, mstep cfg.policy (abs10 s) (.writeFail b, (step cfg s (.writeFail b)).2) = some (abs10 (step cfg s (.writeFail b)).1)) ∧
    (mstep cfg.policy (abs10 s) (.disconnect, (step cfg s .disconnect).2) = some (abs10 (step cfg s .disconnect).1)) := by
  refine ⟨?_, ?_, ?_⟩
  · intro a b; simp [step, mstep, abs10, quiet, writes, connects, timers]
  · intro b; simp [step, mstep, abs10, quiet, writes, connects, timers]
  · simp only [step]; split <;> simp_all [mstep, abs10, quiet, writes, connects, timers]

theorem sim10_connFail (cfg : Cfg) (s : St) (h : SInv s) :
    mstep cfg.policy (abs10 s) (.connFail, (step cfg s .connFail).2) = some (abs10 (step cfg s .connFail).1) := by
  simp only [step]
  split
  · rename_i hatt
    have hcl : s.closed = false := by
      cases hc : s.closed
      · rfl
      · have := h.closedConnector hc; simp_all
    simp [hcl, mstep, abs10, hatt, quiet, writes, connects, timers]
  · rename_i hatt
    simp [mstep, abs10, quiet, writes, connects, timers]

theorem sim10_advance (cfg : Cfg) (s : St) (h : SInv s) (dt : Rat) :
    mstep cfg.policy (abs10 s) (.advance dt, (step cfg s (.advance dt)).2) = some (abs10 (step cfg s (.advance dt)).1) := by
  simp only [step, tryConnect]
  split
  · simp [mstep, abs10, quiet, writes, connects, timers]
  · split
    · rename_i due hco
      have hcl : s.closed = false := by
        cases hc : s.closed
        · rfl
        · have := h.closedConnector hc; simp_all
      split <;> simp_all [mstep, abs10, quiet, writes, connects, timers]
    · rename_i hco
      cases hcc : s.connector <;> simp_all [mstep, abs10, quiet, writes, connects, timers]


theorem absPend_lost (reqs : List Req) :
    absPend ((reqs.filter (fun r => !r.cancelled)).map (fun r => { r with sent := false })) = absPend reqs := by
  induction reqs with
  | nil => rfl
  | cons r rs ih =>
    simp only [absPend] at ih ⊢
    by_cases hc : r.cancelled <;> simp_all

theorem absPend_isEmpty (reqs : List Req) :
    ((reqs.filter (fun r => !r.cancelled)).map (fun r => { r with sent := false })).isEmpty = (absPend reqs).isEmpty := by
  simp [absPend, List.isEmpty_iff]

/-- `_connectionLost` is what `afterLoss` demands. -/
theorem sim10_lostStep (s : St) (h : SInv s) (c : Nat) (hp : s.proto = some c) (m : MSt) (os0 : List Ob)
    (hm : m = abs10 s) :
    afterLoss m (absPend s.reqs) (lostStep s).2 = some (abs10 (lostStep s).1) := by
  subst hm
  have hco : s.connector = .none := h.connConnector (by simp [hp])
  have hE := absPend_isEmpty s.reqs
  simp only [lostStep, afterLoss, connect_, tryConnect]
  by_cases hcl : s.closed = true
  · simp [hcl, abs10, connects, absPend_lost, hco]
  · have hcl' : s.closed = false := by simpa using hcl
    by_cases he : ((s.reqs.filter (fun r => !r.cancelled)).map (fun r => { r with sent := false })).isEmpty = true
    · have he' : (absPend s.reqs).isEmpty = true := by rw [← hE]; exact he
      simp only [hcl', he, he']
      simp [abs10, connects, absPend_lost, hco, hcl']
    · have he' : (absPend s.reqs).isEmpty = false := by rw [← hE]; simpa using he
      have he2 : ((s.reqs.filter (fun r => !r.cancelled)).map (fun r => { r with sent := false })).isEmpty = false := by simpa using he
      simp only [hcl', he2, he']
      simp [abs10, connects, absPend_lost, hcl', hco]

theorem lostStep_quiet (s : St) : writes (lostStep s).2 = [] ∧ timers (lostStep s).2 = [] ∧ fired (lostStep s).2 = [] ∧
    (lostStep s).2.contains .badOp = false := by
  simp only [lostStep, connect_, tryConnect]
  split <;> (try split) <;> simp [writes, timers, fired]

theorem sim10_lost (cfg : Cfg) (s : St) (h : SInv s) :
    mstep cfg.policy (abs10 s) (.lost, (step cfg s .lost).2) = some (abs10 (step cfg s .lost).1) := by
  simp only [step]
  split
  · simp [mstep, quiet, writes, connects, timers]
  · rename_i c hp
    obtain ⟨q1, q2, q3, q4⟩ := lostStep_quiet s
    have := sim10_lostStep s h c hp (abs10 s) [] rfl
    simp only [mstep, q1, q2, q4, unfire_nil _ _ q3]
    simp [abs10, hp] at this ⊢
    exact this


theorem absPend_nil : absPend [] = [] := rfl

theorem contains_false_of' {o : Ob} {os : List Ob} (h : ∀ x ∈ os, x ≠ o) : os.contains o = false := by
  rw [Bool.eq_false_iff]
  intro hc
  rw [List.contains_iff_mem] at hc
  exact h _ hc rfl

theorem sim10_close (cfg : Cfg) (s : St) (h : SInv s) :
    mstep cfg.policy (abs10 s) (.close, (step cfg s .close).2) = some (abs10 (step cfg s .close).1) := by
  simp only [step]
  split
  · simp [mstep, quiet, writes, connects, timers]
  · rename_i hcl
    have hcl' : s.closed = false := by simpa using hcl
    -- the firings
    generalize hF : ((if Afkak.Consts.closePopLast then s.reqs.reverse else s.reqs).filter (fun r => !r.cancelled)).map
        (fun r => Ob.fire r.serial r.id (.err .clientError)) = F
    obtain ⟨f1, f2, f3, f4⟩ := proj_map_fire ((if Afkak.Consts.closePopLast then s.reqs.reverse else s.reqs).filter (fun r => !r.cancelled))
      (fun r => r.serial) (fun r => r.id) (fun _ => Res.err .clientError)
    rw [hF] at f1 f2 f3 f4
    have hall : ∀ (pre post : List Ob), (absPend s.reqs).all (fun p => (fired (pre ++ F ++ post)).contains p.1) = true := by
      intro pre post
      rw [List.all_eq_true]
      intro p hp
      simp only [absPend, List.mem_map, List.mem_filter] at hp
      obtain ⟨r, ⟨hr, hc⟩, rfl⟩ := hp
      rw [List.contains_iff_mem, fired_append, fired_append, f4]
      apply List.mem_append.mpr; left; apply List.mem_append.mpr; right
      simp only [List.mem_map, List.mem_filter]
      refine ⟨r, ⟨?_, hc⟩, rfl⟩
      split <;> simp [hr]
    have hnF : ∀ o, (∀ k i r, o ≠ Ob.fire k i r) → ∀ x ∈ F, x ≠ o := by
      intro o ho x hx hxo
      rw [← hF] at hx
      obtain ⟨r, _, rfl⟩ := List.mem_map.mp hx
      exact ho _ _ _ hxo.symm
    split
    · rename_i c hp
      have hco : s.connector = .none := h.connConnector (by simp [hp])
      have hall' := hall [.lose c] []
      simp only [List.append_nil, List.singleton_append] at hall'
      have hna : (Ob.lose c :: F).contains .raiseAssert = false := contains_false_of' (by
        intro x hx; rcases List.mem_cons.mp hx with rfl | hx
        · simp
        · exact hnF _ (by simp) x hx)
      have hnd : (Ob.lose c :: F).contains .down = false := contains_false_of' (by
        intro x hx; rcases List.mem_cons.mp hx with rfl | hx
        · simp
        · exact hnF _ (by simp) x hx)
      have hq : quiet (Ob.lose c :: F) = true := by simp [quiet, writes, connects, timers, f1, f2, f3]
      simp only [mstep, hna, hq, hnd]
      simp only [abs10, hall']
      simp [hp, hco, absPend_nil]
    · rename_i hp
      have hl : s.losing = false := by
        cases hl : s.losing
        · rfl
        · exact absurd hp (h.losingConn hl)
      cases hcc : s.connector with
      | attempt =>
        have hall' := hall [.cancelConnect] [.down]
        simp only [List.singleton_append] at hall'
        have hna : (Ob.cancelConnect :: (F ++ [.down])).contains .raiseAssert = false := contains_false_of' (by
          intro x hx; rcases List.mem_cons.mp hx with rfl | hx
          · simp
          · rcases List.mem_append.mp hx with hx | hx
            · exact hnF _ (by simp) x hx
            · simp_all)
        have hq : quiet (Ob.cancelConnect :: (F ++ [.down])) = true := by
          simp [quiet, writes, connects, timers, writes_append, connects_append, timers_append, f1, f2, f3]
        simp only [hcc, mstep, hna, hq]
        have hnm : Ob.raiseAssert ∉ F := fun hx => hnF _ (by simp) _ hx rfl
        simp only [abs10, hall']
        simp [hp, hcc, absPend_nil, hnm, hq]
      | backoff d =>
        have hall' := hall [.cancelTimer] [.down]
        simp only [List.singleton_append] at hall'
        have hna : (Ob.cancelTimer :: (F ++ [.down])).contains .raiseAssert = false := contains_false_of' (by
          intro x hx; rcases List.mem_cons.mp hx with rfl | hx
          · simp
          · rcases List.mem_append.mp hx with hx | hx
            · exact hnF _ (by simp) x hx
            · simp_all)
        have hq : quiet (Ob.cancelTimer :: (F ++ [.down])) = true := by
          simp [quiet, writes, connects, timers, writes_append, connects_append, timers_append, f1, f2, f3]
        simp only [hcc, mstep, hna, hq]
        have hnm : Ob.raiseAssert ∉ F := fun hx => hnF _ (by simp) _ hx rfl
        simp only [abs10, hall']
        simp [hp, hcc, absPend_nil, hnm, hq]
      | none =>
        have hall' := hall [] [Ob.down]
        simp only [List.nil_append] at hall'
        have hna : (F ++ [Ob.down]).contains Ob.raiseAssert = false := contains_false_of' (by
          intro x hx
          rcases List.mem_append.mp hx with hx | hx
          · exact hnF _ (by simp) x hx
          · simp_all)
        have hq : quiet (F ++ [Ob.down]) = true := by
          simp [quiet, writes, connects, timers, writes_append, connects_append, timers_append, f1, f2, f3]
        simp only [hcc, mstep, hna, hq]
        have hnm : Ob.raiseAssert ∉ F := fun hx => hnF _ (by simp) _ hx rfl
        simp only [abs10, hall']
        simp [hp, hcc, absPend_nil, hnm, hq]
      | stale =>
        have := h.staleClosed hcc
        simp_all


theorem serial_inj10 (reqs : List Req) (hpw : reqs.Pairwise (fun a b => a.serial < b.serial)) :
    ∀ r ∈ reqs, ∀ r' ∈ reqs, r.serial = r'.serial → r = r' := by
  induction reqs with
  | nil => simp
  | cons a l ih =>
    rw [List.pairwise_cons] at hpw
    intro r hr r' hr' he
    simp only [List.mem_cons] at hr hr'
    rcases hr with rfl | hr <;> rcases hr' with rfl | hr'
    · rfl
    · have := hpw.1 r' hr'; omega
    · have := hpw.1 r hr; omega
    · exact ih hpw.2 r hr r' hr' he

/-- Removing from `pend` the serials of the live entries satisfying `q` leaves the live entries not satisfying it. -/
theorem unfire_filter (reqs : List Req) (hpw : reqs.Pairwise (fun a b => a.serial < b.serial)) (q : Req → Bool)
    (os : List Ob) (hf : fired os = (reqs.filter (fun r => q r && !r.cancelled)).map (·.serial)) :
    unfire (absPend reqs) os = absPend (reqs.filter (fun r => !q r || r.cancelled)) := by
  simp only [unfire, absPend, hf, List.filter_map, List.filter_filter]
  congr 1
  apply List.filter_congr
  intro r hr
  simp only [Function.comp_def]
  by_cases hc : r.cancelled = true
  · simp [hc]
  · have hc' : r.cancelled = false := by simpa using hc
    simp only [hc', Bool.not_false, Bool.and_true, Bool.or_false, Bool.true_and]
    by_cases hq : q r = true
    · simp only [hq, Bool.not_true, Bool.not_eq_eq_eq_not, Bool.not_false]
      rw [List.contains_iff_mem]
      exact List.mem_map.mpr ⟨r, List.mem_filter.mpr ⟨hr, by simp [hq, hc']⟩, rfl⟩
    · have hq' : q r = false := by simpa using hq
      simp only [hq', Bool.not_false, Bool.not_eq_eq_eq_not, Bool.not_true]
      rw [Bool.eq_false_iff]
      intro hm
      rw [List.contains_iff_mem] at hm
      obtain ⟨r', hr', hs⟩ := List.mem_map.mp hm
      have hr'' := List.mem_filter.mp hr'
      have := serial_inj10 reqs hpw r' hr''.1 r hr hs
      subst this
      simp_all

theorem absPend_cancel (reqs : List Req) (id : Int) :
    absPend ((reqs.filter (fun r => r.id != id || r.sent)).map (fun r => if r.id == id then { r with cancelled := true } else r))
      = absPend (reqs.filter (fun r => !(r.id == id) || r.cancelled)) := by
  induction reqs with
  | nil => rfl
  | cons r rs ih =>
    simp only [absPend] at ih ⊢
    by_cases hi : r.id = id <;> by_cases hs : r.sent <;> by_cases hc : r.cancelled <;> simp_all

theorem sim10_cancel (cfg : Cfg) (s : St) (h : SInv s) (id : Int) :
    mstep cfg.policy (abs10 s) (.cancel id, (step cfg s (.cancel id)).2) = some (abs10 (step cfg s (.cancel id)).1) := by
  simp only [step]
  split
  · obtain ⟨f1, f2, f3, f4⟩ := proj_map_fire (s.reqs.filter (fun r => r.id == id && !r.cancelled))
      (fun r => r.serial) (fun r => r.id) (fun _ => Res.err .cancelled)
    have hu := unfire_filter s.reqs h.serials (fun r => r.id == id) _ f4
    simp only [mstep, quiet, f1, f2, f3]
    simp only [abs10, hu, absPend_cancel]
    simp
  · simp [mstep, quiet, writes, connects, timers, unfire_nil _ _ (show fired [Ob.badOp] = [] from rfl)]


theorem absPend_append (a b : List Req) : absPend (a ++ b) = absPend a ++ absPend b := by simp [absPend]

theorem unfire_new (pend : List (Nat × Int)) (k : Nat) (id : Int) (os : List Ob) (hf : fired os = [k])
    (hk : ∀ p ∈ pend, p.1 ≠ k) : unfire (pend ++ [(k, id)]) os = pend := by
  simp only [unfire, hf, List.filter_append]
  have h1 : pend.filter (fun p => !([k] : List Nat).contains p.1) = pend := by
    rw [List.filter_eq_self]
    intro p hp
    have := hk p hp
    simp [this]
  rw [h1]
  simp

theorem absPend_one (k : Nat) (i : Int) (e b : Bool) :
    absPend [{ serial := k, id := i, expect := e, sent := b, cancelled := false }] = [(k, i)] := rfl

theorem absPend_serial_lt (s : St) (h : SInv s) : ∀ p ∈ absPend s.reqs, p.1 ≠ s.nmake := by
  intro p hp
  simp only [absPend, List.mem_map, List.mem_filter] at hp
  obtain ⟨r, ⟨hr, _⟩, rfl⟩ := hp
  have := h.serialLt r hr
  simp only; omega

theorem sim10_make (cfg : Cfg) (s : St) (h : SInv s) (id : Int) (ex : Bool) :
    mstep cfg.policy (abs10 s) (.make id ex, (step cfg s (.make id ex)).2) = some (abs10 (step cfg s (.make id ex)).1) := by
  have hnk := absPend_serial_lt s h
  simp only [step]
  split
  · simp [mstep, quiet, writes, connects, timers]
  · split
    · rename_i hcl
      have hu := unfire_new (absPend s.reqs) s.nmake id [Ob.fire s.nmake id (.err .clientError)] rfl hnk
      simp [mstep, quiet, writes, connects, timers, abs10, hcl, hu]
    · rename_i hcl
      have hcl' : s.closed = false := by simpa using hcl
      split
      · rename_i c hp
        simp only [sendObs, keepAfterSend]
        by_cases hw : s.wfail = true
        · have hu := unfire_new (absPend s.reqs) s.nmake id [Ob.fire s.nmake id (.err .writeError)] rfl hnk
          simp [mstep, writes, connects, timers, abs10, hcl', hp, hw, hu]
        · have hw' : s.wfail = false := by simpa using hw
          by_cases hl : s.losing = true <;> cases ex
          · have hu := unfire_new (absPend s.reqs) s.nmake id [Ob.writeLost c s.nmake id, Ob.fire s.nmake id .none] rfl hnk
            simp [mstep, writes, connects, timers, abs10, hcl', hp, hw', hl, hu]
          · have hu := unfire_nil (absPend s.reqs ++ [(s.nmake, id)]) [Ob.writeLost c s.nmake id] rfl
            simp [mstep, writes, connects, timers, abs10, hcl', hp, hw', hl, hu, absPend_append, absPend_one]
          · have hl' : s.losing = false := by simpa using hl
            have hu := unfire_new (absPend s.reqs) s.nmake id [Ob.write c s.nmake id, Ob.fire s.nmake id .none] rfl hnk
            simp [mstep, writes, connects, timers, abs10, hcl', hp, hw', hl', hu]
          · have hl' : s.losing = false := by simpa using hl
            have hu := unfire_nil (absPend s.reqs ++ [(s.nmake, id)]) [Ob.write c s.nmake id] rfl
            simp [mstep, writes, connects, timers, abs10, hcl', hp, hw', hl', hu, absPend_append, absPend_one]
      · rename_i hp
        simp only [connect_, tryConnect]
        cases hcc : s.connector with
        | none =>
          have hu := unfire_nil (absPend s.reqs ++ [(s.nmake, id)]) [Ob.connect s.host s.port] rfl
          simp [mstep, writes, connects, timers, abs10, hcl', hp, hcc, hu, absPend_append, absPend_one]
        | attempt =>
          have hu := unfire_nil (absPend s.reqs ++ [(s.nmake, id)]) [] rfl
          simp [mstep, writes, connects, timers, abs10, hcl', hp, hcc, hu, absPend_append, absPend_one]
        | backoff d =>
          have hu := unfire_nil (absPend s.reqs ++ [(s.nmake, id)]) [] rfl
          simp [mstep, writes, connects, timers, abs10, hcl', hp, hcc, hu, absPend_append, absPend_one]
        | stale =>
          have := h.staleClosed hcc
          simp_all


theorem sendQueued_proj (s1 : St) (c : Nat) (reqs : List Req) (hun : ∀ r ∈ reqs, r.sent = false) (hl : s1.losing = false) :
    writes (reqs.flatMap (fun r => if r.sent then [] else sendObs s1 c r)) =
      (if s1.wfail then [] else reqs.map (fun r => (c, r.serial, r.id, false))) ∧
    connects (reqs.flatMap (fun r => if r.sent then [] else sendObs s1 c r)) = [] ∧
    timers (reqs.flatMap (fun r => if r.sent then [] else sendObs s1 c r)) = [] ∧
    fired (reqs.flatMap (fun r => if r.sent then [] else sendObs s1 c r)) =
      (reqs.filter (fun r => s1.wfail || !r.expect)).map (·.serial) ∧
    (reqs.flatMap (fun r => if r.sent then [] else sendObs s1 c r)).contains .badOp = false := by
  induction reqs with
  | nil => simp [writes, connects, timers, fired]
  | cons r rs ih =>
    have h1 := hun r (by simp)
    obtain ⟨i1, i2, i3, i4, i5⟩ := ih (fun r hr => hun r (by simp [hr]))
    simp only [List.flatMap_cons, writes_append, connects_append, timers_append, fired_append, i1, i2, i3, i4, h1,
      List.contains_append, i5]
    simp only [sendObs, hl]
    by_cases hw : s1.wfail = true <;> cases he : r.expect <;> simp [hw, he, writes, connects, timers, fired]

theorem absPend_all_live (reqs : List Req) (h : ∀ r ∈ reqs, r.cancelled = false) :
    absPend reqs = reqs.map (fun r => (r.serial, r.id)) := by
  simp only [absPend]
  rw [List.filter_eq_self.mpr]
  intro r hr; simp [h r hr]

theorem absPend_sent (reqs : List Req) : absPend (reqs.map (fun r => { r with sent := true })) = absPend reqs := by
  simp [absPend, List.filter_map, Function.comp_def, List.map_map]

theorem sim10_connOk (cfg : Cfg) (s : St) (h : SInv s) :
    mstep cfg.policy (abs10 s) (.connOk, (step cfg s .connOk).2) = some (abs10 (step cfg s .connOk).1) := by
  simp only [step]
  split
  · rename_i hatt
    have hp : s.proto = none := by
      cases hq : s.proto with
      | none => rfl
      | some c => have := h.connConnector (by simp [hq]); simp_all
    have hcl : s.closed = false := by
      cases hc : s.closed
      · rfl
      · have := h.closedConnector hc; simp_all
    have hun : ∀ r ∈ s.reqs, r.sent = false := h.discUnsent hp
    have hunc : ∀ r ∈ s.reqs, r.cancelled = false := by
      intro r hr
      cases hc : r.cancelled
      · rfl
      · have := h.cancSent r hr hc; have := hun r hr; simp_all
    rw [if_neg (by simp [hcl])]
    obtain ⟨q1, q2, q3, q4, q5⟩ := sendQueued_proj
      { s with failures := 0, connector := .none, proto := some s.nconn, nconn := s.nconn + 1, losing := false, rbuf := [] }
      s.nconn s.reqs hun rfl
    have hf : fired (s.reqs.flatMap (fun r => if r.sent then [] else sendObs
        { s with failures := 0, connector := .none, proto := some s.nconn, nconn := s.nconn + 1, losing := false, rbuf := [] } s.nconn r))
        = (s.reqs.filter (fun r => (s.wfail || !r.expect) && !r.cancelled)).map (·.serial) := by
      rw [q4]
      congr 1
      apply List.filter_congr
      intro r hr; simp [hunc r hr]
    have hu := unfire_filter s.reqs h.serials (fun r => s.wfail || !r.expect) _ hf
    simp only [sendQueued, mstep, q1, q2, q3, q5]
    simp only [abs10]
    simp only [hu]
    simp only [hatt, hcl, absPend_sent, keepAfterSend]
    have hpe : absPend s.reqs = s.reqs.map (fun r => (r.serial, r.id)) := absPend_all_live s.reqs hunc
    have hfe : s.reqs.filter (fun r => !(s.wfail || !r.expect) || r.cancelled) = s.reqs.filter (fun r => r.sent || (r.expect && !s.wfail)) := by
      apply List.filter_congr
      intro r hr
      simp only [hun r hr, hunc r hr]
      cases s.wfail <;> cases r.expect <;> rfl
    rw [hfe, hpe]
    by_cases hw : s.wfail = true <;> simp [hw, List.map_map, Function.comp_def]
  · simp [mstep, quiet, writes, connects, timers]


theorem absPend_filter_or_cancelled (reqs : List Req) (q : Req → Bool) :
    absPend (reqs.filter (fun r => q r || r.cancelled)) = absPend (reqs.filter q) := by
  simp only [absPend, List.filter_filter]
  congr 1
  apply List.filter_congr
  intro r _
  cases r.cancelled <;> simp

theorem handleResponse_proj (s : St) (id : Int) (f : Bytes) :
    writes (handleResponse s id f).2 = [] ∧ connects (handleResponse s id f).2 = [] ∧ timers (handleResponse s id f).2 = [] ∧
    fired (handleResponse s id f).2 = (s.reqs.filter (fun r => r.id == id && !r.cancelled)).map (·.serial) := by
  simp only [handleResponse]
  split
  · obtain ⟨f1, f2, f3, f4⟩ := proj_map_fire (s.reqs.filter (fun r => r.id == id && !r.cancelled))
      (fun r => r.serial) (fun r => r.id) (fun _ => Res.ok f)
    exact ⟨f1, f2, f3, f4⟩
  · rename_i hn
    have : s.reqs.filter (fun r => r.id == id && !r.cancelled) = [] := by
      rw [List.filter_eq_nil_iff]
      intro r hr
      simp only [List.any_eq_true, not_exists, not_and] at hn
      have := hn r hr
      simp_all
    simp [this, writes, connects, timers, fired]

theorem handleFrames_proj (fs : List Bytes) : ∀ (s : St), s.reqs.Pairwise (fun a b => a.serial < b.serial) →
    writes (handleFrames s fs).2.1 = [] ∧ connects (handleFrames s fs).2.1 = [] ∧ timers (handleFrames s fs).2.1 = [] ∧
    unfire (absPend s.reqs) (handleFrames s fs).2.1 = absPend (handleFrames s fs).1.reqs ∧
    ((handleFrames s fs).2.1.contains .raiseUnderflow = (handleFrames s fs).2.2) ∧
    (∀ o ∈ (handleFrames s fs).2.1, (∃ k i r, o = .fire k i r) ∨ (∃ i, o = .unexpected i) ∨ o = .raiseUnderflow) := by
  induction fs with
  | nil => intro s _; simp [handleFrames, writes, connects, timers, unfire, fired]
  | cons f fs ih =>
    intro s hpw
    cases hid : corrId f with
    | none => simp [handleFrames, hid, writes, connects, timers, unfire, fired]
    | some id =>
      simp only [handleFrames, hid]
      obtain ⟨r1, r2, r3, r4⟩ := handleResponse_proj s id f
      have e : (handleResponse s id f).1.reqs = s.reqs.filter (fun r => r.id != id) := rfl
      obtain ⟨i1, i2, i3, i4, i5, i6⟩ := ih (handleResponse s id f).1 (by rw [e]; exact hpw.filter _)
      refine ⟨by rw [writes_append, r1, i1]; rfl, by rw [connects_append, r2, i2]; rfl, by rw [timers_append, r3, i3]; rfl, ?_, ?_, ?_⟩
      · rw [unfire_append, unfire_filter s.reqs hpw (fun r => r.id == id) _ r4, absPend_filter_or_cancelled, ← i4, e]
        rfl
      · rw [List.contains_append, i5]
        have : (handleResponse s id f).2.contains .raiseUnderflow = false := by
          apply contains_false_of'
          intro x hx
          simp only [handleResponse] at hx
          split at hx
          · obtain ⟨r, _, rfl⟩ := List.mem_map.mp hx; simp
          · simp_all
        rw [this]; simp
      · intro o ho
        rcases List.mem_append.mp ho with ho | ho
        · simp only [handleResponse] at ho
          split at ho
          · obtain ⟨r, _, rfl⟩ := List.mem_map.mp ho
            exact Or.inl ⟨_, _, _, rfl⟩
          · simp only [List.mem_singleton] at ho
            exact Or.inr (Or.inl ⟨_, ho⟩)
        · exact i6 o ho


theorem afterLoss_congr (m : MSt) (p : List (Nat × Int)) (os os' : List Ob)
    (h1 : connects os = connects os') (h2 : os.contains .down = os'.contains .down) :
    afterLoss m p os = afterLoss m p os' := by
  simp only [afterLoss, h1, h2]

theorem afterLoss_pend (m : MSt) (p : List (Nat × Int)) (os : List Ob) :
    afterLoss m p os = afterLoss { m with pend := p } p os := by
  simp only [afterLoss]

theorem handleFrames_frame10 (s : St) (fs : List Bytes) :
    (handleFrames s fs).1 = { s with reqs := (handleFrames s fs).1.reqs } := handleFrames_frame s fs

theorem sim10_bytesIn (cfg : Cfg) (s : St) (h : SInv s) (chunk : Bytes) :
    mstep cfg.policy (abs10 s) (.bytesIn chunk, (step cfg s (.bytesIn chunk)).2) = some (abs10 (step cfg s (.bytesIn chunk)).1) := by
  simp only [step]
  split
  · rename_i hp
    simp [mstep, writes, connects, timers, abs10, hp, unfire_nil _ _ (show fired [Ob.badOp] = [] from rfl)]
  · rename_i c hp
    split
    · rename_i hl
      have hnl : ¬ (c = c ∧ False) := by simp
      simp [mstep, writes, connects, timers, abs10, hp, hl, unfire_nil _ _ (show fired [Ob.badOp] = [] from rfl)]
    · rename_i hl
      have hl' : s.losing = false := by simpa using hl
      obtain ⟨p1, p2, p3, p4, p5, p6⟩ := handleFrames_proj (feed s.rbuf chunk).frames s h.serials
      have hfr := handleFrames_frame s (feed s.rbuf chunk).frames
      have hsi := sinv_handleFrames s (feed s.rbuf chunk).frames h
      have hnl : (handleFrames s (feed s.rbuf chunk).frames).2.1.contains (.lose c) = false := by
        apply contains_false_of'
        intro x hx
        rcases p6 x hx with ⟨_, _, _, rfl⟩ | ⟨_, rfl⟩ | rfl <;> simp
      have hcl : s.closed = false := by
        cases hc : s.closed
        · rfl
        · have := h.closedLosing hc (by simp [hp]); simp_all
      split
      · rename_i hr
        obtain ⟨q1, q2, q3, q4⟩ := lostStep_quiet (handleFrames s (feed s.rbuf chunk).frames).1
        have hps : (handleFrames s (feed s.rbuf chunk).frames).1.proto = some c := by rw [hfr]; exact hp
        have key := sim10_lostStep (handleFrames s (feed s.rbuf chunk).frames).1 hsi c hps _ [] rfl
        have hru : ((handleFrames s (feed s.rbuf chunk).frames).2.1 ++ (lostStep (handleFrames s (feed s.rbuf chunk).frames).1).2).contains .raiseUnderflow = true := by
          rw [List.contains_append, p5, hr]; rfl
        simp only [mstep, writes_append, timers_append, p1, p3, q1, q2, hru, unfire_append, unfire_nil _ _ q3]
        have hc2 : connects ((handleFrames s (feed s.rbuf chunk).frames).2.1 ++ (lostStep (handleFrames s (feed s.rbuf chunk).frames).1).2)
            = connects (lostStep (handleFrames s (feed s.rbuf chunk).frames).1).2 := by rw [connects_append, p2]; rfl
        have hd2 : ((handleFrames s (feed s.rbuf chunk).frames).2.1 ++ (lostStep (handleFrames s (feed s.rbuf chunk).frames).1).2).contains .down
            = (lostStep (handleFrames s (feed s.rbuf chunk).frames).1).2.contains .down := by
          rw [List.contains_append]
          have : (handleFrames s (feed s.rbuf chunk).frames).2.1.contains .down = false := by
            apply contains_false_of'
            intro x hx
            rcases p6 x hx with ⟨_, _, _, rfl⟩ | ⟨_, rfl⟩ | rfl <;> simp
          rw [this]; rfl
        have hab : abs10 (handleFrames s (feed s.rbuf chunk).frames).1
            = { abs10 s with pend := absPend (handleFrames s (feed s.rbuf chunk).frames).1.reqs } := by
          rw [hfr]; rfl
        have p4' : unfire (abs10 s).pend (handleFrames s (feed s.rbuf chunk).frames).2.1
            = absPend (handleFrames s (feed s.rbuf chunk).frames).1.reqs := p4
        rw [afterLoss_congr _ _ _ _ hc2 hd2, p4', afterLoss_pend (abs10 s) (absPend (handleFrames s (feed s.rbuf chunk).frames).1.reqs), ← hab]
        simp only [abs10, hp, Option.isSome_some, if_true]
        exact key
      · rename_i hr
        have hr' : (handleFrames s (feed s.rbuf chunk).frames).2.2 = false := by simpa using hr
        have hnu : (handleFrames s (feed s.rbuf chunk).frames).2.1.contains .raiseUnderflow = false := by rw [p5, hr']
        split
        · rename_i hex
          have hnu2 : ((handleFrames s (feed s.rbuf chunk).frames).2.1 ++ [Ob.lose c]).contains .raiseUnderflow = false := by
            rw [List.contains_append, hnu]; rfl
          simp only [mstep, writes_append, timers_append, connects_append, p1, p2, p3, hnu2, unfire_append]
          rw [hfr]
          simp [abs10, hp, p4, writes, timers, connects, unfire_nil _ _ (show fired [Ob.lose c] = [] from rfl)]
        · rename_i hex
          simp only [mstep, p1, p2, p3, hnu]
          rw [hfr]
          have hnl' : ¬ Ob.lose c ∈ (handleFrames s (feed s.rbuf chunk).frames).2.1 := by
            intro hm; rw [← List.contains_iff_mem, hnl] at hm; exact Bool.false_ne_true hm
          simp [abs10, hp, p4, hl', hnl']

theorem sim10_step (cfg : Cfg) (s : St) (e : Ev) (h : SInv s) :
    mstep cfg.policy (abs10 s) (e, (step cfg s e).2) = some (abs10 (step cfg s e).1) := by
  obtain ⟨h1, h2, h3⟩ := sim10_simple cfg s h
  cases e with
  | make id ex => exact sim10_make cfg s h id ex
  | cancel id => exact sim10_cancel cfg s h id
  | connOk => exact sim10_connOk cfg s h
  | connFail => exact sim10_connFail cfg s h
  | advance dt => exact sim10_advance cfg s h dt
  | bytesIn c => exact sim10_bytesIn cfg s h c
  | lost => exact sim10_lost cfg s h
  | close => exact sim10_close cfg s h
  | disconnect => exact h3
  | updateMetadata a b => exact h1 a b
  | writeFail b => exact h2 b

theorem sim10_run (cfg : Cfg) (s : St) (es : List Ev) (h : SInv s) :
    mrun cfg.policy (abs10 s) (trace cfg s es) = some (abs10 (run cfg s es)) := by
  induction es generalizing s with
  | nil => rfl
  | cons e es ih =>
    simp only [trace, mrun, run, sim10_step cfg s e h]
    exact ih _ (sinv_step cfg s e h)

end Afkak.BrokerClient
