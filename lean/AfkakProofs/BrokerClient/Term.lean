import AfkakProofs.BrokerClient.Reent06

/-
  Termination of the re-entrant interpreter `exec` (`Afkak/BrokerClientR.lean`): a potential (table size
  + live entries + weight of the registered callbacks) bounds the nesting depth, so for every event
  list some amount of fuel suffices (`fuel_suffices`), and from then on more fuel changes nothing
  (`exec_mono`).  Together with `r06_trace` / `r10_trace` this turns the partial-correctness theorems
  into `C06_reentrant` / `C10_reentrant`.
-/
namespace Afkak.BrokerClientR
open Afkak.Frame Afkak.BrokerClient Afkak.Consts

/-! ## a potential that bounds the nesting depth of `exec` -/

def hookW : List (Nat × Hook) → Nat
  | [] => 0
  | p :: l => 3 * p.2.length + 1 + hookW l
def liveN : List Req → Nat
  | [] => 0
  | r :: l => (if r.cancelled then 0 else 1) + liveN l
def pot (s : StR) : Nat := s.core.reqs.length + liveN s.core.reqs + hookW s.hooks

def tsize : Task → Nat
  | .fireAll l _ => l.length
  | .acts as => 3 * as.length
  | .act _ => 2
  | .make _ _ h => 2 + (match h with | some h => 3 * h.length + 1 | none => 0)
  | .makeS _ _ h => 2 + (match h with | some h => 3 * h.length + 1 | none => 0)
  | _ => 0

def textra : Task → Nat
  | .sendLoop _ snap => snap.length
  | .frames _ fs _ => fs.length
  | _ => 0

def tbeta : Task → Nat
  | .fire _ _ _ => 1
  | .fireAll _ _ => 2
  | .acts _ => 4
  | .act _ => 4
  | .make _ _ _ => 2
  | .cancel _ => 3
  | .close => 3
  | .closeLoop => 2
  | .sendLoop _ _ => 2
  | .frames _ _ _ => 5
  | .makeS _ _ _ => 3
  | .lost => 4
  | .dial => 3

def talpha : Task → Nat
  | .frames _ _ _ => 5
  | .lost => 5
  | .dial => 5
  | _ => 4

/-- fuel that suffices to run `task` from `s` -/
def bound (s : StR) (task : Task) : Nat := talpha task * (pot s + tsize task) + tbeta task + textra task

theorem liveN_filter_le (l : List Req) (p : Req → Bool) : liveN (l.filter p) ≤ liveN l := by
  induction l with
  | nil => simp [liveN]
  | cons a l ih =>
    simp only [List.filter_cons]
    split <;> simp only [liveN] <;> omega

theorem hookW_filter_le (hooks : List (Nat × Hook)) (p : Nat × Hook → Bool) : hookW (hooks.filter p) ≤ hookW hooks := by
  induction hooks with
  | nil => simp [hookW]
  | cons a l ih =>
    simp only [List.filter_cons]
    split <;> simp only [hookW] <;> omega

theorem hookW_lookup (hooks : List (Nat × Hook)) (k : Nat) (h : Hook) (hl : lookupHook hooks k = some h) :
    hookW (hooks.filter (fun p => p.1 != k)) + 3 * h.length + 1 ≤ hookW hooks := by
  induction hooks with
  | nil => simp [lookupHook] at hl
  | cons a l ih =>
    simp only [lookupHook, List.filter_cons] at hl
    by_cases ha : a.1 = k
    · simp only [ha, beq_self_eq_true, if_true, Option.some.injEq] at hl
      have := hookW_filter_le l (fun p => p.1 != k)
      simp only [List.filter_cons, ha, bne_self_eq_false, Bool.false_eq_true, if_false, hookW, hl]
      omega
    · have ha' : (a.1 == k) = false := by simpa using ha
      simp only [ha', Bool.false_eq_true, if_false] at hl
      have := ih (by simpa [lookupHook] using hl)
      have hb : (a.1 != k) = true := by simpa using ha
      simp only [List.filter_cons, hb, if_true, hookW]
      omega


theorem cancelTable_pot (reqs : List Req) (id : Int) :
    (cancelTable reqs id).length ≤ reqs.length ∧ liveN (cancelTable reqs id) + (liveWith reqs id).length ≤ liveN reqs := by
  induction reqs with
  | nil => simp [cancelTable, liveWith, liveN]
  | cons a l ih =>
    simp only [cancelTable, liveWith, List.length_map] at ih ⊢
    by_cases hi : a.id = id <;> cases hs : a.sent <;> cases hc : a.cancelled <;>
      simp [List.filter_cons, hi, hs, hc, liveN] at ih ⊢ <;> omega

theorem filterId_pot (reqs : List Req) (id : Int) :
    (reqs.filter (fun r => r.id != id)).length ≤ reqs.length ∧
    liveN (reqs.filter (fun r => r.id != id)) + (liveWith reqs id).length ≤ liveN reqs := by
  induction reqs with
  | nil => simp [liveWith, liveN]
  | cons a l ih =>
    simp only [liveWith, List.length_map] at ih ⊢
    by_cases hi : a.id = id <;> cases hc : a.cancelled <;>
      simp [List.filter_cons, hi, hc, liveN] at ih ⊢ <;> omega

theorem filter_remove_len (reqs : List Req) (p : Req → Bool) (rq : Req) (hrq : rq ∈ reqs) (hp : p rq = false) :
    (reqs.filter p).length + 1 ≤ reqs.length := by
  induction reqs with
  | nil => cases hrq
  | cons a l ih =>
    rcases List.mem_cons.mp hrq with rfl | hm
    · have := List.length_filter_le p l
      simp [List.filter_cons, hp]; omega
    · have := ih hm
      simp only [List.filter_cons]
      split <;> simp <;> omega

theorem liveN_map_keep (l : List Req) (f : Req → Req) (hf : ∀ r, (f r).cancelled = r.cancelled) : liveN (l.map f) = liveN l := by
  induction l with
  | nil => rfl
  | cons a l ih => simp only [List.map_cons, liveN, hf, ih]

theorem lost_pot (reqs : List Req) :
    ((reqs.filter (fun r => !r.cancelled)).map (fun r => { r with sent := false })).length ≤ reqs.length ∧
    liveN ((reqs.filter (fun r => !r.cancelled)).map (fun r => { r with sent := false })) ≤ liveN reqs := by
  refine ⟨by simp only [List.length_map]; exact List.length_filter_le _ _, ?_⟩
  rw [liveN_map_keep _ (fun r => { r with sent := false }) (fun _ => rfl)]
  exact liveN_filter_le _ _

/-- with fuel `bound s task` or more, `exec` does not run out of fuel, and the potential grows by at most
    the size of the task -/
def TermSpec (cfg : Cfg) (n : Nat) : Prop :=
  ∀ (s : StR) (task : Task), bound s task ≤ n →
    NoFuelOut (exec cfg n s task).2 ∧ pot (exec cfg n s task).1 ≤ pot s + tsize task

theorem NoFuelOut.append {a b : List ObR} (ha : NoFuelOut a) (hb : NoFuelOut b) : NoFuelOut (a ++ b) := by
  simp only [NoFuelOut, List.mem_append, not_or] at *; exact ⟨ha, hb⟩

theorem noFuelOut_obs (l : List Ob) : NoFuelOut (obs l) := by
  simp [NoFuelOut, obs]


theorem term_zero (cfg : Cfg) : TermSpec cfg 0 := by
  intro s task hb
  cases task <;> simp [bound, tbeta] at hb

theorem term_fire (cfg : Cfg) (n : Nat) (ih : TermSpec cfg n) (s : StR) (k : Nat) (id : Int) (r : Res)
    (hb : bound s (.fire k id r) ≤ n + 1) :
    NoFuelOut (exec cfg (n + 1) s (.fire k id r)).2 ∧ pot (exec cfg (n + 1) s (.fire k id r)).1 ≤ pot s + tsize (.fire k id r) := by
  rw [exec_fire_eq]
  cases hl : lookupHook s.hooks k with
  | none => simp [NoFuelOut, tsize]
  | some h =>
    simp only
    have hw := hookW_lookup s.hooks k h hl
    have hb' : bound { s with hooks := s.hooks.filter (fun p => p.1 != k) } (.acts h) ≤ n := by
      simp only [bound, pot, tsize, tbeta, textra, talpha] at hb ⊢; omega
    obtain ⟨a, b⟩ := ih _ (.acts h) hb'
    refine ⟨(NoFuelOut.append (NoFuelOut.append (by simp [NoFuelOut]) a) (by simp [NoFuelOut])), ?_⟩
    simp only [pot, tsize] at b ⊢; omega

theorem term_fireAll (cfg : Cfg) (n : Nat) (ih : TermSpec cfg n) (s : StR) (l : List (Nat × Int)) (r : Res)
    (hb : bound s (.fireAll l r) ≤ n + 1) :
    NoFuelOut (exec cfg (n + 1) s (.fireAll l r)).2 ∧ pot (exec cfg (n + 1) s (.fireAll l r)).1 ≤ pot s + tsize (.fireAll l r) := by
  cases l with
  | nil => rw [exec_fireAll_nil]; simp [NoFuelOut]
  | cons p ps =>
    rw [exec_fireAll_cons]
    simp only [bound, tsize, tbeta, textra, talpha, List.length_cons] at hb
    obtain ⟨a1, b1⟩ := ih s (.fire p.1 p.2 r) (by simp only [bound, tsize, tbeta, textra, talpha]; omega)
    simp only [tsize] at b1
    obtain ⟨a2, b2⟩ := ih (exec cfg n s (.fire p.1 p.2 r)).1 (.fireAll ps r) (by simp only [bound, tsize, tbeta, textra, talpha]; omega)
    simp only [tsize] at b2
    exact ⟨a1.append a2, by simp only [tsize, List.length_cons]; omega⟩

theorem term_acts (cfg : Cfg) (n : Nat) (ih : TermSpec cfg n) (s : StR) (as : List Action)
    (hb : bound s (.acts as) ≤ n + 1) :
    NoFuelOut (exec cfg (n + 1) s (.acts as)).2 ∧ pot (exec cfg (n + 1) s (.acts as)).1 ≤ pot s + tsize (.acts as) := by
  cases as with
  | nil => simp [exec, NoFuelOut]
  | cons a as =>
    simp only [exec]
    simp only [bound, tsize, tbeta, textra, talpha, List.length_cons] at hb
    obtain ⟨a1, b1⟩ := ih s (.act a) (by simp only [bound, tsize, tbeta, textra, talpha]; omega)
    simp only [tsize] at b1
    obtain ⟨a2, b2⟩ := ih (exec cfg n s (.act a)).1 (.acts as) (by simp only [bound, tsize, tbeta, textra, talpha]; omega)
    simp only [tsize] at b2
    exact ⟨a1.append a2, by simp only [tsize, List.length_cons]; omega⟩

theorem term_act (cfg : Cfg) (n : Nat) (ih : TermSpec cfg n) (s : StR) (a : Action)
    (hb : bound s (.act a) ≤ n + 1) :
    NoFuelOut (exec cfg (n + 1) s (.act a)).2 ∧ pot (exec cfg (n + 1) s (.act a)).1 ≤ pot s + tsize (.act a) := by
  simp only [bound, tsize, tbeta, textra, talpha] at hb
  cases a with
  | close =>
    simp only [exec]
    obtain ⟨a1, b1⟩ := ih s .close (by simp only [bound, tsize, tbeta, textra, talpha]; omega)
    simp only [tsize] at b1 ⊢
    exact ⟨a1, by omega⟩
  | disconnect =>
    simp only [exec, step]
    split <;> exact ⟨noFuelOut_obs _, by simp only [pot, tsize]; omega⟩
  | cancel id =>
    simp only [exec]
    obtain ⟨a1, b1⟩ := ih s (.cancel id) (by simp only [bound, tsize, tbeta, textra, talpha]; omega)
    simp only [tsize] at b1 ⊢
    exact ⟨a1, by omega⟩
  | make id ex =>
    simp only [exec]
    split
    · obtain ⟨a1, b1⟩ := ih s (.make id ex none) (by simp only [bound, tsize, tbeta, textra, talpha]; omega)
      simp only [tsize] at b1 ⊢
      exact ⟨a1, by omega⟩
    · obtain ⟨a1, b1⟩ := ih s (.makeS id ex none) (by simp only [bound, tsize, tbeta, textra, talpha]; omega)
      simp only [tsize] at b1 ⊢
      exact ⟨a1, by omega⟩


theorem liveN_append (l : List Req) (r : Req) : liveN (l ++ [r]) = liveN l + (if r.cancelled then 0 else 1) := by
  induction l with
  | nil => simp [liveN]
  | cons a l ih => simp only [List.cons_append, liveN, ih]; omega

theorem term_make (cfg : Cfg) (n : Nat) (ih : TermSpec cfg n) (s : StR) (id : Int) (ex : Bool) (hk0 : Option Hook)
    (hb : bound s (.make id ex hk0) ≤ n + 1) :
    NoFuelOut (exec cfg (n + 1) s (.make id ex hk0)).2 ∧
    pot (exec cfg (n + 1) s (.make id ex hk0)).1 ≤ pot s + tsize (.make id ex hk0) := by
  cases hk0 with
  | none =>
      simp only [exec]
      split
      · exact ⟨by simp [NoFuelOut], by simp only [tsize]; omega⟩
      · split
        · obtain ⟨a1, b1⟩ := ih { s with core := { s.core with nmake := s.core.nmake + 1 }, hooks := s.hooks } (.fire s.core.nmake id (.err .clientError))
            (by simp only [bound, pot, tsize, tbeta, textra, talpha, hookW] at hb ⊢; omega)
          refine ⟨?_, by simp only [pot, tsize, hookW] at b1 ⊢; omega⟩
          simpa [NoFuelOut] using a1
        · split
          · split
            · obtain ⟨a1, b1⟩ := ih { s with core := { s.core with nmake := s.core.nmake + 1 }, hooks := s.hooks } (.fire s.core.nmake id (.err .writeError))
                (by simp only [bound, pot, tsize, tbeta, textra, talpha, hookW] at hb ⊢; omega)
              refine ⟨?_, by simp only [pot, tsize, hookW] at b1 ⊢; omega⟩
              simpa [NoFuelOut] using a1
            · split
              · refine ⟨by split <;> simp [NoFuelOut], ?_⟩
                simp only [pot, tsize, hookW, List.length_append, List.length_singleton, liveN_append, Bool.false_eq_true, if_false]
                omega
              · obtain ⟨a1, b1⟩ := ih { s with core := { s.core with nmake := s.core.nmake + 1 }, hooks := s.hooks } (.fire s.core.nmake id .none)
                  (by simp only [bound, pot, tsize, tbeta, textra, talpha, hookW] at hb ⊢; omega)
                refine ⟨?_, by simp only [pot, tsize, hookW] at b1 ⊢; omega⟩
                split <;> simpa [NoFuelOut] using a1
          · split
            · refine ⟨by simp [NoFuelOut, connect_, tryConnect, obs], ?_⟩
              simp only [connect_, tryConnect, pot, tsize, hookW, List.length_append, List.length_singleton, liveN_append, Bool.false_eq_true, if_false]
              omega
            · refine ⟨by simp [NoFuelOut], ?_⟩
              simp only [pot, tsize, hookW, List.length_append, List.length_singleton, liveN_append, Bool.false_eq_true, if_false]
              omega
  | some h =>
      simp only [exec]
      split
      · exact ⟨by simp [NoFuelOut], by simp only [tsize]; omega⟩
      · split
        · obtain ⟨a1, b1⟩ := ih { s with core := { s.core with nmake := s.core.nmake + 1 }, hooks := (s.core.nmake, h) :: s.hooks } (.fire s.core.nmake id (.err .clientError))
            (by simp only [bound, pot, tsize, tbeta, textra, talpha, hookW] at hb ⊢; omega)
          refine ⟨?_, by simp only [pot, tsize, hookW] at b1 ⊢; omega⟩
          simpa [NoFuelOut] using a1
        · split
          · split
            · obtain ⟨a1, b1⟩ := ih { s with core := { s.core with nmake := s.core.nmake + 1 }, hooks := (s.core.nmake, h) :: s.hooks } (.fire s.core.nmake id (.err .writeError))
                (by simp only [bound, pot, tsize, tbeta, textra, talpha, hookW] at hb ⊢; omega)
              refine ⟨?_, by simp only [pot, tsize, hookW] at b1 ⊢; omega⟩
              simpa [NoFuelOut] using a1
            · split
              · refine ⟨by split <;> simp [NoFuelOut], ?_⟩
                simp only [pot, tsize, hookW, List.length_append, List.length_singleton, liveN_append, Bool.false_eq_true, if_false]
                omega
              · obtain ⟨a1, b1⟩ := ih { s with core := { s.core with nmake := s.core.nmake + 1 }, hooks := (s.core.nmake, h) :: s.hooks } (.fire s.core.nmake id .none)
                  (by simp only [bound, pot, tsize, tbeta, textra, talpha, hookW] at hb ⊢; omega)
                refine ⟨?_, by simp only [pot, tsize, hookW] at b1 ⊢; omega⟩
                split <;> simpa [NoFuelOut] using a1
          · split
            · refine ⟨by simp [NoFuelOut, connect_, tryConnect, obs], ?_⟩
              simp only [connect_, tryConnect, pot, tsize, hookW, List.length_append, List.length_singleton, liveN_append, Bool.false_eq_true, if_false]
              omega
            · refine ⟨by simp [NoFuelOut], ?_⟩
              simp only [pot, tsize, hookW, List.length_append, List.length_singleton, liveN_append, Bool.false_eq_true, if_false]
              omega


theorem term_cancel (cfg : Cfg) (n : Nat) (ih : TermSpec cfg n) (s : StR) (id : Int)
    (hb : bound s (.cancel id) ≤ n + 1) :
    NoFuelOut (exec cfg (n + 1) s (.cancel id)).2 ∧ pot (exec cfg (n + 1) s (.cancel id)).1 ≤ pot s + tsize (.cancel id) := by
  rw [exec_cancel_eq]
  split
  · obtain ⟨h1, h2⟩ := cancelTable_pot s.core.reqs id
    obtain ⟨a1, b1⟩ := ih { s with core := { s.core with reqs := cancelTable s.core.reqs id } } (.fireAll (liveWith s.core.reqs id) (.err .cancelled))
      (by simp only [bound, pot, tsize, tbeta, textra, talpha] at hb ⊢; omega)
    exact ⟨a1, by simp only [pot, tsize] at b1 ⊢; omega⟩
  · exact ⟨by simp [NoFuelOut], by simp only [tsize]; omega⟩

theorem term_closeLoop (cfg : Cfg) (n : Nat) (ih : TermSpec cfg n) (s : StR)
    (hb : bound s .closeLoop ≤ n + 1) :
    NoFuelOut (exec cfg (n + 1) s .closeLoop).2 ∧ pot (exec cfg (n + 1) s .closeLoop).1 ≤ pot s + tsize .closeLoop := by
  rw [exec_closeLoop_eq]
  cases hsel : (if closePopLast then s.core.reqs.getLast? else s.core.reqs.head?) with
  | none => exact ⟨by simp [NoFuelOut], by simp only [tsize]; omega⟩
  | some rq =>
    simp only
    have hrq : rq ∈ s.core.reqs := by
      split at hsel
      · exact List.mem_of_getLast? hsel
      · exact List.mem_of_head? hsel
    have h1 := filter_remove_len s.core.reqs (fun r => r.serial != rq.serial) rq hrq (by simp)
    have h2 := liveN_filter_le s.core.reqs (fun r => r.serial != rq.serial)
    simp only [bound, pot, tsize, tbeta, textra, talpha] at hb
    by_cases hc : rq.cancelled = true
    · simp only [hc, if_true]
      obtain ⟨a2, b2⟩ := ih { s with core := { s.core with reqs := s.core.reqs.filter (fun r => r.serial != rq.serial) } } .closeLoop
        (by simp only [bound, pot, tsize, tbeta, textra, talpha]; omega)
      exact ⟨by simpa using a2, by simp only [pot, tsize] at b2 ⊢; omega⟩
    · simp only [hc, Bool.false_eq_true, if_false]
      obtain ⟨a1, b1⟩ := ih { s with core := { s.core with reqs := s.core.reqs.filter (fun r => r.serial != rq.serial) } }
        (.fire rq.serial rq.id (.err .clientError)) (by simp only [bound, pot, tsize, tbeta, textra, talpha]; omega)
      simp only [pot, tsize] at b1
      obtain ⟨a2, b2⟩ := ih (exec cfg n { s with core := { s.core with reqs := s.core.reqs.filter (fun r => r.serial != rq.serial) } }
        (.fire rq.serial rq.id (.err .clientError))).1 .closeLoop (by simp only [bound, pot, tsize, tbeta, textra, talpha]; omega)
      exact ⟨a1.append a2, by simp only [pot, tsize] at b2 ⊢; omega⟩

theorem term_close (cfg : Cfg) (n : Nat) (ih : TermSpec cfg n) (s : StR)
    (hb : bound s .close ≤ n + 1) :
    NoFuelOut (exec cfg (n + 1) s .close).2 ∧ pot (exec cfg (n + 1) s .close).1 ≤ pot s + tsize .close := by
  simp only [exec]
  simp only [bound, pot, tsize, tbeta, textra, talpha] at hb
  have core : ∀ c' : St, c'.reqs = s.core.reqs →
      NoFuelOut (exec cfg n { s with core := c' } .closeLoop).2 ∧ pot (exec cfg n { s with core := c' } .closeLoop).1 ≤ pot s := by
    intro c' h1
    obtain ⟨a, b⟩ := ih { s with core := c' } .closeLoop (by simp only [bound, pot, tsize, tbeta, textra, talpha, h1]; omega)
    exact ⟨a, by simp only [pot, tsize, h1] at b ⊢; omega⟩
  simp only [tsize, Nat.add_zero]
  split
  · exact ⟨by simp [NoFuelOut], Nat.le_refl _⟩
  · split
    · exact ⟨NoFuelOut.append (by simp [NoFuelOut]) (core _ (by rfl)).1, (core _ (by rfl)).2⟩
    · split
      · exact ⟨NoFuelOut.append (by simp [NoFuelOut]) (core _ (by rfl)).1, (core _ (by rfl)).2⟩
      · refine ⟨NoFuelOut.append (NoFuelOut.append (NoFuelOut.append (by simp [NoFuelOut]) ?_) (core _ (by rfl)).1) (by simp [NoFuelOut]),
          (core _ (by rfl)).2⟩
        split <;> simp [NoFuelOut]


theorem term_sendLoop (cfg : Cfg) (n : Nat) (ih : TermSpec cfg n) (s : StR) (conn : Nat) (snap : List Nat)
    (hb : bound s (.sendLoop conn snap) ≤ n + 1) :
    NoFuelOut (exec cfg (n + 1) s (.sendLoop conn snap)).2 ∧
    pot (exec cfg (n + 1) s (.sendLoop conn snap)).1 ≤ pot s + tsize (.sendLoop conn snap) := by
  cases snap with
  | nil => rw [exec_sendLoop_nil]; exact ⟨by simp [NoFuelOut], by simp only [tsize]; omega⟩
  | cons k ks =>
    rw [exec_sendLoop_cons]
    simp only [bound, pot, tsize, tbeta, textra, talpha, List.length_cons] at hb
    simp only [tsize, Nat.add_zero]
    cases hsel : s.core.reqs.filter (fun r => r.serial == k && !r.sent) with
    | nil =>
      simp only
      obtain ⟨a, b⟩ := ih s (.sendLoop conn ks) (by simp only [bound, pot, tsize, tbeta, textra, talpha]; omega)
      exact ⟨a, by simpa only [tsize, Nat.add_zero] using b⟩
    | cons rq rest =>
      simp only
      have hmem : rq ∈ s.core.reqs.filter (fun r => r.serial == k && !r.sent) := by rw [hsel]; simp
      obtain ⟨hrq, hcond⟩ := List.mem_filter.mp hmem
      simp only [Bool.and_eq_true, beq_iff_eq] at hcond
      have h1 := filter_remove_len s.core.reqs (fun r => r.serial != k) rq hrq (by simp [hcond.1])
      have h2 := liveN_filter_le s.core.reqs (fun r => r.serial != k)
      -- after the first element the potential has not grown
      have step2 : ∀ (s1 : StR) (o1 : List ObR), NoFuelOut o1 → pot s1 ≤ pot s →
          NoFuelOut (o1 ++ (exec cfg n s1 (.sendLoop conn ks)).2) ∧ pot (exec cfg n s1 (.sendLoop conn ks)).1 ≤ pot s := by
        intro s1 o1 ho hp
        simp only [pot] at hp
        obtain ⟨a, b⟩ := ih s1 (.sendLoop conn ks) (by simp only [bound, pot, tsize, tbeta, textra, talpha]; omega)
        exact ⟨ho.append a, by simp only [pot, tsize] at b ⊢; omega⟩
      split
      · obtain ⟨a1, b1⟩ := ih { s with core := { s.core with reqs := s.core.reqs.filter (fun r => r.serial != k) } }
          (.fire k rq.id (.err .writeError)) (by simp only [bound, pot, tsize, tbeta, textra, talpha]; omega)
        exact step2 _ _ a1 (by simp only [pot, tsize] at b1 ⊢; omega)
      · split
        · refine step2 _ _ (by split <;> simp [NoFuelOut]) ?_
          simp only [pot, List.length_map]
          rw [liveN_map_keep _ _ (by intro r; split <;> rfl)]
          omega
        · obtain ⟨a1, b1⟩ := ih { s with core := { s.core with reqs := s.core.reqs.filter (fun r => r.serial != k) } }
            (.fire k rq.id .none) (by simp only [bound, pot, tsize, tbeta, textra, talpha]; omega)
          refine step2 _ _ ?_ (by simp only [pot, tsize] at b1 ⊢; omega)
          split <;> simpa [NoFuelOut] using a1

theorem term_frames (cfg : Cfg) (n : Nat) (ih : TermSpec cfg n) (s : StR) (conn : Nat) (fs : List Bytes) (f : Fed)
    (hb : bound s (.frames conn fs f) ≤ n + 1) :
    NoFuelOut (exec cfg (n + 1) s (.frames conn fs f)).2 ∧
    pot (exec cfg (n + 1) s (.frames conn fs f)).1 ≤ pot s + tsize (.frames conn fs f) := by
  simp only [tsize, Nat.add_zero]
  cases fs with
  | nil =>
    rw [exec_frames_nil]
    split <;> exact ⟨by simp [NoFuelOut], by simp only [pot]; omega⟩
  | cons b bs =>
    rw [exec_frames_cons]
    simp only [bound, pot, tsize, tbeta, textra, talpha, List.length_cons] at hb
    cases hid : corrId b with
    | none =>
      simp only
      obtain ⟨h1, h2⟩ := lost_pot s.core.reqs
      split
      · refine ⟨?_, ?_⟩
        · have := noFuelOut_obs (lostStep s.core).2
          simp only [NoFuelOut, List.mem_cons, not_or] at this ⊢
          exact ⟨by simp, this⟩
        · simp only [pot, lostStep, connect_, tryConnect]
          split <;> (try split) <;> simp only <;> omega
      · obtain ⟨a1, b1⟩ := ih s .lost (by simp only [bound, pot, tsize, tbeta, textra, talpha]; omega)
        refine ⟨?_, by simp only [pot, tsize] at b1 ⊢; omega⟩
        simp only [NoFuelOut, List.mem_cons, not_or] at a1 ⊢
        exact ⟨by simp, a1⟩
    | some id =>
      simp only
      obtain ⟨h1, h2⟩ := filterId_pot s.core.reqs id
      have step2 : ∀ (s1 : StR) (o1 : List ObR), NoFuelOut o1 → pot s1 ≤ pot s →
          NoFuelOut (o1 ++ (exec cfg n s1 (.frames conn bs f)).2) ∧ pot (exec cfg n s1 (.frames conn bs f)).1 ≤ pot s := by
        intro s1 o1 ho hp
        simp only [pot] at hp
        obtain ⟨a, b⟩ := ih s1 (.frames conn bs f) (by simp only [bound, pot, tsize, tbeta, textra, talpha]; omega)
        exact ⟨ho.append a, by simp only [pot, tsize] at b ⊢; omega⟩
      split
      · obtain ⟨a1, b1⟩ := ih { s with core := { s.core with reqs := s.core.reqs.filter (fun r => r.id != id) } }
          (.fireAll (liveWith s.core.reqs id) (.ok b)) (by simp only [bound, pot, tsize, tbeta, textra, talpha]; omega)
        exact step2 _ _ a1 (by simp only [pot, tsize, liveWith] at b1 h2 ⊢; omega)
      · have := liveN_filter_le s.core.reqs (fun r => r.id != id)
        exact step2 _ _ (by simp [NoFuelOut]) (by simp only [pot]; omega)

theorem term_dial (cfg : Cfg) (n : Nat) (ih : TermSpec cfg n) (s : StR) (hb : bound s .dial ≤ n + 1) :
    NoFuelOut (exec cfg (n + 1) s .dial).2 ∧ pot (exec cfg (n + 1) s .dial).1 ≤ pot s + tsize .dial := by
  simp only [exec]
  simp only [bound, pot, tsize, tbeta, textra, talpha] at hb
  simp only [tsize, Nat.add_zero]
  split
  · exact ⟨by simp [NoFuelOut], Nat.le_refl _⟩
  · split
    · exact ⟨by simp [NoFuelOut], by simp only [pot]; omega⟩
    · exact ⟨by simp [NoFuelOut], by simp only [pot]; omega⟩
    · obtain ⟨a1, b1⟩ := ih { s with core := established s.core } (.sendLoop s.core.nconn (s.core.reqs.map (·.serial)))
        (by simp only [bound, pot, tsize, tbeta, textra, talpha, established, List.length_map]; omega)
      refine ⟨?_, by simp only [pot, tsize, established] at b1 ⊢; omega⟩
      simp only [NoFuelOut, List.mem_cons, not_or] at a1 ⊢
      exact ⟨by simp, a1⟩

theorem term_lost (cfg : Cfg) (n : Nat) (ih : TermSpec cfg n) (s : StR) (hb : bound s .lost ≤ n + 1) :
    NoFuelOut (exec cfg (n + 1) s .lost).2 ∧ pot (exec cfg (n + 1) s .lost).1 ≤ pot s + tsize .lost := by
  simp only [exec]
  simp only [bound, pot, tsize, tbeta, textra, talpha] at hb
  simp only [tsize, Nat.add_zero]
  obtain ⟨h1, h2⟩ := lost_pot s.core.reqs
  split
  · exact ⟨by simp [NoFuelOut], by simp only [pot]; omega⟩
  · split
    · exact ⟨by simp [NoFuelOut], by simp only [pot]; omega⟩
    · have step : ∀ s1 : StR, pot s1 ≤ pot s → NoFuelOut (exec cfg n s1 .dial).2 ∧ pot (exec cfg n s1 .dial).1 ≤ pot s := by
        intro s1 hp
        simp only [pot] at hp
        obtain ⟨a1, b1⟩ := ih s1 .dial (by simp only [bound, pot, tsize, tbeta, textra, talpha]; omega)
        exact ⟨a1, by simp only [pot, tsize] at b1 ⊢; omega⟩
      exact step _ (by simp only [pot]; omega)

theorem term_makeS (cfg : Cfg) (n : Nat) (ih : TermSpec cfg n) (s : StR) (id : Int) (ex : Bool) (hk0 : Option Hook)
    (hb : bound s (.makeS id ex hk0) ≤ n + 1) :
    NoFuelOut (exec cfg (n + 1) s (.makeS id ex hk0)).2 ∧
    pot (exec cfg (n + 1) s (.makeS id ex hk0)).1 ≤ pot s + tsize (.makeS id ex hk0) := by
  have hts : tsize (.makeS id ex hk0) = tsize (.make id ex hk0) := rfl
  simp only [bound, tbeta, textra, talpha, hts] at hb
  rw [hts]
  simp only [exec]
  split
  · split
    · obtain ⟨a1, b1⟩ := ih { s with core := established s.core } (.make id ex hk0)
        (by simp only [bound, tbeta, textra, talpha, pot, established] at hb ⊢; omega)
      refine ⟨?_, by simp only [pot, established] at b1 ⊢; omega⟩
      simp only [NoFuelOut, List.mem_cons, not_or] at a1 ⊢
      exact ⟨by simp, a1⟩
    · refine ⟨by simp [NoFuelOut], ?_⟩
      cases hk0 <;>
        simp only [pot, tsize, hookW, List.length_append, List.length_singleton, liveN_append, Bool.false_eq_true, if_false] <;> omega
  · obtain ⟨a1, b1⟩ := ih s (.make id ex hk0) (by simp only [bound, tbeta, textra, talpha]; omega)
    exact ⟨a1, b1⟩

/-- `exec` terminates: with fuel `bound s task` it never reaches the bottom -/
theorem termSpec (cfg : Cfg) : ∀ n, TermSpec cfg n := by
  intro n
  induction n with
  | zero => exact term_zero cfg
  | succ n ih =>
    intro s task hb
    cases task with
    | fire k id r => exact term_fire cfg n ih s k id r hb
    | fireAll l r => exact term_fireAll cfg n ih s l r hb
    | acts h => exact term_acts cfg n ih s h hb
    | act a => exact term_act cfg n ih s a hb
    | make id ex h => exact term_make cfg n ih s id ex h hb
    | cancel id => exact term_cancel cfg n ih s id hb
    | close => exact term_close cfg n ih s hb
    | closeLoop => exact term_closeLoop cfg n ih s hb
    | sendLoop c snap => exact term_sendLoop cfg n ih s c snap hb
    | frames c fs f => exact term_frames cfg n ih s c fs f hb
    | makeS id ex h => exact term_makeS cfg n ih s id ex h hb
    | lost => exact term_lost cfg n ih s hb
    | dial => exact term_dial cfg n ih s hb


/-! ## more fuel changes nothing once the fuel suffices -/

theorem exec_acts_nil (cfg : Cfg) (n : Nat) (s : StR) : exec cfg (n + 1) s (.acts []) = (s, []) := rfl
theorem exec_acts_cons (cfg : Cfg) (n : Nat) (s : StR) (a : Action) (as : List Action) :
    exec cfg (n + 1) s (.acts (a :: as)) =
      ((exec cfg n (exec cfg n s (.act a)).1 (.acts as)).1, (exec cfg n s (.act a)).2 ++ (exec cfg n (exec cfg n s (.act a)).1 (.acts as)).2) := rfl
theorem exec_act_close (cfg : Cfg) (n : Nat) (s : StR) : exec cfg (n + 1) s (.act .close) = exec cfg n s .close := rfl
theorem exec_act_cancel (cfg : Cfg) (n : Nat) (s : StR) (id : Int) : exec cfg (n + 1) s (.act (.cancel id)) = exec cfg n s (.cancel id) := rfl
theorem exec_act_make (cfg : Cfg) (n : Nat) (s : StR) (id : Int) (ex : Bool) :
    exec cfg (n + 1) s (.act (.make id ex)) =
      if s.sync = .none then exec cfg n s (.make id ex none) else exec cfg n s (.makeS id ex none) := rfl

theorem exec_dial_eq (cfg : Cfg) (n : Nat) (s : StR) :
    exec cfg (n + 1) s .dial =
      if s.core.closed then (s, [.ob .badOp])
      else
        match s.sync with
        | .none => ({ s with core := { s.core with connector := .attempt } }, [.ob (.connect s.core.host s.core.port)])
        | .fail =>
          ({ s with core := { s.core with failures := s.core.failures + 1, connector := .backoff (s.core.now + cfg.policy (s.core.failures + 1)) } },
           [.ob (.connect s.core.host s.core.port), .ob (.setTimer (cfg.policy (s.core.failures + 1)))])
        | .ok =>
          ((exec cfg n { s with core := established s.core } (.sendLoop s.core.nconn (s.core.reqs.map (·.serial)))).1,
           .ob (.connect s.core.host s.core.port) ::
             (exec cfg n { s with core := established s.core } (.sendLoop s.core.nconn (s.core.reqs.map (·.serial)))).2) := rfl

/-- the table `_connectionLost` leaves -/
def lostCore (c : St) : St :=
  { c with proto := none, losing := false, rbuf := [],
           reqs := (c.reqs.filter (fun r => !r.cancelled)).map (fun r => { r with sent := false }) }

theorem exec_lost_eq (cfg : Cfg) (n : Nat) (s : StR) :
    exec cfg (n + 1) s .lost =
      if s.core.closed then ({ s with core := lostCore s.core }, [.ob .down])
      else if (lostCore s.core).reqs.isEmpty then ({ s with core := lostCore s.core }, [])
      else exec cfg n { s with core := { lostCore s.core with failures := 0 } } .dial := rfl

theorem exec_makeS_eq (cfg : Cfg) (n : Nat) (s : StR) (id : Int) (ex : Bool) (h : Option Hook) :
    exec cfg (n + 1) s (.makeS id ex h) =
      if s.sync != .none && !s.core.closed && s.core.proto.isNone && s.core.connector == .none && !s.core.reqs.any (fun r => r.id == id) then
        match s.sync with
        | .ok => ((exec cfg n { s with core := established s.core } (.make id ex h)).1,
                  .ob (.connect s.core.host s.core.port) :: (exec cfg n { s with core := established s.core } (.make id ex h)).2)
        | _ =>
          ({ s with core := { s.core with nmake := s.core.nmake + 1,
                                          reqs := s.core.reqs ++ [{ serial := s.core.nmake, id, expect := ex, sent := false, cancelled := false }],
                                          failures := 1, connector := .backoff (s.core.now + cfg.policy 1) },
                    hooks := match h with | some h => (s.core.nmake, h) :: s.hooks | none => s.hooks },
           [.ob (.connect s.core.host s.core.port), .ob (.setTimer (cfg.policy 1)), .made s.core.nmake id])
      else exec cfg n s (.make id ex h) := rfl
theorem exec_act_disconnect (cfg : Cfg) (n : Nat) (s : StR) :
    exec cfg (n + 1) s (.act .disconnect) = ({ s with core := (step cfg s.core .disconnect).1 }, obs (step cfg s.core .disconnect).2) := rfl

/-- the state `make` fires the new Deferred in, when it fires at once -/
def pendSt (s : StR) (h : Option Hook) : StR :=
  { s with core := { s.core with nmake := s.core.nmake + 1 },
           hooks := match h with | some h => (s.core.nmake, h) :: s.hooks | none => s.hooks }

theorem exec_make_eq (cfg : Cfg) (n : Nat) (s : StR) (id : Int) (ex : Bool) (h : Option Hook) :
    exec cfg (n + 1) s (.make id ex h) =
      if s.core.reqs.any (fun r => r.id == id) then (s, [.ob (.raiseDup id)])
      else
        let k := s.core.nmake
        let reg : List (Nat × Hook) := match h with | some h => (k, h) :: s.hooks | none => s.hooks
        if s.core.closed then
          ((exec cfg n (pendSt s h) (.fire k id (.err .clientError))).1, .made k id :: (exec cfg n (pendSt s h) (.fire k id (.err .clientError))).2)
        else
          let rq : Req := { serial := k, id, expect := ex, sent := false, cancelled := false }
          match s.core.proto with
          | some conn =>
            if s.core.wfail then
              ((exec cfg n (pendSt s h) (.fire k id (.err .writeError))).1, .made k id :: (exec cfg n (pendSt s h) (.fire k id (.err .writeError))).2)
            else
              let w : Ob := if s.core.losing then .writeLost conn k id else .write conn k id
              if ex then ({ s with core := { s.core with nmake := k + 1, reqs := s.core.reqs ++ [{ rq with sent := true }] }, hooks := reg },
                          [.ob w, .made k id])
              else
                ((exec cfg n (pendSt s h) (.fire k id .none)).1, [.ob w, .made k id] ++ (exec cfg n (pendSt s h) (.fire k id .none)).2)
          | none =>
            let c1 := { s.core with nmake := k + 1, reqs := s.core.reqs ++ [rq] }
            if s.core.connector = .none then
              ({ s with core := (connect_ c1).1, hooks := reg }, obs (connect_ c1).2 ++ [.made k id])
            else ({ s with core := c1, hooks := reg }, [.made k id]) := rfl

/-- the connector after `close()` -/
def closedConn : Connector → Connector
  | .attempt => .stale
  | .backoff _ => .stale
  | x => x

def closePre : Connector → List ObR
  | .attempt => [.ob .cancelConnect]
  | .backoff _ => [.ob .cancelTimer]
  | _ => []

/-- the state `close()` runs its pop loop in -/
def closeSt (s : StR) : StR :=
  match s.core.proto with
  | some _ => { s with core := { s.core with closed := true, losing := true } }
  | none =>
    if s.stubborn && s.core.connector == .attempt then
      { s with core := { s.core with closed := true, failures := 0, connector := .none, proto := some s.core.nconn,
                                     nconn := s.core.nconn + 1, losing := true, rbuf := [] } }
    else { s with core := { s.core with closed := true, connector := closedConn s.core.connector } }

theorem exec_close_eq (cfg : Cfg) (n : Nat) (s : StR) :
    exec cfg (n + 1) s .close =
      if s.core.closed then (s, [.ob .raiseAssert])
      else
        match s.core.proto with
        | some conn => ((exec cfg n (closeSt s) .closeLoop).1, [.closing, .ob (.lose conn)] ++ (exec cfg n (closeSt s) .closeLoop).2)
        | none =>
          if s.stubborn && s.core.connector == .attempt then
            ((exec cfg n (closeSt s) .closeLoop).1, [.closing, .ob .cancelConnect, .ob (.lose s.core.nconn)] ++ (exec cfg n (closeSt s) .closeLoop).2)
          else
            ((exec cfg n (closeSt s) .closeLoop).1, [.closing] ++ closePre s.core.connector ++ (exec cfg n (closeSt s) .closeLoop).2 ++ [.ob .down]) := by
  simp only [exec, closeSt, closedConn, closePre]
  split
  · rfl
  · split
    · rename_i hp; simp only [hp]
    · rename_i hp
      simp only [hp]
      split
      · rfl
      · cases s.core.connector <;> rfl


theorem exec_mono (cfg : Cfg) : ∀ (n : Nat) (s : StR) (task : Task), NoFuelOut (exec cfg n s task).2 →
    exec cfg (n + 1) s task = exec cfg n s task := by
  intro n
  induction n with
  | zero => intro s task hnf; exact absurd (by simp [exec]) hnf
  | succ n ih =>
    intro s task hnf
    cases task with
    | fire k id r =>
      rw [exec_fire_eq cfg n] at hnf
      rw [exec_fire_eq cfg (n + 1), exec_fire_eq cfg n]
      cases hl : lookupHook s.hooks k with
      | none => rfl
      | some h =>
        simp only [hl] at hnf ⊢
        rw [ih _ _ hnf.append_left.append_right]
    | fireAll l r =>
      cases l with
      | nil => rfl
      | cons p ps =>
        rw [exec_fireAll_cons cfg n] at hnf
        rw [exec_fireAll_cons cfg (n + 1), exec_fireAll_cons cfg n]
        rw [ih _ _ hnf.append_left, ih _ _ hnf.append_right]
    | acts as =>
      cases as with
      | nil => rfl
      | cons a as =>
        rw [exec_acts_cons cfg n] at hnf
        rw [exec_acts_cons cfg (n + 1), exec_acts_cons cfg n]
        rw [ih _ _ hnf.append_left, ih _ _ hnf.append_right]
    | act a =>
      cases a with
      | close => rw [exec_act_close cfg n] at hnf; rw [exec_act_close cfg (n + 1), exec_act_close cfg n]; exact ih _ _ hnf
      | disconnect => rfl
      | cancel id => rw [exec_act_cancel cfg n] at hnf; rw [exec_act_cancel cfg (n + 1), exec_act_cancel cfg n]; exact ih _ _ hnf
      | make id ex =>
        rw [exec_act_make cfg n] at hnf
        rw [exec_act_make cfg (n + 1), exec_act_make cfg n]
        split
        · rename_i hsy; rw [if_pos hsy] at hnf; exact ih _ _ hnf
        · rename_i hsy; rw [if_neg hsy] at hnf; exact ih _ _ hnf
    | make id ex h =>
      rw [exec_make_eq cfg n] at hnf
      rw [exec_make_eq cfg (n + 1), exec_make_eq cfg n]
      by_cases hd : s.core.reqs.any (fun r => r.id == id) = true
      · simp only [hd, if_true]
      · simp only [hd, Bool.false_eq_true, if_false] at hnf ⊢
        by_cases hc : s.core.closed = true
        · simp only [hc, if_true] at hnf ⊢
          rw [ih _ _ hnf.cons]
        · simp only [hc, Bool.false_eq_true, if_false] at hnf ⊢
          cases hp : s.core.proto with
          | some conn =>
            simp only [hp] at hnf ⊢
            by_cases hw : s.core.wfail = true
            · simp only [hw, if_true] at hnf ⊢
              rw [ih _ _ hnf.cons]
            · simp only [hw, Bool.false_eq_true, if_false] at hnf ⊢
              cases ex with
              | true => rfl
              | false =>
                simp only [Bool.false_eq_true, if_false] at hnf ⊢
                rw [ih _ _ hnf.append_right]
          | none => rfl
    | cancel id =>
      rw [exec_cancel_eq cfg n] at hnf
      rw [exec_cancel_eq cfg (n + 1), exec_cancel_eq cfg n]
      split
      · rename_i hany
        rw [if_pos hany] at hnf
        exact ih _ _ hnf
      · rfl
    | close =>
      rw [exec_close_eq cfg n] at hnf
      rw [exec_close_eq cfg (n + 1), exec_close_eq cfg n]
      by_cases hc : s.core.closed = true
      · simp only [hc, if_true]
      · simp only [hc, Bool.false_eq_true, if_false] at hnf ⊢
        cases hp : s.core.proto with
        | some conn =>
          simp only [hp] at hnf ⊢
          rw [ih _ _ hnf.append_right]
        | none =>
          simp only [hp] at hnf ⊢
          split
          · rename_i hst
            rw [if_pos hst] at hnf
            rw [ih _ _ hnf.append_right]
          · rename_i hst
            rw [if_neg hst] at hnf
            rw [ih _ _ hnf.append_left.append_right]
    | closeLoop =>
      rw [exec_closeLoop_eq cfg n] at hnf
      rw [exec_closeLoop_eq cfg (n + 1), exec_closeLoop_eq cfg n]
      cases hsel : (if closePopLast then s.core.reqs.getLast? else s.core.reqs.head?) with
      | none => rfl
      | some rq =>
        simp only [hsel] at hnf ⊢
        by_cases hc : rq.cancelled = true
        · simp only [hc, if_true] at hnf ⊢
          rw [ih _ _ hnf.append_right]
        · simp only [hc, Bool.false_eq_true, if_false] at hnf ⊢
          rw [ih _ _ hnf.append_left, ih _ _ hnf.append_right]
    | sendLoop conn snap =>
      cases snap with
      | nil => rfl
      | cons k ks =>
        rw [exec_sendLoop_cons cfg n] at hnf
        rw [exec_sendLoop_cons cfg (n + 1), exec_sendLoop_cons cfg n]
        cases hsel : s.core.reqs.filter (fun r => r.serial == k && !r.sent) with
        | nil =>
          simp only [hsel] at hnf ⊢
          exact ih _ _ hnf
        | cons rq rest =>
          simp only [hsel] at hnf ⊢
          by_cases hw : s.core.wfail = true
          · simp only [hw, if_true] at hnf ⊢
            rw [ih _ _ hnf.append_left, ih _ _ hnf.append_right]
          · simp only [hw, Bool.false_eq_true, if_false] at hnf ⊢
            by_cases he : rq.expect = true
            · simp only [he, if_true] at hnf ⊢
              rw [ih _ _ hnf.append_right]
            · simp only [he, Bool.false_eq_true, if_false] at hnf ⊢
              rw [ih _ _ hnf.append_left.cons, ih _ _ hnf.append_right]
    | frames conn fs f =>
      cases fs with
      | nil => rfl
      | cons b bs =>
        rw [exec_frames_cons cfg n] at hnf
        rw [exec_frames_cons cfg (n + 1), exec_frames_cons cfg n]
        cases hid : corrId b with
        | none =>
          simp only [hid] at hnf ⊢
          split
          · rfl
          · rename_i hsy
            rw [if_neg hsy] at hnf
            rw [ih _ _ hnf.cons]
        | some id =>
          simp only [hid] at hnf ⊢
          by_cases hany : s.core.reqs.any (fun r => r.id == id) = true
          · simp only [hany, if_true] at hnf ⊢
            rw [ih _ _ hnf.append_left, ih _ _ hnf.append_right]
          · simp only [hany, Bool.false_eq_true, if_false] at hnf ⊢
            rw [ih _ _ hnf.append_right]
    | makeS id ex h =>
      rw [exec_makeS_eq cfg n] at hnf
      rw [exec_makeS_eq cfg (n + 1), exec_makeS_eq cfg n]
      split
      · rename_i hcond
        rw [if_pos hcond] at hnf
        split
        · rename_i hsy
          simp only [hsy] at hnf ⊢
          rw [ih _ _ hnf.cons]
        · rfl
      · rename_i hcond
        rw [if_neg hcond] at hnf
        exact ih _ _ hnf
    | lost =>
      rw [exec_lost_eq cfg n] at hnf
      rw [exec_lost_eq cfg (n + 1), exec_lost_eq cfg n]
      split
      · rfl
      · rename_i hc
        rw [if_neg hc] at hnf
        split
        · rfl
        · rename_i he
          rw [if_neg he] at hnf
          exact ih _ _ hnf
    | dial =>
      rw [exec_dial_eq cfg n] at hnf
      rw [exec_dial_eq cfg (n + 1), exec_dial_eq cfg n]
      split
      · rfl
      · rename_i hc
        rw [if_neg hc] at hnf
        split
        · rfl
        · rfl
        · rename_i hsy
          simp only [hsy] at hnf ⊢
          rw [ih _ _ hnf.cons]

theorem exec_mono_le (cfg : Cfg) (s : StR) (task : Task) (n : Nat) (hnf : NoFuelOut (exec cfg n s task).2) :
    ∀ m, n ≤ m → exec cfg m s task = exec cfg n s task := by
  intro m hm
  induction m with
  | zero => have : n = 0 := by omega
            subst this; rfl
  | succ m ih =>
    by_cases h : n = m + 1
    · subst h; rfl
    · have e := ih (by omega)
      rw [exec_mono cfg m s task (by rw [e]; exact hnf), e]


/-! ## whole runs -/

/-- fuel that suffices for one top-level step from `s` -/
def evBound (s : StR) : EvR → Nat
  | .make id ex h => if s.sync = .none then bound s (.make id ex h) else bound s (.makeS id ex h)
  | .flat (.make id ex) => if s.sync = .none then bound s (.make id ex none) else bound s (.makeS id ex none)
  | .flat .lost => bound s .lost
  | .flat (.advance dt) => bound { s with core := { s.core with now := s.core.now + dt } } .dial
  | .flat (.cancel id) => bound s (.cancel id)
  | .flat .close => bound s .close
  | .flat .connOk =>
    bound { s with core := { s.core with failures := 0, connector := .none, proto := some s.core.nconn, nconn := s.core.nconn + 1,
                                         losing := false, rbuf := [] } } (.sendLoop s.core.nconn (s.core.reqs.map (·.serial)))
  | .flat (.bytesIn chunk) =>
    bound s (.frames (s.core.proto.getD 0) (feed s.core.rbuf chunk).frames (feed s.core.rbuf chunk))
  | _ => 0

theorem step_suffices (cfg : Cfg) (s : StR) (e : EvR) (fuel : Nat) (hf : evBound s e ≤ fuel) :
    NoFuelOut (stepRWith cfg fuel s e).2 ∧ stepRWith cfg fuel s e = stepRWith cfg (evBound s e) s e := by
  have key : ∀ (s' : StR) (t : Task), bound s' t ≤ fuel →
      NoFuelOut (exec cfg fuel s' t).2 ∧ exec cfg fuel s' t = exec cfg (bound s' t) s' t := by
    intro s' t hb
    have h0 := (termSpec cfg (bound s' t) s' t (Nat.le_refl _)).1
    have e := exec_mono_le cfg s' t (bound s' t) h0 fuel hb
    exact ⟨by rw [e]; exact h0, e⟩
  cases e with
  | make id ex h =>
    simp only [stepRWith, evBound] at hf ⊢
    split
    · rename_i hsy; rw [if_pos hsy] at hf; exact key s (.make id ex h) hf
    · rename_i hsy; rw [if_neg hsy] at hf; exact key s (.makeS id ex h) hf
  | stubborn on => exact ⟨by simp [stepRWith, NoFuelOut], rfl⟩
  | syncMode sm => exact ⟨by simp [stepRWith, NoFuelOut], rfl⟩
  | cancelMode k => exact ⟨by simp [stepRWith, NoFuelOut], rfl⟩
  | flat e =>
    cases e with
    | make id ex =>
      simp only [stepRWith, evBound] at hf ⊢
      split
      · rename_i hsy; rw [if_pos hsy] at hf; exact key s (.make id ex none) hf
      · rename_i hsy; rw [if_neg hsy] at hf; exact key s (.makeS id ex none) hf
    | cancel id => exact key s (.cancel id) hf
    | close => exact key s .close hf
    | connOk =>
      simp only [stepRWith]
      split
      · split
        · exact ⟨by simp [NoFuelOut], rfl⟩
        · exact key _ _ hf
      · exact ⟨by simp [NoFuelOut], rfl⟩
    | bytesIn chunk =>
      simp only [stepRWith]
      split
      · exact ⟨by simp [NoFuelOut], rfl⟩
      · split
        · exact ⟨by simp [NoFuelOut], rfl⟩
        · rename_i c hp hl
          have := key s (.frames c (feed s.core.rbuf chunk).frames (feed s.core.rbuf chunk)) (by simpa [evBound, hp] using hf)
          simpa [evBound, hp] using this
    | connFail => exact ⟨noFuelOut_obs _, rfl⟩
    | advance dt =>
      simp only [stepRWith, evBound] at hf ⊢
      split
      · exact ⟨noFuelOut_obs _, rfl⟩
      · split
        · exact ⟨by simp [NoFuelOut], rfl⟩
        · split
          · split
            · exact key _ _ hf
            · exact ⟨by simp [NoFuelOut], rfl⟩
          · exact ⟨by simp [NoFuelOut], rfl⟩
    | lost =>
      simp only [stepRWith, evBound] at hf ⊢
      split
      · exact ⟨noFuelOut_obs _, rfl⟩
      · split
        · exact ⟨by simp [NoFuelOut], rfl⟩
        · exact key s .lost hf
    | disconnect => exact ⟨noFuelOut_obs _, rfl⟩
    | updateMetadata a b => exact ⟨noFuelOut_obs _, rfl⟩
    | writeFail b => exact ⟨noFuelOut_obs _, rfl⟩

/-- for every event list some amount of fuel suffices, and then every larger amount does -/
theorem fuel_suffices (cfg : Cfg) (evs : List EvR) : ∀ s : StR, ∃ N, ∀ fuel, N ≤ fuel →
    ∀ t ∈ traceRWith cfg fuel s evs, NoFuelOut t.2 := by
  induction evs with
  | nil => intro s; exact ⟨0, fun _ _ t ht => by simp [traceRWith] at ht⟩
  | cons e es ih =>
    intro s
    obtain ⟨N', hN'⟩ := ih (stepRWith cfg (evBound s e) s e).1
    refine ⟨max (evBound s e) N', ?_⟩
    intro fuel hfuel t ht
    obtain ⟨h1, h2⟩ := step_suffices cfg s e fuel (by omega)
    simp only [traceRWith, List.mem_cons] at ht
    rcases ht with rfl | ht
    · exact h1
    · rw [h2] at ht
      exact hN' fuel (by omega) t ht

end Afkak.BrokerClientR
