import AfkakProofs.BrokerClient.Inv
namespace Afkak.BrokerClient
open Afkak.Frame Afkak.Consts

theorem sendObs_noConnect (s : St) (c : Nat) (r : Req) (a b : Nat) : Ob.connect a b ∉ sendObs s c r := by
  simp only [sendObs]
  split
  · simp
  · split <;> split <;> simp

theorem handleFrames_noConnect (fs : List Bytes) (a b : Nat) : ∀ s : St, Ob.connect a b ∉ (handleFrames s fs).2.1 := by
  induction fs with
  | nil => intro s; simp [handleFrames]
  | cons f fs ih =>
    intro s
    simp only [handleFrames]
    split
    · simp
    · intro hm
      rcases List.mem_append.mp hm with hm | hm
      · simp only [handleResponse] at hm
        split at hm <;> simp at hm
      · exact ih _ hm

theorem lostStep_connect (s : St) (a b : Nat) (h : Ob.connect a b ∈ (lostStep s).2) : a = s.host ∧ b = s.port := by
  simp only [lostStep, connect_, tryConnect] at h
  split at h
  · simp at h
  · split at h
    · simp at h
    · simpa using h

/-- whenever the client dials, it dials the address it holds at that moment -/
theorem connect_addr (cfg : Cfg) (s : St) (e : Ev) (a b : Nat) (h : Ob.connect a b ∈ (step cfg s e).2) :
    a = s.host ∧ b = s.port := by
  cases e with
  | make id ex =>
    simp only [step] at h
    split at h
    · simp at h
    · split at h
      · simp at h
      · split at h
        · exact absurd h (sendObs_noConnect _ _ _ _ _)
        · simp only [connect_, tryConnect] at h
          split at h
          · simpa using h
          · simp at h
  | cancel id =>
    simp only [step] at h
    split at h <;> simp at h
  | connOk =>
    simp only [step] at h
    split at h
    · split at h
      · simp at h
      · simp only [sendQueued] at h
        obtain ⟨r, _, hr⟩ := List.mem_flatMap.mp h
        split at hr
        · simp at hr
        · exact absurd hr (sendObs_noConnect _ _ _ _ _)
    · simp at h
  | connFail =>
    simp only [step] at h
    split at h
    · split at h <;> simp at h
    · simp at h
  | advance dt =>
    simp only [step, tryConnect] at h
    split at h
    · simp at h
    · split at h
      · split at h
        · simpa using h
        · simp at h
      · simp at h
  | bytesIn chunk =>
    simp only [step] at h
    split at h
    · simp at h
    · split at h
      · simp at h
      · have hf := handleFrames_frame s (feed s.rbuf chunk).frames
        have hnc := handleFrames_noConnect (feed s.rbuf chunk).frames a b s
        split at h
        · rcases List.mem_append.mp h with h | h
          · exact absurd h hnc
          · have := lostStep_connect _ a b h
            rw [hf] at this
            exact this
        · split at h
          · rcases List.mem_append.mp h with h | h
            · exact absurd h hnc
            · simp at h
          · exact absurd h hnc
  | lost =>
    simp only [step] at h
    split at h
    · simp at h
    · exact lostStep_connect s a b h
  | close =>
    simp only [step] at h
    split at h
    · simp at h
    · split at h
      · simp at h
      · split at h <;> simp at h
  | disconnect =>
    simp only [step] at h
    split at h <;> simp at h
  | updateMetadata x y => simp [step] at h
  | writeFail x => simp [step] at h

end Afkak.BrokerClient
