import Afkak.BrokerClientR
import AfkakProofs.BrokerClient.Inv
/-!
# Re-entrant model: a Deferred fires with response bytes only for a packet of THIS `dataReceived` carrying its id
-/
namespace Afkak.BrokerClientR
open Afkak.Frame Afkak.BrokerClient Afkak.Consts

/-- where an `ok` firing may come from, by task -/
def OkSrc : Task → Int → Bytes → Prop
  | .fire _ id (.ok b'), i, b => i = id ∧ b = b'
  | .fireAll l (.ok b'), i, b => b = b' ∧ ∃ k, (k, i) ∈ l
  | .frames _ fs _, i, b => b ∈ fs ∧ corrId b = some i
  | _, _, _ => False

def IsOk (o : ObR) (i : Int) (b : Bytes) : Prop := ∃ k, o = .ob (.fire k i (.ok b))

theorem not_isOk_obs (os : List Ob) (i : Int) (b : Bytes) (h : ∀ k, Ob.fire k i (.ok b) ∉ os) :
    ∀ o ∈ obs os, ¬ IsOk o i b := by
  intro o ho ⟨k, hk⟩
  subst hk
  simp only [obs, List.mem_map] at ho
  obtain ⟨x, hx, he⟩ := ho
  cases he
  exact h k hx

theorem lostStep_noOk (c : St) (i : Int) (b : Bytes) : ∀ k, Ob.fire k i (.ok b) ∉ (lostStep c).2 := by
  intro k
  simp only [lostStep, connect_, tryConnect]
  split
  · simp
  · split <;> simp

theorem okSrc_exec (cfg : Cfg) : ∀ (n : Nat) (s : StR) (task : Task) (i : Int) (b : Bytes) (o : ObR),
    o ∈ (exec cfg n s task).2 → IsOk o i b → OkSrc task i b := by
  intro n
  induction n with
  | zero =>
    intro s task i b o ho ⟨k, hk⟩
    subst hk
    simp [exec] at ho
  | succ n ih =>
    intro s task i b o ho hok
    obtain ⟨k0, hk0⟩ := hok
    have hok : IsOk o i b := ⟨k0, hk0⟩
    cases task with
    | fire k id r =>
      simp only [exec] at ho
      split at ho
      · simp only [List.mem_singleton] at ho
        rw [hk0] at ho
        cases ho
        exact ⟨rfl, rfl⟩
      · simp only [List.mem_append, List.mem_cons, List.mem_singleton, List.not_mem_nil, or_false] at ho
        rcases ho with ((ho | ho) | ho) | ho
        · rw [hk0] at ho; cases ho; exact ⟨rfl, rfl⟩
        · rw [hk0] at ho; cases ho
        · exact (ih _ _ i b o ho hok).elim
        · rw [hk0] at ho; cases ho
    | fireAll l r =>
      cases l with
      | nil => simp [exec] at ho
      | cons p ps =>
        simp only [exec, List.mem_append] at ho
        rcases ho with ho | ho
        · have := ih _ _ i b o ho hok
          cases r with
          | ok b' => exact ⟨this.2, p.1, by rw [this.1]; simp⟩
          | none => exact this.elim
          | err e => exact this.elim
        · have := ih _ _ i b o ho hok
          cases r with
          | ok b' => obtain ⟨h1, k, hk⟩ := this; exact ⟨h1, k, List.mem_cons_of_mem _ hk⟩
          | none => exact this.elim
          | err e => exact this.elim
    | acts h =>
      cases h with
      | nil => simp [exec] at ho
      | cons a as =>
        simp only [exec, List.mem_append] at ho
        rcases ho with ho | ho
        · exact (ih _ _ i b o ho hok).elim
        · exact (ih _ _ i b o ho hok).elim
    | act a =>
      cases a with
      | close => simp only [exec] at ho; exact (ih _ _ i b o ho hok).elim
      | disconnect =>
        simp only [exec] at ho
        refine (not_isOk_obs _ i b ?_ o ho hok).elim
        intro k; simp only [step]; split <;> simp
      | cancel id => simp only [exec] at ho; exact (ih _ _ i b o ho hok).elim
      | make id ex =>
        simp only [exec] at ho
        split at ho <;> exact (ih _ _ i b o ho hok).elim
    | make id ex h =>
      simp only [exec] at ho
      by_cases hd : s.core.reqs.any (fun r => r.id == id) = true
      · simp only [hd, if_true, List.mem_singleton] at ho
        subst ho; simp [IsOk] at hok
      · simp only [hd, Bool.false_eq_true, if_false] at ho
        by_cases hc : s.core.closed = true
        · simp only [hc, if_true, List.mem_cons] at ho
          rcases ho with ho | ho
          · subst ho; simp [IsOk] at hok
          · exact (ih _ _ i b o ho hok).elim
        · simp only [hc, Bool.false_eq_true, if_false] at ho
          cases hp : s.core.proto with
          | some conn =>
            simp only [hp] at ho
            by_cases hw : s.core.wfail = true
            · simp only [hw, if_true, List.mem_cons] at ho
              rcases ho with ho | ho
              · subst ho; simp [IsOk] at hok
              · exact (ih _ _ i b o ho hok).elim
            · simp only [hw, Bool.false_eq_true, if_false] at ho
              by_cases hex : ex = true
              · simp only [hex, if_true, List.mem_cons, List.mem_singleton, List.not_mem_nil, or_false] at ho
                rcases ho with ho | ho
                · subst ho; split at hok <;> simp [IsOk] at hok
                · subst ho; simp [IsOk] at hok
              · simp only [hex, Bool.false_eq_true, if_false, List.mem_append, List.mem_cons, List.mem_singleton,
                  List.not_mem_nil, or_false] at ho
                rcases ho with (ho | ho) | ho
                · subst ho; split at hok <;> simp [IsOk] at hok
                · subst ho; simp [IsOk] at hok
                · exact (ih _ _ i b o ho hok).elim
          | none =>
            simp only [hp] at ho
            by_cases hcn : s.core.connector = .none
            · simp only [hcn, if_true, List.mem_append, List.mem_singleton] at ho
              rcases ho with ho | ho
              · exact (not_isOk_obs _ i b (by intro k; simp [connect_, tryConnect]) o ho hok).elim
              · subst ho; simp [IsOk] at hok
            · simp only [hcn, if_false, List.mem_singleton] at ho
              subst ho; simp [IsOk] at hok
    | cancel id =>
      simp only [exec] at ho
      split at ho
      · exact (ih _ _ i b o ho hok).elim
      · simp only [List.mem_singleton] at ho
        subst ho; simp [IsOk] at hok
    | close =>
      simp only [exec] at ho
      by_cases hc : s.core.closed = true
      · simp only [hc, if_true, List.mem_singleton] at ho
        subst ho; simp [IsOk] at hok
      · simp only [hc, Bool.false_eq_true, if_false] at ho
        cases hp : s.core.proto with
        | some conn =>
          simp only [hp, List.mem_append, List.mem_cons, List.mem_singleton, List.not_mem_nil, or_false] at ho
          rcases ho with (ho | ho) | ho
          · subst ho; simp [IsOk] at hok
          · subst ho; simp [IsOk] at hok
          · exact (ih _ _ i b o ho hok).elim
        | none =>
          simp only [hp] at ho
          split at ho
          · simp only [List.mem_append, List.mem_cons, List.mem_singleton, List.not_mem_nil, or_false] at ho
            rcases ho with (ho | ho | ho) | ho
            · subst ho; simp [IsOk] at hok
            · subst ho; simp [IsOk] at hok
            · subst ho; simp [IsOk] at hok
            · exact (ih _ _ i b o ho hok).elim
          · simp only [List.mem_append, List.mem_cons, List.mem_singleton, List.not_mem_nil, or_false] at ho
            rcases ho with ((ho | ho) | ho) | ho
            · subst ho; simp [IsOk] at hok
            · split at ho <;> simp at ho <;> (subst ho; simp [IsOk] at hok)
            · exact (ih _ _ i b o ho hok).elim
            · subst ho; simp [IsOk] at hok
    | closeLoop =>
      simp only [exec] at ho
      split at ho
      · simp at ho
      · simp only [List.mem_append] at ho
        rcases ho with ho | ho
        · split at ho
          · simp at ho
          · exact (ih _ _ i b o ho hok).elim
        · exact (ih _ _ i b o ho hok).elim
    | sendLoop c snap =>
      cases snap with
      | nil => simp [exec] at ho
      | cons k ks =>
        simp only [exec] at ho
        split at ho
        · exact (ih _ _ i b o ho hok).elim
        · simp only [List.mem_append] at ho
          rcases ho with ho | ho
          · split at ho
            · exact (ih _ _ i b o ho hok).elim
            · split at ho
              · simp only [List.mem_singleton] at ho
                subst ho; split at hok <;> simp [IsOk] at hok
              · rcases List.mem_cons.mp ho with ho | ho
                · subst ho; split at hok <;> simp [IsOk] at hok
                · exact (ih _ _ i b o ho hok).elim
          · exact (ih _ _ i b o ho hok).elim
    | frames c fs f =>
      cases fs with
      | nil =>
        simp only [exec] at ho
        split at ho
        · simp only [List.mem_singleton] at ho; subst ho; simp [IsOk] at hok
        · simp at ho
      | cons b0 bs =>
        simp only [exec] at ho
        cases hid : corrId b0 with
        | none =>
          simp only [hid] at ho
          split at ho
          · rcases List.mem_cons.mp ho with ho | ho
            · subst ho; simp [IsOk] at hok
            · exact (not_isOk_obs _ i b (lostStep_noOk _ i b) o ho hok).elim
          · rcases List.mem_cons.mp ho with ho | ho
            · subst ho; simp [IsOk] at hok
            · exact (ih _ _ i b o ho hok).elim
        | some id =>
          simp only [hid, List.mem_append] at ho
          rcases ho with ho | ho
          · split at ho
            · obtain ⟨h1, k, hk⟩ := ih _ _ i b o ho hok
              simp only [List.mem_map, List.mem_filter, Prod.mk.injEq] at hk
              obtain ⟨r, ⟨_, hcond⟩, _, hri⟩ := hk
              simp only [Bool.and_eq_true, beq_iff_eq] at hcond
              refine ⟨by rw [h1]; simp, ?_⟩
              rw [h1, hid, ← hri, hcond.1]
            · simp only [List.mem_singleton] at ho
              subst ho; simp [IsOk] at hok
          · obtain ⟨h1, h2⟩ := ih _ _ i b o ho hok
            exact ⟨List.mem_cons_of_mem _ h1, h2⟩
    | makeS id ex h =>
      simp only [exec] at ho
      split at ho
      · cases hsy : s.sync with
        | ok =>
          simp only [hsy] at ho
          rcases List.mem_cons.mp ho with ho | ho
          · subst ho; simp [IsOk] at hok
          · exact (ih _ _ i b o ho hok).elim
        | none =>
          simp only [hsy, List.mem_cons, List.mem_singleton, List.not_mem_nil, or_false] at ho
          rcases ho with ho | ho | ho <;> (subst ho; simp [IsOk] at hok)
        | fail =>
          simp only [hsy, List.mem_cons, List.mem_singleton, List.not_mem_nil, or_false] at ho
          rcases ho with ho | ho | ho <;> (subst ho; simp [IsOk] at hok)
      · exact (ih _ _ i b o ho hok).elim
    | lost =>
      simp only [exec] at ho
      split at ho
      · simp only [List.mem_singleton] at ho; subst ho; simp [IsOk] at hok
      · split at ho
        · simp at ho
        · exact (ih _ _ i b o ho hok).elim
    | dial =>
      simp only [exec] at ho
      split at ho
      · simp only [List.mem_singleton] at ho; subst ho; simp [IsOk] at hok
      · cases hsy : s.sync with
        | none =>
          simp only [hsy, List.mem_singleton] at ho
          subst ho; simp [IsOk] at hok
        | fail =>
          simp only [hsy, List.mem_cons, List.mem_singleton, List.not_mem_nil, or_false] at ho
          rcases ho with ho | ho <;> (subst ho; simp [IsOk] at hok)
        | ok =>
          simp only [hsy] at ho
          rcases List.mem_cons.mp ho with ho | ho
          · subst ho; simp [IsOk] at hok
          · exact (ih _ _ i b o ho hok).elim

/-- Re-entrant model, any state, any fuel, any event: an `ok` firing anywhere in the step — at top level or inside
    callbacks nested to any depth — happens only in a `dataReceived` step on a readable connection, with a packet that
    THIS call completed and that carries the request's correlation id. -/
theorem own_response_R (cfg : Cfg) (fuel : Nat) (s : StR) (e : EvR) (i : Int) (b : Bytes) (o : ObR)
    (ho : o ∈ (stepRWith cfg fuel s e).2) (hok : IsOk o i b) :
    ∃ chunk conn, e = .flat (.bytesIn chunk) ∧ s.core.proto = some conn ∧ s.core.losing = false ∧
      b ∈ (feed s.core.rbuf chunk).frames ∧ corrId b = some i := by
  have flatNo : ∀ (os : List Ob), (∀ k, Ob.fire k i (.ok b) ∉ os) → o ∈ obs os → False :=
    fun os h hm => not_isOk_obs os i b h o hm hok
  cases e with
  | make id ex h =>
    simp only [stepRWith] at ho
    split at ho <;> exact (okSrc_exec cfg _ _ _ i b o ho hok).elim
  | stubborn on => simp [stepRWith] at ho
  | syncMode m => simp [stepRWith] at ho
  | cancelMode k => simp [stepRWith] at ho
  | flat e =>
    cases e with
    | make id ex =>
      simp only [stepRWith] at ho
      split at ho <;> exact (okSrc_exec cfg _ _ _ i b o ho hok).elim
    | cancel id => simp only [stepRWith] at ho; exact (okSrc_exec cfg _ _ _ i b o ho hok).elim
    | close => simp only [stepRWith] at ho; exact (okSrc_exec cfg _ _ _ i b o ho hok).elim
    | connOk =>
      simp only [stepRWith] at ho
      split at ho
      · split at ho
        · simp only [List.mem_singleton] at ho; subst ho; simp [IsOk] at hok
        · exact (okSrc_exec cfg _ _ _ i b o ho hok).elim
      · simp only [List.mem_singleton] at ho; subst ho; simp [IsOk] at hok
    | bytesIn chunk =>
      simp only [stepRWith] at ho
      cases hp : s.core.proto with
      | none => simp only [hp, List.mem_singleton] at ho; subst ho; simp [IsOk] at hok
      | some conn =>
        simp only [hp] at ho
        by_cases hl : s.core.losing = true
        · simp only [hl, if_true, List.mem_singleton] at ho; subst ho; simp [IsOk] at hok
        · have hl' : s.core.losing = false := by simpa using hl
          simp only [hl', Bool.false_eq_true, if_false] at ho
          obtain ⟨h1, h2⟩ := okSrc_exec cfg _ _ _ i b o ho hok
          exact ⟨chunk, conn, rfl, rfl, hl', h1, h2⟩
    | lost =>
      simp only [stepRWith] at ho
      split at ho
      · refine (flatNo _ ?_ ho).elim
        intro k; simp only [step]; split
        · simp
        · exact lostStep_noOk _ i b k
      · split at ho
        · simp only [List.mem_singleton] at ho; subst ho; simp [IsOk] at hok
        · exact (okSrc_exec cfg _ _ _ i b o ho hok).elim
    | advance dt =>
      simp only [stepRWith] at ho
      split at ho
      · refine (flatNo _ ?_ ho).elim
        intro k; simp only [step, tryConnect]; split
        · simp
        · split
          · split <;> simp
          · simp
      · split at ho
        · simp only [List.mem_singleton] at ho; subst ho; simp [IsOk] at hok
        · split at ho
          · split at ho
            · exact (okSrc_exec cfg _ _ _ i b o ho hok).elim
            · simp at ho
          · simp at ho
    | connFail =>
      simp only [stepRWith] at ho
      refine (flatNo _ ?_ ho).elim
      intro k; simp only [step]; split
      · split <;> simp
      · simp
    | disconnect =>
      simp only [stepRWith] at ho
      refine (flatNo _ ?_ ho).elim
      intro k; simp only [step]; split <;> simp
    | updateMetadata x y => simp only [stepRWith] at ho; exact (flatNo _ (by intro k; simp [step]) ho).elim
    | writeFail x => simp only [stepRWith] at ho; exact (flatNo _ (by intro k; simp [step]) ho).elim

end Afkak.BrokerClientR
