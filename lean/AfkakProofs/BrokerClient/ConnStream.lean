import AfkakProofs.BrokerClient.Inv
import AfkakProofs.BrokerClient.Frame
/-!
# Framing is per connection

`connBytes` is a ghost: the bytes the protocol of the CURRENT connection has been handed so far (reset whenever the
connection changes: a new one is established, or the current one is gone).  `CInv` ties the model's `_unprocessed`
(`rbuf`) to it: while the connection is being read, `rbuf` is exactly what `IntNStringReceiver`'s loop leaves of
THIS connection's bytes — so the packets handled on a connection are the parse of the bytes of that connection
and of nothing else; in particular a partial frame pending when a connection drops never reaches the next one.
-/
namespace Afkak.BrokerClient
open Afkak.Frame Afkak.Consts

/-- the ghost after one step from `s` (with ghost `acc`) on `e` that led to `s'` -/
def accStep (s : St) (acc : Bytes) (e : Ev) (s' : St) : Bytes :=
  if s'.proto ≠ s.proto then []
  else match e with
    | .bytesIn chunk => if s.proto.isSome && !s.losing then acc ++ chunk else acc
    | _ => acc

/-- bytes handed to the protocol of the connection that is current at the end of the run -/
def connBytes (cfg : Cfg) : St → Bytes → List Ev → Bytes
  | _, acc, [] => acc
  | s, acc, e :: es => connBytes cfg (step cfg s e).1 (accStep s acc e (step cfg s e).1) es

structure CInv (s : St) (acc : Bytes) : Prop where
  idle : s.proto = none → acc = [] ∧ s.rbuf = []
  reading : s.proto ≠ none → s.losing = false →
    (parse kafkaMaxLength acc).exceeded = false ∧ s.rbuf = (parse kafkaMaxLength acc).rest

theorem cinv_init (a b : Nat) : CInv (St.init a b) [] := by
  constructor <;> simp [St.init]

theorem lostStep_proto (s : St) : (lostStep s).1.proto = none ∧ (lostStep s).1.rbuf = [] := by
  simp only [lostStep, connect_, tryConnect]
  split
  · exact ⟨rfl, rfl⟩
  · split <;> exact ⟨rfl, rfl⟩

theorem sendQueued_frame (s : St) (c : Nat) :
    (sendQueued s c).1.proto = s.proto ∧ (sendQueued s c).1.rbuf = s.rbuf ∧ (sendQueued s c).1.losing = s.losing := by
  simp [sendQueued]

theorem handleFrames_conn (fs : List Bytes) (s : St) :
    (handleFrames s fs).1.proto = s.proto ∧ (handleFrames s fs).1.rbuf = s.rbuf ∧ (handleFrames s fs).1.losing = s.losing := by
  rw [handleFrames_frame s fs]; exact ⟨rfl, rfl, rfl⟩

theorem cinv_step (cfg : Cfg) (s : St) (acc : Bytes) (e : Ev) (hs : SInv s) (h : CInv s acc) :
    CInv (step cfg s e).1 (accStep s acc e (step cfg s e).1) := by
  have hrb := hs.rbufConn
  cases e with
  | make id ex =>
    have hp : (step cfg s (.make id ex)).1.proto = s.proto ∧ (step cfg s (.make id ex)).1.rbuf = s.rbuf ∧
        (step cfg s (.make id ex)).1.losing = s.losing := by
      simp only [step, connect_, tryConnect]
      split
      · exact ⟨rfl, rfl, rfl⟩
      · split
        · exact ⟨rfl, rfl, rfl⟩
        · split
          · exact ⟨rfl, rfl, rfl⟩
          · split <;> exact ⟨rfl, rfl, rfl⟩
    simp only [accStep, hp.1, ne_eq, not_true_eq_false, if_false]
    constructor
    · rw [hp.1, hp.2.1]; exact h.idle
    · rw [hp.1, hp.2.1, hp.2.2]; exact h.reading
  | cancel id =>
    have hp : (step cfg s (.cancel id)).1.proto = s.proto ∧ (step cfg s (.cancel id)).1.rbuf = s.rbuf ∧
        (step cfg s (.cancel id)).1.losing = s.losing := by
      simp only [step]
      split <;> exact ⟨rfl, rfl, rfl⟩
    simp only [accStep, hp.1, ne_eq, not_true_eq_false, if_false]
    constructor
    · rw [hp.1, hp.2.1]; exact h.idle
    · rw [hp.1, hp.2.1, hp.2.2]; exact h.reading
  | connOk =>
    simp only [step]
    split
    · rename_i hat
      have hpn : s.proto = none := by
        cases hp : s.proto with
        | none => rfl
        | some c => have := hs.connConnector (by simp [hp]); simp [this] at hat
      split
      · simp only [accStep, hpn]
        constructor
        · intro h0; simp at h0
        · intro _ h1; simp at h1
      · have sq := sendQueued_frame
          { s with failures := 0, connector := .none, proto := some s.nconn, nconn := s.nconn + 1, losing := false, rbuf := [] }
          s.nconn
        simp only [accStep, sq.1, hpn]
        constructor
        · intro h0; simp [sq.1] at h0
        · intro _ _
          rw [sq.2.1]
          simp [parse_short]
    · simp only [accStep, ne_eq, not_true_eq_false, if_false]; exact h
  | connFail =>
    have hp : (step cfg s .connFail).1.proto = s.proto ∧ (step cfg s .connFail).1.rbuf = s.rbuf ∧
        (step cfg s .connFail).1.losing = s.losing := by
      simp only [step]
      split
      · split <;> exact ⟨rfl, rfl, rfl⟩
      · exact ⟨rfl, rfl, rfl⟩
    simp only [accStep, hp.1, ne_eq, not_true_eq_false, if_false]
    constructor
    · rw [hp.1, hp.2.1]; exact h.idle
    · rw [hp.1, hp.2.1, hp.2.2]; exact h.reading
  | advance dt =>
    have hp : (step cfg s (.advance dt)).1.proto = s.proto ∧ (step cfg s (.advance dt)).1.rbuf = s.rbuf ∧
        (step cfg s (.advance dt)).1.losing = s.losing := by
      simp only [step, tryConnect]
      split
      · exact ⟨rfl, rfl, rfl⟩
      · split
        · split <;> exact ⟨rfl, rfl, rfl⟩
        · exact ⟨rfl, rfl, rfl⟩
    simp only [accStep, hp.1, ne_eq, not_true_eq_false, if_false]
    constructor
    · rw [hp.1, hp.2.1]; exact h.idle
    · rw [hp.1, hp.2.1, hp.2.2]; exact h.reading
  | bytesIn chunk =>
    simp only [step]
    cases hp : s.proto with
    | none =>
      simp only [accStep, hp, ne_eq, not_true_eq_false, if_false, Option.isSome_none, Bool.false_and,
        Bool.false_eq_true]
      exact h
    | some c =>
      simp only
      by_cases hl : s.losing = true
      · simp only [hl, if_true, accStep, hp, ne_eq, not_true_eq_false, if_false, Option.isSome_some, Bool.not_true,
          Bool.and_false, Bool.false_eq_true]
        exact h
      · have hl' : s.losing = false := by simpa using hl
        simp only [hl', Bool.false_eq_true, if_false]
        obtain ⟨hex, hrest⟩ := h.reading (by simp [hp]) hl'
        have hf := handleFrames_conn (feed s.rbuf chunk).frames s
        have hfeed := feedWith_eq_parse kafkaMaxLength s.rbuf chunk
        have hap := parse_append kafkaMaxLength acc.length acc chunk (Nat.le_refl _)
        simp only [hex, Bool.false_eq_true, if_false] at hap
        rw [← hrest] at hap
        split
        · -- an exception escaped: `connectionLost` at once
          have l := lostStep_proto (handleFrames s (feed s.rbuf chunk).frames).1
          simp only [accStep, l.1, hp]
          constructor
          · intro _; exact ⟨by simp, l.2⟩
          · intro h0; exact absurd l.1 h0
        · split
          · -- over-long prefix: `loseConnection()`
            simp only [accStep, hf.1, hp, ne_eq, not_true_eq_false, if_false, Option.isSome_some, hl', Bool.not_false,
              Bool.and_self, if_true]
            constructor
            · intro h0; simp at h0
            · intro _ h1; simp at h1
          · rename_i _ hne
            simp only [accStep, hf.1, hp, ne_eq, not_true_eq_false, if_false, Option.isSome_some, hl', Bool.not_false,
              Bool.and_self, if_true]
            have hne' : (feed s.rbuf chunk).exceeded = false := by simpa using hne
            simp only [feed] at hne' ⊢
            rw [hfeed] at hne' ⊢
            simp only at hne' ⊢
            constructor
            · intro h0; simp at h0
            · intro _ _
              rw [hap]
              simp only [hne', Bool.false_eq_true, if_false]
              trivial
  | lost =>
    simp only [step]
    cases hp : s.proto with
    | none => simp only [accStep, hp, ne_eq, not_true_eq_false, if_false]; exact h
    | some c =>
      have l := lostStep_proto s
      simp only [accStep, l.1, hp]
      constructor
      · intro _; exact ⟨by simp, l.2⟩
      · intro h0; exact absurd l.1 h0
  | close =>
    have hp : (step cfg s .close).1.proto = s.proto ∧ (step cfg s .close).1.rbuf = s.rbuf ∧
        (s.proto ≠ none → (step cfg s .close).1.losing = false → s.losing = false) := by
      simp only [step]
      split
      · exact ⟨rfl, rfl, fun _ h => h⟩
      · split
        · rename_i c hc
          exact ⟨rfl, rfl, fun _ h => by simp at h⟩
        · rename_i hn
          split <;> exact ⟨rfl, rfl, fun h0 _ => absurd hn h0⟩
    simp only [accStep, hp.1, ne_eq, not_true_eq_false, if_false]
    constructor
    · rw [hp.1, hp.2.1]; exact h.idle
    · rw [hp.1, hp.2.1]; intro h0 h1; exact h.reading h0 (hp.2.2 h0 h1)
  | disconnect =>
    have hp : (step cfg s .disconnect).1.proto = s.proto ∧ (step cfg s .disconnect).1.rbuf = s.rbuf ∧
        (s.proto ≠ none → (step cfg s .disconnect).1.losing = false → False) := by
      simp only [step]
      split
      · exact ⟨rfl, rfl, fun _ h => by simp at h⟩
      · rename_i hn; exact ⟨rfl, rfl, fun h0 _ => h0 hn⟩
    simp only [accStep, hp.1, ne_eq, not_true_eq_false, if_false]
    constructor
    · rw [hp.1, hp.2.1]; exact h.idle
    · rw [hp.1, hp.2.1]; intro h0 h1; exact absurd (hp.2.2 h0 h1) id
  | updateMetadata a b =>
    simp only [step, accStep, ne_eq, not_true_eq_false, if_false]
    exact ⟨h.idle, h.reading⟩
  | writeFail b =>
    simp only [step, accStep, ne_eq, not_true_eq_false, if_false]
    exact ⟨h.idle, h.reading⟩

theorem cinv_run (cfg : Cfg) (es : List Ev) : ∀ (s : St) (acc : Bytes), SInv s → CInv s acc →
    CInv (run cfg s es) (connBytes cfg s acc es) := by
  induction es with
  | nil => intro s acc _ h; exact h
  | cons e es ih =>
    intro s acc hs h
    simp only [run, connBytes]
    exact ih _ _ (sinv_step cfg s e hs) (cinv_step cfg s acc e hs h)

/-- the packets the next chunk delivers are exactly what parsing (this connection's bytes so far ++ chunk) adds -/
theorem next_chunk_frames (s : St) (acc : Bytes) (h : CInv s acc) (hp : s.proto ≠ none) (hl : s.losing = false)
    (chunk : Bytes) :
    (parse kafkaMaxLength (acc ++ chunk)).frames = (parse kafkaMaxLength acc).frames ++ (feed s.rbuf chunk).frames ∧
    (parse kafkaMaxLength (acc ++ chunk)).exceeded = (feed s.rbuf chunk).exceeded := by
  obtain ⟨hex, hrest⟩ := h.reading hp hl
  have hap := parse_append kafkaMaxLength acc.length acc chunk (Nat.le_refl _)
  simp only [hex, Bool.false_eq_true, if_false] at hap
  rw [← hrest] at hap
  simp only [feed]
  rw [feedWith_eq_parse, hap]
  exact ⟨rfl, rfl⟩

end Afkak.BrokerClient
