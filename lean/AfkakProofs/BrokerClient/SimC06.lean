import Afkak.Monitor.C06
import AfkakProofs.BrokerClient.Inv
/-!
# The broker-client model satisfies the C06 monitor

`abs06` maps a model state to the monitor state an observer would have; `sim06_step` shows that every
step of the model is accepted by `Monitor.C06.mstep` and lands in the abstraction of the next state.
-/
namespace Afkak.BrokerClient
open Afkak.Frame Afkak.Monitor.C06

def proj (r : Req) : Live := ⟨r.serial, r.id, r.expect⟩
def absLive (reqs : List Req) : List Live := (reqs.filter (fun r => !r.cancelled)).map proj

def abs06 (s : St) : MSt :=
  { live := absLive s.reqs, nmake := s.nmake, conn := s.proto, nconn := s.nconn,
    reading := s.proto.isSome && !s.losing, buf := s.rbuf, closed := s.closed, wfail := s.wfail }

@[simp] theorem fires_nil : fires [] = [] := rfl
@[simp] theorem fires_cons_fire (k i r os) : fires (.fire k i r :: os) = (k, i, r) :: fires os := rfl
theorem fires_append (a b : List Ob) : fires (a ++ b) = fires a ++ fires b := by
  induction a with
  | nil => rfl
  | cons o a ih => cases o <;> simp_all [fires]

theorem fires_map_fire {α} (l : List α) (f : α → Nat) (g : α → Int) (h : α → Res) :
    fires (l.map (fun r => Ob.fire (f r) (g r) (h r))) = l.map (fun r => (f r, g r, h r)) := by
  induction l with
  | nil => rfl
  | cons a l ih => simp [fires, ih]

theorem absLive_append (a b : List Req) : absLive (a ++ b) = absLive a ++ absLive b := by
  simp [absLive]

theorem sim06_simple (cfg : Cfg) (s : St) (h : SInv s) :
    (∀ a b, mstep (abs06 s) (.updateMetadata a b, (step cfg s (.updateMetadata a b)).2) = some (abs06 (step cfg s (.updateMetadata a b)).1)) ∧
    (∀ b, mstep (abs06 s) (.writeFail b, (step cfg s (.writeFail b)).2) = some (abs06 (step cfg s (.writeFail b)).1)) ∧
    (mstep (abs06 s) (.disconnect, (step cfg s .disconnect).2) = some (abs06 (step cfg s .disconnect).1)) ∧
    (mstep (abs06 s) (.connFail, (step cfg s .connFail).2) = some (abs06 (step cfg s .connFail).1)) ∧
    (∀ dt, mstep (abs06 s) (.advance dt, (step cfg s (.advance dt)).2) = some (abs06 (step cfg s (.advance dt)).1)) := by
  refine ⟨?_, ?_, ?_, ?_, ?_⟩
  · intro a b; simp [step, mstep, abs06]
  · intro b; simp [step, mstep, abs06]
  · simp only [step]; split <;> simp_all [mstep, abs06, fires]
  · simp only [step]; split <;> (try split) <;> simp [mstep, abs06, fires]
  · intro dt; simp only [step, tryConnect]; split
    · simp [mstep, abs06, fires]
    · split <;> (try split) <;> simp [mstep, abs06, fires]


theorem absLive_lost (reqs : List Req) :
    absLive ((reqs.filter (fun r => !r.cancelled)).map (fun r => { r with sent := false })) = absLive reqs := by
  induction reqs with
  | nil => rfl
  | cons r rs ih =>
    simp only [absLive] at ih ⊢
    by_cases hc : r.cancelled <;> simp_all [proj]

theorem abs06_lostStep (s : St) :
    abs06 (lostStep s).1 = { abs06 s with conn := none, reading := false, buf := [] } ∧ fires (lostStep s).2 = [] ∧
      isBad (lostStep s).2 = false := by
  simp only [lostStep, connect_, tryConnect]
  split <;> (try split) <;> simp [abs06, absLive_lost, fires, isBad]

theorem sim06_lost (cfg : Cfg) (s : St) :
    mstep (abs06 s) (.lost, (step cfg s .lost).2) = some (abs06 (step cfg s .lost).1) := by
  simp only [step]
  split
  · simp [mstep, fires, isBad]
  · obtain ⟨h1, h2, h3⟩ := abs06_lostStep s
    simp [mstep, h1, h2, h3]

theorem absLive_cancel (reqs : List Req) (id : Int) :
    absLive ((reqs.filter (fun r => r.id != id || r.sent)).map (fun r => if r.id == id then { r with cancelled := true } else r))
      = (absLive reqs).filter (fun l => l.id != id) := by
  induction reqs with
  | nil => rfl
  | cons r rs ih =>
    simp only [absLive] at ih ⊢
    by_cases hi : r.id = id <;> by_cases hs : r.sent <;> by_cases hc : r.cancelled <;> simp_all [proj]

theorem absLive_filter_id (reqs : List Req) (id : Int) :
    (absLive reqs).filter (fun l => l.id == id) = (reqs.filter (fun r => r.id == id && !r.cancelled)).map proj := by
  induction reqs with
  | nil => rfl
  | cons r rs ih =>
    simp only [absLive] at ih ⊢
    by_cases hi : r.id = id <;> by_cases hc : r.cancelled <;> simp_all [proj]

theorem sim06_cancel (cfg : Cfg) (s : St) (id : Int) :
    mstep (abs06 s) (.cancel id, (step cfg s (.cancel id)).2) = some (abs06 (step cfg s (.cancel id)).1) := by
  simp only [step]
  split
  · have hfire : fires ((s.reqs.filter (fun r => r.id == id && !r.cancelled)).map (fun r => Ob.fire r.serial r.id (.err .cancelled)))
        = ((abs06 s).live.filter (fun l => l.id == id)).map (fun l => (l.serial, l.id, Res.err .cancelled)) := by
      rw [fires_map_fire]
      show _ = ((absLive s.reqs).filter _).map _
      rw [absLive_filter_id, List.map_map]
      rfl
    simp only [mstep, hfire, beq_self_eq_true, if_true]
    congr 1
    simp only [abs06]
    rw [absLive_cancel]
  · rename_i hn
    have : (absLive s.reqs).filter (fun l => l.id == id) = [] := by
      rw [absLive_filter_id]
      simp only [List.map_eq_nil_iff, List.filter_eq_nil_iff]
      intro r hr
      simp only [List.any_eq_true, not_exists, not_and] at hn
      exact hn r hr
    have h2 : (absLive s.reqs).filter (fun l => l.id != id) = absLive s.reqs := by
      rw [List.filter_eq_self]
      intro l hl
      have := List.filter_eq_nil_iff.mp this l hl
      simpa using this
    simp [mstep, fires, abs06, this, h2]


theorem contains_false_of {o : Ob} {os : List Ob} (h : ∀ x ∈ os, x ≠ o) : os.contains o = false := by
  rw [Bool.eq_false_iff]
  intro hc
  rw [List.contains_iff_mem] at hc
  exact h _ hc rfl

theorem sameSet_refl (l : List (Nat × Int × Res)) : sameSet l l = true := by
  simp [sameSet, List.isPerm_iff]

theorem sameSet_reverse (l : List (Nat × Int × Res)) : sameSet l.reverse l = true := by
  simp [sameSet, List.isPerm_iff, List.reverse_perm]

theorem fires_not_fire (o : Ob) (os : List Ob) (h : ∀ k i r, o ≠ .fire k i r) : fires (o :: os) = fires os := by
  cases o <;> simp_all [fires]

theorem closeFires_eq (s : St) :
    fires (((if Afkak.Consts.closePopLast then s.reqs.reverse else s.reqs).filter (fun r => !r.cancelled)).map
        (fun r => Ob.fire r.serial r.id (.err .clientError)))
      = (if Afkak.Consts.closePopLast then ((absLive s.reqs).map (fun l => (l.serial, l.id, Res.err .clientError))).reverse
         else (absLive s.reqs).map (fun l => (l.serial, l.id, Res.err .clientError))) := by
  rw [fires_map_fire]
  split <;> simp [absLive, List.map_map, Function.comp_def, proj, List.filter_reverse]

theorem sim06_close (cfg : Cfg) (s : St) :
    mstep (abs06 s) (.close, (step cfg s .close).2) = some (abs06 (step cfg s .close).1) := by
  simp only [step]
  split
  · rename_i hc
    simp [mstep, fires]
  · rename_i hc
    have hss : ∀ (pre post : List Ob), (∀ o ∈ pre, ∀ k i r, o ≠ .fire k i r) → (∀ o ∈ post, ∀ k i r, o ≠ .fire k i r) →
        sameSet (fires (pre ++ ((if Afkak.Consts.closePopLast then s.reqs.reverse else s.reqs).filter (fun r => !r.cancelled)).map
          (fun r => Ob.fire r.serial r.id (.err .clientError)) ++ post))
          ((abs06 s).live.map fun l => (l.serial, l.id, Res.err .clientError)) = true := by
      intro pre post hpre hpost
      have e1 : fires pre = [] := by
        induction pre with
        | nil => rfl
        | cons o pre ih => rw [fires_not_fire o pre (hpre o (by simp))]; exact ih (fun o ho => hpre o (by simp [ho]))
      have e2 : fires post = [] := by
        induction post with
        | nil => rfl
        | cons o post ih => rw [fires_not_fire o post (hpost o (by simp))]; exact ih (fun o ho => hpost o (by simp [ho]))
      rw [fires_append, fires_append, e1, e2, closeFires_eq]
      show sameSet _ ((absLive s.reqs).map _) = true
      split <;> simp [sameSet_refl, sameSet_reverse]
    split
    · rename_i c hp
      have := hss [.lose c] [] (by simp) (by simp)
      simp only [List.append_nil, List.singleton_append] at this
      have hna := contains_false_of (o := .raiseAssert) (os := Ob.lose c :: ((if Afkak.Consts.closePopLast then s.reqs.reverse else s.reqs).filter (fun r => !r.cancelled)).map (fun r => Ob.fire r.serial r.id (.err .clientError))) (by grind)
      simp only [mstep, hna, this]
      simp [abs06, absLive, hp]
    · rename_i hp
      split
      · have := hss [.cancelConnect] [.down] (by simp) (by simp)
        simp only [List.singleton_append] at this
        have hna := contains_false_of (o := .raiseAssert) (os := Ob.cancelConnect :: (((if Afkak.Consts.closePopLast then s.reqs.reverse else s.reqs).filter (fun r => !r.cancelled)).map (fun r => Ob.fire r.serial r.id (.err .clientError)) ++ [.down])) (by grind)
        simp only [mstep, hna, this]
        simp [abs06, absLive, hp]
      · have := hss [.cancelTimer] [.down] (by simp) (by simp)
        simp only [List.singleton_append] at this
        have hna := contains_false_of (o := .raiseAssert) (os := Ob.cancelTimer :: (((if Afkak.Consts.closePopLast then s.reqs.reverse else s.reqs).filter (fun r => !r.cancelled)).map (fun r => Ob.fire r.serial r.id (.err .clientError)) ++ [.down])) (by grind)
        simp only [mstep, hna, this]
        simp [abs06, absLive, hp]
      · have := hss [] [.down] (by simp) (by simp)
        simp only [List.nil_append] at this
        have hna := contains_false_of (o := .raiseAssert) (os := (((if Afkak.Consts.closePopLast then s.reqs.reverse else s.reqs).filter (fun r => !r.cancelled)).map (fun r => Ob.fire r.serial r.id (.err .clientError)) ++ [.down])) (by grind)
        simp only [mstep, hna, this]
        simp [abs06, absLive, hp]
      · have := hss [] [.down] (by simp) (by simp)
        simp only [List.nil_append] at this
        have hna := contains_false_of (o := .raiseAssert) (os := (((if Afkak.Consts.closePopLast then s.reqs.reverse else s.reqs).filter (fun r => !r.cancelled)).map (fun r => Ob.fire r.serial r.id (.err .clientError)) ++ [.down])) (by grind)
        simp only [mstep, hna, this]
        simp [abs06, absLive, hp]


/-- the firings `_sendQueued` causes when nothing has been sent yet -/
def sqFires (wfail : Bool) (reqs : List Req) : List (Nat × Int × Res) :=
  if wfail then reqs.map (fun r => (r.serial, r.id, Res.err .writeError))
  else (reqs.filter (fun r => !r.expect)).map (fun r => (r.serial, r.id, Res.none))

theorem fires_sendQueued (s1 : St) (c : Nat) (reqs : List Req) (hun : ∀ r ∈ reqs, r.sent = false) :
    fires (reqs.flatMap (fun r => if r.sent then [] else sendObs s1 c r)) = sqFires s1.wfail reqs := by
  induction reqs with
  | nil => simp [sqFires]
  | cons r rs ih =>
    have h1 := hun r (by simp)
    have ih' := ih (fun r hr => hun r (by simp [hr]))
    simp only [List.flatMap_cons, fires_append, ih', h1]
    simp only [sqFires, sendObs]
    by_cases hw : s1.wfail <;> by_cases hl : s1.losing <;> by_cases he : r.expect <;> simp [hw, hl, he, fires]

theorem mem_sendQueued_write (s1 : St) (c : Nat) (reqs : List Req) (hun : ∀ r ∈ reqs, r.sent = false)
    (hw : s1.wfail = false) (hl : s1.losing = false) (r : Req) (hr : r ∈ reqs) :
    (reqs.flatMap (fun r => if r.sent then [] else sendObs s1 c r)).contains (.write c r.serial r.id) = true := by
  rw [List.contains_iff_mem, List.mem_flatMap]
  exact ⟨r, hr, by simp [hun r hr, sendObs, hw, hl]⟩

theorem sendQueued_quiet (s1 : St) (c : Nat) (reqs : List Req) (o : Ob) (ho : o = .badOp ∨ o = .lose c) :
    (reqs.flatMap (fun r => if r.sent then [] else sendObs s1 c r)).contains o = false := by
  apply contains_false_of
  intro x hx
  rw [List.mem_flatMap] at hx
  obtain ⟨r, _, hx⟩ := hx
  simp only [sendObs] at hx
  rcases ho with rfl | rfl <;> grind

theorem serial_inj (reqs : List Req) (hpw : reqs.Pairwise (fun a b => a.serial < b.serial)) :
    ∀ r ∈ reqs, ∀ r' ∈ reqs, r.serial = r'.serial → r = r' := by
  induction reqs with
  | nil => simp
  | cons a l ih =>
    rw [List.pairwise_cons] at hpw
    intro r hr r' hr' he
    simp only [List.mem_cons] at hr hr'
    rcases hr with rfl | hr <;> rcases hr' with rfl | hr'
    · rfl
    · have := hpw.1 r' hr'; omega
    · have := hpw.1 r hr; omega
    · exact ih hpw.2 r hr r' hr' he

theorem absLive_all_live (reqs : List Req) (h : ∀ r ∈ reqs, r.cancelled = false) : absLive reqs = reqs.map proj := by
  simp only [absLive]
  rw [List.filter_eq_self.mpr]
  intro r hr; simp [h r hr]

theorem nodup_serials_sub (reqs : List Req) (p : Req → Bool) (hpw : reqs.Pairwise (fun a b => a.serial < b.serial)) :
    ((reqs.filter p).map (·.serial)).Nodup := by
  have h1 : ((reqs.filter p).map (·.serial)).Pairwise (· < ·) := (hpw.filter p).map _ (fun _ _ h => h)
  exact h1.imp (fun h => Nat.ne_of_lt h)

theorem sim_sendQueued (s1 : St) (c : Nat) (m : MSt)
    (hun : ∀ r ∈ s1.reqs, r.sent = false) (hunc : ∀ r ∈ s1.reqs, r.cancelled = false)
    (hpw : s1.reqs.Pairwise (fun a b => a.serial < b.serial))
    (hlive : m.live = s1.reqs.map proj) (hc : m.nconn = c) (hl : s1.losing = false) (hw : m.wfail = s1.wfail) :
    mstep m (.connOk, (sendQueued s1 c).2) =
      some { m with conn := some c, nconn := c + 1, reading := true, buf := [], live := absLive (sendQueued s1 c).1.reqs } := by
  have hbad := sendQueued_quiet s1 c s1.reqs .badOp (Or.inl rfl)
  have hlose := sendQueued_quiet s1 c s1.reqs (.lose c) (Or.inr rfl)
  have hf := fires_sendQueued s1 c s1.reqs hun
  simp only [sendQueued, mstep, isBad, hbad, hf, hc, hlose, Bool.false_eq_true, if_false, Bool.not_false]
  have hlegit : ((sqFires s1.wfail s1.reqs).all fun x =>
      m.live.any fun l =>
        l.serial == x.fst && l.id == x.2.fst &&
          (x.2.snd == Res.none && !l.expect && !m.wfail &&
              (List.flatMap (fun r => if r.sent = true then [] else sendObs s1 c r) s1.reqs).contains
                (Ob.write c x.fst x.2.fst) ||
            x.2.snd == Res.err ErrKind.writeError && m.wfail)) = true := by
    rw [List.all_eq_true]
    intro x hx
    rw [List.any_eq_true]
    simp only [sqFires] at hx
    cases hwf : s1.wfail
    · simp only [hwf, Bool.false_eq_true, if_false, List.mem_map, List.mem_filter] at hx
      obtain ⟨r, ⟨hr, hre⟩, rfl⟩ := hx
      refine ⟨proj r, by rw [hlive]; exact List.mem_map_of_mem hr, ?_⟩
      have := mem_sendQueued_write s1 c s1.reqs hun hwf hl r hr
      simp_all [proj]
    · simp only [hwf, if_true, List.mem_map] at hx
      obtain ⟨r, hr, rfl⟩ := hx
      refine ⟨proj r, by rw [hlive]; exact List.mem_map_of_mem hr, ?_⟩
      simp_all [proj]
  have hnd : (List.map (fun x => x.fst) (sqFires s1.wfail s1.reqs)).Nodup := by
    simp only [sqFires]
    split
    · rw [List.map_map]
      have := nodup_serials_sub s1.reqs (fun _ => true) hpw
      rw [List.filter_eq_self.mpr (by simp)] at this
      exact this
    · rw [List.map_map]
      exact nodup_serials_sub s1.reqs (fun r => !r.expect) hpw
  have hfilt : List.filter (fun l => !(List.map (fun x => x.fst) (sqFires s1.wfail s1.reqs)).contains l.serial) m.live
      = absLive (List.map (fun r => { serial := r.serial, id := r.id, expect := r.expect, sent := true, cancelled := r.cancelled })
              (List.filter (fun r => r.sent || keepAfterSend s1 r) s1.reqs)) := by
    rw [hlive, List.filter_map]
    have hrhs : absLive (List.map (fun r => { serial := r.serial, id := r.id, expect := r.expect, sent := true, cancelled := r.cancelled })
              (List.filter (fun r => r.sent || keepAfterSend s1 r) s1.reqs))
        = (List.filter (fun r => r.sent || keepAfterSend s1 r) s1.reqs).map proj := by
      rw [absLive_all_live]
      · rw [List.map_map]; rfl
      · intro r hr
        simp only [List.mem_map, List.mem_filter] at hr
        obtain ⟨r0, ⟨hr0, _⟩, rfl⟩ := hr
        exact hunc r0 hr0
    rw [hrhs]
    congr 1
    apply List.filter_congr
    intro r hr
    simp only [Function.comp_def, proj, keepAfterSend, hun r hr, Bool.false_or]
    cases hwf : s1.wfail
    · simp only [sqFires, hwf, Bool.false_eq_true, if_false, List.map_map, Bool.not_false, Bool.and_true]
      cases he : r.expect
      · simp only [Bool.not_eq_eq_eq_not, Bool.not_false, List.contains_iff_mem, List.mem_map, List.mem_filter, Function.comp_def]
        exact ⟨r, ⟨hr, by simp [he]⟩, rfl⟩
      · simp only [Bool.not_eq_eq_eq_not, Bool.not_true]
        rw [Bool.eq_false_iff]
        intro hc
        rw [List.contains_iff_mem] at hc
        simp only [List.mem_map, List.mem_filter, Function.comp_def] at hc
        obtain ⟨r', ⟨hr', he'⟩, hs⟩ := hc
        have := serial_inj s1.reqs hpw r' hr' r hr hs
        subst this
        simp_all
    · simp only [sqFires, hwf, if_true, List.map_map, Bool.not_true, Bool.and_false, Bool.not_eq_eq_eq_not, Bool.not_false,
        List.contains_iff_mem, List.mem_map, Function.comp_def]
      exact ⟨r, hr, rfl⟩
  rw [hlegit, hfilt]
  simp [hnd]

theorem sim06_connOk (cfg : Cfg) (s : St) (h : SInv s) :
    mstep (abs06 s) (.connOk, (step cfg s .connOk).2) = some (abs06 (step cfg s .connOk).1) := by
  simp only [step]
  split
  · rename_i hatt
    have hp : s.proto = none := by
      cases hq : s.proto with
      | none => rfl
      | some c => have := h.connConnector (by simp [hq]); simp_all
    have hcl : s.closed = false := by
      cases hc : s.closed
      · rfl
      · have := h.closedConnector hc; simp_all
    have hun : ∀ r ∈ s.reqs, r.sent = false := h.discUnsent hp
    have hunc : ∀ r ∈ s.reqs, r.cancelled = false := by
      intro r hr
      cases hc : r.cancelled
      · rfl
      · have := h.cancSent r hr hc; have := hun r hr; simp_all
    rw [if_neg (by simp [hcl])]
    have key := sim_sendQueued { s with failures := 0, connector := .none, proto := some s.nconn, nconn := s.nconn + 1, losing := false, rbuf := [] }
      s.nconn (abs06 s) hun hunc h.serials (absLive_all_live s.reqs hunc) rfl rfl rfl
    rw [key]
    simp [abs06, sendQueued]
  · simp [mstep, isBad, fires]


theorem sim06_make (cfg : Cfg) (s : St) (id : Int) (ex : Bool) :
    mstep (abs06 s) (.make id ex, (step cfg s (.make id ex)).2) = some (abs06 (step cfg s (.make id ex)).1) := by
  simp only [step]
  split
  · simp [mstep, fires]
  · split
    · rename_i hcl
      simp [mstep, fires, abs06, hcl]
    · rename_i hcl
      have hcl' : s.closed = false := by simpa using hcl
      split
      · rename_i c hp
        simp only [sendObs, keepAfterSend]
        by_cases hw : s.wfail = true <;> by_cases hl : s.losing = true <;> cases ex <;>
          simp [mstep, fires, abs06, hcl', hp, hw, hl, absLive_append, absLive, proj]
      · rename_i hp
        simp only [connect_, tryConnect]
        split <;> simp [mstep, fires, abs06, hcl', hp, absLive_append, absLive, proj]


theorem absLive_filter_ne (reqs : List Req) (id : Int) :
    absLive (reqs.filter (fun r => r.id != id)) = (absLive reqs).filter (fun l => l.id != id) := by
  induction reqs with
  | nil => rfl
  | cons r rs ih =>
    simp only [absLive] at ih ⊢
    by_cases hi : r.id = id <;> by_cases hc : r.cancelled <;> simp_all [proj]

theorem fires_handleResponse (s : St) (id : Int) (f : Bytes) :
    fires (handleResponse s id f).2 = ((absLive s.reqs).filter (fun l => l.id == id)).map (fun l => (l.serial, l.id, Res.ok f)) := by
  simp only [handleResponse]
  rw [absLive_filter_id, List.map_map]
  split
  · rw [fires_map_fire]; rfl
  · rename_i hn
    have : s.reqs.filter (fun r => r.id == id && !r.cancelled) = [] := by
      rw [List.filter_eq_nil_iff]
      intro r hr
      simp only [List.any_eq_true, not_exists, not_and] at hn
      have := hn r hr
      simp_all
    simp [this, fires]

/-- observations of `handleFrames` are firings, `unexpected` and `raiseUnderflow` only -/
theorem handleFrames_obs (s : St) (fs : List Bytes) :
    ∀ o ∈ (handleFrames s fs).2.1, (∃ k i r, o = .fire k i r) ∨ (∃ i, o = .unexpected i) ∨ o = .raiseUnderflow := by
  induction fs generalizing s with
  | nil => simp [handleFrames]
  | cons f fs ih =>
    simp only [handleFrames]
    split
    · simp
    · intro o ho
      simp only [List.mem_append] at ho
      rcases ho with ho | ho
      · simp only [handleResponse] at ho
        split at ho
        · simp only [List.mem_map] at ho
          obtain ⟨r, _, rfl⟩ := ho
          exact Or.inl ⟨_, _, _, rfl⟩
        · simp only [List.mem_singleton] at ho
          exact Or.inr (Or.inl ⟨_, ho⟩)
      · exact ih _ o ho

theorem handleFrames_deliver (s : St) (fs : List Bytes) :
    fires (handleFrames s fs).2.1 = (deliver (absLive s.reqs) fs).1 ∧
    absLive (handleFrames s fs).1.reqs = (deliver (absLive s.reqs) fs).2.1 ∧
    (handleFrames s fs).2.2 = (deliver (absLive s.reqs) fs).2.2 := by
  induction fs generalizing s with
  | nil => simp [handleFrames, deliver, fires]
  | cons f fs ih =>
    cases hid : corrId f with
    | none => simp [handleFrames, deliver, hid, fires]
    | some id =>
      simp only [handleFrames, deliver, hid]
      obtain ⟨i1, i2, i3⟩ := ih (handleResponse s id f).1
      have e : (handleResponse s id f).1.reqs = s.reqs.filter (fun r => r.id != id) := rfl
      rw [e, absLive_filter_ne] at i1 i2 i3
      refine ⟨?_, ?_, ?_⟩
      · rw [fires_append, fires_handleResponse, i1]
      · exact i2
      · exact i3


theorem sim06_bytesIn (cfg : Cfg) (s : St) (chunk : Bytes) :
    mstep (abs06 s) (.bytesIn chunk, (step cfg s (.bytesIn chunk)).2) = some (abs06 (step cfg s (.bytesIn chunk)).1) := by
  simp only [step]
  split
  · simp [mstep, isBad, fires]
  · rename_i c hp
    split
    · simp [mstep, isBad, fires]
    · rename_i hl
      have hl' : s.losing = false := by simpa using hl
      obtain ⟨d1, d2, d3⟩ := handleFrames_deliver s (feed s.rbuf chunk).frames
      have hfr := handleFrames_frame s (feed s.rbuf chunk).frames
      have hobs := handleFrames_obs s (feed s.rbuf chunk).frames
      have hnb : ∀ (extra : List Ob), (∀ x ∈ extra, x ≠ .badOp) →
          ((handleFrames s (feed s.rbuf chunk).frames).2.1 ++ extra).contains .badOp = false := by
        intro extra he
        apply contains_false_of
        intro x hx
        simp only [List.mem_append] at hx
        rcases hx with hx | hx
        · rcases hobs x hx with ⟨_, _, _, rfl⟩ | ⟨_, rfl⟩ | rfl <;> simp
        · exact he x hx
      have hnl : (handleFrames s (feed s.rbuf chunk).frames).2.1.contains (.lose c) = false := by
        apply contains_false_of
        intro x hx
        rcases hobs x hx with ⟨_, _, _, rfl⟩ | ⟨_, rfl⟩ | rfl <;> simp
      split
      · rename_i hr
        obtain ⟨l1, l2, l3⟩ := abs06_lostStep (handleFrames s (feed s.rbuf chunk).frames).1
        have hnb' := hnb (lostStep (handleFrames s (feed s.rbuf chunk).frames).1).2 (by
          intro x hx hb; subst hb
          have : isBad (lostStep (handleFrames s (feed s.rbuf chunk).frames).1).2 = true := by
            simp only [isBad]; rw [List.contains_iff_mem]; exact hx
          simp [l3] at this)
        simp only [mstep, isBad, hnb', fires_append, l2, List.append_nil, d1]
        rw [l1, hfr]
        simp only [abs06, hp, hl', d3.symm, hr]
        simp [← d2]
      · rename_i hr
        have hr' : (deliver (absLive s.reqs) (feed s.rbuf chunk).frames).2.2 = false := by rw [← d3]; simpa using hr
        split
        · rename_i hex
          have hnb' := hnb [.lose c] (by simp)
          simp only [mstep, isBad, hnb', fires_append, d1]
          rw [hfr]
          simp [abs06, hp, hl', hr', hex, fires, ← d2]
        · rename_i hex
          have hnb' := hnb [] (by simp)
          simp only [List.append_nil] at hnb'
          simp only [mstep, isBad, hnb', d1]
          rw [hfr]
          have hnl' : ¬ Ob.lose c ∈ (handleFrames s (feed s.rbuf chunk).frames).2.1 := by
            intro hm; rw [← List.contains_iff_mem, hnl] at hm; exact Bool.false_ne_true hm
          simp [abs06, hp, hl', hr', hex, hnl', ← d2]

theorem sim06_step (cfg : Cfg) (s : St) (e : Ev) (h : SInv s) :
    mstep (abs06 s) (e, (step cfg s e).2) = some (abs06 (step cfg s e).1) := by
  obtain ⟨h1, h2, h3, h4, h5⟩ := sim06_simple cfg s h
  cases e with
  | make id ex => exact sim06_make cfg s id ex
  | cancel id => exact sim06_cancel cfg s id
  | connOk => exact sim06_connOk cfg s h
  | connFail => exact h4
  | advance dt => exact h5 dt
  | bytesIn c => exact sim06_bytesIn cfg s c
  | lost => exact sim06_lost cfg s
  | close => exact sim06_close cfg s
  | disconnect => exact h3
  | updateMetadata a b => exact h1 a b
  | writeFail b => exact h2 b

theorem sim06_run (cfg : Cfg) (s : St) (es : List Ev) (h : SInv s) :
    mrun (abs06 s) (trace cfg s es) = some (abs06 (run cfg s es)) := by
  induction es generalizing s with
  | nil => rfl
  | cons e es ih =>
    simp only [trace, mrun, run, sim06_step cfg s e h]
    exact ih _ (sinv_step cfg s e h)

theorem abs06_init (a b : Nat) : abs06 (St.init a b) = MSt.init := rfl

end Afkak.BrokerClient
