import Afkak.ClientNet
import Afkak.BrokerClient
import Afkak.Monitor.C10
import AfkakProofs.BrokerClient.Inv
import AfkakProofs.BrokerClient.SimC06

/-
  Composition of the broker client (C06/C10, `Afkak/BrokerClient.lean`) with the client layer's timeout
  wrapper `_make_request_to_broker` (`Afkak/ClientNet.lean`, owned by package "client"; imported, not
  edited).  `ClientNet` treats the broker client as environment: its down-calls are observations
  (`mk`, `bcCancel`, `bcDisconnect`, `bcClose`), replies are events.  The adapter `down` turns the
  down-calls into broker-client events.  What had to be assumed to line the two up is the `Link`:
  request `k` of the client layer carries correlation id `cid k` and was made on instance `bOf k`
  (`ClientNet.makeRequest` records the latter as `q.b`).
-/
namespace Afkak.Compose
open Afkak.BrokerClient Afkak.Frame Afkak.Consts

/-! ## the adapter -/

/-- how the client layer's request numbers map onto the broker client's vocabulary: the correlation
    id request `k` carries and the broker client instance it was made on -/
structure Link where
  cid : Nat → Int
  bOf : Nat → Nat

/-- a down-call of the client layer as an event of broker client `b` -/
def down (L : Link) : ClientNet.Ob → Option (Nat × Ev)
  | .mk k b expect _ => some (b, .make (L.cid k) expect)
  | .bcCancel k => some (L.bOf k, .cancel (L.cid k))
  | .bcDisconnect b => some (b, .disconnect)
  | .bcClose b => some (b, .close)
  | _ => none

/-- the events the observations of a client-layer step are for broker client `b`, in order -/
def downFor (L : Link) (b : Nat) (obs : List ClientNet.Ob) : List Ev :=
  obs.filterMap fun o => match down L o with
    | some (b', e) => if b' = b then some e else none
    | none => none

/-! ## the client layer's side: what `_mrtb_timeout` calls -/

theorem wrapper_timeout_calls (cfg : ClientNet.Cfg) (st : ClientNet.St) (k : Nat) (q : ClientNet.Req)
    (hq : ClientNet.reqGet st k = some q) (hp : q.pending = true) :
    (ClientNet.exec cfg st (.timeoutFired k)).2.1 = [.bcCancel k, .fired k (some .cancelled)] ∧
    ∃ acts, (ClientNet.exec cfg st (.timeoutFired k)).2.2 = acts ++ (if cfg.disconnectOnTimeout then [.disconnect q.b] else []) := by
  simp only [ClientNet.exec, hq, hp]
  exact ⟨rfl, _, rfl⟩

theorem wrapper_disconnect_call (cfg : ClientNet.Cfg) (st : ClientNet.St) (b : Nat) :
    ClientNet.exec cfg st (.disconnect b) = (st, [.bcDisconnect b], []) := rfl

/-- with `disconnect_on_timeout`, what reaches the broker client of the timed-out request from
    `_mrtb_timeout` itself: `cancel` of that request's Deferred, then `disconnect()` -/
theorem wrapper_timeout_downcalls (L : Link) (cfg : ClientNet.Cfg) (st st' : ClientNet.St) (k : Nat) (q : ClientNet.Req)
    (hq : ClientNet.reqGet st k = some q) (hp : q.pending = true) (hb : L.bOf k = q.b) :
    downFor L q.b (ClientNet.exec cfg st (.timeoutFired k)).2.1 = [.cancel (L.cid k)] ∧
    downFor L q.b (ClientNet.exec cfg st' (.disconnect q.b)).2.1 = [.disconnect] := by
  rw [(wrapper_timeout_calls cfg st k q hq hp).1, wrapper_disconnect_call]
  simp [downFor, down, hb]


/-! ## the broker client's side -/

/-- the table once the timed-out request is gone and the connection is lost: every other uncancelled
    request, in issue order, to be written again -/
def remaining (s : St) (id : Int) : List Req :=
  (s.reqs.filter (fun r => r.id != id && !r.cancelled)).map (fun r => { r with sent := false })

theorem filter_id_live (reqs : List Req) (hids : reqs.Pairwise (fun a b => a.id ≠ b.id)) (rq : Req) (hrq : rq ∈ reqs)
    (hlive : rq.cancelled = false) : reqs.filter (fun r => r.id == rq.id && !r.cancelled) = [rq] := by
  induction reqs with
  | nil => cases hrq
  | cons a l ih =>
    rw [List.pairwise_cons] at hids
    rcases List.mem_cons.mp hrq with rfl | hm
    · have : l.filter (fun r => r.id == rq.id && !r.cancelled) = [] := by
        rw [List.filter_eq_nil_iff]
        intro r hr hc
        simp only [Bool.and_eq_true, beq_iff_eq] at hc
        exact hids.1 r hr hc.1.symm
      simp [List.filter_cons, hlive, this]
    · have hne : a.id ≠ rq.id := hids.1 rq hm
      simp [List.filter_cons, hne, ih hids.2 hm]

/-- `cancel` of an outstanding request errbacks exactly that request, at once (what the client layer's
    synchronous `fired k (some .cancelled)` assumes) -/
theorem cancel_fires_now (cfg : Cfg) (s : St) (h : SInv s) (rq : Req) (hrq : rq ∈ s.reqs) (hlive : rq.cancelled = false) :
    (step cfg s (.cancel rq.id)).2 = [.fire rq.serial rq.id (.err .cancelled)] := by
  have hany : s.reqs.any (fun r => r.id == rq.id && !r.cancelled) = true := by
    rw [List.any_eq_true]; exact ⟨rq, hrq, by simp [hlive]⟩
  simp only [step, hany, if_true, filter_id_live s.reqs h.ids rq hrq hlive, List.map_cons, List.map_nil]

theorem trace_append (cfg : Cfg) (s : St) (a b : List Ev) :
    trace cfg s (a ++ b) = trace cfg s a ++ trace cfg (run cfg s a) b := by
  induction a generalizing s with
  | nil => rfl
  | cons e es ih => simp only [List.cons_append, trace, run, ih]

theorem rem_eq (reqs : List Req) (id : Int) :
    ((reqs.map (fun r => if r.id == id then { r with cancelled := true } else r)).filter (fun r => !r.cancelled)).map
      (fun r => { r with sent := false }) =
    (reqs.filter (fun r => r.id != id && !r.cancelled)).map (fun r => { r with sent := false }) := by
  induction reqs with
  | nil => rfl
  | cons a l ih =>
    by_cases hi : a.id = id
    · simp only [List.map_cons, beq_iff_eq, hi, if_true, List.filter_cons, Bool.not_true, Bool.false_eq_true, if_false,
        bne_self_eq_false, Bool.false_and]
      simpa using ih
    · cases hc : a.cancelled
      · simp only [List.map_cons, beq_iff_eq, hi, if_false, List.filter_cons, hc, Bool.not_false, if_true,
          bne_iff_ne, ne_eq, not_false_eq_true, Bool.and_true, decide_true]
        congr 1
        simpa using ih
      · simp only [List.map_cons, beq_iff_eq, hi, if_false, List.filter_cons, hc, Bool.not_true, Bool.false_eq_true,
          Bool.and_false]
        simpa using ih

theorem writes_all (s : St) (c : Nat) (l : List Req) (hw : s.wfail = false) (hl : s.losing = false)
    (h : ∀ r ∈ l, r.sent = false ∧ r.expect = true) :
    l.flatMap (fun r => if r.sent then [] else sendObs s c r) = l.map (fun r => Ob.write c r.serial r.id) := by
  induction l with
  | nil => rfl
  | cons a l ih =>
    have ha := h a (by simp)
    rw [List.flatMap_cons, List.map_cons, ih (fun r hr => h r (by simp [hr]))]
    simp [ha.1, sendObs, hw, hl, ha.2]

/-- The broker client under the timeout wrapper.  `s` is any reachable state in which the broker client
    is connected (connection `c`, not being dropped, writes succeed) and the timed-out request `rq` is
    still outstanding.  `cancel` then `disconnect` — the two calls `_mrtb_timeout` makes — and the loss
    of the connection that follows:
    * the cancel fires `rq`, and only `rq`, at once, with `CancelledError` (what the client layer's
      `fired k (some .cancelled)` assumes);
    * `disconnect` tells the transport to drop connection `c`;
    * when the connection is gone the table is exactly the other uncancelled requests (unsent again),
      and a new connection attempt starts iff there is one;
    * on the next connection exactly those are written, each once, in issue order, on connection
      `s.nconn` — and `rq` is not among them. -/
theorem timeout_disconnect_resends (cfg : Cfg) (s : St) (h : SInv s) (rq : Req) (c : Nat)
    (hrq : rq ∈ s.reqs) (hlive : rq.cancelled = false) (hp : s.proto = some c) (hlo : s.losing = false) (hwf : s.wfail = false) :
    let s1 := (step cfg s (.cancel rq.id)).1
    let s2 := (step cfg s1 .disconnect).1
    let s3 := (step cfg s2 .lost).1
    (step cfg s (.cancel rq.id)).2 = [.fire rq.serial rq.id (.err .cancelled)] ∧
    (step cfg s1 .disconnect).2 = [.lose c] ∧
    s3.reqs = remaining s rq.id ∧
    (step cfg s2 .lost).2 = (if remaining s rq.id = [] then [] else [.connect s.host s.port]) ∧
    (remaining s rq.id ≠ [] →
      (step cfg s3 .connOk).2 = (remaining s rq.id).map (fun r => .write s.nconn r.serial r.id)) ∧
    rq.serial ∉ (remaining s rq.id).map (·.serial) := by
  have hcl : s.closed = false := by
    cases hc : s.closed
    · rfl
    · have := h.closedEmpty hc; rw [this] at hrq; cases hrq
  have hsent : ∀ r ∈ s.reqs, r.sent = true := h.connSent (by simp [hp])
  have hexp : ∀ r ∈ s.reqs, r.expect = true := fun r hr => h.sentExpect r hr (hsent r hr)
  have hco : s.connector = .none := h.connConnector (by simp [hp])
  have hany : s.reqs.any (fun r => r.id == rq.id && !r.cancelled) = true := by
    rw [List.any_eq_true]; exact ⟨rq, hrq, by simp [hlive]⟩
  have hfl := filter_id_live s.reqs h.ids rq hrq hlive
  -- the table after the cancel: every entry stays (all are sent), `rq` marked
  have htab : (s.reqs.filter (fun r => r.id != rq.id || r.sent)) = s.reqs := by
    rw [List.filter_eq_self]; intro r hr; simp [hsent r hr]
  have hrem : ((s.reqs.map (fun r => if r.id == rq.id then { r with cancelled := true } else r)).filter (fun r => !r.cancelled)).map
      (fun r => { r with sent := false }) = remaining s rq.id := rem_eq s.reqs rq.id
  refine ⟨?_, ?_, ?_, ?_, ?_, ?_⟩
  · simp only [step, hany, if_true, hfl, List.map_cons, List.map_nil]
  · simp only [step, hany, if_true, hp]
  · simp only [step, hany, if_true, hp, lostStep, htab]
    split <;> (try split) <;> simp only [connect_, tryConnect] <;> exact hrem
  · simp only [step, hany, if_true, hp, lostStep, htab, hcl, Bool.false_eq_true, if_false, hrem, connect_, tryConnect]
    split
    · rename_i he; simp [List.isEmpty_iff.mp he]
    · rename_i he
      have : remaining s rq.id ≠ [] := fun hh => he (by simp [hh])
      simp [this]
  · intro hne
    have hne' : (remaining s rq.id).isEmpty = false := by
      cases hh : (remaining s rq.id) with
      | nil => exact absurd hh hne
      | cons _ _ => rfl
    simp only [step, hany, if_true, hp, lostStep, htab, hcl, Bool.false_eq_true, if_false, hrem, hne', connect_, tryConnect,
      sendQueued]
    refine writes_all _ _ _ (by simpa using hwf) (by rfl) ?_
    intro r hr
    simp only [remaining, List.mem_map, List.mem_filter] at hr
    obtain ⟨r0, ⟨hr0, _⟩, rfl⟩ := hr
    exact ⟨rfl, hexp r0 hr0⟩
  · intro hm
    simp only [remaining, List.map_map, List.mem_map, List.mem_filter, Function.comp] at hm
    obtain ⟨r0, ⟨hr0, hc0⟩, hs0⟩ := hm
    have : r0 = rq := serial_inj s.reqs h.serials r0 hr0 rq hrq hs0
    subst this
    simp at hc0


/-- A late reply to the timed-out request — the wrapper cancelled it but the connection is still up
    (no `disconnect_on_timeout`, or the packet was already in flight) — is swallowed by the tombstone the
    cancel left in the table: nothing is observed (no Deferred fires, the packet is not "unexpected"),
    the tombstone goes, and every other request stays in the table exactly as it was. -/
theorem late_reply_swallowed (cfg : Cfg) (s : St) (h : SInv s) (rq : Req) (c : Nat)
    (hrq : rq ∈ s.reqs) (hlive : rq.cancelled = false) (hp : s.proto = some c) (hlo : s.losing = false)
    (chunk f : Bytes) :
    let s1 := (step cfg s (.cancel rq.id)).1
    (feed s1.rbuf chunk).frames = [f] → (feed s1.rbuf chunk).exceeded = false → corrId f = some rq.id →
    (step cfg s1 (.bytesIn chunk)).2 = [] ∧
    (step cfg s1 (.bytesIn chunk)).1.reqs = s.reqs.filter (fun r => r.id != rq.id) := by
  intro s1 hfr hex hcid
  have hsent : ∀ r ∈ s.reqs, r.sent = true := h.connSent (by simp [hp])
  have hany : s.reqs.any (fun r => r.id == rq.id && !r.cancelled) = true := by
    rw [List.any_eq_true]; exact ⟨rq, hrq, by simp [hlive]⟩
  have htab : (s.reqs.filter (fun r => r.id != rq.id || r.sent)) = s.reqs := by
    rw [List.filter_eq_self]; intro r hr; simp [hsent r hr]
  have hs1 : s1 = { s with reqs := s.reqs.map (fun r => if r.id == rq.id then { r with cancelled := true } else r) } := by
    simp only [s1, step, hany, if_true, htab]
  have hrbuf : s1.rbuf = s.rbuf := by rw [hs1]
  have hany1 : s1.reqs.any (fun r => r.id == rq.id) = true := by
    rw [hs1, List.any_eq_true]
    exact ⟨_, List.mem_map_of_mem hrq, by simp⟩
  have hnone : s1.reqs.filter (fun r => r.id == rq.id && !r.cancelled) = [] := by
    rw [hs1, List.filter_eq_nil_iff]
    intro r hr
    simp only [List.mem_map] at hr
    obtain ⟨r0, _, rfl⟩ := hr
    by_cases hi : r0.id = rq.id <;> simp [hi]
  have hfil : s1.reqs.filter (fun r => r.id != rq.id) = s.reqs.filter (fun r => r.id != rq.id) := by
    rw [hs1]
    simp only [List.filter_map]
    rw [List.map_congr_left (g := id)]
    · simp only [List.map_id]
      apply List.filter_congr
      intro r _
      by_cases hi : r.id = rq.id <;> simp [hi]
    · intro r hr
      have := (List.mem_filter.mp hr).2
      by_cases hi : r.id = rq.id <;> simp_all
  have hp1 : s1.proto = some c := by rw [hs1]; exact hp
  have hl1 : s1.losing = false := by rw [hs1]; exact hlo
  simp only [step, hp1, hl1, Bool.false_eq_true, if_false, hfr, handleFrames, hcid, handleResponse, hany1, if_true, hnone,
    List.map_nil, List.append_nil, hex]
  exact ⟨trivial, hfil⟩

end Afkak.Compose
