import Afkak.BrokerClientBytes
import AfkakProofs.BrokerClient.ChunkSplit
/-!
# Bytes and the life of a connection (flat model)

* what is left in `_unprocessed` when a connection goes away has no influence on anything that follows
  (`lost_ignores_rbuf`, `partial_frame_dies`);
* once a connection has been told to go (`losing`) or is gone, no Deferred fires `ok` until a new connection is
  established (`deaf_trace`); an over-long prefix puts the client in that state (`oversize_deaf`).
-/
namespace Afkak.BrokerClient
open Afkak.Frame Afkak.Consts

/-- `connectionLost` does not look at the receive buffer -/
theorem lost_ignores_rbuf (cfg : Cfg) (s : St) (c : Nat) (b : Bytes) (hp : s.proto = some c) :
    step cfg { s with rbuf := b } .lost = step cfg s .lost := by
  simp only [step, hp]
  exact lostStep_rbuf s b

/-- the same run from two states is the same trace -/
theorem trace_congr (cfg : Cfg) (s t : St) (h : s = t) (es : List Ev) : trace cfg s es = trace cfg t es := by rw [h]

/-- A chunk that completes no packet and announces no over-long one (a partial frame) followed by the loss of the
    connection: nothing is observed for the chunk, and the loss does exactly what it would have done without the
    chunk — same observations, same state.  The partial frame is gone. -/
theorem partial_frame_dies (cfg : Cfg) (s : St) (c : Nat) (chunk : Bytes) (hp : s.proto = some c) (hl : s.losing = false)
    (hf : (feed s.rbuf chunk).frames = []) (hx : (feed s.rbuf chunk).exceeded = false) :
    (step cfg s (.bytesIn chunk)).2 = [] ∧
    step cfg (step cfg s (.bytesIn chunk)).1 .lost = step cfg s .lost := by
  rw [step_bytesIn cfg s c chunk hp hl]
  simp only [bytesStep, hf, handleFrames, hx, Bool.false_eq_true, if_false]
  exact ⟨trivial, lost_ignores_rbuf cfg s c _ hp⟩

/-- no connection, or one that has been told to go -/
def Deaf (s : St) : Prop := s.proto = none ∨ s.losing = true

/-- no Deferred fires with response bytes -/
def NoOk (os : List Ob) : Prop := ∀ k i b, Ob.fire k i (.ok b) ∉ os

theorem noOk_sendObs (s : St) (c : Nat) (r : Req) : NoOk (sendObs s c r) := by
  intro k i b
  simp only [sendObs]
  split
  · simp
  · split <;> split <;> simp

theorem noOk_lostStep (s : St) : NoOk (lostStep s).2 := by
  intro k i b
  simp only [lostStep, connect_, tryConnect]
  split
  · simp
  · split <;> simp

theorem deaf_lostStep (s : St) : Deaf (lostStep s).1 := by
  left
  simp only [lostStep, connect_, tryConnect]
  split
  · rfl
  · split <;> rfl

/-- while deaf, every event but a successful connection attempt leaves the client deaf and fires nothing `ok` -/
theorem deaf_step (cfg : Cfg) (s : St) (e : Ev) (h : Deaf s) (hne : e ≠ .connOk) :
    Deaf (step cfg s e).1 ∧ NoOk (step cfg s e).2 := by
  cases e with
  | connOk => exact absurd rfl hne
  | make id ex =>
    simp only [step]
    split
    · exact ⟨h, by intro k i b; simp⟩
    · split
      · exact ⟨h, by intro k i b; simp⟩
      · split
        · rename_i c hc
          exact ⟨by rcases h with h | h; · simp [hc] at h
                    · exact Or.inr h, noOk_sendObs s c _⟩
        · rename_i hc
          split
          · exact ⟨Or.inl (by simp [connect_, tryConnect, hc]), by intro k i b; simp [connect_, tryConnect]⟩
          · exact ⟨Or.inl hc, by intro k i b; simp⟩
  | cancel id =>
    simp only [step]
    split
    · exact ⟨h, by intro k i b; simp⟩
    · exact ⟨h, by intro k i b; simp⟩
  | connFail =>
    simp only [step]
    split
    · split
      · exact ⟨h, by intro k i b; simp⟩
      · exact ⟨h, by intro k i b; simp⟩
    · exact ⟨h, by intro k i b; simp⟩
  | advance dt =>
    simp only [step]
    split
    · exact ⟨h, by intro k i b; simp⟩
    · split
      · split
        · exact ⟨h, by intro k i b; simp [tryConnect]⟩
        · exact ⟨h, by intro k i b; simp⟩
      · exact ⟨h, by intro k i b; simp⟩
  | bytesIn chunk =>
    simp only [step]
    split
    · exact ⟨h, by intro k i b; simp⟩
    · rename_i c hc
      rcases h with h | h
      · simp [hc] at h
      · simp only [h, if_true]
        exact ⟨Or.inr h, by intro k i b; simp⟩
  | lost =>
    simp only [step]
    split
    · exact ⟨h, by intro k i b; simp⟩
    · exact ⟨deaf_lostStep s, noOk_lostStep s⟩
  | close =>
    simp only [step]
    split
    · exact ⟨h, by intro k i b; simp⟩
    · split
      · exact ⟨Or.inr rfl, by intro k i b; simp⟩
      · rename_i hc
        split
        · exact ⟨Or.inl hc, by intro k i b; simp⟩
        · exact ⟨Or.inl hc, by intro k i b; simp⟩
        · exact ⟨Or.inl hc, by intro k i b; simp⟩
        · exact ⟨Or.inl hc, by intro k i b; simp⟩
  | disconnect =>
    simp only [step]
    split
    · exact ⟨Or.inr rfl, by intro k i b; simp⟩
    · exact ⟨h, by intro k i b; simp⟩
  | updateMetadata a b => exact ⟨h, by intro k i b; simp [step]⟩
  | writeFail b => exact ⟨h, by intro k i b; simp [step]⟩

/-- … so for every event list without a successful connection attempt -/
theorem deaf_trace (cfg : Cfg) (es : List Ev) : ∀ s : St, Deaf s → Ev.connOk ∉ es →
    ∀ t ∈ trace cfg s es, NoOk t.2 := by
  induction es with
  | nil => intro s _ _ t ht; simp [trace] at ht
  | cons e es ih =>
    intro s h hn t ht
    have hne : e ≠ .connOk := fun he => hn (by simp [he])
    obtain ⟨d1, d2⟩ := deaf_step cfg s e h hne
    simp only [trace, List.mem_cons] at ht
    rcases ht with rfl | ht
    · exact d2
    · exact ih _ d1 (fun hm => hn (List.mem_cons_of_mem _ hm)) t ht

theorem handleFrames_underflow (fs : List Bytes) : ∀ s : St, (handleFrames s fs).2.2 = true →
    Ob.raiseUnderflow ∈ (handleFrames s fs).2.1 := by
  induction fs with
  | nil => intro s h; simp [handleFrames] at h
  | cons f fs ih =>
    intro s h
    cases hc : corrId f with
    | none => simp [handleFrames, hc]
    | some id =>
      simp only [handleFrames, hc] at h ⊢
      exact List.mem_append_right _ (ih _ h)

/-- an over-long prefix: the client is deaf afterwards, because `loseConnection()` was called — or because an earlier
    packet of the same chunk was too short to carry an id and the exception dropped the connection -/
theorem oversize_deaf (cfg : Cfg) (s : St) (c : Nat) (chunk : Bytes) (hp : s.proto = some c) (hl : s.losing = false)
    (hx : (feed s.rbuf chunk).exceeded = true) :
    Deaf (step cfg s (.bytesIn chunk)).1 ∧
    (Ob.lose c ∈ (step cfg s (.bytesIn chunk)).2 ∨ Ob.raiseUnderflow ∈ (step cfg s (.bytesIn chunk)).2) := by
  rw [step_bytesIn cfg s c chunk hp hl]
  simp only [bytesStep, hx, if_true]
  split
  · rename_i hu
    exact ⟨deaf_lostStep _, Or.inr (List.mem_append_left _ (handleFrames_underflow _ s hu))⟩
  · exact ⟨Or.inr rfl, Or.inl (by simp)⟩

/-! ## one packet fires at most one Deferred -/

open Afkak.BrokerClientBytes in
theorem okFires_append (a b : List Ob) : okFires (a ++ b) = okFires a ++ okFires b := by
  induction a with
  | nil => rfl
  | cons o os ih =>
    cases o with
    | fire k i r => cases r <;> simp [okFires, ih]
    | _ => simp [okFires, ih]

open Afkak.BrokerClientBytes in
theorem okFires_map_ok (l : List Req) (f : Bytes) :
    okFires (l.map (fun r => Ob.fire r.serial r.id (.ok f))) = l.map (fun r => (r.serial, r.id, f)) := by
  induction l with
  | nil => rfl
  | cons r rs ih => simp [okFires, ih]

theorem filter_id_le_one (l : List Req) (hpw : l.Pairwise (fun a b => a.id ≠ b.id)) (p : Req → Bool) (id : Int) :
    (l.filter (fun r => r.id == id && p r)).length ≤ 1 := by
  induction l with
  | nil => simp
  | cons a l ih =>
    obtain ⟨h1, h2⟩ := List.pairwise_cons.mp hpw
    by_cases ha : a.id = id
    · have : l.filter (fun r => r.id == id && p r) = [] := by
        rw [List.filter_eq_nil_iff]
        intro b hb
        have := h1 b hb
        rw [ha] at this
        simp [Ne.symm this]
      rw [List.filter_cons]
      split <;> simp [this]
    · have hf : (a.id == id && p a) = false := by simp [ha]
      rw [List.filter_cons, hf]
      exact ih h2

open Afkak.BrokerClientBytes in
/-- `handleResponse`: one packet fires at most one Deferred (the table holds an id at most once) -/
theorem one_per_frame (s : St) (hs : SInv s) (id : Int) (f : Bytes) :
    (okFires (handleResponse s id f).2).length ≤ 1 := by
  simp only [handleResponse]
  split
  · rw [okFires_map_ok, List.length_map]
    exact filter_id_le_one s.reqs hs.ids (fun r => !r.cancelled) id
  · simp [okFires]

open Afkak.BrokerClientBytes in
/-- one `dataReceived`: no more `ok` firings than packets completed -/
theorem oks_le_frames (fs : List Bytes) : ∀ s : St, SInv s → (okFires (handleFrames s fs).2.1).length ≤ fs.length := by
  induction fs with
  | nil => intro s _; simp [handleFrames, okFires]
  | cons f fs ih =>
    intro s hs
    cases hc : corrId f with
    | none => simp [handleFrames, hc, okFires]
    | some id =>
      simp only [handleFrames, hc, okFires_append, List.length_append, List.length_cons]
      have h1 := one_per_frame s hs id f
      have h2 := ih (handleResponse s id f).1 (sinv_filter s _ hs)
      omega

end Afkak.BrokerClient
