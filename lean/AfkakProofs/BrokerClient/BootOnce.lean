import AfkakProofs.BrokerClient.Boot
/-!
# Bootstrap connection: "exactly once" as a consequence of the monitor

What `bootAccepts` (either strictness) implies about ANY trace it accepts — of the model or of the implementation:
the serials that fired, together with the requests still live, are a permutation of the serials handed out.  So no
Deferred fires twice, none that was not handed out fires, none is orphaned, and once the connection is lost every
one has fired.
-/
namespace Afkak.Monitor.C06
open Afkak.Frame

/-- serials of the Deferreds that fired, in order -/
def bootFired (tr : List (Bootstrap.Ev × List Bootstrap.Ob)) : List Nat :=
  tr.flatMap (fun t => (bootFires t.2).map (·.1))

/-- number of Deferreds handed out: `request` calls that did not raise -/
def bootMade : List (Bootstrap.Ev × List Bootstrap.Ob) → Nat
  | [] => 0
  | (.request _, os) :: tr => (if os.contains .raiseAssert then 0 else 1) + bootMade tr
  | _ :: tr => bootMade tr

def BMInv (m : BSt) (F : List Nat) : Prop :=
  (F ++ m.live.map (·.serial)).Perm (List.range m.nreq) ∧ (m.lost = true → m.live = [])

theorem bootDeliver_perm (fs : List Bytes) : ∀ live : List BLive,
    ((bootDeliver live fs).1.map (·.1) ++ (bootDeliver live fs).2.map (·.serial)).Perm (live.map (·.serial)) := by
  induction fs with
  | nil => intro live; simp [bootDeliver]
  | cons f fs ih =>
    intro live
    simp only [bootDeliver, List.map_append, List.map_map, List.append_assoc]
    have h1 := ih (live.filter (fun l => l.cid != Bootstrap.respCid f))
    have h2 := (List.filter_append_perm (fun l : BLive => l.cid == Bootstrap.respCid f) live).map (·.serial)
    simp only [List.map_append] at h2
    have e : (fun x : BLive => !(x.cid == Bootstrap.respCid f)) = (fun l => l.cid != Bootstrap.respCid f) := by
      funext x; rfl
    rw [e] at h2
    have e2 : List.map ((fun x : Nat × Bootstrap.Res => x.1) ∘ fun l : BLive => (l.serial, Bootstrap.Res.ok f))
        (live.filter (fun l => l.cid == Bootstrap.respCid f)) = (live.filter (fun l => l.cid == Bootstrap.respCid f)).map (·.serial) := by
      simp [Function.comp_def]
    rw [e2]
    exact (List.Perm.append_left _ h1).trans h2

theorem filter_serial_single (live : List BLive) (k : Nat) (hn : (live.map (·.serial)).Nodup)
    (hk : live.any (fun l => l.serial == k) = true) :
    ((live.filter (fun l => l.serial == k)).map (·.serial)) = [k] := by
  induction live with
  | nil => simp at hk
  | cons a l ih =>
    simp only [List.map_cons, List.nodup_cons] at hn
    by_cases ha : a.serial = k
    · have hnone : l.filter (fun l => l.serial == k) = [] := by
        rw [List.filter_eq_nil_iff]
        intro x hx hxk
        have : x.serial = k := by simpa using hxk
        exact hn.1 (by rw [ha, ← this]; exact List.mem_map_of_mem hx)
      simp [List.filter_cons, ha, hnone]
    · have hk' : l.any (fun l => l.serial == k) = true := by
        simp only [List.any_cons, Bool.or_eq_true, beq_iff_eq] at hk
        rcases hk with h | h
        · exact absurd h ha
        · exact h
      simp [List.filter_cons, ha, ih hn.2 hk']

theorem bminv_step (strict : Bool) (m m' : BSt) (F : List Nat) (t : Bootstrap.Ev × List Bootstrap.Ob)
    (h : BMInv m F) (hs : bstep strict m t = some m') :
    BMInv m' (F ++ (bootFires t.2).map (·.1)) ∧ m'.nreq = m.nreq + bootMade [t] := by
  obtain ⟨e, os⟩ := t
  obtain ⟨hperm, hlost⟩ := h
  cases e with
  | request payload =>
    simp only [bstep] at hs
    by_cases hra : os.contains .raiseAssert = true
    · simp only [hra, if_true] at hs
      split at hs
      · rename_i hf
        have hf' : bootFires os = [] := by simpa using hf
        cases hs
        simp only [hf', List.map_nil, List.append_nil, bootMade, hra, if_true]
        exact ⟨⟨hperm, hlost⟩, rfl⟩
      · cases hs
    · have hra' : os.contains .raiseAssert = false := by simpa using hra
      simp only [hra', Bool.false_eq_true, if_false] at hs
      split at hs
      · rename_i hf
        split at hs
        · cases hs
        · rename_i hl
          cases hs
          simp only [hf, List.map_nil, List.append_nil, bootMade, hra', Bool.false_eq_true, if_false]
          refine ⟨⟨?_, fun h => absurd h hl⟩, by first | rfl | trivial⟩
          simp only [List.map_append, List.map_cons, List.map_nil, ← List.append_assoc, List.range_succ]
          exact List.Perm.append_right _ hperm
      · rename_i k' rsn hf
        split at hs
        · rename_i hc
          cases hs
          simp only [Bool.and_eq_true, beq_iff_eq] at hc
          simp only [hf, List.map_cons, List.map_nil, bootMade, hra', Bool.false_eq_true, if_false, hc.1.1]
          refine ⟨⟨?_, hlost⟩, by first | rfl | trivial⟩
          rw [hlost hc.1.2] at hperm ⊢
          simp only [List.map_nil, List.append_nil, List.range_succ] at hperm ⊢
          exact List.Perm.append_right _ hperm
        · cases hs
      · cases hs
  | cancel k =>
    simp only [bstep] at hs
    split at hs
    · split at hs
      · rename_i hf
        have hf' : bootFires os = [] := by simpa using hf
        cases hs
        simp only [hf', List.map_nil, List.append_nil, bootMade]
        exact ⟨⟨hperm, hlost⟩, rfl⟩
      · cases hs
    · split at hs
      · rename_i hc
        cases hs
        simp only [Bool.and_eq_true, beq_iff_eq] at hc
        simp only [hc.1, List.map_cons, List.map_nil, bootMade, Nat.add_zero]
        refine ⟨⟨?_, fun hl => by simp [hlost hl]⟩, by first | rfl | trivial⟩
        have hn : (m.live.map (·.serial)).Nodup :=
          (List.nodup_append.mp (hperm.nodup_iff.mpr List.nodup_range)).2.1
        have h1 := filter_serial_single m.live k hn hc.2
        have h2 := (List.filter_append_perm (fun l : BLive => l.serial == k) m.live).map (·.serial)
        simp only [List.map_append, h1] at h2
        have e : (fun x : BLive => !(x.serial == k)) = (fun l => l.serial != k) := by funext x; rfl
        rw [e] at h2
        rw [List.append_assoc]
        exact (List.Perm.append_left F h2).trans hperm
      · cases hs
  | bytesIn chunk =>
    simp only [bstep] at hs
    split at hs
    · split at hs
      · rename_i hf
        have hf' : bootFires os = [] := by simpa using hf
        cases hs
        simp only [hf', List.map_nil, List.append_nil, bootMade]
        exact ⟨⟨hperm, hlost⟩, rfl⟩
      · cases hs
    · by_cases hrd : m.reading = true
      case neg => simp [hrd] at hs
      by_cases hfd' : bootFires os = (bootDeliver m.live (feed m.buf chunk).frames).1
      case neg => simp [hrd, hfd'] at hs
      simp only [hrd, hfd', Bool.not_true, Bool.false_eq_true, if_false, bne_self_eq_false] at hs
      have hm' : m'.live = (bootDeliver m.live (feed m.buf chunk).frames).2 ∧ m'.nreq = m.nreq ∧ m'.lost = m.lost := by
        repeat' split at hs
        all_goals (cases hs; try exact ⟨rfl, rfl, rfl⟩)
      obtain ⟨e1, e2, e3⟩ := hm'
      refine ⟨⟨?_, fun hl => ?_⟩, by simp [bootMade, e2]⟩
      · rw [e1, e2, hfd', List.append_assoc]
        exact (List.Perm.append_left F (bootDeliver_perm _ m.live)).trans hperm
      · rw [e3] at hl
        have hl0 := hlost hl
        have hp := bootDeliver_perm (feed m.buf chunk).frames m.live
        rw [hl0] at hp
        simp only [List.map_nil] at hp
        have := hp.eq_nil
        simp only [List.append_eq_nil_iff, List.map_eq_nil_iff] at this
        rw [e1, hl0]
        exact this.2
  | lost rsn =>
    simp only [bstep] at hs
    split at hs
    · split at hs
      · rename_i hf
        have hf' : bootFires os = [] := by simpa using hf
        cases hs
        simp only [hf', List.map_nil, List.append_nil, bootMade]
        exact ⟨⟨hperm, hlost⟩, rfl⟩
      · cases hs
    · split at hs
      · rename_i hsf
        cases hs
        simp only [sameFires, List.isPerm_iff] at hsf
        have := hsf.map (·.1)
        simp only [List.map_map, Function.comp_def] at this
        refine ⟨⟨?_, fun _ => rfl⟩, by simp [bootMade]⟩
        simp only [List.map_nil, List.append_nil]
        exact (List.Perm.append_left F this).trans hperm
      · cases hs

theorem bminv_run (strict : Bool) (tr : List (Bootstrap.Ev × List Bootstrap.Ob)) : ∀ (m m' : BSt) (F : List Nat),
    BMInv m F → brun strict m tr = some m' → BMInv m' (F ++ bootFired tr) ∧ m'.nreq = m.nreq + bootMade tr := by
  induction tr with
  | nil => intro m m' F h hr; simp only [brun] at hr; cases hr; simpa [bootFired, bootMade] using h
  | cons t ts ih =>
    intro m m' F h hr
    simp only [brun] at hr
    cases hb : bstep strict m t with
    | none => simp [hb] at hr
    | some m1 =>
      simp only [hb] at hr
      obtain ⟨h1, n1⟩ := bminv_step strict m m1 F t h hb
      obtain ⟨h2, n2⟩ := ih m1 m' _ h1 hr
      have eF : bootFired (t :: ts) = (bootFires t.2).map (·.1) ++ bootFired ts := by simp [bootFired]
      have eM : bootMade (t :: ts) = bootMade [t] + bootMade ts := by
        obtain ⟨e, os⟩ := t
        cases e <;> simp [bootMade]
      rw [eF, ← List.append_assoc, eM]
      exact ⟨h2, by omega⟩

/-- what acceptance by the bootstrap monitor means for the firings of a trace -/
theorem bootAccepts_exactly_once (strict : Bool) (tr : List (Bootstrap.Ev × List Bootstrap.Ob)) (m : BSt)
    (h : brun strict BSt.init tr = some m) :
    (bootFired tr ++ m.live.map (·.serial)).Perm (List.range (bootMade tr)) ∧ (m.lost = true → m.live = []) := by
  have h0 : BMInv BSt.init [] := by simp [BMInv, BSt.init]
  obtain ⟨⟨h1, h2⟩, h3⟩ := bminv_run strict tr BSt.init m [] h0 h
  simp only [BSt.init, Nat.zero_add, List.nil_append] at h3 h1
  rw [h3] at h1
  exact ⟨h1, h2⟩

end Afkak.Monitor.C06
