import Afkak.Monitor.C06
import AfkakProofs.BrokerClient.Equiv
/-!
# C06 under re-entrant callbacks: the re-entrant model satisfies the monitor `r06`

`Inv6` relates a state of `Afkak/BrokerClientR.lean` to the running state of the stream monitor
`Monitor.C06.r06` at EVERY point of a run (also in the middle of `_sendQueued`'s loop, of `close()`'s pop loop,
between two packets); `spec6` is the Hoare-style specification of `exec` for every task, proved by induction
on the fuel; `r06_trace` concludes that every run in which the fuel suffices (no `fuelOut` marker) is accepted
by `r06`, for callbacks performing any finite sequence of actions.
-/
namespace Afkak.BrokerClientR
open Afkak.Frame Afkak.BrokerClient Afkak.Consts Afkak.Monitor.C06

/-- the monitor state after a stretch of the stream -/
def fold6 (m : RM) (os : List ObR) : RM := os.foldl r06Ob m

theorem fold6_append (m : RM) (a b : List ObR) : fold6 m (a ++ b) = fold6 (fold6 m a) b := by
  simp [fold6, List.foldl_append]
@[simp] theorem fold6_nil (m : RM) : fold6 m [] = m := rfl
theorem fold6_cons (m : RM) (o : ObR) (os : List ObR) : fold6 m (o :: os) = fold6 (r06Ob m o) os := rfl

/-- flat observations other than firings do not move the monitor -/
theorem fold6_obs_inert (m : RM) (l : List Ob) (h : ∀ o ∈ l, ∀ k i r, o ≠ .fire k i r) : fold6 m (obs l) = m := by
  induction l generalizing m with
  | nil => rfl
  | cons o l ih =>
    have ho := h o (by simp)
    simp only [obs, List.map_cons, fold6_cons]
    have : r06Ob m (.ob o) = m := by
      cases o <;> simp_all [r06Ob]
    rw [this]
    exact ih m (fun o ho' => h o (by simp [ho']))

/-- What holds between the re-entrant model's state and the monitor `r06` at every point of a run.
    `P`: serials taken out of the table whose firing is the very next thing to happen (at most one);
    `L`: we are inside a `close()` call (between its `closing` marker and its return). -/
structure Inv6 (s : StR) (m : RM) (P : List Nat) (L : Bool) : Prop where
  ok : m.ok = true
  pw : s.core.reqs.Pairwise (fun a b => a.serial < b.serial)
  ids : s.core.reqs.Pairwise (fun a b => a.id ≠ b.id)
  lt : ∀ r ∈ s.core.reqs, r.serial < s.core.nmake
  cancSent : ∀ r ∈ s.core.reqs, r.cancelled = true → r.sent = true
  made : ∀ k, k ∈ m.made ↔ k < s.core.nmake
  firedLt : ∀ k ∈ m.fired, k < s.core.nmake
  part : ∀ k, k < s.core.nmake → k ∈ m.fired ∨ (∃ r ∈ s.core.reqs, r.serial = k ∧ r.cancelled = false) ∨ k ∈ P
  liveNF : ∀ r ∈ s.core.reqs, r.cancelled = false → r.serial ∉ m.fired
  pNF : ∀ k ∈ P, k ∉ m.fired
  pLt : ∀ k ∈ P, k < s.core.nmake
  pOne : P.length ≤ 1
  pNotLive : ∀ k ∈ P, ∀ r ∈ s.core.reqs, r.serial = k → r.cancelled = true
  closedEmpty : s.core.closed = true → L = false → s.core.reqs = []
  lClosed : L = true → s.core.closed = true
  mf : ∀ d l, m.mustFire = some (d, l) → s.core.closed = true ∧ d ≤ m.depth ∧ ∀ k ∈ l, k < s.core.nmake

/-- what a task guarantees on return -/
structure Post6 (s : StR) (m : RM) (L : Bool) (s' : StR) (m' : RM) : Prop where
  inv : Inv6 s' m' [] L
  depth : m'.depth = m.depth
  mfKeep : ∀ x, m.mustFire = some x → m'.mustFire = some x
  mfNew : ∀ d l, m'.mustFire = some (d, l) → m.mustFire = some (d, l) ∨ (d = m.depth ∧ s.core.closed = false ∧ m.mustFire = none)
  closedMono : s.core.closed = true → s'.core.closed = true

theorem Post6.refl (s : StR) (m : RM) (L : Bool) (h : Inv6 s m [] L) : Post6 s m L s m :=
  ⟨h, rfl, fun _ h => h, fun _ _ h => Or.inl h, fun h => h⟩

theorem Post6.trans {s m L s1 m1 s2 m2} (h1 : Post6 s m L s1 m1) (h2 : Post6 s1 m1 L s2 m2) : Post6 s m L s2 m2 := by
  refine ⟨h2.inv, by rw [h2.depth, h1.depth], fun x hx => h2.mfKeep x (h1.mfKeep x hx), ?_, fun h => h2.closedMono (h1.closedMono h)⟩
  intro d l hm
  rcases h2.mfNew d l hm with h | ⟨hd, hc, hn⟩
  · exact h1.mfNew d l h
  · right
    refine ⟨by rw [hd, h1.depth], ?_, ?_⟩
    · cases hcs : s.core.closed
      · rfl
      · have := h1.closedMono hcs; simp_all
    · cases hmm : m.mustFire with
      | none => rfl
      | some x => have := h1.mfKeep x hmm; simp_all


/-- replace the table: every new entry stems from an old one (same serial and id, live only if it was
    live), every live old entry stays live or is pended -/
theorem inv6_retable {s : StR} {m : RM} {P : List Nat} {L : Bool} (h : Inv6 s m P L) (c' : St) (P' : List Nat)
    (hc : c' = { s.core with reqs := c'.reqs })
    (hpw : c'.reqs.Pairwise (fun a b => a.serial < b.serial)) (hids : c'.reqs.Pairwise (fun a b => a.id ≠ b.id))
    (hcs : ∀ r ∈ c'.reqs, r.cancelled = true → r.sent = true)
    (hsub : ∀ r' ∈ c'.reqs, ∃ r ∈ s.core.reqs, r'.serial = r.serial ∧ (r'.cancelled = false → r.cancelled = false))
    (hlive : ∀ r ∈ s.core.reqs, r.cancelled = false → (∃ r' ∈ c'.reqs, r'.serial = r.serial ∧ r'.cancelled = false) ∨ r.serial ∈ P')
    (hP' : ∀ k ∈ P', k ∈ P ∨ ∃ r ∈ s.core.reqs, r.serial = k ∧ r.cancelled = false)
    (hPkeep : ∀ k ∈ P, k ∈ P') (hone : P'.length ≤ 1)
    (hnl : ∀ k ∈ P', ∀ r' ∈ c'.reqs, r'.serial = k → r'.cancelled = true)
    (hempty : s.core.closed = true → L = false → c'.reqs = []) :
    Inv6 { s with core := c' } m P' L := by
  have e1 : c'.nmake = s.core.nmake := by rw [hc]
  have e2 : c'.closed = s.core.closed := by rw [hc]
  constructor
  · exact h.ok
  · exact hpw
  · exact hids
  · intro r hr; obtain ⟨r0, hr0, hs, _⟩ := hsub r hr; simp only [e1]; rw [hs]; exact h.lt r0 hr0
  · exact hcs
  · intro k; simp only [e1]; exact h.made k
  · intro k hk; simp only [e1]; exact h.firedLt k hk
  · intro k hk
    simp only [e1] at hk
    rcases h.part k hk with hf | ⟨r, hr, hs, hcn⟩ | hp
    · exact Or.inl hf
    · rcases hlive r hr hcn with ⟨r', hr', hs', hc'⟩ | hp
      · exact Or.inr (Or.inl ⟨r', hr', by rw [hs', hs], hc'⟩)
      · exact Or.inr (Or.inr (by rw [← hs]; exact hp))
    · exact Or.inr (Or.inr (hPkeep k hp))
  · intro r hr hcn
    obtain ⟨r0, hr0, hs, hl⟩ := hsub r hr
    rw [hs]; exact h.liveNF r0 hr0 (hl hcn)
  · intro k hk
    rcases hP' k hk with hp | ⟨r, hr, hs, hcn⟩
    · exact h.pNF k hp
    · rw [← hs]; exact h.liveNF r hr hcn
  · intro k hk
    simp only [e1]
    rcases hP' k hk with hp | ⟨r, hr, hs, _⟩
    · exact h.pLt k hp
    · rw [← hs]; exact h.lt r hr
  · exact hone
  · exact hnl
  · intro hcl hL; exact hempty (by rw [← e2]; exact hcl) hL
  · intro hL; simp only [e2]; exact h.lClosed hL
  · intro d l hm; simp only [e1, e2]; exact h.mf d l hm

/-- changing anything but the table, the serial counter and the closed flag -/
theorem inv6_core {s : StR} {m : RM} {P : List Nat} {L : Bool} (h : Inv6 s m P L) (c' : St)
    (h1 : c'.reqs = s.core.reqs) (h2 : c'.nmake = s.core.nmake) (h3 : c'.closed = s.core.closed) (hooks' : List (Nat × Hook)) (st : Bool) (sy : Sync) :
    Inv6 { core := c', hooks := hooks', stubborn := st, sync := sy } m P L := by
  exact ⟨h.ok, by simpa only [h1] using h.pw, by simpa only [h1] using h.ids, by simpa only [h1, h2] using h.lt,
    by simpa only [h1] using h.cancSent, by simpa only [h2] using h.made, by simpa only [h2] using h.firedLt,
    by simpa only [h1, h2] using h.part, by simpa only [h1] using h.liveNF, h.pNF, by simpa only [h2] using h.pLt, h.pOne,
    by simpa only [h1] using h.pNotLive, by simpa only [h1, h3] using h.closedEmpty, by simpa only [h3] using h.lClosed,
    by simpa only [h2, h3] using h.mf⟩


theorem mem_contains {l : List Nat} {k : Nat} : l.contains k = true ↔ k ∈ l := List.contains_iff_mem

/-- the pending Deferred fires -/
theorem inv6_fire {s : StR} {m : RM} {L : Bool} {k : Nat} (id : Int) (r : Res) (h : Inv6 s m [k] L)
    (own : ∀ b, r = .ok b → corrId b = some id) :
    Inv6 s (r06Ob m (.ob (.fire k id r))) [] L ∧ (r06Ob m (.ob (.fire k id r))).depth = m.depth ∧
    (r06Ob m (.ob (.fire k id r))).mustFire = m.mustFire := by
  have hk : k < s.core.nmake := h.pLt k (by simp)
  have hmade : k ∈ m.made := (h.made k).mpr hk
  have hnf : k ∉ m.fired := h.pNF k (by simp)
  refine ⟨?_, rfl, rfl⟩
  constructor
  · cases r with
    | ok b => simp [r06Ob, h.ok, hmade, hnf, own b rfl]
    | none => simp [r06Ob, h.ok, hmade, hnf]
    | err e => simp [r06Ob, h.ok, hmade, hnf]
  · exact h.pw
  · exact h.ids
  · exact h.lt
  · exact h.cancSent
  · exact h.made
  · intro k' hk'
    simp only [r06Ob, List.mem_cons] at hk'
    rcases hk' with rfl | hk'
    · exact hk
    · exact h.firedLt k' hk'
  · intro k' hk'
    rcases h.part k' hk' with hf | hl | hp
    · exact Or.inl (by simp [r06Ob, hf])
    · exact Or.inr (Or.inl hl)
    · simp only [List.mem_singleton] at hp; subst hp; exact Or.inl (by simp [r06Ob])
  · intro rq hrq hc hm
    simp only [r06Ob, List.mem_cons] at hm
    rcases hm with hm | hm
    · have := h.pNotLive k (by simp) rq hrq hm; simp_all
    · exact h.liveNF rq hrq hc hm
  · simp
  · simp
  · simp
  · simp
  · exact h.closedEmpty
  · exact h.lClosed
  · exact h.mf

/-- `makeRequest` returned a Deferred that fires at once -/
theorem inv6_made_pend {s : StR} {m : RM} {L : Bool} (id : Int) (h : Inv6 s m [] L) (c' : St)
    (h1 : c'.reqs = s.core.reqs) (h2 : c'.nmake = s.core.nmake + 1) (h3 : c'.closed = s.core.closed)
    (hooks' : List (Nat × Hook)) (st : Bool) (sy : Sync) :
    Inv6 { core := c', hooks := hooks', stubborn := st, sync := sy } (r06Ob m (.made s.core.nmake id)) [s.core.nmake] L := by
  have hnc : s.core.nmake ∉ m.made := by
    intro hcn
    have := (h.made _).mp hcn; omega
  constructor
  · simp [r06Ob, h.ok, hnc]
  · simp only [h1]; exact h.pw
  · simp only [h1]; exact h.ids
  · intro r hr; simp only [h1, h2] at hr ⊢; have := h.lt r hr; omega
  · simp only [h1]; exact h.cancSent
  · intro k; simp only [r06Ob, List.mem_cons, h.made k, h2]; omega
  · intro k hk; have := h.firedLt k hk; simp only [r06Ob, h2] at hk ⊢; omega
  · intro k hk
    simp only [h2, h1] at hk ⊢
    by_cases hkk : k = s.core.nmake
    · exact Or.inr (Or.inr (by simp [hkk]))
    · rcases h.part k (by omega) with hf | hl | hp
      · exact Or.inl hf
      · exact Or.inr (Or.inl hl)
      · simp at hp
  · simp only [h1]; exact h.liveNF
  · intro k hk hf
    simp only [List.mem_singleton] at hk; subst hk
    have := h.firedLt _ hf; omega
  · intro k hk; simp only [List.mem_singleton] at hk; subst hk; simp [h2]
  · simp
  · intro k hk r hr hs
    simp only [List.mem_singleton] at hk; subst hk
    simp only [h1] at hr
    have := h.lt r hr; omega
  · simp only [h1, h3]; exact h.closedEmpty
  · simp only [h3]; exact h.lClosed
  · intro d l hm
    obtain ⟨a, b, c⟩ := h.mf d l hm
    exact ⟨by simp only [h3]; exact a, b, fun k hk => by have := c k hk; simp only [h2]; omega⟩

/-- `makeRequest` returned a Deferred for a request that went into the table -/
theorem inv6_made_live {s : StR} {m : RM} {L : Bool} (id : Int) (h : Inv6 s m [] L) (rq : Req) (c' : St)
    (hs : rq.serial = s.core.nmake) (hid : rq.id = id) (hcn : rq.cancelled = false)
    (hfresh : ∀ r ∈ s.core.reqs, r.id ≠ id) (hcl : s.core.closed = false)
    (hc : c'.reqs = s.core.reqs ++ [rq]) (hn : c'.nmake = s.core.nmake + 1) (hcc : c'.closed = s.core.closed)
    (hooks' : List (Nat × Hook)) (st : Bool) (sy : Sync) :
    Inv6 { core := c', hooks := hooks', stubborn := st, sync := sy } (r06Ob m (.made s.core.nmake id)) [] L := by
  have hnc : s.core.nmake ∉ m.made := by
    intro hcn'
    have := (h.made _).mp hcn'; omega
  constructor
  · simp [r06Ob, h.ok, hnc]
  · simp only [hc]; rw [List.pairwise_append]
    exact ⟨h.pw, by simp, fun a ha b hb => by simp only [List.mem_singleton] at hb; subst hb; rw [hs]; exact h.lt a ha⟩
  · simp only [hc]; rw [List.pairwise_append]
    exact ⟨h.ids, by simp, fun a ha b hb => by simp only [List.mem_singleton] at hb; subst hb; rw [hid]; exact hfresh a ha⟩
  · intro r hr; simp only [hc, hn] at hr ⊢
    rcases List.mem_append.mp hr with hr | hr
    · have := h.lt r hr; omega
    · simp only [List.mem_singleton] at hr; subst hr; omega
  · intro r hr hcr; simp only [hc] at hr
    rcases List.mem_append.mp hr with hr | hr
    · exact h.cancSent r hr hcr
    · simp only [List.mem_singleton] at hr; subst hr; simp_all
  · intro k; simp only [r06Ob, List.mem_cons, h.made k, hn]; omega
  · intro k hk; have := h.firedLt k hk; simp only [r06Ob, hn] at hk ⊢; omega
  · intro k hk
    simp only [hn, hc] at hk ⊢
    by_cases hkk : k = s.core.nmake
    · exact Or.inr (Or.inl ⟨rq, by simp, by rw [hs, hkk], hcn⟩)
    · rcases h.part k (by omega) with hf | ⟨r, hr, h1, h2⟩ | hp
      · exact Or.inl hf
      · exact Or.inr (Or.inl ⟨r, by simp [hr], h1, h2⟩)
      · simp at hp
  · intro r hr hcr hf; simp only [hc] at hr
    rcases List.mem_append.mp hr with hr | hr
    · exact h.liveNF r hr hcr hf
    · simp only [List.mem_singleton] at hr; subst hr
      have := h.firedLt _ hf; omega
  · simp
  · simp
  · simp
  · simp
  · intro hcl'; simp only [hcc] at hcl'; simp_all
  · intro hL; simp only [hcc]; exact h.lClosed hL
  · intro d l hm
    obtain ⟨a, b, c⟩ := h.mf d l hm
    exact ⟨by simp only [hcc]; exact a, b, fun k hk => by have := c k hk; simp only [hn]; omega⟩


/-- the monitor moved without touching `made`/`fired` -/
theorem inv6_mon {s : StR} {m m' : RM} {P : List Nat} {L : Bool} (h : Inv6 s m P L)
    (h1 : m'.made = m.made) (h2 : m'.fired = m.fired) (hok : m'.ok = true)
    (hmf : ∀ d l, m'.mustFire = some (d, l) → s.core.closed = true ∧ d ≤ m'.depth ∧ ∀ k ∈ l, k < s.core.nmake) :
    Inv6 s m' P L :=
  ⟨hok, h.pw, h.ids, h.lt, h.cancSent, by rw [h1]; exact h.made, by rw [h2]; exact h.firedLt, by rw [h2]; exact h.part,
    by rw [h2]; exact h.liveNF, by rw [h2]; exact h.pNF, h.pLt, h.pOne, h.pNotLive, h.closedEmpty, h.lClosed, hmf⟩

theorem hookEnd_made (m : RM) : (r06Ob m .hookEnd).made = m.made := by
  simp only [r06Ob]; split <;> (try split) <;> rfl
theorem hookEnd_fired (m : RM) : (r06Ob m .hookEnd).fired = m.fired := by
  simp only [r06Ob]; split <;> (try split) <;> rfl
theorem hookEnd_depth (m : RM) : (r06Ob m .hookEnd).depth = m.depth - 1 := by
  simp only [r06Ob]; split <;> (try split) <;> rfl

theorem inv6_hookBegin {s : StR} {m : RM} {P : List Nat} {L : Bool} (k : Nat) (h : Inv6 s m P L) :
    Inv6 s (r06Ob m (.hookBegin k)) P L := by
  refine inv6_mon (m' := r06Ob m (.hookBegin k)) h rfl rfl h.ok ?_
  intro d l hm
  obtain ⟨a, b, c⟩ := h.mf d l hm
  exact ⟨a, by simp only [r06Ob]; omega, c⟩

/-- everything below `nmake` has fired once the table is empty and nothing is pending -/
theorem all_fired {s : StR} {m : RM} {L : Bool} (h : Inv6 s m [] L) (he : s.core.reqs = []) :
    ∀ k, k < s.core.nmake → k ∈ m.fired := by
  intro k hk
  rcases h.part k hk with hf | ⟨r, hr, _⟩ | hp
  · exact hf
  · rw [he] at hr; simp at hr
  · simp at hp

/-- the callback returns -/
theorem inv6_hookEnd {s : StR} {m : RM} {L : Bool} (h : Inv6 s m [] L) (hd : m.depth ≠ 0)
    (hchk : ∀ l, m.mustFire = some (m.depth, l) → s.core.reqs = []) :
    Inv6 s (r06Ob m .hookEnd) [] L ∧ (r06Ob m .hookEnd).depth = m.depth - 1 ∧
    (∀ d l, (r06Ob m .hookEnd).mustFire = some (d, l) → m.mustFire = some (d, l) ∧ d ≠ m.depth) ∧
    (∀ d l, m.mustFire = some (d, l) → d ≠ m.depth → (r06Ob m .hookEnd).mustFire = some (d, l)) := by
  cases hm : m.mustFire with
  | none =>
    have hmf' : (r06Ob m .hookEnd).mustFire = none := by simp [r06Ob, hm]
    refine ⟨?_, hookEnd_depth m, by simp [hmf'], by simp⟩
    exact inv6_mon h (hookEnd_made m) (hookEnd_fired m) (by simp [r06Ob, hm, h.ok, hd]) (by simp [hmf'])
  | some x =>
    obtain ⟨d, l⟩ := x
    obtain ⟨mc, md, ml⟩ := h.mf d l hm
    by_cases hdd : d = m.depth
    · subst hdd
      have he := hchk l hm
      have hall : ∀ k ∈ l, k ∈ m.fired := fun k hk => all_fired h he k (ml k hk)
      have hmf' : (r06Ob m .hookEnd).mustFire = none := by simp [r06Ob, hm]
      refine ⟨?_, hookEnd_depth m, by simp [hmf'], by simp⟩
      exact inv6_mon h (hookEnd_made m) (hookEnd_fired m) (by simp [r06Ob, hm, h.ok, hd]; exact hall) (by simp [hmf'])
    · have hbeq : (d == m.depth) = false := by simp [hdd]
      have hmf' : (r06Ob m .hookEnd).mustFire = some (d, l) := by simp [r06Ob, hm, hbeq]
      refine ⟨?_, hookEnd_depth m, ?_, ?_⟩
      · apply inv6_mon h (hookEnd_made m) (hookEnd_fired m) (by simp [r06Ob, hm, hbeq, h.ok, hd])
        intro d' l' hm'
        rw [hmf'] at hm'
        simp only [Option.some.injEq, Prod.mk.injEq] at hm'
        obtain ⟨rfl, rfl⟩ := hm'
        exact ⟨mc, by rw [hookEnd_depth]; omega, ml⟩
      · intro d' l' hm'
        rw [hmf'] at hm'
        simp only [Option.some.injEq, Prod.mk.injEq] at hm'
        obtain ⟨rfl, rfl⟩ := hm'
        exact ⟨rfl, hdd⟩
      · intro d' l' hm' hne
        simp only [Option.some.injEq, Prod.mk.injEq] at hm'
        obtain ⟨rfl, rfl⟩ := hm'
        exact hmf'

/-- `close()` goes ahead -/
theorem inv6_closing {s : StR} {m : RM} {L : Bool} (h : Inv6 s m [] L) (hcl : s.core.closed = false) (c' : St)
    (h1 : c'.reqs = s.core.reqs) (h2 : c'.nmake = s.core.nmake) (h3 : c'.closed = true) (hooks' : List (Nat × Hook)) (st : Bool) (sy : Sync) :
    Inv6 { core := c', hooks := hooks', stubborn := st, sync := sy } (r06Ob m .closing) [] true ∧ m.mustFire = none := by
  have hmn : m.mustFire = none := by
    cases hm : m.mustFire with
    | none => rfl
    | some x => obtain ⟨d, l⟩ := x; have := (h.mf d l hm).1; simp_all
  refine ⟨?_, hmn⟩
  have hb : Inv6 { core := c', hooks := hooks', stubborn := st, sync := sy } m [] true :=
    ⟨h.ok, by simpa only [h1] using h.pw, by simpa only [h1] using h.ids, by simpa only [h1, h2] using h.lt,
      by simpa only [h1] using h.cancSent, by simpa only [h2] using h.made, by simpa only [h2] using h.firedLt,
      by simpa only [h1, h2] using h.part, by simpa only [h1] using h.liveNF, h.pNF, by simp, h.pOne,
      by simp, by simp, fun _ => h3, by simp [hmn]⟩
  refine inv6_mon (m' := r06Ob m .closing) hb rfl rfl h.ok ?_
  intro d l hm
  simp only [r06Ob, Option.some.injEq, Prod.mk.injEq] at hm
  obtain ⟨rfl, rfl⟩ := hm
  refine ⟨h3, Nat.le_refl _, ?_⟩
  intro k hk
  simp only [h2]
  exact (h.made k).mp (List.mem_filter.mp hk).1


def NoFuelOut (os : List ObR) : Prop := ObR.fuelOut ∉ os

theorem NoFuelOut.append_left {a b : List ObR} (h : NoFuelOut (a ++ b)) : NoFuelOut a :=
  fun hm => h (List.mem_append.mpr (Or.inl hm))
theorem NoFuelOut.append_right {a b : List ObR} (h : NoFuelOut (a ++ b)) : NoFuelOut b :=
  fun hm => h (List.mem_append.mpr (Or.inr hm))
theorem NoFuelOut.cons {a : ObR} {b : List ObR} (h : NoFuelOut (a :: b)) : NoFuelOut b :=
  fun hm => h (List.mem_cons.mpr (Or.inr hm))

/-- what a task may assume -/
def Pre6 (task : Task) (s : StR) (m : RM) (L : Bool) : Prop :=
  match task with
  | .fire k id r => Inv6 s m [k] L ∧ (∀ b, r = .ok b → corrId b = some id)
  | .fireAll l r => l.length ≤ 1 ∧ Inv6 s m (l.map (·.1)) L ∧ (∀ p ∈ l, ∀ b, r = .ok b → corrId b = some p.2)
  | .closeLoop => Inv6 s m [] L ∧ L = true
  | _ => Inv6 s m [] L

/-- the specification of `exec` at a given amount of fuel -/
def Spec6 (cfg : Cfg) (n : Nat) : Prop :=
  ∀ (s : StR) (task : Task) (m : RM) (L : Bool), Pre6 task s m L → NoFuelOut (exec cfg n s task).2 →
    Post6 s m L (exec cfg n s task).1 (fold6 m (exec cfg n s task).2) ∧
    (task = .closeLoop → (exec cfg n s task).1.core.reqs = [])

theorem spec6_zero (cfg : Cfg) : Spec6 cfg 0 := by
  intro s task m L _ hnf
  exact absurd (by simp [exec]) hnf

theorem spec6_fire (cfg : Cfg) (n : Nat) (ih : Spec6 cfg n) (s : StR) (k : Nat) (id : Int) (r : Res) (m : RM) (L : Bool)
    (hpre : Pre6 (.fire k id r) s m L) (hnf : NoFuelOut (exec cfg (n + 1) s (.fire k id r)).2) :
    Post6 s m L (exec cfg (n + 1) s (.fire k id r)).1 (fold6 m (exec cfg (n + 1) s (.fire k id r)).2) := by
  obtain ⟨hinv, hown⟩ := hpre
  rw [exec_fire_eq] at hnf ⊢
  cases hl : lookupHook s.hooks k with
  | none =>
    simp only [hl] at hnf ⊢
    obtain ⟨i1, i2, i3⟩ := inv6_fire id r hinv hown
    simp only [fold6_cons, fold6_nil]
    exact ⟨i1, i2, fun x hx => by rw [i3]; exact hx, fun d l hm => Or.inl (by rw [← i3]; exact hm), fun h => h⟩
  | some hk =>
    simp only [hl] at hnf ⊢
    obtain ⟨i1, i2, i3⟩ := inv6_fire id r hinv hown
    -- the state the callback starts in
    have j1 : Inv6 { s with hooks := s.hooks.filter (fun p => p.1 != k) } (r06Ob m (.ob (.fire k id r))) [] L :=
      inv6_core i1 s.core rfl rfl rfl _ _ _
    have j2 := inv6_hookBegin k j1
    have hnf2 : NoFuelOut (exec cfg n { s with hooks := s.hooks.filter (fun p => p.1 != k) } (.acts hk)).2 := by
      intro hm; apply hnf; simp [hm]
    obtain ⟨p, _⟩ := ih _ (.acts hk) _ L j2 hnf2
    -- the monitor along the way
    have hfold : fold6 m ([ObR.ob (Ob.fire k id r), ObR.hookBegin k] ++
        (exec cfg n { s with hooks := s.hooks.filter (fun p => p.1 != k) } (.acts hk)).2 ++ [ObR.hookEnd]) =
        r06Ob (fold6 (r06Ob (r06Ob m (.ob (.fire k id r))) (.hookBegin k))
          (exec cfg n { s with hooks := s.hooks.filter (fun p => p.1 != k) } (.acts hk)).2) .hookEnd := by
      simp [fold6, List.foldl_append]
    rw [hfold]
    generalize hm3 : fold6 (r06Ob (r06Ob m (.ob (.fire k id r))) (.hookBegin k))
          (exec cfg n { s with hooks := s.hooks.filter (fun p => p.1 != k) } (.acts hk)).2 = m3 at p
    generalize hs3 : (exec cfg n { s with hooks := s.hooks.filter (fun p => p.1 != k) } (.acts hk)).1 = s3 at p
    have hdep : m3.depth = m.depth + 1 := by rw [p.depth]; simp [r06Ob]
    have hm2mf : (r06Ob (r06Ob m (.ob (.fire k id r))) (.hookBegin k)).mustFire = m.mustFire := rfl
    have hchk : ∀ l, m3.mustFire = some (m3.depth, l) → s3.core.reqs = [] := by
      intro l hml
      rcases p.mfNew _ l hml with h1 | ⟨_, hc, _⟩
      · rw [hm2mf] at h1
        have := (hinv.mf _ l h1).2.1
        omega
      · have hL : L = false := by
          cases hLL : L
          · rfl
          · have := hinv.lClosed hLL; simp_all
        exact p.inv.closedEmpty (p.inv.mf _ l hml).1 hL
    obtain ⟨e1, e2, e3, e4⟩ := inv6_hookEnd p.inv (by omega) hchk
    refine ⟨e1, by rw [e2, hdep]; omega, ?_, ?_, ?_⟩
    · intro x hx
      obtain ⟨d, l⟩ := x
      have h3 := p.mfKeep (d, l) (by rw [hm2mf]; exact hx)
      exact e4 d l h3 (by have := (hinv.mf d l hx).2.1; omega)
    · intro d l hml
      obtain ⟨h3, hne⟩ := e3 d l hml
      rcases p.mfNew d l h3 with h1 | ⟨hd, _, _⟩
      · exact Or.inl (by rw [hm2mf] at h1; exact h1)
      · exact absurd (by rw [hd, hdep]; simp [r06Ob]) hne
    · intro hc; exact p.closedMono hc


theorem spec6_fireAll (cfg : Cfg) (n : Nat) (ih : Spec6 cfg n) (s : StR) (l : List (Nat × Int)) (r : Res) (m : RM) (L : Bool)
    (hpre : Pre6 (.fireAll l r) s m L) (hnf : NoFuelOut (exec cfg (n + 1) s (.fireAll l r)).2) :
    Post6 s m L (exec cfg (n + 1) s (.fireAll l r)).1 (fold6 m (exec cfg (n + 1) s (.fireAll l r)).2) := by
  obtain ⟨hlen, hinv, hown⟩ := hpre
  match l, hlen with
  | [], _ =>
    rw [exec_fireAll_nil]
    exact Post6.refl s m L hinv
  | [p], _ =>
    rw [exec_fireAll_cons] at hnf ⊢
    simp only at hnf ⊢
    obtain ⟨p1, _⟩ := ih s (.fire p.1 p.2 r) m L ⟨hinv, fun b hb => hown p (by simp) b hb⟩ hnf.append_left
    obtain ⟨p2, _⟩ := ih _ (.fireAll [] r) _ L ⟨by simp, p1.inv, by simp⟩ hnf.append_right
    rw [fold6_append]
    exact p1.trans p2

theorem spec6_acts (cfg : Cfg) (n : Nat) (ih : Spec6 cfg n) (s : StR) (as : List Action) (m : RM) (L : Bool)
    (hpre : Pre6 (.acts as) s m L) (hnf : NoFuelOut (exec cfg (n + 1) s (.acts as)).2) :
    Post6 s m L (exec cfg (n + 1) s (.acts as)).1 (fold6 m (exec cfg (n + 1) s (.acts as)).2) := by
  have hinv : Inv6 s m [] L := hpre
  cases as with
  | nil => simp only [exec]; exact Post6.refl s m L hinv
  | cons a as =>
    simp only [exec] at hnf ⊢
    obtain ⟨p1, _⟩ := ih s (.act a) m L hinv hnf.append_left
    obtain ⟨p2, _⟩ := ih _ (.acts as) _ L p1.inv hnf.append_right
    rw [fold6_append]
    exact p1.trans p2

/-- a flat step that fires nothing and leaves table, serial counter and closed flag alone -/
theorem post6_flat_inert (s : StR) (m : RM) (L : Bool) (h : Inv6 s m [] L) (c' : St) (os : List Ob)
    (h1 : c'.reqs = s.core.reqs) (h2 : c'.nmake = s.core.nmake) (h3 : c'.closed = s.core.closed)
    (hos : ∀ o ∈ os, ∀ k i r, o ≠ .fire k i r) :
    Post6 s m L { s with core := c' } (fold6 m (obs os)) := by
  rw [fold6_obs_inert m os hos]
  exact ⟨inv6_core h c' h1 h2 h3 _ _ _, rfl, fun _ h => h, fun _ _ h => Or.inl h, fun hc => by simp only [h3]; exact hc⟩

theorem spec6_act (cfg : Cfg) (n : Nat) (ih : Spec6 cfg n) (s : StR) (a : Action) (m : RM) (L : Bool)
    (hpre : Pre6 (.act a) s m L) (hnf : NoFuelOut (exec cfg (n + 1) s (.act a)).2) :
    Post6 s m L (exec cfg (n + 1) s (.act a)).1 (fold6 m (exec cfg (n + 1) s (.act a)).2) := by
  have hinv : Inv6 s m [] L := hpre
  cases a with
  | close => simp only [exec] at hnf ⊢; exact (ih s .close m L hinv hnf).1
  | cancel id => simp only [exec] at hnf ⊢; exact (ih s (.cancel id) m L hinv hnf).1
  | make id ex =>
    simp only [exec] at hnf ⊢
    by_cases hsy : s.sync = .none
    · rw [if_pos hsy] at hnf ⊢; exact (ih s (.make id ex none) m L hinv hnf).1
    · rw [if_neg hsy] at hnf ⊢; exact (ih s (.makeS id ex none) m L hinv hnf).1
  | disconnect =>
    simp only [exec, step]
    split
    · exact post6_flat_inert s m L hinv _ _ rfl rfl rfl (by simp)
    · exact post6_flat_inert s m L hinv _ _ rfl rfl rfl (by simp)


/-- prefix a task's guarantee with a stretch in which depth, `mustFire` and the closed flag did not move -/
theorem Post6.of_eq {s s1 s2 : StR} {m m1 m2 : RM} {L : Bool} (h : Post6 s1 m1 L s2 m2)
    (hd : m1.depth = m.depth) (hmf : m1.mustFire = m.mustFire) (hc : s1.core.closed = s.core.closed) : Post6 s m L s2 m2 :=
  ⟨h.inv, by rw [h.depth, hd], fun x hx => h.mfKeep x (by rw [hmf]; exact hx),
   fun d l hm => by
     rcases h.mfNew d l hm with h1 | ⟨h1, h2, h3⟩
     · exact Or.inl (by rw [← hmf]; exact h1)
     · exact Or.inr ⟨by rw [h1, hd], by rw [← hc]; exact h2, by rw [← hmf]; exact h3⟩,
   fun hcl => h.closedMono (by rw [hc]; exact hcl)⟩

theorem post6_of_inv {s s' : StR} {m m' : RM} {L : Bool} (h : Inv6 s' m' [] L) (hd : m'.depth = m.depth)
    (hmf : m'.mustFire = m.mustFire) (hc : s'.core.closed = s.core.closed) : Post6 s m L s' m' :=
  ⟨h, hd, fun x hx => by rw [hmf]; exact hx, fun d l hm => Or.inl (by rw [← hmf]; exact hm), fun hcl => by rw [hc]; exact hcl⟩

theorem spec6_make (cfg : Cfg) (n : Nat) (ih : Spec6 cfg n) (s : StR) (id : Int) (ex : Bool) (hk : Option Hook) (m : RM) (L : Bool)
    (hpre : Pre6 (.make id ex hk) s m L) (hnf : NoFuelOut (exec cfg (n + 1) s (.make id ex hk)).2) :
    Post6 s m L (exec cfg (n + 1) s (.make id ex hk)).1 (fold6 m (exec cfg (n + 1) s (.make id ex hk)).2) := by
  have hinv : Inv6 s m [] L := hpre
  simp only [exec] at hnf ⊢
  by_cases hd : s.core.reqs.any (fun r => r.id == id) = true
  · simp only [hd, if_true]
    simp only [fold6_cons, fold6_nil, r06Ob]
    exact Post6.refl s m L hinv
  · simp only [hd, Bool.false_eq_true, if_false] at hnf ⊢
    have hfresh : ∀ r ∈ s.core.reqs, r.id ≠ id := by
      intro r hr he
      apply hd
      rw [List.any_eq_true]
      exact ⟨r, hr, by simp [he]⟩
    -- the three places where the new Deferred fires at once
    have pend : ∀ (res : Res) (hooks' : List (Nat × Hook)) (c' : St), (∀ b, res ≠ .ok b) →
        c'.reqs = s.core.reqs → c'.nmake = s.core.nmake + 1 → c'.closed = s.core.closed →
        NoFuelOut (exec cfg n { core := c', hooks := hooks', stubborn := s.stubborn, sync := s.sync } (.fire s.core.nmake id res)).2 →
        Post6 s m L (exec cfg n { core := c', hooks := hooks', stubborn := s.stubborn, sync := s.sync } (.fire s.core.nmake id res)).1
          (fold6 (r06Ob m (.made s.core.nmake id))
            (exec cfg n { core := c', hooks := hooks', stubborn := s.stubborn, sync := s.sync } (.fire s.core.nmake id res)).2) := by
      intro res hooks' c' hres h1 h2 h3 hnf'
      have j := inv6_made_pend id hinv c' h1 h2 h3 hooks' s.stubborn s.sync
      obtain ⟨p, _⟩ := ih _ (.fire s.core.nmake id res) _ L ⟨j, fun b hb => absurd hb (hres b)⟩ hnf'
      exact p.of_eq rfl rfl h3
    by_cases hc : s.core.closed = true
    · simp only [hc, if_true] at hnf ⊢
      rw [fold6_cons]
      exact pend _ _ _ (by simp) rfl rfl (by simp [hc]) hnf.cons
    · have hc' : s.core.closed = false := by simpa using hc
      simp only [hc', Bool.false_eq_true, if_false] at hnf ⊢
      cases hp : s.core.proto with
      | some conn =>
        simp only [hp] at hnf ⊢
        by_cases hw : s.core.wfail = true
        · simp only [hw, if_true] at hnf ⊢
          rw [fold6_cons]
          exact pend _ _ _ (by simp) rfl rfl (by simp [hc']) hnf.cons
        · have hw' : s.core.wfail = false := by simpa using hw
          simp only [hw', Bool.false_eq_true, if_false] at hnf ⊢
          cases ex with
          | true =>
            simp only [if_true]
            have hf : fold6 m [ObR.ob (if s.core.losing = true then Ob.writeLost conn s.core.nmake id else Ob.write conn s.core.nmake id),
                ObR.made s.core.nmake id] = r06Ob m (.made s.core.nmake id) := by
              split <;> simp [fold6, r06Ob]
            rw [hf]
            exact post6_of_inv (inv6_made_live id hinv { serial := s.core.nmake, id := id, expect := true, sent := true, cancelled := false }
              _ rfl rfl rfl hfresh hc' rfl rfl (by simp [hc']) _ _ _) rfl rfl (by simp [hc'])
          | false =>
            simp only [Bool.false_eq_true, if_false] at hnf ⊢
            have hf : ∀ tl, fold6 m ([ObR.ob (if s.core.losing = true then Ob.writeLost conn s.core.nmake id else Ob.write conn s.core.nmake id),
                ObR.made s.core.nmake id] ++ tl) = fold6 (r06Ob m (.made s.core.nmake id)) tl := by
              intro tl; split <;> simp [fold6, r06Ob]
            rw [hf]
            exact pend _ _ _ (by simp) rfl rfl (by simp [hc']) hnf.append_right
      | none =>
        simp only [hp] at hnf ⊢
        by_cases hco : s.core.connector = .none
        · simp only [hco, if_true, connect_, tryConnect]
          have hf : fold6 m (obs [Ob.connect s.core.host s.core.port] ++ [ObR.made s.core.nmake id]) = r06Ob m (.made s.core.nmake id) := by
            simp [fold6, r06Ob, obs]
          rw [hf]
          exact post6_of_inv (inv6_made_live id hinv { serial := s.core.nmake, id := id, expect := ex, sent := false, cancelled := false }
            _ rfl rfl rfl hfresh hc' rfl rfl (by simp [hc']) _ _ _) rfl rfl (by simp [hc'])
        · simp only [hco, if_false]
          simp only [fold6_cons, fold6_nil]
          exact post6_of_inv (inv6_made_live id hinv { serial := s.core.nmake, id := id, expect := ex, sent := false, cancelled := false }
            _ rfl rfl rfl hfresh hc' rfl rfl (by simp [hc']) _ _ _) rfl rfl (by simp [hc'])


theorem filter_id_le_one (reqs : List Req) (hids : reqs.Pairwise (fun a b => a.id ≠ b.id)) (id : Int) (q : Req → Bool) :
    (reqs.filter (fun r => r.id == id && q r)).length ≤ 1 := by
  induction reqs with
  | nil => simp
  | cons a l ih =>
    rw [List.pairwise_cons] at hids
    rw [List.filter_cons]
    split
    · rename_i ha
      simp only [Bool.and_eq_true, beq_iff_eq] at ha
      have : l.filter (fun r => r.id == id && q r) = [] := by
        rw [List.filter_eq_nil_iff]
        intro r hr hc
        simp only [Bool.and_eq_true, beq_iff_eq] at hc
        exact hids.1 r hr (by rw [ha.1, hc.1])
      simp [this]
    · exact ih hids.2

theorem serial_injR (reqs : List Req) (hpw : reqs.Pairwise (fun a b => a.serial < b.serial)) :
    ∀ r ∈ reqs, ∀ r' ∈ reqs, r.serial = r'.serial → r = r' := by
  induction reqs with
  | nil => simp
  | cons a l ih =>
    rw [List.pairwise_cons] at hpw
    intro r hr r' hr' he
    simp only [List.mem_cons] at hr hr'
    rcases hr with rfl | hr <;> rcases hr' with rfl | hr'
    · rfl
    · have := hpw.1 r' hr'; omega
    · have := hpw.1 r hr; omega
    · exact ih hpw.2 r hr r' hr' he

/-- the table after `_cancelRequest(id)` -/
def cancelTable (reqs : List Req) (id : Int) : List Req :=
  List.map (fun r => if r.id == id then { r with cancelled := true } else r) (reqs.filter (fun r => r.id != id || r.sent))

/-- the live requests carrying `id` (at most one) -/
def liveWith (reqs : List Req) (id : Int) : List (Nat × Int) :=
  (reqs.filter (fun r => r.id == id && !r.cancelled)).map (fun r => (r.serial, r.id))

theorem exec_cancel_eq (cfg : Cfg) (n : Nat) (s : StR) (id : Int) :
    exec cfg (n + 1) s (.cancel id) =
      if s.core.reqs.any (fun r => r.id == id && !r.cancelled) then
        exec cfg n { s with core := { s.core with reqs := cancelTable s.core.reqs id } } (.fireAll (liveWith s.core.reqs id) (.err .cancelled))
      else (s, [.ob .badOp]) := rfl

theorem liveWith_len (reqs : List Req) (hids : reqs.Pairwise (fun a b => a.id ≠ b.id)) (id : Int) : (liveWith reqs id).length ≤ 1 := by
  simp only [liveWith, List.length_map]; exact filter_id_le_one _ hids id _

theorem mem_liveWith (reqs : List Req) (id : Int) (k : Nat) :
    k ∈ (liveWith reqs id).map (·.1) ↔ ∃ r ∈ reqs, r.id = id ∧ r.cancelled = false ∧ r.serial = k := by
  simp only [liveWith, List.map_map, List.mem_map, List.mem_filter, Function.comp_def, Bool.and_eq_true, beq_iff_eq,
    Bool.not_eq_eq_eq_not, Bool.not_true]
  constructor
  · rintro ⟨r, ⟨hr, h1, h2⟩, h3⟩; exact ⟨r, hr, h1, h2, h3⟩
  · rintro ⟨r, hr, h1, h2, h3⟩; exact ⟨r, ⟨hr, h1, h2⟩, h3⟩

/-- `cancelRequest`: unsent entries with the id leave the table, sent ones are marked cancelled; the
    live ones among them become pending -/
theorem inv6_cancelTable {s : StR} {m : RM} {L : Bool} (hinv : Inv6 s m [] L) (id : Int) :
    Inv6 { s with core := { s.core with reqs := cancelTable s.core.reqs id } } m ((liveWith s.core.reqs id).map (·.1)) L := by
  have hpwf : (cancelTable s.core.reqs id).Pairwise (fun a b => a.serial < b.serial) :=
    pw_fm (R := fun a b => a.serial < b.serial) s.core.reqs (fun r => r.id != id || r.sent)
      (fun r => if r.id == id then { r with cancelled := true } else r) (by intro a b h; split <;> split <;> exact h) hinv.pw
  have hidf : (cancelTable s.core.reqs id).Pairwise (fun a b => a.id ≠ b.id) :=
    pw_fm (R := fun a b => a.id ≠ b.id) s.core.reqs (fun r => r.id != id || r.sent)
      (fun r => if r.id == id then { r with cancelled := true } else r) (by intro a b h; split <;> split <;> exact h) hinv.ids
  have hmemT : ∀ r', r' ∈ cancelTable s.core.reqs id ↔ ∃ r ∈ s.core.reqs, (r.id ≠ id ∨ r.sent = true) ∧
      r' = (if r.id == id then { r with cancelled := true } else r) := by
    intro r'
    simp only [cancelTable, List.mem_map, List.mem_filter, Bool.or_eq_true, bne_iff_ne, ne_eq]
    constructor
    · rintro ⟨r, ⟨hr, hf⟩, rfl⟩; exact ⟨r, hr, hf, rfl⟩
    · rintro ⟨r, hr, hf, rfl⟩; exact ⟨r, ⟨hr, hf⟩, rfl⟩
  apply inv6_retable hinv _ _ rfl hpwf hidf
  · intro r' hr' hc'
    obtain ⟨r, hr, hf, rfl⟩ := (hmemT r').mp hr'
    by_cases hi : r.id = id
    · rcases hf with hf | hf
      · exact absurd hi hf
      · simp [hi, hf]
    · simp only [beq_iff_eq, hi, if_false] at hc' ⊢; exact hinv.cancSent r hr hc'
  · intro r' hr'
    obtain ⟨r, hr, hf, rfl⟩ := (hmemT r').mp hr'
    refine ⟨r, hr, by split <;> rfl, ?_⟩
    by_cases hi : r.id = id <;> simp [hi]
  · intro r hr hc
    by_cases hi : r.id = id
    · right; exact (mem_liveWith _ _ _).mpr ⟨r, hr, hi, hc, rfl⟩
    · left
      exact ⟨r, (hmemT r).mpr ⟨r, hr, Or.inl hi, by simp [hi]⟩, rfl, hc⟩
  · intro k hk
    obtain ⟨r, hr, _, hc, hs⟩ := (mem_liveWith _ _ _).mp hk
    exact Or.inr ⟨r, hr, hs, hc⟩
  · simp
  · simp only [List.length_map]; exact liveWith_len _ hinv.ids id
  · intro k hk r' hr' hs
    obtain ⟨r0, hr0, hi0, _, hs0⟩ := (mem_liveWith _ _ _).mp hk
    obtain ⟨r, hr, _, rfl⟩ := (hmemT r').mp hr'
    have hse : r.serial = r0.serial := by rw [hs0, ← hs]; split <;> rfl
    have := serial_injR _ hinv.pw r hr r0 hr0 hse
    subst this
    simp [hi0]
  · intro hcl hL
    simp [cancelTable, hinv.closedEmpty hcl hL]

theorem spec6_cancel (cfg : Cfg) (n : Nat) (ih : Spec6 cfg n) (s : StR) (id : Int) (m : RM) (L : Bool)
    (hpre : Pre6 (.cancel id) s m L) (hnf : NoFuelOut (exec cfg (n + 1) s (.cancel id)).2) :
    Post6 s m L (exec cfg (n + 1) s (.cancel id)).1 (fold6 m (exec cfg (n + 1) s (.cancel id)).2) := by
  have hinv : Inv6 s m [] L := hpre
  rw [exec_cancel_eq] at hnf ⊢
  by_cases hany : s.core.reqs.any (fun r => r.id == id && !r.cancelled) = true
  · simp only [hany, if_true] at hnf ⊢
    have j := inv6_cancelTable hinv id
    obtain ⟨p, _⟩ := ih _ (.fireAll (liveWith s.core.reqs id) (.err .cancelled)) m L ⟨liveWith_len _ hinv.ids id, j, by simp⟩ hnf
    exact p.of_eq rfl rfl rfl
  · simp only [hany, Bool.false_eq_true, if_false] at hnf ⊢
    simp only [fold6_cons, fold6_nil, r06Ob]
    exact Post6.refl s m L hinv


/-- take one entry out of the table; if it is live its firing becomes pending -/
theorem inv6_remove {s : StR} {m : RM} {L : Bool} (h : Inv6 s m [] L) (rq : Req) (hrq : rq ∈ s.core.reqs) :
    Inv6 { s with core := { s.core with reqs := s.core.reqs.filter (fun r => r.serial != rq.serial) } } m
      (if rq.cancelled then [] else [rq.serial]) L := by
  apply inv6_retable h _ _ rfl (h.pw.filter _) (h.ids.filter _)
  · intro r hr hc; exact h.cancSent r (List.mem_filter.mp hr).1 hc
  · intro r hr; exact ⟨r, (List.mem_filter.mp hr).1, rfl, fun hc => hc⟩
  · intro r hr hc
    by_cases hs : r.serial = rq.serial
    · have := serial_injR _ h.pw r hr rq hrq hs
      subst this
      right; simp [hc]
    · left; exact ⟨r, List.mem_filter.mpr ⟨hr, by simp [hs]⟩, rfl, hc⟩
  · intro k hk
    by_cases hc : rq.cancelled = true
    · simp [hc] at hk
    · have hc' : rq.cancelled = false := by simpa using hc
      simp only [hc', Bool.false_eq_true, if_false, List.mem_singleton] at hk
      exact Or.inr ⟨rq, hrq, hk.symm, hc'⟩
  · simp
  · split <;> simp
  · intro k hk r' hr' hs
    by_cases hc : rq.cancelled = true
    · simp [hc] at hk
    · have hc' : rq.cancelled = false := by simpa using hc
      simp only [hc', Bool.false_eq_true, if_false, List.mem_singleton] at hk
      have := (List.mem_filter.mp hr').2
      simp [hs, hk] at this
  · intro hcl hL
    simp [h.closedEmpty hcl hL]

theorem spec6_closeLoop (cfg : Cfg) (n : Nat) (ih : Spec6 cfg n) (s : StR) (m : RM) (L : Bool)
    (hpre : Pre6 .closeLoop s m L) (hnf : NoFuelOut (exec cfg (n + 1) s .closeLoop).2) :
    Post6 s m L (exec cfg (n + 1) s .closeLoop).1 (fold6 m (exec cfg (n + 1) s .closeLoop).2) ∧
    (exec cfg (n + 1) s .closeLoop).1.core.reqs = [] := by
  obtain ⟨hinv, hL⟩ := hpre
  rw [exec_closeLoop_eq] at hnf ⊢
  cases hsel : (if closePopLast then s.core.reqs.getLast? else s.core.reqs.head?) with
  | none =>
    simp only [hsel]
    have he : s.core.reqs = [] := by
      split at hsel
      · exact List.getLast?_eq_none_iff.mp hsel
      · exact List.head?_eq_none_iff.mp hsel
    exact ⟨Post6.refl s m L hinv, he⟩
  | some rq =>
    simp only [hsel] at hnf ⊢
    have hrq : rq ∈ s.core.reqs := by
      split at hsel
      · exact List.mem_of_getLast? hsel
      · exact List.mem_of_head? hsel
    have j := inv6_remove hinv rq hrq
    by_cases hc : rq.cancelled = true
    · simp only [hc, if_true] at hnf j ⊢
      obtain ⟨p2, he⟩ := ih _ .closeLoop m L ⟨j, hL⟩ (by simpa using hnf)
      simp only [List.nil_append]
      exact ⟨p2.of_eq rfl rfl rfl, he rfl⟩
    · have hc' : rq.cancelled = false := by simpa using hc
      simp only [hc', Bool.false_eq_true, if_false] at hnf j ⊢
      obtain ⟨p1, _⟩ := ih _ (.fire rq.serial rq.id (.err .clientError)) m L ⟨j, by simp⟩ hnf.append_left
      obtain ⟨p2, he⟩ := ih _ .closeLoop _ L ⟨p1.inv, hL⟩ hnf.append_right
      rw [fold6_append]
      exact ⟨(p1.trans p2).of_eq rfl rfl rfl, he rfl⟩

/-- a finished `close()`: the table is empty, so the invariant no longer needs the "inside close()" flag -/
theorem inv6_unL {s : StR} {m : RM} (h : Inv6 s m [] true) (he : s.core.reqs = []) : Inv6 s m [] false :=
  ⟨h.ok, h.pw, h.ids, h.lt, h.cancSent, h.made, h.firedLt, h.part, h.liveNF, h.pNF, h.pLt, h.pOne, h.pNotLive,
   fun _ _ => he, by simp, h.mf⟩


/-- the common part of every branch of `close()`: `closing`, some inert observations, the pop loop,
    more inert observations -/
theorem close_core (cfg : Cfg) (n : Nat) (ih : Spec6 cfg n) (s : StR) (m : RM) (L : Bool) (hinv : Inv6 s m [] L)
    (hcl : s.core.closed = false) (c' : St) (pre post : List Ob)
    (h1 : c'.reqs = s.core.reqs) (h2 : c'.nmake = s.core.nmake) (h3 : c'.closed = true)
    (hpre : ∀ o ∈ pre, ∀ k i r, o ≠ .fire k i r) (hpost : ∀ o ∈ post, ∀ k i r, o ≠ .fire k i r)
    (hnf : NoFuelOut (exec cfg n { s with core := c' } .closeLoop).2) :
    Post6 s m L (exec cfg n { s with core := c' } .closeLoop).1
      (fold6 m ([ObR.closing] ++ obs pre ++ (exec cfg n { s with core := c' } .closeLoop).2 ++ obs post)) := by
  have hL : L = false := by
    cases hLL : L
    · rfl
    · have := hinv.lClosed hLL; simp_all
  subst hL
  obtain ⟨j, hmn⟩ := inv6_closing hinv hcl c' h1 h2 h3 s.hooks s.stubborn s.sync
  obtain ⟨p, he⟩ := ih { s with core := c' } .closeLoop (r06Ob m .closing) true ⟨j, rfl⟩ hnf
  have he' := he rfl
  have hfold : fold6 m ([ObR.closing] ++ obs pre ++ (exec cfg n { s with core := c' } .closeLoop).2 ++ obs post)
      = fold6 (r06Ob m .closing) (exec cfg n { s with core := c' } .closeLoop).2 := by
    rw [fold6_append, fold6_append, fold6_append]
    simp only [List.singleton_append, fold6_cons, fold6_nil]
    rw [fold6_obs_inert _ pre hpre, fold6_obs_inert _ post hpost]
  rw [hfold]
  refine ⟨inv6_unL p.inv he', by rw [p.depth]; rfl, by simp [hmn], ?_, fun h => by simp_all⟩
  intro d l hm
  right
  rcases p.mfNew d l hm with h' | ⟨_, h', _⟩
  · simp only [r06Ob, Option.some.injEq, Prod.mk.injEq] at h'
    exact ⟨h'.1.symm, hcl, hmn⟩
  · simp [h3] at h'

theorem spec6_close (cfg : Cfg) (n : Nat) (ih : Spec6 cfg n) (s : StR) (m : RM) (L : Bool)
    (hpre : Pre6 .close s m L) (hnf : NoFuelOut (exec cfg (n + 1) s .close).2) :
    Post6 s m L (exec cfg (n + 1) s .close).1 (fold6 m (exec cfg (n + 1) s .close).2) := by
  have hinv : Inv6 s m [] L := hpre
  simp only [exec] at hnf ⊢
  by_cases hc : s.core.closed = true
  · simp only [hc, if_true]
    simp only [fold6_cons, fold6_nil, r06Ob]
    exact Post6.refl s m L hinv
  · have hc' : s.core.closed = false := by simpa using hc
    simp only [hc', Bool.false_eq_true, if_false] at hnf ⊢
    cases hp : s.core.proto with
    | some conn =>
      simp only [hp] at hnf ⊢
      have := close_core cfg n ih s m L hinv hc' { s.core with closed := true, losing := true, proto := some conn } [.lose conn] [] rfl rfl rfl (by simp) (by simp)
        (by intro hm; apply hnf; simp [hm])
      simpa [obs] using this
    | none =>
      simp only [hp] at hnf ⊢
      by_cases hst : (s.stubborn && s.core.connector == .attempt) = true
      · simp only [hst, if_true] at hnf ⊢
        have := close_core cfg n ih s m L hinv hc' { s.core with closed := true, failures := 0, connector := .none, proto := some s.core.nconn, nconn := s.core.nconn + 1, losing := true, rbuf := [] } [.cancelConnect, .lose s.core.nconn] [] rfl rfl rfl (by simp) (by simp)
          (by intro hm; apply hnf; simp [hm])
        simpa [obs] using this
      · simp only [hst, Bool.false_eq_true, if_false] at hnf ⊢
        cases hco : s.core.connector with
        | none =>
          simp only [hco] at hnf ⊢
          have := close_core cfg n ih s m L hinv hc' { s.core with closed := true, connector := .none, proto := none } [] [.down] rfl rfl rfl (by simp) (by simp)
            (by intro hm; apply hnf; simp [hm])
          simpa [obs] using this
        | attempt =>
          simp only [hco] at hnf ⊢
          have := close_core cfg n ih s m L hinv hc' { s.core with closed := true, connector := .stale, proto := none } [.cancelConnect] [.down] rfl rfl rfl (by simp) (by simp)
            (by intro hm; apply hnf; simp [hm])
          simpa [obs] using this
        | backoff d =>
          simp only [hco] at hnf ⊢
          have := close_core cfg n ih s m L hinv hc' { s.core with closed := true, connector := .stale, proto := none } [.cancelTimer] [.down] rfl rfl rfl (by simp) (by simp)
            (by intro hm; apply hnf; simp [hm])
          simpa [obs] using this
        | stale =>
          simp only [hco] at hnf ⊢
          have := close_core cfg n ih s m L hinv hc' { s.core with closed := true, connector := .stale, proto := none } [] [.down] rfl rfl rfl (by simp) (by simp)
            (by intro hm; apply hnf; simp [hm])
          simpa [obs] using this


/-- mark one entry as sent -/
theorem inv6_markSent {s : StR} {m : RM} {L : Bool} (h : Inv6 s m [] L) (k : Nat) :
    Inv6 { s with core := { s.core with reqs := s.core.reqs.map (fun r => if r.serial == k then { r with sent := true } else r) } } m [] L := by
  have hf : ∀ a b : Req, True → True := fun _ _ h => h
  apply inv6_retable h _ _ rfl
  · exact h.pw.map _ (by intro a b hab; split <;> split <;> exact hab)
  · exact h.ids.map _ (by intro a b hab; split <;> split <;> exact hab)
  · intro r' hr' hc
    obtain ⟨r, hr, rfl⟩ := List.mem_map.mp hr'
    split
    · rfl
    · rename_i hne; simp only [hne, if_false] at hc; exact h.cancSent r hr hc
  · intro r' hr'
    obtain ⟨r, hr, rfl⟩ := List.mem_map.mp hr'
    exact ⟨r, hr, by split <;> rfl, by split <;> exact fun hc => hc⟩
  · intro r hr hc
    left
    exact ⟨_, List.mem_map_of_mem hr, by split <;> rfl, by split <;> exact hc⟩
  · simp
  · simp
  · simp
  · simp
  · intro hcl hL; simp [h.closedEmpty hcl hL]

theorem spec6_sendLoop (cfg : Cfg) (n : Nat) (ih : Spec6 cfg n) (s : StR) (conn : Nat) (snap : List Nat) (m : RM) (L : Bool)
    (hpre : Pre6 (.sendLoop conn snap) s m L) (hnf : NoFuelOut (exec cfg (n + 1) s (.sendLoop conn snap)).2) :
    Post6 s m L (exec cfg (n + 1) s (.sendLoop conn snap)).1 (fold6 m (exec cfg (n + 1) s (.sendLoop conn snap)).2) := by
  have hinv : Inv6 s m [] L := hpre
  cases snap with
  | nil => rw [exec_sendLoop_nil]; exact Post6.refl s m L hinv
  | cons k ks =>
    rw [exec_sendLoop_cons] at hnf ⊢
    cases hsel : s.core.reqs.filter (fun r => r.serial == k && !r.sent) with
    | nil =>
      simp only [hsel] at hnf ⊢
      exact (ih s (.sendLoop conn ks) m L hinv hnf).1
    | cons rq rest =>
      simp only [hsel] at hnf ⊢
      have hmem : rq ∈ s.core.reqs.filter (fun r => r.serial == k && !r.sent) := by rw [hsel]; simp
      obtain ⟨hrq, hcond⟩ := List.mem_filter.mp hmem
      simp only [Bool.and_eq_true, beq_iff_eq, Bool.not_eq_eq_eq_not, Bool.not_true] at hcond
      obtain ⟨hk, hsent⟩ := hcond
      have hlive : rq.cancelled = false := by
        cases hc : rq.cancelled
        · rfl
        · have := hinv.cancSent rq hrq hc; simp_all
      have jrem := inv6_remove hinv rq hrq
      simp only [hlive, Bool.false_eq_true, if_false, hk] at jrem
      by_cases hw : s.core.wfail = true
      · rw [if_pos hw] at hnf ⊢
        obtain ⟨p1, _⟩ := ih _ (.fire k rq.id (.err .writeError)) m L ⟨jrem, by simp⟩ hnf.append_left
        obtain ⟨p2, _⟩ := ih _ (.sendLoop conn ks) _ L p1.inv hnf.append_right
        rw [fold6_append]
        exact (p1.trans p2).of_eq rfl rfl rfl
      · rw [if_neg hw] at hnf ⊢
        by_cases he : rq.expect = true
        · rw [if_pos he] at hnf ⊢
          simp only at hnf ⊢
          have jm := inv6_markSent hinv k
          obtain ⟨p2, _⟩ := ih _ (.sendLoop conn ks) m L jm hnf.append_right
          rw [fold6_append]
          have : fold6 m [ObR.ob (if s.core.losing = true then Ob.writeLost conn k rq.id else Ob.write conn k rq.id)] = m := by
            split <;> simp [fold6, r06Ob]
          rw [this]
          exact p2.of_eq rfl rfl rfl
        · rw [if_neg he] at hnf ⊢
          simp only at hnf ⊢
          obtain ⟨p1, _⟩ := ih _ (.fire k rq.id .none) m L ⟨jrem, by simp⟩ (hnf.append_left).cons
          obtain ⟨p2, _⟩ := ih _ (.sendLoop conn ks) _ L p1.inv hnf.append_right
          rw [fold6_append, fold6_cons]
          have : r06Ob m (ObR.ob (if s.core.losing = true then Ob.writeLost conn k rq.id else Ob.write conn k rq.id)) = m := by
            split <;> simp [r06Ob]
          rw [this]
          exact (p1.trans p2).of_eq rfl rfl rfl


/-- `_connectionLost` -/
theorem inv6_lost {s : StR} {m : RM} {L : Bool} (h : Inv6 s m [] L) :
    Inv6 { s with core := (lostStep s.core).1 } m [] L ∧ (lostStep s.core).1.closed = s.core.closed ∧
    (∀ o ∈ (lostStep s.core).2, ∀ k i r, o ≠ .fire k i r) := by
  have hf : (lostStep s.core).1.reqs = (s.core.reqs.filter (fun r => !r.cancelled)).map (fun r => { r with sent := false }) ∧
      (lostStep s.core).1.nmake = s.core.nmake ∧ (lostStep s.core).1.closed = s.core.closed := by
    simp only [lostStep, connect_, tryConnect]
    split <;> (try split) <;> exact ⟨rfl, rfl, rfl⟩
  have hob : ∀ o ∈ (lostStep s.core).2, ∀ k i r, o ≠ .fire k i r := by
    simp only [lostStep, connect_, tryConnect]
    split <;> (try split) <;> simp
  refine ⟨?_, hf.2.2, hob⟩
  have j : Inv6 { s with core := { s.core with reqs := (s.core.reqs.filter (fun r => !r.cancelled)).map (fun r => { r with sent := false }) } } m [] L := by
    apply inv6_retable h _ _ rfl
    · exact (h.pw.filter _).map _ (fun _ _ hab => hab)
    · exact (h.ids.filter _).map _ (fun _ _ hab => hab)
    · intro r' hr' hc
      obtain ⟨r, hr, rfl⟩ := List.mem_map.mp hr'
      have := (List.mem_filter.mp hr).2
      simp_all
    · intro r' hr'
      obtain ⟨r, hr, rfl⟩ := List.mem_map.mp hr'
      exact ⟨r, (List.mem_filter.mp hr).1, rfl, fun hc => hc⟩
    · intro r hr hc
      left
      exact ⟨_, List.mem_map_of_mem (List.mem_filter.mpr ⟨hr, by simp [hc]⟩), rfl, hc⟩
    · simp
    · simp
    · simp
    · simp
    · intro hcl hL; simp [h.closedEmpty hcl hL]
  exact inv6_core j _ hf.1 hf.2.1 hf.2.2 _ _ _

/-- a packet carrying `id` takes every entry with that id out of the table -/
theorem inv6_filterId {s : StR} {m : RM} {L : Bool} (h : Inv6 s m [] L) (id : Int) :
    Inv6 { s with core := { s.core with reqs := s.core.reqs.filter (fun r => r.id != id) } } m ((liveWith s.core.reqs id).map (·.1)) L := by
  apply inv6_retable h _ _ rfl (h.pw.filter _) (h.ids.filter _)
  · intro r hr hc; exact h.cancSent r (List.mem_filter.mp hr).1 hc
  · intro r hr; exact ⟨r, (List.mem_filter.mp hr).1, rfl, fun hc => hc⟩
  · intro r hr hc
    by_cases hi : r.id = id
    · right; exact (mem_liveWith _ _ _).mpr ⟨r, hr, hi, hc, rfl⟩
    · left; exact ⟨r, List.mem_filter.mpr ⟨hr, by simp [hi]⟩, rfl, hc⟩
  · intro k hk
    obtain ⟨r, hr, _, hc, hs⟩ := (mem_liveWith _ _ _).mp hk
    exact Or.inr ⟨r, hr, hs, hc⟩
  · simp
  · simp only [List.length_map]; exact liveWith_len _ h.ids id
  · intro k hk r' hr' hs
    obtain ⟨r0, hr0, hi0, _, hs0⟩ := (mem_liveWith _ _ _).mp hk
    obtain ⟨hr1, hf⟩ := List.mem_filter.mp hr'
    have := serial_injR _ h.pw r' hr1 r0 hr0 (by rw [hs, hs0])
    subst this
    simp [hi0] at hf
  · intro hcl hL; simp [h.closedEmpty hcl hL]

theorem spec6_frames (cfg : Cfg) (n : Nat) (ih : Spec6 cfg n) (s : StR) (conn : Nat) (fs : List Bytes) (f : Fed) (m : RM) (L : Bool)
    (hpre : Pre6 (.frames conn fs f) s m L) (hnf : NoFuelOut (exec cfg (n + 1) s (.frames conn fs f)).2) :
    Post6 s m L (exec cfg (n + 1) s (.frames conn fs f)).1 (fold6 m (exec cfg (n + 1) s (.frames conn fs f)).2) := by
  have hinv : Inv6 s m [] L := hpre
  cases fs with
  | nil =>
    rw [exec_frames_nil]
    split
    · have := post6_flat_inert s m L hinv { s.core with rbuf := f.buf, losing := true } [.lose conn] rfl rfl rfl (by simp)
      simpa [obs] using this
    · have := post6_flat_inert s m L hinv { s.core with rbuf := f.buf } [] rfl rfl rfl (by simp)
      simpa [obs] using this
  | cons b bs =>
    rw [exec_frames_cons] at hnf ⊢
    cases hid : corrId b with
    | none =>
      simp only [hid] at hnf ⊢
      have hru : r06Ob m (.ob .raiseUnderflow) = m := by simp [r06Ob]
      by_cases hsy : s.sync = .none
      · rw [if_pos hsy]
        obtain ⟨j, hcl, hob⟩ := inv6_lost hinv
        have hfold : fold6 m (ObR.ob Ob.raiseUnderflow :: obs (lostStep s.core).2) = m := by
          rw [fold6_cons, hru, fold6_obs_inert m _ hob]
        rw [hfold]
        exact post6_of_inv j rfl rfl hcl
      · rw [if_neg hsy] at hnf ⊢
        obtain ⟨p, _⟩ := ih s .lost m L hinv hnf.cons
        rw [fold6_cons, hru]
        exact p
    | some id =>
      simp only [hid] at hnf ⊢
      have j := inv6_filterId hinv id
      by_cases hany : s.core.reqs.any (fun r => r.id == id) = true
      · rw [if_pos hany] at hnf ⊢
        have hown : ∀ p ∈ liveWith s.core.reqs id, ∀ b', Res.ok b = .ok b' → corrId b' = some p.2 := by
          intro p hp b' hb
          simp only [Res.ok.injEq] at hb; subst hb
          simp only [liveWith, List.mem_map, List.mem_filter, Bool.and_eq_true, beq_iff_eq] at hp
          obtain ⟨r, ⟨_, hi, _⟩, rfl⟩ := hp
          rw [hid, hi]
        obtain ⟨p1, _⟩ := ih _ (.fireAll (liveWith s.core.reqs id) (.ok b)) m L ⟨liveWith_len _ hinv.ids id, j, hown⟩ hnf.append_left
        obtain ⟨p2, _⟩ := ih _ (.frames conn bs f) _ L p1.inv hnf.append_right
        rw [fold6_append]
        exact (p1.trans p2).of_eq rfl rfl rfl
      · rw [if_neg hany] at hnf ⊢
        have hempty : liveWith s.core.reqs id = [] := by
          simp only [liveWith, List.map_eq_nil_iff, List.filter_eq_nil_iff]
          intro r hr hc
          apply hany
          rw [List.any_eq_true]
          simp only [Bool.and_eq_true] at hc
          exact ⟨r, hr, hc.1⟩
        rw [hempty] at j
        obtain ⟨p2, _⟩ := ih _ (.frames conn bs f) m L j hnf.append_right
        rw [fold6_append]
        have : fold6 m [ObR.ob (Ob.unexpected id)] = m := by simp [fold6, r06Ob]
        rw [this]
        exact p2.of_eq rfl rfl rfl

theorem lostStep_fields (c : St) :
    (lostStep c).1.reqs = (c.reqs.filter (fun r => !r.cancelled)).map (fun r => { r with sent := false }) ∧
    (lostStep c).1.nmake = c.nmake ∧ (lostStep c).1.closed = c.closed := by
  simp only [lostStep, connect_, tryConnect]
  split <;> (try split) <;> exact ⟨rfl, rfl, rfl⟩

/-- the state `_connectionLost` leaves (whatever the connector does next) -/
theorem inv6_lostTable {s : StR} {m : RM} {L : Bool} (h : Inv6 s m [] L) (c' : St)
    (h1 : c'.reqs = (s.core.reqs.filter (fun r => !r.cancelled)).map (fun r => { r with sent := false }))
    (h2 : c'.nmake = s.core.nmake) (h3 : c'.closed = s.core.closed) :
    Inv6 { s with core := c' } m [] L := by
  obtain ⟨j, _, _⟩ := inv6_lost h
  obtain ⟨f1, f2, f3⟩ := lostStep_fields s.core
  exact inv6_core j c' (by rw [h1, f1]) (by rw [h2, f2]) (by rw [h3, f3]) _ _ _

theorem spec6_dial (cfg : Cfg) (n : Nat) (ih : Spec6 cfg n) (s : StR) (m : RM) (L : Bool)
    (hpre : Pre6 .dial s m L) (hnf : NoFuelOut (exec cfg (n + 1) s .dial).2) :
    Post6 s m L (exec cfg (n + 1) s .dial).1 (fold6 m (exec cfg (n + 1) s .dial).2) := by
  have hinv : Inv6 s m [] L := hpre
  simp only [exec] at hnf ⊢
  split
  · simp only [fold6_cons, fold6_nil, r06Ob]; exact Post6.refl s m L hinv
  · split
    · have := post6_flat_inert s m L hinv { s.core with connector := .attempt } [.connect s.core.host s.core.port] rfl rfl rfl (by simp)
      simpa [obs] using this
    · have := post6_flat_inert s m L hinv { s.core with failures := s.core.failures + 1, connector := .backoff (s.core.now + cfg.policy (s.core.failures + 1)) }
        [.connect s.core.host s.core.port, .setTimer (cfg.policy (s.core.failures + 1))] rfl rfl rfl (by simp)
      simpa [obs] using this
    · rename_i hc _ hsy
      rw [if_neg hc] at hnf
      simp only [hsy] at hnf ⊢
      have j := inv6_core hinv (established s.core) rfl rfl rfl s.hooks s.stubborn Sync.ok
      obtain ⟨p, _⟩ := ih _ (.sendLoop s.core.nconn (s.core.reqs.map (·.serial))) m L j hnf.cons
      rw [fold6_cons]
      have : r06Ob m (.ob (.connect s.core.host s.core.port)) = m := by simp [r06Ob]
      rw [this]
      exact p.of_eq rfl rfl rfl

theorem spec6_lost (cfg : Cfg) (n : Nat) (ih : Spec6 cfg n) (s : StR) (m : RM) (L : Bool)
    (hpre : Pre6 .lost s m L) (hnf : NoFuelOut (exec cfg (n + 1) s .lost).2) :
    Post6 s m L (exec cfg (n + 1) s .lost).1 (fold6 m (exec cfg (n + 1) s .lost).2) := by
  have hinv : Inv6 s m [] L := hpre
  simp only [exec] at hnf ⊢
  split
  · simp only [fold6_cons, fold6_nil, r06Ob]
    exact post6_of_inv (inv6_lostTable hinv _ (by rfl) (by rfl) (by rfl)) rfl rfl rfl
  · split
    · exact post6_of_inv (inv6_lostTable hinv _ (by rfl) (by rfl) (by rfl)) rfl rfl rfl
    · rename_i hc he
      rw [if_neg hc, if_neg he] at hnf
      obtain ⟨p, _⟩ := ih _ .dial m L (inv6_lostTable hinv _ (by rfl) (by rfl) (by rfl)) hnf
      exact p.of_eq rfl rfl rfl

theorem spec6_makeS (cfg : Cfg) (n : Nat) (ih : Spec6 cfg n) (s : StR) (id : Int) (ex : Bool) (hk : Option Hook) (m : RM) (L : Bool)
    (hpre : Pre6 (.makeS id ex hk) s m L) (hnf : NoFuelOut (exec cfg (n + 1) s (.makeS id ex hk)).2) :
    Post6 s m L (exec cfg (n + 1) s (.makeS id ex hk)).1 (fold6 m (exec cfg (n + 1) s (.makeS id ex hk)).2) := by
  have hinv : Inv6 s m [] L := hpre
  simp only [exec] at hnf ⊢
  split
  · rename_i hcond
    rw [if_pos hcond] at hnf
    simp only [Bool.and_eq_true, Bool.not_eq_eq_eq_not, Bool.not_true, bne_iff_ne, ne_eq] at hcond
    obtain ⟨⟨⟨⟨_, hcl⟩, _⟩, _⟩, hd⟩ := hcond
    have hfresh : ∀ r ∈ s.core.reqs, r.id ≠ id := by
      intro r hr he
      have : s.core.reqs.any (fun r => r.id == id) = true := by rw [List.any_eq_true]; exact ⟨r, hr, by simp [he]⟩
      simp [this] at hd
    split
    · rename_i hsy
      simp only [hsy] at hnf ⊢
      have j := inv6_core hinv (established s.core) rfl rfl rfl s.hooks s.stubborn Sync.ok
      obtain ⟨p, _⟩ := ih _ (.make id ex hk) m L j hnf.cons
      rw [fold6_cons]
      have : r06Ob m (.ob (.connect s.core.host s.core.port)) = m := by simp [r06Ob]
      rw [this]
      exact p.of_eq rfl rfl rfl
    · have hf : fold6 m [ObR.ob (Ob.connect s.core.host s.core.port), ObR.ob (Ob.setTimer (cfg.policy 1)), ObR.made s.core.nmake id]
          = r06Ob m (.made s.core.nmake id) := by simp [fold6, r06Ob]
      rw [hf]
      exact post6_of_inv (inv6_made_live id hinv { serial := s.core.nmake, id := id, expect := ex, sent := false, cancelled := false }
        _ rfl rfl rfl hfresh hcl rfl rfl (by simp [hcl]) _ _ _) rfl rfl (by simp [hcl])
  · rename_i hcond
    rw [if_neg hcond] at hnf
    exact (ih s (.make id ex hk) m L hinv hnf).1

/-- the specification holds at every amount of fuel -/
theorem spec6 (cfg : Cfg) : ∀ n, Spec6 cfg n := by
  intro n
  induction n with
  | zero => exact spec6_zero cfg
  | succ n ih =>
    intro s task m L hpre hnf
    cases task with
    | fire k id r => exact ⟨spec6_fire cfg n ih s k id r m L hpre hnf, by simp⟩
    | fireAll l r => exact ⟨spec6_fireAll cfg n ih s l r m L hpre hnf, by simp⟩
    | acts h => exact ⟨spec6_acts cfg n ih s h m L hpre hnf, by simp⟩
    | act a => exact ⟨spec6_act cfg n ih s a m L hpre hnf, by simp⟩
    | make id ex h => exact ⟨spec6_make cfg n ih s id ex h m L hpre hnf, by simp⟩
    | cancel id => exact ⟨spec6_cancel cfg n ih s id m L hpre hnf, by simp⟩
    | close => exact ⟨spec6_close cfg n ih s m L hpre hnf, by simp⟩
    | closeLoop =>
      obtain ⟨a, b⟩ := spec6_closeLoop cfg n ih s m L hpre hnf
      exact ⟨a, fun _ => b⟩
    | sendLoop c snap => exact ⟨spec6_sendLoop cfg n ih s c snap m L hpre hnf, by simp⟩
    | frames c fs f => exact ⟨spec6_frames cfg n ih s c fs f m L hpre hnf, by simp⟩
    | makeS id ex h => exact ⟨spec6_makeS cfg n ih s id ex h m L hpre hnf, by simp⟩
    | lost => exact ⟨spec6_lost cfg n ih s m L hpre hnf, by simp⟩
    | dial => exact ⟨spec6_dial cfg n ih s m L hpre hnf, by simp⟩


/-- the flat events that go through the flat `step` unchanged -/
theorem post6_flat_other (cfg : Cfg) (s : StR) (m : RM) (L : Bool) (h : Inv6 s m [] L) (e : Ev)
    (he : (∀ i x, e ≠ .make i x) ∧ (∀ i, e ≠ .cancel i) ∧ e ≠ .close ∧ e ≠ .connOk ∧ (∀ c, e ≠ .bytesIn c)) :
    Post6 s m L { s with core := (step cfg s.core e).1 } (fold6 m (obs (step cfg s.core e).2)) := by
  obtain ⟨h1, h2, h3, h4, h5⟩ := he
  cases e with
  | make i x => exact absurd rfl (h1 i x)
  | cancel i => exact absurd rfl (h2 i)
  | close => exact absurd rfl h3
  | connOk => exact absurd rfl h4
  | bytesIn c => exact absurd rfl (h5 c)
  | connFail =>
    simp only [step]
    split
    · split
      · exact post6_flat_inert s m L h _ _ rfl rfl rfl (by simp)
      · exact post6_flat_inert s m L h _ _ rfl rfl rfl (by simp)
    · exact post6_flat_inert s m L h _ _ rfl rfl rfl (by simp)
  | advance dt =>
    simp only [step, tryConnect]
    split
    · exact post6_flat_inert s m L h _ _ rfl rfl rfl (by simp)
    · split
      · split
        · exact post6_flat_inert s m L h _ _ rfl rfl rfl (by simp)
        · exact post6_flat_inert s m L h _ _ rfl rfl rfl (by simp)
      · exact post6_flat_inert s m L h _ _ rfl rfl rfl (by simp)
  | lost =>
    simp only [step]
    split
    · exact post6_flat_inert s m L h _ _ rfl rfl rfl (by simp)
    · obtain ⟨j, hcl, hob⟩ := inv6_lost h
      rw [fold6_obs_inert m _ hob]
      exact post6_of_inv j rfl rfl hcl
  | disconnect =>
    simp only [step]
    split
    · exact post6_flat_inert s m L h _ _ rfl rfl rfl (by simp)
    · exact post6_flat_inert s m L h _ _ rfl rfl rfl (by simp)
  | updateMetadata a b => exact post6_flat_inert s m L h _ _ rfl rfl rfl (by simp [step])
  | writeFail b => exact post6_flat_inert s m L h _ _ rfl rfl rfl (by simp [step])

/-- one top-level step -/
theorem post6_step (cfg : Cfg) (fuel : Nat) (s : StR) (m : RM) (h : Inv6 s m [] false) (e : EvR)
    (hnf : NoFuelOut (stepRWith cfg fuel s e).2) :
    Post6 s m false (stepRWith cfg fuel s e).1 (fold6 m (stepRWith cfg fuel s e).2) := by
  cases e with
  | make id ex hk =>
    simp only [stepRWith] at hnf ⊢
    split
    · rename_i hsy; rw [if_pos hsy] at hnf; exact (spec6 cfg fuel s (.make id ex hk) m false h hnf).1
    · rename_i hsy; rw [if_neg hsy] at hnf; exact (spec6 cfg fuel s (.makeS id ex hk) m false h hnf).1
  | stubborn on =>
    simp only [stepRWith, fold6_nil]
    exact post6_of_inv (inv6_core h s.core rfl rfl rfl _ _ _) rfl rfl rfl
  | syncMode sm =>
    simp only [stepRWith, fold6_nil]
    exact post6_of_inv (inv6_core h s.core rfl rfl rfl _ _ _) rfl rfl rfl
  | cancelMode ck =>
    simp only [stepRWith, fold6_nil]
    exact post6_of_inv h rfl rfl rfl
  | flat e =>
    cases e with
    | make id ex =>
      simp only [stepRWith] at hnf ⊢
      split
      · rename_i hsy; rw [if_pos hsy] at hnf; exact (spec6 cfg fuel s (.make id ex none) m false h hnf).1
      · rename_i hsy; rw [if_neg hsy] at hnf; exact (spec6 cfg fuel s (.makeS id ex none) m false h hnf).1
    | cancel id => exact (spec6 cfg fuel s (.cancel id) m false h hnf).1
    | close => exact (spec6 cfg fuel s .close m false h hnf).1
    | connOk =>
      simp only [stepRWith] at hnf ⊢
      by_cases hatt : s.core.connector = .attempt
      · rw [if_pos hatt] at hnf ⊢
        by_cases hcl : s.core.closed = true
        · rw [if_pos hcl]
          have := post6_flat_inert s m false h { s.core with failures := 0, connector := .none, proto := some s.core.nconn, nconn := s.core.nconn + 1, losing := true, rbuf := [] } [.lose s.core.nconn] rfl rfl rfl (by simp)
          simpa [obs] using this
        · rw [if_neg hcl] at hnf ⊢
          have j : Inv6 { s with core := { s.core with failures := 0, connector := .none, proto := some s.core.nconn, nconn := s.core.nconn + 1, losing := false, rbuf := [] } } m [] false :=
            inv6_core h { s.core with failures := 0, connector := .none, proto := some s.core.nconn, nconn := s.core.nconn + 1, losing := false, rbuf := [] } rfl rfl rfl _ _ _
          obtain ⟨p, _⟩ := spec6 cfg fuel _ (.sendLoop s.core.nconn (s.core.reqs.map (·.serial))) m false j hnf
          exact p.of_eq rfl rfl rfl
      · rw [if_neg hatt]
        simp only [fold6_cons, fold6_nil, r06Ob]
        exact Post6.refl s m false h
    | bytesIn chunk =>
      simp only [stepRWith] at hnf ⊢
      split
      · simp only [fold6_cons, fold6_nil, r06Ob]
        exact Post6.refl s m false h
      · split
        · simp only [fold6_cons, fold6_nil, r06Ob]
          exact Post6.refl s m false h
        · rename_i c hp hl
          exact (spec6 cfg fuel s (.frames c (feed s.core.rbuf chunk).frames (feed s.core.rbuf chunk)) m false h (by simpa [hp, hl] using hnf)).1
    | connFail => exact post6_flat_other cfg s m false h .connFail (by simp)
    | advance dt =>
      simp only [stepRWith] at hnf ⊢
      split
      · exact post6_flat_other cfg s m false h (.advance dt) (by simp)
      · rename_i hsy
        rw [if_neg hsy] at hnf
        split
        · simp only [fold6_cons, fold6_nil, r06Ob]; exact Post6.refl s m false h
        · rename_i hdt
          rw [if_neg hdt] at hnf
          split
          · rename_i due hco
            simp only [hco] at hnf
            split
            · rename_i hdue
              rw [if_pos hdue] at hnf
              obtain ⟨p, _⟩ := spec6 cfg fuel _ .dial m false (inv6_core h _ (by rfl) (by rfl) (by rfl) _ _ _) hnf
              rw [← hco] at p
              exact p.of_eq rfl rfl rfl
            · have := post6_flat_inert s m false h { s.core with now := s.core.now + dt } [] rfl rfl rfl (by simp)
              simpa [obs] using this
          · have := post6_flat_inert s m false h { s.core with now := s.core.now + dt } [] rfl rfl rfl (by simp)
            simpa [obs] using this
    | lost =>
      simp only [stepRWith] at hnf ⊢
      split
      · exact post6_flat_other cfg s m false h .lost (by simp)
      · rename_i hsy
        rw [if_neg hsy] at hnf
        split
        · simp only [fold6_cons, fold6_nil, r06Ob]; exact Post6.refl s m false h
        · rename_i c hp
          simp only [hp] at hnf
          exact (spec6 cfg fuel s .lost m false h hnf).1
    | disconnect => exact post6_flat_other cfg s m false h .disconnect (by simp)
    | updateMetadata a b => exact post6_flat_other cfg s m false h (.updateMetadata a b) (by simp)
    | writeFail b => exact post6_flat_other cfg s m false h (.writeFail b) (by simp)

/-- between two top-level steps -/
structure Top6 (s : StR) (m : RM) : Prop where
  inv : Inv6 s m [] false
  depth : m.depth = 0
  mf : m.mustFire = none

theorem top6_init (host port : Nat) : Top6 (StR.init host port) RM.init := by
  refine ⟨?_, rfl, rfl⟩
  constructor <;> simp [StR.init, St.init, RM.init]

theorem top6_step (cfg : Cfg) (fuel : Nat) (s : StR) (m : RM) (h : Top6 s m) (e : EvR)
    (hnf : NoFuelOut (stepRWith cfg fuel s e).2) :
    (r06End (fold6 m (stepRWith cfg fuel s e).2)).ok = true ∧
    Top6 (stepRWith cfg fuel s e).1 (r06End (fold6 m (stepRWith cfg fuel s e).2)) := by
  have p := post6_step cfg fuel s m h.inv e hnf
  generalize (stepRWith cfg fuel s e).1 = s' at p
  generalize fold6 m (stepRWith cfg fuel s e).2 = m' at p
  have hd : m'.depth = 0 := by rw [p.depth, h.depth]
  cases hm : m'.mustFire with
  | none =>
    have hok : (r06End m').ok = true := by simp [r06End, hm, p.inv.ok, hd]
    refine ⟨hok, ?_, by simp [r06End, hm, hd], by simp [r06End, hm]⟩
    exact inv6_mon (m' := r06End m') p.inv (by simp [r06End, hm]) (by simp [r06End, hm]) hok (by simp [r06End, hm])
  | some x =>
    obtain ⟨d, l⟩ := x
    obtain ⟨mc, _, ml⟩ := p.inv.mf d l hm
    have he : s'.core.reqs = [] := p.inv.closedEmpty mc rfl
    have hall : ∀ k ∈ l, k ∈ m'.fired := fun k hk => all_fired p.inv he k (ml k hk)
    have hok : (r06End m').ok = true := by simp [r06End, hm, p.inv.ok, hd]; exact hall
    refine ⟨hok, ?_, by simp [r06End, hm, hd], by simp [r06End, hm]⟩
    exact inv6_mon (m' := r06End m') p.inv (by simp [r06End, hm]) (by simp [r06End, hm]) hok (by simp [r06End, hm])

/-- C06 under re-entrant callbacks, for every run in which the fuel suffices -/
theorem r06_trace (cfg : Cfg) (fuel : Nat) (evs : List EvR) : ∀ (s : StR) (m : RM) (n : Nat), Top6 s m →
    (∀ t ∈ traceRWith cfg fuel s evs, NoFuelOut t.2) → r06FirstBad m n (traceRWith cfg fuel s evs) = none := by
  induction evs with
  | nil => intro s m n _ _; rfl
  | cons e es ih =>
    intro s m n h hnf
    simp only [traceRWith, r06FirstBad]
    have hnf1 : NoFuelOut (stepRWith cfg fuel s e).2 := hnf (e, (stepRWith cfg fuel s e).2) (by simp [traceRWith])
    obtain ⟨hok, htop⟩ := top6_step cfg fuel s m h e hnf1
    have hfold : (stepRWith cfg fuel s e).2.foldl r06Ob m = fold6 m (stepRWith cfg fuel s e).2 := rfl
    rw [hfold]
    simp only [hok, if_true]
    exact ih _ _ (n + 1) htop (fun t ht => hnf t (by simp [traceRWith, ht]))

end Afkak.BrokerClientR
