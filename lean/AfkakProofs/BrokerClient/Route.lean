import Afkak.Monitor.C06
import AfkakProofs.BrokerClient.Inv
import AfkakProofs.BrokerClient.SimC10
import AfkakProofs.BrokerClient.MonC06
import AfkakProofs.BrokerClient.SimC06
/-!
# The broker-client model satisfies the routing monitor of C06
(a reply is delivered to the request it answers; see `Monitor/C06.lean`, section Routing)
-/
namespace Afkak.BrokerClient
open Afkak.Frame Afkak.Monitor.C06

/-- coupling between a model state and the routing monitor's state -/
structure RInv (s : St) (m : RSt) : Prop where
  buf : m.buf = s.rbuf
  inTable : ∀ p ∈ m.inflight, ∃ r ∈ s.reqs, r.serial = p.1 ∧ r.id = p.2
  conn : m.inflight ≠ [] → s.proto ≠ none

theorem track_append (acc : List (Nat × Int)) (a b : List Ob) : track acc (a ++ b) = track (track acc a) b := by
  induction a generalizing acc with
  | nil => rfl
  | cons o a ih =>
    cases o with
    | fire k i r =>
      cases r with
      | ok b => simp [track, ih]
      | none => simp [track, ih]
      | err e => cases e <;> simp [track, ih]
    | _ => simp [track, ih]

/-- observations that neither write nor complete-on-write leave `inflight` alone -/
theorem track_inert (acc : List (Nat × Int)) (os : List Ob)
    (h : ∀ o ∈ os, (∀ c k i, o ≠ .write c k i) ∧ (∀ c k i, o ≠ .writeLost c k i) ∧ (∀ k i, o ≠ .fire k i .none) ∧
      (∀ k i, o ≠ .fire k i (.err .writeError))) : track acc os = acc := by
  induction os generalizing acc with
  | nil => rfl
  | cons o os ih =>
    have ho := h o (by simp)
    have ih' := fun acc => ih acc (fun o ho => h o (by simp [ho]))
    cases o with
    | write c k i => exact absurd rfl (ho.1 c k i)
    | writeLost c k i => exact absurd rfl (ho.2.1 c k i)
    | fire k i r =>
      cases r with
      | ok b => simp [track, ih']
      | none => exact absurd rfl (ho.2.2.1 k i)
      | err e =>
        cases e with
        | writeError => exact absurd rfl (ho.2.2.2 k i)
        | _ => simp [track, ih']
    | _ => simp [track, ih']

/-- what `_sendRequest` does to `inflight`: the request joins iff it stays in the table -/
theorem track_sendObs (s : St) (c : Nat) (r : Req) (acc : List (Nat × Int)) :
    ∀ p ∈ track acc (sendObs s c r), p ∈ acc ∨ (keepAfterSend s r = true ∧ p = (r.serial, r.id)) := by
  intro p hp
  simp only [sendObs, keepAfterSend] at hp ⊢
  by_cases hw : s.wfail = true
  · simp only [hw, if_true, track] at hp
    exact Or.inl (List.mem_filter.mp hp).1
  · have hw' : s.wfail = false := by simpa using hw
    by_cases hl : s.losing = true <;> cases he : r.expect <;>
      simp only [hw', hl, he, Bool.false_eq_true, if_false, if_true, List.singleton_append, List.append_nil, track,
        Bool.not_false, Bool.and_true, Bool.not_true, Bool.and_false] at hp ⊢
    all_goals first
      | (have := (List.mem_filter.mp hp); have h1 := this.1; have h2 := this.2
         rcases List.mem_append.mp h1 with h1 | h1
         · exact Or.inl h1
         · simp only [List.mem_singleton] at h1; subst h1; simp at h2)
      | (rcases List.mem_append.mp hp with h1 | h1
         · exact Or.inl h1
         · simp only [List.mem_singleton] at h1; exact Or.inr ⟨trivial, h1⟩)


/-- packets touch only the entries carrying their ids; what fires was in the table -/
theorem handleFrames_keep (fs : List Bytes) : ∀ (s : St),
    (∀ r ∈ s.reqs, (∀ b ∈ fs, corrId b ≠ some r.id) → r ∈ (handleFrames s fs).1.reqs) ∧
    (∀ k i res, Ob.fire k i res ∈ (handleFrames s fs).2.1 → ∃ r ∈ s.reqs, r.serial = k ∧ r.id = i) := by
  induction fs with
  | nil => intro s; simp [handleFrames]
  | cons f fs ih =>
    intro s
    cases hid : corrId f with
    | none =>
      simp only [handleFrames, hid]
      exact ⟨fun r hr _ => hr, by simp⟩
    | some id =>
      simp only [handleFrames, hid]
      obtain ⟨i1, i2⟩ := ih (handleResponse s id f).1
      have e : (handleResponse s id f).1.reqs = s.reqs.filter (fun r => r.id != id) := rfl
      rw [e] at i1 i2
      refine ⟨?_, ?_⟩
      · intro r hr hb
        apply i1 r
        · apply List.mem_filter.mpr ⟨hr, ?_⟩
          have := hb f (by simp)
          rw [hid] at this
          simp only [ne_eq, Option.some.injEq] at this
          simp [Ne.symm this]
        · intro b hb'; exact hb b (by simp [hb'])
      · intro k i res hm
        rcases List.mem_append.mp hm with hm | hm
        · simp only [handleResponse] at hm
          split at hm
          · simp only [List.mem_map, List.mem_filter] at hm
            obtain ⟨r, ⟨hr, hc⟩, he⟩ := hm
            simp only [Ob.fire.injEq] at he
            obtain ⟨rfl, rfl, rfl⟩ := he
            exact ⟨r, hr, rfl, rfl⟩
          · simp at hm
        · obtain ⟨r, hr, h3, h4⟩ := i2 k i res hm
          exact ⟨r, (List.mem_filter.mp hr).1, h3, h4⟩

theorem id_inj (reqs : List Req) (hpw : reqs.Pairwise (fun a b => a.id ≠ b.id)) :
    ∀ r ∈ reqs, ∀ r' ∈ reqs, r.id = r'.id → r = r' := by
  induction reqs with
  | nil => simp
  | cons a l ih =>
    rw [List.pairwise_cons] at hpw
    intro r hr r' hr' he
    simp only [List.mem_cons] at hr hr'
    rcases hr with rfl | hr <;> rcases hr' with rfl | hr'
    · rfl
    · exact absurd he (hpw.1 r' hr')
    · exact absurd he.symm (hpw.1 r hr)
    · exact ih hpw.2 r hr r' hr' he

theorem frameIds_all (fs : List Bytes) (s : St) (hr : (handleFrames s fs).2.2 = false) :
    ∀ b ∈ fs, ∃ i, corrId b = some i ∧ i ∈ frameIds fs := by
  induction fs generalizing s with
  | nil => simp
  | cons f fs ih =>
    cases hid : corrId f with
    | none => simp [handleFrames, hid] at hr
    | some id =>
      simp only [handleFrames, hid] at hr
      intro b hb
      rcases List.mem_cons.mp hb with rfl | hb
      · exact ⟨id, hid, by simp [frameIds, hid]⟩
      · obtain ⟨i, h1, h2⟩ := ih _ hr b hb
        exact ⟨i, h1, by simp [frameIds, hid, h2]⟩

theorem track_sendQueued (s1 : St) (c : Nat) (reqs : List Req) (acc : List (Nat × Int)) :
    ∀ p ∈ track acc (reqs.flatMap (fun r => if r.sent then [] else sendObs s1 c r)),
      p ∈ acc ∨ ∃ r ∈ reqs, r.sent = false ∧ keepAfterSend s1 r = true ∧ p = (r.serial, r.id) := by
  induction reqs generalizing acc with
  | nil => intro p hp; exact Or.inl hp
  | cons r rs ih =>
    intro p hp
    simp only [List.flatMap_cons, track_append] at hp
    rcases ih _ p hp with h1 | ⟨r', hr', h2⟩
    · by_cases hs : r.sent = true
      · simp only [hs, if_true, track] at h1
        exact Or.inl h1
      · have hs' : r.sent = false := by simpa using hs
        simp only [hs', Bool.false_eq_true, if_false] at h1
        rcases track_sendObs s1 c r acc p h1 with h | ⟨hk, hp'⟩
        · exact Or.inl h
        · exact Or.inr ⟨r, by simp, hs', hk, hp'⟩
    · exact Or.inr ⟨r', by simp [hr'], h2⟩


/-- a step whose observations leave `inflight` alone and that keeps (the serial and id of) every table
    entry the tracked requests refer to -/
theorem rinv_inert (s s' : St) (m : RSt) (os : List Ob) (hr : RInv s m)
    (hos : ∀ o ∈ os, (∀ c k i, o ≠ .write c k i) ∧ (∀ c k i, o ≠ .writeLost c k i) ∧ (∀ k i, o ≠ .fire k i .none) ∧
      (∀ k i, o ≠ .fire k i (.err .writeError)))
    (hbuf : s'.rbuf = s.rbuf) (hproto : s.proto ≠ none → s'.proto ≠ none)
    (hkeep : m.inflight ≠ [] → ∀ r ∈ s.reqs, ∃ r' ∈ s'.reqs, r'.serial = r.serial ∧ r'.id = r.id) :
    RInv s' { m with inflight := track m.inflight os } := by
  rw [track_inert _ _ hos]
  constructor
  · simp only; rw [hbuf]; exact hr.buf
  · intro p hp
    obtain ⟨r, hr', h1, h2⟩ := hr.inTable p hp
    obtain ⟨r', hr'', h3, h4⟩ := hkeep (List.ne_nil_of_mem hp) r hr'
    exact ⟨r', hr'', by rw [h3, h1], by rw [h4, h2]⟩
  · intro hne; exact hproto (hr.conn hne)

theorem rinv_step (cfg : Cfg) (s : St) (e : Ev) (m : RSt) (h : SInv s) (hr : RInv s m) :
    ∃ m', rstep m (e, (step cfg s e).2) = some m' ∧ RInv (step cfg s e).1 m' := by
  cases e with
  | make id ex =>
    simp only [step]
    split
    · exact ⟨_, rfl, rinv_inert s s m _ hr (by simp) rfl (fun x => x) (fun _ r hr' => ⟨r, hr', rfl, rfl⟩)⟩
    · split
      · exact ⟨_, rfl, rinv_inert s _ m _ hr (by simp) rfl (fun x => x) (fun _ r hr' => ⟨r, hr', rfl, rfl⟩)⟩
      · split
        · rename_i c hp
          refine ⟨_, rfl, ?_⟩
          constructor
          · exact hr.buf
          · intro p hp'
            rcases track_sendObs s c _ m.inflight p hp' with h1 | ⟨hk, rfl⟩
            · obtain ⟨r, hr', h2, h3⟩ := hr.inTable p h1
              exact ⟨r, List.mem_append.mpr (Or.inl hr'), h2, h3⟩
            · refine ⟨{ serial := s.nmake, id := id, expect := ex, sent := true, cancelled := false },
                List.mem_append.mpr (Or.inr ?_), rfl, rfl⟩
              simp [hk]
          · intro _; simp [hp]
        · rename_i hp
          split
          · refine ⟨_, rfl, ?_⟩
            simp only [connect_, tryConnect]
            exact rinv_inert s _ m _ hr (by simp) rfl (fun hne => absurd hp hne)
              (fun _ r hr' => ⟨r, List.mem_append.mpr (Or.inl hr'), rfl, rfl⟩)
          · exact ⟨_, rfl, rinv_inert s _ m _ hr (by simp) rfl (fun hne => absurd hp hne)
              (fun _ r hr' => ⟨r, List.mem_append.mpr (Or.inl hr'), rfl, rfl⟩)⟩
  | cancel id =>
    simp only [step]
    split
    · refine ⟨_, rfl, rinv_inert s _ m _ hr ?_ rfl (fun x => x) ?_⟩
      · intro o ho
        obtain ⟨r, _, rfl⟩ := List.mem_map.mp ho
        simp
      · intro hne r hr'
        have hsent := h.connSent (hr.conn hne) r hr'
        refine ⟨if r.id == id then { r with cancelled := true } else r, ?_, ?_, ?_⟩
        · apply List.mem_map.mpr
          exact ⟨r, List.mem_filter.mpr ⟨hr', by simp [hsent]⟩, rfl⟩
        · split <;> rfl
        · split <;> rfl
    · exact ⟨_, rfl, rinv_inert s s m _ hr (by simp) rfl (fun x => x) (fun _ r hr' => ⟨r, hr', rfl, rfl⟩)⟩
  | connOk =>
    simp only [step]
    split
    · rename_i hatt
      split
      · refine ⟨⟨track [] [Ob.lose s.nconn], []⟩, by simp [rstep, isBad], ?_⟩
        constructor
        · rfl
        · intro p hp; simp [track] at hp
        · intro _; simp
      · have hnb : isBad (sendQueued { s with failures := 0, connector := .none, proto := some s.nconn, nconn := s.nconn + 1, losing := false, rbuf := [] } s.nconn).2 = false := by
          simp only [isBad, sendQueued]
          exact (sendQueued_proj _ s.nconn s.reqs (h.discUnsent (by
            cases hq : s.proto with
            | none => rfl
            | some c => have := h.connConnector (by simp [hq]); simp_all)) rfl).2.2.2.2
        refine ⟨_, by simp only [rstep, hnb]; rfl, ?_⟩
        constructor
        · rfl
        · intro p hp
          simp only [sendQueued] at hp ⊢
          rcases track_sendQueued _ s.nconn s.reqs [] p hp with h1 | ⟨r, hr', hs, hk, rfl⟩
          · simp at h1
          · refine ⟨{ r with sent := true }, ?_, rfl, rfl⟩
            apply List.mem_map.mpr
            exact ⟨r, List.mem_filter.mpr ⟨hr', by simp [hk]⟩, rfl⟩
        · intro _; simp [sendQueued]
    · exact ⟨_, by simp [rstep, isBad], hr⟩
  | connFail =>
    simp only [step]
    split
    · split
      · exact ⟨_, rfl, rinv_inert s s m _ hr (by simp) rfl (fun x => x) (fun _ r hr' => ⟨r, hr', rfl, rfl⟩)⟩
      · exact ⟨_, rfl, rinv_inert s _ m _ hr (by simp) rfl (fun x => x) (fun _ r hr' => ⟨r, hr', rfl, rfl⟩)⟩
    · exact ⟨_, rfl, rinv_inert s s m _ hr (by simp) rfl (fun x => x) (fun _ r hr' => ⟨r, hr', rfl, rfl⟩)⟩
  | advance dt =>
    simp only [step, tryConnect]
    split
    · exact ⟨_, rfl, rinv_inert s s m _ hr (by simp) rfl (fun x => x) (fun _ r hr' => ⟨r, hr', rfl, rfl⟩)⟩
    · split
      · split
        · exact ⟨_, rfl, rinv_inert s _ m _ hr (by simp) rfl (fun x => x) (fun _ r hr' => ⟨r, hr', rfl, rfl⟩)⟩
        · exact ⟨_, rfl, rinv_inert s _ m _ hr (by simp) rfl (fun x => x) (fun _ r hr' => ⟨r, hr', rfl, rfl⟩)⟩
      · exact ⟨_, rfl, rinv_inert s _ m _ hr (by simp) rfl (fun x => x) (fun _ r hr' => ⟨r, hr', rfl, rfl⟩)⟩
  | disconnect =>
    simp only [step]
    split
    · exact ⟨_, rfl, rinv_inert s _ m _ hr (by simp) rfl (fun x => x) (fun _ r hr' => ⟨r, hr', rfl, rfl⟩)⟩
    · exact ⟨_, rfl, rinv_inert s s m _ hr (by simp) rfl (fun x => x) (fun _ r hr' => ⟨r, hr', rfl, rfl⟩)⟩
  | updateMetadata a b =>
    exact ⟨_, rfl, rinv_inert s _ m _ hr (by simp [step]) rfl (fun x => x) (fun _ r hr' => ⟨r, hr', rfl, rfl⟩)⟩
  | writeFail b =>
    exact ⟨_, rfl, rinv_inert s _ m _ hr (by simp [step]) rfl (fun x => x) (fun _ r hr' => ⟨r, hr', rfl, rfl⟩)⟩
  | lost =>
    simp only [step]
    split
    · exact ⟨_, by simp [rstep, isBad], hr⟩
    · obtain ⟨_, _, _, q4⟩ := lostStep_quiet s
      have q4' : Ob.badOp ∉ (lostStep s).2 := by
        intro hm; rw [← List.contains_iff_mem, q4] at hm; exact Bool.false_ne_true hm
      refine ⟨⟨[], []⟩, by simp [rstep, isBad, q4'], ?_⟩
      constructor
      · simp only [lostStep, connect_, tryConnect]
        split <;> (try split) <;> rfl
      · intro p hp; simp at hp
      · intro hne; simp at hne
  | close =>
    simp only [step]
    split
    · exact ⟨_, by simp [rstep], hr⟩
    · have hna : ∀ (pre post : List Ob), (∀ o ∈ pre, o ≠ .raiseAssert) → (∀ o ∈ post, o ≠ .raiseAssert) →
          (pre ++ ((if Afkak.Consts.closePopLast then s.reqs.reverse else s.reqs).filter (fun r => !r.cancelled)).map
            (fun r => Ob.fire r.serial r.id (.err .clientError)) ++ post).contains .raiseAssert = false := by
        intro pre post h1 h2
        apply contains_false_of'
        intro x hx
        rcases List.mem_append.mp hx with hx | hx
        · rcases List.mem_append.mp hx with hx | hx
          · exact h1 x hx
          · obtain ⟨r, _, rfl⟩ := List.mem_map.mp hx; simp
        · exact h2 x hx
      have mk : ∀ (s' : St) (os : List Ob), os.contains .raiseAssert = false → s'.rbuf = s.rbuf →
          ∃ m', rstep m (.close, os) = some m' ∧ RInv s' m' := by
        intro s' os hc hb
        have hc' : Ob.raiseAssert ∉ os := by
          intro hm; rw [← List.contains_iff_mem, hc] at hm; exact Bool.false_ne_true hm
        refine ⟨⟨[], m.buf⟩, by simp [rstep, hc'], ?_⟩
        constructor
        · simp only; rw [hb]; exact hr.buf
        · intro p hp; simp at hp
        · intro hne; simp at hne
      split
      · rename_i c _
        have := hna [.lose c] [] (by simp) (by simp)
        simp only [List.append_nil, List.singleton_append] at this
        exact mk _ _ this rfl
      · split
        · have := hna [.cancelConnect] [.down] (by simp) (by simp)
          simp only [List.singleton_append, List.append_assoc] at this
          exact mk _ _ (by simpa using this) rfl
        · have := hna [.cancelTimer] [.down] (by simp) (by simp)
          simp only [List.singleton_append, List.append_assoc] at this
          exact mk _ _ (by simpa using this) rfl
        · have := hna [] [.down] (by simp) (by simp)
          simp only [List.nil_append] at this
          exact mk _ _ this rfl
        · have := hna [] [.down] (by simp) (by simp)
          simp only [List.nil_append] at this
          exact mk _ _ this rfl
  | bytesIn chunk =>
    simp only [step]
    split
    · exact ⟨_, by simp [rstep, isBad], hr⟩
    · rename_i c hp
      split
      · exact ⟨_, by simp [rstep, isBad], hr⟩
      · rename_i hl
        have hbuf : m.buf = s.rbuf := hr.buf
        obtain ⟨p1, p2, p3, p4, p5, p6⟩ := handleFrames_proj (feed s.rbuf chunk).frames s h.serials
        obtain ⟨k1, k2⟩ := handleFrames_keep (feed s.rbuf chunk).frames s
        have hfr := handleFrames_frame s (feed s.rbuf chunk).frames
        -- routing: whatever a packet fires is THE table entry with its id
        have hroute : ∀ (extra : List Ob), fires extra = [] →
            okRoute m.inflight ((handleFrames s (feed s.rbuf chunk).frames).2.1 ++ extra) = true := by
          intro extra hex
          simp only [okRoute]
          rw [List.all_eq_true]
          rintro ⟨k, i, r⟩ hx
          rw [fires_append, hex, List.append_nil] at hx
          have hx' := (mem_fires _ k i r).mpr hx
          obtain ⟨r0, hr0, hs0, hi0⟩ := k2 k i r hx'
          cases r with
          | ok b =>
            simp only
            cases hecho : echo b with
            | none => rfl
            | some k' =>
              simp only
              by_cases hin : m.inflight.contains (k', i) = true
              · obtain ⟨r1, hr1, hs1, hi1⟩ := hr.inTable (k', i) (List.contains_iff_mem.mp hin)
                have := id_inj s.reqs h.ids r0 hr0 r1 hr1 (by rw [hi0, hi1])
                subst this
                simp only at hs1
                simp [← hs0, hs1]
              · have : m.inflight.contains (k', i) = false := by simpa using hin
                rw [this]; rfl
          | none => rfl
          | err e => rfl
        have hnb : ∀ (extra : List Ob), (∀ x ∈ extra, x ≠ .badOp) →
            isBad ((handleFrames s (feed s.rbuf chunk).frames).2.1 ++ extra) = false := by
          intro extra he
          simp only [isBad]
          apply contains_false_of'
          intro x hx
          rcases List.mem_append.mp hx with hx | hx
          · rcases p6 x hx with ⟨_, _, _, rfl⟩ | ⟨_, rfl⟩ | rfl <;> simp
          · exact he x hx
        split
        · rename_i hraised
          obtain ⟨q1, q2, q3, q4⟩ := lostStep_quiet (handleFrames s (feed s.rbuf chunk).frames).1
          have hfl : fires (lostStep (handleFrames s (feed s.rbuf chunk).frames).1).2 = [] := by
            simp only [lostStep, connect_, tryConnect]
            split <;> (try split) <;> simp [fires]
          have hb := hnb (lostStep (handleFrames s (feed s.rbuf chunk).frames).1).2 (by
            intro x hx hxe; subst hxe
            rw [← List.contains_iff_mem, q4] at hx; exact Bool.false_ne_true hx)
          have hru : ((handleFrames s (feed s.rbuf chunk).frames).2.1 ++ (lostStep (handleFrames s (feed s.rbuf chunk).frames).1).2).contains .raiseUnderflow = true := by
            rw [List.contains_append, p5, hraised]; rfl
          refine ⟨⟨[], []⟩, ?_, ?_⟩
          · have hru' := List.contains_iff_mem.mp hru
            simp only [List.mem_append] at hru'
            simp [rstep, hb, hroute _ hfl, hru']
          · constructor
            · simp only [lostStep, connect_, tryConnect]
              split <;> (try split) <;> rfl
            · intro p hp'; simp at hp'
            · intro hne; simp at hne
        · rename_i hraised
          have hraised' : (handleFrames s (feed s.rbuf chunk).frames).2.2 = false := by simpa using hraised
          have hnu : (handleFrames s (feed s.rbuf chunk).frames).2.1.contains .raiseUnderflow = false := by rw [p5, hraised']
          have hall := frameIds_all (feed s.rbuf chunk).frames s hraised'
          have hinv : ∀ (s' : St), s'.reqs = (handleFrames s (feed s.rbuf chunk).frames).1.reqs → s'.rbuf = (feed s.rbuf chunk).buf →
              s'.proto = s.proto →
              RInv s' ⟨m.inflight.filter (fun p => !(frameIds (feed s.rbuf chunk).frames).contains p.2), (feed s.rbuf chunk).buf⟩ := by
            intro s' h1 h2 h3
            constructor
            · exact h2.symm
            · intro p hp'
              obtain ⟨hpin, hpf⟩ := List.mem_filter.mp hp'
              obtain ⟨r0, hr0, hs0, hi0⟩ := hr.inTable p hpin
              refine ⟨r0, ?_, hs0, hi0⟩
              rw [h1]
              apply k1 r0 hr0
              intro b hb hcb
              obtain ⟨i, hci, hmem⟩ := hall b hb
              rw [hci] at hcb
              simp only [Option.some.injEq] at hcb
              subst hcb
              rw [hi0] at hmem
              simp only [Bool.not_eq_eq_eq_not, Bool.not_true] at hpf
              rw [← List.contains_iff_mem, hpf] at hmem
              exact Bool.false_ne_true hmem
            · intro _; rw [h3]; simp [hp]
          split
          · rename_i hex
            have hb := hnb [.lose c] (by simp)
            have hru : ((handleFrames s (feed s.rbuf chunk).frames).2.1 ++ [Ob.lose c]).contains .raiseUnderflow = false := by
              rw [List.contains_append, hnu]; rfl
            refine ⟨_, ?_, hinv _ rfl rfl (by rw [hfr])⟩
            have hnu' : Ob.raiseUnderflow ∉ (handleFrames s (feed s.rbuf chunk).frames).2.1 := by
              intro hm; rw [← List.contains_iff_mem, hnu] at hm; exact Bool.false_ne_true hm
            simp [rstep, hb, hbuf, hroute [.lose c] (by simp [fires]), hnu']
          · rename_i hex
            have hb := hnb [] (by simp)
            simp only [List.append_nil] at hb
            have hr0 := hroute [] rfl
            simp only [List.append_nil] at hr0
            refine ⟨_, ?_, hinv _ rfl rfl (by rw [hfr])⟩
            have hnu' : Ob.raiseUnderflow ∉ (handleFrames s (feed s.rbuf chunk).frames).2.1 := by
              intro hm; rw [← List.contains_iff_mem, hnu] at hm; exact Bool.false_ne_true hm
            simp [rstep, hb, hbuf, hr0, hnu']


theorem rinv_init (a b : Nat) : RInv (St.init a b) RSt.init := by
  constructor <;> simp [St.init, RSt.init]

theorem routes_run (cfg : Cfg) (es : List Ev) : ∀ (s : St) (m : RSt) (n : Nat), SInv s → RInv s m →
    rFirstBad m n (trace cfg s es) = none := by
  induction es with
  | nil => intro s m n _ _; rfl
  | cons e es ih =>
    intro s m n h hr
    obtain ⟨m', h1, h2⟩ := rinv_step cfg s e m h hr
    simp only [trace, rFirstBad, h1]
    exact ih _ m' (n + 1) (sinv_step cfg s e h) h2

end Afkak.BrokerClient
