import Afkak.Monitor.C10
import AfkakProofs.BrokerClient.Reent06

/-
  C10 over the re-entrant model: the stream monitor `r10` accepts every trace of `BrokerClientR` in
  which the interpreter did not run out of fuel.  The proof rides on `Reent06` (invariant `Inv6`,
  specification `spec6`) and adds the coupling `K10` between the model state and the monitor state.
-/
namespace Afkak.BrokerClientR
open Afkak.Frame Afkak.BrokerClient Afkak.Consts

abbrev RM10 := Afkak.Monitor.C10.RM
abbrev r10Ob := Afkak.Monitor.C10.r10Ob
abbrev RM6 := Afkak.Monitor.C06.RM

def fold10 (m : RM10) (os : List ObR) : RM10 := os.foldl r10Ob m

theorem fold10_append (m : RM10) (a b : List ObR) : fold10 m (a ++ b) = fold10 (fold10 m a) b := by
  simp [fold10, List.foldl_append]
@[simp] theorem fold10_nil (m : RM10) : fold10 m [] = m := rfl
theorem fold10_cons (m : RM10) (o : ObR) (os : List ObR) : fold10 m (o :: os) = fold10 (r10Ob m o) os := rfl

/-- flat observations the C10 stream monitor does not look at -/
def Inert10 : Ob → Prop
  | .connect _ _ | .setTimer _ | .write _ _ _ | .writeLost _ _ _ | .fire _ _ _ | .down => False
  | _ => True

theorem fold10_obs_inert (m : RM10) (l : List Ob) (h : ∀ o ∈ l, Inert10 o) : fold10 m (obs l) = m := by
  induction l generalizing m with
  | nil => rfl
  | cons o l ih =>
    have ho := h o (by simp)
    simp only [obs, List.map_cons, fold10_cons]
    have : r10Ob m (.ob o) = m := by
      cases o <;> simp_all [r10Ob, Afkak.Monitor.C10.r10Ob, Inert10]
    rw [this]
    exact ih m (fun o ho' => h o (by simp [ho']))

/-- what holds between the re-entrant model and the stream monitor `r10` (on top of `Inv6`) -/
structure K10 (s : StR) (m6 : RM6) (m : RM10) (L : Bool) : Prop where
  ok : m.ok = true
  firedEq : m.fired = m6.fired
  closedEq : m.closed = s.core.closed
  connClosed : s.core.closed = true → s.core.connector = .none ∨ s.core.connector = .stale
  protoLt : ∀ c, s.core.proto = some c → c < s.core.nconn
  wLt : ∀ w ∈ m.written, w.1 < s.core.nconn ∧ w.2 < s.core.nmake
  unsentNW : ∀ r ∈ s.core.reqs, r.sent = false → ∀ c, s.core.proto = some c → (c, r.serial) ∉ m.written
  downs : m.downs = 0 ∨ (m.downs = 1 ∧ s.core.closed = true ∧ s.core.proto = none ∧ L = false)
  connProto : s.core.proto ≠ none → s.core.connector = .none

/-- the table changed; unsent entries stem from unsent entries with the same serial -/
theorem k10_retable {s : StR} {m6 : RM6} {m : RM10} {L : Bool} (h : K10 s m6 m L) (c' : St)
    (hc : c' = { s.core with reqs := c'.reqs })
    (hsub : ∀ r' ∈ c'.reqs, r'.sent = false → ∃ r ∈ s.core.reqs, r.serial = r'.serial ∧ r.sent = false) :
    K10 { s with core := c' } m6 m L := by
  have e1 : c'.nmake = s.core.nmake := by rw [hc]
  have e2 : c'.closed = s.core.closed := by rw [hc]
  have e3 : c'.connector = s.core.connector := by rw [hc]
  have e4 : c'.proto = s.core.proto := by rw [hc]
  have e5 : c'.nconn = s.core.nconn := by rw [hc]
  refine ⟨h.ok, h.firedEq, by simp only [e2]; exact h.closedEq, by simp only [e2, e3]; exact h.connClosed,
    by simp only [e4, e5]; exact h.protoLt, by simp only [e1, e5]; exact h.wLt, ?_, by simp only [e2, e4]; exact h.downs,
    by simp only [e3, e4]; exact h.connProto⟩
  intro r' hr' hs c hp
  simp only [e4] at hp
  obtain ⟨r, hr, hse, hsn⟩ := hsub r' hr' hs
  rw [← hse]
  exact h.unsentNW r hr hsn c hp

/-- fields the coupling does not mention -/
theorem k10_core {s : StR} {m6 : RM6} {m : RM10} {L : Bool} (h : K10 s m6 m L) (c' : St)
    (h1 : c'.reqs = s.core.reqs) (h2 : c'.nmake = s.core.nmake) (h3 : c'.closed = s.core.closed)
    (h4 : c'.connector = s.core.connector) (h5 : c'.proto = s.core.proto) (h6 : c'.nconn = s.core.nconn)
    (hooks' : List (Nat × Hook)) (st : Bool) (sy : Sync) :
    K10 { core := c', hooks := hooks', stubborn := st, sync := sy } m6 m L :=
  ⟨h.ok, h.firedEq, by simp only [h3]; exact h.closedEq, by simp only [h3, h4]; exact h.connClosed,
   by simp only [h5, h6]; exact h.protoLt, by simp only [h2, h6]; exact h.wLt, by simp only [h1, h5]; exact h.unsentNW,
   by simp only [h3, h5]; exact h.downs, by simp only [h4, h5]; exact h.connProto⟩

/-- both monitors see a firing -/
theorem k10_fire {s : StR} {m6 : RM6} {m : RM10} {L : Bool} (h : K10 s m6 m L) (k : Nat) (id : Int) (r : Res) :
    K10 s (Afkak.Monitor.C06.r06Ob m6 (.ob (.fire k id r))) (r10Ob m (.ob (.fire k id r))) L :=
  ⟨h.ok, by simp [r10Ob, Afkak.Monitor.C10.r10Ob, Afkak.Monitor.C06.r06Ob, h.firedEq], h.closedEq, h.connClosed, h.protoLt, h.wLt,
   h.unsentNW, h.downs, h.connProto⟩

/-- the C06 monitor moved without touching its `fired` list -/
theorem k10_mon6 {s : StR} {m6 m6' : RM6} {m : RM10} {L : Bool} (h : K10 s m6 m L) (hf : m6'.fired = m6.fired) : K10 s m6' m L :=
  ⟨h.ok, by rw [hf]; exact h.firedEq, h.closedEq, h.connClosed, h.protoLt, h.wLt, h.unsentNW, h.downs, h.connProto⟩


/-- extra preconditions of the loops that write or may lose the connection -/
def Pre10 (task : Task) (s : StR) (L : Bool) : Prop :=
  match task with
  | .sendLoop conn _ => s.core.proto = some conn ∧ L = false
  | .frames conn _ _ => s.core.proto = some conn ∧ L = false
  | .lost => (∃ c, s.core.proto = some c) ∧ L = false
  | .dial => s.core.proto = none ∧ L = false
  | _ => True

/-- nested tasks never lose the connection -/
def ProtoKeep (task : Task) (s s' : StR) : Prop :=
  match task with
  | .frames _ _ _ => True
  | .lost => True
  | .dial => True
  | _ => ∀ c, s.core.proto = some c → s'.core.proto = some c

def Spec10 (cfg : Cfg) (n : Nat) : Prop :=
  ∀ (s : StR) (task : Task) (m6 : RM6) (m : RM10) (L : Bool), Pre6 task s m6 L → Pre10 task s L → K10 s m6 m L →
    NoFuelOut (exec cfg n s task).2 →
    K10 (exec cfg n s task).1 (fold6 m6 (exec cfg n s task).2) (fold10 m (exec cfg n s task).2) L ∧
    ProtoKeep task s (exec cfg n s task).1

theorem spec10_zero (cfg : Cfg) : Spec10 cfg 0 := by
  intro s task m6 m L _ _ _ hnf
  exact absurd (by simp [exec]) hnf

theorem r10_hookBegin (m : RM10) (k : Nat) : r10Ob m (.hookBegin k) = m := rfl
theorem r10_hookEnd (m : RM10) : r10Ob m .hookEnd = m := rfl
theorem r10_made (m : RM10) (k : Nat) (i : Int) : r10Ob m (.made k i) = m := rfl

theorem spec10_fire (cfg : Cfg) (n : Nat) (ih : Spec10 cfg n) (s : StR) (k : Nat) (id : Int) (r : Res) (m6 : RM6) (m : RM10) (L : Bool)
    (hpre : Pre6 (.fire k id r) s m6 L) (hk : K10 s m6 m L) (hnf : NoFuelOut (exec cfg (n + 1) s (.fire k id r)).2) :
    K10 (exec cfg (n + 1) s (.fire k id r)).1 (fold6 m6 (exec cfg (n + 1) s (.fire k id r)).2) (fold10 m (exec cfg (n + 1) s (.fire k id r)).2) L ∧
    ProtoKeep (.fire k id r) s (exec cfg (n + 1) s (.fire k id r)).1 := by
  obtain ⟨hinv, hown⟩ := hpre
  rw [exec_fire_eq] at hnf ⊢
  cases hl : lookupHook s.hooks k with
  | none =>
    simp only [hl]
    simp only [fold6_cons, fold6_nil, fold10_cons, fold10_nil]
    exact ⟨k10_fire hk k id r, fun c hc => hc⟩
  | some hh =>
    simp only [hl] at hnf ⊢
    obtain ⟨i1, _, _⟩ := inv6_fire id r hinv hown
    have j1 : Inv6 { s with hooks := s.hooks.filter (fun p => p.1 != k) } (Afkak.Monitor.C06.r06Ob m6 (.ob (.fire k id r))) [] L :=
      inv6_core i1 s.core rfl rfl rfl _ _ _
    have j2 := inv6_hookBegin k j1
    have hnf2 : NoFuelOut (exec cfg n { s with hooks := s.hooks.filter (fun p => p.1 != k) } (.acts hh)).2 := by
      intro hm; apply hnf; simp [hm]
    have k1 : K10 { s with hooks := s.hooks.filter (fun p => p.1 != k) } (Afkak.Monitor.C06.r06Ob m6 (.ob (.fire k id r)))
        (r10Ob m (.ob (.fire k id r))) L := k10_core (k10_fire hk k id r) s.core rfl rfl rfl rfl rfl rfl _ _ _
    have k2 : K10 { s with hooks := s.hooks.filter (fun p => p.1 != k) }
        (Afkak.Monitor.C06.r06Ob (Afkak.Monitor.C06.r06Ob m6 (.ob (.fire k id r))) (.hookBegin k)) (r10Ob m (.ob (.fire k id r))) L :=
      k10_mon6 k1 rfl
    obtain ⟨k3, pk⟩ := ih _ (.acts hh) _ _ L j2 trivial k2 hnf2
    have hf6 : fold6 m6 ([ObR.ob (Ob.fire k id r), ObR.hookBegin k] ++
        (exec cfg n { s with hooks := s.hooks.filter (fun p => p.1 != k) } (.acts hh)).2 ++ [ObR.hookEnd]) =
        Afkak.Monitor.C06.r06Ob (fold6 (Afkak.Monitor.C06.r06Ob (Afkak.Monitor.C06.r06Ob m6 (.ob (.fire k id r))) (.hookBegin k))
          (exec cfg n { s with hooks := s.hooks.filter (fun p => p.1 != k) } (.acts hh)).2) .hookEnd := by
      simp [fold6, List.foldl_append]
    have hf10 : fold10 m ([ObR.ob (Ob.fire k id r), ObR.hookBegin k] ++
        (exec cfg n { s with hooks := s.hooks.filter (fun p => p.1 != k) } (.acts hh)).2 ++ [ObR.hookEnd]) =
        fold10 (r10Ob m (.ob (.fire k id r))) (exec cfg n { s with hooks := s.hooks.filter (fun p => p.1 != k) } (.acts hh)).2 := by
      simp [fold10, List.foldl_append, r10_hookBegin, r10_hookEnd]
    rw [hf6, hf10]
    exact ⟨k10_mon6 k3 (hookEnd_fired _), fun c hc => pk c hc⟩


theorem spec10_fireAll (cfg : Cfg) (n : Nat) (ih : Spec10 cfg n) (s : StR) (l : List (Nat × Int)) (r : Res) (m6 : RM6) (m : RM10) (L : Bool)
    (hpre : Pre6 (.fireAll l r) s m6 L) (hk : K10 s m6 m L) (hnf : NoFuelOut (exec cfg (n + 1) s (.fireAll l r)).2) :
    K10 (exec cfg (n + 1) s (.fireAll l r)).1 (fold6 m6 (exec cfg (n + 1) s (.fireAll l r)).2) (fold10 m (exec cfg (n + 1) s (.fireAll l r)).2) L ∧
    ProtoKeep (.fireAll l r) s (exec cfg (n + 1) s (.fireAll l r)).1 := by
  obtain ⟨hlen, hinv, hown⟩ := hpre
  match l, hlen with
  | [], _ =>
    rw [exec_fireAll_nil]
    exact ⟨hk, fun c hc => hc⟩
  | [p], _ =>
    rw [exec_fireAll_cons] at hnf ⊢
    simp only at hnf ⊢
    have hp1 : Pre6 (.fire p.1 p.2 r) s m6 L := ⟨hinv, fun b hb => hown p (by simp) b hb⟩
    obtain ⟨p1, _⟩ := spec6 cfg n s (.fire p.1 p.2 r) m6 L hp1 hnf.append_left
    obtain ⟨k1, pk1⟩ := ih s (.fire p.1 p.2 r) m6 m L hp1 trivial hk hnf.append_left
    obtain ⟨k2, pk2⟩ := ih _ (.fireAll [] r) _ _ L ⟨by simp, p1.inv, by simp⟩ trivial k1 hnf.append_right
    rw [fold6_append, fold10_append]
    exact ⟨k2, fun c hc => pk2 c (pk1 c hc)⟩

theorem spec10_acts (cfg : Cfg) (n : Nat) (ih : Spec10 cfg n) (s : StR) (as : List Action) (m6 : RM6) (m : RM10) (L : Bool)
    (hpre : Pre6 (.acts as) s m6 L) (hk : K10 s m6 m L) (hnf : NoFuelOut (exec cfg (n + 1) s (.acts as)).2) :
    K10 (exec cfg (n + 1) s (.acts as)).1 (fold6 m6 (exec cfg (n + 1) s (.acts as)).2) (fold10 m (exec cfg (n + 1) s (.acts as)).2) L ∧
    ProtoKeep (.acts as) s (exec cfg (n + 1) s (.acts as)).1 := by
  have hinv : Inv6 s m6 [] L := hpre
  cases as with
  | nil => simp only [exec]; exact ⟨hk, fun c hc => hc⟩
  | cons a as =>
    simp only [exec] at hnf ⊢
    obtain ⟨p1, _⟩ := spec6 cfg n s (.act a) m6 L hinv hnf.append_left
    obtain ⟨k1, pk1⟩ := ih s (.act a) m6 m L hinv trivial hk hnf.append_left
    obtain ⟨k2, pk2⟩ := ih _ (.acts as) _ _ L p1.inv trivial k1 hnf.append_right
    rw [fold6_append, fold10_append]
    exact ⟨k2, fun c hc => pk2 c (pk1 c hc)⟩

/-- a flat step that leaves everything the coupling mentions alone -/
theorem k10_flat_inert {s : StR} {m6 : RM6} {m : RM10} {L : Bool} (hk : K10 s m6 m L) (c' : St) (os : List Ob)
    (h1 : c'.reqs = s.core.reqs) (h2 : c'.nmake = s.core.nmake) (h3 : c'.closed = s.core.closed)
    (h4 : c'.connector = s.core.connector) (h5 : c'.proto = s.core.proto) (h6 : c'.nconn = s.core.nconn)
    (hos : ∀ o ∈ os, Inert10 o) (hos6 : ∀ o ∈ os, ∀ k i r, o ≠ .fire k i r) :
    K10 { s with core := c' } (fold6 m6 (obs os)) (fold10 m (obs os)) L := by
  rw [fold10_obs_inert m os hos, fold6_obs_inert m6 os hos6]
  exact k10_core hk c' h1 h2 h3 h4 h5 h6 _ _ _

theorem spec10_act (cfg : Cfg) (n : Nat) (ih : Spec10 cfg n) (s : StR) (a : Action) (m6 : RM6) (m : RM10) (L : Bool)
    (hpre : Pre6 (.act a) s m6 L) (hk : K10 s m6 m L) (hnf : NoFuelOut (exec cfg (n + 1) s (.act a)).2) :
    K10 (exec cfg (n + 1) s (.act a)).1 (fold6 m6 (exec cfg (n + 1) s (.act a)).2) (fold10 m (exec cfg (n + 1) s (.act a)).2) L ∧
    ProtoKeep (.act a) s (exec cfg (n + 1) s (.act a)).1 := by
  have hinv : Inv6 s m6 [] L := hpre
  cases a with
  | close => simp only [exec] at hnf ⊢; exact ih s .close m6 m L hinv trivial hk hnf
  | cancel id => simp only [exec] at hnf ⊢; exact ih s (.cancel id) m6 m L hinv trivial hk hnf
  | make id ex =>
    simp only [exec] at hnf ⊢
    by_cases hsy : s.sync = .none
    · rw [if_pos hsy] at hnf ⊢; exact ih s (.make id ex none) m6 m L hinv trivial hk hnf
    · rw [if_neg hsy] at hnf ⊢; exact ih s (.makeS id ex none) m6 m L hinv trivial hk hnf
  | disconnect =>
    simp only [exec, step]
    split
    · exact ⟨k10_flat_inert hk _ _ rfl rfl rfl rfl rfl rfl (by simp [Inert10]) (by simp), fun c hc => hc⟩
    · exact ⟨k10_flat_inert hk _ _ rfl rfl rfl rfl rfl rfl (by simp) (by simp), fun c hc => hc⟩


/-- a step that hands out a serial without writing -/
theorem k10_make_nowrite {s : StR} {m6 m6' : RM6} {m m' : RM10} {L : Bool} (hk : K10 s m6 m L) (c' : St)
    (hn : c'.nmake = s.core.nmake + 1) (hcl : c'.closed = s.core.closed) (hp : c'.proto = s.core.proto) (hnc : c'.nconn = s.core.nconn)
    (hconn : c'.connector = s.core.connector ∨ (s.core.closed = false ∧ s.core.proto = none))
    (hreqs : ∀ r ∈ c'.reqs, r.sent = false → r ∈ s.core.reqs ∨ s.core.proto = none)
    (hf6 : m6'.fired = m6.fired) (h1 : m'.fired = m.fired) (h2 : m'.closed = m.closed) (h3 : m'.written = m.written)
    (h4 : m'.downs = m.downs) (h5 : m'.ok = true) (hooks' : List (Nat × Hook)) (st : Bool) (sy : Sync) :
    K10 { core := c', hooks := hooks', stubborn := st, sync := sy } m6' m' L := by
  refine ⟨h5, by rw [h1, hf6]; exact hk.firedEq, by rw [h2]; simp only [hcl]; exact hk.closedEq, ?_, by simp only [hp, hnc]; exact hk.protoLt,
    ?_, ?_, by rw [h4]; simp only [hcl, hp]; exact hk.downs, ?_⟩
  · intro hc
    simp only [hcl] at hc
    rcases hconn with h | ⟨h, _⟩
    · simp only [h]; exact hk.connClosed hc
    · simp_all
  · intro w hw
    rw [h3] at hw
    have := hk.wLt w hw
    simp only [hnc, hn]; omega
  · intro r hr hs c hpc
    simp only [hp] at hpc
    rw [h3]
    rcases hreqs r hr hs with h | h
    · exact hk.unsentNW r h hs c hpc
    · simp_all
  · intro hpn
    simp only [hp] at hpn
    rcases hconn with h | ⟨_, h⟩
    · simp only [h]; exact hk.connProto hpn
    · exact absurd h hpn

/-- a new request is written at once (connected, not closed) -/
theorem k10_make_write {s : StR} {m6 m6' : RM6} {m : RM10} {L : Bool} (hk : K10 s m6 m L) (hinv : Inv6 s m6 [] L) (c' : St)
    (conn : Nat) (id : Int) (lost : Bool)
    (hpc : s.core.proto = some conn) (hclosed : s.core.closed = false)
    (hn : c'.nmake = s.core.nmake + 1) (hcl : c'.closed = s.core.closed) (hp : c'.proto = s.core.proto) (hnc : c'.nconn = s.core.nconn)
    (hconn : c'.connector = s.core.connector)
    (hreqs : ∀ r ∈ c'.reqs, r.sent = false → r ∈ s.core.reqs)
    (hf6 : m6'.fired = m6.fired) (hooks' : List (Nat × Hook)) (st : Bool) (sy : Sync) :
    K10 { core := c', hooks := hooks', stubborn := st, sync := sy } m6'
      (r10Ob m (.ob (if lost then .writeLost conn s.core.nmake id else .write conn s.core.nmake id))) L := by
  have hnw : (conn, s.core.nmake) ∉ m.written := fun hw => by have := (hk.wLt _ hw).2; simp at this
  have hnf : s.core.nmake ∉ m.fired := by
    rw [hk.firedEq]; intro hf; have := hinv.firedLt _ hf; omega
  have hmc : m.closed = false := by rw [hk.closedEq]; exact hclosed
  have hform : ∀ o : Ob, (o = .writeLost conn s.core.nmake id ∨ o = .write conn s.core.nmake id) →
      (r10Ob m (.ob o)).ok = true ∧ (r10Ob m (.ob o)).fired = m.fired ∧ (r10Ob m (.ob o)).closed = m.closed ∧
      (r10Ob m (.ob o)).written = (conn, s.core.nmake) :: m.written ∧ (r10Ob m (.ob o)).downs = m.downs := by
    intro o ho
    rcases ho with rfl | rfl <;> simp [r10Ob, Afkak.Monitor.C10.r10Ob, hk.ok, hmc, hnw, hnf]
  obtain ⟨f1, f2, f3, f4, f5⟩ := hform (if lost then .writeLost conn s.core.nmake id else .write conn s.core.nmake id)
    (by cases lost <;> simp)
  refine ⟨f1, by rw [f2, hf6]; exact hk.firedEq, by rw [f3]; simp only [hcl]; exact hk.closedEq,
    by simp only [hcl, hconn]; exact hk.connClosed, by simp only [hp, hnc]; exact hk.protoLt, ?_, ?_,
    by rw [f5]; simp only [hcl, hp]; exact hk.downs, by simp only [hp, hconn]; exact hk.connProto⟩
  · intro w hw
    rw [f4] at hw
    simp only [hnc, hn]
    rcases List.mem_cons.mp hw with rfl | hw
    · exact ⟨hk.protoLt conn hpc, by simp⟩
    · have := hk.wLt w hw; omega
  · intro r hr hs c hpc'
    simp only [hp] at hpc'
    rw [f4]
    have hr0 := hreqs r hr hs
    intro hm
    rcases List.mem_cons.mp hm with he | hm
    · have := hinv.lt r hr0
      simp only [Prod.mk.injEq] at he
      omega
    · exact hk.unsentNW r hr0 hs c hpc' hm


theorem spec10_make (cfg : Cfg) (n : Nat) (ih : Spec10 cfg n) (s : StR) (id : Int) (ex : Bool) (hk0 : Option Hook) (m6 : RM6) (m : RM10) (L : Bool)
    (hpre : Pre6 (.make id ex hk0) s m6 L) (hk : K10 s m6 m L) (hnf : NoFuelOut (exec cfg (n + 1) s (.make id ex hk0)).2) :
    K10 (exec cfg (n + 1) s (.make id ex hk0)).1 (fold6 m6 (exec cfg (n + 1) s (.make id ex hk0)).2)
      (fold10 m (exec cfg (n + 1) s (.make id ex hk0)).2) L ∧
    ProtoKeep (.make id ex hk0) s (exec cfg (n + 1) s (.make id ex hk0)).1 := by
  have hinv : Inv6 s m6 [] L := hpre
  simp only [exec] at hnf ⊢
  by_cases hd : s.core.reqs.any (fun r => r.id == id) = true
  · simp only [hd, if_true]
    simp only [fold6_cons, fold6_nil, fold10_cons, fold10_nil, Afkak.Monitor.C06.r06Ob, r10Ob, Afkak.Monitor.C10.r10Ob]
    exact ⟨hk, fun c hc => hc⟩
  · simp only [hd, Bool.false_eq_true, if_false] at hnf ⊢
    -- the Deferred fires at once (after `made`, possibly after a write)
    have pend : ∀ (res : Res) (hooks' : List (Nat × Hook)) (c' : St) (m' : RM10), (∀ b, res ≠ .ok b) →
        c'.reqs = s.core.reqs → c'.nmake = s.core.nmake + 1 → c'.closed = s.core.closed → c'.proto = s.core.proto →
        (∀ hooks', K10 { core := c', hooks := hooks', stubborn := s.stubborn, sync := s.sync } (Afkak.Monitor.C06.r06Ob m6 (.made s.core.nmake id)) m' L) →
        NoFuelOut (exec cfg n { core := c', hooks := hooks', stubborn := s.stubborn, sync := s.sync } (.fire s.core.nmake id res)).2 →
        K10 (exec cfg n { core := c', hooks := hooks', stubborn := s.stubborn, sync := s.sync } (.fire s.core.nmake id res)).1
          (fold6 (Afkak.Monitor.C06.r06Ob m6 (.made s.core.nmake id)) (exec cfg n { core := c', hooks := hooks', stubborn := s.stubborn, sync := s.sync } (.fire s.core.nmake id res)).2)
          (fold10 m' (exec cfg n { core := c', hooks := hooks', stubborn := s.stubborn, sync := s.sync } (.fire s.core.nmake id res)).2) L ∧
        (∀ c, s.core.proto = some c →
          (exec cfg n { core := c', hooks := hooks', stubborn := s.stubborn, sync := s.sync } (.fire s.core.nmake id res)).1.core.proto = some c) := by
      intro res hooks' c' m' hres h1 h2 h3 h4 kk hnf'
      have j := inv6_made_pend id hinv c' h1 h2 h3 hooks' s.stubborn s.sync
      obtain ⟨k2, pk⟩ := ih _ (.fire s.core.nmake id res) _ m' L ⟨j, fun b hb => absurd hb (hres b)⟩ trivial (kk hooks') hnf'
      exact ⟨k2, fun c hc => pk c (by simp only [h4]; exact hc)⟩
    have r6made : (Afkak.Monitor.C06.r06Ob m6 (.made s.core.nmake id)).fired = m6.fired := by
      simp only [Afkak.Monitor.C06.r06Ob]
    by_cases hc : s.core.closed = true
    · simp only [hc, if_true] at hnf ⊢
      rw [fold6_cons, fold10_cons, r10_made]
      exact pend _ _ _ _ (by simp) (by rfl) (by rfl) (by simp [hc]) (by rfl)
        (by intro hooks'
            exact k10_make_nowrite hk _ (by rfl) (by simp [hc]) (by rfl) (by rfl) (Or.inl (by rfl)) (fun r hr _ => Or.inl (by exact hr)) r6made rfl rfl rfl rfl hk.ok hooks' s.stubborn s.sync)
        hnf.cons
    · have hc' : s.core.closed = false := by simpa using hc
      simp only [hc', Bool.false_eq_true, if_false] at hnf ⊢
      cases hp : s.core.proto with
      | some conn =>
        simp only [hp] at hnf ⊢
        by_cases hw : s.core.wfail = true
        · simp only [hw, if_true] at hnf ⊢
          rw [fold6_cons, fold10_cons, r10_made]
          obtain ⟨a, b⟩ := pend _ _ _ _ (by simp) (by rfl) (by rfl) (by simp [hc']) (by simp [hp])
            (by intro hooks'
                exact k10_make_nowrite hk _ (by rfl) (by simp [hc']) (by simp [hp]) (by rfl) (Or.inl (by rfl)) (fun r hr _ => Or.inl (by exact hr)) r6made rfl rfl rfl rfl hk.ok hooks' s.stubborn s.sync)
            hnf.cons
          exact ⟨a, fun c hcc => b c (by simpa [hp] using hcc)⟩
        · have hw' : s.core.wfail = false := by simpa using hw
          simp only [hw', Bool.false_eq_true, if_false] at hnf ⊢
          -- the write
          have r6w : ∀ o : Ob, (o = .writeLost conn s.core.nmake id ∨ o = .write conn s.core.nmake id) →
              Afkak.Monitor.C06.r06Ob m6 (.ob o) = m6 := by
            intro o ho; rcases ho with rfl | rfl <;> simp [Afkak.Monitor.C06.r06Ob]
          have r6w' := r6w (if s.core.losing = true then .writeLost conn s.core.nmake id else .write conn s.core.nmake id)
            (by split <;> simp)
          cases ex with
          | true =>
            simp only [if_true]
            simp only [fold6_cons, fold6_nil, fold10_cons, fold10_nil, r10_made, r6w']
            refine ⟨?_, fun c hcc => by simpa [hp] using hcc⟩
            exact k10_make_write hk hinv _ conn id s.core.losing hp hc' (by rfl) (by simp [hc']) (by simp [hp]) (by rfl) (by rfl)
              (by intro r hr hs
                  rcases List.mem_append.mp hr with hr | hr
                  · exact hr
                  · simp only [List.mem_singleton] at hr; subst hr; simp at hs)
              r6made _ _ _
          | false =>
            simp only [Bool.false_eq_true, if_false] at hnf ⊢
            have hf6 : ∀ tl, fold6 m6 ([ObR.ob (if s.core.losing = true then Ob.writeLost conn s.core.nmake id else Ob.write conn s.core.nmake id),
                ObR.made s.core.nmake id] ++ tl) = fold6 (Afkak.Monitor.C06.r06Ob m6 (.made s.core.nmake id)) tl := by
              intro tl; simp only [List.cons_append, List.nil_append, fold6_cons, r6w']
            have hf10 : ∀ tl, fold10 m ([ObR.ob (if s.core.losing = true then Ob.writeLost conn s.core.nmake id else Ob.write conn s.core.nmake id),
                ObR.made s.core.nmake id] ++ tl) = fold10 (r10Ob m (.ob (if s.core.losing = true then Ob.writeLost conn s.core.nmake id else Ob.write conn s.core.nmake id))) tl := by
              intro tl; simp only [List.cons_append, List.nil_append, fold10_cons, r10_made]
            rw [hf6, hf10]
            obtain ⟨a, b⟩ := pend _ _ _ _ (by simp) (by rfl) (by rfl) (by simp [hc']) (by simp [hp])
              (by intro hooks'
                  exact k10_make_write hk hinv _ conn id s.core.losing hp hc' (by rfl) (by simp [hc']) (by simp [hp]) (by rfl) (by rfl) (fun r hr _ => by exact hr) r6made hooks' s.stubborn s.sync)
              hnf.append_right
            exact ⟨a, fun c hcc => b c (by simpa [hp] using hcc)⟩
      | none =>
        simp only [hp] at hnf ⊢
        refine ⟨?_, fun c hcc => by rw [hp] at hcc; cases hcc⟩
        by_cases hco : s.core.connector = .none
        · simp only [hco, if_true, connect_, tryConnect]
          have hf6 : fold6 m6 (obs [Ob.connect s.core.host s.core.port] ++ [ObR.made s.core.nmake id]) = Afkak.Monitor.C06.r06Ob m6 (.made s.core.nmake id) := by
            simp [fold6, Afkak.Monitor.C06.r06Ob, obs]
          have hf10 : fold10 m (obs [Ob.connect s.core.host s.core.port] ++ [ObR.made s.core.nmake id]) = r10Ob m (.ob (.connect s.core.host s.core.port)) := by
            simp [fold10, obs, r10_made]
          rw [hf6, hf10]
          have hmc : m.closed = false := by rw [hk.closedEq]; exact hc'
          exact k10_make_nowrite hk _ (by rfl) (by simp [hc']) (by simp [hp]) (by rfl) (Or.inr ⟨hc', hp⟩) (fun r hr _ => Or.inr hp) r6made
            (by simp [r10Ob, Afkak.Monitor.C10.r10Ob]) (by simp [r10Ob, Afkak.Monitor.C10.r10Ob]) (by simp [r10Ob, Afkak.Monitor.C10.r10Ob])
            (by simp [r10Ob, Afkak.Monitor.C10.r10Ob]) (by simp [r10Ob, Afkak.Monitor.C10.r10Ob, hk.ok, hmc]) _ _ _
        · simp only [hco, if_false]
          simp only [fold6_cons, fold6_nil, fold10_cons, fold10_nil, r10_made]
          exact k10_make_nowrite hk _ (by rfl) (by simp [hc']) (by simp [hp]) (by rfl) (Or.inl (by rfl)) (fun r hr _ => Or.inr hp) r6made rfl rfl rfl rfl hk.ok _ _ _


/-- closed and not connected -/
def CN (s : StR) : Prop := s.core.closed = true ∧ s.core.proto = none

/-- once closed and not connected, nothing run by `exec` connects again -/
theorem exec_closedNone (cfg : Cfg) : ∀ (n : Nat) (s : StR) (task : Task), CN s → CN (exec cfg n s task).1 := by
  intro n
  induction n with
  | zero => intro s task h; simpa [exec] using h
  | succ n ih =>
    intro s task h
    have hre : ∀ c' : St, c'.closed = s.core.closed → c'.proto = s.core.proto → ∀ hooks' st sy, CN { core := c', hooks := hooks', stubborn := st, sync := sy } := by
      intro c' h1 h2 _ _ _; exact ⟨by simp only [h1]; exact h.1, by simp only [h2]; exact h.2⟩
    cases task with
    | fire k id r =>
      rw [exec_fire_eq]
      cases lookupHook s.hooks k with
      | none => exact h
      | some hh => exact ih _ _ (hre s.core rfl rfl _ _ _)
    | fireAll l r =>
      cases l with
      | nil => rw [exec_fireAll_nil]; exact h
      | cons p ps => rw [exec_fireAll_cons]; exact ih _ _ (ih _ _ h)
    | acts as =>
      cases as with
      | nil => simpa [exec] using h
      | cons a as => simp only [exec]; exact ih _ _ (ih _ _ h)
    | act a =>
      cases a with
      | close => simp only [exec]; exact ih _ _ h
      | disconnect =>
        simp only [exec, step, h.2]
        exact h
      | cancel id => simp only [exec]; exact ih _ _ h
      | make id ex => simp only [exec]; split <;> exact ih _ _ h
    | make id ex hk =>
      simp only [exec, h.1, if_true]
      split
      · exact h
      · exact ih _ _ (hre _ (by simp [h.1]) (by rfl) _ _ _)
    | cancel id =>
      rw [exec_cancel_eq]
      split
      · exact ih _ _ (hre _ rfl rfl _ _ _)
      · exact h
    | close => simp only [exec, h.1, if_true]; exact h
    | closeLoop =>
      rw [exec_closeLoop_eq]
      split
      · exact h
      · simp only
        split
        · exact ih _ _ (hre _ rfl rfl _ _ _)
        · exact ih _ _ (ih _ _ (hre _ rfl rfl _ _ _))
    | sendLoop conn snap =>
      cases snap with
      | nil => rw [exec_sendLoop_nil]; exact h
      | cons k ks =>
        rw [exec_sendLoop_cons]
        split
        · exact ih _ _ h
        · simp only
          split
          · exact ih _ _ (ih _ _ (hre _ rfl rfl _ _ _))
          · split
            · exact ih _ _ (hre _ rfl rfl _ _ _)
            · exact ih _ _ (ih _ _ (hre _ rfl rfl _ _ _))
    | frames conn fs f =>
      cases fs with
      | nil =>
        rw [exec_frames_nil]
        split
        · exact hre _ rfl rfl _ _ _
        · exact hre _ rfl rfl _ _ _
      | cons b bs =>
        rw [exec_frames_cons]
        split
        · split
          · simp only [lostStep, h.1, if_true]; exact ⟨rfl, rfl⟩
          · exact ih _ _ h
        · simp only
          split
          · exact ih _ _ (ih _ _ (hre _ rfl rfl _ _ _))
          · exact ih _ _ (hre _ rfl rfl _ _ _)
    | makeS id ex hk =>
      simp only [exec, h.1, Bool.not_true, Bool.and_false, Bool.false_and, Bool.false_eq_true, if_false]
      exact ih _ _ h
    | lost =>
      simp only [exec, h.1, if_true]
      exact ⟨rfl, rfl⟩
    | dial =>
      simp only [exec, h.1, if_true]
      exact h

theorem spec10_cancel (cfg : Cfg) (n : Nat) (ih : Spec10 cfg n) (s : StR) (id : Int) (m6 : RM6) (m : RM10) (L : Bool)
    (hpre : Pre6 (.cancel id) s m6 L) (hk : K10 s m6 m L) (hnf : NoFuelOut (exec cfg (n + 1) s (.cancel id)).2) :
    K10 (exec cfg (n + 1) s (.cancel id)).1 (fold6 m6 (exec cfg (n + 1) s (.cancel id)).2) (fold10 m (exec cfg (n + 1) s (.cancel id)).2) L ∧
    ProtoKeep (.cancel id) s (exec cfg (n + 1) s (.cancel id)).1 := by
  have hinv : Inv6 s m6 [] L := hpre
  rw [exec_cancel_eq] at hnf ⊢
  by_cases hany : s.core.reqs.any (fun r => r.id == id && !r.cancelled) = true
  · simp only [hany, if_true] at hnf ⊢
    have j := inv6_cancelTable hinv id
    have kk : K10 { s with core := { s.core with reqs := cancelTable s.core.reqs id } } m6 m L := by
      apply k10_retable hk _ rfl
      intro r' hr' hs
      simp only [cancelTable, List.mem_map, List.mem_filter] at hr'
      obtain ⟨r, ⟨hr, _⟩, rfl⟩ := hr'
      refine ⟨r, hr, by split <;> rfl, ?_⟩
      split at hs <;> exact hs
    obtain ⟨k2, pk⟩ := ih _ (.fireAll (liveWith s.core.reqs id) (.err .cancelled)) m6 m L ⟨liveWith_len _ hinv.ids id, j, by simp⟩ trivial kk hnf
    exact ⟨k2, fun c hc => pk c hc⟩
  · simp only [hany, Bool.false_eq_true, if_false] at hnf ⊢
    simp only [fold6_cons, fold6_nil, fold10_cons, fold10_nil, Afkak.Monitor.C06.r06Ob, r10Ob, Afkak.Monitor.C10.r10Ob]
    exact ⟨hk, fun c hc => hc⟩

theorem spec10_closeLoop (cfg : Cfg) (n : Nat) (ih : Spec10 cfg n) (s : StR) (m6 : RM6) (m : RM10) (L : Bool)
    (hpre : Pre6 .closeLoop s m6 L) (hk : K10 s m6 m L) (hnf : NoFuelOut (exec cfg (n + 1) s .closeLoop).2) :
    K10 (exec cfg (n + 1) s .closeLoop).1 (fold6 m6 (exec cfg (n + 1) s .closeLoop).2) (fold10 m (exec cfg (n + 1) s .closeLoop).2) L ∧
    ProtoKeep .closeLoop s (exec cfg (n + 1) s .closeLoop).1 := by
  obtain ⟨hinv, hL⟩ := hpre
  rw [exec_closeLoop_eq] at hnf ⊢
  cases hsel : (if closePopLast then s.core.reqs.getLast? else s.core.reqs.head?) with
  | none =>
    simp only [hsel]
    exact ⟨hk, fun c hc => hc⟩
  | some rq =>
    simp only [hsel] at hnf ⊢
    have hrq : rq ∈ s.core.reqs := by
      split at hsel
      · exact List.mem_of_getLast? hsel
      · exact List.mem_of_head? hsel
    have j := inv6_remove hinv rq hrq
    have kk : K10 { s with core := { s.core with reqs := s.core.reqs.filter (fun r => r.serial != rq.serial) } } m6 m L := by
      apply k10_retable hk _ rfl
      intro r' hr' hs
      exact ⟨r', (List.mem_filter.mp hr').1, rfl, hs⟩
    by_cases hc : rq.cancelled = true
    · simp only [hc, if_true] at hnf j ⊢
      obtain ⟨k2, pk⟩ := ih _ .closeLoop m6 m L ⟨j, hL⟩ trivial kk (by simpa using hnf)
      simp only [List.nil_append]
      exact ⟨k2, fun c hcc => pk c hcc⟩
    · have hc' : rq.cancelled = false := by simpa using hc
      simp only [hc', Bool.false_eq_true, if_false] at hnf j ⊢
      obtain ⟨p1, _⟩ := spec6 cfg n _ (.fire rq.serial rq.id (.err .clientError)) m6 L ⟨j, by simp⟩ hnf.append_left
      obtain ⟨k1, pk1⟩ := ih _ (.fire rq.serial rq.id (.err .clientError)) m6 m L ⟨j, by simp⟩ trivial kk hnf.append_left
      obtain ⟨k2, pk2⟩ := ih _ .closeLoop _ _ L ⟨p1.inv, hL⟩ trivial k1 hnf.append_right
      rw [fold6_append, fold10_append]
      exact ⟨k2, fun c hcc => pk2 c (pk1 c hcc)⟩

/-- `closing`: the C10 monitor learns that the client is closed -/
theorem k10_closing {s : StR} {m6 : RM6} {m : RM10} {L : Bool} (hk : K10 s m6 m L) (hcl : s.core.closed = false) (c' : St)
    (h1 : c'.reqs = s.core.reqs) (h2 : c'.nmake = s.core.nmake) (h3 : c'.closed = true)
    (hconn : c'.connector = .none ∨ c'.connector = .stale) (hcp : c'.proto ≠ none → c'.connector = .none)
    (hpl : ∀ c, c'.proto = some c → c < c'.nconn) (hnc : s.core.nconn ≤ c'.nconn)
    (hun : ∀ c, c'.proto = some c → s.core.proto = some c ∨ s.core.nconn ≤ c)
    (hooks' : List (Nat × Hook)) (st : Bool) (sy : Sync) :
    K10 { core := c', hooks := hooks', stubborn := st, sync := sy } (Afkak.Monitor.C06.r06Ob m6 .closing) (r10Ob m .closing) true := by
  have hd : m.downs = 0 := by
    rcases hk.downs with h | ⟨_, h, _⟩
    · exact h
    · simp_all
  refine ⟨hk.ok, hk.firedEq, by simp [r10Ob, Afkak.Monitor.C10.r10Ob, h3], fun _ => hconn, hpl, ?_, ?_, Or.inl hd, hcp⟩
  · intro w hw
    have := hk.wLt w hw
    simp only [h2]; omega
  · intro r hr hs c hpc hw
    have hw' : (c, r.serial) ∈ m.written := hw
    rcases hun c hpc with h | h
    · exact hk.unsentNW r (by simpa only [h1] using hr) hs c h hw'
    · have := (hk.wLt _ hw').1; simp at this; omega

theorem k10_unL {s : StR} {m6 : RM6} {m : RM10} (hk : K10 s m6 m true) : K10 s m6 m false := by
  refine ⟨hk.ok, hk.firedEq, hk.closedEq, hk.connClosed, hk.protoLt, hk.wLt, hk.unsentNW, ?_, hk.connProto⟩
  rcases hk.downs with h | ⟨_, _, _, h⟩
  · exact Or.inl h
  · simp at h

/-- the common part of every branch of `close()` -/
theorem close10_core (cfg : Cfg) (n : Nat) (ih : Spec10 cfg n) (s : StR) (m6 : RM6) (m : RM10) (L : Bool) (hinv : Inv6 s m6 [] L)
    (hk : K10 s m6 m L) (hcl : s.core.closed = false) (c' : St) (pre : List Ob) (dn : Bool)
    (h1 : c'.reqs = s.core.reqs) (h2 : c'.nmake = s.core.nmake) (h3 : c'.closed = true)
    (hconn : c'.connector = .none ∨ c'.connector = .stale) (hcp : c'.proto ≠ none → c'.connector = .none)
    (hpl : ∀ c, c'.proto = some c → c < c'.nconn) (hnc : s.core.nconn ≤ c'.nconn)
    (hun : ∀ c, c'.proto = some c → s.core.proto = some c ∨ s.core.nconn ≤ c)
    (hpre : ∀ o ∈ pre, Inert10 o) (hpre6 : ∀ o ∈ pre, ∀ k i r, o ≠ .fire k i r)
    (hdn : dn = true → c'.proto = none)
    (hnf : NoFuelOut (exec cfg n { s with core := c' } .closeLoop).2) :
    K10 (exec cfg n { s with core := c' } .closeLoop).1
      (fold6 m6 ([ObR.closing] ++ obs pre ++ (exec cfg n { s with core := c' } .closeLoop).2 ++ obs (if dn then [.down] else [])))
      (fold10 m ([ObR.closing] ++ obs pre ++ (exec cfg n { s with core := c' } .closeLoop).2 ++ obs (if dn then [.down] else []))) L ∧
    (∀ c, c'.proto = some c → (exec cfg n { s with core := c' } .closeLoop).1.core.proto = some c) := by
  have hL : L = false := by
    cases hLL : L
    · rfl
    · have := hinv.lClosed hLL; simp_all
  subst hL
  obtain ⟨j, _⟩ := inv6_closing hinv hcl c' h1 h2 h3 s.hooks s.stubborn s.sync
  have kk := k10_closing hk hcl c' h1 h2 h3 hconn hcp hpl hnc hun s.hooks s.stubborn s.sync
  obtain ⟨k2, pk⟩ := ih { s with core := c' } .closeLoop _ _ true ⟨j, rfl⟩ trivial kk hnf
  refine ⟨?_, fun c hc => pk c hc⟩
  have hf6 : fold6 m6 ([ObR.closing] ++ obs pre ++ (exec cfg n { s with core := c' } .closeLoop).2 ++ obs (if dn then [.down] else []))
      = fold6 (Afkak.Monitor.C06.r06Ob m6 .closing) (exec cfg n { s with core := c' } .closeLoop).2 := by
    rw [fold6_append, fold6_append, fold6_append]
    simp only [List.singleton_append, fold6_cons, fold6_nil]
    rw [fold6_obs_inert _ pre hpre6, fold6_obs_inert _ _ (by intro o ho; split at ho <;> simp_all)]
  have hf10 : fold10 m ([ObR.closing] ++ obs pre ++ (exec cfg n { s with core := c' } .closeLoop).2 ++ obs (if dn then [.down] else []))
      = fold10 (fold10 (r10Ob m .closing) (exec cfg n { s with core := c' } .closeLoop).2) (obs (if dn then [.down] else [])) := by
    rw [fold10_append, fold10_append, fold10_append]
    simp only [List.singleton_append, fold10_cons, fold10_nil]
    rw [fold10_obs_inert _ pre hpre]
  rw [hf6, hf10]
  cases dn with
  | false => simpa [obs] using k10_unL k2
  | true =>
    simp only [if_true, obs, List.map_cons, List.map_nil, fold10_cons, fold10_nil]
    have hcn := exec_closedNone cfg n { s with core := c' } .closeLoop ⟨h3, hdn rfl⟩
    have hd : (fold10 (r10Ob m .closing) (exec cfg n { s with core := c' } .closeLoop).2).downs = 0 := by
      rcases k2.downs with h | ⟨_, _, _, h⟩
      · exact h
      · simp at h
    have hmc := k2.closedEq
    rw [hcn.1] at hmc
    generalize fold10 (r10Ob m .closing) (exec cfg n { s with core := c' } .closeLoop).2 = M at k2 hd hmc ⊢
    have e1 : (r10Ob M (.ob .down)).ok = true := by simp [r10Ob, Afkak.Monitor.C10.r10Ob, k2.ok, hmc, hd]
    have e2 : (r10Ob M (.ob .down)).fired = M.fired := rfl
    have e3 : (r10Ob M (.ob .down)).closed = M.closed := rfl
    have e4 : (r10Ob M (.ob .down)).written = M.written := rfl
    have e5 : (r10Ob M (.ob .down)).downs = 1 := by simp [r10Ob, Afkak.Monitor.C10.r10Ob, hd]
    exact ⟨e1, by rw [e2]; exact k2.firedEq, by rw [e3]; exact k2.closedEq,
      k2.connClosed, k2.protoLt, by rw [e4]; exact k2.wLt, by rw [e4]; exact k2.unsentNW, Or.inr ⟨e5, hcn.1, hcn.2, rfl⟩, k2.connProto⟩

theorem spec10_close (cfg : Cfg) (n : Nat) (ih : Spec10 cfg n) (s : StR) (m6 : RM6) (m : RM10) (L : Bool)
    (hpre : Pre6 .close s m6 L) (hk : K10 s m6 m L) (hnf : NoFuelOut (exec cfg (n + 1) s .close).2) :
    K10 (exec cfg (n + 1) s .close).1 (fold6 m6 (exec cfg (n + 1) s .close).2) (fold10 m (exec cfg (n + 1) s .close).2) L ∧
    ProtoKeep .close s (exec cfg (n + 1) s .close).1 := by
  have hinv : Inv6 s m6 [] L := hpre
  simp only [exec] at hnf ⊢
  by_cases hc : s.core.closed = true
  · simp only [hc, if_true]
    simp only [fold6_cons, fold6_nil, fold10_cons, fold10_nil, Afkak.Monitor.C06.r06Ob, r10Ob, Afkak.Monitor.C10.r10Ob]
    exact ⟨hk, fun c hc => hc⟩
  · have hc' : s.core.closed = false := by simpa using hc
    simp only [hc', Bool.false_eq_true, if_false] at hnf ⊢
    cases hp : s.core.proto with
    | some conn =>
      simp only [hp] at hnf ⊢
      have hco := hk.connProto (by simp [hp])
      obtain ⟨a, b⟩ := close10_core cfg n ih s m6 m L hinv hk hc' { s.core with closed := true, losing := true, proto := some conn } [.lose conn] false
        rfl rfl rfl (Or.inl hco) (fun _ => hco) (by intro c h; simp only [Option.some.injEq] at h; subst h; exact hk.protoLt _ hp) (Nat.le_refl _)
        (by intro c h; left; rw [hp]; exact h) (by simp [Inert10]) (by simp) (by simp)
        (by intro hm; apply hnf; simp [hm])
      exact ⟨by simpa [obs] using a, fun c hcc => b c (by rw [hp] at hcc; exact hcc)⟩
    | none =>
      simp only [hp] at hnf ⊢
      refine ⟨?_, fun c hcc => by rw [hp] at hcc; cases hcc⟩
      by_cases hst : (s.stubborn && s.core.connector == .attempt) = true
      · simp only [hst, if_true] at hnf ⊢
        obtain ⟨a, _⟩ := close10_core cfg n ih s m6 m L hinv hk hc' { s.core with closed := true, failures := 0, connector := .none, proto := some s.core.nconn, nconn := s.core.nconn + 1, losing := true, rbuf := [] } [.cancelConnect, .lose s.core.nconn] false
          rfl rfl rfl (Or.inl rfl) (fun _ => rfl) (by intro c h; simp only [Option.some.injEq] at h; subst h; simp) (Nat.le_succ _)
          (by intro c h; right; simp only [Option.some.injEq] at h; omega) (by simp [Inert10]) (by simp) (by simp)
          (by intro hm; apply hnf; simp [hm])
        simpa [obs] using a
      · simp only [hst, Bool.false_eq_true, if_false] at hnf ⊢
        cases hco : s.core.connector with
        | none =>
          simp only [hco] at hnf ⊢
          obtain ⟨a, _⟩ := close10_core cfg n ih s m6 m L hinv hk hc' { s.core with closed := true, connector := .none, proto := none } [] true
            rfl rfl rfl (Or.inl rfl) (fun _ => rfl) (by simp) (Nat.le_refl _) (by simp) (by simp) (by simp) (by simp)
            (by intro hm; apply hnf; simp [hm])
          simpa [obs] using a
        | attempt =>
          simp only [hco] at hnf ⊢
          obtain ⟨a, _⟩ := close10_core cfg n ih s m6 m L hinv hk hc' { s.core with closed := true, connector := .stale, proto := none } [.cancelConnect] true
            rfl rfl rfl (Or.inr rfl) (by simp) (by simp) (Nat.le_refl _) (by simp) (by simp [Inert10]) (by simp) (by simp)
            (by intro hm; apply hnf; simp [hm])
          simpa [obs] using a
        | backoff d =>
          simp only [hco] at hnf ⊢
          obtain ⟨a, _⟩ := close10_core cfg n ih s m6 m L hinv hk hc' { s.core with closed := true, connector := .stale, proto := none } [.cancelTimer] true
            rfl rfl rfl (Or.inr rfl) (by simp) (by simp) (Nat.le_refl _) (by simp) (by simp [Inert10]) (by simp) (by simp)
            (by intro hm; apply hnf; simp [hm])
          simpa [obs] using a
        | stale =>
          simp only [hco] at hnf ⊢
          obtain ⟨a, _⟩ := close10_core cfg n ih s m6 m L hinv hk hc' { s.core with closed := true, connector := .stale, proto := none } [] true
            rfl rfl rfl (Or.inr rfl) (by simp) (by simp) (Nat.le_refl _) (by simp) (by simp) (by simp) (by simp)
            (by intro hm; apply hnf; simp [hm])
          simpa [obs] using a


/-- `_sendQueued` writes one request: the table changes, every entry that is still unsent has another serial -/
theorem k10_write {s : StR} {m6 : RM6} {m : RM10} (hk : K10 s m6 m false) (hinv : Inv6 s m6 [] false) (conn : Nat) (rq : Req) (id : Int)
    (hp : s.core.proto = some conn) (hrq : rq ∈ s.core.reqs) (hlive : rq.cancelled = false) (hsent : rq.sent = false) (lost : Bool) (c' : St)
    (hc : c' = { s.core with reqs := c'.reqs })
    (hsub : ∀ r' ∈ c'.reqs, r'.sent = false → ∃ r ∈ s.core.reqs, r.serial = r'.serial ∧ r.sent = false ∧ r.serial ≠ rq.serial) :
    K10 { s with core := c' } m6 (r10Ob m (.ob (if lost then .writeLost conn rq.serial id else .write conn rq.serial id))) false := by
  have e1 : c'.nmake = s.core.nmake := by rw [hc]
  have e2 : c'.closed = s.core.closed := by rw [hc]
  have e3 : c'.connector = s.core.connector := by rw [hc]
  have e4 : c'.proto = s.core.proto := by rw [hc]
  have e5 : c'.nconn = s.core.nconn := by rw [hc]
  have hclosed : s.core.closed = false := by
    cases hcc : s.core.closed
    · rfl
    · have := hinv.closedEmpty hcc rfl; rw [this] at hrq; cases hrq
  have hmc : m.closed = false := by rw [hk.closedEq]; exact hclosed
  have hnf : rq.serial ∉ m.fired := by rw [hk.firedEq]; exact hinv.liveNF rq hrq hlive
  have hform : ∀ o : Ob, (o = .writeLost conn rq.serial id ∨ o = .write conn rq.serial id) → (conn, rq.serial) ∉ m.written →
      (r10Ob m (.ob o)).ok = true ∧ (r10Ob m (.ob o)).fired = m.fired ∧ (r10Ob m (.ob o)).closed = m.closed ∧
      (r10Ob m (.ob o)).written = (conn, rq.serial) :: m.written ∧ (r10Ob m (.ob o)).downs = m.downs := by
    intro o ho hnw
    rcases ho with rfl | rfl <;> simp [r10Ob, Afkak.Monitor.C10.r10Ob, hk.ok, hmc, hnw, hnf]
  have hnw : (conn, rq.serial) ∉ m.written := hk.unsentNW rq hrq hsent conn hp
  obtain ⟨f1, f2, f3, f4, f5⟩ := hform (if lost then .writeLost conn rq.serial id else .write conn rq.serial id) (by split <;> simp) hnw
  generalize r10Ob m (.ob (if lost then .writeLost conn rq.serial id else .write conn rq.serial id)) = M at f1 f2 f3 f4 f5 ⊢
  refine ⟨f1, by rw [f2]; exact hk.firedEq, by rw [f3]; simp only [e2]; exact hk.closedEq, by simp only [e2, e3]; exact hk.connClosed,
    by simp only [e4, e5]; exact hk.protoLt, ?_, ?_, by rw [f5, e2, e4]; exact hk.downs, by simp only [e3, e4]; exact hk.connProto⟩
  · intro w hw
    rw [f4] at hw
    simp only [e1, e5]
    rcases List.mem_cons.mp hw with rfl | hw
    · exact ⟨hk.protoLt _ hp, hinv.lt rq hrq⟩
    · exact hk.wLt w hw
  · intro r' hr' hs c hpc
    simp only [e4] at hpc
    obtain ⟨r, hr, hse, hsn, hne⟩ := hsub r' hr' hs
    rw [f4]
    intro hmem
    rcases List.mem_cons.mp hmem with heq | hmem
    · simp only [Prod.mk.injEq] at heq
      exact hne (by rw [hse]; exact heq.2)
    · rw [← hse] at hmem
      exact hk.unsentNW r hr hsn c hpc hmem

theorem spec10_sendLoop (cfg : Cfg) (n : Nat) (ih : Spec10 cfg n) (s : StR) (conn : Nat) (snap : List Nat) (m6 : RM6) (m : RM10) (L : Bool)
    (hpre : Pre6 (.sendLoop conn snap) s m6 L) (hpre10 : Pre10 (.sendLoop conn snap) s L) (hk : K10 s m6 m L)
    (hnf : NoFuelOut (exec cfg (n + 1) s (.sendLoop conn snap)).2) :
    K10 (exec cfg (n + 1) s (.sendLoop conn snap)).1 (fold6 m6 (exec cfg (n + 1) s (.sendLoop conn snap)).2)
      (fold10 m (exec cfg (n + 1) s (.sendLoop conn snap)).2) L ∧
    ProtoKeep (.sendLoop conn snap) s (exec cfg (n + 1) s (.sendLoop conn snap)).1 := by
  have hinv : Inv6 s m6 [] L := hpre
  obtain ⟨hp, hL⟩ := hpre10
  subst hL
  cases snap with
  | nil => rw [exec_sendLoop_nil]; exact ⟨hk, fun c hc => hc⟩
  | cons k ks =>
    rw [exec_sendLoop_cons] at hnf ⊢
    cases hsel : s.core.reqs.filter (fun r => r.serial == k && !r.sent) with
    | nil =>
      simp only [hsel] at hnf ⊢
      obtain ⟨k2, pk⟩ := ih s (.sendLoop conn ks) m6 m false hinv ⟨hp, rfl⟩ hk hnf
      exact ⟨k2, fun c hc => pk c hc⟩
    | cons rq rest =>
      simp only [hsel] at hnf ⊢
      have hmem : rq ∈ s.core.reqs.filter (fun r => r.serial == k && !r.sent) := by rw [hsel]; simp
      obtain ⟨hrq, hcond⟩ := List.mem_filter.mp hmem
      simp only [Bool.and_eq_true, beq_iff_eq, Bool.not_eq_eq_eq_not, Bool.not_true] at hcond
      obtain ⟨hks, hsent⟩ := hcond
      have hlive : rq.cancelled = false := by
        cases hc : rq.cancelled
        · rfl
        · have := hinv.cancSent rq hrq hc; simp_all
      have jrem := inv6_remove hinv rq hrq
      simp only [hlive, Bool.false_eq_true, if_false, hks] at jrem
      have krem : K10 { s with core := { s.core with reqs := s.core.reqs.filter (fun r => r.serial != k) } } m6 m false := by
        apply k10_retable hk _ rfl
        intro r' hr' hs
        exact ⟨r', (List.mem_filter.mp hr').1, rfl, hs⟩
      by_cases hw : s.core.wfail = true
      · rw [if_pos hw] at hnf ⊢
        obtain ⟨p1, _⟩ := spec6 cfg n _ (.fire k rq.id (.err .writeError)) m6 false ⟨jrem, by simp⟩ hnf.append_left
        obtain ⟨k1, pk1⟩ := ih _ (.fire k rq.id (.err .writeError)) m6 m false ⟨jrem, by simp⟩ trivial krem hnf.append_left
        obtain ⟨k2, pk2⟩ := ih _ (.sendLoop conn ks) _ _ false p1.inv ⟨pk1 conn hp, rfl⟩ k1 hnf.append_right
        rw [fold6_append, fold10_append]
        exact ⟨k2, fun c hc => pk2 c (pk1 c hc)⟩
      · rw [if_neg hw] at hnf ⊢
        have r6w : Afkak.Monitor.C06.r06Ob m6 (ObR.ob (if s.core.losing = true then Ob.writeLost conn k rq.id else Ob.write conn k rq.id)) = m6 := by
          split <;> simp [Afkak.Monitor.C06.r06Ob]
        by_cases he : rq.expect = true
        · rw [if_pos he] at hnf ⊢
          simp only at hnf ⊢
          have jm := inv6_markSent hinv k
          have km : K10 { s with core := { s.core with reqs := s.core.reqs.map (fun r => if r.serial == k then { r with sent := true } else r) } } m6
              (r10Ob m (.ob (if s.core.losing = true then .writeLost conn k rq.id else .write conn k rq.id))) false := by
            have := k10_write hk hinv conn rq rq.id hp hrq hlive hsent s.core.losing
              { s.core with reqs := s.core.reqs.map (fun r => if r.serial == k then { r with sent := true } else r) } rfl
              (by intro r' hr' hs
                  obtain ⟨r, hr, rfl⟩ := List.mem_map.mp hr'
                  by_cases hrk : r.serial = k
                  · simp [hrk] at hs
                  · simp only [beq_iff_eq, hrk, if_false] at hs ⊢
                    exact ⟨r, hr, rfl, hs, by rw [hks]; exact hrk⟩)
            rw [hks] at this
            exact this
          obtain ⟨k2, pk2⟩ := ih _ (.sendLoop conn ks) m6 _ false jm ⟨hp, rfl⟩ km hnf.append_right
          rw [fold6_append, fold10_append]
          simp only [fold6_cons, fold6_nil, fold10_cons, fold10_nil, r6w]
          exact ⟨k2, fun c hc => pk2 c hc⟩
        · rw [if_neg he] at hnf ⊢
          simp only at hnf ⊢
          have km : K10 { s with core := { s.core with reqs := s.core.reqs.filter (fun r => r.serial != k) } } m6
              (r10Ob m (.ob (if s.core.losing = true then .writeLost conn k rq.id else .write conn k rq.id))) false := by
            have := k10_write hk hinv conn rq rq.id hp hrq hlive hsent s.core.losing
              { s.core with reqs := s.core.reqs.filter (fun r => r.serial != k) } rfl
              (by intro r' hr' hs
                  obtain ⟨hr, hne⟩ := List.mem_filter.mp hr'
                  exact ⟨r', hr, rfl, hs, by rw [hks]; simpa using hne⟩)
            rw [hks] at this
            exact this
          obtain ⟨p1, _⟩ := spec6 cfg n _ (.fire k rq.id .none) m6 false ⟨jrem, by simp⟩ (hnf.append_left).cons
          obtain ⟨k1, pk1⟩ := ih _ (.fire k rq.id .none) m6 _ false ⟨jrem, by simp⟩ trivial km (hnf.append_left).cons
          obtain ⟨k2, pk2⟩ := ih _ (.sendLoop conn ks) _ _ false p1.inv ⟨pk1 conn hp, rfl⟩ k1 hnf.append_right
          rw [fold6_append, fold10_append, fold6_cons, fold10_cons, r6w]
          exact ⟨k2, fun c hc => pk2 c (pk1 c hc)⟩


/-- `_connectionLost` while connected -/
theorem k10_lost {s : StR} {m6 : RM6} {m : RM10} (hk : K10 s m6 m false) (conn : Nat) (hp : s.core.proto = some conn) :
    K10 { s with core := (lostStep s.core).1 } m6 (fold10 m (obs (lostStep s.core).2)) false := by
  have hd : m.downs = 0 := by
    rcases hk.downs with h | ⟨_, _, h, _⟩
    · exact h
    · rw [hp] at h; cases h
  have hco := hk.connProto (by simp [hp])
  simp only [lostStep]
  by_cases hc : s.core.closed = true
  · simp only [hc, if_true, obs, List.map_cons, List.map_nil, fold10_cons, fold10_nil]
    have hmc : m.closed = true := by rw [hk.closedEq]; exact hc
    exact ⟨by simp [r10Ob, Afkak.Monitor.C10.r10Ob, hk.ok, hmc, hd], hk.firedEq, by simp [r10Ob, Afkak.Monitor.C10.r10Ob, hmc, hc],
      fun _ => Or.inl hco, by simp, hk.wLt, by simp, Or.inr ⟨by simp [r10Ob, Afkak.Monitor.C10.r10Ob, hd], rfl, rfl, rfl⟩, by simp⟩
  · have hc' : s.core.closed = false := by simpa using hc
    have hmc : m.closed = false := by rw [hk.closedEq]; exact hc'
    simp only [hc', Bool.false_eq_true, if_false]
    split
    · simp only [obs, List.map_nil, fold10_nil]
      exact ⟨hk.ok, hk.firedEq, by simp [hmc], by simp, by simp, hk.wLt, by simp, Or.inl hd, by simp⟩
    · simp only [connect_, tryConnect, obs, List.map_cons, List.map_nil, fold10_cons, fold10_nil]
      exact ⟨by simp [r10Ob, Afkak.Monitor.C10.r10Ob, hk.ok, hmc], hk.firedEq, by simp [r10Ob, Afkak.Monitor.C10.r10Ob, hmc], by simp,
        by simp, hk.wLt, by simp, Or.inl hd, by simp⟩

theorem spec10_frames (cfg : Cfg) (n : Nat) (ih : Spec10 cfg n) (s : StR) (conn : Nat) (fs : List Bytes) (f : Fed) (m6 : RM6) (m : RM10) (L : Bool)
    (hpre : Pre6 (.frames conn fs f) s m6 L) (hpre10 : Pre10 (.frames conn fs f) s L) (hk : K10 s m6 m L)
    (hnf : NoFuelOut (exec cfg (n + 1) s (.frames conn fs f)).2) :
    K10 (exec cfg (n + 1) s (.frames conn fs f)).1 (fold6 m6 (exec cfg (n + 1) s (.frames conn fs f)).2)
      (fold10 m (exec cfg (n + 1) s (.frames conn fs f)).2) L := by
  have hinv : Inv6 s m6 [] L := hpre
  obtain ⟨hp, hL⟩ := hpre10
  subst hL
  cases fs with
  | nil =>
    rw [exec_frames_nil]
    split
    · have := k10_flat_inert hk { s.core with rbuf := f.buf, losing := true } [.lose conn] rfl rfl rfl rfl rfl rfl (by simp [Inert10]) (by simp)
      simpa [obs] using this
    · have := k10_flat_inert hk { s.core with rbuf := f.buf } [] rfl rfl rfl rfl rfl rfl (by simp) (by simp)
      simpa [obs] using this
  | cons b bs =>
    rw [exec_frames_cons] at hnf ⊢
    cases hid : corrId b with
    | none =>
      simp only [hid] at hnf ⊢
      have hru : Afkak.Monitor.C06.r06Ob m6 (.ob .raiseUnderflow) = m6 := by simp [Afkak.Monitor.C06.r06Ob]
      by_cases hsy : s.sync = .none
      · rw [if_pos hsy]
        obtain ⟨_, _, hob⟩ := inv6_lost hinv
        have hf6 : fold6 m6 (ObR.ob Ob.raiseUnderflow :: obs (lostStep s.core).2) = m6 := by
          rw [fold6_cons, hru, fold6_obs_inert m6 _ hob]
        have hf10 : fold10 m (ObR.ob Ob.raiseUnderflow :: obs (lostStep s.core).2) = fold10 m (obs (lostStep s.core).2) := by
          rw [fold10_cons]; rfl
        rw [hf6, hf10]
        exact k10_lost hk conn hp
      · rw [if_neg hsy] at hnf ⊢
        obtain ⟨k2, _⟩ := ih s .lost m6 m false hinv ⟨⟨conn, hp⟩, rfl⟩ hk hnf.cons
        rw [fold6_cons, fold10_cons, hru]
        exact k2
    | some id =>
      simp only [hid] at hnf ⊢
      have j := inv6_filterId hinv id
      have kf : K10 { s with core := { s.core with reqs := s.core.reqs.filter (fun r => r.id != id) } } m6 m false := by
        apply k10_retable hk _ rfl
        intro r' hr' hs
        exact ⟨r', (List.mem_filter.mp hr').1, rfl, hs⟩
      by_cases hany : s.core.reqs.any (fun r => r.id == id) = true
      · rw [if_pos hany] at hnf ⊢
        have hown : ∀ p ∈ liveWith s.core.reqs id, ∀ b', Res.ok b = .ok b' → corrId b' = some p.2 := by
          intro p hp b' hb
          simp only [Res.ok.injEq] at hb; subst hb
          simp only [liveWith, List.mem_map, List.mem_filter, Bool.and_eq_true, beq_iff_eq] at hp
          obtain ⟨r, ⟨_, hi, _⟩, rfl⟩ := hp
          rw [hid, hi]
        obtain ⟨p1, _⟩ := spec6 cfg n _ (.fireAll (liveWith s.core.reqs id) (.ok b)) m6 false ⟨liveWith_len _ hinv.ids id, j, hown⟩ hnf.append_left
        obtain ⟨k1, pk1⟩ := ih _ (.fireAll (liveWith s.core.reqs id) (.ok b)) m6 m false ⟨liveWith_len _ hinv.ids id, j, hown⟩ trivial kf hnf.append_left
        obtain ⟨k2, _⟩ := ih _ (.frames conn bs f) _ _ false p1.inv ⟨pk1 conn hp, rfl⟩ k1 hnf.append_right
        rw [fold6_append, fold10_append]
        exact k2
      · rw [if_neg hany] at hnf ⊢
        have hempty : liveWith s.core.reqs id = [] := by
          simp only [liveWith, List.map_eq_nil_iff, List.filter_eq_nil_iff]
          intro r hr hc
          apply hany
          rw [List.any_eq_true]
          simp only [Bool.and_eq_true] at hc
          exact ⟨r, hr, hc.1⟩
        rw [hempty] at j
        obtain ⟨k2, _⟩ := ih _ (.frames conn bs f) m6 m false j ⟨hp, rfl⟩ kf hnf.append_right
        rw [fold6_append, fold10_append]
        have h6 : fold6 m6 [ObR.ob (Ob.unexpected id)] = m6 := by simp [fold6, Afkak.Monitor.C06.r06Ob]
        have h10 : fold10 m [ObR.ob (Ob.unexpected id)] = m := rfl
        rw [h6, h10]
        exact k2

/-- a flat step that moves only the connector (and clocks); the monitor saw a `connect`, a `setTimer` or nothing -/
theorem k10_connector {s : StR} {m6 : RM6} {m m' : RM10} {L : Bool} (hk : K10 s m6 m L) (c' : St)
    (h1 : c'.reqs = s.core.reqs) (h2 : c'.nmake = s.core.nmake) (h3 : c'.closed = s.core.closed)
    (h5 : c'.proto = s.core.proto) (h6 : c'.nconn = s.core.nconn)
    (hcc : c'.closed = true → c'.connector = .none ∨ c'.connector = .stale) (hcp : c'.proto ≠ none → c'.connector = .none)
    (e1 : m'.ok = true) (e2 : m'.fired = m.fired) (e3 : m'.closed = m.closed) (e4 : m'.written = m.written) (e5 : m'.downs = m.downs) :
    K10 { s with core := c' } m6 m' L :=
  ⟨e1, by rw [e2]; exact hk.firedEq, by rw [e3]; simp only [h3]; exact hk.closedEq, hcc, by simp only [h5, h6]; exact hk.protoLt,
   by rw [e4]; simp only [h2, h6]; exact hk.wLt, by rw [e4]; simp only [h1, h5]; exact hk.unsentNW,
   by rw [e5]; simp only [h3, h5]; exact hk.downs, hcp⟩

/-- the monitor saw a `connect` or a `setTimer` while the client is not closed -/
theorem k10_dialOb {s : StR} {m6 : RM6} {m : RM10} {L : Bool} (hk : K10 s m6 m L) (hcl : s.core.closed = false) (o : Ob)
    (ho : (∃ a b, o = .connect a b) ∨ ∃ d, o = .setTimer d) : K10 s m6 (r10Ob m (.ob o)) L := by
  have hmc : m.closed = false := by rw [hk.closedEq]; exact hcl
  rcases ho with ⟨a, b, rfl⟩ | ⟨d, rfl⟩ <;>
    exact ⟨by simp [r10Ob, Afkak.Monitor.C10.r10Ob, hk.ok, hmc], hk.firedEq, hk.closedEq, hk.connClosed, hk.protoLt, hk.wLt,
      hk.unsentNW, hk.downs, hk.connProto⟩

/-- `cbConnect`: the connection is up (nothing written yet) -/
theorem k10_established {s : StR} {m6 : RM6} {m : RM10} {L : Bool} (hk : K10 s m6 m L) (hcl : s.core.closed = false)
    (hooks' : List (Nat × Hook)) (st : Bool) (sy : Sync) :
    K10 { core := established s.core, hooks := hooks', stubborn := st, sync := sy } m6 m L := by
  have hd : m.downs = 0 := by
    rcases hk.downs with x | ⟨_, x, _⟩
    · exact x
    · simp_all
  refine ⟨hk.ok, hk.firedEq, hk.closedEq, by simp [established], by simp [established], ?_, ?_, Or.inl hd, by simp [established]⟩
  · intro w hw; have := hk.wLt w hw; simp only [established]; omega
  · intro r hr hs c hpc hw
    simp only [established, Option.some.injEq] at hpc
    have := (hk.wLt _ hw).1
    simp only at this; omega

theorem spec10_dial (cfg : Cfg) (n : Nat) (ih : Spec10 cfg n) (s : StR) (m6 : RM6) (m : RM10) (L : Bool)
    (hpre : Pre6 .dial s m6 L) (hpre10 : Pre10 .dial s L) (hk : K10 s m6 m L) (hnf : NoFuelOut (exec cfg (n + 1) s .dial).2) :
    K10 (exec cfg (n + 1) s .dial).1 (fold6 m6 (exec cfg (n + 1) s .dial).2) (fold10 m (exec cfg (n + 1) s .dial).2) L := by
  have hinv : Inv6 s m6 [] L := hpre
  obtain ⟨hp, hL⟩ := hpre10
  subst hL
  have r6c : ∀ a b, Afkak.Monitor.C06.r06Ob m6 (.ob (.connect a b)) = m6 := by intro a b; simp [Afkak.Monitor.C06.r06Ob]
  have r6t : ∀ d, Afkak.Monitor.C06.r06Ob m6 (.ob (.setTimer d)) = m6 := by intro d; simp [Afkak.Monitor.C06.r06Ob]
  simp only [exec] at hnf ⊢
  split
  · simp only [fold6_cons, fold6_nil, fold10_cons, fold10_nil, Afkak.Monitor.C06.r06Ob, r10Ob, Afkak.Monitor.C10.r10Ob]
    exact hk
  · rename_i hc
    have hcl : s.core.closed = false := by simpa using hc
    have k1 := k10_dialOb hk hcl (.connect s.core.host s.core.port) (Or.inl ⟨_, _, rfl⟩)
    split
    · simp only [fold6_cons, fold6_nil, fold10_cons, fold10_nil, r6c]
      exact k10_connector k1 _ rfl rfl rfl rfl rfl (by simp [hcl]) (by simp [hp]) k1.ok rfl rfl rfl rfl
    · have k2 := k10_dialOb k1 hcl (.setTimer (cfg.policy (s.core.failures + 1))) (Or.inr ⟨_, rfl⟩)
      simp only [fold6_cons, fold6_nil, fold10_cons, fold10_nil, r6c, r6t]
      exact k10_connector k2 _ rfl rfl rfl rfl rfl (by simp [hcl]) (by simp [hp]) k2.ok rfl rfl rfl rfl
    · rename_i hsy
      rw [if_neg hc] at hnf
      simp only [hsy] at hnf ⊢
      have j := inv6_core hinv (established s.core) rfl rfl rfl s.hooks s.stubborn Sync.ok
      have kk := k10_established k1 hcl s.hooks s.stubborn Sync.ok
      obtain ⟨k3, _⟩ := ih _ (.sendLoop s.core.nconn (s.core.reqs.map (·.serial))) m6 _ false j ⟨rfl, rfl⟩ kk hnf.cons
      rw [fold6_cons, fold10_cons, r6c]
      exact k3

theorem spec10_lost (cfg : Cfg) (n : Nat) (ih : Spec10 cfg n) (s : StR) (m6 : RM6) (m : RM10) (L : Bool)
    (hpre : Pre6 .lost s m6 L) (hpre10 : Pre10 .lost s L) (hk : K10 s m6 m L) (hnf : NoFuelOut (exec cfg (n + 1) s .lost).2) :
    K10 (exec cfg (n + 1) s .lost).1 (fold6 m6 (exec cfg (n + 1) s .lost).2) (fold10 m (exec cfg (n + 1) s .lost).2) L := by
  have hinv : Inv6 s m6 [] L := hpre
  obtain ⟨⟨conn, hp⟩, hL⟩ := hpre10
  subst hL
  have hd : m.downs = 0 := by
    rcases hk.downs with h | ⟨_, _, h, _⟩
    · exact h
    · rw [hp] at h; cases h
  have hco := hk.connProto (by simp [hp])
  simp only [exec] at hnf ⊢
  split
  · rename_i hc
    have hmc : m.closed = true := by rw [hk.closedEq]; exact hc
    simp only [fold6_cons, fold6_nil, fold10_cons, fold10_nil]
    have h6 : Afkak.Monitor.C06.r06Ob m6 (.ob .down) = m6 := by simp [Afkak.Monitor.C06.r06Ob]
    rw [h6]
    exact ⟨by simp [r10Ob, Afkak.Monitor.C10.r10Ob, hk.ok, hmc, hd], hk.firedEq, by simp [r10Ob, Afkak.Monitor.C10.r10Ob, hmc, hc],
      fun _ => Or.inl hco, by simp, hk.wLt, by simp, Or.inr ⟨by simp [r10Ob, Afkak.Monitor.C10.r10Ob, hd], hc, rfl, rfl⟩, by simp⟩
  · rename_i hc
    have hcl : s.core.closed = false := by simpa using hc
    have base : ∀ c' : St, c'.closed = s.core.closed → c'.proto = none → c'.nconn = s.core.nconn → c'.nmake = s.core.nmake →
        K10 { s with core := c' } m6 m false := by
      intro c' h1 h2 h3 h4
      exact ⟨hk.ok, hk.firedEq, by rw [hk.closedEq, h1], by simp [h1, hcl], by simp [h2], by simp only [h3, h4]; exact hk.wLt, by simp [h2],
        Or.inl hd, by simp [h2]⟩
    split
    · simp only [fold6_nil, fold10_nil]
      exact base _ (by rfl) (by rfl) (by rfl) (by rfl)
    · rename_i he
      rw [if_neg hc, if_neg he] at hnf
      obtain ⟨k2, _⟩ := ih _ .dial m6 m false (inv6_lostTable hinv _ (by rfl) (by rfl) (by rfl)) ⟨rfl, rfl⟩ (base _ (by rfl) (by rfl) (by rfl) (by rfl)) hnf
      exact k2

theorem spec10_makeS (cfg : Cfg) (n : Nat) (ih : Spec10 cfg n) (s : StR) (id : Int) (ex : Bool) (hk0 : Option Hook) (m6 : RM6) (m : RM10) (L : Bool)
    (hpre : Pre6 (.makeS id ex hk0) s m6 L) (hk : K10 s m6 m L) (hnf : NoFuelOut (exec cfg (n + 1) s (.makeS id ex hk0)).2) :
    K10 (exec cfg (n + 1) s (.makeS id ex hk0)).1 (fold6 m6 (exec cfg (n + 1) s (.makeS id ex hk0)).2)
      (fold10 m (exec cfg (n + 1) s (.makeS id ex hk0)).2) L ∧
    ProtoKeep (.makeS id ex hk0) s (exec cfg (n + 1) s (.makeS id ex hk0)).1 := by
  have hinv : Inv6 s m6 [] L := hpre
  have r6c : ∀ a b, Afkak.Monitor.C06.r06Ob m6 (.ob (.connect a b)) = m6 := by intro a b; simp [Afkak.Monitor.C06.r06Ob]
  simp only [exec] at hnf ⊢
  split
  · rename_i hcond
    rw [if_pos hcond] at hnf
    simp only [Bool.and_eq_true, Bool.not_eq_eq_eq_not, Bool.not_true, bne_iff_ne, ne_eq, Option.isNone_iff_eq_none] at hcond
    obtain ⟨⟨⟨⟨_, hcl⟩, hp⟩, _⟩, hd⟩ := hcond
    have k1 := k10_dialOb hk hcl (.connect s.core.host s.core.port) (Or.inl ⟨_, _, rfl⟩)
    refine ⟨?_, fun c hcc => by rw [hp] at hcc; cases hcc⟩
    split
    · rename_i hsy
      simp only [hsy] at hnf ⊢
      have j := inv6_core hinv (established s.core) rfl rfl rfl s.hooks s.stubborn Sync.ok
      have kk := k10_established k1 hcl s.hooks s.stubborn Sync.ok
      obtain ⟨k3, _⟩ := ih _ (.make id ex hk0) m6 _ L j trivial kk hnf.cons
      rw [fold6_cons, fold10_cons, r6c]
      exact k3
    · have k2 := k10_dialOb k1 hcl (.setTimer (cfg.policy 1)) (Or.inr ⟨_, rfl⟩)
      have hf6 : fold6 m6 [ObR.ob (Ob.connect s.core.host s.core.port), ObR.ob (Ob.setTimer (cfg.policy 1)), ObR.made s.core.nmake id]
          = Afkak.Monitor.C06.r06Ob m6 (.made s.core.nmake id) := by simp [fold6, Afkak.Monitor.C06.r06Ob]
      have hf10 : fold10 m [ObR.ob (Ob.connect s.core.host s.core.port), ObR.ob (Ob.setTimer (cfg.policy 1)), ObR.made s.core.nmake id]
          = r10Ob (r10Ob m (.ob (.connect s.core.host s.core.port))) (.ob (.setTimer (cfg.policy 1))) := by
        simp [fold10, r10_made]
      have r6made : (Afkak.Monitor.C06.r06Ob m6 (.made s.core.nmake id)).fired = m6.fired := by
        simp only [Afkak.Monitor.C06.r06Ob]
      rw [hf6, hf10]
      exact k10_make_nowrite k2 _ (by rfl) (by simp [hcl]) (by simp [hp]) (by rfl) (Or.inr ⟨hcl, hp⟩) (fun r hr _ => Or.inr hp) r6made
        rfl rfl rfl rfl k2.ok _ _ _
  · rename_i hcond
    rw [if_neg hcond] at hnf
    exact ih s (.make id ex hk0) m6 m L hinv trivial hk hnf

/-- the coupling holds at every amount of fuel -/
theorem spec10 (cfg : Cfg) : ∀ n, Spec10 cfg n := by
  intro n
  induction n with
  | zero => exact spec10_zero cfg
  | succ n ih =>
    intro s task m6 m L hpre hpre10 hk hnf
    cases task with
    | fire k id r => exact spec10_fire cfg n ih s k id r m6 m L hpre hk hnf
    | fireAll l r => exact spec10_fireAll cfg n ih s l r m6 m L hpre hk hnf
    | acts h => exact spec10_acts cfg n ih s h m6 m L hpre hk hnf
    | act a => exact spec10_act cfg n ih s a m6 m L hpre hk hnf
    | make id ex h => exact spec10_make cfg n ih s id ex h m6 m L hpre hk hnf
    | cancel id => exact spec10_cancel cfg n ih s id m6 m L hpre hk hnf
    | close => exact spec10_close cfg n ih s m6 m L hpre hk hnf
    | closeLoop => exact spec10_closeLoop cfg n ih s m6 m L hpre hk hnf
    | sendLoop c snap => exact spec10_sendLoop cfg n ih s c snap m6 m L hpre hpre10 hk hnf
    | frames c fs f => exact ⟨spec10_frames cfg n ih s c fs f m6 m L hpre hpre10 hk hnf, trivial⟩
    | makeS id ex h => exact spec10_makeS cfg n ih s id ex h m6 m L hpre hk hnf
    | lost => exact ⟨spec10_lost cfg n ih s m6 m L hpre hpre10 hk hnf, trivial⟩
    | dial => exact ⟨spec10_dial cfg n ih s m6 m L hpre hpre10 hk hnf, trivial⟩


theorem k10_flat_other (cfg : Cfg) (s : StR) (m6 : RM6) (m : RM10) (h : Inv6 s m6 [] false) (hk : K10 s m6 m false) (e : Ev)
    (he : (∀ i x, e ≠ .make i x) ∧ (∀ i, e ≠ .cancel i) ∧ e ≠ .close ∧ e ≠ .connOk ∧ (∀ c, e ≠ .bytesIn c)) :
    K10 { s with core := (step cfg s.core e).1 } (fold6 m6 (obs (step cfg s.core e).2)) (fold10 m (obs (step cfg s.core e).2)) false := by
  obtain ⟨h1, h2, h3, h4, h5⟩ := he
  have hnotclosed : s.core.connector ≠ .none → s.core.connector ≠ .stale → s.core.closed = false := by
    intro a b
    cases hc : s.core.closed
    · rfl
    · rcases hk.connClosed hc with x | x <;> simp_all
  have hnoproto : s.core.connector ≠ .none → s.core.proto = none := by
    intro a
    cases hp : s.core.proto
    · rfl
    · exact absurd (hk.connProto (by simp [hp])) a
  cases e with
  | make i x => exact absurd rfl (h1 i x)
  | cancel i => exact absurd rfl (h2 i)
  | close => exact absurd rfl h3
  | connOk => exact absurd rfl h4
  | bytesIn c => exact absurd rfl (h5 c)
  | connFail =>
    simp only [step]
    by_cases hatt : s.core.connector = .attempt
    · have hcl := hnotclosed (by simp [hatt]) (by simp [hatt])
      have hpn := hnoproto (by simp [hatt])
      have hmc : m.closed = false := by rw [hk.closedEq]; exact hcl
      rw [if_pos hatt, if_neg (by simp [hcl])]
      have h6 : fold6 m6 (obs [Ob.setTimer (cfg.policy (s.core.failures + 1))]) = m6 := fold6_obs_inert _ _ (by simp)
      rw [h6]
      exact k10_connector hk _ rfl rfl rfl rfl rfl (by simp [hcl]) (by simp [hpn])
        (by simp [fold10, obs, r10Ob, Afkak.Monitor.C10.r10Ob, hk.ok, hmc]) rfl rfl rfl rfl
    · simp only [hatt, if_false]
      exact k10_flat_inert hk _ _ rfl rfl rfl rfl rfl rfl (by simp [Inert10]) (by simp)
  | advance dt =>
    simp only [step, tryConnect]
    split
    · exact k10_flat_inert hk _ _ rfl rfl rfl rfl rfl rfl (by simp [Inert10]) (by simp)
    · split
      · rename_i due hco
        have hcl := hnotclosed (by simp [hco]) (by simp [hco])
        have hpn := hnoproto (by simp [hco])
        have hmc : m.closed = false := by rw [hk.closedEq]; exact hcl
        split
        · have h6 : fold6 m6 (obs [Ob.connect s.core.host s.core.port]) = m6 := fold6_obs_inert _ _ (by simp)
          rw [h6]
          exact k10_connector hk _ rfl rfl rfl rfl rfl (by simp [hcl]) (by simp [hpn])
            (by simp [fold10, obs, r10Ob, Afkak.Monitor.C10.r10Ob, hk.ok, hmc]) rfl rfl rfl rfl
        · exact k10_flat_inert hk _ _ rfl rfl rfl rfl rfl rfl (by simp) (by simp)
      · exact k10_flat_inert hk _ _ rfl rfl rfl rfl rfl rfl (by simp) (by simp)
  | lost =>
    simp only [step]
    split
    · exact k10_flat_inert hk _ _ rfl rfl rfl rfl rfl rfl (by simp [Inert10]) (by simp)
    · rename_i c hp
      obtain ⟨_, _, hob⟩ := inv6_lost h
      rw [fold6_obs_inert m6 _ hob]
      exact k10_lost hk c hp
  | disconnect =>
    simp only [step]
    split
    · exact k10_flat_inert hk _ _ rfl rfl rfl rfl rfl rfl (by simp [Inert10]) (by simp)
    · exact k10_flat_inert hk _ _ rfl rfl rfl rfl rfl rfl (by simp) (by simp)
  | updateMetadata a b => exact k10_flat_inert hk _ _ rfl rfl rfl rfl rfl rfl (by simp [step]) (by simp [step])
  | writeFail b => exact k10_flat_inert hk _ _ rfl rfl rfl rfl rfl rfl (by simp [step]) (by simp [step])

/-- one top-level step -/
theorem k10_step (cfg : Cfg) (fuel : Nat) (s : StR) (m6 : RM6) (m : RM10) (h : Inv6 s m6 [] false) (hk : K10 s m6 m false) (e : EvR)
    (hnf : NoFuelOut (stepRWith cfg fuel s e).2) :
    K10 (stepRWith cfg fuel s e).1 (fold6 m6 (stepRWith cfg fuel s e).2) (fold10 m (stepRWith cfg fuel s e).2) false := by
  cases e with
  | make id ex hk0 =>
    simp only [stepRWith] at hnf ⊢
    split
    · rename_i hsy; rw [if_pos hsy] at hnf; exact (spec10 cfg fuel s (.make id ex hk0) m6 m false h trivial hk hnf).1
    · rename_i hsy; rw [if_neg hsy] at hnf; exact (spec10 cfg fuel s (.makeS id ex hk0) m6 m false h trivial hk hnf).1
  | stubborn on =>
    simp only [stepRWith, fold6_nil, fold10_nil]
    exact k10_core hk s.core rfl rfl rfl rfl rfl rfl _ _ _
  | syncMode sm =>
    simp only [stepRWith, fold6_nil, fold10_nil]
    exact k10_core hk s.core rfl rfl rfl rfl rfl rfl _ _ _
  | cancelMode ck =>
    simp only [stepRWith, fold6_nil, fold10_nil]
    exact hk
  | flat e =>
    cases e with
    | make id ex =>
      simp only [stepRWith] at hnf ⊢
      split
      · rename_i hsy; rw [if_pos hsy] at hnf; exact (spec10 cfg fuel s (.make id ex none) m6 m false h trivial hk hnf).1
      · rename_i hsy; rw [if_neg hsy] at hnf; exact (spec10 cfg fuel s (.makeS id ex none) m6 m false h trivial hk hnf).1
    | cancel id => exact (spec10 cfg fuel s (.cancel id) m6 m false h trivial hk hnf).1
    | close => exact (spec10 cfg fuel s .close m6 m false h trivial hk hnf).1
    | connOk =>
      simp only [stepRWith] at hnf ⊢
      by_cases hatt : s.core.connector = .attempt
      · rw [if_pos hatt] at hnf ⊢
        have hcl : s.core.closed = false := by
          cases hc : s.core.closed
          · rfl
          · rcases hk.connClosed hc with x | x <;> simp_all
        have hpn : s.core.proto = none := by
          cases hp : s.core.proto
          · rfl
          · have := hk.connProto (by simp [hp]); simp_all
        have hd : m.downs = 0 := by
          rcases hk.downs with x | ⟨_, x, _⟩
          · exact x
          · simp_all
        rw [if_neg (by simp [hcl])] at hnf ⊢
        have j : Inv6 { s with core := { s.core with failures := 0, connector := .none, proto := some s.core.nconn, nconn := s.core.nconn + 1, losing := false, rbuf := [] } } m6 [] false :=
          inv6_core h { s.core with failures := 0, connector := .none, proto := some s.core.nconn, nconn := s.core.nconn + 1, losing := false, rbuf := [] } rfl rfl rfl _ _ _
        have kk : K10 { s with core := { s.core with failures := 0, connector := .none, proto := some s.core.nconn, nconn := s.core.nconn + 1, losing := false, rbuf := [] } } m6 m false := by
          refine ⟨hk.ok, hk.firedEq, hk.closedEq, by simp, by simp, ?_, ?_, Or.inl hd, by simp⟩
          · intro w hw; have := hk.wLt w hw; simp only; omega
          · intro r hr hs c hpc hw
            simp only [Option.some.injEq] at hpc
            have := (hk.wLt _ hw).1
            simp only at this; omega
        exact (spec10 cfg fuel _ (.sendLoop s.core.nconn (s.core.reqs.map (·.serial))) m6 m false j ⟨rfl, rfl⟩ kk hnf).1
      · rw [if_neg hatt]
        simp only [fold6_cons, fold6_nil, fold10_cons, fold10_nil, Afkak.Monitor.C06.r06Ob, r10Ob, Afkak.Monitor.C10.r10Ob]
        exact hk
    | bytesIn chunk =>
      simp only [stepRWith] at hnf ⊢
      split
      · simp only [fold6_cons, fold6_nil, fold10_cons, fold10_nil, Afkak.Monitor.C06.r06Ob, r10Ob, Afkak.Monitor.C10.r10Ob]
        exact hk
      · split
        · simp only [fold6_cons, fold6_nil, fold10_cons, fold10_nil, Afkak.Monitor.C06.r06Ob, r10Ob, Afkak.Monitor.C10.r10Ob]
          exact hk
        · rename_i c hp hl
          exact (spec10 cfg fuel s (.frames c (feed s.core.rbuf chunk).frames (feed s.core.rbuf chunk)) m6 m false h ⟨hp, rfl⟩ hk (by simpa [hp, hl] using hnf)).1
    | connFail => exact k10_flat_other cfg s m6 m h hk .connFail (by simp)
    | advance dt =>
      simp only [stepRWith] at hnf ⊢
      split
      · exact k10_flat_other cfg s m6 m h hk (.advance dt) (by simp)
      · rename_i hsy
        rw [if_neg hsy] at hnf
        split
        · simp only [fold6_cons, fold6_nil, fold10_cons, fold10_nil, Afkak.Monitor.C06.r06Ob, r10Ob, Afkak.Monitor.C10.r10Ob]
          exact hk
        · rename_i hdt
          rw [if_neg hdt] at hnf
          split
          · rename_i due hco
            simp only [hco] at hnf
            have hpn : s.core.proto = none := by
              cases hp : s.core.proto
              · rfl
              · have := hk.connProto (by simp [hp]); simp_all
            split
            · rename_i hdue
              rw [if_pos hdue] at hnf
              obtain ⟨k2, _⟩ := spec10 cfg fuel _ .dial m6 m false (inv6_core h _ (by rfl) (by rfl) (by rfl) _ _ _) ⟨by exact hpn, rfl⟩
                (k10_core hk _ (by rfl) (by rfl) (by rfl) (by simp only [hco]) (by rfl) (by rfl) _ _ _) hnf
              rw [← hco] at k2
              exact k2
            · simp only [fold6_nil, fold10_nil]
              exact k10_core hk _ (by rfl) (by rfl) (by rfl) (by rfl) (by rfl) (by rfl) _ _ _
          · simp only [fold6_nil, fold10_nil]
            exact k10_core hk _ (by rfl) (by rfl) (by rfl) (by rfl) (by rfl) (by rfl) _ _ _
    | lost =>
      simp only [stepRWith] at hnf ⊢
      split
      · exact k10_flat_other cfg s m6 m h hk .lost (by simp)
      · rename_i hsy
        rw [if_neg hsy] at hnf
        split
        · simp only [fold6_cons, fold6_nil, fold10_cons, fold10_nil, Afkak.Monitor.C06.r06Ob, r10Ob, Afkak.Monitor.C10.r10Ob]
          exact hk
        · rename_i c hp
          simp only [hp] at hnf
          exact (spec10 cfg fuel s .lost m6 m false h ⟨⟨c, hp⟩, rfl⟩ hk hnf).1
    | disconnect => exact k10_flat_other cfg s m6 m h hk .disconnect (by simp)
    | updateMetadata a b => exact k10_flat_other cfg s m6 m h hk (.updateMetadata a b) (by simp)
    | writeFail b => exact k10_flat_other cfg s m6 m h hk (.writeFail b) (by simp)

/-- between two top-level steps -/
structure Top10 (s : StR) (m6 : RM6) (m : RM10) : Prop where
  top6 : Top6 s m6
  k : K10 s m6 m false

theorem top10_init (host port : Nat) : Top10 (StR.init host port) Afkak.Monitor.C06.RM.init Afkak.Monitor.C10.RM.init := by
  refine ⟨top6_init host port, ?_⟩
  constructor <;> simp [StR.init, St.init, Afkak.Monitor.C06.RM.init, Afkak.Monitor.C10.RM.init]

theorem r06End_fired (m : RM6) : (Afkak.Monitor.C06.r06End m).fired = m.fired := by
  simp only [Afkak.Monitor.C06.r06End]; split <;> rfl

theorem top10_step (cfg : Cfg) (fuel : Nat) (s : StR) (m6 : RM6) (m : RM10) (h : Top10 s m6 m) (e : EvR)
    (hnf : NoFuelOut (stepRWith cfg fuel s e).2) :
    (fold10 m (stepRWith cfg fuel s e).2).ok = true ∧
    Top10 (stepRWith cfg fuel s e).1 (Afkak.Monitor.C06.r06End (fold6 m6 (stepRWith cfg fuel s e).2)) (fold10 m (stepRWith cfg fuel s e).2) := by
  obtain ⟨_, t6⟩ := top6_step cfg fuel s m6 h.top6 e hnf
  have kk := k10_step cfg fuel s m6 m h.top6.inv h.k e hnf
  exact ⟨kk.ok, t6, k10_mon6 kk (r06End_fired _)⟩

/-- C10 under re-entrant callbacks, for every run in which the fuel suffices -/
theorem r10_trace (cfg : Cfg) (fuel : Nat) (evs : List EvR) : ∀ (s : StR) (m6 : RM6) (m : RM10) (n : Nat), Top10 s m6 m →
    (∀ t ∈ traceRWith cfg fuel s evs, NoFuelOut t.2) → Afkak.Monitor.C10.r10FirstBad m n (traceRWith cfg fuel s evs) = none := by
  induction evs with
  | nil => intro s m6 m n _ _; rfl
  | cons e es ih =>
    intro s m6 m n h hnf
    simp only [traceRWith, Afkak.Monitor.C10.r10FirstBad]
    have hnf1 : NoFuelOut (stepRWith cfg fuel s e).2 := hnf (e, (stepRWith cfg fuel s e).2) (by simp [traceRWith])
    obtain ⟨hok, htop⟩ := top10_step cfg fuel s m6 m h e hnf1
    have hfold : (stepRWith cfg fuel s e).2.foldl Afkak.Monitor.C10.r10Ob m = fold10 m (stepRWith cfg fuel s e).2 := rfl
    rw [hfold]
    simp only [hok, if_true]
    exact ih _ _ _ (n + 1) htop (fun t ht => hnf t (by simp [traceRWith, ht]))

end Afkak.BrokerClientR
