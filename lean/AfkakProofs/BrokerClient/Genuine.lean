import Afkak.Monitor.C06
import AfkakProofs.BrokerClient.Frame
/-!
# Every packet delivered is a frame of the byte stream — also after `lengthLimitExceeded`

`dataReceived` as written (`feedWith`: when the limit is exceeded the WHOLE of `alldata` stays in `_unprocessed`),
called for every chunk whatever the transport did: `_unprocessed` is always a continuation of the stream from a frame
boundary (`Cont`), so what is delivered is always a frame of the stream parsed from its start.
-/
namespace Afkak.Frame
open Afkak.Consts Afkak.Monitor.C06

/-- parsing `stream` (and whatever follows) is: the packets `D`, then parsing `buf` (and what follows) -/
def Cont (M : Nat) (stream buf : Bytes) (D : List Bytes) : Prop :=
  ∀ more : Bytes, (parse M (stream ++ more)).frames = D ++ (parse M (buf ++ more)).frames

theorem cont_init (M : Nat) : Cont M [] [] [] := fun _ => by simp

theorem cont_step (M : Nat) (stream buf chunk : Bytes) (D : List Bytes) (h : Cont M stream buf D) :
    (∀ p ∈ (feedWith M buf chunk).frames, p ∈ (parse M (stream ++ chunk)).frames) ∧
    ∃ D', Cont M (stream ++ chunk) (feedWith M buf chunk).buf D' := by
  have h0 := h chunk
  rw [feedWith_eq_parse]
  refine ⟨fun p hp => ?_, ?_⟩
  · rw [h0]; exact List.mem_append_right _ hp
  · by_cases he : (parse M (buf ++ chunk)).exceeded = true
    · refine ⟨D, fun more => ?_⟩
      simp only [he, if_true]
      have := h (chunk ++ more)
      simpa [List.append_assoc] using this
    · have he' : (parse M (buf ++ chunk)).exceeded = false := by simpa using he
      refine ⟨D ++ (parse M (buf ++ chunk)).frames, fun more => ?_⟩
      simp only [he', Bool.false_eq_true, if_false]
      have h1 := h (chunk ++ more)
      have hap := parse_append M (buf ++ chunk).length (buf ++ chunk) more (Nat.le_refl _)
      simp only [he', Bool.false_eq_true, if_false] at hap
      rw [List.append_assoc, h1, ← List.append_assoc buf, hap, List.append_assoc]

theorem parse_eq_feed (data : Bytes) : (parse kafkaMaxLength data).frames = (feed [] data).frames := by
  simp [feed, feedWith_eq_parse]

/-- the model's chunk-by-chunk trace, from any continuation state, is accepted by `framesGenuine` -/
theorem feedTrace_genuine (chunks : List Bytes) : ∀ (stream buf : Bytes) (D : List Bytes), Cont kafkaMaxLength stream buf D →
    framesGenuine stream (feedTrace buf chunks) = true := by
  induction chunks with
  | nil => intro _ _ _ _; rfl
  | cons c cs ih =>
    intro stream buf D h
    obtain ⟨h1, D', h2⟩ := cont_step kafkaMaxLength stream buf c D h
    simp only [feedTrace, framesGenuine, Bool.and_eq_true, List.all_eq_true, List.contains_iff_mem]
    refine ⟨fun p hp => ?_, ih _ _ D' h2⟩
    rw [← parse_eq_feed]
    exact h1 p hp

end Afkak.Frame
