import AfkakProofs.BrokerClient.Rechunk
import AfkakProofs.BrokerClient.BytesConn
import AfkakProofs.BrokerClient.Answered
/-!
# A dead receive buffer is invisible for ever; so is the chunking of a byte string (flat model)
-/
namespace Afkak.BrokerClient
open Afkak.Frame Afkak.Consts

/-- on a client that is not reading, the content of the receive buffer changes nothing: same observations, and the
    same next state — with the same dead buffer carried along, or with the buffer reset -/
theorem step_rbuf_dead (cfg : Cfg) (s : St) (x : Bytes) (e : Ev) (hd : Deaf s) :
    (step cfg { s with rbuf := x } e).2 = (step cfg s e).2 ∧
    ((step cfg { s with rbuf := x } e).1 = { (step cfg s e).1 with rbuf := x } ∨
     (step cfg { s with rbuf := x } e).1 = (step cfg s e).1) := by
  cases e with
  | bytesIn chunk =>
    rcases hd with hd | hd
    · simp [step, hd]
    · cases hp : s.proto <;> simp [step, hd, hp]
  | lost =>
    by_cases hp : ∃ c, s.proto = some c
    · obtain ⟨c, hp⟩ := hp
      have := lost_ignores_rbuf cfg s c x hp
      exact ⟨by rw [this], Or.inr (by rw [this])⟩
    · have hn : s.proto = none := by
        cases h : s.proto with
        | none => rfl
        | some c => exact absurd ⟨c, h⟩ hp
      simp [step, hn]
  | connOk =>
    simp only [step]
    split
    · split
      · exact ⟨rfl, Or.inr rfl⟩
      · exact ⟨rfl, Or.inr rfl⟩
    · exact ⟨rfl, Or.inl rfl⟩
  | make id ex =>
    simp only [step]
    split
    · exact ⟨rfl, Or.inl rfl⟩
    · split
      · exact ⟨rfl, Or.inl rfl⟩
      · split
        · exact ⟨rfl, Or.inl rfl⟩
        · simp only [connect_, tryConnect]
          split <;> exact ⟨rfl, Or.inl rfl⟩
  | cancel id =>
    simp only [step]
    split <;> exact ⟨rfl, Or.inl rfl⟩
  | connFail =>
    simp only [step]
    split
    · split <;> exact ⟨rfl, Or.inl rfl⟩
    · exact ⟨rfl, Or.inl rfl⟩
  | advance dt =>
    simp only [step, tryConnect]
    split
    · exact ⟨rfl, Or.inl rfl⟩
    · split
      · split <;> exact ⟨rfl, Or.inl rfl⟩
      · exact ⟨rfl, Or.inl rfl⟩
  | close =>
    simp only [step]
    split
    · exact ⟨rfl, Or.inl rfl⟩
    · split
      · exact ⟨rfl, Or.inl rfl⟩
      · split <;> exact ⟨rfl, Or.inl rfl⟩
  | disconnect =>
    simp only [step]
    split <;> exact ⟨rfl, Or.inl rfl⟩
  | updateMetadata a b => exact ⟨rfl, Or.inl rfl⟩
  | writeFail b => exact ⟨rfl, Or.inl rfl⟩

theorem deaf_rbuf (s : St) (x : Bytes) (h : Deaf s) : Deaf { s with rbuf := x } := h

/-- every event respects `Eqv`: two states that differ only in a dead receive buffer are indistinguishable for ever -/
theorem eqv_step (cfg : Cfg) {a b : St} (h : Eqv a b) (e : Ev) :
    (step cfg a e).2 = (step cfg b e).2 ∧ Eqv (step cfg a e).1 (step cfg b e).1 := by
  by_cases hr : a.proto.isSome = true ∧ a.losing = false
  · have := eq_of_eqv_readable h hr.1 hr.2
    subst this
    exact ⟨rfl, eqv_refl _⟩
  · obtain ⟨p1, l1⟩ := eqv_fields h
    have hdb : Deaf b := by
      cases hp : b.proto with
      | none => exact Or.inl hp
      | some c =>
        right
        cases hl : b.losing with
        | true => rfl
        | false => exact absurd ⟨by rw [p1, hp]; rfl, by rw [l1]; exact hl⟩ hr
    have hab : a = { b with rbuf := a.rbuf } := by
      have h1 := h.1
      cases a; cases b
      simp only [St.mk.injEq] at h1 ⊢
      simp_all
    obtain ⟨k1, k2⟩ := step_rbuf_dead cfg b a.rbuf e hdb
    rw [← hab] at k1 k2
    refine ⟨k1, ?_⟩
    have k3 : ((step cfg a e).1 = { (step cfg b e).1 with rbuf := a.rbuf } ∧ Deaf (step cfg b e).1) ∨
        (step cfg a e).1 = (step cfg b e).1 := by
      by_cases hc : e = .connOk
      · subst hc
        rw [hab]
        simp only [step]
        split
        · split <;> exact Or.inr rfl
        · exact Or.inl ⟨rfl, hdb⟩
      · rcases k2 with k2 | k2
        · exact Or.inl ⟨k2, (deaf_step cfg b e hdb hc).1⟩
        · exact Or.inr k2
    rcases k3 with ⟨k3, kd⟩ | k3
    · rw [k3]
      refine ⟨rfl, ?_⟩
      intro hp hl
      rcases kd with h' | h'
      · simp only at hp; rw [h'] at hp; cases hp
      · simp only at hl; rw [h'] at hl; cases hl
    · rw [k3]; exact eqv_refl _

theorem eqv_run (cfg : Cfg) (es : List Ev) : ∀ {a b : St}, Eqv a b → obs cfg a es = obs cfg b es ∧ Eqv (run cfg a es) (run cfg b es) := by
  induction es with
  | nil => intro a b h; exact ⟨rfl, h⟩
  | cons e es ih =>
    intro a b h
    obtain ⟨k1, k2⟩ := eqv_step cfg h e
    obtain ⟨j1, j2⟩ := ih k2
    simp only [obs] at j1
    simp only [obs, trace, List.flatMap_cons, run, k1, j1]
    exact ⟨trivial, j2⟩

/-- any non-empty chunking of a byte string against its concatenation, followed by ANY continuation -/
theorem rechunk_then (cfg : Cfg) (s : St) (c : Bytes) (cs : List Bytes) (post : List Ev) :
    vis (obs cfg s ((c :: cs).map .bytesIn ++ post)) = vis (obs cfg s (.bytesIn (c :: cs).flatten :: post)) ∧
    Eqv (run cfg s ((c :: cs).map .bytesIn ++ post)) (run cfg s (.bytesIn (c :: cs).flatten :: post)) := by
  obtain ⟨r1, r2⟩ := rechunk cfg cs c s
  obtain ⟨e1, e2⟩ := eqv_run cfg post r2
  have ho : obs cfg s (.bytesIn (c :: cs).flatten :: post)
      = (step cfg s (.bytesIn (c :: cs).flatten)).2 ++ obs cfg (step cfg s (.bytesIn (c :: cs).flatten)).1 post := by
    simp [obs, trace]
  rw [obs_app, run_app, ho, vis_append, vis_append, r1, e1]
  exact ⟨rfl, e2⟩

end Afkak.BrokerClient
