import Afkak.Monitor.C06
/-!
# The bootstrap-protocol model satisfies the (non-strict) bootstrap monitor of C06
-/
namespace Afkak.Bootstrap
open Afkak.Frame Afkak.Monitor.C06

def absBLive : Option (List Pend) → List BLive
  | none => []
  | some ps => (ps.filter (fun p => !p.cancelled)).map (fun p => ⟨p.serial, p.cid⟩)

/-- `_pending`, cancelled entries included -/
def absAwaited : Option (List Pend) → List BLive
  | none => []
  | some ps => ps.map (fun p => ⟨p.serial, p.cid⟩)

def absB (s : St) : BSt :=
  { live := absBLive s.pending, awaited := absAwaited s.pending, nreq := s.nreq, buf := s.rbuf, reading := s.pending.isSome && !s.losing, lost := s.failed, reason := s.reason }

/-- reachable-state invariant of the bootstrap protocol model -/
structure BInv (s : St) : Prop where
  failedIff : s.pending = none ↔ s.failed = true

theorem binv_init : BInv St.init := by constructor; simp [St.init]

theorem binv_step (s : St) (e : Ev) (h : BInv s) : BInv (step s e).1 := by
  have hf := h.failedIff
  cases e with
  | request p =>
    simp only [step]
    split
    · constructor; simpa using hf
    · split
      · exact h
      · split
        · exact h
        · constructor; simp_all
  | cancel k =>
    simp only [step]
    split
    · exact h
    · split
      · constructor; simp_all
      · exact h
  | bytesIn c =>
    simp only [step]
    split
    · exact h
    · split
      · exact h
      · constructor; simp_all
  | lost =>
    simp only [step]
    split
    · exact h
    · constructor; simp

@[simp] theorem bootFires_nil : bootFires [] = [] := rfl
theorem bootFires_append (a b : List Ob) : bootFires (a ++ b) = bootFires a ++ bootFires b := by
  induction a with
  | nil => rfl
  | cons o a ih => cases o <;> simp_all [bootFires]
theorem bootFires_map_fire {α} (l : List α) (f : α → Nat) (g : α → Res) :
    bootFires (l.map (fun r => Ob.fire (f r) (g r))) = l.map (fun r => (f r, g r)) := by
  induction l with
  | nil => rfl
  | cons a l ih => simp [bootFires, ih]

theorem absBLive_filter_cid (ps : List Pend) (cid : Bytes) :
    (absBLive (some ps)).filter (fun l => l.cid == cid) = (ps.filter (fun p => p.cid == cid && !p.cancelled)).map (fun p => ⟨p.serial, p.cid⟩) := by
  induction ps with
  | nil => rfl
  | cons p ps ih =>
    simp only [absBLive] at ih ⊢
    by_cases hi : p.cid = cid <;> by_cases hc : p.cancelled <;> simp_all

theorem absBLive_filter_ne (ps : List Pend) (cid : Bytes) :
    absBLive (some (ps.filter (fun p => p.cid != cid))) = (absBLive (some ps)).filter (fun l => l.cid != cid) := by
  induction ps with
  | nil => rfl
  | cons p ps ih =>
    simp only [absBLive] at ih ⊢
    by_cases hi : p.cid = cid <;> by_cases hc : p.cancelled <;> simp_all

/-- `deliver` against the monitor's `bootDeliver`; `lose` observations = packets nobody waited for -/
theorem deliver_boot (fs : List Bytes) : ∀ (ps : List Pend) (losing : Bool),
    bootFires (deliver ps losing fs).2.2 = (bootDeliver (absBLive (some ps)) fs).1 ∧
    absBLive (some (deliver ps losing fs).1) = (bootDeliver (absBLive (some ps)) fs).2 ∧
    ((deliver ps losing fs).2.1 = (losing || decide (0 < (deliver ps losing fs).2.2.count .lose))) ∧
    (deliver ps losing fs).2.2.contains .badOp = false := by
  induction fs with
  | nil => intro ps losing; simp [deliver, bootDeliver]
  | cons f fs ih =>
    intro ps losing
    simp only [deliver, bootDeliver, stringReceived]
    by_cases hany : ps.any (fun p => p.cid == respCid f) = true
    · simp only [hany, if_true]
      obtain ⟨i1, i2, i3, i4⟩ := ih (ps.filter (fun p => p.cid != respCid f)) losing
      rw [absBLive_filter_ne] at i1 i2
      refine ⟨?_, i2, ?_, ?_⟩
      · rw [bootFires_append, bootFires_map_fire, i1, absBLive_filter_cid, List.map_map]
        rfl
      · rw [i3, List.count_append]
        have : ((ps.filter (fun p => p.cid == respCid f && !p.cancelled)).map (fun p => Ob.fire p.serial (.ok f))).count .lose = 0 := by
          rw [List.count_eq_zero]
          intro hm
          obtain ⟨p, _, hp⟩ := List.mem_map.mp hm
          simp at hp
        rw [this]; simp
      · rw [List.contains_append, i4]
        have : ((ps.filter (fun p => p.cid == respCid f && !p.cancelled)).map (fun p => Ob.fire p.serial (.ok f))).contains .badOp = false := by
          rw [Bool.eq_false_iff]; intro hc
          rw [List.contains_iff_mem] at hc
          obtain ⟨p, _, hp⟩ := List.mem_map.mp hc
          simp at hp
        rw [this]; rfl
    · have hany' : ps.any (fun p => p.cid == respCid f) = false := by simpa using hany
      simp only [hany', Bool.false_eq_true, if_false]
      obtain ⟨i1, i2, i3, i4⟩ := ih ps true
      have hnone : (absBLive (some ps)).filter (fun l => l.cid == respCid f) = [] := by
        rw [absBLive_filter_cid]
        simp only [List.map_eq_nil_iff, List.filter_eq_nil_iff]
        intro p hp
        simp only [List.any_eq_false] at hany'
        have := hany' p hp
        simp_all
      have hall : (absBLive (some ps)).filter (fun l => l.cid != respCid f) = absBLive (some ps) := by
        rw [List.filter_eq_self]
        intro l hl
        have := List.filter_eq_nil_iff.mp hnone l hl
        simpa using this
      refine ⟨?_, ?_, ?_, ?_⟩
      · simp only [List.singleton_append, bootFires]
        rw [i1, hnone, hall]; rfl
      · rw [i2, hall]
      · rw [i3]; simp [List.count_cons]
      · simp only [List.singleton_append, List.contains_cons, i4]; rfl

theorem absAwaited_filter_ne (ps : List Pend) (cid : Bytes) :
    absAwaited (some (ps.filter (fun p => p.cid != cid))) = (absAwaited (some ps)).filter (fun l => l.cid != cid) := by
  simp [absAwaited, List.filter_map, Function.comp_def]

theorem absAwaited_any (ps : List Pend) (cid : Bytes) :
    (absAwaited (some ps)).any (fun l => l.cid == cid) = ps.any (fun p => p.cid == cid) := by
  simp [absAwaited, List.any_map, Function.comp_def]

/-- the `lose` observations of `deliver` are exactly the packets `bootDrops` counts -/
theorem deliver_drops (fs : List Bytes) : ∀ (ps : List Pend) (losing : Bool),
    (deliver ps losing fs).2.2.count .lose = bootDrops (absAwaited (some ps)) fs ∧
    absAwaited (some (deliver ps losing fs).1) = bootRest (absAwaited (some ps)) fs := by
  induction fs with
  | nil => intro ps losing; simp [deliver, bootDrops, bootRest]
  | cons f fs ih =>
    intro ps losing
    simp only [deliver, bootDrops, bootRest, stringReceived, absAwaited_any]
    by_cases hany : ps.any (fun p => p.cid == respCid f) = true
    · simp only [hany, if_true]
      obtain ⟨i1, i2⟩ := ih (ps.filter (fun p => p.cid != respCid f)) losing
      rw [absAwaited_filter_ne] at i1 i2
      refine ⟨?_, i2⟩
      rw [List.count_append, i1]
      have : ((ps.filter (fun p => p.cid == respCid f && !p.cancelled)).map (fun p => Ob.fire p.serial (.ok f))).count .lose = 0 := by
        rw [List.count_eq_zero]
        intro hm
        obtain ⟨p, _, hp⟩ := List.mem_map.mp hm
        simp at hp
      rw [this]; simp
    · have hany' : ps.any (fun p => p.cid == respCid f) = false := by simpa using hany
      simp only [hany', Bool.false_eq_true, if_false]
      obtain ⟨i1, i2⟩ := ih ps true
      have hall : (absAwaited (some ps)).filter (fun l => l.cid != respCid f) = absAwaited (some ps) := by
        rw [List.filter_eq_self]
        intro l hl
        simp only [absAwaited, List.mem_map] at hl
        obtain ⟨p, hp, rfl⟩ := hl
        simp only [List.any_eq_false] at hany'
        have := hany' p hp
        simpa using this
      refine ⟨?_, ?_⟩
      · simp only [List.singleton_append, List.count_cons_self, i1]
      · rw [i2, hall]


theorem absAwaited_append (a b : List Pend) : absAwaited (some (a ++ b)) = absAwaited (some a) ++ absAwaited (some b) := by
  simp [absAwaited]

theorem absAwaited_cancel (ps : List Pend) (k : Nat) :
    absAwaited (some (ps.map (fun p => if p.serial = k then { p with cancelled := true } else p))) = absAwaited (some ps) := by
  simp only [absAwaited, List.map_map]
  apply List.map_congr_left
  intro p _
  simp only [Function.comp]
  split <;> rfl

theorem absBLive_append (a b : List Pend) : absBLive (some (a ++ b)) = absBLive (some a) ++ absBLive (some b) := by
  simp [absBLive]

theorem absBLive_cancel (ps : List Pend) (k : Nat) :
    absBLive (some (ps.map (fun p => if p.serial == k then { p with cancelled := true } else p)))
      = (absBLive (some ps)).filter (fun l => l.serial != k) := by
  induction ps with
  | nil => rfl
  | cons p ps ih =>
    simp only [absBLive] at ih ⊢
    by_cases hi : p.serial = k <;> by_cases hc : p.cancelled <;> simp_all

theorem absBLive_cancel' (ps : List Pend) (k : Nat) :
    absBLive (some (ps.map (fun p => if p.serial = k then { p with cancelled := true } else p)))
      = (absBLive (some ps)).filter (fun l => l.serial != k) := by
  have := absBLive_cancel ps k
  simpa using this

theorem absBLive_any (ps : List Pend) (k : Nat) :
    (absBLive (some ps)).any (fun l => l.serial == k) = ps.any (fun p => p.serial == k && !p.cancelled) := by
  induction ps with
  | nil => rfl
  | cons p ps ih =>
    simp only [absBLive] at ih ⊢
    by_cases hi : p.serial = k <;> by_cases hc : p.cancelled <;> simp_all

theorem simB_step (strictOff : Unit) (s : St) (e : Ev) (h : BInv s) :
    bstep false (absB s) (e, (step s e).2) = some (absB (step s e).1) := by
  have hf := h.failedIff
  cases e with
  | request p =>
    simp only [step]
    by_cases hfl : s.failed = true
    · simp [hfl, bstep, bootFires, absB]
    · have hfl' : s.failed = false := by simpa using hfl
      cases hp : s.pending with
      | none => simp_all
      | some ps =>
        simp only [hfl', Bool.false_eq_true, if_false]
        split
        · simp [bstep, bootFires, absB, hp]
        · by_cases hl : s.losing = true <;>
            simp [bstep, bootFires, absB, hp, hl, hfl', absBLive_append, absBLive, absAwaited_append, absAwaited]
  | cancel k =>
    simp only [step]
    cases hp : s.pending with
    | none => simp [bstep, bootFires, absB, hp]
    | some ps =>
      simp only
      split
      · rename_i hany
        have := absBLive_any ps k
        simp [bstep, bootFires, absB, hp, absBLive_cancel', this, hany, absAwaited_cancel]
      · simp [bstep, bootFires, absB, hp]
  | bytesIn c =>
    simp only [step]
    cases hp : s.pending with
    | none => simp [bstep, bootFires, absB, hp]
    | some ps =>
      simp only
      split
      · simp [bstep, bootFires, absB, hp]
      · rename_i hl
        have hl' : s.losing = false := by simpa using hl
        obtain ⟨d1, d2, d3, d4⟩ := deliver_boot (feed s.rbuf c).frames ps s.losing
        rw [hl'] at d1 d2 d3 d4
        simp only [hl']
        have hcnt : ((deliver ps false (feed s.rbuf c).frames).2.2 ++ (if (feed s.rbuf c).exceeded then [Ob.lose] else [])).count .lose
            = (deliver ps false (feed s.rbuf c).frames).2.2.count .lose + (if (feed s.rbuf c).exceeded then 1 else 0) := by
          rw [List.count_append]; split <;> simp
        have hbad : ((deliver ps false (feed s.rbuf c).frames).2.2 ++ (if (feed s.rbuf c).exceeded then [Ob.lose] else [])).contains .badOp = false := by
          rw [List.contains_append, d4]; split <;> rfl
        have hfires : bootFires ((deliver ps false (feed s.rbuf c).frames).2.2 ++ (if (feed s.rbuf c).exceeded then [Ob.lose] else []))
            = (bootDeliver (absBLive (some ps)) (feed s.rbuf c).frames).1 := by
          rw [bootFires_append, d1]; split <;> simp [bootFires]
        obtain ⟨e1, e2⟩ := deliver_drops (feed s.rbuf c).frames ps false
        simp only [bstep, hbad, hfires, hcnt]
        simp only [absB, hp, hl', d2, d3]
        by_cases hex : (feed s.rbuf c).exceeded = true
        · simp [hex, e1, e2]
        · have hex' : (feed s.rbuf c).exceeded = false := by simpa using hex
          by_cases hz : (deliver ps false (feed s.rbuf c).frames).2.2.count .lose = 0
          · simp [hex', hz, hl', e2]
          · have : 0 < (deliver ps false (feed s.rbuf c).frames).2.2.count .lose := Nat.pos_of_ne_zero hz
            simp [hex', hz, hl', this, e2, ← e1]
  | lost rsn =>
    simp only [step]
    cases hp : s.pending with
    | none => simp [bstep, bootFires, absB, hp]
    | some ps =>
      have hnb : ((ps.filter (fun p => !p.cancelled)).map (fun p => Ob.fire p.serial (Res.connLost rsn))).contains .badOp = false := by
        rw [Bool.eq_false_iff]; intro hc
        rw [List.contains_iff_mem] at hc
        obtain ⟨p, _, hp'⟩ := List.mem_map.mp hc
        simp at hp'
      simp only [bstep, hnb, bootFires_map_fire]
      simp [absB, hp, absBLive, absAwaited, sameFires, List.isPerm_iff, List.map_map, Function.comp_def]

theorem simB_run (s : St) (es : List Ev) (h : BInv s) :
    brun false (absB s) (trace s es) = some (absB (run s es)) := by
  induction es generalizing s with
  | nil => rfl
  | cons e es ih =>
    simp only [trace, brun, run, simB_step () s e h]
    exact ih _ (binv_step s e h)

theorem absB_init : absB St.init = BSt.init := rfl

end Afkak.Bootstrap
