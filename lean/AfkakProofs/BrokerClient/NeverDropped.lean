import Afkak.BrokerClient
/-!
# No request is silently dropped from the table (flat model)

In ANY state, for ANY event: a request that is in the table and not cancelled is, after the step, still in the table
and not cancelled (same serial, id and reply flag) — or its Deferred fired in that step.
-/
namespace Afkak.BrokerClient
open Afkak.Frame Afkak.Consts

/-- `r` is still outstanding in `l` -/
def Still (r : Req) (l : List Req) : Prop :=
  ∃ r' ∈ l, r'.serial = r.serial ∧ r'.id = r.id ∧ r'.expect = r.expect ∧ r'.cancelled = false

def Fired (r : Req) (os : List Ob) : Prop := ∃ res, Ob.fire r.serial r.id res ∈ os

theorem still_self (r : Req) (l : List Req) (hr : r ∈ l) (hc : r.cancelled = false) : Still r l :=
  ⟨r, hr, rfl, rfl, rfl, hc⟩

theorem handleFrames_keep_or_fire (r : Req) (hc : r.cancelled = false) (fs : List Bytes) : ∀ s : St, r ∈ s.reqs →
    r ∈ (handleFrames s fs).1.reqs ∨ Fired r (handleFrames s fs).2.1 := by
  induction fs with
  | nil => intro s hr; exact Or.inl hr
  | cons f fs ih =>
    intro s hr
    cases hid : corrId f with
    | none => simp only [handleFrames, hid]; exact Or.inl hr
    | some id =>
      simp only [handleFrames, hid]
      by_cases he : r.id = id
      · right
        refine ⟨.ok f, List.mem_append_left _ ?_⟩
        simp only [handleResponse]
        have hany : s.reqs.any (fun x => x.id == id) = true := List.any_eq_true.mpr ⟨r, hr, by simp [he]⟩
        simp only [hany, if_true]
        exact List.mem_map.mpr ⟨r, List.mem_filter.mpr ⟨hr, by simp [he, hc]⟩, rfl⟩
      · have hr' : r ∈ (handleResponse s id f).1.reqs := by
          simp only [handleResponse]
          exact List.mem_filter.mpr ⟨hr, by simp [he]⟩
        rcases ih _ hr' with h | ⟨res, h⟩
        · exact Or.inl h
        · exact Or.inr ⟨res, List.mem_append_right _ h⟩

theorem lostStep_still (s : St) (r : Req) (hr : r ∈ s.reqs) (hc : r.cancelled = false) : Still r (lostStep s).1.reqs := by
  have hm : { r with sent := false } ∈ (s.reqs.filter (fun r => !r.cancelled)).map (fun r => { r with sent := false }) :=
    List.mem_map.mpr ⟨r, List.mem_filter.mpr ⟨hr, by simp [hc]⟩, rfl⟩
  simp only [lostStep, connect_, tryConnect]
  split
  · exact ⟨_, hm, rfl, rfl, rfl, hc⟩
  · split <;> exact ⟨_, hm, rfl, rfl, rfl, hc⟩

theorem never_dropped (cfg : Cfg) (s : St) (e : Ev) (r : Req) (hr : r ∈ s.reqs) (hc : r.cancelled = false) :
    Still r (step cfg s e).1.reqs ∨ Fired r (step cfg s e).2 := by
  have same := still_self r s.reqs hr hc
  cases e with
  | make id ex =>
    left
    simp only [step]
    split
    · exact same
    · split
      · exact same
      · split
        · exact still_self r _ (List.mem_append_left _ hr) hc
        · simp only [connect_, tryConnect]
          split <;> exact still_self r _ (List.mem_append_left _ hr) hc
  | cancel id =>
    simp only [step]
    split
    · by_cases he : r.id = id
      · right
        exact ⟨.err .cancelled, List.mem_map.mpr ⟨r, List.mem_filter.mpr ⟨hr, by simp [he, hc]⟩, rfl⟩⟩
      · left
        refine ⟨r, ?_, rfl, rfl, rfl, hc⟩
        apply List.mem_map.mpr
        exact ⟨r, List.mem_filter.mpr ⟨hr, by simp [he]⟩, by simp [he]⟩
    · exact Or.inl same
  | connOk =>
    simp only [step]
    split
    · split
      · exact Or.inl same
      · simp only [sendQueued]
        by_cases hk : (r.sent || keepAfterSend { s with failures := 0, connector := .none, proto := some s.nconn, nconn := s.nconn + 1, losing := false, rbuf := [] } r) = true
        · left
          exact ⟨{ r with sent := true }, List.mem_map.mpr ⟨r, List.mem_filter.mpr ⟨hr, hk⟩, rfl⟩, rfl, rfl, rfl, hc⟩
        · right
          simp only [Bool.or_eq_true, not_or, Bool.not_eq_true] at hk
          obtain ⟨hs1, hk2⟩ := hk
          simp only [keepAfterSend, Bool.and_eq_false_iff, Bool.not_eq_false'] at hk2
          by_cases hw : s.wfail = true
          · refine ⟨.err .writeError, List.mem_flatMap.mpr ⟨r, hr, ?_⟩⟩
            simp [hs1, sendObs, hw]
          · have hw' : s.wfail = false := by simpa using hw
            have hex : r.expect = false := by
              rcases hk2 with h | h
              · exact h
              · rw [hw'] at h; cases h
            refine ⟨.none, List.mem_flatMap.mpr ⟨r, hr, ?_⟩⟩
            simp [hs1, sendObs, hw', hex]
    · exact Or.inl same
  | connFail =>
    left
    simp only [step]
    split
    · split <;> exact same
    · exact same
  | advance dt =>
    left
    simp only [step, tryConnect]
    split
    · exact same
    · split
      · split <;> exact same
      · exact same
  | bytesIn chunk =>
    simp only [step]
    split
    · exact Or.inl same
    · split
      · exact Or.inl same
      · rcases handleFrames_keep_or_fire r hc (feed s.rbuf chunk).frames s hr with h | ⟨res, h⟩
        · left
          split
          · exact lostStep_still _ r h hc
          · split <;> exact still_self r _ h hc
        · right
          split
          · exact ⟨res, List.mem_append_left _ h⟩
          · split
            · exact ⟨res, List.mem_append_left _ h⟩
            · exact ⟨res, h⟩
  | lost =>
    left
    simp only [step]
    split
    · exact same
    · exact lostStep_still s r hr hc
  | close =>
    simp only [step]
    split
    · exact Or.inl same
    · right
      have hm : Ob.fire r.serial r.id (.err .clientError) ∈
          ((if closePopLast then s.reqs.reverse else s.reqs).filter (fun r => !r.cancelled)).map
            (fun r => Ob.fire r.serial r.id (.err .clientError)) := by
        apply List.mem_map.mpr
        refine ⟨r, List.mem_filter.mpr ⟨?_, by simp [hc]⟩, rfl⟩
        split
        · exact List.mem_reverse.mpr hr
        · exact hr
      refine ⟨.err .clientError, ?_⟩
      split
      · exact List.mem_cons_of_mem _ hm
      · split
        · exact List.mem_cons_of_mem _ (List.mem_append_left _ hm)
        · exact List.mem_cons_of_mem _ (List.mem_append_left _ hm)
        · exact List.mem_append_left _ hm
        · exact List.mem_append_left _ hm
  | disconnect =>
    left
    simp only [step]
    split <;> exact same
  | updateMetadata a b => exact Or.inl same
  | writeFail b => exact Or.inl same

end Afkak.BrokerClient
