import AfkakProofs.BrokerClient.Term
import AfkakProofs.BrokerClient.Partition
import AfkakProofs.BrokerClient.Reent10
/-!
# The re-entrant model without the fuel

`exec` (Afkak/BrokerClientR.lean) is structurally recursive on a fuel argument.  `Term.lean` shows that the fuel
`evBound s e` (computed from the state and the event: table size, live entries, weight of the registered callbacks,
size of the event) suffices for the step from `s` on `e`, and that every larger amount gives the SAME step
(`step_suffices`).  So the fuel is only a device of the definition: `stepRω` below is the step of the re-entrant
model with the fuel it needs, `traceRω` / `runRω` the runs; every fuel-indexed run with enough fuel IS that run
(`traceRWith_eq_ω`, and the decidable `fuelOk` for a given amount, e.g. the driver's), and the theorems about
fuel-indexed runs transfer to it without any hypothesis about fuel.
-/
namespace Afkak.BrokerClientR
open Afkak.Frame Afkak.BrokerClient Afkak.Consts Afkak.Monitor.C06

/-- one step of the re-entrant model, run with the fuel it needs -/
def stepRω (cfg : Cfg) (s : StR) (e : EvR) : StR × List ObR := stepRWith cfg (evBound s e) s e

def traceRω (cfg : Cfg) (s : StR) : List EvR → List (EvR × List ObR)
  | [] => []
  | e :: es => (e, (stepRω cfg s e).2) :: traceRω cfg (stepRω cfg s e).1 es

def runRω (cfg : Cfg) (s : StR) : List EvR → StR
  | [] => s
  | e :: es => runRω cfg (stepRω cfg s e).1 es

/-- does `fuel` suffice for every step of the run from `s` on `evs`?  (decidable; `evBound` is explicit) -/
def fuelOk (cfg : Cfg) (fuel : Nat) : StR → List EvR → Bool
  | _, [] => true
  | s, e :: es => decide (evBound s e ≤ fuel) && fuelOk cfg fuel (stepRω cfg s e).1 es

theorem stepRWith_eq_ω (cfg : Cfg) (s : StR) (e : EvR) (fuel : Nat) (hf : evBound s e ≤ fuel) :
    stepRWith cfg fuel s e = stepRω cfg s e := (step_suffices cfg s e fuel hf).2

theorem noFuelOut_ω (cfg : Cfg) (s : StR) (e : EvR) : NoFuelOut (stepRω cfg s e).2 :=
  (step_suffices cfg s e (evBound s e) (Nat.le_refl _)).1

theorem noFuelOut_traceRω (cfg : Cfg) (evs : List EvR) : ∀ s : StR, ∀ t ∈ traceRω cfg s evs, NoFuelOut t.2 := by
  induction evs with
  | nil => intro s t ht; simp [traceRω] at ht
  | cons e es ih =>
    intro s t ht
    simp only [traceRω, List.mem_cons] at ht
    rcases ht with rfl | ht
    · exact noFuelOut_ω cfg s e
    · exact ih _ t ht

/-- a fuel-indexed run whose fuel suffices at every step is the fuel-free run -/
theorem of_fuelOk (cfg : Cfg) (fuel : Nat) (evs : List EvR) : ∀ s : StR, fuelOk cfg fuel s evs = true →
    traceRWith cfg fuel s evs = traceRω cfg s evs ∧ runRWith cfg fuel s evs = runRω cfg s evs := by
  induction evs with
  | nil => intro s _; exact ⟨rfl, rfl⟩
  | cons e es ih =>
    intro s h
    simp only [fuelOk, Bool.and_eq_true, decide_eq_true_eq] at h
    have e1 := stepRWith_eq_ω cfg s e fuel h.1
    simp only [traceRWith, traceRω, runRWith, runRω, e1]
    obtain ⟨i1, i2⟩ := ih _ h.2
    exact ⟨by rw [i1], i2⟩

theorem fuelOk_mono (cfg : Cfg) (a b : Nat) (hab : a ≤ b) (evs : List EvR) : ∀ s : StR,
    fuelOk cfg a s evs = true → fuelOk cfg b s evs = true := by
  induction evs with
  | nil => intro s _; rfl
  | cons e es ih =>
    intro s h
    simp only [fuelOk, Bool.and_eq_true, decide_eq_true_eq] at h ⊢
    exact ⟨by omega, ih _ h.2⟩

/-- some amount of fuel suffices for the whole run -/
theorem fuelOk_exists (cfg : Cfg) (evs : List EvR) : ∀ s : StR, ∃ N, ∀ fuel, N ≤ fuel → fuelOk cfg fuel s evs = true := by
  induction evs with
  | nil => intro s; exact ⟨0, fun _ _ => rfl⟩
  | cons e es ih =>
    intro s
    obtain ⟨N', hN'⟩ := ih (stepRω cfg s e).1
    refine ⟨max (evBound s e) N', fun fuel hf => ?_⟩
    simp only [fuelOk, Bool.and_eq_true, decide_eq_true_eq]
    exact ⟨by omega, hN' fuel (by omega)⟩

/-- every fuel-indexed run with enough fuel IS the fuel-free run -/
theorem traceRWith_eq_ω (cfg : Cfg) (evs : List EvR) (s : StR) : ∃ N, ∀ fuel, N ≤ fuel →
    traceRWith cfg fuel s evs = traceRω cfg s evs ∧ runRWith cfg fuel s evs = runRω cfg s evs := by
  obtain ⟨N, hN⟩ := fuelOk_exists cfg evs s
  exact ⟨N, fun fuel hf => of_fuelOk cfg fuel evs s (hN fuel hf)⟩

/-- the runs the driver executes (fuel `BrokerClientR.fuel`) -/
theorem traceR_eq_with (cfg : Cfg) (evs : List EvR) : ∀ s : StR, traceR cfg s evs = traceRWith cfg fuel s evs := by
  induction evs with
  | nil => intro s; rfl
  | cons e es ih => intro s; simp only [traceR, traceRWith, stepR, ih]

/-- C06 (stream monitor `r06`) of the fuel-free run -/
theorem r06_ω (cfg : Cfg) (host port : Nat) (evs : List EvR) : r06 (traceRω cfg (StR.init host port) evs) = true := by
  obtain ⟨N, hN⟩ := traceRWith_eq_ω cfg evs (StR.init host port)
  have e := (hN N (Nat.le_refl _)).1
  have hnf : ∀ t ∈ traceRWith cfg N (StR.init host port) evs, NoFuelOut t.2 := by
    rw [e]; exact noFuelOut_traceRω cfg evs _
  rw [← e]
  simp only [r06]
  rw [r06_trace cfg N evs _ _ 0 (top6_init host port) hnf]
  rfl

/-- the partition "fired exactly once ⊎ still in the table, uncancelled" at the end of the fuel-free run -/
theorem partition_ω (cfg : Cfg) (host port : Nat) (evs : List EvR) :
    let s := runRω cfg (StR.init host port) evs
    let F := firedR (traceRω cfg (StR.init host port) evs)
    F.Nodup ∧ (∀ k ∈ F, k < s.core.nmake) ∧
    (∀ k, k < s.core.nmake → ((∃ r ∈ s.core.reqs, r.serial = k ∧ r.cancelled = false) ↔ k ∉ F)) := by
  obtain ⟨N, hN⟩ := traceRWith_eq_ω cfg evs (StR.init host port)
  obtain ⟨e1, e2⟩ := hN N (Nat.le_refl _)
  have hnf : ∀ t ∈ traceRWith cfg N (StR.init host port) evs, NoFuelOut t.2 := by
    rw [e1]; exact noFuelOut_traceRω cfg evs _
  have := partitionR cfg N host port evs hnf
  simp only [e1, e2] at this
  exact this

/-- C10 (stream monitor `r10`) of the fuel-free run -/
theorem r10_ω (cfg : Cfg) (host port : Nat) (evs : List EvR) :
    Afkak.Monitor.C10.r10 (traceRω cfg (StR.init host port) evs) = true := by
  obtain ⟨N, hN⟩ := traceRWith_eq_ω cfg evs (StR.init host port)
  have e := (hN N (Nat.le_refl _)).1
  have hnf : ∀ t ∈ traceRWith cfg N (StR.init host port) evs, NoFuelOut t.2 := by
    rw [e]; exact noFuelOut_traceRω cfg evs _
  rw [← e]
  simp only [Afkak.Monitor.C10.r10]
  rw [r10_trace cfg N evs _ _ _ 0 (top10_init host port) hnf]
  rfl

end Afkak.BrokerClientR
