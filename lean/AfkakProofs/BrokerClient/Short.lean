import Afkak.BrokerClient
/-!
# A packet too short to carry a correlation id: when does `handleFrames` report the exception
-/
namespace Afkak.BrokerClient
open Afkak.Frame

theorem handleFrames_raise (fs : List Bytes) : ∀ (s : St),
    (Ob.raiseUnderflow ∈ (handleFrames s fs).2.1 → (handleFrames s fs).2.2 = true) := by
  induction fs with
  | nil => intro s; simp [handleFrames]
  | cons f fs ih =>
    intro s
    cases hid : corrId f with
    | none => simp [handleFrames, hid]
    | some id =>
      simp only [handleFrames, hid]
      intro hm
      rcases List.mem_append.mp hm with hm | hm
      · simp only [handleResponse] at hm
        split at hm
        · obtain ⟨r, _, hr⟩ := List.mem_map.mp hm; simp at hr
        · simp at hm
      · exact ih _ hm

end Afkak.BrokerClient
