import AfkakProofs.BrokerClient.Bytes
/-!
# Bootstrap connection on raw bytes: every `ok` payload is a frame of the whole byte stream
-/
namespace Afkak.BrokerClientBytes.Boot
open Afkak.Frame Afkak.Bootstrap Afkak.Consts Afkak.BrokerClientBytes

theorem okPayloads_append (a b : List Bootstrap.Ob) : okPayloads (a ++ b) = okPayloads a ++ okPayloads b := by
  induction a with
  | nil => rfl
  | cons o os ih =>
    cases o with
    | fire k r => cases r <;> simp [okPayloads, ih]
    | _ => simp [okPayloads, ih]

theorem okPayloads_map_ok (l : List Pend) (f : Bytes) :
    okPayloads (l.map (fun p => Bootstrap.Ob.fire p.serial (.ok f))) = l.map (fun _ => f) := by
  induction l with
  | nil => rfl
  | cons p ps ih => simp [okPayloads, ih]

theorem okPayloads_map_other (l : List Pend) (r : Bootstrap.Res) (hr : ∀ b, r ≠ .ok b) :
    okPayloads (l.map (fun p => Bootstrap.Ob.fire p.serial r)) = [] := by
  induction l with
  | nil => rfl
  | cons p ps ih =>
    cases r with
    | ok b => exact absurd rfl (hr b)
    | _ => simpa [okPayloads] using ih

theorem deliver_payloads (fs : List Bytes) : ∀ (ps : List Pend) (losing : Bool),
    (∀ b ∈ okPayloads (Bootstrap.deliver ps losing fs).2.2, b ∈ fs) ∧
    Bootstrap.Ob.badOp ∉ (Bootstrap.deliver ps losing fs).2.2 := by
  induction fs with
  | nil => intro ps losing; simp [Bootstrap.deliver, okPayloads]
  | cons f fs ih =>
    intro ps losing
    obtain ⟨i1, i2⟩ := ih (stringReceived ps losing f).1 (stringReceived ps losing f).2.1
    simp only [Bootstrap.deliver, okPayloads_append]
    constructor
    · intro b hb
      rcases List.mem_append.mp hb with hb | hb
      · simp only [stringReceived] at hb
        split at hb
        · rw [okPayloads_map_ok] at hb
          obtain ⟨_, _, rfl⟩ := List.mem_map.mp hb
          simp
        · simp [okPayloads] at hb
      · exact List.mem_cons_of_mem _ (i1 b hb)
    · intro hm
      rcases List.mem_append.mp hm with hm | hm
      · simp only [stringReceived] at hm
        split at hm <;> simp at hm
      · exact i2 hm

structure BInv (s : Bootstrap.St) (l : BL) : Prop where
  good : l.bad = false
  reading : s.pending.isSome = true → s.losing = false →
    (parseAll l.bytes).exceeded = false ∧ s.rbuf = (parseAll l.bytes).rest

theorem binv_init : BInv Bootstrap.St.init BL.init := by
  constructor
  · rfl
  · intro _ _; simp [BL.init, Bootstrap.St.init, parseAll_nil]

theorem binv_step (s : Bootstrap.St) (l : BL) (e : Bootstrap.Ev) (h : BInv s l) :
    BInv (Bootstrap.step s e).1 (bstepL l (e, (Bootstrap.step s e).2)) := by
  have hg := h.good
  cases e with
  | request payload =>
    simp only [Bootstrap.step]
    split
    · exact ⟨by simp [bstepL, hg, okPayloads], fun hp hl => h.reading hp hl⟩
    · split
      · exact ⟨by simp [bstepL, hg, okPayloads], fun hp hl => h.reading hp hl⟩
      · rename_i ps hps
        split
        · exact ⟨by simp [bstepL, hg, okPayloads], fun hp hl => h.reading hp hl⟩
        · refine ⟨by simp only [bstepL, hg]; split <;> simp [okPayloads], fun _ hl => h.reading (by simp [hps]) hl⟩
  | cancel k =>
    simp only [Bootstrap.step]
    split
    · exact ⟨by simp [bstepL, hg, okPayloads], fun hp hl => h.reading hp hl⟩
    · rename_i ps hps
      split
      · exact ⟨by simp [bstepL, hg, okPayloads], fun _ hl => h.reading (by simp [hps]) hl⟩
      · exact ⟨by simp [bstepL, hg, okPayloads], fun hp hl => h.reading hp hl⟩
  | lost rsn =>
    simp only [Bootstrap.step]
    split
    · exact ⟨by simp [bstepL, hg, okPayloads], fun hp hl => h.reading hp hl⟩
    · refine ⟨?_, fun hp _ => by simp at hp⟩
      simp only [bstepL, hg, Bool.false_or, Bool.not_eq_eq_eq_not, Bool.not_false, List.isEmpty_iff]
      exact okPayloads_map_other _ _ (by intro b; simp)
  | bytesIn chunk =>
    simp only [Bootstrap.step]
    split
    · exact ⟨by simp [bstepL, hg, okPayloads], fun hp hl => h.reading hp hl⟩
    · rename_i ps hps
      split
      · rename_i hl
        exact ⟨by simp [bstepL, hg, okPayloads], fun _ hl' => by rw [hl] at hl'; cases hl'⟩
      · rename_i hl
        have hl' : s.losing = false := by simpa using hl
        obtain ⟨hex, hbuf⟩ := h.reading (by simp [hps]) hl'
        obtain ⟨n1, n2, n3, n4⟩ := newFrames_eq_feed l.bytes chunk hex
        rw [← hbuf] at n1 n2 n3 n4
        obtain ⟨d1, d2⟩ := deliver_payloads (feed s.rbuf chunk).frames ps s.losing
        have hnb : ((Bootstrap.deliver ps s.losing (feed s.rbuf chunk).frames).2.2 ++
            (if (feed s.rbuf chunk).exceeded = true then [Bootstrap.Ob.lose] else [])).contains Bootstrap.Ob.badOp = false := by
          rw [← Bool.not_eq_true, List.contains_iff_mem]
          intro hm
          rcases List.mem_append.mp hm with hm | hm
          · exact d2 hm
          · split at hm <;> simp at hm
        have hop : okPayloads ((Bootstrap.deliver ps s.losing (feed s.rbuf chunk).frames).2.2 ++
            (if (feed s.rbuf chunk).exceeded = true then [Bootstrap.Ob.lose] else []))
            = okPayloads (Bootstrap.deliver ps s.losing (feed s.rbuf chunk).frames).2.2 := by
          rw [okPayloads_append]; split <;> simp [okPayloads]
        simp only [bstepL, hnb, Bool.false_eq_true, if_false, hop]
        constructor
        · simp only [hg, Bool.false_or, Bool.not_eq_eq_eq_not, Bool.not_false, List.all_eq_true, List.contains_iff_mem, n1]
          exact d1
        · intro _ hlz
          simp only [Bool.or_eq_false_iff] at hlz
          exact ⟨by rw [n3]; exact hlz.2, (n4 hlz.2).symm⟩

theorem binv_run (evs : List Bootstrap.Ev) : ∀ (s : Bootstrap.St) (l : BL), BInv s l →
    BInv (Bootstrap.run s evs) (brunL l (Bootstrap.trace s evs)) := by
  induction evs with
  | nil => intro s l h; exact h
  | cons e es ih =>
    intro s l h
    simp only [Bootstrap.run, Bootstrap.trace, brunL]
    exact ih _ _ (binv_step s l e h)

/-! ## what `bootBytesOk` means, for any trace -/

theorem bstepL_bytes (l : BL) (t : Bootstrap.Ev × List Bootstrap.Ob) : ∃ suf, (bstepL l t).bytes = l.bytes ++ suf := by
  obtain ⟨e, os⟩ := t
  cases e with
  | bytesIn chunk =>
    simp only [bstepL]
    split
    · exact ⟨[], by simp⟩
    · exact ⟨chunk, rfl⟩
  | _ => exact ⟨[], by simp [bstepL]⟩

theorem brunL_bytes (tr : List (Bootstrap.Ev × List Bootstrap.Ob)) : ∀ l : BL, ∃ suf, (brunL l tr).bytes = l.bytes ++ suf := by
  induction tr with
  | nil => intro l; exact ⟨[], by simp [brunL]⟩
  | cons t ts ih =>
    intro l
    obtain ⟨s1, h1⟩ := bstepL_bytes l t
    obtain ⟨s2, h2⟩ := ih (bstepL l t)
    exact ⟨s1 ++ s2, by simp only [brunL]; rw [h2, h1, List.append_assoc]⟩

theorem bstepL_bad_sticky (l : BL) (t : Bootstrap.Ev × List Bootstrap.Ob) (h : l.bad = true) : (bstepL l t).bad = true := by
  obtain ⟨e, os⟩ := t
  cases e <;> simp only [bstepL] <;> (try split) <;> simp [h]

theorem brunL_bad_sticky (tr : List (Bootstrap.Ev × List Bootstrap.Ob)) : ∀ l : BL, l.bad = true → (brunL l tr).bad = true := by
  induction tr with
  | nil => intro l h; exact h
  | cons t ts ih => intro l h; exact ih _ (bstepL_bad_sticky l t h)

/-- a good step: its `ok` payloads are frames of the whole-stream parse of the bytes received up to and including it -/
theorem bstepL_good (l : BL) (t : Bootstrap.Ev × List Bootstrap.Ob) (h : (bstepL l t).bad = false) :
    ∀ b ∈ okPayloads t.2, b ∈ (parseAll (bstepL l t).bytes).frames := by
  obtain ⟨e, os⟩ := t
  have hnil : ∀ {x : Bool}, (x || !(okPayloads os).isEmpty) = false → okPayloads os = [] := by
    intro x hx
    simp only [Bool.or_eq_false_iff, Bool.not_eq_eq_eq_not, Bool.not_false, List.isEmpty_iff] at hx
    exact hx.2
  cases e with
  | bytesIn chunk =>
    simp only [bstepL] at h ⊢
    split at h
    · rename_i hb; simp only [hb, if_true]; intro b hb'; rw [hnil h] at hb'; cases hb'
    · rename_i hb
      simp only [hb, if_false]
      simp only [Bool.or_eq_false_iff, Bool.not_eq_eq_eq_not, Bool.not_false, List.all_eq_true, List.contains_iff_mem] at h
      intro b hb'
      exact List.mem_of_mem_drop (h.2 b hb')
  | request p => simp only [bstepL] at h ⊢; intro b hb'; rw [hnil h] at hb'; cases hb'
  | cancel k => simp only [bstepL] at h ⊢; intro b hb'; rw [hnil h] at hb'; cases hb'
  | lost r => simp only [bstepL] at h ⊢; intro b hb'; rw [hnil h] at hb'; cases hb'

theorem bootBytes_meaning (tr : List (Bootstrap.Ev × List Bootstrap.Ob)) : ∀ l : BL, (brunL l tr).bad = false →
    ∀ t ∈ tr, ∀ b ∈ okPayloads t.2, b ∈ (parseAll (brunL l tr).bytes).frames := by
  induction tr with
  | nil => intro l _ t ht; cases ht
  | cons t0 ts ih =>
    intro l h t ht
    have h0 : (bstepL l t0).bad = false := by
      cases hb : (bstepL l t0).bad with
      | false => rfl
      | true => simp only [brunL] at h; rw [brunL_bad_sticky ts _ hb] at h; cases h
    rcases List.mem_cons.mp ht with rfl | ht
    · intro b hb
      obtain ⟨suf, hs⟩ := brunL_bytes ts (bstepL l t)
      simp only [brunL]
      rw [hs]
      exact frames_mono _ _ b (bstepL_good l t h0 b hb)
    · exact ih (bstepL l t0) (by simpa [brunL] using h) t ht

end Afkak.BrokerClientBytes.Boot
