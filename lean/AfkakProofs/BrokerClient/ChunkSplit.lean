import AfkakProofs.BrokerClient.Inv
import AfkakProofs.BrokerClient.Frame
/-!
# How the transport cuts the byte stream is unobservable at the broker client

Two consecutive `dataReceived` calls (`bytesIn c₁`, `bytesIn c₂`) on a connection that is still being read after the
first do exactly what ONE call with `c₁ ++ c₂` does: the same Deferreds fire with the same packets in the same
order, the same log lines, the same table afterwards.
-/
namespace Afkak.BrokerClient
open Afkak.Frame Afkak.Consts

theorem handleFrames_rbuf (fs : List Bytes) : ∀ (s : St) (b : Bytes),
    handleFrames { s with rbuf := b } fs = ({ (handleFrames s fs).1 with rbuf := b }, (handleFrames s fs).2) := by
  induction fs with
  | nil => intro s b; rfl
  | cons f fs ih =>
    intro s b
    simp only [handleFrames]
    split
    · rfl
    · rename_i id _
      have e : (handleResponse { s with rbuf := b } id f) = ({ (handleResponse s id f).1 with rbuf := b }, (handleResponse s id f).2) := by
        simp [handleResponse]
      rw [e]
      simp only
      rw [ih]

theorem handleFrames_append (a : List Bytes) : ∀ (s : St) (b : List Bytes),
    handleFrames s (a ++ b) =
      if (handleFrames s a).2.2 then handleFrames s a
      else ((handleFrames (handleFrames s a).1 b).1, (handleFrames s a).2.1 ++ (handleFrames (handleFrames s a).1 b).2.1,
            (handleFrames (handleFrames s a).1 b).2.2) := by
  induction a with
  | nil => intro s b; simp [handleFrames]
  | cons f fs ih =>
    intro s b
    cases hc : corrId f with
    | none => simp [handleFrames, hc]
    | some id =>
      simp only [List.cons_append, handleFrames, hc]
      rw [ih]
      split <;> simp_all

/-- feeding `c₁` and then `c₂` against feeding `c₁ ++ c₂` -/
theorem feed_split (buf c1 c2 : Bytes) (h1 : (feed buf c1).exceeded = false) :
    (feed buf (c1 ++ c2)).frames = (feed buf c1).frames ++ (feed (feed buf c1).buf c2).frames ∧
    (feed buf (c1 ++ c2)).exceeded = (feed (feed buf c1).buf c2).exceeded ∧
    ((feed (feed buf c1).buf c2).exceeded = false → (feed buf (c1 ++ c2)).buf = (feed (feed buf c1).buf c2).buf) := by
  have e1 : (parse kafkaMaxLength (buf ++ c1)).exceeded = false := by
    simpa [feed, feedWith_eq_parse] using h1
  have hap := parse_append kafkaMaxLength (buf ++ c1).length (buf ++ c1) c2 (Nat.le_refl _)
  simp only [e1, Bool.false_eq_true, if_false] at hap
  simp only [feed, feedWith_eq_parse, e1, Bool.false_eq_true, if_false, ← List.append_assoc, hap]
  refine ⟨trivial, trivial, fun h => ?_⟩
  simp [h]

/-- `step` on `bytesIn` for a connection that is being read -/
def bytesStep (s : St) (c : Nat) (chunk : Bytes) : St × List Ob :=
  let f := feed s.rbuf chunk
  let r := handleFrames s f.frames
  if r.2.2 then ((lostStep r.1).1, r.2.1 ++ (lostStep r.1).2)
  else if f.exceeded then ({ r.1 with rbuf := f.buf, losing := true }, r.2.1 ++ [.lose c])
  else ({ r.1 with rbuf := f.buf }, r.2.1)

theorem step_bytesIn (cfg : Cfg) (s : St) (c : Nat) (chunk : Bytes) (hp : s.proto = some c) (hl : s.losing = false) :
    step cfg s (.bytesIn chunk) = bytesStep s c chunk := by
  simp only [step, hp, hl, bytesStep]
  rfl

theorem lostStep_rbuf (s : St) (b : Bytes) : lostStep { s with rbuf := b } = lostStep s := by
  simp only [lostStep, connect_, tryConnect]

/-- splitting a chunk is unobservable while the connection stays readable -/
theorem split_unobservable (cfg : Cfg) (s : St) (c : Nat) (c1 c2 : Bytes) (hp : s.proto = some c) (hl : s.losing = false)
    (h1 : (step cfg s (.bytesIn c1)).1.proto = some c) (h2 : (step cfg s (.bytesIn c1)).1.losing = false) :
    (step cfg s (.bytesIn (c1 ++ c2))).2 = (step cfg s (.bytesIn c1)).2 ++ (step cfg (step cfg s (.bytesIn c1)).1 (.bytesIn c2)).2 ∧
    { (step cfg s (.bytesIn (c1 ++ c2))).1 with rbuf := [] }
      = { (step cfg (step cfg s (.bytesIn c1)).1 (.bytesIn c2)).1 with rbuf := [] } ∧
    ((step cfg (step cfg s (.bytesIn c1)).1 (.bytesIn c2)).1.losing = false →
      (step cfg s (.bytesIn (c1 ++ c2))).1 = (step cfg (step cfg s (.bytesIn c1)).1 (.bytesIn c2)).1) := by
  rw [step_bytesIn cfg _ c c2 h1 h2]
  rw [step_bytesIn cfg s c c1 hp hl] at h1 h2 ⊢
  rw [step_bytesIn cfg s c (c1 ++ c2) hp hl]
  -- the first call neither raised nor exceeded the limit
  have hr1 : (handleFrames s (feed s.rbuf c1).frames).2.2 = false := by
    cases hr : (handleFrames s (feed s.rbuf c1).frames).2.2 with
    | false => rfl
    | true =>
      simp only [bytesStep, hr, if_true] at h1
      have := (show (lostStep (handleFrames s (feed s.rbuf c1).frames).1).1.proto = none by
        simp only [lostStep, connect_, tryConnect]; split <;> (try split) <;> rfl)
      rw [this] at h1; cases h1
  have he1 : (feed s.rbuf c1).exceeded = false := by
    cases he : (feed s.rbuf c1).exceeded with
    | false => rfl
    | true => simp [bytesStep, hr1, he] at h2
  have hs1 : bytesStep s c c1 =
      ({ (handleFrames s (feed s.rbuf c1).frames).1 with rbuf := (feed s.rbuf c1).buf }, (handleFrames s (feed s.rbuf c1).frames).2.1) := by
    simp [bytesStep, hr1, he1]
  obtain ⟨fa, fb, fc⟩ := feed_split s.rbuf c1 c2 he1
  rw [hs1]
  generalize hA : handleFrames s (feed s.rbuf c1).frames = A at *
  have hcomb : handleFrames s (feed s.rbuf (c1 ++ c2)).frames =
      ((handleFrames A.1 (feed (feed s.rbuf c1).buf c2).frames).1, A.2.1 ++ (handleFrames A.1 (feed (feed s.rbuf c1).buf c2).frames).2.1,
       (handleFrames A.1 (feed (feed s.rbuf c1).buf c2).frames).2.2) := by
    rw [fa, handleFrames_append, hA, hr1]; simp
  have hsec := handleFrames_rbuf (feed (feed s.rbuf c1).buf c2).frames A.1 (feed s.rbuf c1).buf
  simp only [bytesStep, hcomb, hsec, fb]
  generalize hB : handleFrames A.1 (feed (feed s.rbuf c1).buf c2).frames = B at *
  by_cases hrb : B.2.2 = true
  · simp only [hrb, if_true, lostStep_rbuf]
    simp
  · have hrb' : B.2.2 = false := by simpa using hrb
    simp only [hrb', Bool.false_eq_true, if_false]
    by_cases hex : (feed (feed s.rbuf c1).buf c2).exceeded = true
    · simp only [hex, if_true]
      simp
    · have hex' : (feed (feed s.rbuf c1).buf c2).exceeded = false := by simpa using hex
      simp only [hex', Bool.false_eq_true, if_false]
      simp [fc hex']

end Afkak.BrokerClient
