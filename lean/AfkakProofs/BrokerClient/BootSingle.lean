import Afkak.Monitor.C06
import AfkakProofs.BrokerClient.Frame
/-!
# Single-request use of a bootstrap connection: the response is delivered whatever follows it
-/
namespace Afkak.Bootstrap
open Afkak.Frame Afkak.Monitor.C06

/-- all firings of a trace, in order -/
def firesOf (tr : List (Ev × List Ob)) : List (Nat × Res) := tr.flatMap (fun t => bootFires t.2)

/-- once nothing is pending, bytes fire nothing and nothing becomes pending -/
theorem deliver_empty (fs : List Bytes) (losing : Bool) :
    (deliver [] losing fs).1 = [] ∧ bootFires (deliver [] losing fs).2.2 = [] := by
  induction fs generalizing losing with
  | nil => simp [deliver, bootFires]
  | cons f fs ih =>
    simp only [deliver, stringReceived, List.any_nil, Bool.false_eq_true, if_false]
    obtain ⟨i1, i2⟩ := ih true
    exact ⟨i1, by simp [bootFires, i2]⟩

theorem bootFires_append' (a b : List Ob) : bootFires (a ++ b) = bootFires a ++ bootFires b := by
  induction a with
  | nil => rfl
  | cons o a ih => cases o <;> simp_all [bootFires]

theorem idle_no_fires (chunks : List Bytes) : ∀ (s : St), s.pending = some [] →
    firesOf (trace s (chunks.map .bytesIn)) = [] := by
  induction chunks with
  | nil => intro s _; simp [trace, firesOf]
  | cons c cs ih =>
    intro s hp
    simp only [List.map_cons, trace, firesOf, List.flatMap_cons]
    have hstep : bootFires (step s (.bytesIn c)).2 = [] ∧ (step s (.bytesIn c)).1.pending = some [] := by
      simp only [step, hp]
      split
      · simp [bootFires, hp]
      · obtain ⟨d1, d2⟩ := deliver_empty (feed s.rbuf c).frames s.losing
        refine ⟨?_, by simp [d1]⟩
        rw [bootFires_append', d2]
        split <;> simp [bootFires]
    rw [hstep.1]
    exact ih _ hstep.2


theorem encode_length (f : Bytes) : (encode f).length = 4 + f.length := by simp [encode, prefix32]; omega

/-- a proper prefix of a stream that starts with a legal frame, too short to contain that frame,
    gives the loop nothing to do -/
theorem parse_incomplete (maxLen : Nat) (hm : maxLen < 2 ^ 32) (f1 rest data y : Bytes) (hf : f1.length ≤ maxLen)
    (he : data ++ y = encode f1 ++ rest) (hl : data.length < 4 + f1.length) :
    parse maxLen data = ⟨[], data, false⟩ := by
  match data, he, hl with
  | [], _, _ => simp [parse_short]
  | [_], _, _ => simp [parse_short]
  | [_, _], _, _ => simp [parse_short]
  | [_, _, _], _, _ => simp [parse_short]
  | a :: b :: c :: d :: body, he, hl =>
    obtain ⟨a', b', c', d', hp, hv⟩ := prefix32_eq f1.length
    simp only [encode, hp, List.cons_append, List.nil_append, List.cons.injEq] at he
    obtain ⟨rfl, rfl, rfl, rfl, _⟩ := he
    have hv' := hv (by omega)
    rw [parse_cons4, hv']
    simp only [List.length_cons] at hl
    have h1 : ¬ f1.length > maxLen := by omega
    have h2 : body.length < f1.length := by omega
    simp [h1, h2]

theorem complete_split (f1 rest data y : Bytes) (he : data ++ y = encode f1 ++ rest) (hl : 4 + f1.length ≤ data.length) :
    data = encode f1 ++ data.drop (4 + f1.length) := by
  have h1 : (data ++ y).take (4 + f1.length) = data.take (4 + f1.length) := List.take_append_of_le_length hl
  have h2 : (encode f1 ++ rest).take (4 + f1.length) = encode f1 := by
    rw [← encode_length f1]; exact List.take_left' rfl
  rw [he, h2] at h1
  conv => lhs; rw [← List.take_append_drop (4 + f1.length) data]
  rw [← h1]

/-- Single-request use of a bootstrap connection (what `KafkaClient` does): one request, then the
    broker's bytes.  If the FIRST packet of the stream is a legal frame carrying the request's
    correlation id, the request Deferred fires exactly once, with exactly that packet — however the
    stream is cut into chunks and whatever follows that packet (further, duplicate or unsolicited
    packets, over-long prefixes). -/
theorem bootstrap_single_core (cid f1 rest : Bytes) (hf : f1.length ≤ Afkak.Consts.kafkaMaxLength) (hcid : respCid f1 = cid) :
    ∀ (chunks : List Bytes) (s : St), s.pending = some [⟨cid, 0, false⟩] → s.losing = false →
      s.rbuf.length < 4 + f1.length → s.rbuf ++ chunks.flatten = encode f1 ++ rest →
      firesOf (trace s (chunks.map .bytesIn)) = [(0, .ok f1)] := by
  have hm : Afkak.Consts.kafkaMaxLength < 2 ^ 32 := by decide
  intro chunks
  induction chunks with
  | nil =>
    intro s _ _ hl he
    simp only [List.flatten_nil, List.append_nil] at he
    have := congrArg List.length he
    simp only [List.length_append, encode_length] at this
    omega
  | cons c cs ih =>
    intro s hp hlo hl he
    simp only [List.flatten_cons, ← List.append_assoc] at he
    simp only [List.map_cons, trace, firesOf, List.flatMap_cons]
    have hfeed := feedWith_eq_parse Afkak.Consts.kafkaMaxLength s.rbuf c
    by_cases hshort : (s.rbuf ++ c).length < 4 + f1.length
    · have hpi := parse_incomplete _ hm f1 rest (s.rbuf ++ c) cs.flatten hf he hshort
      have hstep : (step s (.bytesIn c)) = ({ s with rbuf := s.rbuf ++ c }, []) := by
        simp only [step, hp, hlo, Bool.false_eq_true, if_false, feed, hfeed, hpi]
        simp [deliver]
      rw [hstep]
      simp only [bootFires, List.nil_append]
      exact ih _ hp hlo hshort he
    · have hsplit := complete_split f1 rest (s.rbuf ++ c) cs.flatten he (by omega)
      have hpe := parse_encodeAll _ hm [f1] (by simpa using hf) ((s.rbuf ++ c).drop (4 + f1.length))
      simp only [encodeAll, List.flatMap_cons, List.flatMap_nil, List.append_nil] at hpe
      rw [← hsplit] at hpe
      have hfr : (feed s.rbuf c).frames = f1 :: (parse Afkak.Consts.kafkaMaxLength ((s.rbuf ++ c).drop (4 + f1.length))).frames := by
        simp only [feed, hfeed, hpe]; rfl
      obtain ⟨e1, e2⟩ := deliver_empty (parse Afkak.Consts.kafkaMaxLength ((s.rbuf ++ c).drop (4 + f1.length))).frames false
      have hdel : (deliver [⟨cid, 0, false⟩] false (feed s.rbuf c).frames).1 = [] ∧
          bootFires (deliver [⟨cid, 0, false⟩] false (feed s.rbuf c).frames).2.2 = [(0, .ok f1)] := by
        rw [hfr]
        simp only [deliver, stringReceived, hcid, List.any_cons, beq_self_eq_true, List.any_nil, Bool.or_false, if_true]
        simp [e1, bootFires_append', e2, bootFires]
      have hstep : bootFires (step s (.bytesIn c)).2 = [(0, .ok f1)] ∧ (step s (.bytesIn c)).1.pending = some [] := by
        simp only [step, hp, hlo, Bool.false_eq_true, if_false]
        refine ⟨?_, by simp [hdel.1]⟩
        rw [bootFires_append', hdel.2]
        split <;> simp [bootFires]
      have hidle := idle_no_fires cs _ hstep.2
      simp only [firesOf] at hidle
      rw [hstep.1, hidle]
      rfl

end Afkak.Bootstrap
