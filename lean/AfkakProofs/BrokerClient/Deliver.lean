import Afkak.BrokerClient

namespace Afkak.BrokerClient
open Afkak.Frame Afkak.Consts

/-- the packets of one chunk up to the one that answers `rq`: if none of the earlier packets is too short to
    carry an id and none carries `rq`'s id, the live request `rq` is fired with exactly the answering packet -/
theorem handleFrames_delivers (rq : Req) (f : Bytes) (post : List Bytes) :
    ∀ (pre : List Bytes) (s : St), rq ∈ s.reqs → rq.cancelled = false →
      (∀ b ∈ pre, ∃ j, corrId b = some j ∧ j ≠ rq.id) → corrId f = some rq.id →
      Ob.fire rq.serial rq.id (.ok f) ∈ (handleFrames s (pre ++ f :: post)).2.1 := by
  intro pre
  induction pre with
  | nil =>
    intro s hrq hlive _ hf
    simp only [List.nil_append, handleFrames, hf, handleResponse]
    have hany : s.reqs.any (fun r => r.id == rq.id) = true := by
      rw [List.any_eq_true]; exact ⟨rq, hrq, by simp⟩
    simp only [hany, if_true, List.mem_append, List.mem_map, List.mem_filter]
    left
    exact ⟨rq, ⟨hrq, by simp [hlive]⟩, rfl⟩
  | cons b pre ih =>
    intro s hrq hlive hpre hf
    obtain ⟨j, hj, hne⟩ := hpre b (by simp)
    simp only [List.cons_append, handleFrames, hj, List.mem_append]
    right
    apply ih
    · simp only [handleResponse, List.mem_filter]
      exact ⟨hrq, by simpa using fun h => hne h.symm⟩
    · exact hlive
    · intro b' hb'; exact hpre b' (by simp [hb'])
    · exact hf

end Afkak.BrokerClient

