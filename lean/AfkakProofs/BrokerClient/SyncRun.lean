import AfkakProofs.BrokerClient.SyncFlat
/-!
# Endpoints that answer `connect()` synchronously: whole runs

(WORK IN PROGRESS, imported by nothing: the building blocks below compile; the per-event theorem `stepR_sync` and the
run-level theorem are still to be written.)

Without callbacks, a run of the re-entrant model with ANY sequence of endpoint modes (`syncMode none|ok|fail`) is a run
of the FLAT model: every step that starts a connection attempt while the endpoint answers synchronously is the flat
step immediately followed by the flat `connOk` / `connFail` (`stepS`, `expand`).  So every theorem about flat runs
(exact resend, reconnect-iff, back-off, close) holds of such runs as it stands — of the expanded event list.
-/
namespace Afkak.BrokerClientR
open Afkak.Frame Afkak.BrokerClient Afkak.Consts

/-- the flat step(s) a synchronous outcome amounts to, after the attempt was started from `c` -/
def outcome (cfg : Cfg) (sy : Sync) (r : St × List Ob) : St × List Ob :=
  match sy with
  | .none => r
  | .ok => ((step cfg r.1 .connOk).1, r.2 ++ (step cfg r.1 .connOk).2)
  | .fail => ((step cfg r.1 .connFail).1, r.2 ++ (step cfg r.1 .connFail).2)

/-- `tryConnect()` with an endpoint in mode `sy` -/
def dialFlat (cfg : Cfg) (sy : Sync) (c : St) : St × List Ob := outcome cfg sy (tryConnect c)

theorem exec_dial_flat (cfg : Cfg) (n : Nat) (s : StR) (hh : NoHooks s) (hc : s.core.closed = false)
    (hpw : s.core.reqs.Pairwise (fun a b => a.serial < b.serial)) (hun : ∀ r ∈ s.core.reqs, r.sent = false)
    (hn : s.core.reqs.length + 3 ≤ n) :
    exec cfg (n + 1) s .dial = ({ s with core := (dialFlat cfg s.sync s.core).1 }, obs (dialFlat cfg s.sync s.core).2) := by
  cases hsy : s.sync with
  | none =>
    rw [exec_dial_eq]
    simp [hc, hsy, dialFlat, outcome, tryConnect, obs]
  | ok =>
    have := dial_ok_is_flat cfg n s hh hc hsy hpw hun hn
    rw [this]; simp [dialFlat, outcome, hsy]
  | fail =>
    have := dial_fail_is_flat cfg n s hc hsy
    rw [this]; simp [dialFlat, outcome, hsy]

/-- `_connectionLost` with an endpoint in mode `sy` -/
def lostFlat (cfg : Cfg) (sy : Sync) (c : St) : St × List Ob :=
  if c.closed then (lostCore c, [.down])
  else if (lostCore c).reqs.isEmpty then (lostCore c, [])
  else dialFlat cfg sy { lostCore c with failures := 0 }

theorem lostFlat_none (cfg : Cfg) (c : St) : lostFlat cfg .none c = lostStep c := by
  simp only [lostFlat, lostStep, lostCore, dialFlat, outcome, connect_]
  by_cases hc : c.closed = true
  · simp [hc]
  · simp only [hc]

theorem lostCore_pw (c : St) (h : c.reqs.Pairwise (fun a b => a.serial < b.serial)) :
    (lostCore c).reqs.Pairwise (fun a b => a.serial < b.serial) :=
  pw_fm (R := fun a b => a.serial < b.serial) c.reqs (fun r => !r.cancelled) (fun r => { r with sent := false }) (by intro a b h; exact h) h

theorem lostCore_len (c : St) : (lostCore c).reqs.length ≤ c.reqs.length := by
  simp only [lostCore, List.length_map]; exact List.length_filter_le _ _

theorem exec_lost_flat (cfg : Cfg) (n : Nat) (s : StR) (hh : NoHooks s)
    (hpw : s.core.reqs.Pairwise (fun a b => a.serial < b.serial)) (hn : s.core.reqs.length + 4 ≤ n) :
    exec cfg (n + 1) s .lost = ({ s with core := (lostFlat cfg s.sync s.core).1 }, obs (lostFlat cfg s.sync s.core).2) := by
  rw [exec_lost_eq]
  simp only [lostFlat]
  split
  · simp [obs]
  · split
    · simp [obs]
    · rename_i hc _
      obtain ⟨m, rfl⟩ : ∃ m, n = m + 1 := ⟨n - 1, by omega⟩
      have hlen := lostCore_len s.core
      have := exec_dial_flat cfg m { s with core := { lostCore s.core with failures := 0 } } hh
        (by simpa [lostCore] using hc) (lostCore_pw s.core hpw) (by simp only [lostCore, List.mem_map]; rintro r ⟨x, _, rfl⟩; rfl) (by simp only; omega)
      rw [this]

/-- the flat step on `e`, immediately followed by the outcome of the attempt if the step started one while the
    endpoint answers synchronously -/
def stepS (cfg : Cfg) (sy : Sync) (c : St) (e : Ev) : St × List Ob :=
  if (step cfg c e).1.connector = .attempt ∧ c.connector ≠ .attempt then outcome cfg sy (step cfg c e) else step cfg c e

theorem stepS_none (cfg : Cfg) (c : St) (e : Ev) : stepS cfg .none c e = step cfg c e := by
  simp [stepS, outcome]

theorem stepS_nodial (cfg : Cfg) (sy : Sync) (c : St) (e : Ev) (h : (step cfg c e).1.connector = c.connector) :
    stepS cfg sy c e = step cfg c e := by
  simp only [stepS, h]
  split
  · rename_i hh; exact absurd hh.1 hh.2
  · rfl

theorem stepS_nodial' (cfg : Cfg) (sy : Sync) (c : St) (e : Ev)
    (h : ¬ ((step cfg c e).1.connector = .attempt ∧ c.connector ≠ .attempt)) : stepS cfg sy c e = step cfg c e := by
  simp only [stepS, if_neg h]

theorem outcome_prefix (cfg : Cfg) (sy : Sync) (c : St) (a b : List Ob) :
    outcome cfg sy (c, a ++ b) = ((outcome cfg sy (c, b)).1, a ++ (outcome cfg sy (c, b)).2) := by
  cases sy <;> simp [outcome, List.append_assoc]

/-- `_connectionLost` with a synchronous endpoint is the flat `_connectionLost` followed by the outcome of the attempt,
    if one was started -/
theorem lostFlat_eq (cfg : Cfg) (sy : Sync) (c : St) (hco : c.connector ≠ .attempt) :
    lostFlat cfg sy c =
      if (lostStep c).1.connector = .attempt ∧ c.connector ≠ .attempt then outcome cfg sy (lostStep c) else lostStep c := by
  rw [← lostFlat_none cfg c]
  simp only [lostFlat]
  have hcon : (lostCore c).connector = c.connector := rfl
  have hno : ¬ (c.connector = .attempt ∧ c.connector ≠ .attempt) := fun h => h.2 h.1
  by_cases hc : c.closed = true
  · simp only [hc, if_true, hcon, if_neg hno]
  · simp only [hc, Bool.false_eq_true, if_false]
    by_cases he : (lostCore c).reqs.isEmpty = true
    · simp only [he, if_true, hcon, if_neg hno]
    · simp only [he, Bool.false_eq_true, if_false]
      have : (dialFlat cfg Sync.none { lostCore c with failures := 0 }).1.connector = .attempt := by
        simp [dialFlat, outcome, tryConnect]
      rw [if_pos ⟨this, hco⟩]
      simp only [dialFlat, outcome]

/-- what `bytesIn` does after the guards when the endpoint is in mode `sy` -/
def flatFramesS (cfg : Cfg) (sy : Sync) (c : St) (conn : Nat) (fs : List Bytes) (f : Fed) : St × List Ob :=
  let r := handleFrames c fs
  if r.2.2 then ((lostFlat cfg sy r.1).1, r.2.1 ++ (lostFlat cfg sy r.1).2)
  else if f.exceeded then ({ r.1 with rbuf := f.buf, losing := true }, r.2.1 ++ [.lose conn])
  else ({ r.1 with rbuf := f.buf }, r.2.1)

theorem flatFramesS_cons_some (cfg : Cfg) (sy : Sync) (c : St) (conn : Nat) (b : Bytes) (bs : List Bytes) (f : Fed) (id : Int)
    (h : corrId b = some id) :
    flatFramesS cfg sy c conn (b :: bs) f =
      ((flatFramesS cfg sy (handleResponse c id b).1 conn bs f).1,
       (handleResponse c id b).2 ++ (flatFramesS cfg sy (handleResponse c id b).1 conn bs f).2) := by
  simp only [flatFramesS, handleFrames, h]
  split <;> (try split) <;> simp [List.append_assoc]

theorem exec_frames_sync (cfg : Cfg) (conn : Nat) (f : Fed) : ∀ (fs : List Bytes) (n : Nat) (s : StR), NoHooks s → s.sync ≠ .none →
    s.core.reqs.Pairwise (fun a b => a.serial < b.serial) →
    fs.length + 2 * s.core.reqs.length + 8 ≤ n →
    exec cfg n s (.frames conn fs f) =
      ({ s with core := (flatFramesS cfg s.sync s.core conn fs f).1 }, obs (flatFramesS cfg s.sync s.core conn fs f).2) := by
  intro fs
  induction fs with
  | nil =>
    intro n s _ _ _ hn
    match n, hn with
    | n + 1, _ =>
      rw [exec_frames_nil]
      simp only [flatFramesS, handleFrames]
      split <;> simp [obs]
  | cons b bs ih =>
    intro n s hh hsy hpw hn
    match n, hn with
    | n + 2, hn =>
      rw [exec_frames_cons]
      cases hid : corrId b with
      | none =>
        simp only [hsy, if_false]
        rw [exec_lost_flat cfg n s hh hpw (by simp at hn; omega)]
        simp [flatFramesS, handleFrames, hid, obs]
      | some id =>
        simp only
        rw [flatFramesS_cons_some _ _ _ _ _ _ _ id hid]
        have hlen : (s.core.reqs.filter (fun r => r.id != id)).length ≤ s.core.reqs.length := List.length_filter_le _ _
        have hn' : bs.length + 2 * (s.core.reqs.filter (fun r => r.id != id)).length + 8 ≤ n + 1 := by
          simp at hn; omega
        have hpw' : (s.core.reqs.filter (fun r => r.id != id)).Pairwise (fun a b => a.serial < b.serial) := hpw.filter _
        by_cases hany : s.core.reqs.any (fun r => r.id == id) = true
        · rw [if_pos hany]
          have hfl : ((s.core.reqs.filter (fun r => r.id == id && !r.cancelled)).map (fun r => (r.serial, r.id))).length + 2 ≤ n + 1 := by
            have : (s.core.reqs.filter (fun r => r.id == id && !r.cancelled)).length ≤ s.core.reqs.length := List.length_filter_le _ _
            simp at hn ⊢; omega
          rw [exec_fireAll cfg _ _ (n + 1) _ (by exact hh) hfl]
          simp only
          rw [ih (n + 1) _ (by exact hh) (by exact hsy) (by exact hpw') hn']
          simp [handleResponse, hany, obs, List.map_map, Function.comp_def]
        · rw [if_neg hany]
          simp only
          rw [ih (n + 1) _ (by exact hh) (by exact hsy) (by exact hpw') hn']
          simp [handleResponse, hany, obs]

/-- `makeRequest` without a callback, whatever the endpoint mode (`exec … (.make …)` never dials synchronously by itself) -/
theorem exec_make_flat (cfg : Cfg) (k : Nat) (s : StR) (id : Int) (ex : Bool) (hh : NoHooks s) :
    (exec cfg (k + 2) s (.make id ex none)).1 = { s with core := (step cfg s.core (.make id ex)).1 } ∧
    plain (exec cfg (k + 2) s (.make id ex none)).2 = (step cfg s.core (.make id ex)).2 := by
  have hh' : s.hooks = [] := hh
  have hfire : ∀ (s' : StR) (k' : Nat) (i : Int) (r : Res), s'.hooks = [] →
      exec cfg (k + 1) s' (.fire k' i r) = (s', [.ob (.fire k' i r)]) := fun s' k' i r h' => exec_fire cfg k s' h' k' i r
  by_cases hd : s.core.reqs.any (fun r => r.id == id) = true
  · simp [exec, step, hd, plain]
  · by_cases hc : s.core.closed = true
    · simp [exec, step, hd, hc, hh', hfire, plain]
    · cases hp : s.core.proto with
      | some conn =>
        by_cases hw : s.core.wfail = true
        · simp [exec, step, hd, hc, hp, hw, hh', hfire, plain, sendObs, keepAfterSend]
        · cases ex <;> by_cases hl : s.core.losing = true <;>
            simp [exec, step, hd, hc, hp, hw, hl, hh', hfire, plain, sendObs, keepAfterSend]
      | none =>
        by_cases hco : s.core.connector = .none
        · simp [exec, step, hd, hc, hp, hco, hh', plain, plain_append, plain_obs, connect_, tryConnect, obs]
        · simp [exec, step, hd, hc, hp, hco, hh', plain]

/-- the events whose handling never looks at the endpoint mode -/
def modeFree : Ev → Bool
  | .cancel _ | .close | .connOk | .connFail | .disconnect | .updateMetadata _ _ | .writeFail _ => true
  | _ => false

/-- `stepR_flat` for the mode-free events, whatever the endpoint mode -/
theorem stepR_modeFree (cfg : Cfg) (s : StR) (e : Ev) (hm : modeFree e = true) (hh : NoHooks s) (hst : s.stubborn = false)
    (h : SInv s.core) (fuel : Nat) (hf : need s e ≤ fuel) :
    (stepRWith cfg fuel s (.flat e)).1 = { s with core := (step cfg s.core e).1 } ∧
    plain (stepRWith cfg fuel s (.flat e)).2 = (step cfg s.core e).2 := by
  have hh' : s.hooks = [] := hh
  obtain ⟨n, rfl⟩ : ∃ n, fuel = n + 1 := ⟨fuel - 1, by simp [need] at hf; cases e <;> simp [need] at hf <;> omega⟩
  cases e with
  | make id ex => simp [modeFree] at hm
  | advance dt => simp [modeFree] at hm
  | bytesIn c => simp [modeFree] at hm
  | lost => simp [modeFree] at hm
  | cancel id =>
    by_cases hany : s.core.reqs.any (fun r => r.id == id && !r.cancelled) = true
    · simp only [stepRWith, exec, step, hany, if_true]
      have hlen : ((s.core.reqs.filter (fun r => r.id == id && !r.cancelled)).map (fun r => (r.serial, r.id))).length + 2 ≤ n := by
        have : (s.core.reqs.filter (fun r => r.id == id && !r.cancelled)).length ≤ s.core.reqs.length := List.length_filter_le _ _
        simp [need] at hf ⊢; omega
      rw [exec_fireAll cfg _ _ n _ (by exact hh) hlen]
      simp [plain_map_ob, List.map_map, Function.comp_def]
    · simp [stepRWith, exec, step, hany, plain]
  | close =>
    by_cases hc : s.core.closed = true
    · simp [stepRWith, exec, step, hc, plain]
    · have hpw := h.serials
      have hn : s.core.reqs.length + 2 ≤ n := by simp [need] at hf; omega
      have hcl : ∀ (s' : StR), s'.hooks = [] → s'.core.reqs = s.core.reqs →
          exec cfg n s' .closeLoop = ({ s' with core := { s'.core with reqs := [] } },
            obs (((if closePopLast then s.core.reqs.reverse else s.core.reqs).filter (fun r => !r.cancelled)).map
              (fun r => Ob.fire r.serial r.id (.err .clientError)))) :=
        fun s' h1 h2 => exec_closeLoop cfg _ s.core.reqs n s' rfl h1 h2 hpw hn
      cases hp : s.core.proto with
      | some conn =>
        simp only [stepRWith, exec, step, hc, hp, if_false]
        rw [hcl { s with core := { s.core with closed := true, losing := true, proto := some conn } } hh' rfl]
        simp [plain, plain_append, plain_obs]
      | none =>
        simp only [stepRWith, exec, step, hc, hp, if_false]
        cases hco : s.core.connector with
        | none =>
          simp only []
          rw [hcl { s with core := { s.core with closed := true, connector := .none, proto := none } } hh' rfl]
          simp [hst, plain, plain_append, plain_obs]
        | attempt =>
          simp only []
          rw [hcl { s with core := { s.core with closed := true, connector := .stale, proto := none } } hh' rfl]
          simp [hst, plain, plain_append, plain_obs]
        | backoff d =>
          simp only []
          rw [hcl { s with core := { s.core with closed := true, connector := .stale, proto := none } } hh' rfl]
          simp [hst, plain, plain_append, plain_obs]
        | stale =>
          simp only []
          rw [hcl { s with core := { s.core with closed := true, connector := .stale, proto := none } } hh' rfl]
          simp [hst, plain, plain_append, plain_obs]
  | connOk =>
    by_cases hatt : s.core.connector = .attempt
    · have hp : s.core.proto = none := by
        cases hq : s.core.proto with
        | none => rfl
        | some c => have := h.connConnector (by simp [hq]); simp_all
      have hcl : s.core.closed = false := by
        cases hc : s.core.closed
        · rfl
        · have := h.closedConnector hc; simp_all
      have hun : ∀ r ∈ s.core.reqs, r.sent = false := h.discUnsent hp
      simp only [stepRWith, step, hatt, if_true, hcl, Bool.false_eq_true, if_false, sendQueued]
      have hn : s.core.reqs.length + 3 ≤ n + 1 := by simp [need] at hf; omega
      have key := exec_sendLoop cfg s.core.nconn s.core.reqs [] (n + 1)
        { s with core := { s.core with failures := 0, connector := .none, proto := some s.core.nconn, nconn := s.core.nconn + 1, losing := false, rbuf := [], closed := false } }
        (by exact hh) (by simp) (by simpa using h.serials) hun hn
      rw [key]
      have hfilt : s.core.reqs.filter (fun r => r.sent || keepAfterSend { s.core with failures := 0, connector := .none, proto := some s.core.nconn, nconn := s.core.nconn + 1, losing := false, rbuf := [], closed := false } r)
          = s.core.reqs.filter (fun r => keepAfterSend { s.core with failures := 0, connector := .none, proto := some s.core.nconn, nconn := s.core.nconn + 1, losing := false, rbuf := [], closed := false } r) := by
        apply List.filter_congr; intro r hr; simp [hun r hr]
      have hflat : s.core.reqs.flatMap (fun r => if r.sent = true then [] else sendObs { s.core with failures := 0, connector := .none, proto := some s.core.nconn, nconn := s.core.nconn + 1, losing := false, rbuf := [], closed := false } s.core.nconn r)
          = s.core.reqs.flatMap (fun r => sendObs { s.core with failures := 0, connector := .none, proto := some s.core.nconn, nconn := s.core.nconn + 1, losing := false, rbuf := [], closed := false } s.core.nconn r) := by
        have hgen : ∀ (l : List Req), (∀ r ∈ l, r.sent = false) → ∀ (g : Req → List Ob),
            l.flatMap (fun r => if r.sent = true then [] else g r) = l.flatMap g := by
          intro l hl g
          induction l with
          | nil => rfl
          | cons a l ih => simp [hl a (by simp), ih (fun r hr => hl r (by simp [hr]))]
        exact hgen _ hun _
      simp only [List.nil_append]
      rw [hfilt, hflat]
      exact ⟨by simp, plain_obs _⟩
    · simp [stepRWith, step, hatt, plain]
  | connFail => simp [stepRWith, plain_obs]
  | disconnect => simp [stepRWith, plain_obs]
  | updateMetadata a b => simp [stepRWith, plain_obs]
  | writeFail b => simp [stepRWith, plain_obs]

end Afkak.BrokerClientR
