import AfkakProofs.BrokerClient.Answered
import AfkakProofs.BrokerClient.SimC06
import AfkakProofs.BrokerClient.MonC06
namespace Afkak.BrokerClient
open Afkak.Frame Afkak.Consts Afkak.Monitor.C06

theorem nmake_step (cfg : Cfg) (s : St) (e : Ev) (hne : ∀ id ex, e ≠ .make id ex) : (step cfg s e).1.nmake = s.nmake := by
  cases e with
  | make id ex => exact absurd rfl (hne id ex)
  | cancel id => simp only [step]; split <;> rfl
  | connOk =>
    simp only [step]
    split
    · split <;> rfl
    · rfl
  | connFail =>
    simp only [step]
    split
    · split <;> rfl
    · rfl
  | advance dt =>
    simp only [step, tryConnect]
    split
    · rfl
    · split
      · split <;> rfl
      · rfl
  | bytesIn chunk =>
    simp only [step]
    split
    · rfl
    · split
      · rfl
      · have hf := handleFrames_frame s (feed s.rbuf chunk).frames
        have hn : (handleFrames s (feed s.rbuf chunk).frames).1.nmake = s.nmake := by rw [hf]
        split
        · simp only [lostStep, connect_, tryConnect]
          split
          · exact hn
          · split <;> exact hn
        · split <;> exact hn
  | lost =>
    simp only [step]
    split
    · rfl
    · simp only [lostStep, connect_, tryConnect]
      split
      · rfl
      · split <;> rfl
  | close =>
    simp only [step]
    split
    · rfl
    · split
      · rfl
      · split <;> rfl
  | disconnect => simp only [step]; split <;> rfl
  | updateMetadata a b => rfl
  | writeFail b => rfl

theorem nmake_run (cfg : Cfg) (es : List Ev) : ∀ s : St, (∀ e ∈ es, ∀ id ex, e ≠ .make id ex) → (run cfg s es).nmake = s.nmake := by
  induction es with
  | nil => intro s _; rfl
  | cons e es ih =>
    intro s h
    simp only [run]
    rw [ih _ (fun e' he' => h e' (List.mem_cons_of_mem _ he')), nmake_step cfg s e (h e (by simp))]

theorem rescue_no_make (cfg : Cfg) (reply : Int → Bytes) (s : St) : ∀ e ∈ rescue cfg reply s, ∀ id ex, e ≠ .make id ex := by
  intro e he id ex
  simp only [rescue, List.mem_append] at he
  rcases he with he | he
  · simp only [rescuePre] at he
    split at he
    · simp at he; rcases he with rfl | rfl <;> simp
    · split at he
      · simp at he; rcases he with rfl | rfl <;> simp
      · simp at he; subst he; simp
  · split at he
    · simp only [dialAndAnswer, replies, replyEv, List.mem_cons, List.mem_map] at he
      rcases he with rfl | ⟨r, _, rfl⟩ <;> simp
    · simp at he

/-- after `rescue`, every Deferred handed out has fired -/
theorem rescue_all_fired (cfg : Cfg) (host port : Nat) (evs : List Ev) (reply : Int → Bytes)
    (hc : (run cfg (St.init host port) evs).closed = false)
    (hg : ∀ r ∈ (run cfg (St.init host port) evs).reqs, GoodReply reply r.id) :
    ∀ k, k < (run cfg (St.init host port) evs).nmake →
      k ∈ firedOf (trace cfg (St.init host port) (evs ++ rescue cfg reply (run cfg (St.init host port) evs))) := by
  intro k hk
  let evs' := evs ++ rescue cfg reply (run cfg (St.init host port) evs)
  have hs := sinv_run cfg (St.init host port) evs (sinv_init host port)
  have hempty : (run cfg (St.init host port) evs').reqs = [] := by
    simp only [evs', run_app]
    exact (rescue_answers cfg reply _ hs hc hg).1
  have hnm : (run cfg (St.init host port) evs').nmake = (run cfg (St.init host port) evs).nmake := by
    simp only [evs', run_app]
    exact nmake_run cfg _ _ (rescue_no_make cfg reply _)
  have hrun := sim06_run cfg (St.init host port) evs' (sinv_init host port)
  rw [abs06_init] at hrun
  have hi := minv_run _ MSt.init _ [] minv_init hrun
  simp only [List.nil_append] at hi
  rcases hi.cover k (by rw [show (abs06 (run cfg (St.init host port) evs')).nmake = (run cfg (St.init host port) evs').nmake from rfl, hnm]; exact hk) with ⟨l, hl, _⟩ | h'
  · have : (abs06 (run cfg (St.init host port) evs')).live = [] := by simp [abs06, absLive, hempty]
    rw [this] at hl; cases hl
  · exact h'

end Afkak.BrokerClient
