import Afkak.BrokerClientR
import AfkakProofs.BrokerClient.Inv
/-!
# Without callbacks the re-entrant model is the flat model

`exec`'s loops (`sendLoop`, `closeLoop`, `frames`, `fireAll`) with no callback registered compute what the
flat model's `sendQueued`, `close`, `handleFrames` compute; hence `traceR_flat`: for every list of flat events
the observations of `Afkak/BrokerClientR.lean` (markers dropped) are those of `Afkak/BrokerClient.lean`, from
some amount of fuel on.  This is what ties the theorems (about the flat model) to the model the driver runs.
-/
namespace Afkak.BrokerClientR
open Afkak.Frame Afkak.BrokerClient Afkak.Consts

@[simp] theorem plain_nil : plain [] = [] := rfl
@[simp] theorem plain_ob (o : Ob) (l : List ObR) : plain (.ob o :: l) = o :: plain l := rfl
@[simp] theorem plain_made (k i) (l : List ObR) : plain (.made k i :: l) = plain l := rfl
@[simp] theorem plain_closing (l : List ObR) : plain (.closing :: l) = plain l := rfl
theorem plain_append (a b : List ObR) : plain (a ++ b) = plain a ++ plain b := by
  induction a with
  | nil => rfl
  | cons o a ih => cases o <;> simp_all [plain]
theorem plain_obs (l : List Ob) : plain (obs l) = l := by
  induction l with
  | nil => rfl
  | cons o l ih => simp_all [obs, plain]
theorem plain_map_ob {α} (l : List α) (f : α → Ob) : plain (l.map (fun x => ObR.ob (f x))) = l.map f := by
  induction l with
  | nil => rfl
  | cons o l ih => simp_all [plain]

@[simp] theorem lookupHook_nil (k : Nat) : lookupHook [] k = none := rfl

/-- no callback registered -/
def NoHooks (s : StR) : Prop := s.hooks = []

/-! unfolding lemmas (one level) -/
theorem exec_fire_eq (cfg : Cfg) (n : Nat) (s : StR) (k : Nat) (id : Int) (r : Res) :
    exec cfg (n + 1) s (.fire k id r) =
      match lookupHook s.hooks k with
      | none => (s, [.ob (.fire k id r)])
      | some h =>
        let r2 := exec cfg n { s with hooks := s.hooks.filter (fun p => p.1 != k) } (.acts h)
        (r2.1, [.ob (.fire k id r), .hookBegin k] ++ r2.2 ++ [.hookEnd]) := rfl

theorem exec_fireAll_nil (cfg : Cfg) (n : Nat) (s : StR) (r : Res) : exec cfg (n + 1) s (.fireAll [] r) = (s, []) := rfl

theorem exec_fireAll_cons (cfg : Cfg) (n : Nat) (s : StR) (p : Nat × Int) (ps : List (Nat × Int)) (r : Res) :
    exec cfg (n + 1) s (.fireAll (p :: ps) r) =
      ((exec cfg n (exec cfg n s (.fire p.1 p.2 r)).1 (.fireAll ps r)).1,
       (exec cfg n s (.fire p.1 p.2 r)).2 ++ (exec cfg n (exec cfg n s (.fire p.1 p.2 r)).1 (.fireAll ps r)).2) := rfl

theorem exec_fire (cfg : Cfg) (n : Nat) (s : StR) (h : NoHooks s) (k : Nat) (id : Int) (r : Res) :
    exec cfg (n + 1) s (.fire k id r) = (s, [.ob (.fire k id r)]) := by
  simp only [NoHooks] at h
  rw [exec_fire_eq]
  simp [lookupHook, h]

theorem exec_fireAll (cfg : Cfg) (r : Res) : ∀ (l : List (Nat × Int)) (n : Nat) (s : StR), NoHooks s → l.length + 2 ≤ n →
    exec cfg n s (.fireAll l r) = (s, l.map (fun p => ObR.ob (.fire p.1 p.2 r))) := by
  intro l
  induction l with
  | nil =>
    intro n s _ hn
    match n, hn with
    | n + 1, _ => rw [exec_fireAll_nil]; rfl
  | cons p ps ih =>
    intro n s h hn
    match n, hn with
    | n + 2, hn =>
      rw [exec_fireAll_cons, exec_fire cfg n s h, ih (n + 1) s h (by simp at hn ⊢; omega)]
      simp


theorem exec_sendLoop_nil (cfg : Cfg) (n : Nat) (s : StR) (conn : Nat) : exec cfg (n + 1) s (.sendLoop conn []) = (s, []) := rfl

theorem exec_sendLoop_cons (cfg : Cfg) (n : Nat) (s : StR) (conn k : Nat) (ks : List Nat) :
    exec cfg (n + 1) s (.sendLoop conn (k :: ks)) =
      match s.core.reqs.filter (fun r => r.serial == k && !r.sent) with
      | [] => exec cfg n s (.sendLoop conn ks)
      | rq :: _ =>
        let r1 : StR × List ObR :=
          if s.core.wfail then
            exec cfg n { s with core := { s.core with reqs := s.core.reqs.filter (fun r => r.serial != k) } } (.fire k rq.id (.err .writeError))
          else
            let w : Ob := if s.core.losing then .writeLost conn k rq.id else .write conn k rq.id
            if rq.expect then
              ({ s with core := { s.core with reqs := s.core.reqs.map (fun r => if r.serial == k then { r with sent := true } else r) } }, [.ob w])
            else
              let r := exec cfg n { s with core := { s.core with reqs := s.core.reqs.filter (fun r => r.serial != k) } } (.fire k rq.id .none)
              (r.1, .ob w :: r.2)
        let r2 := exec cfg n r1.1 (.sendLoop conn ks)
        (r2.1, r1.2 ++ r2.2) := rfl

/-- the table seen by the loop: `pre` (already handled) followed by what is still to be sent -/
theorem lookup_head (pre : List Req) (t : Req) (ts : List Req)
    (hpw : (pre ++ t :: ts).Pairwise (fun a b => a.serial < b.serial)) (ht : t.sent = false) :
    (pre ++ t :: ts).filter (fun r => r.serial == t.serial && !r.sent) = [t] ∧
    (pre ++ t :: ts).filter (fun r => r.serial != t.serial) = pre ++ ts ∧
    (pre ++ t :: ts).map (fun r => if r.serial == t.serial then { r with sent := true } else r) = pre ++ { t with sent := true } :: ts := by
  rw [List.pairwise_append] at hpw
  obtain ⟨_, h2, h3⟩ := hpw
  rw [List.pairwise_cons] at h2
  have hpre : ∀ r ∈ pre, r.serial ≠ t.serial := fun r hr => Nat.ne_of_lt (h3 r hr t (by simp))
  have hts : ∀ r ∈ ts, r.serial ≠ t.serial := fun r hr => (Nat.ne_of_lt (h2.1 r hr)).symm
  refine ⟨?_, ?_, ?_⟩
  · rw [List.filter_append, List.filter_cons]
    have e1 : pre.filter (fun r => r.serial == t.serial && !r.sent) = [] := by
      rw [List.filter_eq_nil_iff]; intro r hr; simp [hpre r hr]
    have e2 : ts.filter (fun r => r.serial == t.serial && !r.sent) = [] := by
      rw [List.filter_eq_nil_iff]; intro r hr; simp [hts r hr]
    simp [e1, e2, ht]
  · rw [List.filter_append, List.filter_cons]
    have e1 : pre.filter (fun r => r.serial != t.serial) = pre := by
      rw [List.filter_eq_self]; intro r hr; simp [hpre r hr]
    have e2 : ts.filter (fun r => r.serial != t.serial) = ts := by
      rw [List.filter_eq_self]; intro r hr; simp [hts r hr]
    simp [e1, e2]
  · rw [List.map_append, List.map_cons]
    have e1 : pre.map (fun r => if r.serial == t.serial then { r with sent := true } else r) = pre := by
      conv => rhs; rw [← List.map_id pre]
      apply List.map_congr_left; intro r hr; simp [hpre r hr]
    have e2 : ts.map (fun r => if r.serial == t.serial then { r with sent := true } else r) = ts := by
      conv => rhs; rw [← List.map_id ts]
      apply List.map_congr_left; intro r hr; simp [hts r hr]
    rw [e1, e2]
    simp

theorem sendObs_core (c c' : St) (conn : Nat) (r : Req) (h1 : c'.wfail = c.wfail) (h2 : c'.losing = c.losing) :
    sendObs c' conn r = sendObs c conn r := by simp [sendObs, h1, h2]

/-- `_sendQueued`'s loop, without callbacks, is the flat `sendQueued` -/
theorem exec_sendLoop (cfg : Cfg) (conn : Nat) : ∀ (todo pre : List Req) (n : Nat) (s : StR), NoHooks s →
    s.core.reqs = pre ++ todo → (pre ++ todo).Pairwise (fun a b => a.serial < b.serial) →
    (∀ r ∈ todo, r.sent = false) → todo.length + 3 ≤ n →
    exec cfg n s (.sendLoop conn (todo.map (·.serial))) =
      ({ s with core := { s.core with reqs := pre ++ (todo.filter (fun r => keepAfterSend s.core r)).map (fun r => { r with sent := true }) } },
       obs (todo.flatMap (fun r => sendObs s.core conn r))) := by
  intro todo
  induction todo with
  | nil =>
    intro pre n s _ hr _ _ hn
    match n, hn with
    | n + 1, _ =>
      rw [List.map_nil, exec_sendLoop_nil]
      simp only [List.filter_nil, List.map_nil, List.append_nil, List.flatMap_nil, obs]
      rw [List.append_nil] at hr
      rw [← hr]
  | cons t ts ih =>
    intro pre n s hh hr hpw hun hn
    match n, hn with
    | n + 2, hn =>
      have ht := hun t (by simp)
      obtain ⟨l1, l2, l3⟩ := lookup_head pre t ts hpw ht
      rw [List.map_cons, exec_sendLoop_cons, hr, l1]
      simp only
      have hn' : ts.length + 3 ≤ n + 1 := by simp at hn ⊢; omega
      by_cases hw : s.core.wfail = true
      · -- the write fails: the entry goes, the Deferred fails
        rw [if_pos hw]
        rw [exec_fire cfg n _ (by exact hh)]
        simp only
        have := ih pre (n + 1) { s with core := { s.core with reqs := (pre ++ t :: ts).filter (fun r => r.serial != t.serial) } }
          hh (by simp only; rw [l2]) (by
            rw [List.pairwise_append] at hpw ⊢
            exact ⟨hpw.1, (List.pairwise_cons.mp hpw.2.1).2, fun a ha b hb => hpw.2.2 a ha b (by simp [hb])⟩)
          (fun r hr' => hun r (by simp [hr'])) hn'
        rw [this]
        simp [keepAfterSend, hw, sendObs, obs]
      · have hw' : s.core.wfail = false := by simpa using hw
        rw [if_neg hw]
        by_cases he : t.expect = true
        · rw [if_pos he]
          simp only
          have := ih (pre ++ [{ t with sent := true }]) (n + 1)
            { s with core := { s.core with reqs := (pre ++ t :: ts).map (fun r => if r.serial == t.serial then { r with sent := true } else r) } }
            hh (by simp only; rw [l3]; simp) (by
              rw [List.append_assoc, List.singleton_append]
              rw [List.pairwise_append] at hpw ⊢
              refine ⟨hpw.1, ?_, ?_⟩
              · have := List.pairwise_cons.mp hpw.2.1
                exact List.pairwise_cons.mpr ⟨this.1, this.2⟩
              · intro a ha b hb
                rcases List.mem_cons.mp hb with rfl | hb
                · exact hpw.2.2 a ha t (by simp)
                · exact hpw.2.2 a ha b (by simp [hb]))
            (fun r hr' => hun r (by simp [hr'])) hn'
          rw [this]
          simp [keepAfterSend, hw', he, sendObs, obs, List.append_assoc]
          by_cases hl : s.core.losing = true <;> simp [hl]
        · have he' : t.expect = false := by simpa using he
          rw [if_neg he]
          rw [exec_fire cfg n _ (by exact hh)]
          simp only
          have := ih pre (n + 1) { s with core := { s.core with reqs := (pre ++ t :: ts).filter (fun r => r.serial != t.serial) } }
            hh (by simp only; rw [l2]) (by
              rw [List.pairwise_append] at hpw ⊢
              exact ⟨hpw.1, (List.pairwise_cons.mp hpw.2.1).2, fun a ha b hb => hpw.2.2 a ha b (by simp [hb])⟩)
            (fun r hr' => hun r (by simp [hr'])) hn'
          rw [this]
          simp [keepAfterSend, hw', he', sendObs, obs]
          by_cases hl : s.core.losing = true <;> simp [hl]


theorem exec_closeLoop_eq (cfg : Cfg) (n : Nat) (s : StR) :
    exec cfg (n + 1) s .closeLoop =
      match (if closePopLast then s.core.reqs.getLast? else s.core.reqs.head?) with
      | none => (s, [])
      | some rq =>
        let s1 := { s with core := { s.core with reqs := s.core.reqs.filter (fun r => r.serial != rq.serial) } }
        let r1 := if rq.cancelled then (s1, []) else exec cfg n s1 (.fire rq.serial rq.id (.err .clientError))
        let r2 := exec cfg n r1.1 .closeLoop
        (r2.1, r1.2 ++ r2.2) := rfl

/-- `close()`'s pop loop, without callbacks, fires what the flat model fires and empties the table -/
theorem exec_closeLoop (cfg : Cfg) : ∀ (m : Nat) (reqs : List Req) (n : Nat) (s : StR), reqs.length = m → NoHooks s →
    s.core.reqs = reqs → reqs.Pairwise (fun a b => a.serial < b.serial) → reqs.length + 2 ≤ n →
    exec cfg n s .closeLoop =
      ({ s with core := { s.core with reqs := [] } },
       obs (((if closePopLast then reqs.reverse else reqs).filter (fun r => !r.cancelled)).map
              (fun r => Ob.fire r.serial r.id (.err .clientError)))) := by
  have hpl : closePopLast = true := by decide
  intro m
  induction m with
  | zero =>
    intro reqs n s hl _ hr _ hn
    have : reqs = [] := List.length_eq_zero_iff.mp hl
    subst this
    match n, hn with
    | n + 1, _ =>
      rw [exec_closeLoop_eq, hr]
      simp only [hpl, if_true, List.getLast?_nil, List.reverse_nil, List.filter_nil, List.map_nil, obs]
      rw [← hr]
  | succ m ih =>
    intro reqs n s hl hh hr hpw hn
    match n, hn with
    | n + 2, hn =>
      rcases List.eq_nil_or_concat reqs with h0 | ⟨init, last, rfl⟩
      · subst h0; simp at hl
      · simp only [List.concat_eq_append] at hl hr hpw hn ⊢
        rw [List.pairwise_append] at hpw
        have hlt : ∀ r ∈ init, r.serial ≠ last.serial := fun r hr' => Nat.ne_of_lt (hpw.2.2 r hr' last (by simp))
        have hfilt : (init ++ [last]).filter (fun r => r.serial != last.serial) = init := by
          rw [List.filter_append]
          have e1 : init.filter (fun r => r.serial != last.serial) = init := by
            rw [List.filter_eq_self]; intro r hr'; simp [hlt r hr']
          simp [e1]
        have hil : init.length = m := by simp at hl; omega
        rw [exec_closeLoop_eq, hr]
        simp only [hpl, if_true, List.getLast?_concat, hfilt]
        have hn' : init.length + 2 ≤ n + 1 := by simp at hn; omega
        by_cases hc : last.cancelled = true
        · rw [if_pos hc]
          simp only
          rw [ih init (n + 1) _ hil (by exact hh) rfl hpw.1 hn']
          simp [hpl, hc, obs]
        · rw [if_neg hc, exec_fire cfg n _ (by exact hh)]
          simp only
          rw [ih init (n + 1) _ hil (by exact hh) rfl hpw.1 hn']
          simp [hpl, hc, obs]


theorem exec_frames_nil (cfg : Cfg) (n : Nat) (s : StR) (conn : Nat) (f : Fed) :
    exec cfg (n + 1) s (.frames conn [] f) =
      (if f.exceeded then ({ s with core := { s.core with rbuf := f.buf, losing := true } }, [.ob (.lose conn)])
       else ({ s with core := { s.core with rbuf := f.buf } }, [])) := rfl

theorem exec_frames_cons (cfg : Cfg) (n : Nat) (s : StR) (conn : Nat) (b : Bytes) (bs : List Bytes) (f : Fed) :
    exec cfg (n + 1) s (.frames conn (b :: bs) f) =
      match corrId b with
      | none =>
        if s.sync = .none then ({ s with core := (lostStep s.core).1 }, .ob .raiseUnderflow :: obs (lostStep s.core).2)
        else ((exec cfg n s .lost).1, .ob .raiseUnderflow :: (exec cfg n s .lost).2)
      | some id =>
        let c1 := { s.core with reqs := s.core.reqs.filter (fun r => r.id != id) }
        let r1 : StR × List ObR :=
          if s.core.reqs.any (fun r => r.id == id) then
            exec cfg n { s with core := c1 }
              (.fireAll ((s.core.reqs.filter (fun r => r.id == id && !r.cancelled)).map (fun r => (r.serial, r.id))) (.ok b))
          else ({ s with core := c1 }, [.ob (.unexpected id)])
        let r2 := exec cfg n r1.1 (.frames conn bs f)
        (r2.1, r1.2 ++ r2.2) := rfl

/-- what the flat `bytesIn` does after the guards, as a function of the packets -/
def flatFrames (c : St) (conn : Nat) (fs : List Bytes) (f : Fed) : St × List Ob :=
  let r := handleFrames c fs
  if r.2.2 then ((lostStep r.1).1, r.2.1 ++ (lostStep r.1).2)
  else if f.exceeded then ({ r.1 with rbuf := f.buf, losing := true }, r.2.1 ++ [.lose conn])
  else ({ r.1 with rbuf := f.buf }, r.2.1)

theorem flatFrames_cons_some (c : St) (conn : Nat) (b : Bytes) (bs : List Bytes) (f : Fed) (id : Int) (h : corrId b = some id) :
    flatFrames c conn (b :: bs) f =
      ((flatFrames (handleResponse c id b).1 conn bs f).1, (handleResponse c id b).2 ++ (flatFrames (handleResponse c id b).1 conn bs f).2) := by
  simp only [flatFrames, handleFrames, h]
  split <;> (try split) <;> simp [List.append_assoc]

theorem exec_frames (cfg : Cfg) (conn : Nat) (f : Fed) : ∀ (fs : List Bytes) (n : Nat) (s : StR), NoHooks s → s.sync = .none →
    fs.length + s.core.reqs.length + 3 ≤ n →
    exec cfg n s (.frames conn fs f) =
      ({ s with core := (flatFrames s.core conn fs f).1 }, obs (flatFrames s.core conn fs f).2) := by
  intro fs
  induction fs with
  | nil =>
    intro n s _ _ hn
    match n, hn with
    | n + 1, _ =>
      rw [exec_frames_nil]
      simp only [flatFrames, handleFrames]
      split <;> simp [obs]
  | cons b bs ih =>
    intro n s hh hsy hn
    match n, hn with
    | n + 2, hn =>
      rw [exec_frames_cons]
      cases hid : corrId b with
      | none => simp [flatFrames, handleFrames, hid, obs, hsy]
      | some id =>
        simp only
        rw [flatFrames_cons_some _ _ _ _ _ id hid]
        have hlen : (s.core.reqs.filter (fun r => r.id != id)).length ≤ s.core.reqs.length := List.length_filter_le _ _
        have hn' : bs.length + (s.core.reqs.filter (fun r => r.id != id)).length + 3 ≤ n + 1 := by
          simp at hn; omega
        by_cases hany : s.core.reqs.any (fun r => r.id == id) = true
        · rw [if_pos hany]
          have hfl : ((s.core.reqs.filter (fun r => r.id == id && !r.cancelled)).map (fun r => (r.serial, r.id))).length + 2 ≤ n + 1 := by
            have : (s.core.reqs.filter (fun r => r.id == id && !r.cancelled)).length ≤ s.core.reqs.length := List.length_filter_le _ _
            simp at hn ⊢; omega
          rw [exec_fireAll cfg _ _ (n + 1) _ (by exact hh) hfl]
          simp only
          rw [ih (n + 1) _ (by exact hh) (by exact hsy) hn']
          simp [handleResponse, hany, obs, List.map_map, Function.comp_def]
        · rw [if_neg hany]
          simp only
          rw [ih (n + 1) _ (by exact hh) (by exact hsy) hn']
          simp [handleResponse, hany, obs]


/-- fuel that certainly suffices for one flat event in state `s` -/
def need (s : StR) : Ev → Nat
  | .bytesIn chunk => s.core.reqs.length + (feed s.core.rbuf chunk).frames.length + 10
  | _ => s.core.reqs.length + 10

theorem stepR_flat (cfg : Cfg) (s : StR) (e : Ev) (hh : NoHooks s) (hst : s.stubborn = false) (hsy : s.sync = .none)
    (h : SInv s.core) (fuel : Nat) (hf : need s e ≤ fuel) :
    (stepRWith cfg fuel s (.flat e)).1 = { core := (step cfg s.core e).1, hooks := [], stubborn := false, sync := .none } ∧
    plain (stepRWith cfg fuel s (.flat e)).2 = (step cfg s.core e).2 := by
  have hh' : s.hooks = [] := hh
  have hs : ({ core := s.core, hooks := [], stubborn := false, sync := .none } : StR) = s := by cases s; simp_all
  obtain ⟨n, rfl⟩ : ∃ n, fuel = n + 1 := ⟨fuel - 1, by simp [need] at hf; cases e <;> simp [need] at hf <;> omega⟩
  cases e with
  | make id ex =>
    have hn : 2 ≤ n := by simp [need] at hf; omega
    obtain ⟨k, rfl⟩ : ∃ k, n = k + 1 := ⟨n - 1, by omega⟩
    have hfire : ∀ (s' : StR) (k' : Nat) (i : Int) (r : Res), s'.hooks = [] →
        exec cfg (k + 1) s' (.fire k' i r) = (s', [.ob (.fire k' i r)]) := fun s' k' i r h' => exec_fire cfg k s' h' k' i r
    by_cases hd : s.core.reqs.any (fun r => r.id == id) = true
    · simp [stepRWith, exec, step, hd, hs, hsy, plain]
    · by_cases hc : s.core.closed = true
      · simp [stepRWith, exec, step, hd, hc, hh', hst, hsy, hfire, plain]
      · cases hp : s.core.proto with
        | some conn =>
          by_cases hw : s.core.wfail = true
          · simp [stepRWith, exec, step, hd, hc, hp, hw, hh', hst, hsy, hfire, plain, sendObs, keepAfterSend]
          · cases ex <;> by_cases hl : s.core.losing = true <;>
              simp [stepRWith, exec, step, hd, hc, hp, hw, hl, hh', hst, hsy, hfire, plain, sendObs, keepAfterSend]
        | none =>
          by_cases hco : s.core.connector = .none
          · simp [stepRWith, exec, step, hd, hc, hp, hco, hh', hst, hsy, plain, plain_append, plain_obs, connect_, tryConnect, obs]
          · simp [stepRWith, exec, step, hd, hc, hp, hco, hh', hst, hsy, plain]
  | cancel id =>
    by_cases hany : s.core.reqs.any (fun r => r.id == id && !r.cancelled) = true
    · simp only [stepRWith, exec, step, hany, if_true]
      have hlen : ((s.core.reqs.filter (fun r => r.id == id && !r.cancelled)).map (fun r => (r.serial, r.id))).length + 2 ≤ n := by
        have : (s.core.reqs.filter (fun r => r.id == id && !r.cancelled)).length ≤ s.core.reqs.length := List.length_filter_le _ _
        simp [need] at hf ⊢; omega
      rw [exec_fireAll cfg _ _ n _ (by exact hh) hlen]
      simp [hh', hst, hsy, plain_map_ob, List.map_map, Function.comp_def]
    · simp [stepRWith, exec, step, hany, hs, plain]
  | close =>
    by_cases hc : s.core.closed = true
    · simp [stepRWith, exec, step, hc, hs, plain]
    · have hpw := h.serials
      have hn : s.core.reqs.length + 2 ≤ n := by simp [need] at hf; omega
      have hcl : ∀ (s' : StR), s'.hooks = [] → s'.core.reqs = s.core.reqs →
          exec cfg n s' .closeLoop = ({ s' with core := { s'.core with reqs := [] } },
            obs (((if closePopLast then s.core.reqs.reverse else s.core.reqs).filter (fun r => !r.cancelled)).map
              (fun r => Ob.fire r.serial r.id (.err .clientError)))) :=
        fun s' h1 h2 => exec_closeLoop cfg _ s.core.reqs n s' rfl h1 h2 hpw hn
      cases hp : s.core.proto with
      | some conn =>
        simp only [stepRWith, exec, step, hc, hp, if_false]
        rw [hcl { s with core := { s.core with closed := true, losing := true, proto := some conn } } hh' rfl]
        simp [hh', hst, hsy, plain, plain_append, plain_obs]
      | none =>
        simp only [stepRWith, exec, step, hc, hp, if_false]
        cases hco : s.core.connector with
        | none =>
          simp only []
          rw [hcl { s with core := { s.core with closed := true, connector := .none, proto := none } } hh' rfl]
          simp [hh', hst, hsy, plain, plain_append, plain_obs]
        | attempt =>
          simp only []
          rw [hcl { s with core := { s.core with closed := true, connector := .stale, proto := none } } hh' rfl]
          simp [hh', hst, hsy, plain, plain_append, plain_obs]
        | backoff d =>
          simp only []
          rw [hcl { s with core := { s.core with closed := true, connector := .stale, proto := none } } hh' rfl]
          simp [hh', hst, hsy, plain, plain_append, plain_obs]
        | stale =>
          simp only []
          rw [hcl { s with core := { s.core with closed := true, connector := .stale, proto := none } } hh' rfl]
          simp [hh', hst, hsy, plain, plain_append, plain_obs]
  | connOk =>
    by_cases hatt : s.core.connector = .attempt
    · have hp : s.core.proto = none := by
        cases hq : s.core.proto with
        | none => rfl
        | some c => have := h.connConnector (by simp [hq]); simp_all
      have hcl : s.core.closed = false := by
        cases hc : s.core.closed
        · rfl
        · have := h.closedConnector hc; simp_all
      have hun : ∀ r ∈ s.core.reqs, r.sent = false := h.discUnsent hp
      simp only [stepRWith, step, hatt, if_true, hcl, Bool.false_eq_true, if_false, sendQueued]
      have hn : s.core.reqs.length + 3 ≤ n + 1 := by simp [need] at hf; omega
      have key := exec_sendLoop cfg s.core.nconn s.core.reqs [] (n + 1)
        { s with core := { s.core with failures := 0, connector := .none, proto := some s.core.nconn, nconn := s.core.nconn + 1, losing := false, rbuf := [], closed := false } }
        (by exact hh) (by simp) (by simpa using h.serials) hun hn
      rw [key]
      have hfilt : s.core.reqs.filter (fun r => r.sent || keepAfterSend { s.core with failures := 0, connector := .none, proto := some s.core.nconn, nconn := s.core.nconn + 1, losing := false, rbuf := [], closed := false } r)
          = s.core.reqs.filter (fun r => keepAfterSend { s.core with failures := 0, connector := .none, proto := some s.core.nconn, nconn := s.core.nconn + 1, losing := false, rbuf := [], closed := false } r) := by
        apply List.filter_congr; intro r hr; simp [hun r hr]
      have hflat : s.core.reqs.flatMap (fun r => if r.sent = true then [] else sendObs { s.core with failures := 0, connector := .none, proto := some s.core.nconn, nconn := s.core.nconn + 1, losing := false, rbuf := [], closed := false } s.core.nconn r)
          = s.core.reqs.flatMap (fun r => sendObs { s.core with failures := 0, connector := .none, proto := some s.core.nconn, nconn := s.core.nconn + 1, losing := false, rbuf := [], closed := false } s.core.nconn r) := by
        have hgen : ∀ (l : List Req), (∀ r ∈ l, r.sent = false) → ∀ (g : Req → List Ob),
            l.flatMap (fun r => if r.sent = true then [] else g r) = l.flatMap g := by
          intro l hl g
          induction l with
          | nil => rfl
          | cons a l ih => simp [hl a (by simp), ih (fun r hr => hl r (by simp [hr]))]
        exact hgen _ hun _
      simp only [List.nil_append]
      rw [hfilt, hflat]
      exact ⟨by simp [hh', hst, hsy], plain_obs _⟩
    · simp [stepRWith, step, hatt, hs, plain]
  | bytesIn chunk =>
    cases hp : s.core.proto with
    | none => simp [stepRWith, step, hp, hs, plain]
    | some conn =>
      by_cases hl : s.core.losing = true
      · simp [stepRWith, step, hp, hl, hs, plain]
      · have hn : (feed s.core.rbuf chunk).frames.length + s.core.reqs.length + 3 ≤ n + 1 := by simp [need] at hf; omega
        simp only [stepRWith, step, hp, hl, Bool.false_eq_true, if_false]
        rw [exec_frames cfg conn _ _ (n + 1) s hh hsy hn]
        simp only [flatFrames, plain_obs]
        split <;> (try split) <;> simp [hh', hst, hsy]
  | connFail => simp [stepRWith, hh', hst, hsy, plain_obs]
  | advance dt => simp [stepRWith, hh', hst, hsy, plain_obs]
  | lost => simp [stepRWith, hh', hst, hsy, plain_obs]
  | disconnect => simp [stepRWith, hh', hst, hsy, plain_obs]
  | updateMetadata a b => simp [stepRWith, hh', hst, hsy, plain_obs]
  | writeFail b => simp [stepRWith, hh', hst, hsy, plain_obs]


/-- Without callbacks the re-entrant model IS the flat model: for every event list there is an amount of
    fuel from which on the observations (markers dropped) are those of `Afkak.BrokerClient.trace`. -/
theorem traceR_flat (cfg : Cfg) (evs : List Ev) : ∀ (s : StR), NoHooks s → s.stubborn = false → s.sync = .none → SInv s.core →
    ∃ N, ∀ fuel, N ≤ fuel →
      (traceRWith cfg fuel s (evs.map .flat)).map (fun t => plain t.2) = (trace cfg s.core evs).map (·.2) := by
  induction evs with
  | nil => intro s _ _ _ _; exact ⟨0, fun _ _ => rfl⟩
  | cons e es ih =>
    intro s hh hst hsy h
    obtain ⟨N2, h2⟩ := ih { core := (step cfg s.core e).1, hooks := [], stubborn := false, sync := .none } rfl rfl rfl (sinv_step cfg s.core e h)
    refine ⟨max (need s e) N2, fun fuel hf => ?_⟩
    have h1 := stepR_flat cfg s e hh hst hsy h fuel (by omega)
    simp only [List.map_cons, traceRWith, trace]
    rw [h1.1, h1.2, h2 fuel (by omega)]

end Afkak.BrokerClientR
