import AfkakProofs.Group.Trace
/-!
# Every retriable condition leads to a rejoin after the documented back-off (monitor
`retriableRejoins` on every model trace)
-/
namespace Afkak.Group
open Afkak.Consts Afkak.Monitor.C17

/-- join-timer observations of a list are all the given one -/
def TimerObsAre (obs : List Ob) (o : Ob) : Prop := ∀ x ∈ obs, isJoinTimerOb x = true → x = o

theorem timerObsAre_nil (o : Ob) : TimerObsAre [] o := by intro x h; cases h
theorem timerObsAre_append {a b : List Ob} {o : Ob} (h1 : TimerObsAre a o) (h2 : TimerObsAre b o) : TimerObsAre (a ++ b) o := by
  intro x hx; rcases List.mem_append.mp hx with y | y
  · exact h1 x y
  · exact h2 x y
theorem timerObsAre_of_none {obs : List Ob} (h : ∀ x ∈ obs, isJoinTimerOb x = false) (o : Ob) : TimerObsAre obs o := by
  intro x hx ht; rw [h x hx] at ht; cases ht

theorem stopCons_noTimer (s : St) (cids : List Nat) : ∀ x ∈ (stopCons s cids).2, isJoinTimerOb x = false := by
  intro x hx
  unfold stopCons at hx
  obtain ⟨c, _, rfl⟩ := List.mem_map.mp hx
  rfl

theorem rowEffects_noTimer (s : St) (row : RejoinRow) : ∀ x ∈ (rowEffects s row).2, isJoinTimerOb x = false := by
  intro x hx
  unfold rowEffects at hx
  simp only [andThen_snd, List.append_nil, List.mem_append] at hx
  rcases hx with h | h
  · split at h
    · exact stopCons_noTimer _ _ x h
    · cases h
  · split at h
    · simp at h; subst h; rfl
    · cases h

theorem scheduleRejoin_timerObs (cfg : Cfg) (s : St) (fd : Bool) :
    TimerObsAre (scheduleRejoin cfg s fd).2 (.setTimer s.nextTimer .rejoin (secs (if fd then cfg.fatalBackoffMs else cfg.retryBackoffMs))) := by
  unfold scheduleRejoin
  simp only []
  split
  · intro x hx _
    simp only [andThen_snd, addTimer_obs, List.append_nil, List.mem_singleton] at hx
    exact hx
  · exact timerObsAre_nil _

theorem rejoinWith_timerObs (cfg : Cfg) (s : St) (row : RejoinRow) :
    TimerObsAre (rejoinWith cfg s row).1.2
      (.setTimer s.nextTimer .rejoin (secs (if row.fatalDelay then cfg.fatalBackoffMs else cfg.retryBackoffMs))) := by
  unfold rejoinWith
  split
  · exact timerObsAre_nil _
  · exact timerObsAre_of_none (stopCons_noTimer _ _) _
  · exact timerObsAre_of_none (rowEffects_noTimer _ _) _
  · simp only [andThen_snd]
    refine timerObsAre_append (timerObsAre_of_none (rowEffects_noTimer _ _) _) ?_
    have := scheduleRejoin_timerObs cfg (rowEffects s row).1 row.fatalDelay
    rwa [(rowEffects_timers s row).2.1] at this

/-- for a Kafka error while not stopping, `rejoin_after_error` is just the table row's rejoin -/
theorem rejoinAfterError_kafka (cfg : Cfg) (s : St) (e : GErr) (hk : isKafka e = true) (hs : s.stopping = false) :
    rejoinAfterError cfg s e = (rejoinWith cfg s (rejoinRow false e)).1 := by
  unfold rejoinAfterError rejoinCore
  rw [hs]
  have ha := Tables.kafka_rejoins e hk
  have : (rejoinWith cfg s (rejoinRow false e)).2 = false := by
    cases hx : (rejoinWith cfg s (rejoinRow false e)).2
    · rfl
    · have := (rejoinWith_flag cfg s _).mp hx; rw [ha] at this; cases this
  simp [this]

/-- what a Kafka error handled by `rejoin_after_error` establishes -/
theorem rejoinAfterError_kafka_post {s : St} (h : WInv s) (cfg : Cfg) (e : GErr) (hk : isKafka e = true) (hs : s.stopping = false) :
    (rejoinAfterError cfg s e).1.rejoinNeeded = true ∧ (∃ t ∈ (rejoinAfterError cfg s e).1.timers, t.kind = .rejoin) ∧
    TimerObsAre (rejoinAfterError cfg s e).2 (.setTimer s.nextTimer .rejoin (secs (documentedDelayMs cfg .request e))) ∧
    (rejoinAfterError cfg s e).1.stopping = false := by
  rw [rejoinAfterError_kafka cfg s e hk hs]
  have ha := Tables.kafka_rejoins e hk
  obtain ⟨p1, p2⟩ := rejoinWith_rejoin_post h cfg _ (Tables.clearMember_leave false e) ha hs
  refine ⟨p1, p2, ?_, by rw [(rejoinWith_ctl cfg s _).stopping]; exact hs⟩
  have := rejoinWith_timerObs cfg s (rejoinRow false e)
  rwa [Tables.kafka_delay cfg .request (by decide) e hk] at this

theorem documented_escape_eq (cfg : Cfg) (e : GErr) : documentedDelayMs cfg .escape e = documentedDelayMs cfg .request e := by
  cases e <;> rfl

theorem escape_eq_full (cfg : Cfg) (s : St) (e : GErr) (he : escapeRejoins e = true) :
    escape cfg s e = rejoinAfterError cfg { s with jpc := .idle, rejoinD := false } e := by
  unfold escape escapeCore rejoinAfterError
  simp only [he, if_true]

/-- the conclusion of `retriableStep` from its three ingredients -/
theorem retriable_concl (cfg : Cfg) (site : Site) (e : GErr) (s' : St) (obs : List Ob) (n : Nat)
    (h1 : s'.rejoinNeeded = true) (h2 : ∃ t ∈ s'.timers, t.kind ≠ .hb)
    (h3 : TimerObsAre obs (.setTimer n (timerKindOf site) (secs (documentedDelayMs cfg site e)))) :
    ((snap s').joinTimers ≥ 1 && (snap s').rejoinNeeded &&
       (obs.filter isJoinTimerOb).all fun o => o == .setTimer (match o with | .setTimer id _ _ => id | _ => 0)
          (timerKindOf site) (secs (documentedDelayMs cfg site e))) = true := by
  obtain ⟨t, ht, hk⟩ := h2
  have hl : 1 ≤ (s'.timers.filter (·.kind != .hb)).length :=
    length_pos_of_mem (List.mem_filter.mpr ⟨ht, by simpa using hk⟩)
  simp only [snap, Bool.and_eq_true, decide_eq_true_eq, List.all_eq_true, List.mem_filter, beq_iff_eq, and_imp]
  refine ⟨⟨by simpa using hl, h1⟩, ?_⟩
  intro o ho ht
  rw [h3 o ho ht]

/-- a Kafka error delivered to `rejoin_after_error` in state `s1` (possibly after observations
    `pre` that set no join timer); `s'` is the step's final state, which differs from the result at
    most in `_rejoin_d` -/
theorem retriable_rae {s1 : St} (h : WInv s1) (cfg : Cfg) (site : Site) (hsite : site ≠ .lookup) (e : GErr)
    (hk : isKafka e = true) (hs : s1.stopping = false) (pre : List Ob) (hpre : ∀ x ∈ pre, isJoinTimerOb x = false)
    (s' : St) (ht : s'.timers = (rejoinAfterError cfg s1 e).1.timers) (hn : s'.rejoinNeeded = (rejoinAfterError cfg s1 e).1.rejoinNeeded) :
    (((snap s').joinTimers ≥ 1 && (snap s').rejoinNeeded &&
       ((pre ++ (rejoinAfterError cfg s1 e).2).filter isJoinTimerOb).all fun o =>
          o == .setTimer (match o with | .setTimer id _ _ => id | _ => 0) (timerKindOf site) (secs (documentedDelayMs cfg site e))) = true) := by
  obtain ⟨p1, ⟨t, ht', hk'⟩, p3, _⟩ := rejoinAfterError_kafka_post h cfg e hk hs
  have hsame : documentedDelayMs cfg site e = documentedDelayMs cfg .request e := by
    cases site
    · exact absurd rfl hsite
    · exact documented_escape_eq cfg e
    · rfl
  have hkind : timerKindOf site = .rejoin := by cases site <;> first | rfl | exact absurd rfl hsite
  refine retriable_concl cfg site e s' _ s1.nextTimer (by rw [hn]; exact p1) ⟨t, by rw [ht]; exact ht', by rw [hk']; decide⟩ ?_
  rw [hkind, hsame]
  exact timerObsAre_append (timerObsAre_of_none hpre _) p3

theorem set_rd_self (s : St) : { s with rejoinD := s.rejoinD } = s := by cases s; rfl

theorem retriable_step {s : St} (h : SInv s) (cfg : Cfg) (e : Ev) :
    retriableStep cfg (snap s) ⟨e, (step cfg s e).2, snap (step cfg s e).1⟩ = true := by
  unfold retriableStep
  cases hev : errorOf e with
  | none => rfl
  | some se =>
    obtain ⟨site, e0⟩ := se
    simp only []
    by_cases hk : isKafka e0 = true
    · by_cases hpre : (snap s).started = true ∧ (snap s).stopping = false
      · obtain ⟨hst, hsp⟩ := hpre
        have hst' : s.started = true := hst
        have hsp' : s.stopping = false := hsp
        have hp : Live s := Or.inl hst'
        simp only [hk, Bool.not_true, Bool.false_or, hst, hsp, Bool.not_false, Bool.and_self]
        rw [Bool.or_eq_true]
        cases e with
        | coordDone r =>
          cases r with
          | err e1 =>
            simp only [errorOf, Option.some.injEq, Prod.mk.injEq] at hev
            obtain ⟨rfl, rfl⟩ := hev
            simp only [step]
            split
            · left; rfl
            · rename_i hj
              have hj' : s.jpc = .coordLookup := by simpa using hj
              have hnd : s.rejoinNeeded = true := by
                rcases h.jpc_needed (by simp [hj']) with x | x
                · exact x
                · rw [hsp'] at x; cases x
              right
              rcases Tables.lookup_retry cfg e1 hk with ⟨r1, r2⟩ | ⟨r1, r2⟩
              · simp only [r1]
                refine retriable_concl cfg .lookup e1 _ _ s.nextTimer hnd ⟨⟨s.nextTimer, s.now + secs cfg.initialBackoffMs, .retry⟩, by simp, by simp⟩ ?_
                intro x hx _
                simp only [andThen_snd, addTimer_obs, List.append_nil, List.mem_singleton] at hx
                rw [hx, r2]; rfl
              · simp only [r1]
                refine retriable_concl cfg .lookup e1 _ _ s.nextTimer hnd ⟨⟨s.nextTimer, s.now + secs cfg.fatalBackoffMs, .retry⟩, by simp, by simp⟩ ?_
                intro x hx _
                simp only [andThen_snd, addTimer_obs, List.append_nil, List.mem_singleton] at hx
                rw [hx, r2]; rfl
          | ok => simp [errorOf] at hev
          | none => simp [errorOf] at hev
        | metaDone r =>
          cases r with
          | ok => simp [errorOf] at hev
          | err e1 =>
            simp only [errorOf, Option.some.injEq, Prod.mk.injEq] at hev
            obtain ⟨rfl, rfl⟩ := hev
            simp only [step]
            split
            · left; rfl
            · right
              have hesc : escapeRejoins e1 = true := by rw [Tables.escape_iff_kafka]; exact hk
              rw [escape_eq_full cfg s e1 hesc]
              have w := winv_upd h.toWInv hp false .idle s.prep s.coordBroker s.now
              exact retriable_rae w cfg .escape (by decide) e1 hk hsp' [] (by intro x hx; cases hx) _ rfl rfl
        | partsDone r =>
          cases r with
          | ok => simp [errorOf] at hev
          | err e1 =>
            simp only [errorOf, Option.some.injEq, Prod.mk.injEq] at hev
            obtain ⟨rfl, rfl⟩ := hev
            by_cases hl : ∃ n, s.jpc = .loadParts n
            · obtain ⟨n, hn⟩ := hl
              right
              have hstep : step cfg s (.partsDone (.err e1)) = escape cfg s e1 := by simp only [step, hn]
              rw [hstep]
              have hesc : escapeRejoins e1 = true := by rw [Tables.escape_iff_kafka]; exact hk
              rw [escape_eq_full cfg s e1 hesc]
              have w := winv_upd h.toWInv hp false .idle s.prep s.coordBroker s.now
              exact retriable_rae w cfg .escape (by decide) e1 hk hsp' [] (by intro x hx; cases hx) _ rfl rfl
            · left
              have hstep : (step cfg s (.partsDone (.err e1))).2 = [.badOp] := by
                simp only [step]
                split
                · rename_i n hn; exact absurd ⟨n, hn⟩ hl
                · rfl
              rw [hstep]; rfl
        | joinDone r =>
          cases r with
          | ok m g l n => simp [errorOf] at hev
          | err e1 =>
            simp only [errorOf, Option.some.injEq, Prod.mk.injEq] at hev
            obtain ⟨rfl, rfl⟩ := hev
            simp only [step]
            split
            · left; rfl
            · right
              have w := winv_upd h.toWInv hp s.rejoinD .idle s.prep s.coordBroker s.now
              simp only [andThen_fst, andThen_snd, List.append_nil]
              exact retriable_rae w cfg .request (by decide) e1 hk hsp' [] (by intro x hx; cases hx) _ rfl rfl
        | syncDone r =>
          cases r with
          | ok a => simp [errorOf] at hev
          | err e1 =>
            simp only [errorOf, Option.some.injEq, Prod.mk.injEq] at hev
            obtain ⟨rfl, rfl⟩ := hev
            simp only [step]
            split
            · left; rfl
            · right
              have w := winv_upd h.toWInv hp s.rejoinD .idle s.prep s.coordBroker s.now
              simp only [andThen_fst, andThen_snd, List.append_nil]
              exact retriable_rae w cfg .request (by decide) e1 hk hsp' [] (by intro x hx; cases hx) _ rfl rfl
        | hbDone r =>
          cases r with
          | ok => simp [errorOf] at hev
          | err e1 =>
            simp only [errorOf, Option.some.injEq, Prod.mk.injEq] at hev
            obtain ⟨rfl, rfl⟩ := hev
            simp only [step]
            split
            · left; rfl
            · rename_i hf
              have hf' : s.hbInFlight = true := by simpa using hf
              have hrun : s.hbRunning = true := by
                cases hr : s.hbRunning
                · rw [(h.hb_timer hr).2] at hf'; cases hf'
                · rfl
              right
              show ((snap (if s.hbRunning = true then andThen (hbStop { s with hbInFlight := false }) fun s => rejoinAfterError cfg s e1
                      else ({ s with hbInFlight := false }, [.raised "AssertionError"])).1).joinTimers ≥ 1 && _ && _) = true
              rw [if_pos hrun]
              have w0 := winv_hbInFlight h.toWInv false (fun x => by cases x)
              have w1 := hbStop_winv w0 rfl
              exact retriable_rae w1 cfg .request (by decide) e1 hk hsp' (hbStop { s with hbInFlight := false }).2
                (by intro x hx; unfold hbStop at hx; obtain ⟨c, _, rfl⟩ := List.mem_map.mp hx; rfl) _ rfl rfl
        | consumerErr cid e1 =>
          simp only [errorOf, Option.some.injEq, Prod.mk.injEq] at hev
          obtain ⟨rfl, rfl⟩ := hev
          simp only [step]
          split
          · right
            have hne : e1 ≠ GErr.cancelled := by intro hx; rw [hx] at hk; cases hk
            split
            · rename_i hx; simp only [Bool.and_eq_true, decide_eq_true_eq] at hx; exact absurd hx.1 hne
            · let f : Con → Con := fun c => if c.cid = cid then { c with startFired := true } else c
              have hf : ∀ c, (f c).held = c.held ∧ ((f c).phase = .running ↔ c.phase = .running) ∧ (f c).gen = c.gen ∧
                  (f c).member = c.member ∧ (f c).topic = c.topic ∧ (f c).part = c.part := by
                intro c; simp only [f]; split <;> simp
              have w := winv_cons_map h.toWInv f hf
              exact retriable_rae w cfg .request (by decide) e1 hk hsp' [] (by intro x hx; cases hx) _ rfl rfl
          · left; rfl
        | _ => simp [errorOf] at hev
      · have : ((snap s).started && !(snap s).stopping) = false := by
          cases h1 : (snap s).started <;> cases h2 : (snap s).stopping <;> simp_all
        simp [this]
    · simp [hk]

end Afkak.Group

namespace Afkak.Group
open Afkak.Consts Afkak.Monitor.C17

theorem retriable_runFrom (cfg : Cfg) (evs : List Ev) :
    ∀ s, SInv s → retriableFrom cfg (snap s) (toMSteps (runFrom cfg s evs)) = true := by
  induction evs with
  | nil => intro s _; rfl
  | cons e es ih =>
    intro s h
    simp only [runFrom, toMSteps, List.map_cons, retriableFrom, Bool.and_eq_true]
    exact ⟨retriable_step h cfg e, ih _ (step_sinv h cfg e)⟩

theorem retriable_run (cfg : Cfg) (evs : List Ev) : retriableRejoins cfg (toMSteps (run cfg evs)) = true :=
  retriable_runFrom cfg evs init sinv_init

end Afkak.Group
