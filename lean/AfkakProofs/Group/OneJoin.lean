import AfkakProofs.Group.ObsNb
import AfkakProofs.Group.Fence
import AfkakProofs.Group.FencedTrace
/-!
# C16 one join/sync exchange at a time, on traces

Ghost: the monitor's counter of outstanding join/sync requests is at most `xj s` (1 exactly when the
coroutine waits for a join or sync reply).  A request is issued only from a position where that is
0; a position waiting for the reply is left only by the reply or by a cancellation, and the
cancellation of a join/sync request is observed.
-/
namespace Afkak.Group
open Afkak.Consts Afkak.Monitor.C16

def isX (o : Ob) : Bool := isJoinOb o || isSyncOb o
def isCX : Ob → Bool | .cancelReq .joinR | .cancelReq .syncR => true | _ => false
def cj (obs : List Ob) : Bool := obs.any isCX
def xj (s : St) : Nat := if s.jpc = .join ∨ s.jpc = .sync then 1 else 0

theorem xj_le (s : St) : xj s ≤ 1 := by unfold xj; split <;> simp
theorem xj_of_jpc {s s' : St} (h : s'.jpc = s.jpc) : xj s' = xj s := by unfold xj; rw [h]

@[simp] theorem cj_nil : cj [] = false := rfl
@[simp] theorem cj_append (a b : List Ob) : cj (a ++ b) = (cj a || cj b) := by simp [cj]

theorem exchangeObs_cons_nx (n : Nat) (o : Ob) (os : List Ob) (hx : isX o = false) :
    exchangeObs n (o :: os) = if isCX o then exchangeObs (n - 1) os else exchangeObs n os := by
  cases o <;> (try (rename_i k; cases k)) <;> simp [exchangeObs, isX, isJoinOb, isSyncOb, isCX] at hx ⊢

theorem exchangeObs_cons_x (n : Nat) (o : Ob) (os : List Ob) (hx : isX o = true) :
    exchangeObs n (o :: os) = if n = 0 then exchangeObs 1 os else none := by
  cases o <;> simp [exchangeObs, isX, isJoinOb, isSyncOb] at hx ⊢

theorem exch0 : ∀ (obs : List Ob) (n : Nat), obs.filter isX = [] →
    ∃ n', exchangeObs n obs = some n' ∧ n' ≤ n ∧ (cj obs = true → n' ≤ n - 1)
  | [], n, _ => ⟨n, rfl, Nat.le_refl _, fun h => by cases h⟩
  | o :: os, n, h => by
    have hx : isX o = false := by
      cases hx : isX o with
      | false => rfl
      | true => rw [List.filter_cons_of_pos (by simpa using hx)] at h; cases h
    have h' : os.filter isX = [] := by rw [List.filter_cons_of_neg (by simp [hx])] at h; exact h
    rw [exchangeObs_cons_nx n o os hx]
    by_cases hc : isCX o = true
    · rw [if_pos hc]
      obtain ⟨n', e, l1, _⟩ := exch0 os (n - 1) h'
      exact ⟨n', e, Nat.le_trans l1 (Nat.sub_le _ _), fun _ => l1⟩
    · rw [if_neg hc]
      obtain ⟨n', e, l1, l2⟩ := exch0 os n h'
      refine ⟨n', e, l1, fun hcj => l2 ?_⟩
      simp only [cj, List.any_cons, Bool.or_eq_true] at hcj
      rcases hcj with x | x
      · exact absurd x hc
      · exact x

theorem exch1 : ∀ (obs : List Ob) (r : Ob), obs.filter isX = [r] → ∃ n', exchangeObs 0 obs = some n' ∧ n' ≤ 1
  | [], r, h => by cases h
  | o :: os, r, h => by
    by_cases hx : isX o = true
    · rw [List.filter_cons_of_pos hx] at h
      have h' : os.filter isX = [] := by injection h
      rw [exchangeObs_cons_x 0 o os hx, if_pos rfl]
      obtain ⟨n', e, l1, _⟩ := exch0 os 1 h'
      exact ⟨n', e, l1⟩
    · rw [List.filter_cons_of_neg hx] at h
      have hx' : isX o = false := by simpa using hx
      rw [exchangeObs_cons_nx 0 o os hx']
      have : exchangeObs (0 - 1) os = exchangeObs 0 os := rfl
      rw [this, ite_self]
      exact exch1 os r h

theorem filter_x_sig (obs : List Ob) : obs.filter isX = (sigObs obs).filter isX := by
  unfold sigObs
  rw [List.filter_filter]
  congr 1
  funext o
  cases o <;> rfl

/-! ## a position waiting for a join/sync reply is left only with an observed cancellation -/

/-- the helper keeps the coroutine waiting for its join/sync reply, or its cancellation is observed -/
def JK (s : St) (o : Out) : Prop := xj s = 1 → (xj o.1 = 1 ∨ cj o.2 = true)

theorem JK_frame {s : St} {o : Out} (h : o.1.jpc = s.jpc) : JK s o := fun hx => Or.inl (by rw [xj_of_jpc h]; exact hx)

theorem JK_andThen {s : St} {o : Out} {f : St → Out} (h1 : JK s o) (h2 : ∀ s1, JK s1 (f s1)) : JK s (andThen o f) := by
  intro hx
  rcases h1 hx with a | a
  · rcases h2 o.1 a with b | b
    · exact Or.inl b
    · right; rw [andThen_snd, cj_append, b]; simp
  · right; rw [andThen_snd, cj_append, a]; simp

theorem cancelJoin_jk (cfg : Cfg) (s : St) : JK s (cancelJoin cfg s) := by
  intro hx
  unfold cancelJoin
  split
  · simp only []
    split <;> rename_i hj <;> first
      | (exfalso; unfold xj at hx; rw [hj] at hx; simp at hx; done)
      | (right; simp [andThen, cj, isCX])
  · exact Or.inl hx

theorem finishStop_jk (cfg : Cfg) (s : St) (err : Option GErr) (user : Bool) : JK s (finishStop cfg s err user) := by
  unfold finishStop
  exact JK_andThen (cancelJoin_jk cfg s) (fun s1 => JK_frame rfl)

theorem leaveOrFinish_jk (cfg : Cfg) (err : Option GErr) (user : Bool) (s : St) : JK s (leaveOrFinish cfg err user s) := by
  unfold leaveOrFinish
  split
  · exact JK_frame rfl
  · exact finishStop_jk _ _ _ _

theorem coordStop_jk (cfg : Cfg) (s : St) (err : Option GErr) (user : Bool) : JK s (coordStop cfg s err user) := by
  unfold coordStop
  split
  · exact JK_frame rfl
  · simp only []
    split
    · exact JK_frame rfl
    · refine JK_andThen (JK_andThen (JK_andThen (JK_frame ?_) (fun _ => JK_frame ?_)) (fun _ => JK_frame ?_)) (fun _ => leaveOrFinish_jk _ _ _ _)
      · rw [stopCancelDc_jpc']
      · rw [stopCancelHb_jpc']
      · rw [stopLooper_jpc']

theorem stopLoop_jk (cfg : Cfg) (s : St) (err : Option GErr) (user : Bool) : JK s (stopLoop cfg s err user) := by
  unfold stopLoop
  split
  · exact coordStop_jk _ _ _ _
  · simp only []
    split
    · refine JK_andThen (JK_andThen (JK_frame rfl) (fun _ => JK_frame ?_)) (fun _ => coordStop_jk _ _ _ _)
      rw [drainDone_jpc']
    · exact JK_frame rfl

theorem stopCall_jk (cfg : Cfg) (s : St) (err : Option GErr) (user : Bool) : JK s (stopCall cfg s err user) := by
  unfold stopCall
  intro hx
  refine stopLoop_jk cfg _ err user ?_
  split
  · exact hx
  · exact hx

theorem userStop_jk (cfg : Cfg) (s : St) : JK s (userStop cfg s) := by
  rcases userStop_cases cfg s with ⟨hu, _, _⟩ | hu <;> rw [hu]
  · exact JK_frame rfl
  · exact stopCall_jk _ _ _ _

theorem rejoinAfterError_jk (cfg : Cfg) (s : St) (e : GErr) : JK s (rejoinAfterError cfg s e) := by
  unfold rejoinAfterError
  simp only []
  split
  · exact JK_andThen (JK_frame (by rw [rejoinCore_jpc'])) (fun _ => stopCall_jk _ _ _ _)
  · exact JK_frame (by rw [rejoinCore_jpc'])

theorem joinAndSync_jk {s : St} (hrd : s.rejoinD = false → s.jpc = .idle) : JK s (joinAndSync s) := by
  unfold joinAndSync
  simp only []
  split
  · exact JK_frame rfl
  · split
    · exact JK_frame rfl
    · rename_i hd
      intro hx
      have := hrd (by simpa using hd)
      unfold xj at hx; rw [this] at hx; simp at hx

theorem nb_ne_bad {obs : List Ob} (h : NB obs) : obs ≠ [.badOp] := by
  intro e
  have := h .badOp (by rw [e]; simp)
  simp [nb] at this

/-- leaving a join/sync wait: by the reply (processed), or with an observed cancellation -/
theorem step_leave_wait {s : St} (h : SInv s) (cfg : Cfg) (e : Ev) (hx : xj s = 1) (hx' : xj (step cfg s e).1 = 0) :
    ((∃ r, e = .joinDone r) ∨ (∃ r, e = .syncDone r)) ∧ (step cfg s e).2 ≠ [.badOp] ∨ cj (step cfg s e).2 = true := by
  have hri := rd_idle h
  have same : ∀ {s1 : St}, s1.jpc = s.jpc → xj s1 = 0 → False := fun hj h0 => by
    rw [xj_of_jpc hj, hx] at h0; cases h0
  have viaJK : ∀ {s1 : St} {o : Out}, JK s1 o → s1.jpc = s.jpc → xj o.1 = 0 → cj o.2 = true := fun hjk hj h0 => by
    rcases hjk (by rw [xj_of_jpc hj]; exact hx) with a | a
    · rw [a] at h0; cases h0
    · exact a
  have notjs : ∀ {p : JPc}, s.jpc = p → p ≠ .join → p ≠ .sync → False := fun hp h1 h2 => by
    unfold xj at hx; rw [hp] at hx; simp [h1, h2] at hx
  cases e with
  | start =>
    right; revert hx'; simp only [step]; split
    · intro hx'; exact (same rfl hx').elim
    · exact viaJK (joinAndSync_jk (s := { s with started := true, startResult := none }) hri) rfl
  | stop => right; exact viaJK (userStop_jk cfg s) rfl hx'
  | coordDone r =>
    exfalso; revert hx'; simp only [step]; split
    · intro hx'; exact same rfl hx'
    · rename_i hj; exact (notjs (by simpa using hj) (by decide) (by decide)).elim
  | metaDone r =>
    exfalso; revert hx'; simp only [step]; split
    · intro hx'; exact same rfl hx'
    · rename_i hj; exact (notjs (by simpa using hj) (by decide) (by decide)).elim
  | partsDone r =>
    exfalso; revert hx'; simp only [step]; split
    · rename_i n hj; exact (notjs hj (by simp) (by simp)).elim
    · intro hx'; exact same rfl hx'
  | joinDone r =>
    by_cases hj : (s.jpc != .join) = true
    · exfalso; revert hx'; simp only [step, hj, if_true]; intro hx'; exact same rfl hx'
    · left
      refine ⟨Or.inl ⟨r, rfl⟩, ?_⟩
      cases r with
      | err e =>
        have e1 : (step cfg s (.joinDone (.err e))).2 = (rejoinAfterError cfg { s with jpc := .idle } e).2 := by
          simp [step, hj, andThen]
        rw [e1]; exact nb_ne_bad (rejoinAfterError_nb _ _ _)
      | ok m g l n => exact joinOk_ne_bad cfg s m g l n hj
  | syncDone r =>
    by_cases hj : (s.jpc != .sync) = true
    · exfalso; revert hx'; simp only [step, hj, if_true]; intro hx'; exact same rfl hx'
    · left
      refine ⟨Or.inr ⟨r, rfl⟩, ?_⟩
      cases r with
      | err e =>
        have e1 : (step cfg s (.syncDone (.err e))).2 = (rejoinAfterError cfg { s with jpc := .idle } e).2 := by
          simp [step, hj, andThen]
        rw [e1]; exact nb_ne_bad (rejoinAfterError_nb _ _ _)
      | ok a =>
        rcases syncOk_asg h cfg a with x | x
        · rw [x] at hx'; exact (same rfl hx').elim
        · exact x.1
  | hbDone r =>
    right; revert hx'; simp only [step]; split
    · intro hx'; exact (same rfl hx').elim
    · cases r with
      | ok => intro hx'; exact (same rfl hx').elim
      | err e =>
        simp only []
        split
        · exact viaJK (JK_andThen (JK_frame rfl) (fun _ => rejoinAfterError_jk _ _ _)) rfl
        · intro hx'; exact (same rfl hx').elim
  | leaveDone r =>
    right; revert hx'; simp only [step]; split
    · intro hx'; exact (same rfl hx').elim
    · cases r with
      | ok => exact viaJK (finishStop_jk cfg { s with member := 0, gen := none } _ _) rfl
      | err e => exact viaJK (finishStop_jk cfg s _ _) rfl
  | consumerDown cid ok =>
    right; revert hx'; simp only [step]; split
    · unfold consumerDown
      simp only []
      split
      · rename_i hp
        simp only [Bool.and_eq_true, decide_eq_true_eq] at hp
        exact (notjs hp.1 (by decide) (by decide)).elim
      · split
        · intro hx'; exact (same rfl hx').elim
        · split
          · intro hx'; exact (same rfl hx').elim
          · refine viaJK (JK_andThen (JK_frame ?_) (fun _ => stopLoop_jk _ _ _ _)) rfl
            rw [drainDone_jpc']
    · intro hx'; exact (same rfl hx').elim
  | consumerErr cid e =>
    right; revert hx'; simp only [step]; split
    · split
      · intro hx'; exact (same rfl hx').elim
      · exact viaJK (rejoinAfterError_jk cfg _ e) rfl
    · intro hx'; exact (same rfl hx').elim
  | consumerQuirk cid q =>
    exfalso; revert hx'; simp only [step]; split <;> intro hx' <;> exact same rfl hx'
  | fire id hbNext =>
    right; revert hx'; simp only [step]
    split
    · intro hx'; exact (same rfl hx').elim
    split
    · intro hx'; exact (same rfl hx').elim
    · split
      · intro hx'; exact (same rfl hx').elim
      · split
        · exact viaJK (joinAndSync_jk (s := { s with timers := s.timers.filter (·.id != id) }) hri) rfl
        · exact viaJK (joinAndSync_jk (s := { s with timers := s.timers.filter (·.id != id) }) hri) rfl
        · intro hx'; exfalso; refine same ?_ hx'
          simp only [andThen_fst]
          split <;> split <;> rfl
  | advance dt =>
    exfalso; revert hx'; simp only [step]; split <;> intro hx' <;> exact same rfl hx'


/-! ## a request is issued only from a position with no exchange outstanding -/

theorem mem_of_sig {obs : List Ob} {o : Ob} (h : o ∈ sigObs obs) : o ∈ obs := (List.mem_filter.mp h).1

/-- what the step's join/sync requests are: none, or exactly one — issued from a position that waits
    for no join/sync reply (or by the join reply itself) and leaving the coroutine waiting for it -/
theorem step_req (cfg : Cfg) (s : St) (e : Ev) :
    (step cfg s e).2.filter isX = [] ∨
    ∃ r, (step cfg s e).2.filter isX = [r] ∧ xj (step cfg s e).1 = 1 ∧
      (xj s = 0 ∧ (∀ x, e ≠ .joinDone x) ∧ (∀ x, e ≠ .syncDone x) ∨ (∃ x, e = .joinDone x) ∧ (step cfg s e).2 ≠ [.badOp]) := by
  rw [filter_x_sig, step_sig]
  have joinCase : ∀ m, expectedSig s e = [.join m] → xj s = 0 → (∀ x, e ≠ .joinDone x) → (∀ x, e ≠ .syncDone x) →
      ∃ r, (expectedSig s e).filter isX = [r] ∧ xj (step cfg s e).1 = 1 ∧
      (xj s = 0 ∧ (∀ x, e ≠ .joinDone x) ∧ (∀ x, e ≠ .syncDone x) ∨ (∃ x, e = .joinDone x) ∧ (step cfg s e).2 ≠ [.badOp]) := by
    intro m hm h0 h1 h2
    refine ⟨.join m, by rw [hm]; rfl, ?_, Or.inl ⟨h0, h1, h2⟩⟩
    have : Ob.join m ∈ sigObs (step cfg s e).2 := by rw [step_sig, hm]; simp
    have hp := step_join_post cfg s e _ (mem_of_sig this) rfl
    unfold xj; rw [hp]; simp
  cases e with
  | metaDone r =>
    cases r with
    | err e => left; simp [expectedSig]
    | ok =>
      by_cases h1 : (s.jpc != .metaLoad) = true
      · left; simp [expectedSig, h1]
      · have hx0 : xj s = 0 := by
          have : s.jpc = .metaLoad := by simpa using h1
          unfold xj; rw [this]; simp
        have hE := joinCase s.member
        simp only [expectedSig, h1] at hE ⊢
        simp only [Bool.false_eq_true, if_false] at hE ⊢
        split
        · left; rfl
        · split
          · left; rfl
          · split
            · right; rename_i a b c; simp only [a, b, c, if_true, if_false, Bool.false_eq_true] at hE
              exact hE trivial hx0 (by intro x hx; cases hx) (by intro x hx; cases hx)
            · split
              · right; rename_i a b c d; simp only [a, b, c, d, if_true, if_false, Bool.false_eq_true] at hE
                exact hE trivial hx0 (by intro x hx; cases hx) (by intro x hx; cases hx)
              · left; rfl
  | consumerDown cid ok =>
    have hE := joinCase s.member
    simp only [expectedSig] at hE ⊢
    split
    · split
      · rename_i a b
        have hx0 : xj s = 0 := by
          simp only [Bool.and_eq_true, decide_eq_true_eq] at b
          unfold xj; rw [b.1]; simp
        split
        · left; rfl
        · split
          · left; rfl
          · right; rename_i c d; simp only [a, b, c, d, if_true, if_false, Bool.false_eq_true] at hE
            exact hE trivial hx0 (by intro x hx; cases hx) (by intro x hx; cases hx)
      · left; rfl
    · left; rfl
  | joinDone r =>
    cases r with
    | err e => left; simp [expectedSig]
    | ok m g l n =>
      simp only [expectedSig]
      split
      · left; rfl
      · split
        · left; rfl
        · rename_i h1 h2
          cases l with
          | true => left; rfl
          | false =>
            right
            refine ⟨.sync (some g) m 0, rfl, ?_, Or.inr ⟨⟨_, rfl⟩, ?_⟩⟩
            · simp [step, h1, h2, xj, abandonHb_eq, andThen]
            · exact joinOk_ne_bad cfg s m g false n h1
  | partsDone r =>
    cases r with
    | err e => left; simp [expectedSig]
    | ok =>
      simp only [expectedSig]
      split
      · rename_i n hj
        split
        · left; rfl
        · rename_i h2
          right
          refine ⟨.sync s.gen s.member n, rfl, ?_, Or.inl (And.intro ?_ (And.intro (fun x hx => by cases hx) (fun x hx => by cases hx)))⟩
          · simp [step, hj, h2, xj]
          · unfold xj; rw [hj]; simp
      · left; rfl
  | syncDone r =>
    left
    cases r with
    | err e => simp [expectedSig]
    | ok asg =>
      simp only [expectedSig]
      split
      · rfl
      · split
        · rfl
        · unfold startObs
          rw [List.filter_eq_nil_iff]
          intro o ho
          obtain ⟨x, _, rfl⟩ := List.mem_map.mp ho
          simp [isX, isJoinOb, isSyncOb]
  | start =>
    left; simp only [expectedSig, lookupSig]; split
    · rfl
    · split <;> rfl
  | stop => left; simp [expectedSig]
  | coordDone r =>
    left; cases r <;> simp only [expectedSig]
    · split <;> rfl
    · rfl
    · rfl
  | hbDone r => left; simp [expectedSig]
  | leaveDone r => left; simp [expectedSig]
  | consumerErr cid e => left; simp [expectedSig]
  | consumerQuirk cid q => left; simp [expectedSig]
  | fire id hbNext =>
    left
    simp only [expectedSig, lookupSig]
    split
    · rfl
    · split
      · rfl
      · split
        · rfl
        · split
          · split <;> rfl
          · split <;> rfl
  | advance dt => left; simp [expectedSig]

/-- the monitor's counter before the step's observations (a processed join/sync reply closes the
    exchange) -/
def n0f (n : Nat) (e : Ev) (obs : List Ob) : Nat :=
  match e with
  | .joinDone _ | .syncDone _ => if obs == [.badOp] then n else n - 1
  | _ => n

theorem n0f_le (n : Nat) (e : Ev) (obs : List Ob) : n0f n e obs ≤ n := by
  unfold n0f; split <;> (try split) <;> simp

theorem oneJoin_step {s : St} (h : SInv s) (cfg : Cfg) (e : Ev) (n : Nat) (hn : n ≤ xj s) :
    ∃ n', exchangeObs (n0f n e (step cfg s e).2) (step cfg s e).2 = some n' ∧ n' ≤ xj (step cfg s e).1 := by
  rcases step_req cfg s e with h0 | ⟨r, hr, hpost, hpre⟩
  · obtain ⟨n', e1, l1, l2⟩ := exch0 (step cfg s e).2 (n0f n e (step cfg s e).2) h0
    refine ⟨n', e1, ?_⟩
    have ln := n0f_le n e (step cfg s e).2
    by_cases hx' : xj (step cfg s e).1 = 0
    · by_cases hx : xj s = 0
      · rw [hx] at hn; omega
      · have hx1 : xj s = 1 := by have := xj_le s; omega
        rcases step_leave_wait h cfg e hx1 hx' with ⟨hev, hb⟩ | hc
        · have : n0f n e (step cfg s e).2 = n - 1 := by
            have hb' : ((step cfg s e).2 == [.badOp]) = false := by simpa using hb
            rcases hev with ⟨x, rfl⟩ | ⟨x, rfl⟩ <;> simp [n0f, hb']
          rw [this] at l1; omega
        · have := l2 hc; omega
    · have : xj (step cfg s e).1 = 1 := by have := xj_le (step cfg s e).1; omega
      have := xj_le s; omega
  · have hz : n0f n e (step cfg s e).2 = 0 := by
      rcases hpre with ⟨hx0, h1, h2⟩ | ⟨⟨x, rfl⟩, hb⟩
      · have := n0f_le n e (step cfg s e).2; omega
      · have hb' : ((step cfg s (.joinDone x)).2 == [.badOp]) = false := by simpa using hb
        have := xj_le s
        simp [n0f, hb']; omega
    rw [hz, hpost]
    exact exch1 _ r hr

theorem oneJoinFrom_cons (n : Nat) (m : MStep) (ms : List MStep) :
    oneJoinFrom n (m :: ms) = match exchangeObs (n0f n m.ev m.obs) m.obs with
      | some n' => oneJoinFrom n' ms
      | none => false := by
  cases m with
  | mk ev obs sn => cases ev <;> rfl

theorem oneJoin_runFrom (cfg : Cfg) (evs : List Ev) :
    ∀ (s : St) (n : Nat), SInv s → n ≤ xj s → oneJoinFrom n (toMSteps (runFrom cfg s evs)) = true := by
  induction evs with
  | nil => intro s n _ _; rfl
  | cons e es ih =>
    intro s n h hn
    simp only [runFrom, toMSteps, List.map_cons]
    rw [oneJoinFrom_cons]
    obtain ⟨n', e1, l1⟩ := oneJoin_step h cfg e n hn
    simp only [] at e1 ⊢
    rw [e1]
    exact ih _ n' (step_sinv h cfg e) l1

/-- **C16 one join**: on every run at most one join/sync request is outstanding, as counted from
    the observed requests, replies and cancellations. -/
theorem oneJoin_run (cfg : Cfg) (evs : List Ev) : oneJoin (toMSteps (run cfg evs)) = true :=
  oneJoin_runFrom cfg evs init 0 sinv_init (Nat.zero_le _)

end Afkak.Group
