import AfkakProofs.Group.ComposedBase
/-!
# Consumer ids: `nextCid` only grows, and the consumers a step starts get the ids
`s.nextCid ≤ cid < (step cfg s e).1.nextCid`
-/
namespace Afkak.GroupCompose
open Afkak.Group Afkak.Consts

/-- the (topic, partition) pairs of an assignment, as `on_join_complete` enumerates them -/
def tpsOf (asg : List (Nat × List Int)) : List (Nat × Int) := asg.flatMap fun tp => tp.2.map fun p => (tp.1, p)

theorem startsOf_sig (obs : List Ob) : startsOf obs = startsOf (sigObs obs) := by
  induction obs with
  | nil => rfl
  | cons o os ih =>
    unfold startsOf sigObs at *
    cases o <;> simp_all [bg]

theorem startsOf_step (cfg : Cfg) (s : St) (e : Ev) : startsOf (step cfg s e).2 = startsOf (expectedSig s e) := by
  rw [startsOf_sig, step_sig]

theorem startsOf_startObs (s : St) (asg : List (Nat × List Int)) :
    ∀ k ∈ startsOf (startObs s asg), s.nextCid ≤ k.1 ∧ k.1 < s.nextCid + (tpsOf asg).length := by
  intro k hk
  unfold startsOf startObs at hk
  obtain ⟨o, ho, hko⟩ := List.mem_filterMap.mp hk
  obtain ⟨⟨tp, i⟩, hx, rfl⟩ := List.mem_map.mp ho
  simp only [Option.some.injEq] at hko
  subst hko
  have := List.mem_zipIdx hx
  simp only [tpsOf]
  omega

/-- only a successful SyncGroup reply starts consumers -/
theorem startsOf_expectedSig (s : St) (e : Ev) : ∀ k ∈ startsOf (expectedSig s e),
    ∃ asg, e = .syncDone (.ok asg) ∧ s.jpc = .sync ∧ s.stopping = false ∧ k ∈ startsOf (startObs s asg) := by
  intro k hk
  have nil : ∀ {P : Prop}, k ∈ startsOf [] → P := fun h => by simp [startsOf] at h
  cases e with
  | start =>
    simp only [expectedSig, lookupSig] at hk
    split at hk
    · exact nil hk
    · split at hk
      · simp [startsOf] at hk
      · exact nil hk
  | stop => exact nil hk
  | coordDone r =>
    cases r <;> simp only [expectedSig] at hk
    · split at hk
      · exact nil hk
      · simp [startsOf] at hk
    · exact nil hk
    · exact nil hk
  | metaDone r =>
    cases r <;> simp only [expectedSig] at hk
    · repeat' split at hk
      all_goals simp [startsOf] at hk
    · exact nil hk
  | joinDone r =>
    cases r <;> simp only [expectedSig] at hk
    · repeat' split at hk
      all_goals simp [startsOf] at hk
    · exact nil hk
  | partsDone r =>
    cases r <;> simp only [expectedSig] at hk
    · repeat' split at hk
      all_goals simp [startsOf] at hk
    · exact nil hk
  | syncDone r =>
    cases r with
    | err e => exact nil hk
    | ok asg =>
      simp only [expectedSig] at hk
      split at hk
      · exact nil hk
      · split at hk
        · exact nil hk
        · rename_i h1 h2
          exact ⟨asg, rfl, by simpa using h1, by simpa using h2, hk⟩
  | hbDone r => exact nil hk
  | leaveDone r => exact nil hk
  | consumerDown cid ok =>
    simp only [expectedSig] at hk
    repeat' split at hk
    all_goals simp [startsOf] at hk
  | consumerErr cid e => exact nil hk
  | consumerQuirk cid q => exact nil hk
  | fire id hbNext =>
    simp only [expectedSig, lookupSig] at hk
    repeat' split at hk
    all_goals simp [startsOf] at hk
  | advance dt => exact nil hk

theorem step_sync_nextCid (cfg : Cfg) (s : St) (asg : List (Nat × List Int)) (hj : s.jpc = .sync) (hs : s.stopping = false) :
    (step cfg s (.syncDone (.ok asg))).1.nextCid = s.nextCid + (tpsOf asg).length := by
  simp [step, hj, hs, startConsumers, tpsOf]

@[simp] theorem userStop_nextCid' (cfg : Cfg) (s : St) : (userStop cfg s).1.nextCid = s.nextCid := by
  rcases userStop_cases cfg s with ⟨hu, _, _⟩ | hu <;> rw [hu]
  exact stopCall_nextCid' _ _ _ _

theorem step_nextCid_le (cfg : Cfg) (s : St) (e : Ev) : s.nextCid ≤ (step cfg s e).1.nextCid := by
  cases e with
  | syncDone r =>
    simp only [step]
    split
    · exact Nat.le_refl _
    · cases r with
      | err e => simp
      | ok asg =>
        simp only []
        split
        · exact Nat.le_refl _
        · simp [startConsumers]
  | fire id hbNext =>
    simp only [step]
    repeat' split
    all_goals simp
    all_goals (repeat' split)
    all_goals simp
  | joinDone r =>
    simp only [step]
    split
    · exact Nat.le_refl _
    · cases r with
      | err e => simp
      | ok m g l n =>
        simp only [abandonHb_eq, andThen_fst]
        repeat' split
        all_goals simp
  | _ =>
    simp only [step]
    repeat' split
    all_goals simp

/-- the consumers a step starts get the ids from the old `nextCid` up to the new one -/
theorem step_starts_range (cfg : Cfg) (s : St) (e : Ev) : ∀ k ∈ startsOf (step cfg s e).2,
    s.nextCid ≤ k.1 ∧ k.1 < (step cfg s e).1.nextCid := by
  intro k hk
  rw [startsOf_step] at hk
  obtain ⟨asg, rfl, hj, hs, hk'⟩ := startsOf_expectedSig s e k hk
  rw [step_sync_nextCid cfg s asg hj hs]
  exact startsOf_startObs s asg k hk'

end Afkak.GroupCompose
