import AfkakProofs.Group.Fence
/-!
# Within a step the JoinGroup request is the last observation

The join is sent by `afterPrepare`, after `on_join_prepare` has returned: every `consumerShutdown` /
`consumerStop` of that step precedes it.
-/
namespace Afkak.Group
open Afkak.Consts Afkak.Monitor.C16

/-- the observations are background ones followed by at most one final join -/
def NJ (obs : List Ob) : Prop := ∀ o ∈ obs, isJoinOb o = false
def JL (obs : List Ob) : Prop := NJ obs ∨ ∃ pre m, obs = pre ++ [.join m] ∧ NJ pre

theorem NJ_of_bg {obs : List Ob} (h : BG obs) : NJ obs := fun o ho => by
  cases hj : isJoinOb o with
  | false => rfl
  | true => exact (no_join_of_bg h ho hj).elim
theorem NJ_nil : NJ [] := fun o ho => by cases ho
theorem NJ_append {a b : List Ob} (ha : NJ a) (hb : NJ b) : NJ (a ++ b) := fun o ho => by
  rcases List.mem_append.mp ho with x | x
  · exact ha o x
  · exact hb o x

theorem JL_prefix {a b : List Ob} (ha : BG a) (hb : JL b) : JL (a ++ b) := by
  rcases hb with h | ⟨pre, m, e, hp⟩
  · exact Or.inl (NJ_append (NJ_of_bg ha) h)
  · exact Or.inr ⟨a ++ pre, m, by rw [e, List.append_assoc], NJ_append (NJ_of_bg ha) hp⟩

theorem afterPrepare_jl (s : St) : JL (afterPrepare s).2 := by
  unfold afterPrepare
  split
  · exact Or.inl NJ_nil
  · exact Or.inr ⟨[], s.member, rfl, NJ_nil⟩

theorem prepare_jl (s : St) : JL (prepare s).2 := by
  unfold prepare
  split
  · exact Or.inl NJ_nil
  · split
    · exact afterPrepare_jl s
    · simp only []
      split
      · simp only [andThen_snd]
        exact JL_prefix ((BG_append _ _).mpr ⟨beginDrain_bg s, drainDone_bg _ _ _⟩) (afterPrepare_jl _)
      · exact Or.inl (NJ_of_bg (beginDrain_bg s))

theorem joinLast_of_jl {e : Ev} {obs : List Ob} {sn : Snap} (h : JL obs) : joinLastStep ⟨e, obs, sn⟩ = true := by
  unfold joinLastStep
  simp only []
  have nojoin : ∀ {l : List Ob}, NJ l → l.any isJoinOb = false := by
    intro l hl
    rw [List.any_eq_false]
    intro o ho hj
    rw [hl o ho] at hj; cases hj
  rcases h with h | ⟨pre, m, rfl, hp⟩
  · cases hr : obs.reverse with
    | nil => rfl
    | cons x xs =>
      simp only []
      have : NJ xs := by
        intro o ho
        exact h o (by rw [← List.mem_reverse, hr]; exact List.mem_cons_of_mem _ ho)
      rw [nojoin this]; rfl
  · rw [List.reverse_append]
    simp only [List.reverse_cons, List.reverse_nil, List.nil_append, List.singleton_append]
    have : NJ pre.reverse := fun o ho => hp o (List.mem_reverse.mp ho)
    rw [nojoin this]; rfl

/-- every step's observations have that shape -/
theorem step_jl (cfg : Cfg) (s : St) (e : Ev) : JL (step cfg s e).2 := by
  have bad : JL [Ob.badOp] := Or.inl (by intro o ho; simp at ho; subst ho; rfl)
  have nil : JL [] := Or.inl NJ_nil
  -- a step whose significant observations contain no join is all-background as far as joins go
  by_cases hj : ∃ o ∈ (step cfg s e).2, isJoinOb o = true
  · obtain ⟨o, ho, hjo⟩ := hj
    have hsig := mem_sig ho (not_bg_of_join hjo)
    rw [step_sig] at hsig
    cases e with
    | metaDone r =>
      cases r with
      | err e => simp [expectedSig] at hsig
      | ok =>
        by_cases h1 : (s.jpc != .metaLoad) = true
        · simp [expectedSig, h1] at hsig
        · by_cases h2 : s.stopping = true
          · simp [expectedSig, h1, h2] at hsig
          · have e1 : step cfg s (.metaDone .ok) = prepare { s with coordBroker := true } := by simp [step, h1, h2]
            rw [e1]; exact prepare_jl _
    | consumerDown cid ok =>
      simp only [step]
      split
      · unfold consumerDown
        simp only []
        split
        · split
          · exact nil
          · simp only [andThen_snd]
            exact JL_prefix (drainDone_bg _ _ _) (afterPrepare_jl _)
        · split
          · exact nil
          · split
            · exact nil
            · simp only [andThen_snd]
              exact Or.inl (NJ_of_bg ((BG_append _ _).mpr ⟨drainDone_bg _ _ _, stopLoop_bg _ _ _ _⟩))
      · exact bad
    | start => simp only [expectedSig, lookupSig] at hsig; repeat' split at hsig
               all_goals (first | (simp at hsig; done) | (simp at hsig; subst hsig; cases hjo))
    | stop => simp [expectedSig] at hsig
    | coordDone r =>
      cases r <;> simp only [expectedSig] at hsig
      · repeat' split at hsig
        all_goals (first | (simp at hsig; done) | (simp at hsig; subst hsig; cases hjo))
      · cases hsig
      · cases hsig
    | joinDone r =>
      cases r <;> simp only [expectedSig] at hsig
      · repeat' split at hsig
        all_goals (first | (simp at hsig; done) | (simp at hsig; subst hsig; cases hjo))
      · cases hsig
    | partsDone r =>
      cases r <;> simp only [expectedSig] at hsig
      · repeat' split at hsig
        all_goals (first | (simp at hsig; done) | (simp at hsig; subst hsig; cases hjo))
      · cases hsig
    | syncDone r =>
      cases r with
      | err e => simp [expectedSig] at hsig
      | ok asg =>
        simp only [expectedSig] at hsig
        split at hsig
        · cases hsig
        · split at hsig
          · cases hsig
          · unfold startObs at hsig
            obtain ⟨x, _, rfl⟩ := List.mem_map.mp hsig
            cases hjo
    | hbDone r => simp [expectedSig] at hsig
    | leaveDone r => simp [expectedSig] at hsig
    | consumerErr cid e => simp [expectedSig] at hsig
    | consumerQuirk cid q => simp [expectedSig] at hsig
    | fire id hbNext =>
      simp only [expectedSig, lookupSig] at hsig
      repeat' split at hsig
      all_goals (first | (simp at hsig; done) | (simp at hsig; subst hsig; cases hjo))
    | advance dt => simp [expectedSig] at hsig
  · -- no join at all
    exact Or.inl (fun o ho => by
      cases hb : isJoinOb o with
      | false => rfl
      | true => exact absurd ⟨o, ho, hb⟩ hj)

theorem joinLast_run (cfg : Cfg) (evs : List Ev) : joinLast (toMSteps (run cfg evs)) = true := by
  refine all_runFrom cfg _ (fun s _ e => ?_) evs init sinv_init
  exact joinLast_of_jl (step_jl cfg s e)

end Afkak.Group
