import AfkakProofs.Group.Frames
import AfkakProofs.Group.Step
/-!
# Nothing but a processed successful sync reply makes the group hold a consumer
-/
namespace Afkak.Group
open Afkak.Consts

theorem noheld_of_cons {s s' : St} (h : NoHeld s) (e : s'.cons = s.cons) : NoHeld s' := by
  unfold NoHeld; rw [e]; exact h

theorem stopConsumers_nh {s : St} (h : NoHeld s) : NoHeld (stopConsumers s).1 := stopCons_noheld h _

theorem rejoinCore_nh {s : St} (h : NoHeld s) (cfg : Cfg) (e : GErr) : NoHeld (rejoinCore cfg s e).1.1 :=
  rejoinWith_noheld h _ _

theorem escapeCore_nh {s : St} (h : NoHeld s) (cfg : Cfg) (e : GErr) : NoHeld (escapeCore cfg s e).1.1 := by
  unfold escapeCore
  simp only []
  split
  · exact rejoinCore_nh (s := { s with jpc := .idle, rejoinD := false }) h cfg e
  · exact h

theorem cancelJoin_nh {s : St} (h : NoHeld s) (cfg : Cfg) : NoHeld (cancelJoin cfg s).1 := by
  unfold cancelJoin
  split
  · simp only []
    split
    · exact h
    · simp only [andThen_fst]
      split
      · exact escapeCore_nh (s := { s with rejoinD := false }) h cfg _
      · exact h
      · exact h
    · exact h
    · exact stopCons_noheld (s := { s with rejoinD := false }) h _
    · exact h
    · exact rejoinCore_nh (s := { s with rejoinD := false, jpc := .idle }) h cfg _
    · exact escapeCore_nh (s := { s with rejoinD := false }) h cfg _
    · exact rejoinCore_nh (s := { s with rejoinD := false, jpc := .idle }) h cfg _
  · exact h

theorem finishStop_nh {s : St} (h : NoHeld s) (cfg : Cfg) (err : Option GErr) (user : Bool) : NoHeld (finishStop cfg s err user).1 := by
  unfold finishStop
  exact cancelJoin_nh h cfg

theorem stopCancelHb_nh {s : St} (h : NoHeld s) (cfg : Cfg) : NoHeld (stopCancelHb cfg s).1 := by
  unfold stopCancelHb
  split
  · simp only []
    split
    · exact rejoinCore_nh (s := (hbStop { s with hbInFlight := false }).1) h cfg _
    · exact h
  · exact h

theorem leaveOrFinish_nh {s : St} (h : NoHeld s) (cfg : Cfg) (err : Option GErr) (user : Bool) : NoHeld (leaveOrFinish cfg err user s).1 := by
  unfold leaveOrFinish
  split
  · exact h
  · exact finishStop_nh h cfg err user

theorem coordStop_nh {s : St} (h : NoHeld s) (cfg : Cfg) (err : Option GErr) (user : Bool) : NoHeld (coordStop cfg s err user).1 := by
  unfold coordStop
  split
  · exact h
  · simp only []
    split
    · exact h
    · simp only [andThen_fst]
      apply leaveOrFinish_nh
      unfold stopLooper
      have h1 : NoHeld (stopCancelDc { s with stopping := true, rejoinNeeded := false }).1 := by
        unfold stopCancelDc; split <;> exact h
      have h2 := stopCancelHb_nh h1 cfg
      split
      · exact h2
      · exact h2

theorem beginDrain_nh (s : St) : NoHeld (beginDrain s).1 := by
  unfold beginDrain NoHeld
  simp only []
  intro c hc
  obtain ⟨c0, _, rfl⟩ := List.mem_map.mp hc
  split
  · split <;> rfl
  · rename_i hh; simpa using hh

theorem stopLoop_nh (cfg : Cfg) (s : St) (err : Option GErr) (user : Bool) (h : NoHeld s) : NoHeld (stopLoop cfg s err user).1 := by
  unfold stopLoop
  split
  · exact coordStop_nh h cfg err user
  · simp only []
    split
    · exact coordStop_nh (drainDone_noheld (beginDrain_nh s) _ _) cfg err user
    · exact beginDrain_nh s

theorem stopCall_nh (cfg : Cfg) (s : St) (err : Option GErr) (user : Bool) (h : NoHeld s) : NoHeld (stopCall cfg s err user).1 := by
  unfold stopCall
  split
  · exact stopLoop_nh cfg _ err user h
  · exact stopLoop_nh cfg s err user h

theorem rejoinAfterError_nh (cfg : Cfg) (s : St) (e : GErr) (h : NoHeld s) : NoHeld (rejoinAfterError cfg s e).1 := by
  unfold rejoinAfterError
  simp only []
  split
  · exact stopCall_nh cfg _ _ _ (rejoinCore_nh h cfg e)
  · exact rejoinCore_nh h cfg e

theorem escape_nh (cfg : Cfg) (s : St) (e : GErr) (h : NoHeld s) : NoHeld (escape cfg s e).1 := by
  unfold escape
  simp only []
  split
  · exact stopCall_nh cfg _ _ _ (escapeCore_nh h cfg e)
  · exact escapeCore_nh h cfg e

theorem afterPrepare_nh {s : St} (h : NoHeld s) : NoHeld (afterPrepare s).1 := by
  unfold afterPrepare; split <;> exact h

theorem prepare_nh (s : St) (h : NoHeld s) : NoHeld (prepare s).1 := by
  unfold prepare
  split
  · exact h
  · split
    · exact afterPrepare_nh h
    · simp only []
      split
      · exact afterPrepare_nh (drainDone_noheld (beginDrain_nh s) _ _)
      · exact beginDrain_nh s

theorem consumerDown_nh (cfg : Cfg) (s : St) (cid : Nat) (ok : Bool) (h : NoHeld s) : NoHeld (consumerDown cfg s cid ok).1 := by
  unfold consumerDown
  have h1 : NoHeld { s with cons := s.cons.map fun (c : Con) => if c.cid = cid && c.phase == .draining then { c with phase := .stopped, startFired := true } else c } :=
    noheld_cons_map _ (fun c => by split <;> rfl) h
  simp only []
  split
  · split
    · exact h1
    · refine afterPrepare_nh (drainDone_noheld ?_ _ _)
      exact noheld_of_cons h1 rfl
  · split
    · exact h1
    · split
      · exact h1
      · refine stopLoop_nh cfg _ _ _ (drainDone_noheld ?_ _ _)
        exact noheld_of_cons h1 rfl

end Afkak.Group
