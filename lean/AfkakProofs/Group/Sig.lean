import AfkakProofs.Group.Obs
/-!
# The significant observations of a step, computed from the pre-state

`sigObs obs` keeps the non-background observations (client requests of the join protocol and
`consumerStart`).  `expectedSig` says, from the pre-state and the event alone, what they are.
-/
namespace Afkak.Group
open Afkak.Consts

def sigObs (obs : List Ob) : List Ob := obs.filter fun o => !bg o

theorem sig_bg {obs : List Ob} (h : BG obs) : sigObs obs = [] := by
  unfold sigObs
  rw [List.filter_eq_nil_iff]
  intro o ho
  simp [h o ho]

@[simp] theorem sig_append (a b : List Ob) : sigObs (a ++ b) = sigObs a ++ sigObs b := by
  unfold sigObs; simp
@[simp] theorem sig_nil : sigObs [] = [] := rfl

/-- `join_and_sync()`'s request -/
def lookupSig (s : St) : List Ob := if s.rejoinNeeded && !s.rejoinD then [.coordLookup] else []

def startObs (s : St) (asg : List (Nat × List Int)) : List Ob :=
  let tps : List (Nat × Int) := asg.flatMap fun tp => tp.2.map fun p => (tp.1, p)
  tps.zipIdx.map fun (tp, i) => .consumerStart (s.nextCid + i) tp.1 tp.2 s.gen s.member groupConsumerStartOffset

def expectedSig (s : St) : Ev → List Ob
  | .start => if s.started || s.stopping then [] else lookupSig s
  | .fire id hbNext =>
    if hbNext.any (· < 0) then [] else
    match s.timers.filter (·.id == id) with
    | [] => []
    | t :: _ =>
      if s.now < t.due then [] else
      match t.kind with
      | .hb => if s.stopping || s.rejoinNeeded || s.hbInFlight then [] else [.heartbeat s.gen s.member]
      | _ => lookupSig s
  | .coordDone .ok => if s.jpc != .coordLookup then [] else [.loadMeta]
  | .metaDone .ok =>
    if s.jpc != .metaLoad then [] else if s.stopping then [] else if s.stopDraining then [] else
    if (heldCids s).isEmpty then [.join s.member] else
    -- every shutdown() raised, or one returned a failed Deferred: the drain is over at once
    if drainFails s || (beginDrain s).2.2.pending.isEmpty then [.join s.member] else []
  | .joinDone (.ok m g leader _) =>
    if s.jpc != .join then [] else if s.stopping then [] else
    if leader then [.loadParts] else [.sync (some g) m 0]
  | .partsDone .ok =>
    match s.jpc with
    | .loadParts n => if s.stopping then [] else [.sync s.gen s.member n]
    | _ => []
  | .syncDone (.ok asg) =>
    if s.jpc != .sync then [] else if s.stopping then [] else startObs s asg
  | .consumerDown cid ok =>
    if s.cons.any (fun c => c.cid = cid && c.phase = .draining) then
      if s.jpc = .prepare && s.prep.pending.contains cid then
        if ok && !(s.prep.pending.filter (· != cid)).isEmpty then [] else
        if s.stopping then [] else [.join s.member]
      else []
    else []
  | _ => []

theorem joinAndSync_sig (s : St) : sigObs (joinAndSync s).2 = lookupSig s := by
  unfold joinAndSync lookupSig
  simp only []
  by_cases h1 : s.rejoinNeeded = true <;> by_cases h2 : s.rejoinD = true <;> simp [h1, h2, sigObs, bg]

theorem afterPrepare_sig (s : St) : sigObs (afterPrepare s).2 = if s.stopping then [] else [.join s.member] := by
  unfold afterPrepare
  split <;> simp [sigObs, bg]

theorem startConsumers_sig (s : St) (asg : List (Nat × List Int)) : sigObs (startConsumers s asg).2 = startObs s asg := by
  unfold startConsumers startObs sigObs
  simp only [List.map_map]
  rw [List.filter_eq_self.mpr]
  · rfl
  · intro o ho
    obtain ⟨x, _, rfl⟩ := List.mem_map.mp ho
    rfl

theorem step_sig (cfg : Cfg) (s : St) (e : Ev) : sigObs (step cfg s e).2 = expectedSig s e := by
  cases e with
  | start =>
    simp only [step, expectedSig]
    split
    · simp [sigObs, bg]
    · rw [joinAndSync_sig]; rfl
  | stop => simp only [step, expectedSig]; exact sig_bg (userStop_bg _ _)
  | coordDone r =>
    simp only [step]
    split
    · rename_i hj; cases r <;> simp [expectedSig, hj, sigObs, bg]
    · rename_i hj
      cases r with
      | ok => simp [expectedSig, hj, sigObs, bg]
      | none => simp only [expectedSig]; exact sig_bg (BG_andThen (addTimer_bg _ _ _) (fun _ => BG_nil))
      | err e =>
        simp only [expectedSig]
        split
        · exact sig_bg (escape_bg _ _ _)
        · exact sig_bg (BG_andThen (addTimer_bg _ _ _) (fun _ => BG_nil))
        · exact sig_bg (BG_andThen (addTimer_bg _ _ _) (fun _ => BG_nil))
  | metaDone r =>
    simp only [step]
    split
    · rename_i hj; cases r <;> simp [expectedSig, hj, sigObs, bg]
    · rename_i hj
      cases r with
      | err e => simp only [expectedSig]; exact sig_bg (escape_bg _ _ _)
      | ok =>
        simp only [expectedSig, hj, if_false]
        split
        · rfl
        · unfold prepare
          have : heldCids { s with coordBroker := true } = heldCids s := rfl
          rw [this]
          simp only []
          split
          · rfl
          split
          · rw [afterPrepare_sig]; simp_all
          · have hd : drainFails { s with coordBroker := true } = drainFails s := rfl
            have hb : beginDrain { s with coordBroker := true } = ({ (beginDrain s).1 with coordBroker := true }, (beginDrain s).2) := rfl
            rw [hd, hb]
            simp only []
            split
            · simp only [andThen_snd, sig_append]
              rw [sig_bg (beginDrain_bg s), sig_bg (drainDone_bg _ _ _), afterPrepare_sig]
              simp only [andThen_fst]
              have hm : ∀ d b, (drainDone { (beginDrain s).1 with coordBroker := true } d b).1.member = s.member := by
                intro d b; unfold drainDone; split <;> rfl
              have hst : ∀ d b, (drainDone { (beginDrain s).1 with coordBroker := true } d b).1.stopping = s.stopping := by
                intro d b; unfold drainDone; split <;> rfl
              simp only [hm, hst]
              simp_all
            · exact sig_bg (beginDrain_bg s)
  | joinDone r =>
    simp only [step]
    split
    · rename_i hj; cases r <;> simp [expectedSig, hj, sigObs, bg]
    · rename_i hj
      cases r with
      | err e => simp only [expectedSig]; exact sig_bg (BG_andThen (rejoinAfterError_bg _ _ _) (fun _ => BG_nil))
      | ok m g leader n =>
        simp only [expectedSig, hj, if_false, abandonHb_eq, andThen_snd, sig_append]
        have hpre : sigObs (if s.hbInFlight = true then [Ob.cancelReq ReqKind.hbR] else []) = [] := by
          split <;> simp [sigObs, bg]
        rw [hpre, List.nil_append]
        split
        · rfl
        · split <;> simp [sigObs, bg]
  | partsDone r =>
    simp only [step]
    split
    · rename_i n hj
      cases r with
      | err e => simp only [expectedSig]; exact sig_bg (escape_bg _ _ _)
      | ok =>
        simp only [expectedSig, hj]
        split <;> simp [sigObs, bg]
    · rename_i hj
      cases r with
      | err e => simp [expectedSig, sigObs, bg]
      | ok =>
        simp only [expectedSig]
        first
          | simp [sigObs, bg]
          | (split
             · rename_i n hn; exact absurd hn (hj n)
             · simp [sigObs, bg])
  | syncDone r =>
    simp only [step]
    split
    · rename_i hj; cases r <;> simp [expectedSig, hj, sigObs, bg]
    · rename_i hj
      cases r with
      | err e => simp only [expectedSig]; exact sig_bg (BG_andThen (rejoinAfterError_bg _ _ _) (fun _ => BG_nil))
      | ok asg =>
        simp only [expectedSig, hj, if_false]
        split
        · rfl
        · simp only [andThen_snd, sig_append]
          rw [sig_bg (resetHeartbeat_bg _ _), startConsumers_sig]
          unfold startObs resetHeartbeat hbSchedule
          split <;> rfl
  | hbDone r =>
    simp only [step, expectedSig]
    split
    · simp [sigObs, bg]
    · cases r with
      | ok => rfl
      | err e =>
        simp only []
        split
        · exact sig_bg (BG_andThen (hbStop_bg _) (fun _ => rejoinAfterError_bg _ _ _))
        · simp [sigObs, bg]
  | leaveDone r =>
    simp only [step, expectedSig]
    split
    · simp [sigObs, bg]
    · exact sig_bg (finishStop_bg _ _ _ _)
  | consumerDown cid ok =>
    simp only [step, expectedSig]
    split
    · unfold consumerDown
      simp only []
      split
      · rename_i hc
        split
        · rfl
        · simp only [andThen_snd, sig_append]
          rw [sig_bg (drainDone_bg _ _ _), afterPrepare_sig, (drainDone_ctl _ _ _).2.2.1]
          have hm : ∀ d b, (drainDone { s with cons := s.cons.map fun (c : Con) => if c.cid = cid && c.phase == .draining then { c with phase := .stopped, startFired := true } else c, prep := ⟨[], []⟩ } d b).1.member = s.member := by
            intro d b; unfold drainDone; split <;> rfl
          rw [hm]
          rfl
      · split
        · rfl
        · split
          · rfl
          · exact sig_bg (BG_andThen (drainDone_bg _ _ _) (fun _ => stopLoop_bg _ _ _ _))
    · simp [sigObs, bg]
  | consumerErr cid e =>
    simp only [step, expectedSig]
    split
    · split
      · rfl
      · exact sig_bg (rejoinAfterError_bg _ _ _)
    · simp [sigObs, bg]
  | consumerQuirk cid q =>
    simp only [step, expectedSig]
    split <;> simp [sigObs, bg]
  | fire id hbNext =>
    simp only [step, expectedSig]
    split
    · simp [sigObs, bg]
    cases hf : s.timers.filter (·.id == id) with
    | nil => simp [sigObs, bg]
    | cons t rest =>
      simp only []
      split
      · simp [sigObs, bg]
      · cases hk : t.kind with
        | rejoin => simp only []; rw [joinAndSync_sig]; rfl
        | retry => simp only []; rw [joinAndSync_sig]; rfl
        | hb =>
          simp only [andThen_snd, sig_append]
          split
          · split
            · rw [sig_bg (addTimer_bg _ _ _)]; rfl
            · rfl
          · split
            · rw [sig_bg (addTimer_bg _ _ _)]; simp [sigObs, bg]
            · simp [sigObs, bg]
  | advance dt =>
    simp only [step, expectedSig]
    split <;> simp [sigObs, bg]

end Afkak.Group
