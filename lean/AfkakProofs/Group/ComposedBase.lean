import Afkak.GroupCompose
import AfkakProofs.Group.Compose
import AfkakProofs.Group.DrainStep
/-!
# The composed monitors (group member × its partition consumers' requests): induction principle,
`composedLive`, `composedCommitIds`

`checkFrom_prunFrom`: a composed check holds on every product run from a state `s` (with `SInv`,
`DInv`) and monitor state `st` related by a ghost invariant `G s st` when every product step keeps `G`
and emits only requests the check accepts.
-/
namespace Afkak.GroupCompose
open Afkak.Group Afkak.Consts

theorem isJoinOb_eq (o : Ob) : Afkak.GroupCompose.isJoinOb o = Afkak.Monitor.C16.isJoinOb o := by
  cases o <;> rfl

theorem pstep_sinv {s : St} (h : SInv s) (cfg : Cfg) (e : PEv) : SInv (pstep cfg s e).1 := by
  cases e with
  | grp e => exact step_sinv h cfg e
  | conFetch cid => exact h
  | conCommit cid => exact h

theorem pstep_dinv {s : St} (hd : DInv s) (h : SInv s) (cfg : Cfg) (e : PEv) : DInv (pstep cfg s e).1 := by
  cases e with
  | grp e => exact step_dinv hd h cfg e
  | conFetch cid => exact hd
  | conCommit cid => exact hd

/-- the monitor state after a product step -/
def nextOf (cfg : Cfg) (s : St) (st : MSt) (e : PEv) : MSt :=
  next st ⟨e, (pstep cfg s e).2.1, (pstep cfg s e).2.2, snap (pstep cfg s e).1⟩

theorem checkFrom_prunFrom (cfg : Cfg) (ok : Snap → MSt → CReq → Bool) (G : St → MSt → Prop)
    (hstep : ∀ s st e, SInv s → DInv s → G s st →
      (∀ r ∈ (pstep cfg s e).2.2, ok (snap s) st r = true) ∧ G (pstep cfg s e).1 (nextOf cfg s st e))
    (evs : List PEv) : ∀ s st, SInv s → DInv s → G s st → checkFrom ok (snap s) st (prunFrom cfg s evs) = true := by
  induction evs with
  | nil => intro s st _ _ _; rfl
  | cons e es ih =>
    intro s st h hd hg
    obtain ⟨h1, h2⟩ := hstep s st e h hd hg
    simp only [prunFrom, checkFrom, Bool.and_eq_true, List.all_eq_true]
    exact ⟨h1, ih _ _ (pstep_sinv h cfg e) (pstep_dinv hd h cfg e) h2⟩

/-- the first record of `liveCons s cid` is a record of `s` with that cid that is not stopped -/
theorem liveCons_head {s : St} {cid : Nat} {c : Con} {l : List Con} (h : liveCons s cid = c :: l) :
    c ∈ s.cons ∧ c.cid = cid ∧ c.phase ≠ .stopped := by
  have hm : c ∈ liveCons s cid := by rw [h]; exact List.mem_cons_self
  unfold liveCons at hm
  obtain ⟨h1, h2⟩ := List.mem_filter.mp hm
  simp only [Bool.and_eq_true, beq_iff_eq, bne_iff_ne, ne_eq] at h2
  exact ⟨h1, h2.1, h2.2⟩

/-- a fetch / commit request of a product step comes from a record that is not stopped -/
theorem pstep_req_live (cfg : Cfg) (s : St) (e : PEv) (r : CReq) (hr : r ∈ (pstep cfg s e).2.2) :
    (∀ cid, r = .fetch cid → ∃ c ∈ s.cons, c.cid = cid ∧ c.phase ≠ .stopped) ∧
    (∀ cid g m, r = .commit cid g m → ∃ c ∈ s.cons, c.cid = cid ∧ c.phase ≠ .stopped ∧ c.gen = g ∧ c.member = m) := by
  cases e with
  | grp e => simp [pstep] at hr
  | conFetch cid =>
    simp only [pstep] at hr
    cases hl : liveCons s cid with
    | nil => rw [hl] at hr; simp only [List.mem_singleton] at hr; subst hr; exact ⟨fun _ x => (by cases x), fun _ _ _ x => (by cases x)⟩
    | cons c l =>
      rw [hl] at hr; simp only [List.mem_singleton] at hr; subst hr
      obtain ⟨a, b, d⟩ := liveCons_head hl
      refine ⟨fun cid' x => ?_, fun _ _ _ x => (by cases x)⟩
      injection x with x; subst x
      exact ⟨c, a, b, d⟩
  | conCommit cid =>
    simp only [pstep] at hr
    cases hl : liveCons s cid with
    | nil => rw [hl] at hr; simp only [List.mem_singleton] at hr; subst hr; exact ⟨fun _ x => (by cases x), fun _ _ _ x => (by cases x)⟩
    | cons c l =>
      rw [hl] at hr; simp only [List.mem_singleton] at hr; subst hr
      obtain ⟨a, b, d⟩ := liveCons_head hl
      refine ⟨fun _ x => (by cases x), fun cid' g m x => ?_⟩
      injection x with x1 x2 x3; subst x1 x2 x3
      exact ⟨c, a, b, d, rfl, rfl⟩

theorem liveIn_of_mem {s : St} {cid : Nat} {c : Con} (hc : c ∈ s.cons) (e : c.cid = cid) (hp : c.phase ≠ .stopped) :
    liveIn (snap s) cid = true := by
  unfold liveIn
  rw [List.any_eq_true]
  exact ⟨c, by simpa [snap] using hc, by simp [e, hp]⟩

/-- **a fetch / commit comes from a running or draining consumer**, on every product run -/
theorem composedLive_run (cfg : Cfg) (evs : List PEv) : composedLive (prun cfg evs) = true := by
  unfold composedLive prun
  refine checkFrom_prunFrom cfg _ (fun _ _ => True) (fun s st e _ _ _ => ⟨fun r hr => ?_, trivial⟩) evs init {} sinv_init dinv_init trivial
  obtain ⟨h1, h2⟩ := pstep_req_live cfg s e r hr
  cases r with
  | refused => rfl
  | fetch cid =>
    obtain ⟨c, hc, e, hp⟩ := h1 cid rfl
    exact liveIn_of_mem hc e hp
  | commit cid g m =>
    obtain ⟨c, hc, e, hp, _⟩ := h2 cid g m rfl
    exact liveIn_of_mem hc e hp

theorem mem_startsOf {obs : List Ob} {cid t : Nat} {p : Int} {g : Option Int} {m : Nat} {off : Int}
    (h : Ob.consumerStart cid t p g m off ∈ obs) : (cid, g, m) ∈ startsOf obs := by
  unfold startsOf
  exact List.mem_filterMap.mpr ⟨_, h, rfl⟩

/-- ghost invariant of `composedCommitIds`: the monitor knows the ids of every record -/
def KnownAll (s : St) (st : MSt) : Prop := ∀ c ∈ s.cons, (c.cid, c.gen, c.member) ∈ st.known

theorem knownAll_step (cfg : Cfg) (s : St) (st : MSt) (e : PEv) (hk : KnownAll s st) :
    KnownAll (pstep cfg s e).1 (nextOf cfg s st e) := by
  intro c' hc'
  simp only [nextOf, next]
  refine List.mem_append.mpr ?_
  cases e with
  | grp e =>
    simp only [pstep] at hc' ⊢
    rcases step_ident cfg s e c' hc' with ⟨c, hc, hi⟩ | ⟨off, ho⟩
    · left
      simp only [ident, Prod.mk.injEq] at hi
      obtain ⟨a, _, _, d, f⟩ := hi
      rw [← a, ← d, ← f]; exact hk c hc
    · right; exact mem_startsOf ho
  | conFetch cid => left; exact hk c' hc'
  | conCommit cid => left; exact hk c' hc'

/-- **every commit request carries the generation and member id its consumer was started with**,
    on every product run -/
theorem composedCommitIds_run (cfg : Cfg) (evs : List PEv) : composedCommitIds (prun cfg evs) = true := by
  unfold composedCommitIds prun
  refine checkFrom_prunFrom cfg _ KnownAll (fun s st e _ _ hk => ⟨fun r hr => ?_, knownAll_step cfg s st e hk⟩) evs init {}
    sinv_init dinv_init (by intro c hc; simp [init] at hc)
  cases r with
  | refused => rfl
  | fetch cid => rfl
  | commit cid g m =>
    obtain ⟨c, hc, e, _, eg, em⟩ := (pstep_req_live cfg s e _ hr).2 cid g m rfl
    have := hk c hc
    rw [e, eg, em] at this
    simp only [commitIdsOk, List.contains_eq_mem, decide_eq_true_eq]
    exact this

end Afkak.GroupCompose
