import AfkakProofs.Group.QuirkKeep
import AfkakProofs.Group.DrainStep
import AfkakProofs.Group.Tables
/-!
# C16 `gracefulDrain` on every history in which `Coordinator.stop` never cancels a join that waits in
`on_join_prepare`

Where a `consumerStop` (hard stop, no final commit) can come from:

* `stop_consumers()` (`on_group_leave`) in `rejoin_after_error` — only for a row with `leave` or the
  fatal row, i.e. (generated tables) an eviction or a fatal error, carried by the event of that step;
* the fallback of `shutdown_consumers` when a shutdown Deferred fails — the event `consumerDown _ false`,
  or a faulty consumer whose `shutdown()` is attempted in that very step (`consumerShutdown c`, `c` in
  the monitor's `faulty` list: linked to the records' `quirk` by `QL`);
* a `shutdown()` that raises — again a faulty consumer's `consumerShutdown` in that step;
* `cancelJoin` finding the coroutine in `on_join_prepare`: the known finding
  (`stop-kills-consumers-draining-for-rejoin`), excluded by `killsPrepareAt`.
-/
namespace Afkak.Group
open Afkak.Consts Afkak.Monitor.C16

def isStopOb : Ob → Bool | .consumerStop _ => true | _ => false

def NS (obs : List Ob) : Prop := ∀ x ∈ obs, isStopOb x = false
@[simp] theorem NS_nil : NS [] := by intro x h; cases h
@[simp] theorem NS_append (a b : List Ob) : NS (a ++ b) ↔ NS a ∧ NS b := by
  unfold NS; constructor
  · intro h; exact ⟨fun o ho => h o (List.mem_append_left _ ho), fun o ho => h o (List.mem_append_right _ ho)⟩
  · intro ⟨h1, h2⟩ o ho; rcases List.mem_append.mp ho with x | x
    · exact h1 o x
    · exact h2 o x
@[simp] theorem NS_cons (o : Ob) (l : List Ob) : NS (o :: l) ↔ isStopOb o = false ∧ NS l := by
  unfold NS; simp
theorem NS_map_cancel (l : List Nat) : NS (l.map .cancelTimer) := by
  intro o ho; obtain ⟨c, _, rfl⟩ := List.mem_map.mp ho; rfl
/-- sequencing at the state actually reached -/
theorem NS_andThen {o : Out} {f : St → Out} (h1 : NS o.2) (h2 : NS (f o.1).2) : NS (andThen o f).2 := by
  rw [andThen_snd, NS_append]; exact ⟨h1, h2⟩

/-- hard stops, if any, are excused by the attempted shutdown of a faulty consumer in the same list -/
def FJ (F : List Nat) (obs : List Ob) : Prop := (∃ x ∈ obs, isStopOb x = true) → ∃ c ∈ F, Ob.consumerShutdown c ∈ obs

theorem FJ_of_ns {F : List Nat} {obs : List Ob} (h : NS obs) : FJ F obs := by
  intro ⟨x, hx, hs⟩; rw [h x hx] at hs; cases hs
theorem FJ_append {F : List Nat} {a b : List Ob} (h1 : FJ F a) (h2 : FJ F b) : FJ F (a ++ b) := by
  intro ⟨x, hx, hs⟩
  rcases List.mem_append.mp hx with y | y
  · obtain ⟨c, hc, hm⟩ := h1 ⟨x, y, hs⟩; exact ⟨c, hc, List.mem_append_left _ hm⟩
  · obtain ⟨c, hc, hm⟩ := h2 ⟨x, y, hs⟩; exact ⟨c, hc, List.mem_append_right _ hm⟩
theorem FJ_witness {F : List Nat} {obs : List Ob} (c : Nat) (hc : c ∈ F) (hm : Ob.consumerShutdown c ∈ obs) : FJ F obs :=
  fun _ => ⟨c, hc, hm⟩
theorem FJ_left {F : List Nat} {a b : List Ob} (h : FJ F a) (hb : NS b) : FJ F (a ++ b) := FJ_append h (FJ_of_ns hb)
theorem FJ_witness_left {F : List Nat} {a : List Ob} (b : List Ob) (c : Nat) (hc : c ∈ F) (hm : Ob.consumerShutdown c ∈ a) : FJ F (a ++ b) :=
  FJ_witness c hc (List.mem_append_left _ hm)

/-- the monitor's `faulty` list covers every record whose `shutdown()` the environment has rigged -/
def QL (F : List Nat) (s : St) : Prop := ∀ c ∈ s.cons, c.quirk ≠ .none → c.cid ∈ F

theorem QL_of_cons {F : List Nat} {s s' : St} (h : QL F s) (e : s'.cons = s.cons) : QL F s' := by
  intro c hc; rw [e] at hc; exact h c hc

/-! ## table facts -/
namespace Tables
/-- neither an eviction nor a fatal error: the row leaves the consumers alone and is not the fatal one -/
theorem benign_row (st : Bool) (e : GErr) (h1 : isEviction e = false) (h2 : isFatalErr e = false) :
    (rejoinRow st e).leave = false ∧ (rejoinRow st e).act ≠ .fatal := by
  cases st <;> cases e <;> simp_all [isEviction, isFatalErr] <;> decide
theorem stopping_cancelled : (rejoinRow true .cancelled).leave = false ∧ (rejoinRow true .cancelled).act ≠ .fatal := by decide
theorem stopping_unavailable : (rejoinRow true .kafkaUnavailable).leave = false ∧ (rejoinRow true .kafkaUnavailable).act ≠ .fatal := by decide
end Tables

/-! ## helpers that never hard-stop a consumer -/
theorem addTimer_ns (s : St) (k : TKind) (d : Rat) : NS (addTimer s k d).2 := by simp [addTimer, isStopOb]
theorem cancelTimer_ns (s : St) (id : Nat) : NS (cancelTimer s id).2 := by simp [cancelTimer, isStopOb]
theorem hbStop_ns (s : St) : NS (hbStop s).2 := NS_map_cancel _
theorem hbSchedule_ns (cfg : Cfg) (s : St) : NS (hbSchedule cfg s).2 := addTimer_ns _ _ _
theorem resetHeartbeat_ns (cfg : Cfg) (s : St) : NS (resetHeartbeat cfg s).2 := by
  unfold resetHeartbeat
  split
  · exact NS_andThen (NS_map_cancel _) (hbSchedule_ns _ _)
  · exact hbSchedule_ns _ _
theorem scheduleRejoin_ns (cfg : Cfg) (s : St) (fd : Bool) : NS (scheduleRejoin cfg s fd).2 := by
  unfold scheduleRejoin
  simp only []
  split
  · exact NS_andThen (addTimer_ns _ _ _) NS_nil
  · exact NS_nil
theorem rowEffects_ns (s : St) (row : RejoinRow) (hl : row.leave = false) : NS (rowEffects s row).2 := by
  unfold rowEffects
  simp only [hl, Bool.false_eq_true, if_false]
  refine NS_andThen (NS_andThen NS_nil ?_) ?_
  · simp only []; split <;> simp [isStopOb]
  · exact NS_nil
theorem rejoinWith_ns (cfg : Cfg) (s : St) (row : RejoinRow) (hl : row.leave = false) (ha : row.act ≠ .fatal) :
    NS (rejoinWith cfg s row).1.2 ∧ (rejoinWith cfg s row).2 = false := by
  unfold rejoinWith
  split
  · exact ⟨NS_nil, rfl⟩
  · rename_i h; exact absurd h ha
  · exact ⟨rowEffects_ns s row hl, rfl⟩
  · exact ⟨NS_andThen (rowEffects_ns s row hl) (scheduleRejoin_ns _ _ _), rfl⟩
theorem rejoinCore_ns (cfg : Cfg) (s : St) (e : GErr)
    (h : (rejoinRow s.stopping e).leave = false ∧ (rejoinRow s.stopping e).act ≠ .fatal) :
    NS (rejoinCore cfg s e).1.2 ∧ (rejoinCore cfg s e).2 = false := rejoinWith_ns cfg s _ h.1 h.2
theorem escapeCore_ns (cfg : Cfg) (s : St) (e : GErr)
    (h : (rejoinRow s.stopping e).leave = false ∧ (rejoinRow s.stopping e).act ≠ .fatal) :
    NS (escapeCore cfg s e).1.2 ∧ (escapeCore cfg s e).2 = false := by
  unfold escapeCore
  simp only []
  split
  · exact rejoinCore_ns cfg { s with jpc := .idle, rejoinD := false } e h
  · exact ⟨NS_nil, rfl⟩
theorem joinAndSync_ns (s : St) : NS (joinAndSync s).2 := by
  unfold joinAndSync
  simp only []
  split
  · exact NS_nil
  · split
    · exact NS_nil
    · simp [isStopOb]
theorem afterPrepare_ns (s : St) : NS (afterPrepare s).2 := by
  unfold afterPrepare; split
  · exact NS_nil
  · simp [isStopOb]
theorem startConsumers_ns (s : St) (asg : List (Nat × List Int)) : NS (startConsumers s asg).2 := by
  unfold startConsumers
  intro o ho
  simp only [List.mem_map] at ho
  obtain ⟨c, _, rfl⟩ := ho
  rfl

/-- `Coordinator.stop`'s cancellation of the join coroutine hard-stops nobody unless the coroutine
    waits in `on_join_prepare` -/
theorem cancelJoin_ns (cfg : Cfg) (s : St) (hs : s.stopping = true) (hj : s.jpc ≠ .prepare) : NS (cancelJoin cfg s).2 := by
  have hc := Tables.stopping_cancelled
  have hu := Tables.stopping_unavailable
  have rc : ∀ s1 : St, s1.stopping = true → ∀ e, (e = .cancelled ∨ e = .kafkaUnavailable) →
      (rejoinRow s1.stopping e).leave = false ∧ (rejoinRow s1.stopping e).act ≠ .fatal := by
    intro s1 h1 e he
    rw [h1]; rcases he with rfl | rfl
    · exact hc
    · exact hu
  unfold cancelJoin
  split
  · simp only []
    split
    · exact NS_nil
    · refine NS_andThen (by simp [isStopOb]) ?_
      simp only []
      split
      · refine (escapeCore_ns cfg _ .cancelled ?_).1
        exact rc _ hs _ (Or.inl rfl)
      · exact NS_andThen (addTimer_ns _ _ _) NS_nil
      · exact NS_andThen (addTimer_ns _ _ _) NS_nil
    · simp [isStopOb]
    · rename_i h; exact absurd h hj
    · exact NS_nil
    · refine NS_andThen (by simp [isStopOb]) (rejoinCore_ns cfg _ .cancelled ?_).1
      exact rc _ hs _ (Or.inl rfl)
    · refine NS_andThen (by simp [isStopOb]) ?_
      simp only []
      split
      · refine (escapeCore_ns cfg _ .cancelled ?_).1
        exact rc _ hs _ (Or.inl rfl)
      · refine (escapeCore_ns cfg _ .kafkaUnavailable ?_).1
        exact rc _ hs _ (Or.inr rfl)
    · refine NS_andThen (by simp [isStopOb]) (rejoinCore_ns cfg _ .cancelled ?_).1
      exact rc _ hs _ (Or.inl rfl)
  · exact NS_nil

theorem finishStop_ns (cfg : Cfg) (s : St) (err : Option GErr) (user : Bool) (hs : s.stopping = true) (hj : s.jpc ≠ .prepare) :
    NS (finishStop cfg s err user).2 := by
  unfold finishStop
  refine NS_andThen (cancelJoin_ns cfg s hs hj) ?_
  simp only [NS_append]
  constructor
  · split <;> simp [isStopOb]
  · split <;> simp [isStopOb]

theorem stopCancelDc_ns (s : St) : NS (stopCancelDc s).2 := by
  unfold stopCancelDc
  split
  · exact cancelTimer_ns _ _
  · exact NS_nil

theorem stopCancelHb_ns (cfg : Cfg) (s : St) (hs : s.stopping = true) : NS (stopCancelHb cfg s).2 := by
  unfold stopCancelHb
  split
  · simp only []
    split
    · refine NS_andThen (NS_andThen (by simp [isStopOb]) (hbStop_ns _)) ?_
      refine (rejoinCore_ns cfg _ .cancelled ?_).1
      simp only [andThen_fst, hbStop_stopping]
      rw [hs]; exact Tables.stopping_cancelled
    · simp [isStopOb]
  · exact NS_nil

theorem stopLooper_ns (s : St) : NS (stopLooper s).2 := by
  unfold stopLooper
  split
  · exact hbStop_ns _
  · exact NS_nil

theorem leaveOrFinish_ns (cfg : Cfg) (err : Option GErr) (user : Bool) (s : St) (hs : s.stopping = true) (hj : s.jpc ≠ .prepare) :
    NS (leaveOrFinish cfg err user s).2 := by
  unfold leaveOrFinish
  split
  · simp [isStopOb]
  · exact finishStop_ns _ _ _ _ hs hj

theorem coordStop_ns (cfg : Cfg) (s : St) (err : Option GErr) (user : Bool) (h : s.jpc ≠ .prepare ∨ s.stopping = true) :
    NS (coordStop cfg s err user).2 := by
  unfold coordStop
  split
  · split <;> simp [isStopOb]
  · rename_i hg
    have hns : s.stopping = false := by
      cases hx : s.stopping with
      | false => rfl
      | true => simp [hx] at hg
    have hj : s.jpc ≠ .prepare := by
      rcases h with h | h
      · exact h
      · rw [hns] at h; cases h
    simp only []
    split
    · simp [isStopOb]
    · refine NS_andThen (NS_andThen (NS_andThen (stopCancelDc_ns _) (stopCancelHb_ns cfg _ ?_)) (stopLooper_ns _)) (leaveOrFinish_ns cfg err user _ ?_ ?_)
      · simp only [stopCancelDc_stopping']
      · simp only [andThen_fst, stopLooper_stopping', stopCancelHb_stopping', stopCancelDc_stopping']
      · simp only [andThen_fst, stopLooper_jpc', stopCancelHb_jpc', stopCancelDc_jpc']
        exact hj

/-! ## the drain block: `shutdown()` of every held consumer, then the `DeferredList` -/

theorem mem_heldFilter {s : St} {c : Con} (hc : c ∈ s.cons) (hh : c.held = true) : c ∈ s.cons.filter (·.held) :=
  List.mem_filter.mpr ⟨hc, hh⟩

/-- every held consumer's `shutdown()` is attempted -/
theorem beginDrain_shutdown_mem (s : St) (c : Con) (hc : c ∈ s.cons) (hh : c.held = true) :
    Ob.consumerShutdown c.cid ∈ (beginDrain s).2.1 := by
  unfold beginDrain
  simp only [List.mem_flatMap]
  refine ⟨c, mem_heldFilter hc hh, ?_⟩
  split <;> simp

theorem beginDrain_fj {F : List Nat} (s : St) (hq : QL F s) : FJ F (beginDrain s).2.1 := by
  intro ⟨x, hx, hs⟩
  unfold beginDrain at hx
  simp only [List.mem_flatMap] at hx
  obtain ⟨c, hc, hm⟩ := hx
  have hc' := List.mem_filter.mp hc
  split at hm
  · rename_i hq1
    have : c.quirk ≠ .none := by rw [hq1]; decide
    exact ⟨c.cid, hq c hc'.1 this, beginDrain_shutdown_mem s c hc'.1 hc'.2⟩
  · simp only [List.mem_singleton] at hm
    subst hm; cases hs

/-- the drain block as a whole: hard stops are excused by a faulty consumer's attempted shutdown -/
theorem drainBlock_fj {F : List Nat} (s s' : St) (hq : QL F s) :
    FJ F ((beginDrain s).2.1 ++ (drainDone s' (beginDrain s).2.2 (!drainFails s)).2) := by
  cases hf : drainFails s with
  | false =>
    have : (drainDone s' (beginDrain s).2.2 (!false)).2 = [] := by unfold drainDone; simp
    rw [this, List.append_nil]
    exact beginDrain_fj s hq
  | true =>
    unfold drainFails at hf
    obtain ⟨c, hc, hx⟩ := List.any_eq_true.mp hf
    simp only [Bool.and_eq_true, beq_iff_eq] at hx
    have : c.quirk ≠ .none := by rw [hx.2]; decide
    exact FJ_witness_left _ c.cid (hq c hc this) (beginDrain_shutdown_mem s c hc hx.1)

theorem prepare_fj {F : List Nat} (s : St) (hq : QL F s) : FJ F (prepare s).2 := by
  unfold prepare
  split
  · exact FJ_of_ns NS_nil
  · split
    · exact FJ_of_ns (afterPrepare_ns s)
    · simp only []
      split
      · simp only [andThen_snd]
        exact FJ_left (drainBlock_fj s _ hq) (afterPrepare_ns _)
      · exact beginDrain_fj s hq

theorem stopLoop_fj {F : List Nat} (cfg : Cfg) (s : St) (err : Option GErr) (user : Bool) (hq : QL F s)
    (h : s.jpc ≠ .prepare ∨ s.stopping = true) : FJ F (stopLoop cfg s err user).2 := by
  unfold stopLoop
  split
  · exact FJ_of_ns (coordStop_ns cfg s err user h)
  · simp only []
    split
    · simp only [andThen_snd, andThen_fst]
      refine FJ_left (drainBlock_fj s _ hq) (coordStop_ns cfg _ err user ?_)
      simp only [drainDone_jpc', drainDone_stopping', beginDrain_jpc, beginDrain_stopping]
      exact h
    · exact beginDrain_fj s hq

theorem stopCall_fj {F : List Nat} (cfg : Cfg) (s : St) (err : Option GErr) (user : Bool) (hq : QL F s)
    (h : s.jpc ≠ .prepare ∨ s.stopping = true) : FJ F (stopCall cfg s err user).2 := by
  unfold stopCall
  refine stopLoop_fj cfg _ err user ?_ ?_
  · split
    · exact QL_of_cons hq rfl
    · exact hq
  · split <;> exact h

theorem userStop_fj {F : List Nat} (cfg : Cfg) (s : St) (hq : QL F s) (h : s.jpc ≠ .prepare ∨ s.stopping = true) :
    FJ F (userStop cfg s).2 := by
  rcases userStop_cases cfg s with ⟨hu, _, _⟩ | hu <;> rw [hu]
  · exact FJ_of_ns (by simp [isStopOb])
  · exact stopCall_fj cfg s none true hq h

/-- an error that is neither an eviction nor fatal stops nobody and is not followed by the nested stop -/
theorem rejoinAfterError_ns (cfg : Cfg) (s : St) (e : GErr) (h1 : isEviction e = false) (h2 : isFatalErr e = false) :
    NS (rejoinAfterError cfg s e).2 := by
  have := rejoinCore_ns cfg s e (Tables.benign_row s.stopping e h1 h2)
  unfold rejoinAfterError
  simp only [this.2, Bool.false_eq_true, if_false]
  exact this.1

theorem escape_ns (cfg : Cfg) (s : St) (e : GErr) (h1 : isEviction e = false) (h2 : isFatalErr e = false) :
    NS (escape cfg s e).2 := by
  have := escapeCore_ns cfg s e (Tables.benign_row s.stopping e h1 h2)
  unfold escape
  simp only [this.2, Bool.false_eq_true, if_false]
  exact this.1

/-- a shutdown Deferred that completes successfully -/
theorem consumerDown_fj {F : List Nat} {s : St} (hd : DInv s) (cfg : Cfg) (cid : Nat) (hq : QL F s) :
    FJ F (consumerDown cfg s cid true).2 := by
  unfold consumerDown
  simp only []
  split
  · split
    · exact FJ_of_ns NS_nil
    · refine FJ_of_ns (NS_andThen ?_ (afterPrepare_ns _))
      unfold drainDone; simp
  · rename_i hnp
    split
    · exact FJ_of_ns NS_nil
    · rename_i a co b hsp
      split
      · exact FJ_of_ns NS_nil
      · have hdd : ∀ s1 d, (drainDone s1 d true) = (s1, []) := by intro s1 d; unfold drainDone; simp
        rw [hdd]
        simp only [andThen_snd, List.nil_append, andThen_fst]
        refine stopLoop_fj cfg _ co.err co.user ?_ ?_
        · intro c hc
          simp only [] at hc
          obtain ⟨c0, hc0, rfl⟩ := List.mem_map.mp hc
          intro hqk
          have : c0.quirk ≠ .none ∧ (if c0.cid = cid && c0.phase == .draining then { c0 with phase := .stopped, startFired := true } else c0).cid = c0.cid := by
            split at hqk <;> (constructor; exact hqk; first | rfl | (split <;> rfl))
          rw [this.2]; exact hq c0 hc0 this.1
        · -- a `stop()` is waiting, so `_stop_draining` is set: the join coroutine is not in `on_join_prepare`, or the member is stopping
          simp only []
          have hst : s.stops ≠ [] := by
            intro h0; rw [h0] at hsp; simp [splitStops] at hsp
          have hsd := hd.sflag hst
          by_cases hj : s.jpc = .prepare
          · rcases hd.pflag hj with x | x
            · rw [hsd] at x; cases x
            · exact Or.inr x
          · exact Or.inl hj

/-! ## the step -/

/-- the event itself excuses a hard stop: it carries an eviction or fatal error, or it is a failed shutdown -/
def excused (e : Ev) : Bool :=
  (match anyErrorOf e with
   | some g => isEviction g || isFatalErr g
   | none => false) ||
  (match e with | .consumerDown _ false => true | _ => false)

/-- the known finding's situation: `Coordinator.stop` (begun by this `stop()`, or finishing with this leave
    reply) cancels a join coroutine that waits in `on_join_prepare` -/
def killsPrepareAt (s : St) (e : Ev) : Bool :=
  s.jpc == .prepare && (match e with | .stop => !s.stopping | .leaveDone _ => s.leaveWait.isSome | _ => false)

theorem excused_err (e : Ev) (g : GErr) (h : anyErrorOf e = some g) (hb : (isEviction g || isFatalErr g) = true) : excused e = true := by
  unfold excused; rw [h]; simp only [hb, Bool.true_or]

theorem benign_of (g : GErr) (h : (isEviction g || isFatalErr g) = false) : isEviction g = false ∧ isFatalErr g = false := by
  simpa [Bool.or_eq_false_iff] using h

theorem step_fj {F : List Nat} {s : St} (h : SInv s) (hd : DInv s) (hq : QL F s) (cfg : Cfg) (e : Ev)
    (hk : killsPrepareAt s e = false) : excused e = true ∨ FJ F (step cfg s e).2 := by
  have bad : FJ F [Ob.badOp] := FJ_of_ns (by simp [isStopOb])
  cases e with
  | start =>
    right; simp only [step]; split
    · exact FJ_of_ns (by simp [isStopOb])
    · exact FJ_of_ns (joinAndSync_ns _)
  | stop =>
    right
    refine userStop_fj cfg s hq ?_
    simp only [killsPrepareAt, Bool.and_eq_false_iff, beq_eq_false_iff_ne, ne_eq, Bool.not_eq_false'] at hk
    exact hk
  | coordDone r =>
    cases r with
    | ok => right; simp only [step]; split <;> exact FJ_of_ns (by simp [isStopOb])
    | none =>
      right; simp only [step]; split
      · exact bad
      · exact FJ_of_ns (NS_andThen (addTimer_ns _ _ _) NS_nil)
    | err g =>
      cases hb : (isEviction g || isFatalErr g) with
      | true => left; exact excused_err _ g rfl hb
      | false =>
        right
        have hbn := benign_of g hb
        simp only [step]; split
        · exact bad
        · split
          · exact FJ_of_ns (escape_ns cfg s g hbn.1 hbn.2)
          · exact FJ_of_ns (NS_andThen (addTimer_ns _ _ _) NS_nil)
          · exact FJ_of_ns (NS_andThen (addTimer_ns _ _ _) NS_nil)
  | metaDone r =>
    cases r with
    | ok =>
      right; simp only [step]; split
      · exact bad
      · split
        · exact FJ_of_ns NS_nil
        · exact prepare_fj _ (QL_of_cons hq rfl)
    | err g =>
      cases hb : (isEviction g || isFatalErr g) with
      | true => left; exact excused_err _ g rfl hb
      | false =>
        right
        have hbn := benign_of g hb
        simp only [step]; split
        · exact bad
        · exact FJ_of_ns (escape_ns cfg s g hbn.1 hbn.2)
  | joinDone r =>
    cases r with
    | ok m g l n =>
      right; simp only [step]; split
      · exact bad
      · simp only [abandonHb_eq]
        refine FJ_of_ns (NS_andThen (by split <;> simp [isStopOb]) ?_)
        simp only []
        split
        · exact NS_nil
        · split <;> simp [isStopOb]
    | err g =>
      cases hb : (isEviction g || isFatalErr g) with
      | true => left; exact excused_err _ g rfl hb
      | false =>
        right
        have hbn := benign_of g hb
        simp only [step]; split
        · exact bad
        · exact FJ_of_ns (NS_andThen (rejoinAfterError_ns cfg _ g hbn.1 hbn.2) NS_nil)
  | partsDone r =>
    cases r with
    | ok =>
      right; simp only [step]; split
      · split <;> exact FJ_of_ns (by simp [isStopOb])
      · exact bad
    | err g =>
      cases hb : (isEviction g || isFatalErr g) with
      | true => left; exact excused_err _ g rfl hb
      | false =>
        right
        have hbn := benign_of g hb
        simp only [step]; split
        · exact FJ_of_ns (escape_ns cfg s g hbn.1 hbn.2)
        · exact bad
  | syncDone r =>
    cases r with
    | ok a =>
      right; simp only [step]; split
      · exact bad
      · split
        · exact FJ_of_ns NS_nil
        · exact FJ_of_ns (NS_andThen (resetHeartbeat_ns cfg s) (startConsumers_ns _ a))
    | err g =>
      cases hb : (isEviction g || isFatalErr g) with
      | true => left; exact excused_err _ g rfl hb
      | false =>
        right
        have hbn := benign_of g hb
        simp only [step]; split
        · exact bad
        · exact FJ_of_ns (NS_andThen (rejoinAfterError_ns cfg _ g hbn.1 hbn.2) NS_nil)
  | hbDone r =>
    cases r with
    | ok => right; simp only [step]; split <;> exact FJ_of_ns (by simp [isStopOb])
    | err g =>
      cases hb : (isEviction g || isFatalErr g) with
      | true => left; exact excused_err _ g rfl hb
      | false =>
        right
        have hbn := benign_of g hb
        simp only [step]; split
        · exact bad
        · split
          · exact FJ_of_ns (NS_andThen (hbStop_ns _) (rejoinAfterError_ns cfg _ g hbn.1 hbn.2))
          · exact FJ_of_ns (by simp [isStopOb])
  | leaveDone r =>
    right
    simp only [step]; split
    · exact bad
    · rename_i err user hl
      have hst : s.stopping = true := h.leave_stop (by rw [hl]; rfl)
      have hj : s.jpc ≠ .prepare := by
        simp only [killsPrepareAt, hl, Option.isSome_some, Bool.and_true, beq_eq_false_iff_ne, ne_eq] at hk
        exact hk
      cases r <;> exact FJ_of_ns (finishStop_ns cfg _ err user hst hj)
  | consumerDown cid ok =>
    cases ok with
    | false => left; rfl
    | true =>
      right; simp only [step]; split
      · exact consumerDown_fj hd cfg cid hq
      · exact bad
  | consumerErr cid g =>
    cases hb : (isEviction g || isFatalErr g) with
    | true => left; exact excused_err _ g rfl hb
    | false =>
      right
      have hbn := benign_of g hb
      simp only [step]; split
      · split
        · exact FJ_of_ns NS_nil
        · exact FJ_of_ns (rejoinAfterError_ns cfg _ g hbn.1 hbn.2)
      · exact bad
  | consumerQuirk cid q =>
    right; simp only [step]; split
    · exact FJ_of_ns NS_nil
    · exact bad
  | fire id hbNext =>
    right
    simp only [step]
    split
    · exact bad
    split
    · exact bad
    · split
      · exact bad
      · split
        · exact FJ_of_ns (joinAndSync_ns _)
        · exact FJ_of_ns (joinAndSync_ns _)
        · have h2 : ∀ s1 : St, NS (if s1.hbRunning then addTimer s1 .hb (hbNext.getD (hbDelay cfg s1)) else (s1, [])).2 := by
            intro s1; split
            · exact addTimer_ns _ _ _
            · exact NS_nil
          refine FJ_of_ns (NS_andThen ?_ (h2 _))
          split
          · exact NS_nil
          · simp [isStopOb]
  | advance dt =>
    right; simp only [step]; split
    · exact bad
    · exact FJ_of_ns NS_nil

/-! ## the trace -/

theorem gracefulStep_of_excused (F : List Nat) (m : MStep) (h : excused m.ev = true) : gracefulStep F m = true := by
  unfold gracefulStep
  unfold excused at h
  simp only [Bool.or_eq_true] at h ⊢
  rcases h with h | h
  · left; left; right; exact h
  · left; right; exact h

theorem gracefulStep_of_fj (F : List Nat) (m : MStep) (h : FJ F m.obs) : gracefulStep F m = true := by
  unfold gracefulStep
  cases hs : m.obs.any (fun | .consumerStop _ => true | _ => false) with
  | false => simp
  | true =>
    obtain ⟨x, hx, hxs⟩ := List.any_eq_true.mp hs
    have hxs' : isStopOb x = true := by cases x <;> first | exact hxs | cases hxs
    obtain ⟨c, hc, hm⟩ := h ⟨x, hx, hxs'⟩
    simp only [Bool.or_eq_true]
    right
    exact List.any_eq_true.mpr ⟨_, hm, by simpa using hc⟩

/-- the finding's situation somewhere in the run from `s` -/
def killsPrepareFrom (cfg : Cfg) (s : St) : List Ev → Bool
  | [] => false
  | e :: es => killsPrepareAt s e || killsPrepareFrom cfg (step cfg s e).1 es

def stopKillsPrepareDrain (cfg : Cfg) (evs : List Ev) : Bool := killsPrepareFrom cfg init evs

theorem FJ_mono {F F' : List Nat} {obs : List Ob} (hs : ∀ c ∈ F, c ∈ F') (h : FJ F obs) : FJ F' obs := by
  intro hx; obtain ⟨c, hc, hm⟩ := h hx; exact ⟨c, hs c hc, hm⟩

/-- the monitor's `faulty` list after a step -/
def nextFaulty (F : List Nat) (m : MStep) : List Nat :=
  match m.ev with
  | .consumerQuirk c q => if m.obs != [Ob.badOp] && q != Quirk.none then c :: F else F
  | _ => F

theorem gracefulFrom_cons (F : List Nat) (m : MStep) (ms : List MStep) :
    gracefulFrom F (m :: ms) = (gracefulStep (nextFaulty F m) m && gracefulFrom (nextFaulty F m) ms) := by
  unfold nextFaulty
  cases m with
  | mk ev obs sn => cases ev <;> rfl

theorem nextFaulty_sub (F : List Nat) (m : MStep) : ∀ c ∈ F, c ∈ nextFaulty F m := by
  intro c hc
  unfold nextFaulty
  split
  · split
    · exact List.mem_cons_of_mem _ hc
    · exact hc
  · exact hc

theorem graceful_runFrom (cfg : Cfg) (evs : List Ev) :
    ∀ (s : St) (F : List Nat), SInv s → DInv s → QL F s → killsPrepareFrom cfg s evs = false →
      gracefulFrom F (toMSteps (runFrom cfg s evs)) = true := by
  induction evs with
  | nil => intro s F _ _ _ _; rfl
  | cons e es ih =>
    intro s F h hd hq hk
    simp only [killsPrepareFrom, Bool.or_eq_false_iff] at hk
    simp only [runFrom, toMSteps, List.map_cons]
    rw [gracefulFrom_cons]
    have hsub := nextFaulty_sub F ⟨e, (step cfg s e).2, snap (step cfg s e).1⟩
    have hq' : QL (nextFaulty F ⟨e, (step cfg s e).2, snap (step cfg s e).1⟩) (step cfg s e).1 := by
      intro c' hc' hqk
      rcases step_qid cfg s e c' hc' with ⟨c, hc, he⟩ | hn | ⟨q, he, hnb, hqq⟩
      · have e1 : c.cid = c'.cid := congrArg Prod.fst he
        have e2 : c.quirk = c'.quirk := congrArg Prod.snd he
        rw [← e1]; exact hsub _ (hq c hc (by rw [e2]; exact hqk))
      · exact absurd hn hqk
      · unfold nextFaulty
        simp only [he]
        have : ((step cfg s (Ev.consumerQuirk c'.cid q)).2 != [Ob.badOp] && q != Quirk.none) = true := by
          rw [he] at hnb
          simp only [Bool.and_eq_true, bne_iff_ne, ne_eq]
          exact ⟨hnb, by rw [← hqq]; exact hqk⟩
        rw [if_pos this]
        exact List.mem_cons_self
    rw [Bool.and_eq_true]
    refine ⟨?_, ih _ _ (step_sinv h cfg e) (step_dinv hd h cfg e) hq' hk.2⟩
    rcases step_fj h hd hq cfg e hk.1 with hx | hx
    · exact gracefulStep_of_excused _ ⟨e, (step cfg s e).2, snap (step cfg s e).1⟩ hx
    · exact gracefulStep_of_fj _ ⟨e, (step cfg s e).2, snap (step cfg s e).1⟩ (FJ_mono hsub hx)

/-- **`gracefulDrain` holds of every run in which `Coordinator.stop` never cancels a join that waits in
    `on_join_prepare`** -/
theorem gracefulDrain_run (cfg : Cfg) (evs : List Ev) (hk : stopKillsPrepareDrain cfg evs = false) :
    gracefulDrain (toMSteps (run cfg evs)) = true :=
  graceful_runFrom cfg evs init [] sinv_init dinv_init (by intro c hc; simp [init] at hc) hk

end Afkak.Group
