import AfkakProofs.Group.DrainStep
import Afkak.Monitor.C16Leave
/-!
# When the member is stopping, a live consumer is one that a drain still awaits

Once `Coordinator.stop` has begun no consumer is running (`SInv.stop_noheld`); a draining one is
awaited by the join coroutine's `on_join_prepare` or by a `ConsumerGroup.stop` coroutine (`DInv.dw`).
So outside these two situations every consumer has stopped when the LeaveGroup goes out.
-/
namespace Afkak.Group
open Afkak.Consts

theorem sd_finalFrom (cfg : Cfg) (evs : List Ev) : ∀ s, SInv s → DInv s → SInv (finalFrom cfg s evs) ∧ DInv (finalFrom cfg s evs) := by
  induction evs with
  | nil => intro s h d; exact ⟨h, d⟩
  | cons e es ih => intro s h d; exact ih _ (step_sinv h cfg e) (step_dinv d h cfg e)

theorem stopping_all_stopped (cfg : Cfg) (evs : List Ev) (h1 : (final cfg evs).stopping = true)
    (h2 : (final cfg evs).jpc ≠ .prepare) (h3 : (final cfg evs).stops = []) :
    ∀ c ∈ (final cfg evs).cons, c.phase = .stopped := by
  obtain ⟨h, d⟩ := sd_finalFrom cfg evs init sinv_init dinv_init
  intro c hc
  cases hp : c.phase with
  | stopped => rfl
  | running =>
    have := h.stop_noheld h1 c hc
    rw [(h.held_running c hc).mpr hp] at this
    cases this
  | draining =>
    rcases d.dw c hc hp with ⟨x, _⟩ | ⟨co, hco, _⟩
    · exact absurd x h2
    · have h3' : (finalFrom cfg init evs).stops = [] := h3
      rw [h3'] at hco; cases hco

end Afkak.Group
