import AfkakProofs.Group.LeaveTrace
import AfkakProofs.Group.StopCalled
import AfkakProofs.Group.AfterStop
import AfkakProofs.Group.Progress
/-!
# "After stop" is for ever

`_stopping` is never reset (`step_sk`: a step that ends not stopping began not stopping), and neither is
`_stop_draining` (`step_sd_mono`).  With `step_afterStop` (a step that ends stopping sends no group
request but the leave): once `Coordinator.stop` has begun, NO continuation of the history — any events,
any order, including `start()` — ever sends a coordinator look-up, JoinGroup, SyncGroup or heartbeat again.
-/
namespace Afkak.Group
open Afkak.Consts Afkak.Monitor.C16

theorem step_stopping_mono (cfg : Cfg) (s : St) (e : Ev) (h : s.stopping = true) : (step cfg s e).1.stopping = true := by
  cases hx : (step cfg s e).1.stopping with
  | true => rfl
  | false => have := (step_sk cfg s e hx).1; rw [h] at this; cases this

theorem finalFrom_stopping_mono (cfg : Cfg) (evs : List Ev) : ∀ s, s.stopping = true → (finalFrom cfg s evs).stopping = true := by
  induction evs with
  | nil => intro s h; exact h
  | cons e es ih => intro s h; exact ih _ (step_stopping_mono cfg s e h)

/-- from a stopping state (satisfying the invariant) every step of every continuation is free of group requests -/
theorem runFrom_stopping_reqFree (cfg : Cfg) (evs : List Ev) :
    ∀ s, SInv s → s.stopping = true → ∀ x ∈ runFrom cfg s evs, ReqFree x.2.1 ∧ x.2.2.stopping = true := by
  induction evs with
  | nil => intro s _ _ x hx; cases hx
  | cons e es ih =>
    intro s h hs x hx
    simp only [runFrom, List.mem_cons] at hx
    have hs' := step_stopping_mono cfg s e hs
    rcases hx with rfl | hx
    · exact ⟨step_afterStop h cfg e hs', hs'⟩
    · exact ih _ (step_sinv h cfg e) hs' x hx

theorem finalFrom_sinv' (cfg : Cfg) (evs : List Ev) : ∀ s, SInv s → SInv (finalFrom cfg s evs) := by
  induction evs with
  | nil => intro s h; exact h
  | cons e es ih => intro s h; exact ih _ (step_sinv h cfg e)

/-- **once `Coordinator.stop` has begun, no continuation ever sends a group request other than the leave,
    and the member stays stopping** -/
theorem stop_is_final (cfg : Cfg) (evs tail : List Ev) (h : (final cfg evs).stopping = true) :
    (∀ x ∈ runFrom cfg (final cfg evs) tail, ∀ o ∈ x.2.1, isGroupReqOb o = false) ∧
    (final cfg (evs ++ tail)).stopping = true := by
  refine ⟨fun x hx => (runFrom_stopping_reqFree cfg tail _ (finalFrom_sinv' cfg evs init sinv_init) h x hx).1, ?_⟩
  unfold final
  rw [finalFrom_append]
  exact finalFrom_stopping_mono cfg tail _ h

end Afkak.Group
