import AfkakProofs.Group.DrainConvStep
/-!
# C17 join progress on every model trace

Ghost for the monitor's counter of outstanding protocol requests: it is at least `pj s` — 1 exactly
when the join coroutine waits for the reply of a client request (coordinator look-up, metadata load,
JoinGroup, leader partition load, SyncGroup).  `Rk k o`: running the helper with output `o` from a
counter `≥ k` leaves the counter `≥ pj` of the state it returns.  A protocol request is counted when
it is observed, a cancellation is observed only by `cancelJoin`, which leaves the coroutine idle.

With `CInv`: a live join coroutine that waits for no reply is in `on_join_prepare` — an awaited
consumer is still draining (`pne`, `pdr`) — or parked behind a `stop()` (`hangf`, `sdstop`), whose
drain awaits a consumer that is still draining (`sne`, `sdr`).
-/
namespace Afkak.Group
open Afkak.Consts Afkak.Monitor.C17

def pj (s : St) : Nat :=
  match s.jpc with
  | .coordLookup | .metaLoad | .join | .loadParts _ | .sync => 1
  | _ => 0

theorem pj_of_jpc {s s' : St} (h : s'.jpc = s.jpc) : pj s' = pj s := by unfold pj; rw [h]

def foldObs (n : Nat) (obs : List Ob) : Nat :=
  obs.foldl (fun k o => if isProtoReqOb o then k + 1 else if isProtoCancel o then k - 1 else k) n

@[simp] theorem foldObs_nil (n : Nat) : foldObs n [] = n := rfl
@[simp] theorem foldObs_append (n : Nat) (a b : List Ob) : foldObs n (a ++ b) = foldObs (foldObs n a) b := by
  unfold foldObs; rw [List.foldl_append]
theorem foldObs_cons (n : Nat) (o : Ob) (os : List Ob) :
    foldObs n (o :: os) = foldObs (if isProtoReqOb o then n + 1 else if isProtoCancel o then n - 1 else n) os := rfl

/-- no cancellation of a protocol request -/
def nc (o : Ob) : Bool := !isProtoCancel o
def NC (obs : List Ob) : Prop := ∀ o ∈ obs, nc o = true

@[simp] theorem NC_nil : NC [] := by intro o h; cases h
@[simp] theorem NC_append (a b : List Ob) : NC (a ++ b) ↔ NC a ∧ NC b := by
  unfold NC; constructor
  · intro h; exact ⟨fun o ho => h o (List.mem_append_left _ ho), fun o ho => h o (List.mem_append_right _ ho)⟩
  · intro ⟨h1, h2⟩ o ho; rcases List.mem_append.mp ho with x | x
    · exact h1 o x
    · exact h2 o x
@[simp] theorem NC_cons (o : Ob) (l : List Ob) : NC (o :: l) ↔ nc o = true ∧ NC l := by
  unfold NC; simp

theorem foldObs_ge : ∀ (obs : List Ob) (n : Nat), NC obs → n ≤ foldObs n obs
  | [], n, _ => Nat.le_refl _
  | o :: os, n, h => by
    rw [foldObs_cons]
    have ho : isProtoCancel o = false := by
      have := (NC_cons o os).mp h |>.1
      simpa [nc] using this
    have ih := fun m => foldObs_ge os m ((NC_cons o os).mp h).2
    rw [ho]
    split
    · exact Nat.le_trans (Nat.le_succ n) (ih _)
    · exact ih _

theorem NC_map_stop (l : List Con) : NC (l.map fun c => .consumerStop c.cid) := by
  intro o ho; obtain ⟨c, _, rfl⟩ := List.mem_map.mp ho; rfl
theorem NC_map_cancel (l : List Nat) : NC (l.map .cancelTimer) := by
  intro o ho; obtain ⟨c, _, rfl⟩ := List.mem_map.mp ho; rfl
theorem NC_andThen {o : Out} {f : St → Out} (h1 : NC o.2) (h2 : ∀ s, NC (f s).2) : NC (andThen o f).2 := by
  simp only [andThen_snd, NC_append]; exact ⟨h1, h2 _⟩

theorem stopCons_nc (s : St) (cids : List Nat) : NC (stopCons s cids).2 := NC_map_stop _
theorem stopConsumers_nc (s : St) : NC (stopConsumers s).2 := NC_map_stop _
theorem addTimer_nc (s : St) (k : TKind) (d : Rat) : NC (addTimer s k d).2 := by simp [nc, isProtoCancel]
theorem cancelTimer_nc (s : St) (id : Nat) : NC (cancelTimer s id).2 := by simp [cancelTimer, nc, isProtoCancel]
theorem hbStop_nc (s : St) : NC (hbStop s).2 := NC_map_cancel _
theorem hbSchedule_nc (cfg : Cfg) (s : St) : NC (hbSchedule cfg s).2 := addTimer_nc _ _ _
theorem resetHeartbeat_nc (cfg : Cfg) (s : St) : NC (resetHeartbeat cfg s).2 := by
  unfold resetHeartbeat
  split
  · exact NC_andThen (NC_map_cancel _) (fun _ => hbSchedule_nc _ _)
  · exact hbSchedule_nc _ _

theorem rowEffects_nc (s : St) (row : RejoinRow) : NC (rowEffects s row).2 := by
  unfold rowEffects
  refine NC_andThen (NC_andThen ?_ (fun _ => ?_)) (fun _ => NC_nil)
  · split
    · exact stopConsumers_nc s
    · exact NC_nil
  · simp only []; split <;> simp [nc, isProtoCancel]

theorem scheduleRejoin_nc (cfg : Cfg) (s : St) (fd : Bool) : NC (scheduleRejoin cfg s fd).2 := by
  unfold scheduleRejoin
  simp only []
  split
  · exact NC_andThen (addTimer_nc _ _ _) (fun _ => NC_nil)
  · exact NC_nil

theorem rejoinWith_nc (cfg : Cfg) (s : St) (row : RejoinRow) : NC (rejoinWith cfg s row).1.2 := by
  unfold rejoinWith
  split
  · exact NC_nil
  · exact stopConsumers_nc s
  · exact rowEffects_nc s row
  · exact NC_andThen (rowEffects_nc s row) (fun _ => scheduleRejoin_nc _ _ _)

theorem rejoinCore_nc (cfg : Cfg) (s : St) (e : GErr) : NC (rejoinCore cfg s e).1.2 := rejoinWith_nc _ _ _

theorem stopCancelDc_nc (s : St) : NC (stopCancelDc s).2 := by
  unfold stopCancelDc
  split
  · exact cancelTimer_nc _ _
  · exact NC_nil

theorem stopCancelHb_nc (cfg : Cfg) (s : St) : NC (stopCancelHb cfg s).2 := by
  unfold stopCancelHb
  split
  · simp only []
    split
    · exact NC_andThen (NC_andThen (by simp [nc, isProtoCancel]) (fun _ => hbStop_nc _)) (fun _ => rejoinCore_nc _ _ _)
    · simp [nc, isProtoCancel]
  · exact NC_nil

theorem stopLooper_nc (s : St) : NC (stopLooper s).2 := by
  unfold stopLooper
  split
  · exact hbStop_nc _
  · exact NC_nil

theorem drainDone_nc (s : St) (d : Drain) (ok : Bool) : NC (drainDone s d ok).2 := by
  unfold drainDone
  split
  · exact NC_nil
  · exact stopCons_nc _ _

theorem beginDrain_nc (s : St) : NC (beginDrain s).2.1 := by
  unfold beginDrain
  intro o ho
  simp only [List.mem_flatMap] at ho
  obtain ⟨c, _, hc⟩ := ho
  split at hc <;> simp at hc <;> rcases hc with rfl | rfl <;> rfl

theorem startConsumers_nc (s : St) (asg : List (Nat × List Int)) : NC (startConsumers s asg).2 := by
  unfold startConsumers
  intro o ho
  simp only [List.map_map] at ho
  obtain ⟨x, _, rfl⟩ := List.mem_map.mp ho
  rfl

/-! ## the counter through the helpers -/

/-- from a counter `≥ k`, the helper's observations leave it `≥ pj` of the state returned -/
def Rk (k : Nat) (o : Out) : Prop := ∀ n, k ≤ n → pj o.1 ≤ foldObs n o.2

theorem Rk_zero {k : Nat} {o : Out} (h : pj o.1 = 0) : Rk k o := fun n _ => by rw [h]; exact Nat.zero_le _

theorem Rk_frame {k : Nat} {o : Out} (hp : pj o.1 ≤ k) (hn : NC o.2) : Rk k o :=
  fun n hk => Nat.le_trans hp (Nat.le_trans hk (foldObs_ge _ n hn))

theorem Rk_andThen {k : Nat} {o : Out} {f : St → Out} (h1 : Rk k o) (h2 : Rk (pj o.1) (f o.1)) : Rk k (andThen o f) := by
  intro n hk
  rw [andThen_snd, foldObs_append, andThen_fst]
  exact h2 _ (h1 n hk)

theorem Rk_andThen_end {k : Nat} {o : Out} {f : St → Out} (h2 : Rk 0 (f o.1)) : Rk k (andThen o f) := by
  intro n _
  rw [andThen_snd, foldObs_append, andThen_fst]
  exact h2 _ (Nat.zero_le _)

theorem Rk_mono {k k' : Nat} {o : Out} (h : Rk k o) (hk : k ≤ k') : Rk k' o := fun n hn => h n (Nat.le_trans hk hn)

theorem rejoinCore_rk (cfg : Cfg) (s : St) (e : GErr) : Rk (pj s) (rejoinCore cfg s e).1 :=
  Rk_frame (by rw [pj_of_jpc (rejoinCore_jpc' cfg s e)]; exact Nat.le_refl _) (rejoinCore_nc cfg s e)

theorem escapeCore_rk (cfg : Cfg) (s : St) (e : GErr) (k : Nat) : Rk k (escapeCore cfg s e).1 :=
  Rk_zero (by unfold pj; rw [escapeCore_jpc])

theorem cancelJoin_rk (cfg : Cfg) (s : St) : Rk (pj s) (cancelJoin cfg s) := by
  by_cases hr : s.rejoinD = true
  · exact Rk_zero (by unfold pj; rw [cancelJoin_jpc cfg s hr])
  · have : cancelJoin cfg s = (s, []) := by unfold cancelJoin; simp only [hr]; rfl
    rw [this]
    exact Rk_frame (Nat.le_refl _) NC_nil

theorem finishStop_rk (cfg : Cfg) (s : St) (err : Option GErr) (user : Bool) : Rk (pj s) (finishStop cfg s err user) := by
  unfold finishStop
  refine Rk_andThen (cancelJoin_rk cfg s) (Rk_frame (Nat.le_refl _) ?_)
  simp only [NC_append]
  constructor
  · split <;> simp [nc, isProtoCancel]
  · split <;> simp [nc, isProtoCancel]

theorem leaveOrFinish_rk (cfg : Cfg) (err : Option GErr) (user : Bool) (s : St) : Rk (pj s) (leaveOrFinish cfg err user s) := by
  unfold leaveOrFinish
  split
  · exact Rk_frame (Nat.le_refl _) (by simp [nc, isProtoCancel])
  · exact finishStop_rk _ _ _ _

theorem coordStop_rk (cfg : Cfg) (s : St) (err : Option GErr) (user : Bool) : Rk (pj s) (coordStop cfg s err user) := by
  unfold coordStop
  split
  · exact Rk_frame (Nat.le_refl _) (by split <;> simp [nc, isProtoCancel])
  · simp only []
    split
    · exact Rk_frame (Nat.le_refl _) (by simp [nc, isProtoCancel])
    · refine Rk_andThen (Rk_andThen (Rk_andThen (Rk_frame ?_ (stopCancelDc_nc _)) (Rk_frame ?_ (stopCancelHb_nc _ _)))
        (Rk_frame ?_ (stopLooper_nc _))) (leaveOrFinish_rk _ _ _ _)
      · rw [pj_of_jpc (stopCancelDc_jpc' _)]; exact Nat.le_refl _
      · rw [pj_of_jpc (stopCancelHb_jpc' _ _)]; exact Nat.le_refl _
      · rw [pj_of_jpc (stopLooper_jpc' _)]; exact Nat.le_refl _

theorem stopLoop_rk (cfg : Cfg) (s : St) (err : Option GErr) (user : Bool) : Rk (pj s) (stopLoop cfg s err user) := by
  unfold stopLoop
  split
  · exact coordStop_rk _ _ _ _
  · simp only []
    split
    · refine Rk_andThen (Rk_andThen (Rk_frame (Nat.le_refl _) (beginDrain_nc s)) (Rk_frame ?_ (drainDone_nc _ _ _))) (coordStop_rk _ _ _ _)
      rw [pj_of_jpc (drainDone_jpc' _ _ _)]; exact Nat.le_refl _
    · exact Rk_frame (Nat.le_refl _) (beginDrain_nc s)

theorem stopCall_rk (cfg : Cfg) (s : St) (err : Option GErr) (user : Bool) : Rk (pj s) (stopCall cfg s err user) := by
  unfold stopCall
  split
  · exact stopLoop_rk cfg { s with stopDraining := true } err user
  · exact stopLoop_rk cfg s err user

theorem rejoinAfterError_rk (cfg : Cfg) (s : St) (e : GErr) : Rk (pj s) (rejoinAfterError cfg s e) := by
  unfold rejoinAfterError
  simp only []
  split
  · exact Rk_andThen (rejoinCore_rk cfg s e) (stopCall_rk _ _ _ _)
  · exact rejoinCore_rk cfg s e

theorem escape_rk (cfg : Cfg) (s : St) (e : GErr) (k : Nat) : Rk k (escape cfg s e) := by
  unfold escape
  simp only []
  split
  · exact Rk_andThen (escapeCore_rk cfg s e k) (stopCall_rk _ _ _ _)
  · exact escapeCore_rk cfg s e k

theorem afterPrepare_rk (s : St) (k : Nat) : Rk k (afterPrepare s) := by
  unfold afterPrepare
  split
  · exact Rk_zero rfl
  · intro n _
    show 1 ≤ foldObs n [.join s.member]
    simp [foldObs, isProtoReqOb]

theorem prepare_rk (s : St) (k : Nat) : Rk k (prepare s) := by
  unfold prepare
  split
  · exact Rk_zero rfl
  · split
    · exact afterPrepare_rk s k
    · simp only []
      split
      · exact Rk_andThen_end (afterPrepare_rk _ 0)
      · exact Rk_zero rfl

theorem joinAndSync_rk (s : St) : Rk (pj s) (joinAndSync s) := by
  unfold joinAndSync
  simp only []
  split
  · exact Rk_frame (Nat.le_refl _) NC_nil
  · split
    · exact Rk_frame (Nat.le_refl _) NC_nil
    · intro n _
      show 1 ≤ foldObs n [.coordLookup]
      simp [foldObs, isProtoReqOb]

theorem consumerDown_rk (cfg : Cfg) (s : St) (cid : Nat) (ok : Bool) : Rk (pj s) (consumerDown cfg s cid ok) := by
  unfold consumerDown
  (try simp only [])
  split
  · split
    · exact Rk_frame (Nat.le_refl _) NC_nil
    · exact Rk_andThen_end (afterPrepare_rk _ 0)
  · split
    · exact Rk_frame (Nat.le_refl _) NC_nil
    · split
      · exact Rk_frame (Nat.le_refl _) NC_nil
      · refine Rk_andThen (Rk_frame ?_ (drainDone_nc _ _ _)) (stopLoop_rk _ _ _ _)
        rw [pj_of_jpc (drainDone_jpc' _ _ _)]; exact Nat.le_refl _

/-! ## the counter through a step -/

theorem one_le_req (n : Nat) (o : Ob) (h : isProtoReqOb o = true) : 1 ≤ foldObs n [o] := by
  simp [foldObs, h]

theorem tick_rk (s1 : St) (d : Rat) : Rk (pj s1) (if s1.hbRunning then addTimer s1 .hb d else (s1, [])) := by
  split
  · exact Rk_frame (Nat.le_refl _) (addTimer_nc _ _ _)
  · exact Rk_frame (Nat.le_refl _) NC_nil

/-- an event that is not a protocol reply -/
theorem step_rk_other (cfg : Cfg) (s : St) (e : Ev) (he : isProtoReply e = false) : Rk (pj s) (step cfg s e) := by
  have bad : Rk (pj s) (s, [Ob.badOp]) := Rk_frame (Nat.le_refl _) (by simp [nc, isProtoCancel])
  cases e with
  | start =>
    simp only [step]; split
    · exact Rk_frame (Nat.le_refl _) (by simp [nc, isProtoCancel])
    · exact joinAndSync_rk { s with started := true, startResult := none }
  | stop =>
    simp only [step]
    rcases userStop_cases cfg s with ⟨hu, _, _⟩ | hu <;> rw [hu]
    · exact Rk_frame (Nat.le_refl _) (by simp [nc, isProtoCancel])
    · exact stopCall_rk cfg s none true
  | coordDone r => cases he
  | metaDone r => cases he
  | joinDone r => cases he
  | partsDone r => cases he
  | syncDone r => cases he
  | hbDone r =>
    simp only [step]; split
    · exact bad
    · cases r with
      | ok => exact Rk_frame (Nat.le_refl _) NC_nil
      | err e =>
        simp only []
        split
        · exact Rk_andThen (Rk_frame (Nat.le_refl _) (hbStop_nc _)) (rejoinAfterError_rk _ _ _)
        · exact Rk_frame (Nat.le_refl _) (by simp [nc, isProtoCancel])
  | leaveDone r =>
    simp only [step]; split
    · exact bad
    · cases r with
      | ok => exact finishStop_rk cfg { s with member := 0, gen := none } _ _
      | err e => exact finishStop_rk cfg s _ _
  | consumerDown cid ok =>
    simp only [step]; split
    · exact consumerDown_rk cfg s cid ok
    · exact bad
  | consumerErr cid e =>
    simp only [step]; split
    · split
      · exact Rk_frame (Nat.le_refl _) NC_nil
      · exact rejoinAfterError_rk cfg { s with cons := s.cons.map fun c => if c.cid = cid then { c with startFired := true } else c } e
    · exact bad
  | consumerQuirk cid q =>
    simp only [step]; split
    · exact Rk_frame (Nat.le_refl _) NC_nil
    · exact bad
  | fire id hbNext =>
    simp only [step]
    split
    · exact bad
    split
    · exact bad
    · split
      · exact bad
      · split
        · exact joinAndSync_rk { s with timers := s.timers.filter (·.id != id) }
        · exact joinAndSync_rk { s with timers := s.timers.filter (·.id != id) }
        · refine Rk_andThen ?_ (tick_rk _ _)
          split
          · exact Rk_frame (Nat.le_refl _) NC_nil
          · exact Rk_frame (Nat.le_refl _) (by simp [nc, isProtoCancel])
  | advance dt =>
    simp only [step]; split
    · exact bad
    · exact Rk_frame (Nat.le_refl _) NC_nil

/-- a protocol reply: not processed (`badOp`, nothing changes), or processed — the reply is consumed
    and what the coroutine does next is counted from zero -/
theorem step_rk_reply (cfg : Cfg) (s : St) (e : Ev) (he : isProtoReply e = true) :
    step cfg s e = (s, [.badOp]) ∨ Rk 0 (step cfg s e) := by
  cases e with
  | coordDone r =>
    simp only [step]; split
    · exact Or.inl rfl
    · right
      cases r with
      | ok => intro n _; exact one_le_req n _ rfl
      | none => exact Rk_zero rfl
      | err e =>
        simp only []
        split
        · exact escape_rk cfg s e 0
        · exact Rk_zero rfl
        · exact Rk_zero rfl
  | metaDone r =>
    simp only [step]; split
    · exact Or.inl rfl
    · right
      cases r with
      | err e => exact escape_rk cfg s e 0
      | ok =>
        simp only []
        split
        · exact Rk_zero rfl
        · exact prepare_rk _ 0
  | joinDone r =>
    simp only [step]; split
    · exact Or.inl rfl
    · right
      cases r with
      | err e =>
        exact Rk_andThen (rejoinAfterError_rk cfg { s with jpc := .idle } e) (Rk_frame (Nat.le_refl _) NC_nil)
      | ok m g l n =>
        refine Rk_andThen_end ?_
        split
        · exact Rk_zero rfl
        · split
          · intro n _; exact one_le_req n _ rfl
          · intro n _; exact one_le_req n _ rfl
  | partsDone r =>
    simp only [step]; split
    · right
      cases r with
      | err e => exact escape_rk cfg s e 0
      | ok =>
        simp only []
        split
        · exact Rk_zero rfl
        · intro n _; exact one_le_req n _ rfl
    · exact Or.inl rfl
  | syncDone r =>
    simp only [step]; split
    · exact Or.inl rfl
    · right
      cases r with
      | err e =>
        exact Rk_andThen (rejoinAfterError_rk cfg { s with jpc := .idle } e) (Rk_frame (Nat.le_refl _) NC_nil)
      | ok asg =>
        simp only []
        split
        · exact Rk_zero rfl
        · exact Rk_zero rfl
  | start => cases he
  | stop => cases he
  | hbDone r => cases he
  | leaveDone r => cases he
  | consumerDown cid ok => cases he
  | consumerErr cid e => cases he
  | consumerQuirk cid q => cases he
  | fire id hbNext => cases he
  | advance dt => cases he

theorem outstandingAfter_eq (n : Nat) (m : MStep) :
    outstandingAfter n m = foldObs (if isProtoReply m.ev && m.obs != [.badOp] then n - 1 else n) m.obs := rfl

/-- the ghost: the monitor's counter stays `≥ pj` of the state -/
theorem step_count (cfg : Cfg) (s : St) (e : Ev) (n : Nat) (hn : pj s ≤ n) (sn : Snap) :
    pj (step cfg s e).1 ≤ outstandingAfter n ⟨e, (step cfg s e).2, sn⟩ := by
  rw [outstandingAfter_eq]
  cases he : isProtoReply e with
  | false =>
    simp only [Bool.false_and, Bool.false_eq_true, if_false]
    exact step_rk_other cfg s e he n hn
  | true =>
    rcases step_rk_reply cfg s e he with hb | hr
    · rw [hb]
      simp only [bne_self_eq_false, Bool.and_false, Bool.false_eq_true, if_false]
      exact Nat.le_trans hn (foldObs_ge _ n (by simp [nc, isProtoCancel]))
    · exact hr _ (Nat.zero_le _)

/-- what the monitor checks after a step, from the invariants of the state reached -/
theorem progress_check {s : St} (h : SInv s) (c : CInv s) (n : Nat) (hn : pj s ≤ n) :
    (!((snap s).started && !(snap s).stopping && (snap s).joinInFlight) || decide (n ≥ 1) ||
      (snap s).cons.any (fun c => c.phase == .draining)) = true := by
  have hdr : ∀ x, (∃ c ∈ s.cons, c.cid = x ∧ c.phase = .draining) → (snap s).cons.any (fun c => c.phase == .draining) = true := by
    rintro x ⟨c, hc, _, hp⟩
    exact List.any_eq_true.mpr ⟨c, hc, by simp [hp]⟩
  by_cases h1 : s.started = true
  · by_cases h2 : s.stopping = false
    · by_cases h3 : s.rejoinD = true
      · have hj : s.jpc ≠ .idle := h.rd_jpc.mp h3
        cases hjp : s.jpc with
        | idle => exact absurd hjp hj
        | prepare =>
          obtain ⟨x, hx⟩ := List.exists_mem_of_ne_nil _ (c.pne hjp)
          simp [hdr x (c.pdr hjp x hx)]
        | hang =>
          have hne := c.sdstop h2 (c.hangf hjp)
          obtain ⟨co, hco⟩ := List.exists_mem_of_ne_nil _ hne
          obtain ⟨x, hx⟩ := List.exists_mem_of_ne_nil _ (c.sne co hco)
          simp [hdr x (c.sdr co hco x hx)]
        | coordLookup => have : 1 ≤ n := by simpa [pj, hjp] using hn
                         simp [this]
        | metaLoad => have : 1 ≤ n := by simpa [pj, hjp] using hn
                      simp [this]
        | join => have : 1 ≤ n := by simpa [pj, hjp] using hn
                  simp [this]
        | loadParts k => have : 1 ≤ n := by simpa [pj, hjp] using hn
                         simp [this]
        | sync => have : 1 ≤ n := by simpa [pj, hjp] using hn
                  simp [this]
      · simp [snap, h3]
    · simp [snap, h2]
  · simp [snap, h1]

theorem joinProgress_runFrom (cfg : Cfg) (evs : List Ev) :
    ∀ (s : St) (n : Nat), SInv s → DInv s → CInv s → pj s ≤ n → joinProgressFrom n (toMSteps (runFrom cfg s evs)) = true := by
  induction evs with
  | nil => intro s n _ _ _ _; rfl
  | cons e es ih =>
    intro s n h d c hn
    have h' := step_sinv h cfg e
    have d' := step_dinv d h cfg e
    have c' := step_cinv cfg s e h d c
    have hn' := step_count cfg s e n hn (snap (step cfg s e).1)
    simp only [runFrom, toMSteps, List.map_cons, joinProgressFrom, Bool.and_eq_true]
    exact ⟨progress_check h' c' _ hn', ih _ _ h' d' c' hn'⟩

/-- **C17 join progress, full strength**: on every run, whenever a started, not stopping member has
    its join coroutine alive, one of the coroutine's client requests is outstanding or a consumer is
    draining. -/
theorem joinProgress_run (cfg : Cfg) (evs : List Ev) : Afkak.Monitor.C17.joinProgress (toMSteps (run cfg evs)) = true :=
  joinProgress_runFrom cfg evs init 0 sinv_init dinv_init cinv_init (Nat.zero_le _)

end Afkak.Group
