import AfkakProofs.Group.ObsNb
import AfkakProofs.Group.Fence
import AfkakProofs.Group.FencedTrace
import Afkak.Monitor.C17
/-!
# C17 a non-Kafka error on a reply (or from a consumer) surfaces on `start`'s Deferred, on traces

Ghost: the monitor's pending error `pend = some e` means the leave request is outstanding with `e`
as the result for `start`'s Deferred (`leaveWait = some (some e, _)`), the Deferred has not fired
and the member is started.  While the member is stopping nothing but the leave reply touches these.
-/
namespace Afkak.Group
open Afkak.Consts Afkak.Monitor.C17

/-! ## while stopping, only the leave reply touches `leaveWait` / `startResult` / `started` -/

def LK (s : St) (o : Out) : Prop :=
  s.stopping = true → o.1.stopping = true ∧ o.1.leaveWait = s.leaveWait ∧ o.1.startResult = s.startResult ∧ o.1.started = s.started

theorem LK_frame {s : St} {o : Out} (h1 : o.1.stopping = s.stopping) (h2 : o.1.leaveWait = s.leaveWait)
    (h3 : o.1.startResult = s.startResult) (h4 : o.1.started = s.started) : LK s o := fun x => ⟨by rw [h1]; exact x, h2, h3, h4⟩
theorem LK_andThen {s : St} {o : Out} {f : St → Out} (h1 : LK s o) (h2 : ∀ s1, LK s1 (f s1)) : LK s (andThen o f) := by
  intro x
  obtain ⟨a, b, c, d⟩ := h1 x
  obtain ⟨a', b', c', d'⟩ := h2 o.1 a
  exact ⟨a', by rw [andThen_fst, b', b], by rw [andThen_fst, c', c], by rw [andThen_fst, d', d]⟩
theorem LK_of_eq {s s1 : St} {o : Out} (h1 : s1.stopping = s.stopping) (h2 : s1.leaveWait = s.leaveWait)
    (h3 : s1.startResult = s.startResult) (h4 : s1.started = s.started) (h : LK s1 o) : LK s o := by
  intro x
  obtain ⟨a, b, c, d⟩ := h (by rw [h1]; exact x)
  exact ⟨a, by rw [b, h2], by rw [c, h3], by rw [d, h4]⟩

theorem coordStop_lk (cfg : Cfg) (s : St) (err : Option GErr) (user : Bool) : LK s (coordStop cfg s err user) := by
  intro x
  have e : coordStop cfg s err user = (s, if user then [.stopFired true] else []) := by
    unfold coordStop; rw [if_pos (by rw [x]; simp)]
  rw [e]; exact ⟨x, rfl, rfl, rfl⟩

theorem rejoinCore_lk (cfg : Cfg) (s : St) (e : GErr) : LK s (rejoinCore cfg s e).1 :=
  LK_frame (rejoinCore_stopping' _ _ _) (rejoinCore_leaveWait' _ _ _) (rejoinCore_startResult' _ _ _) (rejoinCore_started' _ _ _)

theorem escapeCore_lk (cfg : Cfg) (s : St) (e : GErr) : LK s (escapeCore cfg s e).1 :=
  LK_frame (escapeCore_stopping' _ _ _) (escapeCore_leaveWait' _ _ _) (escapeCore_startResult' _ _ _) (escapeCore_started' _ _ _)

theorem drainDone_lk (s : St) (d : Drain) (ok : Bool) : LK s (drainDone s d ok) :=
  LK_frame (drainDone_stopping' _ _ _) (drainDone_leaveWait' _ _ _) (drainDone_startResult' _ _ _) (drainDone_started' _ _ _)

theorem stopLoop_lk (cfg : Cfg) (s : St) (err : Option GErr) (user : Bool) : LK s (stopLoop cfg s err user) := by
  unfold stopLoop
  split
  · exact coordStop_lk _ _ _ _
  · simp only []
    split
    · exact LK_andThen (LK_andThen (o := ((beginDrain s).1, (beginDrain s).2.1)) (LK_frame rfl rfl rfl rfl) (fun _ => drainDone_lk _ _ _))
        (fun _ => coordStop_lk _ _ _ _)
    · exact LK_frame rfl rfl rfl rfl

theorem stopCall_lk (cfg : Cfg) (s : St) (err : Option GErr) (user : Bool) : LK s (stopCall cfg s err user) := by
  unfold stopCall
  refine LK_of_eq ?_ ?_ ?_ ?_ (stopLoop_lk cfg _ err user) <;> (split <;> rfl)

theorem userStop_lk (cfg : Cfg) (s : St) : LK s (userStop cfg s) := by
  rcases userStop_cases cfg s with ⟨hu, _, _⟩ | hu <;> rw [hu]
  · exact LK_frame rfl rfl rfl rfl
  · exact stopCall_lk _ _ _ _

theorem rejoinAfterError_lk (cfg : Cfg) (s : St) (e : GErr) : LK s (rejoinAfterError cfg s e) := by
  unfold rejoinAfterError
  simp only []
  split
  · exact LK_andThen (rejoinCore_lk _ _ _) (fun _ => stopCall_lk _ _ _ _)
  · exact rejoinCore_lk _ _ _

theorem escape_lk (cfg : Cfg) (s : St) (e : GErr) : LK s (escape cfg s e) := by
  unfold escape
  simp only []
  split
  · exact LK_andThen (escapeCore_lk _ _ _) (fun _ => stopCall_lk _ _ _ _)
  · exact escapeCore_lk _ _ _

/-- while the member is stopping (and started), no event but the leave reply changes
    `stopping`, `leaveWait`, `startResult`, `started` -/
theorem step_lk (cfg : Cfg) (s : St) (e : Ev) (hs : s.stopping = true) (hst : s.started = true) (hne : ∀ r, e ≠ .leaveDone r) :
    (step cfg s e).1.stopping = true ∧ (step cfg s e).1.leaveWait = s.leaveWait ∧
    (step cfg s e).1.startResult = s.startResult ∧ (step cfg s e).1.started = s.started := by
  have same : (s.stopping = true ∧ s.leaveWait = s.leaveWait ∧ s.startResult = s.startResult ∧ s.started = s.started) := ⟨hs, rfl, rfl, rfl⟩
  have via : ∀ {s1 : St} {o : Out}, LK s1 o → s1.stopping = s.stopping → s1.leaveWait = s.leaveWait →
      s1.startResult = s.startResult → s1.started = s.started →
      o.1.stopping = true ∧ o.1.leaveWait = s.leaveWait ∧ o.1.startResult = s.startResult ∧ o.1.started = s.started :=
    fun hk a b c d => LK_of_eq a b c d hk hs
  cases e with
  | leaveDone r => exact absurd rfl (hne r)
  | start => simp only [step, hst, Bool.true_or, if_true]; (first | exact same | simp [hs])
  | stop => exact via (userStop_lk cfg s) rfl rfl rfl rfl
  | coordDone r =>
    simp only [step]; split
    · (first | exact same | simp [hs])
    · cases r with
      | ok => (first | exact same | simp [hs])
      | none => (first | exact same | simp [hs])
      | err e =>
        simp only []
        split
        · exact via (escape_lk cfg s e) rfl rfl rfl rfl
        · (first | exact same | simp [hs])
        · (first | exact same | simp [hs])
  | metaDone r =>
    simp only [step]; split
    · (first | exact same | simp [hs])
    · cases r with
      | err e => exact via (escape_lk cfg s e) rfl rfl rfl rfl
      | ok => simp only [hs, if_true]; (first | exact same | simp [hs])
  | joinDone r =>
    simp only [step]; split
    · (first | exact same | simp [hs])
    · cases r with
      | err e => exact via (LK_andThen (rejoinAfterError_lk cfg { s with jpc := .idle } e) (fun _ => LK_frame rfl rfl rfl rfl)) rfl rfl rfl rfl
      | ok m g l n => simp only [abandonHb_eq, andThen_fst, hs, if_true]; (first | exact same | simp [hs])
  | partsDone r =>
    simp only [step]; split
    · cases r with
      | err e => exact via (escape_lk cfg s e) rfl rfl rfl rfl
      | ok => simp only [hs, if_true]; (first | exact same | simp [hs])
    · (first | exact same | simp [hs])
  | syncDone r =>
    simp only [step]; split
    · (first | exact same | simp [hs])
    · cases r with
      | err e => exact via (LK_andThen (rejoinAfterError_lk cfg { s with jpc := .idle } e) (fun _ => LK_frame rfl rfl rfl rfl)) rfl rfl rfl rfl
      | ok a => simp only [hs, if_true]; (first | exact same | simp [hs])
  | hbDone r =>
    simp only [step]; split
    · (first | exact same | simp [hs])
    · cases r with
      | ok => (first | exact same | simp [hs])
      | err e =>
        simp only []
        split
        · exact via (LK_andThen (LK_frame (s := { s with hbInFlight := false }) rfl rfl rfl rfl) (fun _ => rejoinAfterError_lk _ _ _)) rfl rfl rfl rfl
        · (first | exact same | simp [hs])
  | consumerDown cid ok =>
    simp only [step]; split
    · unfold consumerDown
      simp only []
      split
      · split
        · (first | exact same | simp [hs])
        · simp only [andThen_fst, afterPrepare_stopping', afterPrepare_leaveWait', afterPrepare_startResult', afterPrepare_started',
            drainDone_stopping', drainDone_leaveWait', drainDone_startResult', drainDone_started']
          (first | exact same | simp [hs])
      · split
        · (first | exact same | simp [hs])
        · split
          · (first | exact same | simp [hs])
          · exact via (LK_andThen (drainDone_lk _ _ _) (fun _ => stopLoop_lk _ _ _ _)) rfl rfl rfl rfl
    · (first | exact same | simp [hs])
  | consumerErr cid e =>
    simp only [step]; split
    · split
      · (first | exact same | simp [hs])
      · exact via (rejoinAfterError_lk cfg _ e) rfl rfl rfl rfl
    · (first | exact same | simp [hs])
  | consumerQuirk cid q => simp only [step]; split <;> (first | exact same | simp [hs])
  | fire id hbNext =>
    simp only [step]
    split
    · (first | exact same | simp [hs])
    split
    · (first | exact same | simp [hs])
    · split
      · (first | exact same | simp [hs])
      · split
        · simp only [joinAndSync_stopping', joinAndSync_leaveWait', joinAndSync_startResult', joinAndSync_started']; (first | exact same | simp [hs])
        · simp only [joinAndSync_stopping', joinAndSync_leaveWait', joinAndSync_startResult', joinAndSync_started']; (first | exact same | simp [hs])
        · simp only [andThen_fst]
          split <;> split <;> (first | exact same | simp [hs])
  | advance dt => simp only [step]; split <;> (first | exact same | simp [hs])


/-! ## a non-Kafka error handed to `rejoin_after_error` of a started, non-stopping member surfaces -/

/-- the helper fires `start`'s Deferred with `e`, or sends the leave with `e` parked for its reply -/
def Surf (e : GErr) (o : Out) : Prop :=
  firesWith e o.2 = true ∨
    (sendsLeave o.2 = true ∧ (∃ u, o.1.leaveWait = some (some e, u)) ∧ o.1.startResult = none ∧ o.1.started = true)

theorem firesWith_append_right (e : GErr) (a b : List Ob) (h : firesWith e b = true) : firesWith e (a ++ b) = true := by
  unfold firesWith at *; simp only [List.contains_eq_mem, List.mem_append, decide_eq_true_eq] at *; exact Or.inr h
theorem firesWith_append_left (e : GErr) (a b : List Ob) (h : firesWith e a = true) : firesWith e (a ++ b) = true := by
  unfold firesWith at *; simp only [List.contains_eq_mem, List.mem_append, decide_eq_true_eq] at *; exact Or.inl h
theorem sendsLeave_append_right (a b : List Ob) (h : sendsLeave b = true) : sendsLeave (a ++ b) = true := by
  unfold sendsLeave at *; rw [List.any_append, h]; simp
theorem sendsLeave_append_left (a b : List Ob) (h : sendsLeave a = true) : sendsLeave (a ++ b) = true := by
  unfold sendsLeave at *; rw [List.any_append, h]; simp

theorem Surf_andThen {e : GErr} {o : Out} {f : St → Out} (h : Surf e (f o.1)) : Surf e (andThen o f) := by
  rcases h with a | ⟨a, b, c, d⟩
  · exact Or.inl (by rw [andThen_snd]; exact firesWith_append_right _ _ _ a)
  · exact Or.inr ⟨by rw [andThen_snd]; exact sendsLeave_append_right _ _ a, b, c, d⟩

theorem leaveOrFinish_surf (cfg : Cfg) (e : GErr) (user : Bool) (s : St) (hsr : s.startResult = none) (hst : s.started = true) :
    Surf e (leaveOrFinish cfg (some e) user s) := by
  unfold leaveOrFinish
  split
  · right; exact ⟨by simp [sendsLeave], ⟨user, rfl⟩, hsr, hst⟩
  · left
    unfold finishStop
    rw [andThen_snd]
    apply firesWith_append_right
    simp only [cancelJoin_startResult', hsr, Option.isNone_none, if_true]
    apply firesWith_append_left
    simp [firesWith]

theorem coordStop_surf (cfg : Cfg) (e : GErr) (user : Bool) (s : St)
    (hdc : ∀ id, s.rejoinWaitDc = some id → ∃ t ∈ s.timers, t.id = id)
    (hst : s.started = true) (hns : s.stopping = false) (hsr : s.startResult = none) :
    Surf e (coordStop cfg s (some e) user) := by
  unfold coordStop
  rw [if_neg (by rw [hst, hns]; simp)]
  simp only []
  have hac : ((s.rejoinWaitDc.any fun id => !timerActive { s with stopping := true, rejoinNeeded := false } id) = true) = False := by
    cases hx : s.rejoinWaitDc with
    | none => simp
    | some id =>
      obtain ⟨t, ht, hid⟩ := hdc id hx
      simp only [Option.any_some, Bool.not_eq_eq_eq_not, Bool.not_true, eq_iff_iff, iff_false, Bool.not_eq_false]
      unfold timerActive
      exact List.any_eq_true.mpr ⟨t, ht, by simp [hid]⟩
  rw [if_neg (by rw [hac]; exact fun x => x)]
  refine Surf_andThen (leaveOrFinish_surf cfg e user _ ?_ ?_)
  · simp only [andThen_fst, stopLooper_startResult', stopCancelHb_startResult', stopCancelDc_startResult']; exact hsr
  · simp only [andThen_fst, stopLooper_started', stopCancelHb_started', stopCancelDc_started']; exact hst

theorem rejoinAfterError_surf {s : St} (hw : WInv s) (cfg : Cfg) (e : GErr) (hk : isKafka e = false)
    (hst : s.started = true) (hns : s.stopping = false) : Surf e (rejoinAfterError cfg s e) := by
  have hf := Tables.nonKafka_fatal e hk
  have e1 : rejoinAfterError cfg s e = andThen (stopConsumers s) fun s => stopCall cfg s (some e) false := by
    unfold rejoinAfterError rejoinCore rejoinWith
    rw [hns]; simp only [hf, if_true]
  rw [e1]
  refine Surf_andThen ?_
  have hnh := stopConsumers_noheld hw
  have hst2 : (stopConsumers s).1.started = true := hst
  have hns2 : (stopConsumers s).1.stopping = false := hns
  unfold stopCall
  rw [if_pos (by rw [hst2, hns2]; rfl)]
  unfold stopLoop
  rw [if_pos ((heldCids_isEmpty { (stopConsumers s).1 with stopDraining := true }).mpr hnh)]
  refine coordStop_surf cfg e false _ (fun id hid => ?_) hst2 hns2 (hw.start_res hst hns)
  obtain ⟨t, ht, a, _⟩ := hw.dc_active hns id hid
  exact ⟨t, ht, a⟩

/-- the state update that closes the join coroutine keeps what `Surf` speaks of -/
theorem Surf_rd {e : GErr} {o : Out} (h : Surf e o) : Surf e (andThen o fun s => ({ s with rejoinD := false }, [])) := by
  rcases h with a | ⟨a, b, c, d⟩
  · exact Or.inl (by rw [andThen_snd]; exact firesWith_append_left _ _ _ a)
  · exact Or.inr ⟨by rw [andThen_snd]; exact sendsLeave_append_left _ _ a, b, c, d⟩

/-- a processed non-Kafka error on a join / sync / heartbeat reply or from a consumer, in a
    started, non-stopping member, surfaces -/
theorem step_surf {s : St} (h : SInv s) (cfg : Cfg) (e : Ev) (g : GErr) (hfo : fatalOf (snap s) e = some g)
    (hp : (step cfg s e).2 ≠ [.badOp]) (hst : s.started = true) (hns : s.stopping = false) : Surf g (step cfg s e) := by
  have hw := h.toWInv
  have hl : Live s := Or.inl hst
  cases e with
  | joinDone r =>
    cases r with
    | ok m g1 l n => cases hfo
    | err e1 =>
      simp only [fatalOf] at hfo
      split at hfo
      · cases hfo
      · rename_i hk; injection hfo with hfo; subst hfo
        revert hp; simp only [step]; split
        · intro hp; exact absurd rfl hp
        · intro _
          exact Surf_rd (rejoinAfterError_surf (winv_upd hw hl s.rejoinD .idle s.prep s.coordBroker s.now) cfg e1 (by simpa using hk) hst hns)
  | syncDone r =>
    cases r with
    | ok a => cases hfo
    | err e1 =>
      simp only [fatalOf] at hfo
      split at hfo
      · cases hfo
      · rename_i hk; injection hfo with hfo; subst hfo
        revert hp; simp only [step]; split
        · intro hp; exact absurd rfl hp
        · intro _
          exact Surf_rd (rejoinAfterError_surf (winv_upd hw hl s.rejoinD .idle s.prep s.coordBroker s.now) cfg e1 (by simpa using hk) hst hns)
  | hbDone r =>
    cases r with
    | ok => cases hfo
    | err e1 =>
      simp only [fatalOf] at hfo
      split at hfo
      · cases hfo
      · rename_i hk; injection hfo with hfo; subst hfo
        revert hp; simp only [step]; split
        · intro hp; exact absurd rfl hp
        · rename_i hfl
          split
          · intro _
            have w0 := winv_hbInFlight hw false (fun x => by cases x)
            exact Surf_andThen (rejoinAfterError_surf (hbStop_winv w0 rfl) cfg e1 (by simpa using hk) hst hns)
          · rename_i hr
            exfalso
            have := (hw.hb_timer (by simpa using hr)).2
            rw [this] at hfl; simp at hfl
  | consumerErr cid e1 =>
    simp only [fatalOf] at hfo
    split at hfo
    · cases hfo
    · rename_i hk; injection hfo with hfo; subst hfo
      simp only [Bool.or_eq_true, not_or, Bool.and_eq_true, not_and, Bool.not_eq_true] at hk
      revert hp; simp only [step]; split
      · let f : Con → Con := fun c => if c.cid = cid then { c with startFired := true } else c
        have hf : ∀ c, (f c).held = c.held ∧ ((f c).phase = .running ↔ c.phase = .running) ∧ (f c).gen = c.gen ∧
            (f c).member = c.member ∧ (f c).topic = c.topic ∧ (f c).part = c.part := by
          intro c; simp only [f]; split <;> simp
        split
        · rename_i hc
          exfalso
          simp only [Bool.and_eq_true, decide_eq_true_eq] at hc
          have hall : (snap s).cons.all (fun c => c.phase != .running) = true := by
            rw [List.all_eq_true]
            intro c hc'
            have hc'' : c ∈ s.cons := hc'
            have hh := (heldCids_isEmpty _).mp hc.2 (f c) (List.mem_map.mpr ⟨c, hc'', rfl⟩)
            rw [(hf c).1] at hh
            have hnr : c.phase ≠ .running := fun hr => by
              have := (hw.held_running c hc'').mpr hr; rw [hh] at this; cases this
            simpa using hnr
          have := hk.2 (by rw [hc.1]; rfl)
          rw [hall] at this; cases this
        · intro _
          exact rejoinAfterError_surf (winv_cons_map hw f hf) cfg e1 hk.1 hst hns
      · intro hp; exact absurd rfl hp
  | start => cases hfo
  | stop => cases hfo
  | coordDone r => cases hfo
  | metaDone r => cases hfo
  | partsDone r => cases hfo
  | leaveDone r => cases hfo
  | consumerDown c o => cases hfo
  | consumerQuirk c q => cases hfo
  | fire i n => cases hfo
  | advance d => cases hfo


/-! ## the trace theorem -/

/-- ghost of the monitor's pending error -/
def PG (pend : Option GErr) (s : St) : Prop :=
  ∀ e, pend = some e → (∃ u, s.leaveWait = some (some e, u)) ∧ s.startResult = none ∧ s.started = true

theorem PG_none (s : St) : PG none s := fun e h => by cases h

theorem PG_stopping {pend : Option GErr} {s : St} (hw : WInv s) (h : PG pend s) (e : GErr) (hp : pend = some e) : s.stopping = true := by
  obtain ⟨⟨u, hu⟩, _, _⟩ := h e hp
  exact hw.leave_stop (by rw [hu]; rfl)

theorem PG_step {pend : Option GErr} {s : St} (hw : WInv s) (h : PG pend s) (cfg : Cfg) (e : Ev)
    (hne : (∀ r, e ≠ .leaveDone r) ∨ pend = none) : PG pend (step cfg s e).1 := by
  intro g hg
  rcases hne with hne | hn
  · obtain ⟨⟨u, hu⟩, b, c⟩ := h g hg
    obtain ⟨_, l2, l3, l4⟩ := step_lk cfg s e (PG_stopping hw h g hg) c hne
    exact ⟨⟨u, by rw [l2, hu]⟩, by rw [l3, b], by rw [l4, c]⟩
  · rw [hn] at hg; cases hg

theorem fatalFrom_leave (pre : Snap) (e : GErr) (r : Res) (obs : List Ob) (sn : Snap) (ms : List MStep) :
    fatalFrom pre (some e) (⟨.leaveDone r, obs, sn⟩ :: ms) = (firesWith e obs && fatalFrom sn none ms) := rfl

theorem fatalFrom_other (pre : Snap) (pend : Option GErr) (ev : Ev) (obs : List Ob) (sn : Snap) (ms : List MStep)
    (hne : (∀ r, ev ≠ .leaveDone r) ∨ pend = none) :
    fatalFrom pre pend (⟨ev, obs, sn⟩ :: ms) =
      match fatalOf pre ev with
      | some e =>
        if obs == [.badOp] || !(pre.started && !pre.stopping) then fatalFrom sn pend ms
        else if firesWith e obs then fatalFrom sn pend ms
        else if sendsLeave obs then fatalFrom sn (some e) ms
        else false
      | none => fatalFrom sn pend ms := by
  rcases hne with hne | hn
  · cases ev <;> first | rfl | (rename_i r; exact absurd rfl (hne r))
  · subst hn; cases ev <;> rfl

theorem fatal_runFrom (cfg : Cfg) (evs : List Ev) :
    ∀ (s : St) (pend : Option GErr), SInv s → PG pend s → fatalFrom (snap s) pend (toMSteps (runFrom cfg s evs)) = true := by
  induction evs with
  | nil => intro s p _ _; rfl
  | cons e es ih =>
    intro s pend h hg
    have hw := h.toWInv
    have h' := step_sinv h cfg e
    simp only [runFrom, toMSteps, List.map_cons]
    by_cases hl : (∃ r, e = .leaveDone r) ∧ ∃ g, pend = some g
    · obtain ⟨⟨r, rfl⟩, g, rfl⟩ := hl
      rw [fatalFrom_leave, Bool.and_eq_true]
      refine ⟨?_, ih _ none h' (PG_none _)⟩
      obtain ⟨⟨u, hu⟩, hsr, _⟩ := hg g rfl
      cases r with
      | ok =>
        simp only [step, hu]
        unfold finishStop
        rw [andThen_snd]
        apply firesWith_append_right
        simp only [cancelJoin_startResult', hsr, Option.isNone_none, if_true]
        apply firesWith_append_left
        simp [firesWith]
      | err e1 =>
        simp only [step, hu]
        unfold finishStop
        rw [andThen_snd]
        apply firesWith_append_right
        simp only [cancelJoin_startResult', hsr, Option.isNone_none, if_true]
        apply firesWith_append_left
        simp [firesWith]
    · have hne : (∀ r, e ≠ .leaveDone r) ∨ pend = none := by
        by_cases h1 : ∃ r, e = .leaveDone r
        · right
          cases hp : pend with
          | none => rfl
          | some g => exact absurd ⟨h1, g, hp⟩ hl
        · left; exact fun r hr => h1 ⟨r, hr⟩
      rw [fatalFrom_other _ _ _ _ _ _ hne]
      have keep := ih _ pend h' (PG_step hw hg cfg e hne)
      cases hfo : fatalOf (snap s) e with
      | none => exact keep
      | some g =>
        simp only []
        by_cases c1 : ((step cfg s e).2 == [.badOp] || !((snap s).started && !(snap s).stopping)) = true
        · rw [if_pos c1]; exact keep
        · rw [if_neg c1]
          simp only [Bool.or_eq_true, not_or, beq_iff_eq, Bool.not_eq_true', Bool.not_eq_false, Bool.and_eq_true] at c1
          have hst : s.started = true := c1.2.1
          have hns : s.stopping = false := c1.2.2
          have hpn : pend = none := by
            cases hp : pend with
            | none => rfl
            | some g0 => have := PG_stopping hw hg g0 hp; rw [hns] at this; cases this
          rcases step_surf h cfg e g hfo c1.1 hst hns with a | ⟨a, b, c, d⟩
          · rw [if_pos a]; exact keep
          · by_cases hfw : firesWith g (step cfg s e).2 = true
            · rw [if_pos hfw]; exact keep
            · rw [if_neg hfw, if_pos a]
              exact ih _ (some g) h' (fun g' hg' => by injection hg' with hg'; subst hg'; exact ⟨b, c, d⟩)

/-- **C17 fatal errors surface**: on every run a processed non-Kafka error on a join / sync /
    heartbeat reply or from a consumer, in a started and not stopping member, fires `start`'s
    Deferred with that error in the same step, or sends the leave request and the step delivering
    the leave reply fires it with that error. -/
theorem fatalSurfaces_run (cfg : Cfg) (evs : List Ev) : fatalSurfaces (toMSteps (run cfg evs)) = true :=
  fatal_runFrom cfg evs init none sinv_init (PG_none _)

end Afkak.Group
