import AfkakProofs.Group.Sig
import AfkakProofs.Group.Trace
/-!
# Monitor-level consequences: joins only without running consumers, consumers started only by a
successful sync (from COMMITTED, current generation), eviction errors stop the consumers first.
-/
namespace Afkak.Group
open Afkak.Consts Afkak.Monitor.C16

theorem not_bg_of_join {o : Ob} (h : isJoinOb o = true) : bg o = false := by cases o <;> simp_all [isJoinOb, bg]
theorem not_bg_of_sync {o : Ob} (h : isSyncOb o = true) : bg o = false := by cases o <;> simp_all [isSyncOb, bg]
theorem not_bg_of_start {o : Ob} (h : isStartOb o = true) : bg o = false := by cases o <;> simp_all [isStartOb, bg]

theorem mem_sig {obs : List Ob} {o : Ob} (ho : o ∈ obs) (hb : bg o = false) : o ∈ sigObs obs := by
  unfold sigObs; exact List.mem_filter.mpr ⟨ho, by simp [hb]⟩

theorem noRunning_of_noheld {s : St} (h : SInv s) (hn : NoHeld s) : (snap s).cons.all (fun c => !isRunning c) = true := by
  simp only [snap, List.all_eq_true, isRunning, Bool.not_eq_eq_eq_not, Bool.not_true, beq_eq_false_iff_ne, ne_eq]
  intro c hc hr
  have := hn c hc
  rw [(h.held_running c hc).mpr hr] at this
  cases this

theorem no_join_of_bg {obs : List Ob} (h : BG obs) {o : Ob} (ho : o ∈ obs) (hj : isJoinOb o = true) : False := by
  have := h o ho; rw [not_bg_of_join hj] at this; cases this

theorem afterPrepare_join_post (s : St) (o : Ob) (ho : o ∈ (afterPrepare s).2) : (afterPrepare s).1.jpc = .join := by
  unfold afterPrepare at ho ⊢
  split
  · rename_i h; simp [h] at ho
  · rfl

theorem prepare_join_post (s : St) (o : Ob) (ho : o ∈ (prepare s).2) (hj : isJoinOb o = true) : (prepare s).1.jpc = .join := by
  by_cases h1 : s.stopDraining = true
  · have e : prepare s = ({ s with jpc := .hang }, []) := by unfold prepare; simp [h1]
    rw [e] at ho; cases ho
  · by_cases h2 : (heldCids s).isEmpty = true
    · have e : prepare s = afterPrepare s := by unfold prepare; simp [h1, h2]
      rw [e] at ho ⊢; exact afterPrepare_join_post s o ho
    · by_cases h3 : (drainFails s || (beginDrain s).2.2.pending.isEmpty) = true
      · have e : prepare s = andThen (andThen ((beginDrain s).1, (beginDrain s).2.1) fun s' => drainDone s' (beginDrain s).2.2 (!drainFails s)) afterPrepare := by
          unfold prepare; simp only [h1, h2, h3]; simp
        rw [e] at ho ⊢
        rw [andThen_snd, andThen_snd] at ho
        rcases List.mem_append.mp ho with x | x
        · rcases List.mem_append.mp x with y | y
          · exact (no_join_of_bg (beginDrain_bg s) y hj).elim
          · exact (no_join_of_bg (drainDone_bg _ _ _) y hj).elim
        · exact afterPrepare_join_post _ o x
      · have e : (prepare s).2 = (beginDrain s).2.1 := by unfold prepare; simp only [h1, h2, h3]; simp
        rw [e] at ho
        exact (no_join_of_bg (beginDrain_bg s) ho hj).elim

/-- a step that issues a join leaves the coroutine waiting for the join reply -/
theorem step_join_post (cfg : Cfg) (s : St) (e : Ev) (o : Ob) (ho : o ∈ (step cfg s e).2) (hj : isJoinOb o = true) :
    (step cfg s e).1.jpc = .join := by
  have hsig := mem_sig ho (not_bg_of_join hj)
  rw [step_sig] at hsig
  cases e with
  | metaDone r =>
    cases r with
    | err e => simp [expectedSig] at hsig
    | ok =>
      by_cases h1 : (s.jpc != .metaLoad) = true
      · have e : step cfg s (.metaDone .ok) = (s, [.badOp]) := by simp only [step, h1, if_true]
        rw [e] at ho; simp at ho; subst ho; cases hj
      · by_cases h2 : s.stopping = true
        · have e : (step cfg s (.metaDone .ok)).2 = [] := by simp [step, h1, h2]
          rw [e] at ho; cases ho
        · have e : step cfg s (.metaDone .ok) = prepare { s with coordBroker := true } := by simp [step, h1, h2]
          rw [e] at ho ⊢
          exact prepare_join_post _ o ho hj
  | consumerDown cid ok =>
    simp only [expectedSig] at hsig
    split at hsig
    · split at hsig
      · split at hsig
        · cases hsig
        · split at hsig
          · cases hsig
          · rename_i h1 h2 h3 h4
            have h4' : s.stopping = false := by simpa using h4
            simp only [step, h1, if_true]
            unfold consumerDown
            simp only []
            rw [if_pos h2, if_neg h3]
            simp only [andThen_fst]
            unfold afterPrepare
            rw [(drainDone_ctl _ _ _).2.2.1]
            simp [h4']
      · cases hsig
    · cases hsig
  | start =>
    simp only [expectedSig, lookupSig] at hsig
    split at hsig
    · cases hsig
    · split at hsig
      · simp at hsig; subst hsig; cases hj
      · cases hsig
  | stop => simp [expectedSig] at hsig
  | coordDone r =>
    cases r <;> simp only [expectedSig] at hsig
    · split at hsig
      · cases hsig
      · simp at hsig; subst hsig; cases hj
    · cases hsig
    · cases hsig
  | joinDone r =>
    cases r with
    | err e => simp [expectedSig] at hsig
    | ok m g l n =>
      simp only [expectedSig] at hsig
      split at hsig
      · cases hsig
      · split at hsig
        · cases hsig
        · split at hsig <;> (simp at hsig; subst hsig; cases hj)
  | partsDone r =>
    cases r with
    | err e => simp [expectedSig] at hsig
    | ok =>
      simp only [expectedSig] at hsig
      split at hsig
      · split at hsig
        · cases hsig
        · simp at hsig; subst hsig; cases hj
      · cases hsig
  | syncDone r =>
    cases r with
    | err e => simp [expectedSig] at hsig
    | ok asg =>
      simp only [expectedSig] at hsig
      split at hsig
      · cases hsig
      · split at hsig
        · cases hsig
        · unfold startObs at hsig
          obtain ⟨x, _, rfl⟩ := List.mem_map.mp hsig
          cases hj
  | hbDone r => simp [expectedSig] at hsig
  | leaveDone r => simp [expectedSig] at hsig
  | consumerErr cid e => simp [expectedSig] at hsig
  | consumerQuirk cid q => simp [expectedSig] at hsig
  | fire id hbNext =>
    have : ∀ x ∈ expectedSig s (.fire id hbNext), isJoinOb x = false := by
      intro x hx
      simp only [expectedSig, lookupSig] at hx
      split at hx
      · cases hx
      · split at hx
        · cases hx
        · split at hx
          · cases hx
          · split at hx
            · split at hx
              · cases hx
              · simp at hx; subst hx; rfl
            · split at hx
              · simp at hx; subst hx; rfl
              · cases hx
    rw [this o hsig] at hj; cases hj
  | advance dt => simp [expectedSig] at hsig

theorem joinNoRunning_run (cfg : Cfg) (evs : List Ev) :
    joinNoRunning (toMSteps (run cfg evs)) = true := by
  refine all_runFrom cfg _ (fun s h e => ?_) evs init sinv_init
  unfold joinNoRunningStep
  simp only [Bool.or_eq_true, Bool.not_eq_eq_eq_not, Bool.not_true]
  by_cases hj : (step cfg s e).2.any isJoinOb = true
  · right
    obtain ⟨o, ho, hjo⟩ := List.any_eq_true.mp hj
    have hp := step_join_post cfg s e o ho hjo
    have h' := step_sinv h cfg e
    exact noRunning_of_noheld h' (h'.mid_noheld (by simp [midJoin, hp]))
  · left; simpa using hj

theorem filter_start_sig (obs : List Ob) : obs.filter isStartOb = (sigObs obs).filter isStartOb := by
  unfold sigObs
  rw [List.filter_filter]
  apply List.filter_congr
  intro o _
  cases o <;> simp [isStartOb, bg]

theorem starts_startObs (s : St) (a : List (Nat × List Int)) :
    (startObs s a).filter isStartOb = startObs s a := by
  rw [List.filter_eq_self]
  intro o ho
  unfold startObs at ho
  obtain ⟨x, _, rfl⟩ := List.mem_map.mp ho
  rfl

/-- only a processed successful sync reply starts consumers -/
theorem expectedSig_no_start (s : St) (e : Ev) (h : ∀ a, e ≠ .syncDone (.ok a)) : (expectedSig s e).filter isStartOb = [] := by
  cases e with
  | syncDone r =>
    cases r with
    | ok a => exact absurd rfl (h a)
    | err e => rfl
  | start => simp only [expectedSig, lookupSig]; split <;> (try split) <;> rfl
  | stop => rfl
  | coordDone r => cases r <;> simp only [expectedSig] <;> (try split) <;> rfl
  | metaDone r => cases r <;> simp only [expectedSig] <;> (try split) <;> (try split) <;> (try split) <;> (try split) <;> (try split) <;> rfl
  | joinDone r => cases r <;> simp only [expectedSig] <;> (try split) <;> (try split) <;> (try split) <;> rfl
  | partsDone r => cases r <;> simp only [expectedSig] <;> (try split) <;> (try split) <;> rfl
  | hbDone r => rfl
  | leaveDone r => rfl
  | consumerDown cid ok => simp only [expectedSig]; split <;> (try split) <;> (try split) <;> (try split) <;> rfl
  | consumerErr cid e => rfl
  | consumerQuirk cid q => rfl
  | fire id hbNext =>
    simp only [expectedSig, lookupSig]
    split
    · rfl
    split
    · rfl
    · split
      · rfl
      · split <;> split <;> rfl
  | advance dt => rfl

theorem syncOk_post (cfg : Cfg) (s : St) (a : List (Nat × List Int)) (hj : s.jpc = .sync) (hs : s.stopping = false) :
    (step cfg s (.syncDone (.ok a))).1.gen = s.gen ∧ (step cfg s (.syncDone (.ok a))).1.member = s.member := by
  simp only [step, hj, hs]
  simp only [bne_self_eq_false, Bool.false_eq_true, if_false, andThen_fst]
  unfold startConsumers resetHeartbeat hbSchedule
  split <;> exact ⟨rfl, rfl⟩

theorem startsCommitted_run (cfg : Cfg) (evs : List Ev) :
    startsCommitted (toMSteps (run cfg evs)) = true := by
  refine all_runFrom cfg _ (fun s h e => ?_) evs init sinv_init
  unfold startsOk
  simp only []
  rw [filter_start_sig, step_sig]
  by_cases hsync : ∃ a, e = .syncDone (.ok a)
  · obtain ⟨a, rfl⟩ := hsync
    simp only [expectedSig]
    split
    · rename_i hj; simp [step, hj]
    · rename_i hj
      have hj' : s.jpc = .sync := by simpa using hj
      split
      · rename_i hst; simp [step, hj, hst, snap]
      · rename_i hst
        have hst' : s.stopping = false := by simpa using hst
        obtain ⟨g, m⟩ := syncOk_post cfg s a hj' hst'
        rw [starts_startObs]
        simp only [Bool.or_eq_true, Bool.and_eq_true, beq_iff_eq]
        right
        refine ⟨?_, ?_⟩
        · unfold startObs flatten
          simp only [List.map_map]
          exact Eq.trans (List.map_congr_left (g := Prod.fst) (fun x _ => rfl)) (List.zipIdx_map_fst 0 _)
        · rw [List.all_eq_true]
          intro o ho
          unfold startObs at ho
          obtain ⟨x, _, rfl⟩ := List.mem_map.mp ho
          simp [snap, g, m]
  · have hns : ∀ a, e ≠ .syncDone (.ok a) := fun a ha => hsync ⟨a, ha⟩
    rw [expectedSig_no_start s e hns]
    cases e with
    | syncDone r =>
      cases r with
      | ok a => exact absurd rfl (hns a)
      | err e => rfl
    | _ => rfl

theorem rowEffects_leave_noheld {s : St} (h : WInv s) (row : RejoinRow) (hl : row.leave = true) : NoHeld (rowEffects s row).1 := by
  unfold rowEffects
  have := stopConsumers_noheld h
  cases hc : row.clearMember <;> simp_all [NoHeld]

/-- an eviction error handled by `rejoin_after_error` leaves no consumer held -/
theorem rejoinAfterError_evict_noheld {s : St} (h : WInv s) (cfg : Cfg) (e : GErr) (he : isEviction e = true) :
    NoHeld (rejoinAfterError cfg s e).1 := by
  obtain ⟨hl, hi, hf⟩ := Tables.eviction_leave s.stopping e he
  unfold rejoinAfterError rejoinCore
  have hfl : (rejoinWith cfg s (rejoinRow s.stopping e)).2 = false := by
    cases hx : (rejoinWith cfg s (rejoinRow s.stopping e)).2
    · rfl
    · exact absurd ((rejoinWith_flag cfg s _).mp hx) hf
  simp only [hfl, Bool.false_eq_true, if_false]
  unfold rejoinWith
  cases ha : (rejoinRow s.stopping e).act
  · simp only [andThen_fst]
    exact scheduleRejoin_noheld (rowEffects_leave_noheld h _ hl) _ _
  · exact rowEffects_leave_noheld h _ hl
  · exact absurd ha hi
  · exact absurd ha hf

theorem no_joinsync_of_sig_nil {obs : List Ob} (h : sigObs obs = []) : obs.any (fun o => isJoinOb o || isSyncOb o) = false := by
  rw [List.any_eq_false]
  intro o ho hx
  simp only [Bool.or_eq_true] at hx
  have hb : bg o = false := by rcases hx with x | x; exact not_bg_of_join x; exact not_bg_of_sync x
  have := mem_sig ho hb
  rw [h] at this; cases this

/-- the error events of the monitor: processed (then no consumer is held afterwards) or not enabled -/
theorem evict_step {s : St} (h : SInv s) (hp : Live s) (cfg : Cfg) (e : Ev) (e0 : GErr)
    (hev : Afkak.Monitor.C16.errorOf e = some e0) (hevi : isEviction e0 = true) :
    (step cfg s e).2 = [.badOp] ∨ NoHeld (step cfg s e).1 := by
  cases e with
  | joinDone r =>
    cases r with
    | ok m g l n => simp [Afkak.Monitor.C16.errorOf] at hev
    | err e1 =>
      simp only [Afkak.Monitor.C16.errorOf, Option.some.injEq] at hev; subst hev
      simp only [step]
      split
      · left; rfl
      · right
        have w := winv_upd h.toWInv hp s.rejoinD .idle s.prep s.coordBroker s.now
        exact rejoinAfterError_evict_noheld w cfg e1 hevi
  | syncDone r =>
    cases r with
    | ok a => simp [Afkak.Monitor.C16.errorOf] at hev
    | err e1 =>
      simp only [Afkak.Monitor.C16.errorOf, Option.some.injEq] at hev; subst hev
      simp only [step]
      split
      · left; rfl
      · right
        have w := winv_upd h.toWInv hp s.rejoinD .idle s.prep s.coordBroker s.now
        exact rejoinAfterError_evict_noheld w cfg e1 hevi
  | hbDone r =>
    cases r with
    | ok => simp [Afkak.Monitor.C16.errorOf] at hev
    | err e1 =>
      simp only [Afkak.Monitor.C16.errorOf, Option.some.injEq] at hev; subst hev
      simp only [step]
      split
      · left; rfl
      · rename_i hf
        have hf' : s.hbInFlight = true := by simpa using hf
        have hrun : s.hbRunning = true := by
          cases hr : s.hbRunning
          · rw [(h.hb_timer hr).2] at hf'; cases hf'
          · rfl
        right
        show NoHeld (if s.hbRunning = true then andThen (hbStop { s with hbInFlight := false }) fun s => rejoinAfterError cfg s e1
                     else ({ s with hbInFlight := false }, [.raised "AssertionError"])).1
        rw [if_pos hrun]
        simp only [andThen_fst]
        have w0 := winv_hbInFlight h.toWInv false (fun x => by cases x)
        exact rejoinAfterError_evict_noheld (hbStop_winv w0 rfl) cfg e1 hevi
  | consumerErr cid e1 =>
    simp only [Afkak.Monitor.C16.errorOf, Option.some.injEq] at hev; subst hev
    simp only [step]
    split
    · right
      have hne : e1 ≠ GErr.cancelled := by intro hx; rw [hx] at hevi; cases hevi
      split
      · rename_i hx; simp only [Bool.and_eq_true, decide_eq_true_eq] at hx; exact absurd hx.1 hne
      let f : Con → Con := fun c => if c.cid = cid then { c with startFired := true } else c
      have hf : ∀ c, (f c).held = c.held ∧ ((f c).phase = .running ↔ c.phase = .running) ∧ (f c).gen = c.gen ∧
          (f c).member = c.member ∧ (f c).topic = c.topic ∧ (f c).part = c.part := by
        intro c; simp only [f]; split <;> simp
      exact rejoinAfterError_evict_noheld (winv_cons_map h.toWInv f hf) cfg e1 hevi
    · left; rfl
  | _ => simp [Afkak.Monitor.C16.errorOf] at hev

theorem errorEv_sig (s : St) (e : Ev) (e0 : GErr) (hev : Afkak.Monitor.C16.errorOf e = some e0) : expectedSig s e = [] := by
  cases e with
  | joinDone r => cases r <;> simp_all [Afkak.Monitor.C16.errorOf, expectedSig]
  | syncDone r => cases r <;> simp_all [Afkak.Monitor.C16.errorOf, expectedSig]
  | hbDone r => rfl
  | consumerErr cid e1 => rfl
  | _ => simp [Afkak.Monitor.C16.errorOf] at hev

theorem eviction_run (cfg : Cfg) (evs : List Ev) : evictionStopsFirst (toMSteps (run cfg evs)) = true := by
  refine all_runFrom cfg _ (fun s h e => ?_) evs init sinv_init
  unfold evictionStep
  cases hev : Afkak.Monitor.C16.errorOf e with
  | none => simp
  | some er =>
    simp only []
    by_cases hevi : isEviction er = true
    · simp only [hevi, Bool.not_true, Bool.false_or, Bool.or_eq_true, Bool.and_eq_true, beq_iff_eq, Bool.not_eq_eq_eq_not]
      have h' := step_sinv h cfg e
      have hns := no_joinsync_of_sig_nil (obs := (step cfg s e).2) (by rw [step_sig]; exact errorEv_sig s e er hev)
      by_cases hp : Live s
      · rcases evict_step h hp cfg e er hev hevi with x | x
        · left; exact x
        · right; exact ⟨noRunning_of_noheld h' x, by simpa using hns⟩
      · left
        have h1 : s.started = false := by unfold Live at hp; cases hs : s.started <;> simp_all
        have h2 : s.stopping = false := by unfold Live at hp; cases hs : s.stopping <;> simp_all
        obtain ⟨_, c, f, _⟩ := h.pristine_empty h1 h2
        obtain ⟨_, _, j⟩ := h.pristine h1 h2
        cases e <;> simp_all [Afkak.Monitor.C16.errorOf, step]
    · simp [hevi]

theorem joinAdopted_run (cfg : Cfg) (evs : List Ev) : joinAdopted (toMSteps (run cfg evs)) = true := by
  refine all_runFrom cfg _ (fun s _ e => ?_) evs init sinv_init
  unfold joinAdoptedStep
  cases e with
  | joinDone r =>
    cases r with
    | err e => rfl
    | ok m g l n =>
      simp only [step]
      split
      · rfl
      · simp only [abandonHb_eq, andThen_fst, andThen_snd]
        rw [Bool.or_eq_true]; right
        by_cases hs : s.stopping = true
        · simp [hs, snap]
        · cases l <;> simp [hs, snap]
  | _ => rfl

end Afkak.Group
