import AfkakProofs.Group.StopCalled
import AfkakProofs.Group.JoinIds
import AfkakProofs.Group.DrainConvStep
import AfkakProofs.Group.Trace
/-!
# C16, strict reading of "after stop": the ONLY group requests after `stop()` was called are those a
timer firing sends while `ConsumerGroup.stop` drains the consumers

Known finding `group-requests-during-stop-drain`: between the call of `stop()` and the moment
`Coordinator.stop` sets `_stopping` the heartbeat looper keeps ticking and a pending rejoin / retry
timer may fire and look the coordinator up.  `timerRequestDuringStopDrain` is that situation as a
decidable predicate of the event list; every other event (a reply, a consumer event, `start`, a second
`stop`) sends nothing but the leave once `stop()` has been called:

* a JoinGroup is sent only with `_stop_draining` unset (`step_join_sd`);
* a SyncGroup is sent only by a join / partitions reply of a member that is mid-exchange, and a
  mid-exchange member that is not stopping has `_stop_draining` unset (`MInv.k`);
* `start()` sends the look-up only on a pristine member, and `_stop_draining` without `_stopping`
  means a `stop()` is waiting (`CInv.sdstop`), which a pristine member has not (`SInv.pristine_empty`).
-/
namespace Afkak.Group
open Afkak.Consts Afkak.Monitor.C16

def isFireEv : Ev → Bool | .fire .. => true | _ => false

/-- the known finding's situation somewhere in the run from `s`: a timer fires (heartbeat tick,
    rejoin or coordinator-retry timer), the step sends a group request (heartbeat / coordinator
    look-up) and leaves the member in the drain of a `stop()` (`_stop_draining` set, `Coordinator.stop`
    not begun). -/
def drainRequestFrom (cfg : Cfg) (s : St) : List Ev → Bool
  | [] => false
  | e :: es =>
    (isFireEv e && (step cfg s e).1.stopDraining && !(step cfg s e).1.stopping && (step cfg s e).2.any isGroupReqOb) ||
      drainRequestFrom cfg (step cfg s e).1 es

def timerRequestDuringStopDrain (cfg : Cfg) (evs : List Ev) : Bool := drainRequestFrom cfg init evs

theorem not_bg_of_groupReq {o : Ob} (h : isGroupReqOb o = true) : bg o = false := by
  cases o <;> simp_all [isGroupReqOb, isJoinOb, isSyncOb, isHeartbeatOb, isLookupOb, bg]

/-- a step that is not a timer firing and ends in the drain of a `stop()` sends no group request -/
theorem step_drain_reqFree {s : St} (h : SInv s) (hd : DInv s) (hm : MInv s) (hc : CInv s) (cfg : Cfg) (e : Ev)
    (hnf : isFireEv e = false) (hsd : (step cfg s e).1.stopDraining = true) (hns : (step cfg s e).1.stopping = false) :
    ReqFree (step cfg s e).2 := by
  intro o ho
  cases hr : isGroupReqOb o with
  | false => rfl
  | true =>
    exfalso
    have hsig := mem_sig ho (not_bg_of_groupReq hr)
    rw [step_sig] at hsig
    -- a join is impossible at once
    have hnj : isJoinOb o = false := by
      cases hj : isJoinOb o with
      | false => rfl
      | true => have := step_join_sd hd cfg e o ho hj; rw [hsd] at this; cases this
    cases e with
    | start =>
      simp only [expectedSig] at hsig
      split at hsig
      · cases hsig
      · rename_i hx
        simp only [Bool.or_eq_true, not_or, Bool.not_eq_true] at hx
        have hst : s.stops = [] := (h.pristine_empty hx.1 hx.2).2.2.2.2.1
        have hsd' : s.stopDraining = true := by
          simp only [step, hx.1, hx.2, Bool.or_self, Bool.false_eq_true, if_false, joinAndSync_stopDraining'] at hsd
          exact hsd
        exact hc.sdstop hx.2 hsd' hst
    | stop => simp [expectedSig] at hsig
    | coordDone r =>
      cases r <;> simp only [expectedSig] at hsig
      · split at hsig
        · cases hsig
        · have hx := List.mem_singleton.mp hsig; subst hx
          simp [isGroupReqOb, isJoinOb, isSyncOb, isHeartbeatOb, isLookupOb] at hr
      · cases hsig
      · cases hsig
    | metaDone r =>
      cases r with
      | err e => simp [expectedSig] at hsig
      | ok =>
        simp only [expectedSig] at hsig
        repeat' split at hsig
        all_goals first
          | (have hx := List.mem_singleton.mp hsig; subst hx; simp [isJoinOb] at hnj)
          | cases hsig
    | joinDone r =>
      cases r with
      | err e => simp [expectedSig] at hsig
      | ok m g leader n =>
        simp only [expectedSig] at hsig
        split at hsig
        · cases hsig
        · rename_i hj
          split at hsig
          · cases hsig
          · rename_i hst
            have hj' : s.jpc = .join := by simpa using hj
            have hst' : s.stopping = false := by simpa using hst
            have hpre : s.stopDraining = false := hm.k hst' (Or.inl hj')
            have : (step cfg s (.joinDone (.ok m g leader n))).1.stopDraining = s.stopDraining := by
              simp only [step]
              split
              · rfl
              · simp only [abandonHb_eq, andThen_fst]
                split
                · rfl
                · split <;> rfl
            rw [this, hpre] at hsd; cases hsd
    | partsDone r =>
      cases r with
      | err e => simp [expectedSig] at hsig
      | ok =>
        simp only [expectedSig] at hsig
        split at hsig
        · rename_i n hj
          split at hsig
          · cases hsig
          · rename_i hst
            have hst' : s.stopping = false := by simpa using hst
            have hpre : s.stopDraining = false := hm.k hst' (Or.inr (Or.inl ⟨n, hj⟩))
            have : (step cfg s (.partsDone .ok)).1.stopDraining = s.stopDraining := by
              simp only [step, hj]
              split <;> rfl
            rw [this, hpre] at hsd; cases hsd
        · cases hsig
    | syncDone r =>
      cases r with
      | err e => simp [expectedSig] at hsig
      | ok asg =>
        simp only [expectedSig] at hsig
        repeat' split at hsig
        all_goals first
          | (unfold startObs at hsig
             simp only [List.mem_map] at hsig
             obtain ⟨x, _, rfl⟩ := hsig
             simp [isGroupReqOb, isJoinOb, isSyncOb, isHeartbeatOb, isLookupOb] at hr)
          | cases hsig
    | hbDone r => simp [expectedSig] at hsig
    | leaveDone r => simp [expectedSig] at hsig
    | consumerDown cid ok =>
      simp only [expectedSig] at hsig
      repeat' split at hsig
      all_goals first
        | (have hx := List.mem_singleton.mp hsig; subst hx; simp [isJoinOb] at hnj)
        | cases hsig
    | consumerErr cid e => simp [expectedSig] at hsig
    | consumerQuirk cid q => simp [expectedSig] at hsig
    | fire id hbNext => cases hnf
    | advance dt => simp [expectedSig] at hsig

theorem strictAfterStop_runFrom (cfg : Cfg) (evs : List Ev) :
    ∀ (s : St) (called : Bool), SInv s → DInv s → MInv s → CInv s → (called = true → s.stopDraining = true) →
      drainRequestFrom cfg s evs = false →
      strictAfterStopFrom (snap s) called (toMSteps (runFrom cfg s evs)) = true := by
  induction evs with
  | nil => intro s c _ _ _ _ _ _; rfl
  | cons e es ih =>
    intro s called h hd hm hcv hc hq
    simp only [drainRequestFrom, Bool.or_eq_false_iff] at hq
    simp only [runFrom, toMSteps, List.map_cons, strictAfterStopFrom]
    have hc' : (called || (isStopEv e && (snap s).started && !(snap s).stopping)) = true → (step cfg s e).1.stopDraining = true := by
      intro x
      rcases Bool.or_eq_true _ _ |>.mp x with a | a
      · exact step_sd_mono cfg s e (hc a)
      · simp only [Bool.and_eq_true, Bool.not_eq_true'] at a
        obtain ⟨⟨a1, a2⟩, a3⟩ := a
        cases e <;> first | exact stop_sets_sd cfg s a2 a3 | (cases a1)
    rw [Bool.and_eq_true]
    refine ⟨?_, ih _ _ (step_sinv h cfg e) (step_dinv hd h cfg e) (step_minv h hd hm cfg e) (step_cinv cfg s e h hd hcv) hc' hq.2⟩
    cases hx : (called || (isStopEv e && (snap s).started && !(snap s).stopping)) with
    | false => rfl
    | true =>
      have hsd := hc' hx
      have hfree : ReqFree (step cfg s e).2 := by
        cases hs : (step cfg s e).1.stopping with
        | true => exact step_afterStop h cfg e hs
        | false =>
          cases hf : isFireEv e with
          | false => exact step_drain_reqFree h hd hm hcv cfg e hf hsd hs
          | true =>
            have := hq.1
            rw [hf, hsd, hs] at this
            simp only [Bool.true_and, Bool.not_false] at this
            intro o ho
            cases hr : isGroupReqOb o with
            | false => rfl
            | true => rw [List.any_eq_false] at this; exact absurd hr (this o ho)
      have : (step cfg s e).2.any isGroupReqOb = false := by
        rw [List.any_eq_false]; intro o ho; simp [hfree o ho]
      simp [this]

/-- **the strict reading of "after stop only the leave" holds of every run in which no timer firing
    sends a request during the drain of a `stop()`** -/
theorem strictAfterStop_run (cfg : Cfg) (evs : List Ev) (hq : timerRequestDuringStopDrain cfg evs = false) :
    strictAfterStop (toMSteps (run cfg evs)) = true :=
  strictAfterStop_runFrom cfg evs init false sinv_init dinv_init minv_init cinv_init (fun h => by cases h) hq

end Afkak.Group
