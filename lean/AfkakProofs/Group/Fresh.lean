import AfkakProofs.Group.ObsNb
import AfkakProofs.Group.Fence
import AfkakProofs.Group.FencedTrace
import Afkak.Monitor.C17
/-!
# C17 a member the coordinator forgot joins afresh, on traces

Ghost: while the monitor's `fresh` flag is set (an UnknownMemberId / InvalidGroupId eviction was
processed and no join reply has succeeded since) the member id is empty.  Only a processed
successful join reply sets a member id; every join request quotes the current one.
-/
namespace Afkak.Group
open Afkak.Consts Afkak.Monitor.C17

/-- the helper never sets a member id -/
def MZ (s : St) (o : Out) : Prop := s.member = 0 → o.1.member = 0

theorem MZ_frame {s : St} {o : Out} (h : o.1.member = s.member) : MZ s o := fun x => by rw [h]; exact x
theorem MZ_andThen {s : St} {o : Out} {f : St → Out} (h1 : MZ s o) (h2 : ∀ s1, MZ s1 (f s1)) : MZ s (andThen o f) :=
  fun x => h2 o.1 (h1 x)

theorem rowEffects_mz (s : St) (row : RejoinRow) : MZ s (rowEffects s row) := by
  intro h
  unfold rowEffects
  simp only [andThen_fst]
  split
  · rfl
  · split <;> exact h

theorem rejoinWith_mz (cfg : Cfg) (s : St) (row : RejoinRow) : MZ s (rejoinWith cfg s row).1 := by
  unfold rejoinWith
  split
  · exact MZ_frame rfl
  · exact MZ_frame rfl
  · exact rowEffects_mz s row
  · exact MZ_andThen (rowEffects_mz s row) (fun _ => MZ_frame (scheduleRejoin_member' _ _ _))

theorem rejoinCore_mz (cfg : Cfg) (s : St) (e : GErr) : MZ s (rejoinCore cfg s e).1 := rejoinWith_mz _ _ _

theorem escapeCore_mz (cfg : Cfg) (s : St) (e : GErr) : MZ s (escapeCore cfg s e).1 := by
  unfold escapeCore
  simp only []
  split
  · exact fun x => rejoinCore_mz cfg { s with jpc := .idle, rejoinD := false } e x
  · exact MZ_frame rfl

theorem cancelJoin_mz (cfg : Cfg) (s : St) : MZ s (cancelJoin cfg s) := by
  unfold cancelJoin
  split
  · simp only []
    split
    · exact MZ_frame rfl
    · refine MZ_andThen (MZ_frame rfl) (fun s1 => ?_)
      split
      · exact escapeCore_mz _ _ _
      · exact MZ_frame rfl
      · exact MZ_frame rfl
    · exact MZ_frame rfl
    · exact MZ_frame rfl
    · exact MZ_frame rfl
    · exact MZ_andThen (MZ_frame rfl) (fun _ => rejoinCore_mz _ _ _)
    · exact MZ_andThen (MZ_frame rfl) (fun _ => escapeCore_mz _ _ _)
    · exact MZ_andThen (MZ_frame rfl) (fun _ => rejoinCore_mz _ _ _)
  · exact MZ_frame rfl

theorem finishStop_mz (cfg : Cfg) (s : St) (err : Option GErr) (user : Bool) : MZ s (finishStop cfg s err user) := by
  intro _; unfold finishStop; rfl

theorem stopCancelHb_mz (cfg : Cfg) (s : St) : MZ s (stopCancelHb cfg s) := by
  unfold stopCancelHb
  split
  · simp only []
    split
    · exact MZ_andThen (MZ_andThen (MZ_frame rfl) (fun _ => MZ_frame rfl)) (fun _ => rejoinCore_mz _ _ _)
    · exact MZ_frame rfl
  · exact MZ_frame rfl

theorem leaveOrFinish_mz (cfg : Cfg) (err : Option GErr) (user : Bool) (s : St) : MZ s (leaveOrFinish cfg err user s) := by
  unfold leaveOrFinish
  split
  · exact MZ_frame rfl
  · exact finishStop_mz _ _ _ _

theorem coordStop_mz (cfg : Cfg) (s : St) (err : Option GErr) (user : Bool) : MZ s (coordStop cfg s err user) := by
  unfold coordStop
  split
  · exact MZ_frame rfl
  · simp only []
    split
    · exact MZ_frame rfl
    · exact MZ_andThen (MZ_andThen (MZ_andThen (fun x => by rw [stopCancelDc_member']; exact x) (fun _ => stopCancelHb_mz _ _))
        (fun _ => MZ_frame (stopLooper_member' _))) (fun _ => leaveOrFinish_mz _ _ _ _)

theorem stopLoop_mz (cfg : Cfg) (s : St) (err : Option GErr) (user : Bool) : MZ s (stopLoop cfg s err user) := by
  unfold stopLoop
  split
  · exact coordStop_mz _ _ _ _
  · simp only []
    split
    · exact MZ_andThen (MZ_andThen (o := ((beginDrain s).1, (beginDrain s).2.1)) (MZ_frame rfl) (fun _ => MZ_frame (drainDone_member' _ _ _)))
        (fun _ => coordStop_mz _ _ _ _)
    · exact MZ_frame rfl

theorem stopCall_mz (cfg : Cfg) (s : St) (err : Option GErr) (user : Bool) : MZ s (stopCall cfg s err user) := by
  unfold stopCall
  intro x
  refine stopLoop_mz cfg _ err user ?_
  split <;> exact x

theorem userStop_mz (cfg : Cfg) (s : St) : MZ s (userStop cfg s) := by
  rcases userStop_cases cfg s with ⟨hu, _, _⟩ | hu <;> rw [hu]
  · exact MZ_frame rfl
  · exact stopCall_mz _ _ _ _

theorem rejoinAfterError_mz (cfg : Cfg) (s : St) (e : GErr) : MZ s (rejoinAfterError cfg s e) := by
  unfold rejoinAfterError
  simp only []
  split
  · exact MZ_andThen (rejoinCore_mz _ _ _) (fun _ => stopCall_mz _ _ _ _)
  · exact rejoinCore_mz _ _ _

theorem escape_mz (cfg : Cfg) (s : St) (e : GErr) : MZ s (escape cfg s e) := by
  unfold escape
  simp only []
  split
  · exact MZ_andThen (escapeCore_mz _ _ _) (fun _ => stopCall_mz _ _ _ _)
  · exact escapeCore_mz _ _ _

theorem forgets_row (st : Bool) (e : GErr) (h : forgetsMember e = true) :
    (rejoinRow st e).clearMember = true ∧ ((rejoinRow st e).act = .rejoin ∨ (rejoinRow st e).act = .effectsOnly) := by
  cases st <;> cases e <;> simp_all [forgetsMember] <;> decide

/-- an UnknownMemberId / InvalidGroupId error handed to `rejoin_after_error` clears the member id -/
theorem rejoinAfterError_forgets (cfg : Cfg) (s : St) (e : GErr) (h : forgetsMember e = true) :
    (rejoinAfterError cfg s e).1.member = 0 := by
  obtain ⟨hc, ha⟩ := forgets_row s.stopping e h
  have hre : ∀ s : St, (rowEffects s (rejoinRow s.stopping e)).1.member = 0 → True := fun _ _ => trivial
  have hrow : (rowEffects s (rejoinRow s.stopping e)).1.member = 0 := by
    unfold rowEffects; simp only [andThen_fst, hc, if_true]
  unfold rejoinAfterError rejoinCore
  have hfl : (rejoinWith cfg s (rejoinRow s.stopping e)).2 = false := by
    cases hx : (rejoinWith cfg s (rejoinRow s.stopping e)).2
    · rfl
    · have := (rejoinWith_flag cfg s _).mp hx
      rcases ha with a | a <;> (rw [a] at this; cases this)
  simp only [hfl, Bool.false_eq_true, if_false]
  unfold rejoinWith
  rcases ha with a | a
  · rw [a]; simp only [andThen_fst, scheduleRejoin_member']; exact hrow
  · rw [a]; exact hrow


/-- every join request quotes the member id the member has before the step -/
theorem join_quotes (cfg : Cfg) (s : St) (e : Ev) (m : Nat) (ho : Ob.join m ∈ (step cfg s e).2) : m = s.member := by
  have hx := mem_sig ho (not_bg_of_join (o := .join m) rfl)
  rw [step_sig] at hx
  cases e with
  | syncDone r =>
    cases r with
    | err e => simp [expectedSig] at hx
    | ok asg =>
      simp only [expectedSig] at hx
      split at hx
      · cases hx
      · split at hx
        · cases hx
        · unfold startObs at hx
          obtain ⟨y, _, hy⟩ := List.mem_map.mp hx
          cases hy
  | fire id n =>
    simp only [expectedSig, lookupSig] at hx
    repeat' split at hx
    all_goals (first | (simp at hx; done) | (simp at hx; subst hx; rfl))
  | metaDone r =>
    cases r <;> simp only [expectedSig, lookupSig] at hx
    · repeat' split at hx
      all_goals (first | (simp at hx; done) | (simp at hx; subst hx; rfl))
    · cases hx
  | coordDone r =>
    cases r <;> simp only [expectedSig, lookupSig] at hx
    · repeat' split at hx
      all_goals (first | (simp at hx; done) | (simp at hx; subst hx; rfl))
    · cases hx
    · cases hx
  | joinDone r =>
    cases r <;> simp only [expectedSig, lookupSig] at hx
    · repeat' split at hx
      all_goals (first | (simp at hx; done) | (simp at hx; subst hx; rfl))
    · cases hx
  | partsDone r =>
    cases r <;> simp only [expectedSig, lookupSig] at hx
    · repeat' split at hx
      all_goals (first | (simp at hx; done) | (simp at hx; subst hx; rfl))
    · cases hx
  | consumerDown cid ok =>
    simp only [expectedSig, lookupSig] at hx
    repeat' split at hx
    all_goals (first | (simp at hx; done) | (simp at hx; subst hx; rfl))
  | start =>
    simp only [expectedSig, lookupSig] at hx
    repeat' split at hx
    all_goals (first | (simp at hx; done) | (simp at hx; subst hx; rfl))
  | stop => simp [expectedSig] at hx
  | hbDone r => simp [expectedSig] at hx
  | leaveDone r => simp [expectedSig] at hx
  | consumerErr cid e => simp [expectedSig] at hx
  | consumerQuirk cid q => simp [expectedSig] at hx
  | advance dt => simp [expectedSig] at hx

/-- nothing but a processed successful join reply sets a member id -/
theorem step_mz (cfg : Cfg) (s : St) (e : Ev)
    (hne : ∀ m g l n, e = .joinDone (.ok m g l n) → (step cfg s e).2 = [.badOp]) (h0 : s.member = 0) :
    (step cfg s e).1.member = 0 := by
  have via : ∀ {s1 : St} {o : Out}, MZ s1 o → s1.member = s.member → o.1.member = 0 := fun hm he => hm (by rw [he]; exact h0)
  cases e with
  | start =>
    simp only [step]; split
    · exact h0
    · rw [joinAndSync_member']; exact h0
  | stop => exact via (userStop_mz cfg s) rfl
  | coordDone r =>
    simp only [step]; split
    · exact h0
    · cases r with
      | ok => exact h0
      | none => exact h0
      | err e =>
        simp only []
        split
        · exact via (escape_mz cfg s e) rfl
        · exact h0
        · exact h0
  | metaDone r =>
    simp only [step]; split
    · exact h0
    · cases r with
      | err e => exact via (escape_mz cfg s e) rfl
      | ok =>
        simp only []
        split
        · exact h0
        · rw [prepare_member']; exact h0
  | joinDone r =>
    cases r with
    | err e =>
      simp only [step]; split
      · exact h0
      · exact via (MZ_andThen (rejoinAfterError_mz cfg { s with jpc := .idle } e) (fun _ => MZ_frame rfl)) rfl
    | ok m g l n =>
      by_cases hj : (s.jpc != .join) = true
      · simp only [step, hj, if_true]; exact h0
      · exfalso
        exact joinOk_ne_bad cfg s m g l n hj (hne m g l n rfl)
  | partsDone r =>
    simp only [step]; split
    · cases r with
      | err e => exact via (escape_mz cfg s e) rfl
      | ok => simp only []; split <;> exact h0
    · exact h0
  | syncDone r =>
    simp only [step]; split
    · exact h0
    · cases r with
      | err e => exact via (MZ_andThen (rejoinAfterError_mz cfg { s with jpc := .idle } e) (fun _ => MZ_frame rfl)) rfl
      | ok a =>
        simp only []
        split
        · exact h0
        · simp only [andThen_fst]
          unfold startConsumers
          simp only []
          rw [resetHeartbeat_member']; exact h0
  | hbDone r =>
    simp only [step]; split
    · exact h0
    · cases r with
      | ok => exact h0
      | err e =>
        simp only []
        split
        · exact via (MZ_andThen (MZ_frame (s := { s with hbInFlight := false }) rfl) (fun _ => rejoinAfterError_mz _ _ _)) rfl
        · exact h0
  | leaveDone r =>
    simp only [step]; split
    · exact h0
    · exact finishStop_mz cfg _ _ _ (by cases r <;> first | rfl | exact h0)
  | consumerDown cid ok =>
    simp only [step]; split
    · unfold consumerDown
      simp only []
      split
      · split
        · exact h0
        · simp only [andThen_fst, afterPrepare_member', drainDone_member']; exact h0
      · split
        · exact h0
        · split
          · exact h0
          · exact via (MZ_andThen (MZ_frame (drainDone_member' _ _ _)) (fun _ => stopLoop_mz _ _ _ _)) rfl
    · exact h0
  | consumerErr cid e =>
    simp only [step]; split
    · split
      · exact h0
      · exact via (rejoinAfterError_mz cfg _ e) rfl
    · exact h0
  | consumerQuirk cid q => simp only [step]; split <;> exact h0
  | fire id hbNext =>
    simp only [step]
    split
    · exact h0
    split
    · exact h0
    · split
      · exact h0
      · split
        · rw [joinAndSync_member']; exact h0
        · rw [joinAndSync_member']; exact h0
        · simp only [andThen_fst]
          split <;> split <;> exact h0
  | advance dt => simp only [step]; split <;> exact h0

/-- a processed UnknownMemberId / InvalidGroupId on a join / sync / heartbeat reply or from a
    consumer leaves the member id empty -/
theorem step_forgets {s : St} (h : SInv s) (cfg : Cfg) (e : Ev) (g : GErr) (he : errorOf e = some (.request, g))
    (hf : forgetsMember g = true) (hp : (step cfg s e).2 ≠ [.badOp]) : (step cfg s e).1.member = 0 := by
  cases e with
  | joinDone r =>
    cases r with
    | ok m g1 l n => cases he
    | err e1 =>
      simp only [errorOf, Option.some.injEq, Prod.mk.injEq, true_and] at he; subst he
      revert hp; simp only [step]; split
      · intro hp; exact absurd rfl hp
      · intro _; simp only [andThen_fst]; exact rejoinAfterError_forgets cfg _ e1 hf
  | syncDone r =>
    cases r with
    | ok a => cases he
    | err e1 =>
      simp only [errorOf, Option.some.injEq, Prod.mk.injEq, true_and] at he; subst he
      revert hp; simp only [step]; split
      · intro hp; exact absurd rfl hp
      · intro _; simp only [andThen_fst]; exact rejoinAfterError_forgets cfg _ e1 hf
  | hbDone r =>
    cases r with
    | ok => cases he
    | err e1 =>
      simp only [errorOf, Option.some.injEq, Prod.mk.injEq, true_and] at he; subst he
      revert hp; simp only [step]; split
      · intro hp; exact absurd rfl hp
      · rename_i hfl
        split
        · intro _; simp only [andThen_fst]; exact rejoinAfterError_forgets cfg _ e1 hf
        · rename_i hr
          exfalso
          have := (h.hb_timer (by simpa using hr)).2
          rw [this] at hfl; simp at hfl
  | consumerErr cid e1 =>
    simp only [errorOf, Option.some.injEq, Prod.mk.injEq, true_and] at he; subst he
    revert hp; simp only [step]; split
    · split
      · rename_i hc
        simp only [Bool.and_eq_true, decide_eq_true_eq] at hc
        rw [hc.1] at hf; cases hf
      · intro _; exact rejoinAfterError_forgets cfg _ e1 hf
    · intro hp; exact absurd rfl hp
  | start => cases he
  | stop => cases he
  | coordDone r => cases r <;> cases he
  | metaDone r => cases r <;> cases he
  | partsDone r => cases r <;> cases he
  | leaveDone r => cases he
  | consumerDown c o => cases he
  | consumerQuirk c q => cases he
  | fire i n => cases he
  | advance d => cases he

def fresh0f (fresh : Bool) (e : Ev) (obs : List Ob) : Bool :=
  match e with
  | .joinDone (.ok ..) => if obs != [.badOp] then false else fresh
  | _ => fresh

def fresh1f (fresh0 : Bool) (e : Ev) (obs : List Ob) : Bool :=
  match errorOf e with
  | some (.request, g) => if obs != [.badOp] && forgetsMember g then true else fresh0
  | _ => fresh0

theorem freshFrom_cons (fresh : Bool) (m : MStep) (ms : List MStep) :
    freshFrom fresh (m :: ms) =
      ((!fresh0f fresh m.ev m.obs || m.obs.all fun | .join mem => mem == 0 | _ => true) &&
        freshFrom (fresh1f (fresh0f fresh m.ev m.obs) m.ev m.obs) ms) := by
  cases m with
  | mk ev obs sn =>
    cases ev <;> (try rfl)
    all_goals (rename_i r; cases r <;> rfl)

theorem fresh0f_le (fresh : Bool) (e : Ev) (obs : List Ob) (h : fresh0f fresh e obs = true) : fresh = true := by
  unfold fresh0f at h
  split at h
  · split at h
    · cases h
    · exact h
  · exact h

theorem fresh_runFrom (cfg : Cfg) (evs : List Ev) :
    ∀ (s : St) (fresh : Bool), SInv s → (fresh = true → s.member = 0) →
      freshFrom fresh (toMSteps (runFrom cfg s evs)) = true := by
  induction evs with
  | nil => intro s f _ _; rfl
  | cons e es ih =>
    intro s fresh h hf
    simp only [runFrom, toMSteps, List.map_cons]
    rw [freshFrom_cons]
    simp only [Bool.and_eq_true, Bool.or_eq_true, Bool.not_eq_eq_eq_not, Bool.not_true]
    constructor
    · by_cases h0 : fresh0f fresh e (step cfg s e).2 = true
      · right
        have hm := hf (fresh0f_le _ _ _ h0)
        rw [List.all_eq_true]
        intro x hx
        cases x <;> try rfl
        rename_i mem
        have := join_quotes cfg s e mem hx
        show (mem == 0) = true
        rw [this, hm]; rfl
      · left; simpa using h0
    · refine ih _ _ (step_sinv h cfg e) (fun h1 => ?_)
      unfold fresh1f at h1
      have other : fresh0f fresh e (step cfg s e).2 = true → (step cfg s e).1.member = 0 := by
        intro h0
        refine step_mz cfg s e (fun m g l n he => ?_) (hf (fresh0f_le _ _ _ h0))
        subst he
        unfold fresh0f at h0
        simp only [] at h0
        split at h0
        · cases h0
        · rename_i hb; simpa using hb
      split at h1
      · rename_i g he
        split at h1
        · rename_i hc
          simp only [Bool.and_eq_true, bne_iff_ne, ne_eq] at hc
          exact step_forgets h cfg e g he hc.2 hc.1
        · exact other h1
      · exact other h1

/-- **C17 fresh after eviction**: on every run, after a processed UnknownMemberId / InvalidGroupId
    every join request observed before the next processed successful join reply quotes the empty
    member id. -/
theorem freshAfterEviction_run (cfg : Cfg) (evs : List Ev) : freshAfterEviction (toMSteps (run cfg evs)) = true :=
  fresh_runFrom cfg evs init false sinv_init (fun h => by cases h)

end Afkak.Group
