import AfkakProofs.Group.Drain
import AfkakProofs.Group.Fence
/-!
# `DInv` is preserved by every step; a join is issued only when no consumer is running or draining
-/
namespace Afkak.Group
open Afkak.Consts Afkak.Monitor.C16

/-- changing fields that `DInv` ignores, and moving between coroutine positions other than the
    prepare drain -/
theorem dinv_move {s s' : St} (h : DInv s) (hj : s.jpc ≠ .prepare) (hj' : s'.jpc ≠ .prepare)
    (e0 : s'.cons = s.cons) (e1 : s'.stops = s.stops) (e2 : s'.stopDraining = s.stopDraining) (e3 : s.stopping = true → s'.stopping = true) : DInv s' :=
  h.transfer (NoNewDrain.of_cons e0) e1 e2 e3 ⟨fun x => absurd x hj', fun x => absurd x hj⟩ (fun x => absurd x hj)

theorem joinAndSync_dinv {s : St} (h : DInv s) (hrd : s.rejoinD = false → s.jpc = .idle) : DInv (joinAndSync s).1 := by
  unfold joinAndSync
  simp only []
  split
  · exact dinv_irrelevant h rfl rfl rfl rfl rfl rfl
  · split
    · exact dinv_irrelevant h rfl rfl rfl rfl rfl rfl
    · rename_i hd
      have : s.jpc = .idle := hrd (by simpa using hd)
      exact dinv_move h (by rw [this]; decide) (by simp) rfl rfl rfl (fun x => x)

theorem rd_np {s : St} (hs : SInv s) : s.rejoinD = false → s.jpc ≠ .prepare := fun x => by rw [rd_idle hs x]; decide

theorem step_dinv {s : St} (h : DInv s) (hs : SInv s) (cfg : Cfg) (e : Ev) : DInv (step cfg s e).1 := by
  have hw := hs.toWInv
  have hri := rd_idle hs
  have hrn := rd_np hs
  cases e with
  | start =>
    simp only [step]; split
    · exact h
    · exact joinAndSync_dinv (s := { s with started := true, startResult := none }) (dinv_irrelevant h rfl rfl rfl rfl rfl rfl) hri
  | stop =>
    simp only [step]
    rcases userStop_cases cfg s with ⟨hu, _, _⟩ | hu <;> rw [hu]
    · exact h
    · exact stopCall_dinv h hs cfg none true
  | coordDone r =>
    simp only [step]; split
    · exact h
    · rename_i hj
      have hj' : s.jpc = .coordLookup := by simpa using hj
      have hnp : s.jpc ≠ .prepare := by rw [hj']; decide
      cases r with
      | ok => exact dinv_move h hnp (by simp) rfl rfl rfl (fun x => x)
      | none => exact dinv_move h hnp (by simp) rfl rfl rfl (fun x => x)
      | err e =>
        simp only []
        split
        · exact escape_dinv h hw hnp cfg e
        · exact dinv_move h hnp (by simp) rfl rfl rfl (fun x => x)
        · exact dinv_move h hnp (by simp) rfl rfl rfl (fun x => x)
  | metaDone r =>
    simp only [step]; split
    · exact h
    · rename_i hj
      have hj' : s.jpc = .metaLoad := by simpa using hj
      have hnp : s.jpc ≠ .prepare := by rw [hj']; decide
      cases r with
      | err e => exact escape_dinv h hw hnp cfg e
      | ok =>
        simp only []
        split
        · exact dinv_move h hnp (by simp) rfl rfl rfl (fun x => x)
        · exact prepare_dinv (s := { s with coordBroker := true }) (dinv_irrelevant h rfl rfl rfl rfl rfl rfl) hnp
  | joinDone r =>
    simp only [step]; split
    · exact h
    · rename_i hj
      have hj' : s.jpc = .join := by simpa using hj
      have hnp : s.jpc ≠ .prepare := by rw [hj']; decide
      cases r with
      | err e =>
        have h0 : DInv { s with jpc := .idle } := dinv_move h hnp (by simp) rfl rfl rfl (fun x => x)
        have w0 : WInv { s with jpc := .idle } := by
          by_cases hp : Live s
          · exact winv_upd hw hp s.rejoinD .idle s.prep s.coordBroker s.now
          · have h1 : s.started = false := by unfold Live at hp; cases hx : s.started <;> simp_all
            have h2 : s.stopping = false := by unfold Live at hp; cases hx : s.stopping <;> simp_all
            have := (hs.pristine h1 h2).2.2; rw [this] at hj'; cases hj'
        exact dinv_irrelevant (rejoinAfterError_dinv h0 w0 (fun _ => by simp) cfg e) rfl rfl rfl rfl rfl rfl
      | ok m g l n =>
        simp only [abandonHb_eq, andThen_fst]
        split
        · exact dinv_move h hnp (by simp) rfl rfl rfl (fun x => x)
        · split
          · exact dinv_move h hnp (by simp) rfl rfl rfl (fun x => x)
          · exact dinv_move h hnp (by simp) rfl rfl rfl (fun x => x)
  | partsDone r =>
    simp only [step]; split
    · rename_i n hj
      have hnp : s.jpc ≠ .prepare := by rw [hj]; simp
      cases r with
      | err e => exact escape_dinv h hw hnp cfg e
      | ok =>
        simp only []
        split
        · exact dinv_move h hnp (by simp) rfl rfl rfl (fun x => x)
        · exact dinv_move h hnp (by simp) rfl rfl rfl (fun x => x)
    · exact h
  | syncDone r =>
    simp only [step]; split
    · exact h
    · rename_i hj
      have hj' : s.jpc = .sync := by simpa using hj
      have hnp : s.jpc ≠ .prepare := by rw [hj']; decide
      cases r with
      | err e =>
        have h0 : DInv { s with jpc := .idle } := dinv_move h hnp (by simp) rfl rfl rfl (fun x => x)
        have w0 : WInv { s with jpc := .idle } := by
          by_cases hp : Live s
          · exact winv_upd hw hp s.rejoinD .idle s.prep s.coordBroker s.now
          · have h1 : s.started = false := by unfold Live at hp; cases hx : s.started <;> simp_all
            have h2 : s.stopping = false := by unfold Live at hp; cases hx : s.stopping <;> simp_all
            have := (hs.pristine h1 h2).2.2; rw [this] at hj'; cases hj'
        exact dinv_irrelevant (rejoinAfterError_dinv h0 w0 (fun _ => by simp) cfg e) rfl rfl rfl rfl rfl rfl
      | ok asg =>
        simp only []
        split
        · exact dinv_move h hnp (by simp) rfl rfl rfl (fun x => x)
        · simp only [andThen_fst]
          unfold startConsumers
          refine h.transfer ?_ (by simp) (by simp) (fun x => by simpa using x) (by simp [hj']) (fun x => absurd x hnp)
          intro c' hc' hp
          simp only [] at hc'
          rcases List.mem_append.mp hc' with x | x
          · exact ⟨c', by simpa using x, rfl, hp⟩
          · obtain ⟨_, _, rfl⟩ := List.mem_map.mp x
            cases hp
  | hbDone r =>
    simp only [step]; split
    · exact h
    · have h0 : DInv { s with hbInFlight := false } := dinv_irrelevant h rfl rfl rfl rfl rfl rfl
      cases r with
      | ok => exact h0
      | err e =>
        simp only []
        split
        · simp only [andThen_fst]
          have h1 : DInv (hbStop { s with hbInFlight := false }).1 := dinv_irrelevant h0 rfl rfl rfl rfl rfl rfl
          have w0 := winv_hbInFlight hw false (fun x => by cases x)
          exact rejoinAfterError_dinv h1 (hbStop_winv w0 rfl) hrn cfg e
        · exact h0
  | leaveDone r =>
    simp only [step]; split
    · exact h
    · cases r with
      | ok => exact finishStop_dinv (s := { s with member := 0, gen := none }) (dinv_irrelevant h rfl rfl rfl rfl rfl rfl) hrn cfg _ _
      | err e => exact finishStop_dinv h hrn cfg _ _
  | consumerDown cid ok =>
    simp only [step]; split
    · exact consumerDown_dinv h hs cfg cid ok
    · exact h
  | consumerErr cid e =>
    simp only [step]; split
    · let f : Con → Con := fun c => if c.cid = cid then { c with startFired := true } else c
      have hf : ∀ c, (f c).held = c.held ∧ ((f c).phase = .running ↔ c.phase = .running) ∧ (f c).gen = c.gen ∧
          (f c).member = c.member ∧ (f c).topic = c.topic ∧ (f c).part = c.part := by
        intro c; simp only [f]; split <;> simp
      have hn : NoNewDrain s { s with cons := s.cons.map f } := by
        intro c' hc' hp
        obtain ⟨c, hc, rfl⟩ := List.mem_map.mp hc'
        simp only [f] at hp ⊢
        split at hp
        · exact ⟨c, hc, by simp_all, by simpa using hp⟩
        · exact ⟨c, hc, by simp_all, hp⟩
      have h1 : DInv { s with cons := s.cons.map f } := h.transfer hn rfl rfl (fun x => x) Iff.rfl (fun _ => rfl)
      split
      · exact h1
      · exact rejoinAfterError_dinv h1 (winv_cons_map hw f hf) hrn cfg e
    · exact h
  | consumerQuirk cid q =>
    simp only [step]; split
    · refine h.transfer ?_ rfl rfl (fun x => x) Iff.rfl (fun _ => rfl)
      intro c' hc' hp
      obtain ⟨c, hc, rfl⟩ := List.mem_map.mp hc'
      split at hp
      · rename_i hq; simp only [Bool.and_eq_true, beq_iff_eq] at hq; rw [hq.2] at hp; cases hp
      · rename_i hq; exact ⟨c, hc, by simp [hq], hp⟩
    · exact h
  | fire id hbNext =>
    simp only [step]
    split
    · exact h
    split
    · exact h
    · split
      · exact h
      · have h1 : DInv { s with timers := s.timers.filter (·.id != id) } := dinv_irrelevant h rfl rfl rfl rfl rfl rfl
        split
        · exact joinAndSync_dinv h1 hri
        · exact joinAndSync_dinv h1 hri
        · simp only [andThen_fst]
          split <;> split <;> exact dinv_irrelevant h rfl rfl rfl rfl rfl rfl
  | advance dt =>
    simp only [step]; split
    · exact h
    · exact dinv_irrelevant h rfl rfl rfl rfl rfl rfl

end Afkak.Group

namespace Afkak.Group
open Afkak.Consts Afkak.Monitor.C16

/-- a step that issues a join does so with `stop()` not draining: the join comes either from the
    `on_join_prepare` of a metadata reply (which parks the coroutine when `_stop_draining`), or from
    the last shutdown Deferred of the prepare drain of a member that is not stopping -/
theorem step_join_sd {s : St} (hd : DInv s) (cfg : Cfg) (e : Ev) (o : Ob) (ho : o ∈ (step cfg s e).2) (hj : isJoinOb o = true) :
    (step cfg s e).1.stopDraining = false := by
  have hsig := mem_sig ho (not_bg_of_join hj)
  rw [step_sig] at hsig
  cases e with
  | metaDone r =>
    cases r with
    | err e => simp [expectedSig] at hsig
    | ok =>
      simp only [expectedSig] at hsig
      split at hsig
      · cases hsig
      · split at hsig
        · cases hsig
        · split at hsig
          · cases hsig
          · rename_i h1 h2 h3
            have e : step cfg s (.metaDone .ok) = prepare { s with coordBroker := true } := by simp [step, h1, h2]
            rw [e, prepare_stopDraining']
            simpa using h3
  | consumerDown cid ok =>
    simp only [expectedSig] at hsig
    split at hsig
    · split at hsig
      · split at hsig
        · cases hsig
        · split at hsig
          · cases hsig
          · rename_i h1 h2 h3 h4
            simp only [Bool.and_eq_true, decide_eq_true_eq] at h2
            simp only [step, h1, if_true, consumerDown_stopDraining']
            rcases hd.pflag h2.1 with x | x
            · exact x
            · exact absurd x h4
      · cases hsig
    · cases hsig
  | start =>
    simp only [expectedSig, lookupSig] at hsig
    split at hsig
    · cases hsig
    · split at hsig
      · simp at hsig; subst hsig; cases hj
      · cases hsig
  | stop => simp [expectedSig] at hsig
  | coordDone r =>
    cases r <;> simp only [expectedSig] at hsig
    · split at hsig
      · cases hsig
      · simp at hsig; subst hsig; cases hj
    · cases hsig
    · cases hsig
  | joinDone r =>
    cases r with
    | err e => simp [expectedSig] at hsig
    | ok m g l n =>
      simp only [expectedSig] at hsig
      split at hsig
      · cases hsig
      · split at hsig
        · cases hsig
        · split at hsig <;> (simp at hsig; subst hsig; cases hj)
  | partsDone r =>
    cases r with
    | err e => simp [expectedSig] at hsig
    | ok =>
      simp only [expectedSig] at hsig
      split at hsig
      · split at hsig
        · cases hsig
        · simp at hsig; subst hsig; cases hj
      · cases hsig
  | syncDone r =>
    cases r with
    | err e => simp [expectedSig] at hsig
    | ok asg =>
      simp only [expectedSig] at hsig
      split at hsig
      · cases hsig
      · split at hsig
        · cases hsig
        · unfold startObs at hsig
          obtain ⟨x, _, rfl⟩ := List.mem_map.mp hsig
          cases hj
  | hbDone r => simp [expectedSig] at hsig
  | leaveDone r => simp [expectedSig] at hsig
  | consumerErr cid e => simp [expectedSig] at hsig
  | consumerQuirk cid q => simp [expectedSig] at hsig
  | fire id hbNext =>
    have : ∀ x ∈ expectedSig s (.fire id hbNext), isJoinOb x = false := by
      intro x hx
      simp only [expectedSig, lookupSig] at hx
      split at hx
      · cases hx
      · split at hx
        · cases hx
        · split at hx
          · cases hx
          · split at hx
            · split at hx
              · cases hx
              · simp at hx; subst hx; rfl
            · split at hx
              · simp at hx; subst hx; rfl
              · cases hx
    rw [this o hsig] at hj; cases hj
  | advance dt => simp [expectedSig] at hsig

/-- in a state waiting for the join reply with `stop()` not draining, no consumer is running or
    draining -/
theorem noLive_of_join {s : St} (h : SInv s) (hd : DInv s) (hj : s.jpc = .join) (hsd : s.stopDraining = false) :
    (snap s).cons.all (fun c => !isLive c) = true := by
  have hr := noRunning_of_noheld h (h.mid_noheld (by simp [midJoin, hj]))
  have hst : s.stops = [] := by
    cases hx : s.stops with
    | nil => rfl
    | cons a b => have := hd.sflag (by rw [hx]; simp); rw [hsd] at this; cases this
  rw [List.all_eq_true] at hr ⊢
  intro c hc
  have hr' := hr c hc
  have hc' : c ∈ s.cons := by simpa [snap] using hc
  simp only [isRunning, isLive, Bool.not_eq_eq_eq_not, Bool.not_true, beq_eq_false_iff_ne, ne_eq, bne_eq_false_iff_eq] at hr' ⊢
  cases hp : c.phase with
  | running => exact absurd hp hr'
  | stopped => rfl
  | draining =>
    rcases hd.dw c hc' hp with ⟨x, _⟩ | ⟨co, hco, _⟩
    · rw [hj] at x; cases x
    · rw [hst] at hco; cases hco

theorem all_runFrom_d (cfg : Cfg) (P : MStep → Bool)
    (hstep : ∀ s, SInv s → DInv s → ∀ e, P ⟨e, (step cfg s e).2, snap (step cfg s e).1⟩ = true) (evs : List Ev) :
    ∀ s, SInv s → DInv s → (toMSteps (runFrom cfg s evs)).all P = true := by
  induction evs with
  | nil => intro s _ _; rfl
  | cons e es ih =>
    intro s h hd
    simp only [runFrom, toMSteps, List.map_cons, List.all_cons, Bool.and_eq_true]
    exact ⟨hstep s h hd e, ih _ (step_sinv h cfg e) (step_dinv hd h cfg e)⟩

/-- **C16 join-after-drain, full strength**: on every run a JoinGroup request is observed only
    when no consumer is running or draining. -/
theorem joinAfterDrain_run (cfg : Cfg) (evs : List Ev) : joinAfterDrain (toMSteps (run cfg evs)) = true := by
  refine all_runFrom_d cfg _ (fun s h hd e => ?_) evs init sinv_init dinv_init
  unfold joinAfterDrainStep
  simp only [Bool.or_eq_true, Bool.not_eq_eq_eq_not, Bool.not_true]
  by_cases hj : (step cfg s e).2.any isJoinOb = true
  · right
    obtain ⟨o, ho, hjo⟩ := List.any_eq_true.mp hj
    exact noLive_of_join (step_sinv h cfg e) (step_dinv hd h cfg e) (step_join_post cfg s e o ho hjo) (step_join_sd hd cfg e o ho hjo)
  · left; simpa using hj

end Afkak.Group
