import AfkakProofs.Group.ComposedIds
import AfkakProofs.Group.ComposedStopped
/-!
# Generation fencing end to end (`composedFenced`)

Ghost invariant `FInv s st` between the product state and the monitor state: every fenced cid has
been handed out (`< s.nextCid`) and all its records are stopped; every known cid has been handed out.
A step that sends a JoinGroup leaves every record stopped (`joinAfterDrain`, per step); any other
step keeps stopped records stopped (`step_cont`) and gives new records fresh cids.
-/
namespace Afkak.GroupCompose
open Afkak.Group Afkak.Consts

structure FInv (s : St) (st : MSt) : Prop where
  flt : ∀ cid ∈ st.fenced, cid < s.nextCid
  fstop : ∀ cid ∈ st.fenced, ∀ c ∈ s.cons, c.cid = cid → c.phase = .stopped
  klt : ∀ k ∈ st.known, k.1 < s.nextCid

theorem finv_init : FInv init {} := by
  constructor <;> intro x hx <;> cases hx

/-- a step that sends a JoinGroup request leaves no consumer running or draining -/
theorem step_join_allstopped {s : St} (h : SInv s) (hd : DInv s) (cfg : Cfg) (e : Ev)
    (hj : (step cfg s e).2.any isJoinOb = true) : ∀ c ∈ (step cfg s e).1.cons, c.phase = .stopped := by
  obtain ⟨o, ho, hjo⟩ := List.any_eq_true.mp hj
  rw [isJoinOb_eq] at hjo
  have hl := noLive_of_join (step_sinv h cfg e) (step_dinv hd h cfg e) (step_join_post cfg s e o ho hjo) (step_join_sd hd cfg e o ho hjo)
  rw [List.all_eq_true] at hl
  intro c hc
  have := hl c (by simpa [snap] using hc)
  simpa [Afkak.Monitor.C16.isLive] using this

theorem nextOf_grp (cfg : Cfg) (s : St) (st : MSt) (e : Ev) : nextOf cfg s st (.grp e) =
    { known := st.known ++ startsOf (step cfg s e).2,
      fenced := if (step cfg s e).2.any isJoinOb = true then (st.known ++ startsOf (step cfg s e).2).map (·.1) else st.fenced } := rfl

theorem finv_grp {s : St} {st : MSt} (hf : FInv s st) (h : SInv s) (hd : DInv s) (cfg : Cfg) (e : Ev) :
    FInv (step cfg s e).1 (nextOf cfg s st (.grp e)) := by
  have hle := step_nextCid_le cfg s e
  have hk' : ∀ k ∈ st.known ++ startsOf (step cfg s e).2, k.1 < (step cfg s e).1.nextCid := by
    intro k hk
    rcases List.mem_append.mp hk with x | x
    · exact Nat.lt_of_lt_of_le (hf.klt k x) hle
    · exact (step_starts_range cfg s e k x).2
  rw [nextOf_grp]
  by_cases hj : (step cfg s e).2.any isJoinOb = true
  · rw [if_pos hj]
    have hall := step_join_allstopped h hd cfg e hj
    refine ⟨?_, ?_, hk'⟩
    · intro cid hc
      obtain ⟨k, hk, rfl⟩ := List.mem_map.mp hc
      exact hk' k hk
    · intro cid _ c hc _
      exact hall c hc
  · rw [if_neg hj]
    refine ⟨fun cid hc => Nat.lt_of_lt_of_le (hf.flt cid hc) hle, ?_, hk'⟩
    intro cid hcid c' hc' ec
    rcases step_cont cfg s e (allHeldRun_of_sinv h) c' hc' with ⟨c, hc, e1, e2⟩ | hnew
    · exact e2 (hf.fstop cid hcid c hc (e1.trans ec))
    · have := hf.flt cid hcid
      omega

theorem finv_step {s : St} {st : MSt} (hf : FInv s st) (h : SInv s) (hd : DInv s) (cfg : Cfg) (e : PEv) :
    FInv (pstep cfg s e).1 (nextOf cfg s st e) := by
  cases e with
  | grp e => exact finv_grp hf h hd cfg e
  | conFetch cid =>
    have : nextOf cfg s st (.conFetch cid) = st := by simp [nextOf, next, pstep, startsOf]
    rw [this]; exact hf
  | conCommit cid =>
    have : nextOf cfg s st (.conCommit cid) = st := by simp [nextOf, next, pstep, startsOf]
    rw [this]; exact hf

/-- **generation fencing end to end**: on every product run no fetch / commit request comes from a
    consumer that was started before the member's latest JoinGroup request -/
theorem composedFenced_run (cfg : Cfg) (evs : List PEv) : composedFenced (prun cfg evs) = true := by
  unfold composedFenced prun
  refine checkFrom_prunFrom cfg _ FInv (fun s st e h hd hf => ⟨fun r hr => ?_, finv_step hf h hd cfg e⟩) evs init {}
    sinv_init dinv_init finv_init
  obtain ⟨h1, h2⟩ := pstep_req_live cfg s e r hr
  cases r with
  | refused => rfl
  | fetch cid =>
    obtain ⟨c, hc, ec, hp⟩ := h1 cid rfl
    simp only [fencedOk, List.contains_eq_mem, Bool.not_eq_eq_eq_not, Bool.not_true, decide_eq_false_iff_not]
    exact fun hm => hp (hf.fstop cid hm c hc ec)
  | commit cid g m =>
    obtain ⟨c, hc, ec, hp, _⟩ := h2 cid g m rfl
    simp only [fencedOk, List.contains_eq_mem, Bool.not_eq_eq_eq_not, Bool.not_true, decide_eq_false_iff_not]
    exact fun hm => hp (hf.fstop cid hm c hc ec)

end Afkak.GroupCompose
