import AfkakProofs.Group.Inv
/-!
# `SInv` is preserved by every step
-/
namespace Afkak.Group
open Afkak.Consts

theorem sinv_init : SInv init := by
  refine { stop_needed := ?_, hb_timer := ?_, timer_lt := ?_, timer_uniq := ?_, dc_active := ?_, held_running := ?_,
           held_cur := ?_, stop_noheld := ?_, leave_stop := ?_, start_res := ?_, pristine := ?_, rd_jpc := ?_,
           jpc_needed := ?_, stable_hb := ?_, mid_noheld := ?_, hb_has := ?_, pristine_empty := ?_ } <;> simp [init, NoHeld]

/-- the member has been started at some point (the state is not the pristine one) -/
def Live (s : St) : Prop := s.started = true ∨ s.stopping = true

/-- rebuild `SInv` for a state reached while stopping -/
theorem sinv_stopping {s : St} (h : WInv s) (hs : s.stopping = true) (hn : NoHeld s)
    (hr : s.rejoinD = true ↔ s.jpc ≠ .idle) (hb : s.hbRunning = true → ∃ t ∈ s.timers, t.kind = .hb) : SInv s :=
  { toWInv := h, rd_jpc := hr, jpc_needed := fun _ => Or.inr hs, stable_hb := (fun _ h2 => by rw [hs] at h2; cases h2),
    mid_noheld := fun _ => hn, hb_has := hb, pristine_empty := (fun _ h2 => by rw [hs] at h2; cases h2) }

/-- control fields that the weak invariant does not constrain once the member is live -/
theorem winv_upd {s : St} (h : WInv s) (hp : Live s) (rd : Bool) (j : JPc) (p : Drain) (cb : Bool) (now : Rat) :
    WInv { s with rejoinD := rd, jpc := j, prep := p, coordBroker := cb, now := now } := by
  constructor <;> simp only []
  · exact h.stop_needed
  · exact h.hb_timer
  · exact h.timer_lt
  · exact h.timer_uniq
  · exact h.dc_active
  · exact h.held_running
  · exact h.held_cur
  · exact h.stop_noheld
  · exact h.leave_stop
  · exact h.start_res
  · intro a b; rcases hp with x | x <;> simp_all

/-- `SInv` from its parts for a live state -/
theorem sinv_mk {s : St} (h : WInv s) (hp : Live s) (hr : s.rejoinD = true ↔ s.jpc ≠ .idle)
    (hjn : s.jpc ≠ .idle → s.rejoinNeeded = true ∨ s.stopping = true)
    (hst : s.rejoinNeeded = false → s.stopping = false → s.hbRunning = true)
    (hm : midJoin s.jpc → NoHeld s) (hb : s.hbRunning = true → ∃ t ∈ s.timers, t.kind = .hb) : SInv s :=
  { toWInv := h, rd_jpc := hr, jpc_needed := hjn, stable_hb := hst, mid_noheld := hm, hb_has := hb,
    pristine_empty := (fun a b => by rcases hp with x | x <;> simp_all) }

theorem joinAndSync_sinv {s : St} (h : SInv { s with rejoinWaitDc := none }) (hp : Live s) : SInv (joinAndSync s).1 := by
  unfold joinAndSync
  simp only []
  split
  · exact h
  · split
    · exact h
    · rename_i hn hd
      have hw := h.toWInv
      have hp' : Live { s with rejoinWaitDc := none } := hp
      have w := winv_upd hw hp' true .coordLookup s.prep s.coordBroker s.now
      refine sinv_mk w hp (by simp) (fun _ => Or.inl (by simpa using hn)) h.stable_hb (fun hm => by simp [midJoin] at hm) h.hb_has

/-- an error path ends the join coroutine: from an `ErrRes` relative to the state with `jpc = idle`,
    after `cleanup_rejoin_d` -/
theorem sinv_after_err {s0 s1 : St} (r : ErrRes s0 s1) (hp : Live s0) (hj : s0.jpc = .idle) :
    SInv { s1 with rejoinD := false } := by
  rcases r.shape with ⟨a1, a2, a3, a4, a5, a6, a7, a8⟩ | ⟨st, n, sh⟩
  · have hp1 : Live s1 := by unfold Live at *; rw [a1, a5]; exact hp.symm.symm |> fun x => by rcases x with y | y; exact Or.inl y; exact Or.inr y
    have w := winv_upd r.winv hp1 false s1.jpc s1.prep s1.coordBroker s1.now
    refine sinv_mk w hp1 (by simp [a2, hj]) (by simp [a2, hj]) ?_ (by simp [a2, hj, midJoin]) r.hb_has
    intro hnd hs
    simp only [] at hnd hs
    rw [a1] at hs
    rcases a8 with ⟨x, _⟩ | ⟨_, y, _⟩
    · rw [x] at hs; cases hs
    · rw [y] at hnd; cases hnd
  · have w := winv_jpc_update r.winv st false s1.jpc s1.prep
    refine sinv_stopping w st n ?_ r.hb_has
    rcases sh with ⟨a, _⟩ | ⟨a, _⟩ <;> simp [a, hj]

theorem escape_eq (cfg : Cfg) (s : St) (e : GErr) :
    (escape cfg s e).1 = if escapeRejoins e then (rejoinAfterError cfg { s with jpc := .idle, rejoinD := false } e).1
                         else { s with jpc := .idle, rejoinD := false } := by
  unfold escape escapeCore rejoinAfterError
  by_cases he : escapeRejoins e = true
  · simp only [he, if_true]
  · simp only [he]; rfl

theorem errRes_rd {s0 s1 : St} (r : ErrRes s0 s1) (h : s0.rejoinD = false) : s1.rejoinD = false := by
  rcases r.shape with ⟨_, _, a3, _⟩ | ⟨_, _, sh⟩
  · rw [a3, h]
  · rcases sh with ⟨_, b⟩ | ⟨_, b⟩
    · rw [b, h]
    · exact b

theorem set_rd_eq (s : St) (h : s.rejoinD = false) : { s with rejoinD := false } = s := by
  cases s; simp_all

theorem escape_sinv {s : St} (h : SInv s) (hp : Live s) (cfg : Cfg) (e : GErr) : SInv (escape cfg s e).1 := by
  rw [escape_eq]
  have hw := winv_upd h.toWInv hp false .idle s.prep s.coordBroker s.now
  split
  · have r := rejoinAfterError_res hw cfg e (fun _ => rfl) h.hb_has
    have := sinv_after_err r hp rfl
    rwa [set_rd_eq _ (errRes_rd r rfl)] at this
  · exact sinv_mk hw hp (by simp) (by simp) h.stable_hb (by simp [midJoin]) h.hb_has

/-- the coordinator look-up / retry exits: a retry timer, coroutine finished -/
theorem retry_sinv {s : St} (h : SInv s) (hp : Live s) (d : Rat) :
    SInv { (addTimer s .retry d).1 with jpc := .idle, rejoinD := false } := by
  have w1 := winv_addRetry h.toWInv d
  have hp1 : Live (addTimer s .retry d).1 := hp
  have w := winv_upd w1 hp1 false .idle s.prep s.coordBroker s.now
  refine sinv_mk w hp (by simp) (by simp) h.stable_hb (by simp [midJoin]) ?_
  intro hr
  obtain ⟨t, ht, hk⟩ := h.hb_has hr
  exact ⟨t, List.mem_append_left _ ht, hk⟩

theorem coordDone_sinv {s : St} (h : SInv s) (hp : Live s) (cfg : Cfg) (r : CoordRes) : SInv (step cfg s (.coordDone r)).1 := by
  simp only [step]
  split
  · exact h
  · rename_i hj
    have hj' : s.jpc = .coordLookup := by simpa using hj
    cases r with
    | ok =>
      have w := winv_upd h.toWInv hp s.rejoinD .metaLoad s.prep s.coordBroker s.now
      have hrd : s.rejoinD = true := h.rd_jpc.mpr (by simp [hj'])
      exact sinv_mk w hp (by simp [hrd]) (fun _ => h.jpc_needed (by simp [hj'])) h.stable_hb (by simp [midJoin]) h.hb_has
    | none => exact retry_sinv h hp _
    | err e =>
      simp only []
      split
      · exact escape_sinv h hp cfg e
      · exact retry_sinv h hp _
      · exact retry_sinv h hp _

theorem afterPrepare_sinv {s : St} (h : WInv s) (hp : Live s) (hn : NoHeld s) (hrd : s.rejoinD = true)
    (hnd : s.rejoinNeeded = true ∨ s.stopping = true)
    (hst : s.rejoinNeeded = false → s.stopping = false → s.hbRunning = true)
    (hb : s.hbRunning = true → ∃ t ∈ s.timers, t.kind = .hb) : SInv (afterPrepare s).1 := by
  unfold afterPrepare
  split
  · exact sinv_mk (winv_upd h hp false .idle s.prep s.coordBroker s.now) hp (by simp) (by simp) hst (by simp [midJoin]) hb
  · exact sinv_mk (winv_upd h hp s.rejoinD .join s.prep s.coordBroker s.now) hp (by simp [hrd]) (fun _ => hnd) hst (fun _ => hn) hb

theorem metaDone_sinv {s : St} (h : SInv s) (hp : Live s) (cfg : Cfg) (r : Res) : SInv (step cfg s (.metaDone r)).1 := by
  simp only [step]
  split
  · exact h
  · rename_i hj
    have hj' : s.jpc = .metaLoad := by simpa using hj
    have hrd : s.rejoinD = true := h.rd_jpc.mpr (by simp [hj'])
    have hnd := h.jpc_needed (by simp [hj'])
    cases r with
    | err e => exact escape_sinv h hp cfg e
    | ok =>
      simp only []
      split
      · exact sinv_mk (winv_upd h.toWInv hp false .idle s.prep s.coordBroker s.now) hp (by simp) (by simp)
          h.stable_hb (by simp [midJoin]) h.hb_has
      · unfold prepare
        have w0 := winv_upd h.toWInv hp s.rejoinD s.jpc s.prep true s.now
        split
        · exact sinv_mk (winv_upd h.toWInv hp s.rejoinD .hang s.prep true s.now) hp (by simp [hrd]) (fun _ => hnd)
            h.stable_hb (by simp [midJoin]) h.hb_has
        split
        · rename_i he
          have hn : NoHeld { s with coordBroker := true } := (heldCids_isEmpty _).mp he
          exact afterPrepare_sinv (s := { s with coordBroker := true }) w0 hp hn hrd hnd h.stable_hb h.hb_has
        · have b := beginDrain_winv w0
          have hp1 : Live (beginDrain { s with coordBroker := true }).1 := hp
          simp only []
          split
          · simp only [andThen_fst]
            obtain ⟨c1, c2, c3, c4, c5, c6, c7⟩ := drainDone_ctl (beginDrain { s with coordBroker := true }).1
              (beginDrain { s with coordBroker := true }).2.2 (!drainFails { s with coordBroker := true })
            refine afterPrepare_sinv (drainDone_winv b.1 _ _) (by unfold Live; rw [c3, c4]; exact hp) (drainDone_noheld b.2 _ _)
              (by rw [c2]; exact hrd) (by rw [c5, c3]; exact hnd) (by rw [c5, c3, c6]; exact h.stable_hb) (by rw [c6, c7]; exact h.hb_has)
          · exact sinv_mk (winv_upd b.1 hp1 s.rejoinD .prepare _ true s.now) hp (by simp [hrd]) (fun _ => hnd)
              h.stable_hb (fun _ => b.2) h.hb_has

/-- member id / generation may change while no consumer is held -/
theorem winv_member {s : St} (h : WInv s) (hn : NoHeld s) (m : Nat) (g : Option Int) : WInv { s with member := m, gen := g } := by
  constructor <;> simp only []
  · exact h.stop_needed
  · exact h.hb_timer
  · exact h.timer_lt
  · exact h.timer_uniq
  · exact h.dc_active
  · exact h.held_running
  · intro c hc hh; have := hn c hc; simp_all
  · exact h.stop_noheld
  · exact h.leave_stop
  · exact h.start_res
  · exact h.pristine

/-- the error reply of a join / sync request -/
theorem reqErr_sinv {s : St} (h : SInv s) (hp : Live s) (cfg : Cfg) (e : GErr) :
    SInv { (rejoinAfterError cfg { s with jpc := .idle } e).1 with rejoinD := false } := by
  have hw := winv_upd h.toWInv hp s.rejoinD .idle s.prep s.coordBroker s.now
  have r := rejoinAfterError_res hw cfg e (fun _ => rfl) h.hb_has
  exact sinv_after_err r hp rfl

theorem joinDone_sinv {s : St} (h : SInv s) (hp : Live s) (cfg : Cfg) (r : JoinRes) : SInv (step cfg s (.joinDone r)).1 := by
  simp only [step]
  split
  · exact h
  · rename_i hj
    have hj' : s.jpc = .join := by simpa using hj
    have hrd : s.rejoinD = true := h.rd_jpc.mpr (by simp [hj'])
    have hnd := h.jpc_needed (by simp [hj'])
    have hn : NoHeld s := h.mid_noheld (by simp [midJoin, hj'])
    cases r with
    | err e => exact reqErr_sinv h hp cfg e
    | ok m g leader n =>
      simp only [abandonHb_eq, andThen_fst]
      have w := winv_hbInFlight (winv_member h.toWInv hn m (some g)) false (fun x => by cases x)
      have hp1 : Live { s with member := m, gen := some g, hbInFlight := false } := hp
      split
      · exact sinv_mk (winv_upd w hp1 false .idle s.prep s.coordBroker s.now) hp (by simp) (by simp)
          h.stable_hb (by simp [midJoin]) h.hb_has
      · split
        · exact sinv_mk (winv_upd w hp1 s.rejoinD (.loadParts n) s.prep s.coordBroker s.now) hp (by simp [hrd])
            (fun _ => hnd) h.stable_hb (fun _ => hn) h.hb_has
        · exact sinv_mk (winv_upd w hp1 s.rejoinD .sync s.prep s.coordBroker s.now) hp (by simp [hrd])
            (fun _ => hnd) h.stable_hb (fun _ => hn) h.hb_has

theorem partsDone_sinv {s : St} (h : SInv s) (hp : Live s) (cfg : Cfg) (r : Res) : SInv (step cfg s (.partsDone r)).1 := by
  simp only [step]
  split
  · rename_i n hj
    have hrd : s.rejoinD = true := h.rd_jpc.mpr (by simp [hj])
    have hnd := h.jpc_needed (by simp [hj])
    have hn : NoHeld s := h.mid_noheld (by simp [midJoin, hj])
    cases r with
    | err e => exact escape_sinv h hp cfg e
    | ok =>
      simp only []
      split
      · exact sinv_mk (winv_upd h.toWInv hp false .idle s.prep s.coordBroker s.now) hp (by simp) (by simp)
          h.stable_hb (by simp [midJoin]) h.hb_has
      · exact sinv_mk (winv_upd h.toWInv hp s.rejoinD .sync s.prep s.coordBroker s.now) hp (by simp [hrd])
          (fun _ => hnd) h.stable_hb (fun _ => hn) h.hb_has
  · exact h

theorem resetHeartbeat_spec {s : St} (h : WInv s) (cfg : Cfg) :
    let s' := (resetHeartbeat cfg s).1
    WInv s' ∧ s'.hbRunning = true ∧ (∃ t ∈ s'.timers, t.kind = .hb) ∧ s'.stopping = s.stopping ∧ s'.started = s.started ∧
    s'.cons = s.cons ∧ s'.rejoinD = s.rejoinD ∧ s'.jpc = s.jpc := by
  unfold resetHeartbeat hbSchedule
  split
  · rename_i hrun
    simp only [andThen_fst]
    refine ⟨?_, hrun, ⟨_, List.mem_append_right _ (List.mem_singleton.mpr rfl), rfl⟩, rfl, rfl, rfl, rfl, rfl⟩
    constructor <;> simp only [addTimer_timers, addTimer_nextTimer, addTimer_stopping, addTimer_hbRunning, addTimer_cons,
      addTimer_gen, addTimer_member, addTimer_asg, addTimer_leaveWait, addTimer_started, addTimer_startResult,
      addTimer_rejoinD, addTimer_jpc, addTimer_rejoinNeeded, addTimer_rejoinWaitDc]
    · exact h.stop_needed
    · simp [hrun]
    · intro t ht
      rcases List.mem_append.mp ht with x | x
      · exact Nat.lt_succ_of_lt (h.timer_lt t (List.mem_filter.mp x).1)
      · simp only [List.mem_singleton] at x; subst x; exact Nat.lt_succ_self _
    · exact uniq_append (h.timer_uniq.filter _) (fun t ht => h.timer_lt t (List.mem_filter.mp ht).1) _ _
    · intro hs id hid
      obtain ⟨t, ht, h1, h2⟩ := h.dc_active hs id hid
      exact ⟨t, List.mem_append_left _ (List.mem_filter.mpr ⟨ht, by simp [h2]⟩), h1, h2⟩
    · exact h.held_running
    · exact h.held_cur
    · exact h.stop_noheld
    · exact h.leave_stop
    · exact h.start_res
    · exact h.pristine
  · refine ⟨?_, rfl, ⟨_, List.mem_append_right _ (List.mem_singleton.mpr rfl), rfl⟩, rfl, rfl, rfl, rfl, rfl⟩
    constructor <;> simp only [addTimer_timers, addTimer_nextTimer, addTimer_stopping, addTimer_hbRunning, addTimer_cons,
      addTimer_gen, addTimer_member, addTimer_asg, addTimer_leaveWait, addTimer_started, addTimer_startResult,
      addTimer_rejoinD, addTimer_jpc, addTimer_rejoinNeeded, addTimer_rejoinWaitDc]
    · exact h.stop_needed
    · simp
    · intro t ht
      rcases List.mem_append.mp ht with x | x
      · exact Nat.lt_succ_of_lt (h.timer_lt t x)
      · simp only [List.mem_singleton] at x; subst x; exact Nat.lt_succ_self _
    · exact uniq_append h.timer_uniq h.timer_lt _ _
    · intro hs id hid
      obtain ⟨t, ht, h1, h2⟩ := h.dc_active hs id hid
      exact ⟨t, List.mem_append_left _ ht, h1, h2⟩
    · exact h.held_running
    · exact h.held_cur
    · exact h.stop_noheld
    · exact h.leave_stop
    · exact h.start_res
    · exact h.pristine

theorem startConsumers_winv {s : St} (h : WInv s) (hn : NoHeld s) (hs : s.stopping = false) (asg : List (Nat × List Int)) :
    WInv (startConsumers s asg).1 := by
  unfold startConsumers
  constructor <;> simp only []
  · exact h.stop_needed
  · exact h.hb_timer
  · exact h.timer_lt
  · exact h.timer_uniq
  · exact h.dc_active
  · intro c hc
    rcases List.mem_append.mp hc with x | x
    · exact h.held_running c x
    · obtain ⟨⟨tp, i⟩, _, rfl⟩ := List.mem_map.mp x; simp
  · intro c hc hh
    rcases List.mem_append.mp hc with x | x
    · have := hn c x; simp_all
    · obtain ⟨⟨tp, i⟩, hm, rfl⟩ := List.mem_map.mp x
      refine ⟨rfl, rfl, ?_⟩
      have : tp ∈ asg.flatMap fun tp => tp.2.map fun p => (tp.1, p) := by
        have := List.mem_zipIdx hm
        grind
      obtain ⟨t, p⟩ := tp
      simpa using this
  · simp [hs]
  · exact h.leave_stop
  · exact h.start_res
  · exact h.pristine

theorem winv_needed_false {s : St} (h : WInv s) (hp : Live s) : WInv { s with rejoinNeeded := false, jpc := .idle, rejoinD := false } := by
  constructor <;> simp only []
  · simp
  · exact h.hb_timer
  · exact h.timer_lt
  · exact h.timer_uniq
  · exact h.dc_active
  · exact h.held_running
  · exact h.held_cur
  · exact h.stop_noheld
  · exact h.leave_stop
  · exact h.start_res
  · intro a b; rcases hp with x | x <;> simp_all

theorem syncDone_sinv {s : St} (h : SInv s) (hp : Live s) (cfg : Cfg) (r : SyncRes) : SInv (step cfg s (.syncDone r)).1 := by
  simp only [step]
  split
  · exact h
  · rename_i hj
    have hj' : s.jpc = .sync := by simpa using hj
    have hn : NoHeld s := h.mid_noheld (by simp [midJoin, hj'])
    cases r with
    | err e => exact reqErr_sinv h hp cfg e
    | ok asg =>
      simp only []
      split
      · exact sinv_mk (winv_upd h.toWInv hp false .idle s.prep s.coordBroker s.now) hp (by simp) (by simp)
          h.stable_hb (by simp [midJoin]) h.hb_has
      · rename_i hs
        have hs' : s.stopping = false := by simpa using hs
        simp only [andThen_fst]
        obtain ⟨w, hr, ht, e1, e2, e3, e4, e5⟩ := resetHeartbeat_spec h.toWInv cfg
        have hp1 : Live (resetHeartbeat cfg s).1 := by unfold Live; rw [e1, e2]; exact hp
        have w1 := winv_needed_false w hp1
        have hn1 : NoHeld { (resetHeartbeat cfg s).1 with rejoinNeeded := false, jpc := .idle, rejoinD := false } := by
          unfold NoHeld; simp only []; rw [e3]; exact hn
        have w2 := startConsumers_winv w1 hn1 (by simp only []; rw [e1]; exact hs') asg
        refine sinv_mk w2 ?_ ?_ ?_ ?_ ?_ ?_
        · unfold Live startConsumers; simp only []; rw [e1, e2]; exact hp
        · unfold startConsumers; simp
        · unfold startConsumers; simp
        · unfold startConsumers; intro _ _; simpa using hr
        · unfold startConsumers; simp [midJoin]
        · unfold startConsumers; intro _; simpa using ht

theorem hbStop_winv {s : St} (h : WInv s) (hf : s.hbInFlight = false) : WInv (hbStop s).1 := by
  constructor <;> simp only [hbStop_timers, hbStop_hbRunning, hbStop_stopping, hbStop_rejoinNeeded, hbStop_nextTimer,
    hbStop_rejoinWaitDc, hbStop_cons, hbStop_gen, hbStop_member, hbStop_asg, hbStop_leaveWait, hbStop_started,
    hbStop_startResult, hbStop_rejoinD, hbStop_jpc, hbStop_hbInFlight]
  · exact h.stop_needed
  · intro _; exact ⟨fun t ht => by simpa using (List.mem_filter.mp ht).2, hf⟩
  · intro t ht; exact h.timer_lt t (List.mem_filter.mp ht).1
  · exact h.timer_uniq.filter _
  · intro hs id hid
    obtain ⟨t, ht, h1, h2⟩ := h.dc_active hs id hid
    exact ⟨t, List.mem_filter.mpr ⟨ht, by simp [h2]⟩, h1, h2⟩
  · exact h.held_running
  · exact h.held_cur
  · exact h.stop_noheld
  · exact h.leave_stop
  · exact h.start_res
  · exact h.pristine

/-- an error delivered to a state whose join bookkeeping is consistent -/
theorem sinv_after_err_gen {s0 s1 : St} (r : ErrRes s0 s1) (hp : Live s0) (hrd : s0.rejoinD = true ↔ s0.jpc ≠ .idle)
    (hjn : s0.jpc ≠ .idle → s0.rejoinNeeded = true ∨ s0.stopping = true) (hm : midJoin s0.jpc → NoHeld s0) : SInv s1 := by
  rcases r.shape with ⟨a1, a2, a3, a4, a5, a6, a7, a8⟩ | ⟨st, n, sh⟩
  · have hp1 : Live s1 := by unfold Live at *; rw [a1, a5]; exact hp
    refine sinv_mk r.winv hp1 (by rw [a2, a3]; exact hrd) ?_ ?_ (by rw [a2]; exact fun x => r.noheld (hm x)) r.hb_has
    · intro hj
      rw [a2] at hj
      rcases a8 with ⟨x, y⟩ | ⟨_, y, _⟩
      · rw [a1, y]; exact hjn hj
      · exact Or.inl y
    · intro hnd hs
      rw [a1] at hs
      rcases a8 with ⟨x, _⟩ | ⟨_, y, _⟩
      · rw [x] at hs; cases hs
      · rw [y] at hnd; cases hnd
  · refine sinv_stopping r.winv st n ?_ r.hb_has
    rcases sh with ⟨a, b⟩ | ⟨a, b⟩
    · rw [a, b]; exact hrd
    · simp [a, b]

theorem hbDone_sinv {s : St} (h : SInv s) (hp : Live s) (cfg : Cfg) (r : Res) : SInv (step cfg s (.hbDone r)).1 := by
  simp only [step]
  split
  · exact h
  · have w0 := winv_hbInFlight h.toWInv false (fun x => by cases x)
    have h0 : SInv { s with hbInFlight := false } :=
      sinv_mk w0 hp h.rd_jpc h.jpc_needed h.stable_hb h.mid_noheld h.hb_has
    cases r with
    | ok => exact h0
    | err e =>
      simp only []
      split
      · simp only [andThen_fst]
        have w1 := hbStop_winv w0 rfl
        have r := rejoinAfterError_res w1 cfg e (fun x => by
          by_cases hj : s.jpc = .idle
          · exact hj
          · have := h.rd_jpc.mpr hj; simp_all) (by simp)
        exact sinv_after_err_gen r hp h.rd_jpc h.jpc_needed h.mid_noheld
      · exact h0

theorem leaveDone_sinv {s : St} (h : SInv s) (cfg : Cfg) (r : Res) : SInv (step cfg s (.leaveDone r)).1 := by
  simp only [step]
  split
  · exact h
  · rename_i err user hl
    have hs : s.stopping = true := h.leave_stop (by simp [hl])
    have hn : NoHeld s := h.stop_noheld hs
    have hj : s.rejoinD = false → s.jpc = .idle := fun x => by
      by_cases hj : s.jpc = .idle
      · exact hj
      · have := h.rd_jpc.mpr hj; simp_all
    have hb : ∀ s' : St, s'.hbRunning = s.hbRunning → (∀ t ∈ s.timers, t ∈ s'.timers) →
        s'.hbRunning = true → ∃ t ∈ s'.timers, t.kind = .hb := fun s' e m hr => by
      obtain ⟨t, ht, hk⟩ := h.hb_has (by rw [← e]; exact hr); exact ⟨t, m t ht, hk⟩
    cases r with
    | ok =>
      have w := winv_member h.toWInv hn 0 none
      have f := finishStop_post w cfg err user hs hn hj
      exact sinv_of_stopping f.winv f.stopping f.noheld f.rd f.jpc (hb _ f.hbRunning f.mono)
    | err e =>
      have f := finishStop_post h.toWInv cfg err user hs hn hj
      exact sinv_of_stopping f.winv f.stopping f.noheld f.rd f.jpc (hb _ f.hbRunning f.mono)

/-- a map over the consumers that keeps everything the invariant looks at -/
theorem winv_cons_map {s : St} (h : WInv s) (f : Con → Con)
    (hf : ∀ c, (f c).held = c.held ∧ ((f c).phase = .running ↔ c.phase = .running) ∧ (f c).gen = c.gen ∧ (f c).member = c.member ∧
               (f c).topic = c.topic ∧ (f c).part = c.part) :
    WInv { s with cons := s.cons.map f } := by
  constructor <;> simp only []
  · exact h.stop_needed
  · exact h.hb_timer
  · exact h.timer_lt
  · exact h.timer_uniq
  · exact h.dc_active
  · intro c hc
    obtain ⟨c0, h0, rfl⟩ := List.mem_map.mp hc
    rw [(hf c0).1, (hf c0).2.1]; exact h.held_running c0 h0
  · intro c hc hh
    obtain ⟨c0, h0, rfl⟩ := List.mem_map.mp hc
    obtain ⟨a, _, b, c', d, e⟩ := hf c0
    rw [a] at hh
    rw [b, c', d, e]; exact h.held_cur c0 h0 hh
  · intro hs c hc
    obtain ⟨c0, h0, rfl⟩ := List.mem_map.mp hc
    rw [(hf c0).1]; exact h.stop_noheld hs c0 h0
  · exact h.leave_stop
  · exact h.start_res
  · exact h.pristine

theorem noheld_cons_map {s : St} (f : Con → Con) (hf : ∀ c, (f c).held = c.held) (hn : NoHeld s) :
    NoHeld { s with cons := s.cons.map f } := by
  intro c hc
  obtain ⟨c0, h0, rfl⟩ := List.mem_map.mp hc
  rw [hf c0]; exact hn c0 h0

/-- `SInv` depends on the consumers only through the weak invariant and `NoHeld` -/
theorem sinv_cons {s : St} (h : SInv s) (hp : Live s) (cs : List Con) (w : WInv { s with cons := cs })
    (hn : NoHeld s → NoHeld { s with cons := cs }) : SInv { s with cons := cs } :=
  sinv_mk w hp h.rd_jpc h.jpc_needed h.stable_hb (fun x => hn (h.mid_noheld x)) h.hb_has

theorem consumerErr_sinv {s : St} (h : SInv s) (hp : Live s) (cfg : Cfg) (cid : Nat) (e : GErr) :
    SInv (step cfg s (.consumerErr cid e)).1 := by
  simp only [step]
  split
  · let f : Con → Con := fun c => if c.cid = cid then { c with startFired := true } else c
    have hf : ∀ c, (f c).held = c.held ∧ ((f c).phase = .running ↔ c.phase = .running) ∧ (f c).gen = c.gen ∧
        (f c).member = c.member ∧ (f c).topic = c.topic ∧ (f c).part = c.part := by
      intro c; simp only [f]; split <;> simp
    have w := winv_cons_map h.toWInv f hf
    have h1 := sinv_cons h hp _ w (noheld_cons_map f (fun c => (hf c).1))
    split
    · exact h1
    · have hj : s.rejoinD = false → s.jpc = .idle := fun x => by
        by_cases hj : s.jpc = .idle
        · exact hj
        · have := h.rd_jpc.mpr hj; simp_all
      have r := rejoinAfterError_res w cfg e hj h.hb_has
      exact sinv_after_err_gen r hp h1.rd_jpc h1.jpc_needed h1.mid_noheld
  · exact h

theorem consumerQuirk_sinv {s : St} (h : SInv s) (hp : Live s) (cfg : Cfg) (cid : Nat) (q : Quirk) :
    SInv (step cfg s (.consumerQuirk cid q)).1 := by
  simp only [step]
  split
  · let f : Con → Con := fun c => if c.cid = cid && c.phase == .running then { c with quirk := q } else c
    have hf : ∀ c, (f c).held = c.held ∧ ((f c).phase = .running ↔ c.phase = .running) ∧ (f c).gen = c.gen ∧
        (f c).member = c.member ∧ (f c).topic = c.topic ∧ (f c).part = c.part := by
      intro c; simp only [f]; split <;> simp
    exact sinv_cons h hp _ (winv_cons_map h.toWInv f hf) (noheld_cons_map f (fun c => (hf c).1))
  · exact h

theorem stopCons_sinv {s : St} (h : SInv s) (hp : Live s) (cids : List Nat) : SInv (stopCons s cids).1 :=
  sinv_mk (stopCons_winv h.toWInv cids) hp h.rd_jpc h.jpc_needed h.stable_hb (fun x => stopCons_noheld (h.mid_noheld x) _) h.hb_has

theorem drainDone_sinv {s : St} (h : SInv s) (hp : Live s) (d : Drain) (ok : Bool) : SInv (drainDone s d ok).1 := by
  unfold drainDone
  split
  · exact h
  · exact stopCons_sinv h hp _

/-- after `ConsumerGroup.stop` ran on a consistent state -/
theorem sinv_after_call {s0 s1 : St} (r : CallRes s0 s1) (h0 : SInv s0) (hp : Live s0) : SInv s1 := by
  rcases r.shape with ⟨a1, a2, a3, a4, a5, a6, a7, a8, _⟩ | ⟨st, sh⟩
  · have hp1 : Live s1 := by unfold Live at *; rw [a1, a5]; exact hp
    refine sinv_mk r.winv hp1 (by rw [a2, a3]; exact h0.rd_jpc) (by rw [a2, a8, a1]; exact h0.jpc_needed)
      (by rw [a8, a1, a4]; exact h0.stable_hb) (fun _ => r.noheld) r.hb_has
  · refine sinv_stopping r.winv st r.noheld ?_ r.hb_has
    rcases sh with ⟨a, b⟩ | ⟨a, b⟩
    · rw [a, b]; exact h0.rd_jpc
    · simp [a, b]

theorem rd_idle {s : St} (h : SInv s) : s.rejoinD = false → s.jpc = .idle := fun x => by
  by_cases hj : s.jpc = .idle
  · exact hj
  · have := h.rd_jpc.mpr hj; simp_all

theorem stop_sinv {s : St} (h : SInv s) (hp : Live s) (cfg : Cfg) : SInv (step cfg s .stop).1 := by
  simp only [step]
  rcases userStop_cases cfg s with ⟨hu, _, _⟩ | hu <;> rw [hu]
  · exact h
  · exact sinv_after_call (stopCall_res h.toWInv cfg none true (rd_idle h) h.hb_has) h hp

/-- bookkeeping fields `stops` / `prep` do not matter to `SInv` of a live state -/
theorem sinv_stops_prep {s : St} (h : SInv s) (hp : Live s) (st : List StopCo) (p : Drain) : SInv { s with stops := st, prep := p } := by
  have w : WInv { s with stops := st, prep := p } := by
    have hw := h.toWInv
    constructor <;> simp only []
    · exact hw.stop_needed
    · exact hw.hb_timer
    · exact hw.timer_lt
    · exact hw.timer_uniq
    · exact hw.dc_active
    · exact hw.held_running
    · exact hw.held_cur
    · exact hw.stop_noheld
    · exact hw.leave_stop
    · exact hw.start_res
    · exact hw.pristine
  exact sinv_mk w hp h.rd_jpc h.jpc_needed h.stable_hb h.mid_noheld h.hb_has

theorem consumerDown_sinv {s : St} (h : SInv s) (hp : Live s) (cfg : Cfg) (cid : Nat) (ok : Bool) :
    SInv (consumerDown cfg s cid ok).1 := by
  unfold consumerDown
  let f : Con → Con := fun c => if c.cid = cid && c.phase == .draining then { c with phase := .stopped, startFired := true } else c
  have hf : ∀ c, (f c).held = c.held ∧ ((f c).phase = .running ↔ c.phase = .running) ∧ (f c).gen = c.gen ∧
      (f c).member = c.member ∧ (f c).topic = c.topic ∧ (f c).part = c.part := by
    intro c; simp only [f]; split
    · rename_i hc; simp only [Bool.and_eq_true, beq_iff_eq] at hc; simp [hc.2]
    · simp
  have w := winv_cons_map h.toWInv f hf
  have h1 : SInv { s with cons := s.cons.map f } := sinv_cons h hp _ w (noheld_cons_map f (fun c => (hf c).1))
  have hp1 : Live { s with cons := s.cons.map f } := hp
  simp only []
  split
  · rename_i hc
    simp only [Bool.and_eq_true, decide_eq_true_eq] at hc
    have hj : s.jpc = .prepare := hc.1
    have hn : NoHeld { s with cons := s.cons.map f } := h1.mid_noheld (by simp [midJoin, hj])
    split
    · exact sinv_stops_prep h1 hp1 s.stops _
    · simp only [andThen_fst]
      have h2 := sinv_stops_prep h1 hp1 s.stops ⟨[], []⟩
      have hp2 : Live { s with cons := s.cons.map f, prep := ⟨[], []⟩ } := hp
      have h3 := drainDone_sinv h2 hp2 { s.prep with pending := s.prep.pending.filter (· != cid) } ok
      obtain ⟨c1, c2, c3, c4, c5, c6, c7⟩ := drainDone_ctl { s with cons := s.cons.map f, prep := ⟨[], []⟩ }
        { s.prep with pending := s.prep.pending.filter (· != cid) } ok
      refine afterPrepare_sinv h3.toWInv (by unfold Live; rw [c3, c4]; exact hp) (h3.mid_noheld (by rw [c1]; simp [midJoin, hj]))
        (by rw [c2]; exact h.rd_jpc.mpr (by simp [hj])) ?_ h3.stable_hb h3.hb_has
      rw [c5, c3]; exact h.jpc_needed (by simp [hj])
  · split
    · exact h1
    · rename_i a co b hsp
      split
      · exact sinv_stops_prep h1 hp1 _ s.prep
      · simp only [andThen_fst]
        have h2 := sinv_stops_prep h1 hp1 (a ++ b) s.prep
        have hp2 : Live { s with cons := s.cons.map f, stops := a ++ b } := hp
        have h3 := drainDone_sinv h2 hp2 { co.drain with pending := co.drain.pending.filter (· != cid) } ok
        obtain ⟨c1, c2, c3, c4, c5, c6, c7⟩ := drainDone_ctl
          { s with cons := s.cons.map f, stops := a ++ b }
          { co.drain with pending := co.drain.pending.filter (· != cid) } ok
        have hp3 : Live (drainDone { s with cons := s.cons.map f, stops := a ++ b }
          { co.drain with pending := co.drain.pending.filter (· != cid) } ok).1 := by unfold Live; rw [c3, c4]; exact hp
        exact sinv_after_call (stopLoop_res h3.toWInv cfg co.err co.user (rd_idle h3) h3.hb_has) h3 hp3

theorem consumerDownEv_sinv {s : St} (h : SInv s) (hp : Live s) (cfg : Cfg) (cid : Nat) (ok : Bool) :
    SInv (step cfg s (.consumerDown cid ok)).1 := by
  simp only [step]
  split
  · exact consumerDown_sinv h hp cfg cid ok
  · exact h

theorem uniq_eq {ts : List Timer} (hu : ts.Pairwise (fun a b => a.id ≠ b.id)) {a b : Timer} (ha : a ∈ ts) (hb : b ∈ ts)
    (h : a.id = b.id) : a = b := by
  induction ts with
  | nil => cases ha
  | cons x xs ih =>
    rw [List.pairwise_cons] at hu
    rcases List.mem_cons.mp ha with rfl | ha' <;> rcases List.mem_cons.mp hb with rfl | hb'
    · rfl
    · exact absurd h (hu.1 b hb')
    · exact absurd h.symm (hu.1 a ha')
    · exact ih hu.2 ha' hb'

/-- a fired (removed) timer -/
theorem winv_fire {s : St} (h : WInv s) (hp : Live s) (id : Nat) :
    WInv { s with timers := s.timers.filter (·.id != id), rejoinWaitDc := none } := by
  constructor <;> simp only []
  · exact h.stop_needed
  · intro hr; exact ⟨fun t ht => (h.hb_timer hr).1 t (List.mem_filter.mp ht).1, (h.hb_timer hr).2⟩
  · intro t ht; exact h.timer_lt t (List.mem_filter.mp ht).1
  · exact h.timer_uniq.filter _
  · simp
  · exact h.held_running
  · exact h.held_cur
  · exact h.stop_noheld
  · exact h.leave_stop
  · exact h.start_res
  · intro a b; rcases hp with x | x <;> simp_all

theorem winv_addHb {s : St} (h : WInv s) (d : Rat) (hr : s.hbRunning = true) : WInv (addTimer s .hb d).1 := by
  constructor <;> simp only [addTimer_timers, addTimer_nextTimer, addTimer_stopping, addTimer_hbRunning, addTimer_cons,
      addTimer_gen, addTimer_member, addTimer_asg, addTimer_leaveWait, addTimer_started, addTimer_startResult,
      addTimer_rejoinD, addTimer_jpc, addTimer_rejoinNeeded, addTimer_rejoinWaitDc]
  · exact h.stop_needed
  · simp [hr]
  · intro t ht
    rcases List.mem_append.mp ht with x | x
    · exact Nat.lt_succ_of_lt (h.timer_lt t x)
    · simp only [List.mem_singleton] at x; subst x; exact Nat.lt_succ_self _
  · exact uniq_append h.timer_uniq h.timer_lt _ _
  · intro hs id hid
    obtain ⟨t, ht, h1, h2⟩ := h.dc_active hs id hid
    exact ⟨t, List.mem_append_left _ ht, h1, h2⟩
  · exact h.held_running
  · exact h.held_cur
  · exact h.stop_noheld
  · exact h.leave_stop
  · exact h.start_res
  · exact h.pristine

/-- the heartbeat looper's tick: the call is consumed, `_heartbeat()` runs, the looper reschedules -/
theorem hbTick_sinv {s : St} (h : SInv s) (hp : Live s) (d : Rat) (id : Nat)
    (keep : ∀ t' ∈ s.timers, t'.kind ≠ .hb → t' ∈ s.timers.filter (·.id != id)) (hf : Bool)
    (hhf : hf = true → s.hbRunning = true) :
    SInv (if s.hbRunning then addTimer { s with timers := s.timers.filter (·.id != id), hbInFlight := hf } .hb d
          else ({ s with timers := s.timers.filter (·.id != id), hbInFlight := hf }, [])).1 := by
  have hw := h.toWInv
  have w1 : WInv { s with timers := s.timers.filter (·.id != id), hbInFlight := hf } := by
    constructor <;> simp only []
    · exact hw.stop_needed
    · intro hr
      refine ⟨fun t ht => (hw.hb_timer hr).1 t (List.mem_filter.mp ht).1, ?_⟩
      cases hf
      · rfl
      · rw [hhf rfl] at hr; cases hr
    · intro t ht; exact hw.timer_lt t (List.mem_filter.mp ht).1
    · exact hw.timer_uniq.filter _
    · intro hs i hi
      obtain ⟨t, ht, h1, h2⟩ := hw.dc_active hs i hi
      exact ⟨t, keep t ht (by rw [h2]; decide), h1, h2⟩
    · exact hw.held_running
    · exact hw.held_cur
    · exact hw.stop_noheld
    · exact hw.leave_stop
    · exact hw.start_res
    · exact hw.pristine
  split
  · rename_i hr
    have w2 := winv_addHb w1 d hr
    refine sinv_mk w2 hp h.rd_jpc h.jpc_needed h.stable_hb h.mid_noheld ?_
    intro _
    exact ⟨_, List.mem_append_right _ (List.mem_singleton.mpr rfl), rfl⟩
  · rename_i hr
    exact sinv_mk w1 hp h.rd_jpc h.jpc_needed h.stable_hb h.mid_noheld (fun x => absurd x hr)

theorem fire_sinv {s : St} (h : SInv s) (hp : Live s) (cfg : Cfg) (id : Nat) (hbNext : Option Rat) :
    SInv (step cfg s (.fire id hbNext)).1 := by
  simp only [step]
  split
  · exact h
  split
  · exact h
  · rename_i t rest hf
    have htm : t ∈ s.timers ∧ t.id = id := by
      have : t ∈ s.timers.filter (·.id == id) := by rw [hf]; simp
      have := List.mem_filter.mp this
      exact ⟨this.1, by simpa using this.2⟩
    split
    · exact h
    · -- other timers keep their place: an hb timer with another id survives the removal
      have keep : ∀ t' ∈ s.timers, t'.kind ≠ t.kind → t' ∈ s.timers.filter (·.id != id) := by
        intro t' ht' hk
        refine List.mem_filter.mpr ⟨ht', ?_⟩
        simp only [bne_iff_ne, ne_eq]
        intro he
        have := uniq_eq h.timer_uniq ht' htm.1 (by rw [he, htm.2])
        rw [this] at hk; exact hk rfl
      split
      · -- rejoin
        rename_i hk
        have w := winv_fire h.toWInv hp id
        refine joinAndSync_sinv ?_ hp
        refine sinv_mk w hp h.rd_jpc h.jpc_needed h.stable_hb h.mid_noheld ?_
        intro hr
        obtain ⟨t', ht', hk'⟩ := h.hb_has hr
        exact ⟨t', keep t' ht' (by rw [hk', hk]; decide), hk'⟩
      · rename_i hk
        have w := winv_fire h.toWInv hp id
        refine joinAndSync_sinv ?_ hp
        refine sinv_mk w hp h.rd_jpc h.jpc_needed h.stable_hb h.mid_noheld ?_
        intro hr
        obtain ⟨t', ht', hk'⟩ := h.hb_has hr
        exact ⟨t', keep t' ht' (by rw [hk', hk]; decide), hk'⟩
      · -- heartbeat tick
        rename_i hk
        have keep' : ∀ t' ∈ s.timers, t'.kind ≠ .hb → t' ∈ s.timers.filter (·.id != id) :=
          fun t' ht' hk' => keep t' ht' (by rw [hk]; exact hk')
        simp only [andThen_fst]
        have hrun : ∀ b : Bool, b = true → s.hbRunning = true := by
          intro _ _
          cases hr : s.hbRunning
          · exact absurd hk ((h.hb_timer hr).1 t htm.1)
          · rfl
        split
        · exact hbTick_sinv h hp _ id keep' s.hbInFlight (hrun _)
        · exact hbTick_sinv h hp _ id keep' true (hrun _)

theorem advance_sinv {s : St} (h : SInv s) (cfg : Cfg) (dt : Rat) : SInv (step cfg s (.advance dt)).1 := by
  simp only [step]
  split
  · exact h
  · have hw := h.toWInv
    exact { stop_needed := hw.stop_needed, hb_timer := hw.hb_timer, timer_lt := hw.timer_lt, timer_uniq := hw.timer_uniq,
            dc_active := hw.dc_active, held_running := hw.held_running, held_cur := hw.held_cur, stop_noheld := hw.stop_noheld,
            leave_stop := hw.leave_stop, start_res := hw.start_res, pristine := hw.pristine, rd_jpc := h.rd_jpc,
            jpc_needed := h.jpc_needed, stable_hb := h.stable_hb, mid_noheld := h.mid_noheld, hb_has := h.hb_has,
            pristine_empty := h.pristine_empty }

theorem start_sinv {s : St} (h : SInv s) (cfg : Cfg) : SInv (step cfg s .start).1 := by
  simp only [step]
  split
  · exact h
  · have hp : Live { s with started := true, startResult := none } := Or.inl rfl
    refine joinAndSync_sinv ?_ hp
    have hw := h.toWInv
    have w : WInv { s with started := true, startResult := none, rejoinWaitDc := none } := by
      constructor <;> simp only []
      · exact hw.stop_needed
      · exact hw.hb_timer
      · exact hw.timer_lt
      · exact hw.timer_uniq
      · simp
      · exact hw.held_running
      · exact hw.held_cur
      · exact hw.stop_noheld
      · exact hw.leave_stop
      · simp
      · simp
    exact sinv_mk w hp h.rd_jpc h.jpc_needed h.stable_hb h.mid_noheld h.hb_has

/-- before `start()` nothing is enabled but `start`, `stop` (a `RestopError`) and `advance` -/
theorem pristine_step {s : St} (h : SInv s) (h1 : s.started = false) (h2 : s.stopping = false) (cfg : Cfg) (e : Ev)
    (he : e ≠ .start) (ha : ∀ dt, e ≠ .advance dt) : (step cfg s e).1 = s := by
  obtain ⟨t, c, f, l, st, hr⟩ := h.pristine_empty h1 h2
  obtain ⟨_, _, j⟩ := h.pristine h1 h2
  cases e with
  | start => exact absurd rfl he
  | advance dt => exact absurd rfl (ha dt)
  | stop =>
    rcases userStop_cases cfg s with ⟨hu, _, _⟩ | hu
    · simp [step, hu]
    · simp [step, hu, stopCall, stopLoop, heldCids, c, coordStop, h1]
  | coordDone r => simp [step, j]
  | metaDone r => simp [step, j]
  | joinDone r => simp [step, j]
  | partsDone r => simp [step, j]
  | syncDone r => simp [step, j]
  | hbDone r => simp [step, f]
  | leaveDone r => simp [step, l]
  | consumerDown cid ok => simp [step, c]
  | consumerErr cid e => simp [step, c]
  | consumerQuirk cid q => simp [step, c]
  | fire id hbNext => simp only [step, t, List.filter_nil]; split <;> rfl

theorem step_sinv {s : St} (h : SInv s) (cfg : Cfg) (e : Ev) : SInv (step cfg s e).1 := by
  by_cases hp : Live s
  · cases e with
    | start => exact start_sinv h cfg
    | stop => exact stop_sinv h hp cfg
    | coordDone r => exact coordDone_sinv h hp cfg r
    | metaDone r => exact metaDone_sinv h hp cfg r
    | joinDone r => exact joinDone_sinv h hp cfg r
    | partsDone r => exact partsDone_sinv h hp cfg r
    | syncDone r => exact syncDone_sinv h hp cfg r
    | hbDone r => exact hbDone_sinv h hp cfg r
    | leaveDone r => exact leaveDone_sinv h cfg r
    | consumerDown cid ok => exact consumerDownEv_sinv h hp cfg cid ok
    | consumerErr cid e => exact consumerErr_sinv h hp cfg cid e
    | consumerQuirk cid q => exact consumerQuirk_sinv h hp cfg cid q
    | fire id hbNext => exact fire_sinv h hp cfg id hbNext
    | advance dt => exact advance_sinv h cfg dt
  · have h1 : s.started = false := by unfold Live at hp; cases hs : s.started <;> simp_all
    have h2 : s.stopping = false := by unfold Live at hp; cases hs : s.stopping <;> simp_all
    by_cases he : e = .start
    · rw [he]; exact start_sinv h cfg
    · by_cases ha : ∃ dt, e = .advance dt
      · obtain ⟨dt, rfl⟩ := ha; exact advance_sinv h cfg dt
      · rw [pristine_step h h1 h2 cfg e he (fun dt hx => ha ⟨dt, hx⟩)]; exact h

/-- every reachable state satisfies the invariant -/
theorem finalFrom_sinv (cfg : Cfg) (evs : List Ev) : ∀ s, SInv s → SInv (finalFrom cfg s evs) := by
  induction evs with
  | nil => intro s h; exact h
  | cons e es ih => intro s h; exact ih _ (step_sinv h cfg e)

theorem final_sinv (cfg : Cfg) (evs : List Ev) : SInv (final cfg evs) := finalFrom_sinv cfg evs init sinv_init
