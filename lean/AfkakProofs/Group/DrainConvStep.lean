import AfkakProofs.Group.DrainConv
/-!
# `CInv` is preserved by every step

`on_join_prepare`, `on_join_complete`, a shutdown Deferred firing, then `step` event by event.
-/
namespace Afkak.Group
open Afkak.Consts

/-- the general transfer lemma: the waiting drains of `s'` are drains of `s` with the same batch and
    a non-empty part of the pending list that avoids the excepted cids -/
theorem CInv0.transferG {E : Nat → Prop} {s s' : St} (h : CInv0 s) (k : CKeep E s s')
    (r1 : ∀ co' ∈ s'.stops, ∃ co ∈ s.stops, co'.drain.batch = co.drain.batch ∧
      (∀ x ∈ co'.drain.pending, x ∈ co.drain.pending ∧ ¬ E x) ∧ co'.drain.pending ≠ [])
    (r2 : (s'.stops.map (·.drain.batch)).Sublist (s.stops.map (·.drain.batch)))
    (e2 : s'.jpc = .hang → s'.stopDraining = true)
    (e4 : s'.jpc = .prepare → s.jpc = .prepare ∧ s'.prep.batch = s.prep.batch ∧
      (∀ x ∈ s'.prep.pending, x ∈ s.prep.pending ∧ ¬ E x) ∧ s'.prep.pending ≠ [] ∧
      s'.prep.pending.length ≤ s.prep.pending.length) : CInv0 s' := by
  constructor
  · intro j; exact (e4 j).2.2.2.1
  · intro j x hx
    obtain ⟨j0, _, hp, _⟩ := e4 j
    obtain ⟨hx0, hE⟩ := hp x hx
    exact k.dr x hE (h.pbnh j0 x (h.psub j0 x hx0)) (h.pdr j0 x hx0)
  · intro co' hco'; obtain ⟨_, _, _, _, hne⟩ := r1 co' hco'; exact hne
  · intro co' hco' x hx
    obtain ⟨co, hco, _, hp, _⟩ := r1 co' hco'
    obtain ⟨hx0, hE⟩ := hp x hx
    exact k.dr x hE (h.sbnh co hco x (h.ssub co hco x hx0)) (h.sdr co hco x hx0)
  · exact e2
  · rw [k.nc]; exact k.lt _ h.clt
  · intro j; obtain ⟨j0, eb, _, _⟩ := e4 j; rw [eb, k.nc]; exact h.pblt j0
  · intro co' hco'
    obtain ⟨co, hco, eb, _, _⟩ := r1 co' hco'
    rw [eb, k.nc]; exact h.sblt co hco
  · intro j x hx; obtain ⟨j0, eb, _, _⟩ := e4 j; rw [eb] at hx; exact k.nh x (h.pbnh j0 x hx)
  · intro co' hco' x hx
    obtain ⟨co, hco, eb, _, _⟩ := r1 co' hco'
    rw [eb] at hx; exact k.nh x (h.sbnh co hco x hx)
  · intro j co' hco' x hx
    obtain ⟨j0, eb, _, _⟩ := e4 j
    obtain ⟨co, hco, eb', _, _⟩ := r1 co' hco'
    rw [eb] at hx; rw [eb']; exact h.pdisj j0 co hco x hx
  · exact h.sdisj.sublist r2
  · intro j x hx
    obtain ⟨j0, eb, hp, _⟩ := e4 j
    rw [eb]; exact h.psub j0 x (hp x hx).1
  · intro co' hco' x hx
    obtain ⟨co, hco, eb, hp, _⟩ := r1 co' hco'
    rw [eb]; exact h.ssub co hco x (hp x hx).1
  · intro j
    obtain ⟨j0, _, _, _, hl⟩ := e4 j
    exact Nat.le_trans hl (Nat.le_trans (h.plen j0) k.len)

/-- the same waiting `stop()` coroutines: what `transferG` needs of them -/
theorem same_stops {E : Nat → Prop} {s s' : St} (h : CInv0 s) (e1 : s'.stops = s.stops)
    (hE2 : ∀ co ∈ s.stops, ∀ x ∈ co.drain.pending, ¬ E x) :
    (∀ co' ∈ s'.stops, ∃ co ∈ s.stops, co'.drain.batch = co.drain.batch ∧
      (∀ x ∈ co'.drain.pending, x ∈ co.drain.pending ∧ ¬ E x) ∧ co'.drain.pending ≠ []) ∧
    (s'.stops.map (·.drain.batch)).Sublist (s.stops.map (·.drain.batch)) := by
  rw [e1]
  exact ⟨fun co hco => ⟨co, hco, rfl, fun x hx => ⟨hx, hE2 co hco x hx⟩, h.sne co hco⟩, List.Sublist.refl _⟩

theorem afterPrepare_keep (E : Nat → Prop) (s : St) : CKeep E s (afterPrepare s).1 := by
  unfold afterPrepare; split <;> exact CKeep.of_cons rfl rfl

theorem afterPrepare_jpc (s : St) : (afterPrepare s).1.jpc ≠ .prepare ∧ (afterPrepare s).1.jpc ≠ .hang := by
  unfold afterPrepare; split <;> simp

/-- `send_join_group_request()` after the drain: the coroutine leaves `on_join_prepare` -/
theorem afterPrepare_cinv0 {s0 s : St} (h : CInv0 s0) (e0 : s.cons = s0.cons) (e1 : s.stops = s0.stops) (e6 : s.nextCid = s0.nextCid) :
    CInv0 (afterPrepare s).1 := by
  unfold afterPrepare
  split
  · exact cinv0_move h (by simp) e0 e1 (by simp) e6
  · exact cinv0_move h (by simp) e0 e1 (by simp) e6

theorem prepare_cinv0 {s : St} (h : CInv0 s) : CInv0 (prepare s).1 := by
  unfold prepare
  split
  · rename_i hfl
    exact cinv0_move h (by simp) rfl rfl (fun _ => hfl) rfl
  · split
    · exact afterPrepare_cinv0 h rfl rfl rfl
    · simp only []
      split
      · simp only [andThen_fst]
        exact afterPrepare_cinv0 (cinv0_drainNow h (!drainFails s)) rfl rfl rfl
      · rename_i hnow
        have hne : (beginDrain s).2.2.pending ≠ [] := by
          intro he; simp [he] at hnow
        have k1 := beginDrain_keep s
        have nh := beginDrain_nh s
        have hheld : ∀ x ∈ (beginDrain s).2.2.batch, ∃ c ∈ s.cons, c.held = true ∧ c.cid = x := fun x hx => mem_heldCids.mp hx
        constructor
        · intro _; exact hne
        · intro _ x hx; exact beginDrain_pending_dr s x hx
        · exact h.sne
        · intro co hco x hx; exact k1.dr x id (h.sbnh co hco x (h.ssub co hco x hx)) (h.sdr co hco x hx)
        · intro j; cases j
        · intro c hc; rw [k1.nc]; exact k1.lt _ h.clt c hc
        · intro _ x hx
          rw [k1.nc]
          obtain ⟨c, hc, _, rfl⟩ := hheld x hx
          exact h.clt c hc
        · rw [k1.nc]; exact h.sblt
        · intro _ x _ c hc _; exact nh c hc
        · intro _ _ x _ c hc _; exact nh c hc
        · intro _ co hco x hx hb
          obtain ⟨c, hc, hh, ec⟩ := hheld x hx
          rw [h.sbnh co hco x hb c hc ec] at hh; cases hh
        · exact h.sdisj
        · intro _; exact beginDrain_sub s
        · exact h.ssub
        · intro _; exact beginDrain_plen s

theorem joinAndSync_cinv0 {s : St} (h : CInv0 s) : CInv0 (joinAndSync s).1 := by
  unfold joinAndSync
  simp only []
  split
  · exact cinv0_irrelevant h rfl rfl rfl rfl rfl rfl
  · split
    · exact cinv0_irrelevant h rfl rfl rfl rfl rfl rfl
    · exact cinv0_move h (by simp) rfl rfl (by simp) rfl

/-- `on_join_complete`: the new consumers get fresh cids -/
theorem startConsumers_cinv0 {s : St} (h : CInv0 s) (asg : List (Nat × List Int)) : CInv0 (startConsumers s asg).1 := by
  unfold startConsumers
  constructor <;> simp only []
  · exact h.pne
  · intro j x hx; obtain ⟨c, hc, e⟩ := h.pdr j x hx; exact ⟨c, List.mem_append_left _ hc, e⟩
  · exact h.sne
  · intro co hco x hx; obtain ⟨c, hc, e⟩ := h.sdr co hco x hx; exact ⟨c, List.mem_append_left _ hc, e⟩
  · exact h.hangf
  · intro c hc
    rcases List.mem_append.mp hc with m | m
    · have := h.clt c m; omega
    · obtain ⟨⟨tp, i⟩, hm, rfl⟩ := List.mem_map.mp m
      have := (List.mem_zipIdx' hm).1
      simp only []; omega
  · intro j x hx; have := h.pblt j x hx; omega
  · intro co hco x hx; have := h.sblt co hco x hx; omega
  · intro j x hx c hc ec
    rcases List.mem_append.mp hc with m | m
    · exact h.pbnh j x hx c m ec
    · obtain ⟨⟨tp, i⟩, hm, rfl⟩ := List.mem_map.mp m
      have := h.pblt j x hx
      simp only [] at ec; omega
  · intro co hco x hx c hc ec
    rcases List.mem_append.mp hc with m | m
    · exact h.sbnh co hco x hx c m ec
    · obtain ⟨⟨tp, i⟩, hm, rfl⟩ := List.mem_map.mp m
      have := h.sblt co hco x hx
      simp only [] at ec; omega
  · exact h.pdisj
  · exact h.sdisj
  · exact h.psub
  · exact h.ssub
  · intro j; have := h.plen j; simp only [List.length_append]; omega

/-! ## a shutdown Deferred fires -/

theorem splitStops_none (cid : Nat) : ∀ (l : List StopCo), splitStops cid l = none → ∀ co ∈ l, cid ∉ co.drain.pending := by
  intro l
  induction l with
  | nil => intro _ co hco; cases hco
  | cons x xs ih =>
    intro hs co hco
    simp only [splitStops] at hs
    split at hs
    · cases hs
    · rename_i hx
      split at hs
      · cases hs
      · rename_i hn
        rcases List.mem_cons.mp hco with rfl | m
        · simpa using hx
        · exact ih hn co m

/-- the batches of the other waiting `stop()` coroutines are disjoint from the batch of the one split off -/
theorem disj_of_split {l a b : List StopCo} {co : StopCo} (hl : l = a ++ co :: b)
    (hp : (l.map (·.drain.batch)).Pairwise (fun a b => ∀ x ∈ a, x ∉ b)) :
    ∀ co' ∈ a ++ b, ∀ x ∈ co'.drain.batch, x ∉ co.drain.batch := by
  subst hl
  simp only [List.map_append, List.map_cons, List.pairwise_append, List.pairwise_cons] at hp
  obtain ⟨_, ⟨hcb, _⟩, hab⟩ := hp
  intro co' hco' x hx
  rcases List.mem_append.mp hco' with m | m
  · exact hab _ (List.mem_map.mpr ⟨co', m, rfl⟩) _ List.mem_cons_self x hx
  · intro hx'
    exact hcb _ (List.mem_map.mpr ⟨co', m, rfl⟩) x hx' hx

/-- `consumerDown`'s bookkeeping of the consumer itself -/
theorem down_keep (s : St) (cid : Nat) (st : List StopCo) (p : Drain) :
    CKeep (fun x => x = cid) s { s with cons := s.cons.map fun (c : Con) => if c.cid = cid && c.phase == .draining then { c with phase := .stopped, startFired := true } else c, stops := st, prep := p } := by
  refine keep_map (fun (c : Con) => if (c.cid = cid && c.phase == .draining) = true then { c with phase := .stopped, startFired := true } else c) rfl rfl ?_ ?_ ?_
  · intro c; split <;> rfl
  · intro c; split <;> exact fun h => h
  · intro c _ hp hx _
    have : ¬ c.cid = cid := hx
    simp [this, hp]

theorem drainDone_keep (s : St) (d : Drain) (ok : Bool) : CKeep (fun x => x ∈ d.batch) s (drainDone s d ok).1 := by
  unfold drainDone
  split
  · exact CKeep.rfl' _ s
  · exact stopCons_keep s d.batch

theorem consumerDown_cinv0 {s : St} (h : CInv0 s) (cfg : Cfg) (cid : Nat) (ok : Bool) : CInv0 (consumerDown cfg s cid ok).1 := by
  unfold consumerDown
  (try simp only [])
  split
  · rename_i hc
    simp only [Bool.and_eq_true, decide_eq_true_eq, List.contains_eq_mem] at hc
    obtain ⟨hj, hin⟩ := hc
    have hcb : cid ∈ s.prep.batch := h.psub hj cid hin
    have hE2 : ∀ co ∈ s.stops, ∀ x ∈ co.drain.pending, x ∉ s.prep.batch :=
      fun co hco x hx hb => h.pdisj hj co hco x hb (h.ssub co hco x hx)
    split
    · -- still waiting for other consumers of the prepare drain
      rename_i hw
      have km := down_keep s cid s.stops { s.prep with pending := s.prep.pending.filter (· != cid) }
      obtain ⟨r1, r2⟩ := same_stops (E := fun x => x = cid) h (rfl : s.stops = s.stops) (fun co hco x hx e => hE2 co hco x hx (e ▸ hcb))
      refine h.transferG km r1 r2 (fun j => ?_) (fun _ => ⟨hj, rfl, fun x hx => ⟨(List.mem_filter.mp hx).1, by simpa using (List.mem_filter.mp hx).2⟩, ?_, List.length_filter_le _ _⟩)
      · have : s.jpc = .hang := j
        rw [hj] at this; cases this
      · intro he
        simp only [Bool.and_eq_true, Bool.not_eq_eq_eq_not, Bool.not_true, List.isEmpty_eq_false_iff] at hw
        exact hw.2 he
    · -- the prepare drain is over (last Deferred, or a failure)
      simp only [andThen_fst]
      have km := down_keep s cid s.stops ⟨[], []⟩
      have k2 := drainDone_keep { s with cons := s.cons.map fun (c : Con) => if c.cid = cid && c.phase == .draining then { c with phase := .stopped, startFired := true } else c, prep := ⟨[], []⟩ }
        { s.prep with pending := s.prep.pending.filter (· != cid) } ok
      have k3 := afterPrepare_keep (fun x => x ∈ s.prep.batch) (drainDone { s with cons := s.cons.map fun (c : Con) => if c.cid = cid && c.phase == .draining then { c with phase := .stopped, startFired := true } else c, prep := ⟨[], []⟩ }
        { s.prep with pending := s.prep.pending.filter (· != cid) } ok).1
      have k : CKeep (fun x => x ∈ s.prep.batch) s _ := ((km.mono (fun x e => by subst e; exact hcb)).trans k2).trans k3
      have hjp := afterPrepare_jpc (drainDone { s with cons := s.cons.map fun (c : Con) => if c.cid = cid && c.phase == .draining then { c with phase := .stopped, startFired := true } else c, prep := ⟨[], []⟩ }
        { s.prep with pending := s.prep.pending.filter (· != cid) } ok).1
      refine h.transferG k ?_ ?_ (fun j => absurd j hjp.2) (fun j => absurd j hjp.1)
      · exact (same_stops h (by simp) hE2).1
      · exact (same_stops (E := fun x => x ∈ s.prep.batch) h (by simp) hE2).2
  · rename_i hnp
    split
    · -- no `stop()` waits for it
      rename_i hsp
      have km := down_keep s cid s.stops s.prep
      obtain ⟨r1, r2⟩ := same_stops (E := fun x => x = cid) h (rfl : s.stops = s.stops)
        (fun co hco x hx e => splitStops_none cid _ hsp co hco (e ▸ hx))
      refine h.transferG km r1 r2 h.hangf (fun j => ⟨j, rfl, fun x hx => ⟨hx, fun e => hnp ?_⟩, h.pne j, Nat.le_refl _⟩)
      have j' : s.jpc = .prepare := j
      have hx' : cid ∈ s.prep.pending := e ▸ hx
      simp [j', hx']
    · rename_i a co b hsp
      obtain ⟨hl, hcid⟩ := splitStops_spec cid _ _ _ _ hsp
      have hl' : s.stops = a ++ co :: b := hl
      have hdj := disj_of_split hl' h.sdisj
      have hco : co ∈ s.stops := by rw [hl']; simp
      have hcb : cid ∈ co.drain.batch := h.ssub co hco cid hcid
      have hab : ∀ co' ∈ a ++ b, co' ∈ s.stops := by
        intro co' m; rw [hl']
        rcases List.mem_append.mp m with x | x
        · exact List.mem_append_left _ x
        · exact List.mem_append_right _ (List.mem_cons_of_mem _ x)
      have hother : ∀ co' ∈ a ++ b, ∃ co0 ∈ s.stops, co'.drain.batch = co0.drain.batch ∧
          (∀ x ∈ co'.drain.pending, x ∈ co0.drain.pending ∧ ¬ x ∈ co.drain.batch) ∧ co'.drain.pending ≠ [] :=
        fun co' m => ⟨co', hab co' m, rfl, fun x hx => ⟨hx, hdj co' m x (h.ssub co' (hab co' m) x hx)⟩, h.sne co' (hab co' m)⟩
      have hprep : s.jpc = .prepare → ∀ x ∈ s.prep.pending, x ∉ co.drain.batch :=
        fun j x hx => h.pdisj j co hco x (h.psub j x hx)
      split
      · -- its `stop()` still waits for other consumers
        rename_i hw
        have km := down_keep s cid (a ++ { co with drain := { co.drain with pending := co.drain.pending.filter (· != cid) } } :: b) s.prep
        refine h.transferG km ?_ ?_ h.hangf (fun j => ⟨j, rfl, fun x hx => ⟨hx, fun e => hprep j x hx (e ▸ hcb)⟩, h.pne j, Nat.le_refl _⟩)
        · intro co' m
          have m' : co' ∈ a ++ { co with drain := { co.drain with pending := co.drain.pending.filter (· != cid) } } :: b := m
          rcases List.mem_append.mp m' with x | x
          · obtain ⟨co0, h0, eb, hp, hne⟩ := hother co' (List.mem_append_left _ x)
            exact ⟨co0, h0, eb, fun y hy => ⟨(hp y hy).1, fun e => (hp y hy).2 (e ▸ hcb)⟩, hne⟩
          · rcases List.mem_cons.mp x with rfl | x
            · refine ⟨co, hco, rfl, fun y hy => ⟨(List.mem_filter.mp hy).1, by simpa using (List.mem_filter.mp hy).2⟩, ?_⟩
              intro he
              simp only [Bool.and_eq_true, Bool.not_eq_eq_eq_not, Bool.not_true, List.isEmpty_eq_false_iff] at hw
              exact hw.2 he
            · obtain ⟨co0, h0, eb, hp, hne⟩ := hother co' (List.mem_append_right _ x)
              exact ⟨co0, h0, eb, fun y hy => ⟨(hp y hy).1, fun e => (hp y hy).2 (e ▸ hcb)⟩, hne⟩
        · rw [hl']
          simp
      · -- its `stop()` continues: (on failure) the batch is stopped, then the loop goes on
        simp only [andThen_fst]
        refine stopLoop_cinv0 ?_ cfg co.err co.user
        have km := down_keep s cid (a ++ b) s.prep
        have k2 := drainDone_keep { s with cons := s.cons.map fun (c : Con) => if c.cid = cid && c.phase == .draining then { c with phase := .stopped, startFired := true } else c, stops := a ++ b }
          { co.drain with pending := co.drain.pending.filter (· != cid) } ok
        have k : CKeep (fun x => x ∈ co.drain.batch) s _ := (km.mono (fun x e => by subst e; exact hcb)).trans k2
        refine h.transferG k ?_ ?_ ?_ ?_
        · intro co' m
          exact hother co' (by simpa using m)
        · simp only [drainDone_stops']
          rw [hl']
          exact List.Sublist.map _ (List.Sublist.append (List.Sublist.refl _) (List.sublist_cons_self _ _))
        · intro j
          have j' : s.jpc = .hang := by simpa using j
          simpa using h.hangf j'
        · intro j
          have j' : s.jpc = .prepare := by simpa using j
          exact ⟨j', by simp, fun x hx => ⟨by simpa using hx, hprep j' x (by simpa using hx)⟩, by simpa using h.pne j', by simp⟩

theorem consumerDown_sdp {s : St} (h : SD s) (hl : s.stops ≠ [] → s.started = true ∨ s.stopping = true)
    (cfg : Cfg) (cid : Nat) (ok : Bool) : SD (consumerDown cfg s cid ok).1 := by
  unfold consumerDown
  (try simp only [])
  split
  · split
    · exact h
    · simp only [andThen_fst]
      exact h.transfer (by simp) (fun x => by simpa using x) (fun x => by simpa using x)
  · split
    · exact h
    · rename_i a co b hsp
      obtain ⟨hl0, _⟩ := splitStops_spec cid _ _ _ _ hsp
      have hl' : s.stops = a ++ co :: b := hl0
      split
      · intro _ _; simp
      · simp only [andThen_fst]
        rcases hl (by rw [hl']; simp) with x | x
        · exact stopLoop_sdp (Or.inl (by simpa using x)) cfg _ _
        · refine stopLoop_sdp (Or.inr ?_) cfg _ _
          intro y
          have : s.stopping = false := by simpa using y
          rw [x] at this; cases this

/-! ## every step -/

theorem step_cinv0 {s : St} (h : CInv0 s) (cfg : Cfg) (e : Ev) : CInv0 (step cfg s e).1 := by
  cases e with
  | start =>
    simp only [step]; split
    · exact h
    · exact joinAndSync_cinv0 (s := { s with started := true, startResult := none }) (cinv0_irrelevant h rfl rfl rfl rfl rfl rfl)
  | stop =>
    simp only [step]
    rcases userStop_cases cfg s with ⟨hu, _, _⟩ | hu <;> rw [hu]
    · exact h
    · exact stopCall_cinv0 h cfg none true
  | coordDone r =>
    simp only [step]; split
    · exact h
    · cases r with
      | ok => exact cinv0_move h (by simp) rfl rfl (by simp) rfl
      | none => exact cinv0_move h (by simp) rfl rfl (by simp) rfl
      | err e =>
        simp only []
        split
        · exact escape_cinv0 h cfg e
        · exact cinv0_move h (by simp) rfl rfl (by simp) rfl
        · exact cinv0_move h (by simp) rfl rfl (by simp) rfl
  | metaDone r =>
    simp only [step]; split
    · exact h
    · cases r with
      | err e => exact escape_cinv0 h cfg e
      | ok =>
        simp only []
        split
        · exact cinv0_move h (by simp) rfl rfl (by simp) rfl
        · exact prepare_cinv0 (s := { s with coordBroker := true }) (cinv0_irrelevant h rfl rfl rfl rfl rfl rfl)
  | joinDone r =>
    simp only [step]; split
    · exact h
    · cases r with
      | err e =>
        have h0 : CInv0 { s with jpc := .idle } := cinv0_move h (by simp) rfl rfl (by simp) rfl
        exact cinv0_irrelevant (rejoinAfterError_cinv0 h0 cfg e) rfl rfl rfl rfl rfl rfl
      | ok m g l n =>
        simp only [abandonHb_eq, andThen_fst]
        split
        · exact cinv0_move h (by simp) rfl rfl (by simp) rfl
        · split
          · exact cinv0_move h (by simp) rfl rfl (by simp) rfl
          · exact cinv0_move h (by simp) rfl rfl (by simp) rfl
  | partsDone r =>
    simp only [step]; split
    · cases r with
      | err e => exact escape_cinv0 h cfg e
      | ok =>
        simp only []
        split
        · exact cinv0_move h (by simp) rfl rfl (by simp) rfl
        · exact cinv0_move h (by simp) rfl rfl (by simp) rfl
    · exact h
  | syncDone r =>
    simp only [step]; split
    · exact h
    · cases r with
      | err e =>
        have h0 : CInv0 { s with jpc := .idle } := cinv0_move h (by simp) rfl rfl (by simp) rfl
        exact cinv0_irrelevant (rejoinAfterError_cinv0 h0 cfg e) rfl rfl rfl rfl rfl rfl
      | ok asg =>
        simp only []
        split
        · exact cinv0_move h (by simp) rfl rfl (by simp) rfl
        · simp only [andThen_fst]
          refine startConsumers_cinv0 ?_ asg
          exact cinv0_move h (by simp) (by simp) (by simp) (by simp) (by simp)
  | hbDone r =>
    simp only [step]; split
    · exact h
    · have h0 : CInv0 { s with hbInFlight := false } := cinv0_irrelevant h rfl rfl rfl rfl rfl rfl
      cases r with
      | ok => exact h0
      | err e =>
        simp only []
        split
        · simp only [andThen_fst]
          have h1 : CInv0 (hbStop { s with hbInFlight := false }).1 := cinv0_irrelevant h0 rfl rfl rfl rfl rfl rfl
          exact rejoinAfterError_cinv0 h1 cfg e
        · exact h0
  | leaveDone r =>
    simp only [step]; split
    · exact h
    · cases r with
      | ok => exact finishStop_cinv0 (s := { s with member := 0, gen := none }) (cinv0_irrelevant h rfl rfl rfl rfl rfl rfl) cfg _ _
      | err e => exact finishStop_cinv0 h cfg _ _
  | consumerDown cid ok =>
    simp only [step]; split
    · exact consumerDown_cinv0 h cfg cid ok
    · exact h
  | consumerErr cid e =>
    simp only [step]; split
    · have k : CKeep NoE s { s with cons := s.cons.map fun c => if c.cid = cid then { c with startFired := true } else c } := by
        refine keep_map (fun c => if c.cid = cid then { c with startFired := true } else c) rfl rfl ?_ ?_ ?_
        · intro c; split <;> rfl
        · intro c; split <;> exact fun x => x
        · intro c _ hp _ _; split <;> exact hp
      have h1 : CInv0 { s with cons := s.cons.map fun c => if c.cid = cid then { c with startFired := true } else c } :=
        h.transfer k rfl (fun x => x) (fun j => ⟨j, rfl⟩) (fun j => j) (fun _ _ _ => id) (fun _ _ _ _ => id)
      split
      · exact h1
      · exact rejoinAfterError_cinv0 h1 cfg e
    · exact h
  | consumerQuirk cid q =>
    simp only [step]; split
    · have k : CKeep NoE s { s with cons := s.cons.map fun c => if c.cid = cid && c.phase == .running then { c with quirk := q } else c } := by
        refine keep_map (fun c => if (c.cid = cid && c.phase == .running) = true then { c with quirk := q } else c) rfl rfl ?_ ?_ ?_
        · intro c; split <;> rfl
        · intro c; split <;> exact fun x => x
        · intro c _ hp _ _; split <;> exact hp
      exact h.transfer k rfl (fun x => x) (fun j => ⟨j, rfl⟩) (fun j => j) (fun _ _ _ => id) (fun _ _ _ _ => id)
    · exact h
  | fire id hbNext =>
    simp only [step]
    split
    · exact h
    split
    · exact h
    · split
      · exact h
      · have h1 : CInv0 { s with timers := s.timers.filter (·.id != id) } := cinv0_irrelevant h rfl rfl rfl rfl rfl rfl
        split
        · exact joinAndSync_cinv0 h1
        · exact joinAndSync_cinv0 h1
        · simp only [andThen_fst]
          split <;> split <;> exact cinv0_irrelevant h rfl rfl rfl rfl rfl rfl
  | advance dt =>
    simp only [step]; split
    · exact h
    · exact cinv0_irrelevant h rfl rfl rfl rfl rfl rfl

/-- `SD` across a helper that leaves `stops`, `_stop_draining` and `_stopping` alone (frame lemmas) -/
macro "sd_frames " h:term : tactic =>
  `(tactic| exact SD.transfer $h (by simp) (fun x => by simpa using x) (fun x => by simpa using x))

theorem startConsumers_sdp {s : St} (h : SD s) (asg : List (Nat × List Int)) : SD (startConsumers s asg).1 := h

theorem step_sdp {s : St} (h : SD s) (hs : SInv s) (cfg : Cfg) (e : Ev) : SD (step cfg s e).1 := by
  cases e with
  | start =>
    simp only [step]; split
    · exact h
    · sd_frames h
  | stop =>
    simp only [step]
    rcases userStop_cases cfg s with ⟨hu, _, _⟩ | hu <;> rw [hu]
    · exact h
    · exact stopCall_sdp h cfg none true
  | coordDone r =>
    simp only [step]; split
    · exact h
    · cases r with
      | ok => exact h
      | none => sd_frames h
      | err e =>
        simp only []
        split
        · exact escape_sdp h cfg e
        · sd_frames h
        · sd_frames h
  | metaDone r =>
    simp only [step]; split
    · exact h
    · cases r with
      | err e => exact escape_sdp h cfg e
      | ok =>
        simp only []
        split
        · exact h
        · sd_frames h
  | joinDone r =>
    simp only [step]; split
    · exact h
    · cases r with
      | err e =>
        have h0 : SD { s with jpc := .idle } := h
        exact rejoinAfterError_sdp h0 cfg e
      | ok m g l n =>
        simp only [abandonHb_eq, andThen_fst]
        split
        · exact h
        · split
          · exact h
          · exact h
  | partsDone r =>
    simp only [step]; split
    · cases r with
      | err e => exact escape_sdp h cfg e
      | ok =>
        simp only []
        split
        · exact h
        · exact h
    · exact h
  | syncDone r =>
    simp only [step]; split
    · exact h
    · cases r with
      | err e =>
        have h0 : SD { s with jpc := .idle } := h
        exact rejoinAfterError_sdp h0 cfg e
      | ok asg =>
        simp only []
        split
        · exact h
        · simp only [andThen_fst]
          refine startConsumers_sdp ?_ asg
          sd_frames h
  | hbDone r =>
    simp only [step]; split
    · exact h
    · have h0 : SD { s with hbInFlight := false } := h
      cases r with
      | ok => exact h0
      | err e =>
        simp only []
        split
        · simp only [andThen_fst]
          have h1 : SD (hbStop { s with hbInFlight := false }).1 := h0
          exact rejoinAfterError_sdp h1 cfg e
        · exact h0
  | leaveDone r =>
    simp only [step]; split
    · exact h
    · cases r with
      | ok =>
        have h0 : SD { s with member := 0, gen := none } := h
        sd_frames h0
      | err e => sd_frames h
  | consumerDown cid ok =>
    simp only [step]; split
    · refine consumerDown_sdp h ?_ cfg cid ok
      intro hne
      by_cases h1 : s.started = true
      · exact Or.inl h1
      · by_cases h2 : s.stopping = true
        · exact Or.inr h2
        · exact absurd (hs.pristine_empty (by simpa using h1) (by simpa using h2)).2.2.2.2.1 hne
    · exact h
  | consumerErr cid e =>
    simp only [step]; split
    · have h1 : SD { s with cons := s.cons.map fun c => if c.cid = cid then { c with startFired := true } else c } := h
      split
      · exact h1
      · exact rejoinAfterError_sdp h1 cfg e
    · exact h
  | consumerQuirk cid q =>
    simp only [step]; split
    · exact h
    · exact h
  | fire id hbNext =>
    simp only [step]
    split
    · exact h
    split
    · exact h
    · split
      · exact h
      · have h1 : SD { s with timers := s.timers.filter (·.id != id) } := h
        split
        · sd_frames h1
        · sd_frames h1
        · simp only [andThen_fst]
          split <;> split <;> exact h
  | advance dt =>
    simp only [step]; split
    · exact h
    · exact h

/-- **the converse drain invariant is preserved by every step** -/
theorem step_cinv (cfg : Cfg) (s : St) (e : Ev) (h : SInv s) (_d : DInv s) (c : CInv s) : CInv (step cfg s e).1 :=
  ⟨step_cinv0 c.toCInv0 cfg e, step_sdp c.sdstop h cfg e⟩

theorem finalFrom_cinv (cfg : Cfg) (evs : List Ev) : ∀ s, SInv s → DInv s → CInv s → CInv (finalFrom cfg s evs) := by
  induction evs with
  | nil => intro s _ _ c; exact c
  | cons e es ih =>
    intro s h d c
    exact ih _ (step_sinv h cfg e) (step_dinv d h cfg e) (step_cinv cfg s e h d c)

theorem final_cinv (cfg : Cfg) (evs : List Ev) : CInv (final cfg evs) :=
  finalFrom_cinv cfg evs init sinv_init dinv_init cinv_init

theorem finalFrom_dinv (cfg : Cfg) (evs : List Ev) : ∀ s, SInv s → DInv s → DInv (finalFrom cfg s evs) := by
  induction evs with
  | nil => intro s _ d; exact d
  | cons e es ih =>
    intro s h d
    exact ih _ (step_sinv h cfg e) (step_dinv d h cfg e)

theorem final_dinv (cfg : Cfg) (evs : List Ev) : DInv (final cfg evs) := finalFrom_dinv cfg evs init sinv_init dinv_init

/-- a per-step check that follows from `SInv`, `DInv` and `CInv` of the post-state holds at every step of every run -/
theorem all_runFrom_c (cfg : Cfg) (P : MStep → Bool)
    (hstep : ∀ s, SInv s → DInv s → CInv s → ∀ e, P ⟨e, (step cfg s e).2, snap (step cfg s e).1⟩ = true) (evs : List Ev) :
    ∀ s, SInv s → DInv s → CInv s → (toMSteps (runFrom cfg s evs)).all P = true := by
  induction evs with
  | nil => intro s _ _ _; rfl
  | cons e es ih =>
    intro s h hd hc
    simp only [runFrom, toMSteps, List.map_cons, List.all_cons, Bool.and_eq_true]
    exact ⟨hstep s h hd hc e, ih _ (step_sinv h cfg e) (step_dinv hd h cfg e) (step_cinv cfg s e h hd hc)⟩

end Afkak.Group
