import AfkakProofs.Group.Busy
import AfkakProofs.Group.AfterStop
import Afkak.Monitor.C16
import Afkak.Monitor.C17
/-!
# From state invariants to the monitors' verdict on model traces
-/
namespace Afkak.Group
open Afkak.Consts

theorem length_pos_of_mem {α} {l : List α} {a : α} (h : a ∈ l) : 1 ≤ l.length := by
  cases l with
  | nil => cases h
  | cons x xs => simp

/-- `neverIdleStep` holds of the snapshot of every state satisfying `SInv` and `Busy` -/
theorem neverIdle_of_inv {s : St} (h : SInv s) (hb : Busy s) (e : Ev) (obs : List Ob) :
    Afkak.Monitor.C17.neverIdleStep ⟨e, obs, snap s⟩ = true := by
  unfold Afkak.Monitor.C17.neverIdleStep Afkak.Monitor.C17.busy snap
  simp only [Bool.or_eq_true, Bool.not_eq_eq_eq_not, Bool.not_true, Bool.and_eq_false_imp, Bool.and_eq_true, decide_eq_true_eq]
  by_cases h1 : s.started = true
  · by_cases h2 : s.stopping = false
    · right
      by_cases h3 : s.rejoinD = true
      · simp [h3]
      · have h3' : s.rejoinD = false := by simpa using h3
        by_cases h4 : s.rejoinNeeded = false
        · have hr := h.stable_hb h4 h2
          obtain ⟨t, ht, hk⟩ := h.hb_has hr
          have : 1 ≤ (s.timers.filter (·.kind == .hb)).length :=
            length_pos_of_mem (List.mem_filter.mpr ⟨ht, by simp [hk]⟩)
          simp [h4, hr, this]
        · have h4' : s.rejoinNeeded = true := by simpa using h4
          obtain ⟨t, ht, hk⟩ := hb h1 h2 h4' h3'
          have : 1 ≤ (s.timers.filter (·.kind != .hb)).length :=
            length_pos_of_mem (List.mem_filter.mpr ⟨ht, by simpa using hk⟩)
          simp [this]
    · left; simp_all
  · left; simp_all

theorem busy_init : Busy init := by intro h; simp [init] at h

theorem neverIdle_runFrom (cfg : Cfg) (evs : List Ev) :
    ∀ s, SInv s → Busy s → (∀ e ∈ evs, nonKafkaEscape e = false) →
      (toMSteps (runFrom cfg s evs)).all Afkak.Monitor.C17.neverIdleStep = true := by
  induction evs with
  | nil => intro s _ _ _; rfl
  | cons e es ih =>
    intro s h hb hne
    have h' := step_sinv h cfg e
    have hb' := step_busy h hb cfg e (hne e (List.mem_cons_self))
    simp only [runFrom, toMSteps, List.map_cons, List.all_cons, Bool.and_eq_true]
    exact ⟨neverIdle_of_inv h' hb' e _, ih _ h' hb' (fun e' he' => hne e' (List.mem_cons_of_mem _ he'))⟩

theorem neverIdle_run (cfg : Cfg) (evs : List Ev) (hne : ∀ e ∈ evs, nonKafkaEscape e = false) :
    Afkak.Monitor.C17.neverIdle (toMSteps (run cfg evs)) = true :=
  neverIdle_runFrom cfg evs init sinv_init busy_init hne

/-- a per-step check that follows from `SInv` of the pre-state holds at every step of every run -/
theorem all_runFrom (cfg : Cfg) (P : MStep → Bool)
    (hstep : ∀ s, SInv s → ∀ e, P ⟨e, (step cfg s e).2, snap (step cfg s e).1⟩ = true) (evs : List Ev) :
    ∀ s, SInv s → (toMSteps (runFrom cfg s evs)).all P = true := by
  induction evs with
  | nil => intro s _; rfl
  | cons e es ih =>
    intro s h
    simp only [runFrom, toMSteps, List.map_cons, List.all_cons, Bool.and_eq_true]
    exact ⟨hstep s h e, ih _ (step_sinv h cfg e)⟩

theorem afterStop_run (cfg : Cfg) (evs : List Ev) :
    Afkak.Monitor.C16.afterStopOnlyLeave (toMSteps (run cfg evs)) = true := by
  refine all_runFrom cfg _ (fun s h e => ?_) evs init sinv_init
  unfold Afkak.Monitor.C16.afterStopStep snap
  simp only [Bool.or_eq_true, Bool.not_eq_eq_eq_not, Bool.not_true]
  by_cases hs : (step cfg s e).1.stopping = true
  · right
    rw [List.any_eq_false]
    intro o ho
    have := step_afterStop h cfg e hs o ho
    simp [this]
  · left; simpa using hs

end Afkak.Group
