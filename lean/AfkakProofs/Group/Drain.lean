import AfkakProofs.Group.NoHeld
/-!
# Where the draining consumers are

`DInv`: a draining consumer is waited for by the `on_join_prepare` of the join coroutine (its cid is
in `prep.pending` while `jpc = prepare`) or by a `ConsumerGroup.stop` (its cid is in the pending list
of one of `stops`); pending lists are within their batches; a stop that drains has set
`_stop_draining`; and a join coroutine that is in its own `on_join_prepare` drain started it before
any stop did (`_stop_draining` false) — or the member is stopping.
-/
namespace Afkak.Group
open Afkak.Consts

structure DInv (s : St) : Prop where
  dw : ∀ c ∈ s.cons, c.phase = .draining →
    (s.jpc = .prepare ∧ c.cid ∈ s.prep.pending) ∨ (∃ co ∈ s.stops, c.cid ∈ co.drain.pending)
  psub : s.jpc = .prepare → ∀ x ∈ s.prep.pending, x ∈ s.prep.batch
  ssub : ∀ co ∈ s.stops, ∀ x ∈ co.drain.pending, x ∈ co.drain.batch
  sflag : s.stops ≠ [] → s.stopDraining = true
  pflag : s.jpc = .prepare → s.stopDraining = false ∨ s.stopping = true

/-- every draining consumer of `s'` was draining (same cid) in `s` -/
def NoNewDrain (s s' : St) : Prop :=
  ∀ c' ∈ s'.cons, c'.phase = .draining → ∃ c ∈ s.cons, c.cid = c'.cid ∧ c.phase = .draining

theorem NoNewDrain.rfl' (s : St) : NoNewDrain s s := fun c hc hp => ⟨c, hc, rfl, hp⟩
theorem NoNewDrain.of_cons {s s' : St} (e : s'.cons = s.cons) : NoNewDrain s s' := by
  intro c hc hp; rw [e] at hc; exact ⟨c, hc, rfl, hp⟩
theorem NoNewDrain.trans {a b c : St} (h1 : NoNewDrain a b) (h2 : NoNewDrain b c) : NoNewDrain a c := by
  intro x hx hp
  obtain ⟨y, hy, e1, p1⟩ := h2 x hx hp
  obtain ⟨z, hz, e2, p2⟩ := h1 y hy p1
  exact ⟨z, hz, by rw [e2, e1], p2⟩

theorem stopCons_nnd (s : St) (cids : List Nat) : NoNewDrain s (stopCons s cids).1 := by
  unfold stopCons
  intro c' hc' hp
  simp only [] at hc'
  obtain ⟨c, hc, rfl⟩ := List.mem_map.mp hc'
  split at hp
  · cases hp
  · exact ⟨c, hc, by simp_all, hp⟩

/-- a consumer whose cid is in `cids` is not draining after `stopCons` -/
theorem stopCons_undrains (s : St) (cids : List Nat) : ∀ c' ∈ (stopCons s cids).1.cons, c'.cid ∈ cids → c'.phase ≠ .draining := by
  unfold stopCons
  intro c' hc' hin hp
  simp only [] at hc'
  obtain ⟨c, hc, rfl⟩ := List.mem_map.mp hc'
  split at hp
  · cases hp
  · rename_i hn
    split at hin
    · simp_all
    · simp only [Bool.and_eq_true, List.contains_eq_mem, decide_eq_true_eq, bne_iff_ne, ne_eq, not_and, Decidable.not_not] at hn
      rw [hn hin] at hp; cases hp

/-- transfer: the prepare drain is untouched (or the coroutine was not in it and is not now), the
    stops are untouched, no new draining consumer -/
theorem DInv.transfer {s s' : St} (h : DInv s) (hn : NoNewDrain s s') (e1 : s'.stops = s.stops)
    (e2 : s'.stopDraining = s.stopDraining) (e3 : s.stopping = true → s'.stopping = true)
    (e4 : s'.jpc = .prepare ↔ s.jpc = .prepare) (e5 : s.jpc = .prepare → s'.prep = s.prep) : DInv s' := by
  constructor
  · intro c' hc' hp
    obtain ⟨c, hc, ec, pc⟩ := hn c' hc' hp
    rcases h.dw c hc pc with ⟨j, m⟩ | ⟨co, hco, m⟩
    · left; exact ⟨e4.mpr j, by rw [e5 j, ← ec]; exact m⟩
    · right; exact ⟨co, by rw [e1]; exact hco, by rw [← ec]; exact m⟩
  · intro j; rw [e5 (e4.mp j)]; exact h.psub (e4.mp j)
  · rw [e1]; exact h.ssub
  · rw [e1, e2]; exact h.sflag
  · intro j
    rcases h.pflag (e4.mp j) with x | x
    · left; rw [e2]; exact x
    · right; exact e3 x

theorem dinv_init : DInv init := by
  constructor <;> simp [init]

end Afkak.Group

namespace Afkak.Group
open Afkak.Consts

/-! ## no helper but `beginDrain` creates a draining consumer -/

theorem stopConsumers_nnd (s : St) : NoNewDrain s (stopConsumers s).1 := stopCons_nnd s _

theorem rowEffects_nnd (s : St) (row : RejoinRow) : NoNewDrain s (rowEffects s row).1 := by
  unfold rowEffects
  cases row.leave <;> cases row.clearMember <;> simp only [andThen_fst, if_true, Bool.false_eq_true, if_false]
  · exact NoNewDrain.rfl' s
  · exact NoNewDrain.of_cons rfl
  · exact stopConsumers_nnd s
  · exact (stopConsumers_nnd s).trans (NoNewDrain.of_cons rfl)

theorem rejoinWith_nnd (cfg : Cfg) (s : St) (row : RejoinRow) : NoNewDrain s (rejoinWith cfg s row).1.1 := by
  unfold rejoinWith
  cases row.act <;> simp only [andThen_fst]
  · exact (rowEffects_nnd s row).trans (NoNewDrain.of_cons (by simp))
  · exact rowEffects_nnd s row
  · exact NoNewDrain.rfl' s
  · exact stopConsumers_nnd s

theorem rejoinCore_nnd (cfg : Cfg) (s : St) (e : GErr) : NoNewDrain s (rejoinCore cfg s e).1.1 := rejoinWith_nnd _ _ _

theorem escapeCore_nnd (cfg : Cfg) (s : St) (e : GErr) : NoNewDrain s (escapeCore cfg s e).1.1 := by
  unfold escapeCore
  simp only []
  split
  · exact (NoNewDrain.of_cons (s' := { s with jpc := .idle, rejoinD := false }) rfl).trans (rejoinCore_nnd cfg _ e)
  · exact NoNewDrain.of_cons rfl

/-- `rejoin_after_error`'s table effects keep `DInv` -/
theorem rejoinWith_dinv {s : St} (h : DInv s) (cfg : Cfg) (row : RejoinRow) : DInv (rejoinWith cfg s row).1.1 := by
  have c := rejoinWith_ctl cfg s row
  exact h.transfer (rejoinWith_nnd cfg s row) c.stops (by simp) (fun x => by rw [c.stopping]; exact x)
    (by rw [c.jpc]) (fun _ => c.prep)

theorem rejoinCore_dinv {s : St} (h : DInv s) (cfg : Cfg) (e : GErr) : DInv (rejoinCore cfg s e).1.1 := rejoinWith_dinv h cfg _

theorem stopCons_dinv {s : St} (h : DInv s) (cids : List Nat) : DInv (stopCons s cids).1 :=
  h.transfer (stopCons_nnd s cids) rfl rfl (fun x => x) Iff.rfl (fun _ => rfl)

/-- leaving a coroutine position that is not the prepare drain -/
theorem dinv_set_jpc {s : St} (h : DInv s) (hj : s.jpc ≠ .prepare) (j : JPc) (hj' : j ≠ .prepare) (rd : Bool) :
    DInv { s with jpc := j, rejoinD := rd } :=
  h.transfer (NoNewDrain.of_cons rfl) rfl rfl (fun x => x) ⟨fun x => absurd x hj', fun x => absurd x hj⟩ (fun x => absurd x hj)

theorem escapeCore_dinv {s : St} (h : DInv s) (hj : s.jpc ≠ .prepare) (cfg : Cfg) (e : GErr) : DInv (escapeCore cfg s e).1.1 := by
  unfold escapeCore
  simp only []
  have h0 := dinv_set_jpc h hj .idle (by decide) false
  split
  · exact rejoinCore_dinv h0 cfg e
  · exact h0

theorem escapeCore_jpc (cfg : Cfg) (s : St) (e : GErr) : (escapeCore cfg s e).1.1.jpc = .idle := by
  unfold escapeCore
  simp only []
  split <;> simp

/-- cancelling the join coroutine: in the prepare drain every consumer of the batch is stopped -/
theorem cancelJoin_dinv {s : St} (h : DInv s) (cfg : Cfg) : DInv (cancelJoin cfg s).1 ∧ (cancelJoin cfg s).1.jpc ≠ .prepare ∨
    (s.rejoinD = false ∧ (cancelJoin cfg s).1 = s) := by
  unfold cancelJoin
  by_cases hr : s.rejoinD = true
  · left
    simp only [hr, if_true]
    have hrd : ∀ j, j ≠ JPc.prepare → s.jpc ≠ .prepare → DInv { s with rejoinD := false, jpc := j } := fun j hj hs => dinv_set_jpc h hs j hj false
    cases hjp : s.jpc <;> simp only [andThen_fst]
    · exact ⟨by simpa [hjp] using hrd .idle (by decide) (by simp [hjp]), by simp⟩
    · -- coordLookup
      have h1 : DInv { s with rejoinD := false, jpc := .coordLookup } := by simpa [hjp] using hrd .coordLookup (by decide) (by simp [hjp])
      split
      · exact ⟨escapeCore_dinv h1 (by simp) cfg _, by rw [escapeCore_jpc]; decide⟩
      · refine ⟨?_, by simp⟩
        exact (h1.transfer (NoNewDrain.of_cons rfl) rfl rfl (fun x => x) (by simp) (fun x => by simp at x))
      · refine ⟨?_, by simp⟩
        exact (h1.transfer (NoNewDrain.of_cons rfl) rfl rfl (fun x => x) (by simp) (fun x => by simp at x))
    · exact ⟨by simpa [hjp] using hrd .idle (by decide) (by simp [hjp]), by simp⟩
    · -- prepare: the batch is stopped
      refine ⟨?_, by simp⟩
      constructor
      · intro c' hc' hp
        simp only [] at hc'
        have hc'' : c' ∈ (stopCons { s with rejoinD := false, jpc := .prepare } s.prep.batch).1.cons := hc'
        obtain ⟨c, hc, ec, pc⟩ := stopCons_nnd _ _ c' hc'' hp
        rcases h.dw c hc pc with ⟨_, m⟩ | ⟨co, hco, m⟩
        · exact absurd hp (stopCons_undrains _ _ c' hc'' (by rw [← ec]; exact h.psub hjp _ m))
        · right; exact ⟨co, hco, by rw [← ec]; exact m⟩
      · intro x; simp at x
      · exact h.ssub
      · exact h.sflag
      · intro x; simp at x
    · exact ⟨by simpa [hjp] using hrd .idle (by decide) (by simp [hjp]), by simp⟩
    · -- join
      have h1 : DInv { s with rejoinD := false, jpc := .idle } := by simpa [hjp] using hrd .idle (by decide) (by simp [hjp])
      exact ⟨rejoinCore_dinv h1 cfg _, by simp [hjp]⟩
    · rename_i n
      have h1 : DInv { s with rejoinD := false, jpc := .loadParts n } := by simpa [hjp] using hrd (.loadParts n) (by simp) (by simp [hjp])
      exact ⟨escapeCore_dinv h1 (by simp) cfg _, by rw [escapeCore_jpc]; decide⟩
    · have h1 : DInv { s with rejoinD := false, jpc := .idle } := by simpa [hjp] using hrd .idle (by decide) (by simp [hjp])
      exact ⟨rejoinCore_dinv h1 cfg _, by simp [hjp]⟩
  · right
    simp only [hr]
    exact ⟨by simpa using hr, rfl⟩

end Afkak.Group

namespace Afkak.Group
open Afkak.Consts

/-- `DInv` for a state whose coroutine is not in the prepare drain only needs the stops part -/
theorem dinv_of_stops {s : St} (hj : s.jpc ≠ .prepare)
    (dws : ∀ c ∈ s.cons, c.phase = .draining → ∃ co ∈ s.stops, c.cid ∈ co.drain.pending)
    (ssub : ∀ co ∈ s.stops, ∀ x ∈ co.drain.pending, x ∈ co.drain.batch)
    (sflag : s.stops ≠ [] → s.stopDraining = true) : DInv s :=
  ⟨fun c hc hp => Or.inr (dws c hc hp), fun j => absurd j hj, ssub, sflag, fun j => absurd j hj⟩

theorem DInv.dws {s : St} (h : DInv s) (hj : s.jpc ≠ .prepare) :
    ∀ c ∈ s.cons, c.phase = .draining → ∃ co ∈ s.stops, c.cid ∈ co.drain.pending := by
  intro c hc hp
  rcases h.dw c hc hp with ⟨j, _⟩ | x
  · exact absurd j hj
  · exact x

/-- fields that `DInv` does not look at -/
theorem dinv_irrelevant {s s' : St} (h : DInv s) (e0 : s'.cons = s.cons) (e1 : s'.stops = s.stops) (e2 : s'.stopDraining = s.stopDraining)
    (e3 : s'.stopping = s.stopping) (e4 : s'.jpc = s.jpc) (e5 : s'.prep = s.prep) : DInv s' :=
  h.transfer (NoNewDrain.of_cons e0) e1 e2 (fun x => by rw [e3]; exact x) (by rw [e4]) (fun _ => e5)

theorem finishStop_dinv {s : St} (h : DInv s) (hrd : s.rejoinD = false → s.jpc ≠ .prepare) (cfg : Cfg) (err : Option GErr) (user : Bool) :
    DInv (finishStop cfg s err user).1 := by
  unfold finishStop
  simp only [andThen_fst]
  rcases cancelJoin_dinv h cfg with ⟨d, _⟩ | ⟨r, e⟩
  · exact dinv_irrelevant d rfl rfl rfl rfl rfl rfl
  · have : DInv (cancelJoin cfg s).1 := by rw [e]; exact h
    exact dinv_irrelevant this rfl rfl rfl rfl rfl rfl

theorem leaveOrFinish_dinv {s : St} (h : DInv s) (hrd : s.rejoinD = false → s.jpc ≠ .prepare) (cfg : Cfg) (err : Option GErr) (user : Bool) :
    DInv (leaveOrFinish cfg err user s).1 := by
  unfold leaveOrFinish
  split
  · exact dinv_irrelevant h rfl rfl rfl rfl rfl rfl
  · exact finishStop_dinv h hrd cfg err user

theorem coordStop_dinv {s : St} (h : DInv s) (hrd : s.rejoinD = false → s.jpc ≠ .prepare) (cfg : Cfg) (err : Option GErr) (user : Bool) :
    DInv (coordStop cfg s err user).1 := by
  unfold coordStop
  split
  · exact h
  · simp only []
    have h1 : DInv { s with stopping := true, rejoinNeeded := false } :=
      h.transfer (NoNewDrain.of_cons rfl) rfl rfl (fun _ => rfl) Iff.rfl (fun _ => rfl)
    split
    · exact h1
    · simp only [andThen_fst]
      have h2 : DInv (stopCancelDc { s with stopping := true, rejoinNeeded := false }).1 :=
        h1.transfer (NoNewDrain.of_cons (by simp)) (by simp) (by simp) (fun _ => by simp) (by simp) (fun _ => by simp)
      have h3 : DInv (stopCancelHb cfg (stopCancelDc { s with stopping := true, rejoinNeeded := false }).1).1 := by
        unfold stopCancelHb
        split
        · simp only []
          split
          · simp only [andThen_fst]
            refine rejoinCore_dinv ?_ cfg _
            exact h2.transfer (NoNewDrain.of_cons rfl) rfl rfl (fun x => x) Iff.rfl (fun _ => rfl)
          · exact h2.transfer (NoNewDrain.of_cons rfl) rfl rfl (fun x => x) Iff.rfl (fun _ => rfl)
        · exact h2
      have h4 : DInv (stopLooper (stopCancelHb cfg (stopCancelDc { s with stopping := true, rejoinNeeded := false }).1).1).1 :=
        h3.transfer (NoNewDrain.of_cons (by simp)) (by simp) (by simp) (fun x => by simpa using x) (by simp) (fun _ => by simp)
      refine leaveOrFinish_dinv h4 ?_ cfg err user
      simp only [stopLooper_rejoinD', stopLooper_jpc', stopCancelHb_rejoinD', stopCancelHb_jpc', stopCancelDc_rejoinD', stopCancelDc_jpc']
      exact hrd

end Afkak.Group

namespace Afkak.Group
open Afkak.Consts

/-- after `beginDrain` a draining consumer was draining before or its cid is in the new pending list -/
theorem beginDrain_drain (s : St) : ∀ c' ∈ (beginDrain s).1.cons, c'.phase = .draining →
    (∃ c ∈ s.cons, c.cid = c'.cid ∧ c.phase = .draining) ∨ c'.cid ∈ (beginDrain s).2.2.pending := by
  unfold beginDrain
  simp only []
  intro c' hc' hp
  obtain ⟨c, hc, rfl⟩ := List.mem_map.mp hc'
  by_cases hh : c.held = true
  · right
    simp only [hh, if_true] at hp ⊢
    split at hp
    · cases hp
    · rename_i hq
      simp only [hh, if_true, hq, if_false]
      exact List.mem_map.mpr ⟨c, List.mem_filter.mpr ⟨List.mem_filter.mpr ⟨hc, hh⟩, by simpa using hq⟩, rfl⟩
  · left
    simp only [hh] at hp ⊢
    exact ⟨c, hc, by simp [hh], by simpa [hh] using hp⟩

theorem beginDrain_sub (s : St) : ∀ x ∈ (beginDrain s).2.2.pending, x ∈ (beginDrain s).2.2.batch := by
  unfold beginDrain
  simp only []
  intro x hx
  obtain ⟨c, hc, rfl⟩ := List.mem_map.mp hx
  exact List.mem_map.mpr ⟨c, (List.mem_filter.mp hc).1, rfl⟩

/-- a drain that ends at once leaves no new draining consumer -/
theorem drainNow_nnd (s : St) (h : (drainFails s || (beginDrain s).2.2.pending.isEmpty) = true) :
    NoNewDrain s (drainDone (beginDrain s).1 (beginDrain s).2.2 (!drainFails s)).1 := by
  intro c' hc' hp
  unfold drainDone at hc'
  by_cases hf : drainFails s = true
  · simp only [hf, Bool.not_true, Bool.false_eq_true, if_false] at hc'
    obtain ⟨c1, hc1, e1, p1⟩ := stopCons_nnd _ _ c' hc' hp
    rcases beginDrain_drain s c1 hc1 p1 with x | x
    · obtain ⟨c0, h0, e0, p0⟩ := x; exact ⟨c0, h0, by rw [e0, e1], p0⟩
    · exact absurd hp (stopCons_undrains _ _ c' hc' (by rw [← e1]; exact beginDrain_sub s _ x))
  · have hf' : drainFails s = false := by simpa using hf
    simp only [hf', Bool.not_false, if_true] at hc'
    rcases beginDrain_drain s c' hc' hp with x | x
    · exact x
    · simp only [hf', Bool.false_or, List.isEmpty_iff] at h
      rw [h] at x; cases x

theorem stopLoop_dinv {s : St} (h : DInv s) (hrd : s.rejoinD = false → s.jpc ≠ .prepare)
    (hfl : (heldCids s).isEmpty = false → s.stopDraining = true) (cfg : Cfg) (err : Option GErr) (user : Bool) :
    DInv (stopLoop cfg s err user).1 := by
  unfold stopLoop
  split
  · exact coordStop_dinv h hrd cfg err user
  · rename_i he
    have hflag := hfl (by simpa using he)
    simp only []
    split
    · rename_i hnow
      simp only [andThen_fst]
      have h1 : DInv (drainDone (beginDrain s).1 (beginDrain s).2.2 (!drainFails s)).1 :=
        h.transfer (drainNow_nnd s hnow) (by simp) (by simp) (fun x => by simpa using x) (by simp) (fun _ => by simp)
      refine coordStop_dinv h1 ?_ cfg err user
      simpa using hrd
    · constructor
      · intro c' hc' hp
        rcases beginDrain_drain s c' hc' hp with ⟨c0, h0, e0, p0⟩ | x
        · rcases h.dw c0 h0 p0 with ⟨j, m⟩ | ⟨co, hco, m⟩
          · left; exact ⟨j, by rw [← e0]; exact m⟩
          · right; exact ⟨co, List.mem_append_left _ hco, by rw [← e0]; exact m⟩
        · right; exact ⟨⟨(beginDrain s).2.2, err, user⟩, List.mem_append_right _ (List.mem_singleton.mpr rfl), x⟩
      · exact h.psub
      · intro co hco
        rcases List.mem_append.mp hco with x | x
        · exact h.ssub co x
        · simp only [List.mem_singleton] at x; subst x; exact beginDrain_sub s
      · intro _; exact hflag
      · exact h.pflag

/-- `ConsumerGroup.stop` — with what `SInv` says about a state that holds consumers -/
theorem stopCall_dinv' {s : St} (h : DInv s) (hrd : s.rejoinD = false → s.jpc ≠ .prepare)
    (hprep : s.jpc = .prepare → NoHeld s) (hnh : ¬ (s.started = true ∧ s.stopping = false) → NoHeld s)
    (cfg : Cfg) (err : Option GErr) (user : Bool) :
    DInv (stopCall cfg s err user).1 := by
  unfold stopCall
  split
  · rename_i hc
    have hj : s.jpc = .prepare → (heldCids s).isEmpty = true := fun j => (heldCids_isEmpty s).mpr (hprep j)
    -- setting the flag: if the coroutine is in its prepare drain no consumer is held, so the stop goes
    -- straight to `Coordinator.stop` and sets `_stopping`
    by_cases hp : s.jpc = .prepare
    · have he := hj hp
      unfold stopLoop
      have he' : (heldCids { s with stopDraining := true }).isEmpty = true := he
      simp only [he', if_true]
      have hst : s.started = true ∧ s.stopping = false := by
        simp only [Bool.and_eq_true, Bool.not_eq_eq_eq_not, Bool.not_true] at hc; exact hc
      -- `coordStop` proceeds and sets `_stopping`: build `DInv` of the flagged state with `pflag` by stopping afterwards
      have key : DInv (coordStop cfg { s with stopDraining := true } err user).1 := by
        unfold coordStop
        have hg : (!({ s with stopDraining := true } : St).started || ({ s with stopDraining := true } : St).stopping) = false := by
          simp [hst.1, hst.2]
        simp only [hg, Bool.false_eq_true, if_false]
        have h1 : DInv { s with stopDraining := true, stopping := true, rejoinNeeded := false } :=
          ⟨h.dw, h.psub, h.ssub, fun _ => rfl, fun _ => Or.inr rfl⟩
        split
        · exact h1
        · simp only [andThen_fst]
          have h2 : DInv (stopCancelDc { s with stopDraining := true, stopping := true, rejoinNeeded := false }).1 :=
            h1.transfer (NoNewDrain.of_cons (by simp)) (by simp) (by simp) (fun _ => by simp) (by simp) (fun _ => by simp)
          have h3 : DInv (stopCancelHb cfg (stopCancelDc { s with stopDraining := true, stopping := true, rejoinNeeded := false }).1).1 := by
            unfold stopCancelHb
            split
            · simp only []
              split
              · simp only [andThen_fst]
                refine rejoinCore_dinv ?_ cfg _
                exact h2.transfer (NoNewDrain.of_cons rfl) rfl rfl (fun x => x) Iff.rfl (fun _ => rfl)
              · exact h2.transfer (NoNewDrain.of_cons rfl) rfl rfl (fun x => x) Iff.rfl (fun _ => rfl)
            · exact h2
          have h4 : DInv (stopLooper (stopCancelHb cfg (stopCancelDc { s with stopDraining := true, stopping := true, rejoinNeeded := false }).1).1).1 :=
            h3.transfer (NoNewDrain.of_cons (by simp)) (by simp) (by simp) (fun x => by simpa using x) (by simp) (fun _ => by simp)
          refine leaveOrFinish_dinv h4 ?_ cfg err user
          simpa using hrd
      exact key
    · have h1 : DInv { s with stopDraining := true } :=
        ⟨h.dw, h.psub, h.ssub, fun _ => rfl, fun j => absurd j hp⟩
      exact stopLoop_dinv h1 hrd (fun _ => rfl) cfg err user
  · rename_i hc
    -- not started, or stopping already: no consumer is held, the loop goes straight to `Coordinator.stop`
    have hn : NoHeld s := by
      refine hnh ?_
      intro ⟨a, b⟩
      simp [a, b] at hc
    exact stopLoop_dinv h hrd (fun x => by rw [(heldCids_isEmpty s).mpr hn] at x; cases x) cfg err user

end Afkak.Group

namespace Afkak.Group
open Afkak.Consts

theorem stopCall_dinv {s : St} (h : DInv s) (hs : SInv s) (cfg : Cfg) (err : Option GErr) (user : Bool) :
    DInv (stopCall cfg s err user).1 := by
  refine stopCall_dinv' h (fun x => by rw [rd_idle hs x]; decide) (fun j => hs.mid_noheld (Or.inl j)) ?_ cfg err user
  intro hc
  by_cases hst : s.started = true
  · by_cases hsp : s.stopping = true
    · exact hs.stop_noheld hsp
    · exact absurd ⟨hst, by simpa using hsp⟩ hc
  · by_cases hsp : s.stopping = true
    · exact hs.stop_noheld hsp
    · have := (hs.pristine_empty (by simpa using hst) (by simpa using hsp)).2.1
      intro c hcm; rw [this] at hcm; cases hcm

theorem rejoinAfterError_dinv {s : St} (h : DInv s) (hw : WInv s) (hrd : s.rejoinD = false → s.jpc ≠ .prepare)
    (cfg : Cfg) (e : GErr) : DInv (rejoinAfterError cfg s e).1 := by
  unfold rejoinAfterError
  simp only []
  split
  · rename_i hf
    simp only [andThen_fst]
    have hfat : (rejoinRow s.stopping e).act = .fatal := (rejoinWith_flag cfg s _).mp hf
    have nh : NoHeld (rejoinCore cfg s e).1.1 := rejoinWith_fatal_noheld hw cfg _ hfat
    have c := rejoinWith_ctl cfg s (rejoinRow s.stopping e)
    refine stopCall_dinv' (rejoinCore_dinv h cfg e) ?_ (fun _ => nh) (fun _ => nh) cfg _ _
    show (rejoinWith cfg s (rejoinRow s.stopping e)).1.1.rejoinD = false → (rejoinWith cfg s (rejoinRow s.stopping e)).1.1.jpc ≠ .prepare
    rw [c.rejoinD, c.jpc]; exact hrd
  · exact rejoinCore_dinv h cfg e

theorem escape_dinv {s : St} (h : DInv s) (hw : WInv s) (hj : s.jpc ≠ .prepare) (cfg : Cfg) (e : GErr) : DInv (escape cfg s e).1 := by
  have hq : (escape cfg s e).1 = if escapeRejoins e then (rejoinAfterError cfg { s with jpc := .idle, rejoinD := false } e).1
      else { s with jpc := .idle, rejoinD := false } := escape_eq cfg s e
  rw [hq]
  have h0 := dinv_set_jpc h hj .idle (by decide) false
  split
  · refine rejoinAfterError_dinv h0 ?_ (fun _ => by simp) cfg e
    constructor
    · exact hw.stop_needed
    · exact hw.hb_timer
    · exact hw.timer_lt
    · exact hw.timer_uniq
    · exact hw.dc_active
    · exact hw.held_running
    · exact hw.held_cur
    · exact hw.stop_noheld
    · exact hw.leave_stop
    · exact hw.start_res
    · intro a b; exact ⟨(hw.pristine a b).1, rfl, rfl⟩
  · exact h0

theorem afterPrepare_dinv {s : St} (hj : s.jpc ≠ .prepare) (h : DInv s) : DInv (afterPrepare s).1 := by
  unfold afterPrepare
  split
  · exact dinv_set_jpc h hj .idle (by decide) false
  · exact dinv_set_jpc h hj .join (by decide) s.rejoinD

end Afkak.Group

namespace Afkak.Group
open Afkak.Consts

theorem splitStops_spec (cid : Nat) : ∀ (l : List StopCo) (a : List StopCo) (co : StopCo) (b : List StopCo),
    splitStops cid l = some (a, co, b) → l = a ++ co :: b ∧ cid ∈ co.drain.pending := by
  intro l
  induction l with
  | nil => intro a co b h; simp [splitStops] at h
  | cons x xs ih =>
    intro a co b h
    simp only [splitStops] at h
    split at h
    · rename_i hx
      simp only [Option.some.injEq, Prod.mk.injEq] at h
      obtain ⟨rfl, rfl, rfl⟩ := h
      exact ⟨rfl, by simpa using hx⟩
    · split at h
      · rename_i a' x' b' hsp
        simp only [Option.some.injEq, Prod.mk.injEq] at h
        obtain ⟨rfl, rfl, rfl⟩ := h
        obtain ⟨e, m⟩ := ih _ _ _ hsp
        exact ⟨by rw [e]; rfl, m⟩
      · cases h

theorem prepare_dinv {s : St} (h : DInv s) (hj : s.jpc ≠ .prepare) : DInv (prepare s).1 := by
  unfold prepare
  split
  · exact dinv_set_jpc h hj .hang (by decide) s.rejoinD
  · rename_i hfl
    split
    · exact afterPrepare_dinv hj h
    · simp only []
      split
      · rename_i hnow
        simp only [andThen_fst]
        have h1 : DInv (drainDone (beginDrain s).1 (beginDrain s).2.2 (!drainFails s)).1 :=
          h.transfer (drainNow_nnd s hnow) (by simp) (by simp) (fun x => by simpa using x) (by simp) (fun _ => by simp)
        exact afterPrepare_dinv (by simpa using hj) h1
      · constructor
        · intro c' hc' hp
          rcases beginDrain_drain s c' hc' hp with ⟨c0, h0, e0, p0⟩ | x
          · obtain ⟨co, hco, m⟩ := h.dws hj c0 h0 p0
            right; exact ⟨co, hco, by rw [← e0]; exact m⟩
          · left; exact ⟨rfl, x⟩
        · intro _; exact beginDrain_sub s
        · exact h.ssub
        · exact h.sflag
        · intro _; left; simpa using hfl

/-- the consumers after `consumerDown`'s bookkeeping: the draining ones were draining and are not `cid` -/
theorem down_map_drain (s : St) (cid : Nat) :
    ∀ c' ∈ (s.cons.map fun (c : Con) => if c.cid = cid && c.phase == .draining then { c with phase := .stopped, startFired := true } else c),
      c'.phase = .draining → ∃ c ∈ s.cons, c.cid = c'.cid ∧ c.phase = .draining ∧ c'.cid ≠ cid := by
  intro c' hc' hp
  obtain ⟨c, hc, rfl⟩ := List.mem_map.mp hc'
  split at hp
  · cases hp
  · rename_i hn
    refine ⟨c, hc, by simp [hn], by simpa [hn] using hp, ?_⟩
    have hp' : c.phase = .draining := by simpa [hn] using hp
    rw [if_neg hn]
    intro he
    simp [he, hp'] at hn

theorem consumerDown_dinv {s : St} (h : DInv s) (hs : SInv s) (cfg : Cfg) (cid : Nat) (ok : Bool) :
    DInv (consumerDown cfg s cid ok).1 := by
  unfold consumerDown
  have hm := down_map_drain s cid
  (try simp only [])
  split
  · rename_i hc
    simp only [Bool.and_eq_true, decide_eq_true_eq, List.contains_eq_mem] at hc
    obtain ⟨hj, hin⟩ := hc
    split
    · -- still waiting
      constructor
      · intro c' hc' hp
        obtain ⟨c, hc0, e0, p0, ne⟩ := hm c' hc' hp
        rcases h.dw c hc0 p0 with ⟨_, m⟩ | ⟨co, hco, m⟩
        · left; exact ⟨hj, List.mem_filter.mpr ⟨by rw [← e0]; exact m, by simpa using ne⟩⟩
        · right; exact ⟨co, hco, by rw [← e0]; exact m⟩
      · intro _ x hx; exact h.psub hj x (List.mem_filter.mp hx).1
      · exact h.ssub
      · exact h.sflag
      · exact h.pflag
    · rename_i hdone
      simp only [andThen_fst]
      -- every consumer still draining is waited for by a stop
      have key : ∀ c'' ∈ (drainDone { s with cons := s.cons.map fun (c : Con) => if c.cid = cid && c.phase == .draining then { c with phase := .stopped, startFired := true } else c, prep := ⟨[], []⟩ }
            { s.prep with pending := s.prep.pending.filter (· != cid) } ok).1.cons,
          c''.phase = .draining → ∃ co ∈ s.stops, c''.cid ∈ co.drain.pending := by
        intro c'' hc'' hp
        unfold drainDone at hc''
        by_cases hok : ok = true
        · simp only [hok, if_true] at hc''
          obtain ⟨c, hc0, e0, p0, ne⟩ := hm c'' hc'' hp
          rcases h.dw c hc0 p0 with ⟨_, m⟩ | ⟨co, hco, m⟩
          · have : c''.cid ∈ s.prep.pending.filter (· != cid) := List.mem_filter.mpr ⟨by rw [← e0]; exact m, by simpa using ne⟩
            simp only [hok, Bool.true_and, Bool.not_eq_eq_eq_not, Bool.not_true, List.isEmpty_eq_false_iff, ne_eq, Decidable.not_not] at hdone
            rw [hdone] at this; cases this
          · exact ⟨co, hco, by rw [← e0]; exact m⟩
        · simp only [hok, Bool.false_eq_true, if_false] at hc''
          obtain ⟨c1, hc1, e1, p1⟩ := stopCons_nnd _ _ c'' hc'' hp
          obtain ⟨c, hc0, e0, p0, ne⟩ := hm c1 hc1 p1
          rcases h.dw c hc0 p0 with ⟨_, m⟩ | ⟨co, hco, m⟩
          · exact absurd hp (stopCons_undrains _ _ c'' hc'' (by rw [← e1, ← e0]; exact h.psub hj _ m))
          · exact ⟨co, hco, by rw [← e1, ← e0]; exact m⟩
      unfold afterPrepare
      split
      · exact dinv_of_stops (by simp) (fun c hc hp => by obtain ⟨co, h1, h2⟩ := key c hc hp; exact ⟨co, by simpa using h1, h2⟩)
          (by simpa using h.ssub) (by simpa using h.sflag)
      · exact dinv_of_stops (by simp) (fun c hc hp => by obtain ⟨co, h1, h2⟩ := key c hc hp; exact ⟨co, by simpa using h1, h2⟩)
          (by simpa using h.ssub) (by simpa using h.sflag)
  · rename_i hnp
    split
    · exact h.transfer (fun c' hc' hp => by obtain ⟨c, a, b, c2, _⟩ := hm c' hc' hp; exact ⟨c, a, b, c2⟩) rfl rfl (fun x => x) Iff.rfl (fun _ => rfl)
    · rename_i a co b hsp
      obtain ⟨hl, hcid⟩ := splitStops_spec cid _ _ _ _ hsp
      have hl' : s.stops = a ++ co :: b := hl
      split
      · -- still waiting: the entry's pending list shrinks
        constructor
        · intro c' hc' hp
          obtain ⟨c, hc0, e0, p0, ne⟩ := hm c' hc' hp
          rcases h.dw c hc0 p0 with ⟨j, m⟩ | ⟨co', hco', m⟩
          · left; exact ⟨j, by rw [← e0]; exact m⟩
          · right
            rw [hl'] at hco'
            rcases List.mem_append.mp hco' with x | x
            · exact ⟨co', List.mem_append_left _ x, by rw [← e0]; exact m⟩
            · rcases List.mem_cons.mp x with rfl | x
              · exact ⟨_, List.mem_append_right _ (List.mem_cons_self), List.mem_filter.mpr ⟨by rw [← e0]; exact m, by simpa using ne⟩⟩
              · exact ⟨co', List.mem_append_right _ (List.mem_cons_of_mem _ x), by rw [← e0]; exact m⟩
        · exact h.psub
        · intro co' hco'
          rcases List.mem_append.mp hco' with x | x
          · exact h.ssub co' (by rw [hl']; exact List.mem_append_left _ x)
          · rcases List.mem_cons.mp x with rfl | x
            · intro y hy; exact h.ssub co (by rw [hl']; simp) y (List.mem_filter.mp hy).1
            · exact h.ssub co' (by rw [hl']; exact List.mem_append_right _ (List.mem_cons_of_mem _ x))
        · intro _; exact h.sflag (by rw [hl']; simp)
        · exact h.pflag
      · rename_i hdone
        simp only [andThen_fst]
        have hflag : s.stopDraining = true := h.sflag (by rw [hl']; simp)
        have h3 : DInv (drainDone { s with cons := s.cons.map fun (c : Con) => if c.cid = cid && c.phase == .draining then { c with phase := .stopped, startFired := true } else c, stops := a ++ b }
            { co.drain with pending := co.drain.pending.filter (· != cid) } ok).1 := by
          have hst : ∀ co' ∈ a ++ b, co' ∈ s.stops := by
            intro co' hco'; rw [hl']
            rcases List.mem_append.mp hco' with x | x
            · exact List.mem_append_left _ x
            · exact List.mem_append_right _ (List.mem_cons_of_mem _ x)
          constructor
          · intro c'' hc'' hp
            unfold drainDone at hc'' ⊢
            by_cases hok : ok = true
            · simp only [hok, if_true] at hc'' ⊢
              obtain ⟨c, hc0, e0, p0, ne⟩ := hm c'' hc'' hp
              rcases h.dw c hc0 p0 with ⟨j, m⟩ | ⟨co', hco', m⟩
              · left; exact ⟨j, by rw [← e0]; exact m⟩
              · rw [hl'] at hco'
                rcases List.mem_append.mp hco' with x | x
                · right; exact ⟨co', List.mem_append_left _ x, by rw [← e0]; exact m⟩
                · rcases List.mem_cons.mp x with rfl | x
                  · have : c''.cid ∈ co'.drain.pending.filter (· != cid) := List.mem_filter.mpr ⟨by rw [← e0]; exact m, by simpa using ne⟩
                    simp only [hok, Bool.true_and, Bool.not_eq_eq_eq_not, Bool.not_true, List.isEmpty_eq_false_iff, ne_eq, Decidable.not_not] at hdone
                    rw [hdone] at this; cases this
                  · right; exact ⟨co', List.mem_append_right _ x, by rw [← e0]; exact m⟩
            · simp only [hok, Bool.false_eq_true, if_false] at hc'' ⊢
              obtain ⟨c1, hc1, e1, p1⟩ := stopCons_nnd _ _ c'' hc'' hp
              obtain ⟨c, hc0, e0, p0, ne⟩ := hm c1 hc1 p1
              rcases h.dw c hc0 p0 with ⟨j, m⟩ | ⟨co', hco', m⟩
              · left; exact ⟨j, by rw [← e1, ← e0]; exact m⟩
              · rw [hl'] at hco'
                rcases List.mem_append.mp hco' with x | x
                · right; exact ⟨co', List.mem_append_left _ x, by rw [← e1, ← e0]; exact m⟩
                · rcases List.mem_cons.mp x with rfl | x
                  · exact absurd hp (stopCons_undrains _ _ c'' hc'' (by rw [← e1, ← e0]; exact h.ssub co' (by rw [hl']; simp) _ m))
                  · right; exact ⟨co', List.mem_append_right _ x, by rw [← e1, ← e0]; exact m⟩
          · intro j; have := (drainDone_ctl _ _ _).1 ▸ j; simpa using h.psub (by simpa [drainDone_ctl] using j)
          · intro co' hco'; exact h.ssub co' (hst co' (by simpa using hco'))
          · intro _; simpa using hflag
          · intro j
            have j' : s.jpc = .prepare := by simpa [drainDone_ctl] using j
            rcases h.pflag j' with x | x
            · left; simpa using x
            · right; simpa [drainDone_ctl] using x
        refine stopLoop_dinv h3 ?_ (fun _ => by simpa using hflag) cfg co.err co.user
        intro x
        have x' : s.rejoinD = false := by simpa [drainDone_ctl] using x
        have : s.jpc = .idle := rd_idle hs x'
        simp [drainDone_ctl, this]

end Afkak.Group
