import AfkakProofs.Group.DrainStep
/-!
# C16, strict reading of "after stop": no JoinGroup once `stop()` has been called

`_stop_draining` is never reset; a step that issues a JoinGroup leaves it unset (`step_join_sd`).
-/
namespace Afkak.Group
open Afkak.Consts Afkak.Monitor.C16

theorem stopCall_sd_mono (cfg : Cfg) (s : St) (err : Option GErr) (user : Bool) (h : s.stopDraining = true) :
    (stopCall cfg s err user).1.stopDraining = true := by
  unfold stopCall
  rw [stopLoop_stopDraining']
  split
  · rfl
  · exact h

theorem rejoinAfterError_sd_mono (cfg : Cfg) (s : St) (e : GErr) (h : s.stopDraining = true) :
    (rejoinAfterError cfg s e).1.stopDraining = true := by
  unfold rejoinAfterError
  simp only []
  split
  · simp only [andThen_fst]; exact stopCall_sd_mono _ _ _ _ (by rw [rejoinCore_stopDraining']; exact h)
  · rw [rejoinCore_stopDraining']; exact h

theorem escape_sd_mono (cfg : Cfg) (s : St) (e : GErr) (h : s.stopDraining = true) :
    (escape cfg s e).1.stopDraining = true := by
  unfold escape
  simp only []
  split
  · simp only [andThen_fst]; exact stopCall_sd_mono _ _ _ _ (by rw [escapeCore_stopDraining']; exact h)
  · rw [escapeCore_stopDraining']; exact h

/-- `_stop_draining` is never reset -/
theorem step_sd_mono (cfg : Cfg) (s : St) (e : Ev) (h : s.stopDraining = true) : (step cfg s e).1.stopDraining = true := by
  cases e with
  | start =>
    simp only [step]; split
    · exact h
    · rw [joinAndSync_stopDraining']; exact h
  | stop =>
    simp only [step]
    rcases userStop_cases cfg s with ⟨hu, _, _⟩ | hu <;> rw [hu]
    · exact h
    · exact stopCall_sd_mono cfg s none true h
  | coordDone r =>
    simp only [step]; split
    · exact h
    · cases r with
      | ok => exact h
      | none => exact h
      | err e =>
        simp only []
        split
        · exact escape_sd_mono cfg s e h
        · exact h
        · exact h
  | metaDone r =>
    simp only [step]; split
    · exact h
    · cases r with
      | err e => exact escape_sd_mono cfg s e h
      | ok =>
        simp only []
        split
        · exact h
        · rw [prepare_stopDraining']; exact h
  | joinDone r =>
    simp only [step]; split
    · exact h
    · cases r with
      | err e => simp only [andThen_fst]; exact rejoinAfterError_sd_mono cfg _ e h
      | ok m g l n =>
        simp only [abandonHb_eq, andThen_fst]
        split
        · exact h
        · split <;> exact h
  | partsDone r =>
    simp only [step]; split
    · cases r with
      | err e => exact escape_sd_mono cfg s e h
      | ok => simp only []; split <;> exact h
    · exact h
  | syncDone r =>
    simp only [step]; split
    · exact h
    · cases r with
      | err e => simp only [andThen_fst]; exact rejoinAfterError_sd_mono cfg _ e h
      | ok a =>
        simp only []
        split
        · exact h
        · simp only [andThen_fst]
          unfold startConsumers
          simp only []
          rw [resetHeartbeat_stopDraining']; exact h
  | hbDone r =>
    simp only [step]; split
    · exact h
    · cases r with
      | ok => exact h
      | err e =>
        simp only []
        split
        · simp only [andThen_fst]; exact rejoinAfterError_sd_mono cfg _ e h
        · exact h
  | leaveDone r =>
    simp only [step]; split
    · exact h
    · rw [finishStop_stopDraining']; cases r <;> exact h
  | consumerDown cid ok =>
    simp only [step]; split
    · rw [consumerDown_stopDraining']; exact h
    · exact h
  | consumerErr cid e =>
    simp only [step]; split
    · split
      · exact h
      · exact rejoinAfterError_sd_mono cfg _ e h
    · exact h
  | consumerQuirk cid q => simp only [step]; split <;> exact h
  | fire id hbNext =>
    simp only [step]
    split
    · exact h
    split
    · exact h
    · split
      · exact h
      · split
        · rw [joinAndSync_stopDraining']; exact h
        · rw [joinAndSync_stopDraining']; exact h
        · simp only [andThen_fst]
          split <;> split <;> exact h
  | advance dt => simp only [step]; split <;> exact h

/-- a `stop()` called on a started, not stopping member sets `_stop_draining` -/
theorem stop_sets_sd (cfg : Cfg) (s : St) (hst : s.started = true) (hns : s.stopping = false) :
    (step cfg s .stop).1.stopDraining = true := by
  simp only [step]
  rcases userStop_cases cfg s with ⟨hu, hd, _⟩ | hu <;> rw [hu]
  · exact hd
  · unfold stopCall
    rw [stopLoop_stopDraining', hst, hns]
    rfl

theorem noJoinAfterStopCalled_runFrom (cfg : Cfg) (evs : List Ev) :
    ∀ (s : St) (called : Bool), SInv s → DInv s → (called = true → s.stopDraining = true) →
      noJoinAfterStopCalledFrom (snap s) called (toMSteps (runFrom cfg s evs)) = true := by
  induction evs with
  | nil => intro s c _ _ _; rfl
  | cons e es ih =>
    intro s called h hd hc
    simp only [runFrom, toMSteps, List.map_cons, noJoinAfterStopCalledFrom]
    have hc' : (called || (isStopEv e && (snap s).started && !(snap s).stopping)) = true → (step cfg s e).1.stopDraining = true := by
      intro x
      rcases Bool.or_eq_true _ _ |>.mp x with a | a
      · exact step_sd_mono cfg s e (hc a)
      · simp only [Bool.and_eq_true, Bool.not_eq_true'] at a
        obtain ⟨⟨a1, a2⟩, a3⟩ := a
        cases e <;> first | exact stop_sets_sd cfg s a2 a3 | (cases a1)
    rw [Bool.and_eq_true]
    refine ⟨?_, ih _ _ (step_sinv h cfg e) (step_dinv hd h cfg e) hc'⟩
    by_cases hj : (step cfg s e).2.any isJoinOb = true
    · obtain ⟨o, ho, hjo⟩ := List.any_eq_true.mp hj
      have hsd := step_join_sd hd cfg e o ho hjo
      cases hx : (called || (isStopEv e && (snap s).started && !(snap s).stopping)) with
      | false => rfl
      | true => rw [hc' hx] at hsd; cases hsd
    · simp only [Bool.not_eq_true] at hj
      rw [hj]; simp

/-- **no JoinGroup after `stop()` was called** (strict reading), on every run -/
theorem noJoinAfterStopCalled_run (cfg : Cfg) (evs : List Ev) : noJoinAfterStopCalled (toMSteps (run cfg evs)) = true :=
  noJoinAfterStopCalled_runFrom cfg evs init false sinv_init dinv_init (fun h => by cases h)

end Afkak.Group
