import Afkak.Group
import Afkak.Monitor.C16
import Afkak.Monitor.C17
/-!
Facts about the GENERATED error tables (`rejoinRow`, `coordFailRow`, `escapeRejoins`), each proved by
case analysis on the error kind: they re-check whenever the extractor regenerates the tables from
`afkak/_group.py`.
-/
namespace Afkak.Group.Tables
open Afkak.Group Afkak.Consts

/-- clearing the member id only happens together with stopping the consumers -/
theorem clearMember_leave (st : Bool) (e : GErr) : (rejoinRow st e).clearMember = true → (rejoinRow st e).leave = true := by
  cases st <;> cases e <;> decide

/-- eviction errors stop the consumers, whether or not the member is stopping -/
theorem eviction_leave (st : Bool) (e : GErr) (h : Afkak.Monitor.C16.isEviction e = true) :
    (rejoinRow st e).leave = true ∧ (rejoinRow st e).act ≠ .ignore ∧ (rejoinRow st e).act ≠ .fatal := by
  cases st <;> cases e <;> simp_all [Afkak.Monitor.C16.isEviction] <;> decide

/-- while running, every Kafka error schedules a rejoin -/
theorem kafka_rejoins (e : GErr) (h : Afkak.Monitor.C17.isKafka e = true) : (rejoinRow false e).act = .rejoin := by
  cases e <;> simp_all [Afkak.Monitor.C17.isKafka] <;> decide

/-- … with the documented back-off -/
theorem kafka_delay (cfg : Cfg) (site : Afkak.Monitor.C17.Site) (hs : site ≠ .lookup) (e : GErr) (h : Afkak.Monitor.C17.isKafka e = true) :
    (if (rejoinRow false e).fatalDelay then cfg.fatalBackoffMs else cfg.retryBackoffMs)
      = Afkak.Monitor.C17.documentedDelayMs cfg site e := by
  cases site <;> cases e <;> simp_all [Afkak.Monitor.C17.isKafka, Afkak.Monitor.C17.documentedDelayMs, rejoinRow, rejoinRowRunning]

/-- while running, a non-Kafka error is fatal (leave the group, surface on start's Deferred) -/
theorem nonKafka_fatal (e : GErr) (h : Afkak.Monitor.C17.isKafka e = false) : (rejoinRow false e).act = .fatal := by
  cases e <;> simp_all [Afkak.Monitor.C17.isKafka] <;> decide

/-- once stopping, no row schedules a rejoin -/
theorem stopping_no_rejoin (e : GErr) : (rejoinRow true e).act ≠ .rejoin := by
  cases e <;> decide

/-- a failed coordinator look-up is retried after the documented back-off for every Kafka error -/
theorem lookup_retry (cfg : Cfg) (e : GErr) (h : Afkak.Monitor.C17.isKafka e = true) :
    (coordFailRow e = .retryInitial ∧ Afkak.Monitor.C17.documentedDelayMs cfg .lookup e = cfg.initialBackoffMs) ∨
    (coordFailRow e = .retryFatal ∧ Afkak.Monitor.C17.documentedDelayMs cfg .lookup e = cfg.fatalBackoffMs) := by
  cases e <;> simp_all [Afkak.Monitor.C17.isKafka, Afkak.Monitor.C17.documentedDelayMs, coordFailRow]

/-- an escaping error is routed to `rejoin_after_error` exactly when it is a Kafka error -/
theorem escape_iff_kafka (e : GErr) : escapeRejoins e = Afkak.Monitor.C17.isKafka e := by
  cases e <;> decide

theorem lookup_propagate_nonKafka (e : GErr) : coordFailRow e = .propagate ↔ Afkak.Monitor.C17.isKafka e = false := by
  cases e <;> decide

/-- while running, every row either schedules a rejoin or is fatal -/
theorem running_rejoin_or_fatal (e : GErr) : (rejoinRow false e).act = .rejoin ∨ (rejoinRow false e).act = .fatal := by
  cases e <;> decide

/-- an escaping error that is routed to `rejoin_after_error` is never fatal there -/
theorem escape_not_fatal (st : Bool) (e : GErr) (h : escapeRejoins e = true) : (rejoinRow st e).act ≠ .fatal := by
  cases st <;> cases e <;> simp_all [escapeRejoins] <;> decide

/-- an eviction that makes the coordinator forget the member resets the member id -/
theorem forgets_clears (st : Bool) (e : GErr) (h : Afkak.Monitor.C17.forgetsMember e = true) :
    (rejoinRow st e).clearMember = true ∧ (rejoinRow st e).act ≠ .ignore := by
  cases st <;> cases e <;> simp_all [Afkak.Monitor.C17.forgetsMember] <;> decide

end Afkak.Group.Tables
